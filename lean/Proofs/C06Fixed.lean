import Proofs.C06Index
/-!
With the read-side repair (`cfg.readsFix`) the index helpers address, for EVERY 2-d index, exactly
the cells of the list-of-rows model (`IdxAgree`), with the same error otherwise.
-/
namespace Ens.RaggedW
variable {α : Type}

theorem mapE_append {β γ : Type} (f : β → Except Err γ) (a b : List β) :
    mapE f (a ++ b) = bindE (mapE f a) (fun ya => mapOk (ya ++ ·) (mapE f b)) := by
  induction a with
  | nil =>
    simp only [List.nil_append, mapE, bindE_ok]
    cases mapE f b <;> simp
  | cons x xs ih =>
    simp only [List.cons_append, mapE]
    cases f x with
    | error e => simp
    | ok y =>
      simp only [ih]
      cases mapE f xs with
      | error e => simp
      | ok ys =>
        simp only [bindE_ok]
        cases mapE f b <;> simp

/-- rows whose own conversion never fails once the row's pairs exist -/
theorem combine_rows (ls : List Nat) (F : Int → Except Err (List (Int × Int)))
    (G : Int → Except Err (List (Nat × Nat))) (nums : List Int)
    (h : ∀ num ∈ nums, (∃ e, F num = .error e ∧ G num = .error e) ∨
      (∃ pairs tg, F num = .ok pairs ∧ G num = .ok tg ∧
        convertFrom2d ls pairs = .ok (tg.map (flatOf ls)))) :
    bindE (mapOk List.flatten (mapE F nums)) (convertFrom2d ls) =
      mapOk (fun gs => gs.flatten.map (flatOf ls)) (mapE G nums) := by
  induction nums with
  | nil => simp [mapE, convertFrom2d]
  | cons num rest ih =>
    have ih' := ih (fun x hx => h x (by simp [hx]))
    simp only [mapE]
    rcases h num (by simp) with ⟨e, hF, hG⟩ | ⟨pairs, tg, hF, hG, hconv⟩
    · simp [hF, hG]
    · simp only [hF, hG]
      cases hFr : mapE F rest with
      | error e =>
        rw [hFr] at ih'
        simp only [mapOk_error, bindE_error] at ih'
        cases hGr : mapE G rest with
        | error e' =>
          rw [hGr] at ih'
          simp only [mapOk_error] at ih'
          injection ih' with ih'
          subst ih'
          simp
        | ok gs => rw [hGr] at ih'; simp at ih'
      | ok prs =>
        rw [hFr] at ih'
        simp only [mapOk_ok, bindE_ok] at ih'
        simp only [mapOk_ok, bindE_ok, List.flatten_cons]
        unfold convertFrom2d at hconv ih' ⊢
        rw [mapE_append, hconv, bindE_ok, ih']
        cases mapE G rest with
        | error e => simp
        | ok gs => simp

/-- rows whose pairs always exist (`_get_iis_from_list`) -/
theorem combine_rows_total (ls : List Nat) (H : Int → List (Int × Int))
    (G : Int → Except Err (List (Nat × Nat))) (nums : List Int)
    (h : ∀ num ∈ nums, convertFrom2d ls (H num) = mapOk (List.map (flatOf ls)) (G num)) :
    convertFrom2d ls (nums.flatMap H) = mapOk (fun gs => gs.flatten.map (flatOf ls)) (mapE G nums) := by
  induction nums with
  | nil => simp [mapE, convertFrom2d]
  | cons num rest ih =>
    have ih' := ih (fun x hx => h x (by simp [hx]))
    have h0 := h num (by simp)
    simp only [List.flatMap_cons, mapE]
    unfold convertFrom2d at h0 ih' ⊢
    rw [mapE_append, h0, ih']
    cases G num with
    | error e => simp
    | ok tg =>
      simp only [mapOk_ok, bindE_ok]
      cases mapE G rest with
      | error e => simp
      | ok gs => simp

end Ens.RaggedW

namespace Ens.RaggedW
variable {α : Type}

theorem mapE_eq_ok_map {β γ : Type} (f : β → Except Err γ) (g : β → γ) (l : List β)
    (h : ∀ x ∈ l, f x = .ok (g x)) : mapE f l = .ok (l.map g) := by
  induction l with
  | nil => rfl
  | cons x xs ih =>
    simp only [mapE, h x (by simp), ih (fun y hy => h y (by simp [hy])), List.map_cons]

theorem normIdx_ofNat {n j : Nat} (h : j < n) : normIdx n (Int.ofNat j) = .ok j := by
  unfold normIdx
  have h1 : (0 : Int) ≤ Int.ofNat j := Int.natCast_nonneg j
  have h2 : (Int.ofNat j) < (n : Int) := by
    show (j : Int) < (n : Int)
    exact_mod_cast h
  simp only [h1, if_true, h2]
  rfl

theorem mapOk_mapOk {β γ δ : Type} (f : β → γ) (g : γ → δ) (x : Except Err β) :
    mapOk g (mapOk f x) = mapOk (fun y => g (f y)) x := by
  cases x <;> rfl

/-- one row, column slice, patched helpers -/
theorem rowPairs_fixed (cfg : Cfg) (hr : cfg.readsFix = true) (rows : Rows α) (c : PySlice) (num : Int) :
    (∃ e, rowPairs cfg c (rows.map List.length) num = .error e ∧
        specRowCells rows (.slice c) num = .error e) ∨
    (∃ pairs tg, rowPairs cfg c (rows.map List.length) num = .ok pairs ∧
        specRowCells rows (.slice c) num = .ok tg ∧
        convertFrom2d (rows.map List.length) pairs = .ok (tg.map (flatOf (rows.map List.length)))) := by
  unfold rowPairs lenAt specRowCells
  simp only [List.length_map]
  cases hn : normIdx rows.length num with
  | error e => left; exact ⟨e, rfl, rfl⟩
  | ok i =>
    simp only [List.getElem?_map]
    cases hrow : rows[i]? with
    | none => left; exact ⟨_, rfl, rfl⟩
    | some row =>
      simp only [Option.map_some, colsOf, colsPy, hr, if_true, specColSel]
      cases hp : pyIndices row.length c with
      | error e => left; exact ⟨e, rfl, rfl⟩
      | ok ix =>
        right
        refine ⟨_, _, rfl, rfl, ?_⟩
        unfold convertFrom2d
        simp only [List.map_map]
        rw [mapE_map_arg]
        apply mapE_eq_ok_map
        intro j hj
        have hjl : j < row.length := pyIndices_lt hp j hj
        simp only [Function.comp, convertOne, List.length_map, hn, List.getElem?_map, hrow,
          Option.map_some, normIdx_ofNat hjl, flatOf]

/-- one valid row, integer / list columns -/
theorem listCols_fixed (rows : Rows α) (cols : List Int) (num : Int) (i : Nat) (row : List α)
    (hn : normIdx rows.length num = .ok i) (hrow : rows[i]? = some row) :
    convertFrom2d (rows.map List.length) (cols.map fun j => (num, j)) =
      mapOk (List.map (flatOf (rows.map List.length)))
        (match mapE (normIdx row.length) cols with
          | .error e => .error e
          | .ok cs => .ok (cs.map fun j => (i, j))) := by
  unfold convertFrom2d
  rw [mapE_map_arg]
  have : ∀ j ∈ cols, convertOne (rows.map List.length) (num, j) =
      mapOk (fun c => startOf (rows.map List.length) i + c) (normIdx row.length j) := by
    intro j _
    simp only [convertOne, List.length_map, hn, List.getElem?_map, hrow, Option.map_some]
    cases normIdx row.length j <;> rfl
  rw [mapE_congr cols this, mapE_map_ok]
  cases mapE (normIdx row.length) cols with
  | error e => rfl
  | ok cs => simp [flatOf, Function.comp]

theorem specRowCells_list (rows : Rows α) (cols : List Int) (num : Int) (i : Nat) (row : List α)
    (hn : normIdx rows.length num = .ok i) (hrow : rows[i]? = some row) (c : CSel)
    (hc : c = .list cols ∨ ∃ j, c = .int j ∧ cols = [j]) :
    specRowCells rows c num =
      (match mapE (normIdx row.length) cols with
        | .error e => .error e
        | .ok cs => .ok (cs.map fun j => (i, j))) := by
  unfold specRowCells
  simp only [hn, hrow]
  rcases hc with rfl | ⟨j, rfl, rfl⟩
  · simp only [specColSel]
    cases mapE (normIdx row.length) cols <;> rfl
  · simp only [specColSel]
    cases mapE (normIdx row.length) [j] <;> rfl

theorem specRowNums_valid {n : Nat} {s : PySlice} {nums : List Int}
    (h : specRowNums n (.slice s) = .ok nums) : ∀ num ∈ nums, ∃ i, i < n ∧ normIdx n num = .ok i := by
  unfold specRowNums at h
  cases hp : pyIndices n s with
  | error e => simp [hp] at h
  | ok ix =>
    simp only [hp] at h
    injection h with h
    subst h
    intro num hnum
    obtain ⟨i, hi, rfl⟩ := List.mem_map.mp hnum
    exact ⟨i, pyIndices_lt hp i hi, normIdx_ofNat (pyIndices_lt hp i hi)⟩

theorem sliceToList_fixed (cfg : Cfg) (hr : cfg.readsFix = true) (s : PySlice) (n : Nat) :
    sliceToList cfg s n = specRowNums n (.slice s) := by
  unfold sliceToList specRowNums
  simp only [hr, if_true]

theorem getIisFromSlices_fixed (cfg : Cfg) (hr : cfg.readsFix = true) (nums : List Int) (c : PySlice)
    (ls : List Nat) :
    getIisFromSlices cfg nums c ls = mapOk List.flatten (mapE (rowPairs cfg c ls) nums) := by
  unfold getIisFromSlices
  cases mapE (rowPairs cfg c ls) nums with
  | error e => rfl
  | ok groups => simp [hr]

/-- a column selector made of integers, seen as the list `_get_iis_from_list` receives -/
theorem slice_listCols_fixed (cfg : Cfg) (hr : cfg.readsFix = true) (rows : Rows α) (rs : PySlice)
    (cols : List Int) (c : CSel) (hc : c = .list cols ∨ ∃ j, c = .int j ∧ cols = [j]) :
    bindE (match sliceToList cfg rs rows.length with
        | .error e => .error e
        | .ok nums => getIisFromList cfg nums cols) (convertFrom2d (rows.map List.length)) =
      specFlat rows (.slice rs) c := by
  have hspec : specTargets rows (.slice rs) c =
      (match specRowNums rows.length (.slice rs) with
        | .error e => .error e
        | .ok nums => match mapE (specRowCells rows c) nums with
          | .error e => .error e
          | .ok groups => .ok groups.flatten) := by
    rcases hc with rfl | ⟨j, rfl, rfl⟩ <;> rfl
  unfold specFlat
  rw [hspec, sliceToList_fixed cfg hr]
  cases hnums : specRowNums rows.length (.slice rs) with
  | error e => rfl
  | ok nums =>
    have hvalid := specRowNums_valid hnums
    simp only [getIisFromList, hr, Bool.not_true, Bool.and_false, Bool.false_eq_true, if_false, bindE_ok]
    rw [combine_rows_total (rows.map List.length) (fun r => cols.map fun j => (r, j))
      (specRowCells rows c) nums]
    · cases mapE (specRowCells rows c) nums <;> rfl
    · intro num hnum
      obtain ⟨i, hi, hn⟩ := hvalid num hnum
      have hrow : rows[i]? = some rows[i] := List.getElem?_eq_getElem hi
      rw [listCols_fixed rows cols num i rows[i] hn hrow,
        specRowCells_list rows cols num i rows[i] hn hrow c hc]

theorem slices_fixed (cfg : Cfg) (hr : cfg.readsFix = true) (rows : Rows α) (nums : List Int) (cs : PySlice) :
    bindE (getIisFromSlices cfg nums cs (rows.map List.length)) (convertFrom2d (rows.map List.length)) =
      mapOk (fun gs => gs.flatten.map (flatOf (rows.map List.length)))
        (mapE (specRowCells rows (.slice cs)) nums) := by
  rw [getIisFromSlices_fixed cfg hr]
  exact combine_rows _ _ _ nums (fun num _ => rowPairs_fixed cfg hr rows cs num)

/-- **patched index helpers = list-of-rows addressing, for every 2-d index** -/
theorem idxAgree_fixed (cfg : Cfg) (hr : cfg.readsFix = true) {s : State α} (hc : Coherent s)
    (r : Sel) (c : CSel) : IdxAgree cfg s r c := by
  unfold IdxAgree flatIdx
  rw [hc.lengths_eq]
  cases r with
  | slice rs =>
    cases c with
    | slice cs =>
      simp only [iis2d, List.length_map]
      unfold specFlat specTargets
      simp only []
      rw [sliceToList_fixed cfg hr]
      cases hnums : specRowNums s.array.length (.slice rs) with
      | error e => rfl
      | ok nums =>
        simp only []
        rw [slices_fixed cfg hr]
        cases mapE (specRowCells s.array (.slice cs)) nums <;> rfl
    | int j =>
      simp only [iis2d, List.length_map]
      exact slice_listCols_fixed cfg hr s.array rs [j] (.int j) (Or.inr ⟨j, rfl, rfl⟩)
    | list l =>
      simp only [iis2d, List.length_map]
      exact slice_listCols_fixed cfg hr s.array rs l (.list l) (Or.inl rfl)
  | list nums =>
    cases c with
    | slice cs =>
      simp only [iis2d]
      unfold specFlat specTargets
      simp only [specRowNums]
      rw [slices_fixed cfg hr]
      cases mapE (specRowCells s.array (.slice cs)) nums <;> rfl
    | int j => rfl
    | list l => rfl

end Ens.RaggedW
