import Proofs.C06History
/-!
`a[mask] = v`: `where(mask)` + `_convert_from_1d` + `_convert_from_2d` address exactly the `True`
cells of the mask, row-major, whenever the mask has the row structure of the array.
-/
namespace Ens.RaggedW
variable {α : Type}

theorem trueIdx_shift (bs : List Bool) (k : Nat) : trueIdx bs k = (trueIdx bs 0).map (k + ·) := by
  induction bs generalizing k with
  | nil => rfl
  | cons b bs ih =>
    simp only [trueIdx]
    rw [ih (k + 1), ih (0 + 1)]
    cases b
    · simp only [Bool.false_eq_true, if_false, List.map_map]
      apply List.map_congr_left
      intro x _
      simp only [Function.comp]; omega
    · simp only [if_true, List.map_cons, List.map_map, Nat.add_zero]
      congr 1
      apply List.map_congr_left
      intro x _
      simp only [Function.comp]; omega

theorem trueIdx_append (a b : List Bool) (k : Nat) :
    trueIdx (a ++ b) k = trueIdx a k ++ trueIdx b (k + a.length) := by
  induction a generalizing k with
  | nil => simp [trueIdx]
  | cons x xs ih =>
    simp only [List.cons_append, trueIdx, ih, List.length_cons]
    have : k + 1 + xs.length = k + (xs.length + 1) := by omega
    rw [this]
    cases x <;> simp

theorem trueIdx_lt (bs : List Bool) (k : Nat) : ∀ i ∈ trueIdx bs k, k ≤ i ∧ i < k + bs.length := by
  induction bs generalizing k with
  | nil => simp [trueIdx]
  | cons b bs ih =>
    intro i hi
    simp only [trueIdx] at hi
    cases b
    · simp only [Bool.false_eq_true, if_false] at hi
      have := ih (k + 1) i hi
      simp only [List.length_cons]; omega
    · simp only [if_true, List.mem_cons] at hi
      rcases hi with rfl | hi
      · simp only [List.length_cons]; omega
      · have := ih (k + 1) i hi
        simp only [List.length_cons]; omega

/-- flat positions of the `True` cells = flat offsets of the row-major `True` cells -/
theorem trueIdx_flatten (mask : List (List Bool)) :
    trueIdx mask.flatten 0 = (specMaskTargets mask).map (flatOf (mask.map List.length)) := by
  induction mask with
  | nil => rfl
  | cons row rest ih =>
    simp only [List.flatten_cons, trueIdx_append, Nat.zero_add, specMaskTargets, List.map_append,
      List.map_map, List.map_cons]
    congr 1
    · have : List.map (flatOf (row.length :: rest.map List.length) ∘ fun c => (0, c)) (trueIdx row 0)
          = List.map id (trueIdx row 0) := by
        apply List.map_congr_left
        intro c _
        simp [flatOf, Function.comp]
      rw [this, List.map_id]
    · rw [trueIdx_shift, ih, List.map_map]
      apply List.map_congr_left
      intro p _
      simp only [flatOf, Function.comp, startOf_cons_succ]
      omega

theorem specMaskTargets_valid (mask : List (List Bool)) (rows : Rows α)
    (h : mask.map List.length = rows.map List.length) : ValidTargets rows (specMaskTargets mask) := by
  induction mask generalizing rows with
  | nil => intro p hp; simp [specMaskTargets] at hp
  | cons mrow mrest ih =>
    cases rows with
    | nil => simp at h
    | cons row rest =>
      simp only [List.map_cons, List.cons.injEq] at h
      intro p hp
      simp only [specMaskTargets, List.mem_append, List.mem_map] at hp
      rcases hp with ⟨c, hc, rfl⟩ | ⟨q, hq, rfl⟩
      · refine ⟨row, rfl, ?_⟩
        have := (trueIdx_lt mrow 0 c hc).2
        omega
      · obtain ⟨r', h1, h2⟩ := ih rest h.2 q hq
        exact ⟨r', by simpa using h1, h2⟩

theorem findRowAux_none (ii : Nat) (sts : List Nat) (k best : Nat) (h : ∀ st ∈ sts, ii < st) :
    findRowAux ii sts k best = best := by
  induction sts generalizing k best with
  | nil => rfl
  | cons st rest ih =>
    simp only [findRowAux]
    have : ¬ st ≤ ii := by have := h st (by simp); omega
    simp only [this, if_false]
    exact ih (k + 1) best (fun x hx => h x (by simp [hx]))

theorem startsFrom_ge (ls : List Nat) (acc : Nat) : ∀ st ∈ startsFrom acc ls, acc ≤ st := by
  induction ls generalizing acc with
  | nil => simp [startsFrom]
  | cons l ls ih =>
    intro st hst
    simp only [startsFrom, List.mem_cons] at hst
    rcases hst with rfl | hst
    · omega
    · have := ih (acc + l) st hst; omega

/-- the row found for the flat position of cell `(r, c)` is `r` (also with empty rows around) -/
theorem findRowAux_startsFrom (ls : List Nat) : ∀ (acc k best r c : Nat) (hr : r < ls.length),
    c < ls[r] → findRowAux (acc + startOf ls r + c) (startsFrom acc ls) k best = k + r := by
  induction ls with
  | nil => intro _ _ _ r _ hr; simp at hr
  | cons l ls ih =>
    intro acc k best r c hr hc
    cases r with
    | zero =>
      simp only [List.getElem_cons_zero] at hc
      simp only [startOf_zero, Nat.add_zero, startsFrom, findRowAux]
      have : acc ≤ acc + c := by omega
      simp only [this, if_true]
      rw [findRowAux_none]
      intro st hst
      have := startsFrom_ge ls (acc + l) st hst
      omega
    | succ r =>
      simp only [List.getElem_cons_succ] at hc
      simp only [startOf_cons_succ, startsFrom, findRowAux]
      have h1 : acc + (l + startOf ls r) + c = (acc + l) + startOf ls r + c := by omega
      rw [h1, ih (acc + l) (k + 1) _ r c (by simpa using hr) hc]
      omega

theorem convertOne_enc (rows : Rows α) (p : Nat × Nat) (row : List α) (h1 : rows[p.1]? = some row)
    (h2 : p.2 < row.length) :
    convertOne (rows.map List.length) ((p.1 : Int), (p.2 : Int)) = .ok (flatOf (rows.map List.length) p) := by
  have hr : p.1 < rows.length := by
    rcases List.getElem?_eq_some_iff.mp h1 with ⟨hlt, _⟩
    exact hlt
  simp only [convertOne, List.length_map]
  have e1 : normIdx rows.length ((p.1 : Nat) : Int) = .ok p.1 := normIdx_ofNat hr
  have e2 : normIdx row.length ((p.2 : Nat) : Int) = .ok p.2 := normIdx_ofNat h2
  simp only [e1, List.getElem?_map, h1, Option.map_some, e2, flatOf]

/-- **the mask addresses its `True` cells** -/
theorem maskAgree_of_lengths (cfg : Cfg) {s : State α} (hc : Coherent s) (mask : List (List Bool))
    (hlen : mask.map List.length = s.lengths)
    (hne : cfg.readsFix = true ∨ (whereMask mask).isEmpty = false) : MaskAgree cfg s mask := by
  have hl := hc.lengths_eq
  have hlen' : mask.map List.length = s.array.map List.length := by rw [hlen, hl]
  have hvalid := specMaskTargets_valid mask s.array hlen'
  refine ⟨hlen, ?_, hvalid, hne⟩
  -- whereMask = the encoded targets
  have hw : whereMask mask = (specMaskTargets mask).map (fun p => ((p.1 : Int), (p.2 : Int))) := by
    unfold whereMask
    simp only []
    rw [trueIdx_flatten, List.map_map]
    apply List.map_congr_left
    intro p hp
    obtain ⟨row, h1, h2⟩ := hvalid p hp
    have hr : p.1 < s.array.length := by
      rcases List.getElem?_eq_some_iff.mp h1 with ⟨hlt, _⟩
      exact hlt
    have hrl : p.1 < (mask.map List.length).length := by rw [hlen']; simpa using hr
    have hcl : p.2 < (mask.map List.length)[p.1] := by
      have : (mask.map List.length)[p.1]? = some row.length := by
        rw [hlen', List.getElem?_map, h1]; rfl
      rw [List.getElem?_eq_getElem hrl] at this
      injection this with this
      omega
    have hfind : findRow (starts (mask.map List.length)) (flatOf (mask.map List.length) p) = p.1 := by
      unfold findRow flatOf starts
      cases hm : mask.map List.length with
      | nil => rw [hm] at hrl; simp at hrl
      | cons l ls =>
        simp only []
        have := findRowAux_startsFrom (l :: ls) 0 0 0 p.1 p.2 (by rw [← hm]; exact hrl)
          (by simp only [← hm]; exact hcl)
        simpa using this
    simp only [Function.comp, hfind]
    have hst : (starts (mask.map List.length)).getD p.1 0 = startOf (mask.map List.length) p.1 := by
      rw [List.getD_eq_getElem?_getD, starts_getElem? _ _ hrl]
      rfl
    rw [hst]
    simp [flatOf]
  rw [hw, hl]
  unfold convertFrom2d
  rw [mapE_map_arg]
  apply mapE_eq_ok_map
  intro p hp
  obtain ⟨row, h1, h2⟩ := hvalid p hp
  exact convertOne_enc s.array p row h1 h2

end Ens.RaggedW
