import Model.Mpi
/-! Lemmas about `stripe`, `unstripe`, `splitBy` (Mathlib-free). -/
namespace Ens.Mpi

variable {α β : Type}

@[simp] theorem stripe_nil (w r : Nat) : stripe w ([] : List α) r = [] := by
  cases r <;> rfl

/-- the `j`-th element of `xs[r::w]` is `xs[r + j*w]` -/
theorem getElem?_stripe (w : Nat) (hw : 0 < w) (xs : List α) (r j : Nat) :
    (stripe w xs r)[j]? = xs[r + j * w]? := by
  induction xs generalizing r j with
  | nil => simp
  | cons x xs ih =>
    cases r with
    | zero =>
      cases j with
      | zero => simp [stripe]
      | succ j =>
        simp only [stripe, List.getElem?_cons_succ, ih]
        have : 0 + (j + 1) * w = (w - 1 + j * w) + 1 := by
          rw [Nat.succ_mul]; omega
        rw [this, List.getElem?_cons_succ]
    | succ r =>
      simp only [stripe, ih]
      have : r + 1 + j * w = (r + j * w) + 1 := by omega
      rw [this, List.getElem?_cons_succ]

theorem stripe_map (w : Nat) (f : α → β) (xs : List α) (r : Nat) :
    stripe w (xs.map f) r = (stripe w xs r).map f := by
  induction xs generalizing r with
  | nil => simp
  | cons x xs ih => cases r <;> simp [stripe, ih]

theorem mem_stripe {w : Nat} {xs : List α} {r : Nat} {a : α} (h : a ∈ stripe w xs r) : a ∈ xs := by
  induction xs generalizing r with
  | nil => simp at h
  | cons x xs ih =>
    cases r with
    | zero =>
      simp only [stripe, List.mem_cons] at h
      rcases h with h | h
      · simp [h]
      · exact List.mem_cons_of_mem _ (ih h)
    | succ r => exact List.mem_cons_of_mem _ (ih h)

/-- the stripes `0 … w-1` of a list, concatenated, are a permutation of the list -/
theorem stripe_perm (w : Nat) (hw : 0 < w) (xs : List α) :
    ((List.range w).flatMap fun r => stripe w xs r).Perm xs := by
  induction xs with
  | nil => simp
  | cons x xs ih =>
    obtain ⟨v, rfl⟩ : ∃ v, w = v + 1 := ⟨w - 1, by omega⟩
    rw [List.range_succ_eq_map, List.flatMap_cons, List.flatMap_map]
    simp only [stripe, Nat.add_sub_cancel]
    have h2 : ((List.range (v + 1)).flatMap fun r => stripe (v + 1) xs r) =
        ((List.range v).flatMap fun r => stripe (v + 1) xs r) ++ stripe (v + 1) xs v := by
      rw [List.range_succ, List.flatMap_append]; simp
    rw [h2] at ih
    refine List.Perm.trans ?_ (List.Perm.cons x ih)
    show (x :: stripe (v + 1) xs v ++ _).Perm _
    exact List.Perm.cons x List.perm_append_comm

theorem filterMap_getElem?_range (xs : List α) :
    (List.range xs.length).filterMap (fun i => xs[i]?) = xs := by
  induction xs with
  | nil => simp
  | cons x xs ih =>
    rw [List.length_cons, List.range_succ_eq_map, List.filterMap_cons]
    simp only [List.getElem?_cons_zero, List.filterMap_map]
    congr 1

/-- `g[r::w] = stripe r` for all `r` puts every element back in place -/
theorem unstripe_stripe (w : Nat) (hw : 0 < w) (xs : List α) :
    unstripe w xs.length (fun r => stripe w xs r) = xs := by
  unfold unstripe
  have h : ∀ i, (stripe w xs (i % w))[i / w]? = xs[i]? := by
    intro i
    rw [getElem?_stripe w hw]
    congr 1
    rw [Nat.mul_comm]; exact Nat.mod_add_div i w
  simp only [h]
  exact filterMap_getElem?_range xs

theorem unstripe_congr (w n : Nat) (hw : 0 < w) (p q : Nat → List α) (h : ∀ r, r < w → p r = q r) :
    unstripe w n p = unstripe w n q := by
  unfold unstripe
  congr 1
  funext i
  rw [h _ (Nat.mod_lt i hw)]

theorem length_stripe_pos (w : Nat) (hw : 0 < w) (xs : List α) (r : Nat) (hr : r < xs.length) :
    0 < (stripe w xs r).length := by
  have h := getElem?_stripe w hw xs r 0
  simp only [Nat.zero_mul, Nat.add_zero] at h
  rw [List.getElem?_eq_getElem hr] at h
  cases hs : stripe w xs r with
  | nil => rw [hs] at h; simp at h
  | cons a l => simp

theorem stripe_eq_nil_of_le (w : Nat) (xs : List α) (r : Nat) (hr : xs.length ≤ r) :
    stripe w xs r = [] := by
  induction xs generalizing r with
  | nil => simp
  | cons x xs ih =>
    cases r with
    | zero => simp at hr
    | succ r => simp only [stripe]; exact ih r (by simpa using hr)

/-! ### `splitBy` -/

@[simp] theorem length_splitBy (L : List Nat) (xs : List α) : (splitBy L xs).length = L.length := by
  induction L generalizing xs with
  | nil => rfl
  | cons l ls ih => simp [splitBy, ih]

theorem flatten_splitBy (L : List Nat) (xs : List α) (h : xs.length ≤ L.sum) :
    (splitBy L xs).flatten = xs := by
  induction L generalizing xs with
  | nil => simp at h; simp [splitBy, h]
  | cons l ls ih =>
    simp only [splitBy, List.flatten_cons]
    rw [ih]
    · exact List.take_append_drop l xs
    · simp only [List.sum_cons] at h
      rw [List.length_drop]; omega

theorem map_length_splitBy (L : List Nat) (xs : List α) (h : L.sum ≤ xs.length) :
    (splitBy L xs).map List.length = L := by
  induction L generalizing xs with
  | nil => rfl
  | cons l ls ih =>
    simp only [List.sum_cons] at h
    simp only [splitBy, List.map_cons, List.length_take]
    rw [ih]
    · congr 1; omega
    · rw [List.length_drop]; omega

theorem splitBy_map (f : α → β) (L : List Nat) (xs : List α) :
    splitBy L (xs.map f) = (splitBy L xs).map (List.map f) := by
  induction L generalizing xs with
  | nil => rfl
  | cons l ls ih => simp [splitBy, ← List.map_take, ← List.map_drop, ih]

theorem splitBy_lengths_flatten (rs : List (List α)) :
    splitBy (rs.map List.length) rs.flatten = rs := by
  induction rs with
  | nil => rfl
  | cons a rs ih => simp [splitBy, ih]

/-! ### `firstErr` -/

theorem firstErr_eq_none {w : Nat} {chk : Nat → Option Err} :
    firstErr w chk = none ↔ ∀ r, r < w → chk r = none := by
  unfold firstErr
  rw [List.findSome?_eq_none_iff]
  simp

end Ens.Mpi
