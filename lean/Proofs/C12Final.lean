import Proofs.C12Pos
import Proofs.C12Fixed

/-! The output stage (`finish`) and the whole estimator (`run`) in exact arithmetic. -/

set_option linter.unusedSectionVars false

namespace Ens.C12P
open Ens Ens.Mle

variable {K : Type} [Field K] [LinearOrder K] [IsStrictOrderedRing K] {n : Nat}

/-- the tolerances of the final assertions are non-negative (they are `1e-8`, `1e-5`,
`1e-16`, `1e-14` in the code) -/
def ParamsOK (P : Params K) : Prop :=
  0 ≤ P.rowAtol ∧ 0 ≤ P.rowRtol ∧
  (match P.piCheck with
   | .isclose a r => 0 ≤ a ∧ 0 ≤ r
   | .upper e => 0 < e)

theorem absV_zero : absV (0 : K) = 0 := by simp [absV]
theorem absV_one : absV (1 : K) = 1 := by
  have : ¬ ((1 : K) < 0) := not_lt.2 zero_le_one
  simp [absV, this]

theorem isclose1_one {a r : K} (ha : 0 ≤ a) (hr : 0 ≤ r) : isclose1 a r (1 : K) = true := by
  unfold isclose1
  rw [sub_self, absV_zero, absV_one, mul_one]
  exact decide_eq_true (add_nonneg ha hr)

theorem piOk_one {P : Params K} (hP : ParamsOK P) : piOk P.piCheck (1 : K) = true := by
  obtain ⟨_, _, h3⟩ := hP
  cases hpc : P.piCheck with
  | isclose a r =>
    rw [hpc] at h3
    exact isclose1_one h3.1 h3.2
  | upper e =>
    rw [hpc] at h3
    simp only [piOk, sub_self]
    exact decide_eq_true h3

/-- what a returned model looks like -/
structure Valid (st : St K n) (k : Nat) (P : Params K) (r : Result K n) : Prop where
  X : r.X = st.X
  rs : r.rs = st.rs
  T : ∀ i j, mget r.T i j = mget st.X i j / vget st.rs i
  pi : ∀ i, vget r.pi i = vget st.rs i / ∑ l, vget st.rs l
  nIter : r.nIter = k
  warned : r.warned = decide (k + 1 = P.maxIter)

/-- `final_asserts_exact`: on a state satisfying the invariant with positive row sums the two
final assertions hold exactly; the only non-model outcome is the swapped `warnings.warn`. -/
theorem finish_spec {P : Params K} (hP : ParamsOK P) (hn : 0 < n) {st : St K n} (h : Inv st)
    (hpos : ∀ i, 0 < vget st.rs i) (k : Nat) :
    (k + 1 = P.maxIter ∧ P.warnSwapped = true ∧ finish P st k = .error .typeError) ∨
    (¬ (k + 1 = P.maxIter ∧ P.warnSwapped = true) ∧
      ∃ r, finish P st k = .ok r ∧ Valid st k P r) := by
  by_cases hcap : k + 1 = P.maxIter ∧ P.warnSwapped = true
  · left
    refine ⟨hcap.1, hcap.2, ?_⟩
    unfold finish
    simp [hcap.1, hcap.2]
  · right
    refine ⟨hcap, ?_⟩
    have hcond : (decide (k + 1 = P.maxIter) && P.warnSwapped) = false := by
      by_cases h1 : k + 1 = P.maxIter
      · have : P.warnSwapped = false := by
          cases hw : P.warnSwapped with
          | true => exact absurd ⟨h1, hw⟩ hcap
          | false => rfl
        simp [this]
      · simp [h1]
    have hrow : ∀ i : Fin n, rowSumF st.X i = vget st.rs i := fun i => by
      rw [rowSumF_eq, h.rs i]
    have hT : ∀ i : Fin n, rowSumF (Vector.ofFn fun i => Vector.ofFn fun j =>
        mget st.X i j / rowSumF st.X i : Mat K n) i = 1 := by
      intro i
      rw [rowSumF_eq]
      simp only [mget_ofFn]
      rw [← Finset.sum_div, ← rowSumF_eq]
      exact div_self (by rw [hrow]; exact ne_of_gt (hpos i))
    have htot : 0 < ∑ l, vget st.rs l :=
      Finset.sum_pos (fun i _ => hpos i) ⟨⟨0, hn⟩, Finset.mem_univ _⟩
    have hpi : sumFin n (fun i => vget (Vector.ofFn fun i =>
        vget st.rs i / sumFin n (fun i => vget st.rs i) : Vec K n) i) = 1 := by
      simp only [vget_ofFn]
      rw [sumFin_eq_sum, ← Finset.sum_div, sumFin_eq_sum]
      exact div_self (ne_of_gt htot)
    unfold finish
    simp only [hcond, Bool.false_eq_true, if_false]
    have hall : ((List.finRange n).all (fun i => isclose1 P.rowAtol P.rowRtol
          (rowSumF (Vector.ofFn fun i => Vector.ofFn fun j =>
            mget st.X i j / rowSumF st.X i : Mat K n) i))
        && piOk P.piCheck (sumFin n (fun i => vget (Vector.ofFn fun i =>
            vget st.rs i / sumFin n (fun i => vget st.rs i) : Vec K n) i))) = true := by
      rw [hpi, piOk_one hP, Bool.and_true, List.all_eq_true]
      intro i _
      rw [hT i]
      exact isclose1_one hP.1 hP.2.1
    simp only [hall, if_true]
    refine ⟨_, rfl, ⟨rfl, rfl, ?_, ?_, rfl, rfl⟩⟩
    · intro i j; simp only [mget_ofFn, hrow]
    · intro i; simp only [vget_ofFn, sumFin_eq_sum]

/-- `output_valid`: a model of the shape returned by `finish` is row-stochastic, its `π` is a
positive probability vector and detailed balance holds -/
theorem valid_props {P : Params K} (hn : 0 < n) {st : St K n} (h : Inv st)
    (hpos : ∀ i, 0 < vget st.rs i) {k : Nat} {r : Result K n} (hv : Valid st k P r) :
    (∀ i, ∑ j, mget r.T i j = 1) ∧ (∀ i j, 0 ≤ mget r.T i j) ∧
    (∑ i, vget r.pi i = 1) ∧ (∀ i, 0 < vget r.pi i) ∧
    (∀ i j, vget r.pi i * mget r.T i j = vget r.pi j * mget r.T j i) ∧
    (∀ j, ∑ i, vget r.pi i * mget r.T i j = vget r.pi j) := by
  have htot : 0 < ∑ l, vget st.rs l :=
    Finset.sum_pos (fun i _ => hpos i) ⟨⟨0, hn⟩, Finset.mem_univ _⟩
  have hdb : ∀ i j, vget r.pi i * mget r.T i j = mget st.X i j / ∑ l, vget st.rs l := by
    intro i j
    rw [hv.pi, hv.T]
    have := ne_of_gt (hpos i)
    field_simp
  refine ⟨?_, ?_, ?_, ?_, ?_, ?_⟩
  · intro i
    simp only [hv.T]
    rw [← Finset.sum_div, ← h.rs i]
    exact div_self (ne_of_gt (hpos i))
  · intro i j
    rw [hv.T]
    exact div_nonneg (h.nonneg i j) (le_of_lt (hpos i))
  · simp only [hv.pi]
    rw [← Finset.sum_div]
    exact div_self (ne_of_gt htot)
  · intro i
    rw [hv.pi]
    exact div_pos (hpos i) htot
  · intro i j
    rw [hdb, hdb, h.symm i j]
  · intro j
    simp only [hdb]
    rw [← Finset.sum_div, hv.pi, h.rs j]
    congr 1
    exact Finset.sum_congr rfl (fun i _ => h.symm i j)

/-- row sums of `C` and of `C + Cᵀ` are positive on a connected non-negative matrix -/
theorem conn_init {C : Mat K n} (hC : ∀ i j, 0 ≤ mget C i j) (hc : Conn C) :
    ∃ Crs st0, init C = .ok (Crs, st0) := by
  apply init_ok
  · intro i
    obtain ⟨k, _, hk⟩ := hc.out i
    exact Finset.sum_pos' (fun j _ => add_nonneg (hC i j) (hC j i))
      ⟨k, Finset.mem_univ _, add_pos_of_pos_of_nonneg hk (hC k i)⟩
  · intro i
    obtain ⟨k, _, hk⟩ := hc.out i
    exact Finset.sum_pos' (fun j _ => hC i j) ⟨k, Finset.mem_univ _, hk⟩

/-- The whole estimator in exact arithmetic: on a non-negative count matrix in which every
state has outgoing and incoming off-diagonal counts, `run` never ends in an assertion error:
it returns a valid model, or — only when the last permitted sweep was used and the source has
the swapped `warnings.warn` call — the `TypeError`. -/
theorem run_spec {P : Params K} (hs : SqrtSpec P.sqrt) (hP : ParamsOK P) (hn : 0 < n)
    (hmax : 0 < P.maxIter)
    {C : Mat K n} (hC : ∀ i j, 0 ≤ mget C i j) (hc : Conn C) :
    ∃ Crs st k, Data C Crs ∧ Inv st ∧ Pos C st ∧ k + 1 ≤ P.maxIter ∧
      ((k + 1 = P.maxIter ∧ P.warnSwapped = true ∧ run P C = .error .typeError) ∨
       (¬ (k + 1 = P.maxIter ∧ P.warnSwapped = true) ∧
         ∃ r, run P C = .ok r ∧ Valid st k P r)) := by
  obtain ⟨Crs, st0, hinit⟩ := conn_init hC hc
  obtain ⟨hD, hinv0, _, _⟩ := init_inv hC hinit
  have hpos0 := init_pos hinit
  obtain ⟨st, k, hloop, hgood, _, hk⟩ :=
    loop_good (log := P.log) hs P.tol hD hc P.maxIter 0 st0 0 ⟨hinv0, hpos0⟩
  have hk' : k + 1 ≤ P.maxIter := by
    have : max P.maxIter 1 = P.maxIter := by omega
    omega
  refine ⟨Crs, st, k, hD, hgood.1, hgood.2, hk', ?_⟩
  have hrun : run P C = finish P st k := by
    unfold run
    simp only [hinit, Nat.ne_of_gt hmax, if_false, hloop]
  rw [hrun]
  exact finish_spec hP hn hgood.1 (fun i => hgood.2.rs_pos hD hc hgood.1 i) k

end Ens.C12P
