import Proofs.C20Arc
import Proofs.C20List
/-!
C20, part 3: the loop of `_rotamers` refines the hysteresis automaton (induction over the angle
sequence), for every boundary list that satisfies `GoodSet`.
-/
namespace Ens.Rotamer

theorem goodSet_iff {hb : List Rat} : GoodSet hb = true ↔
    hb.Pairwise (· < ·) ∧ hb.head? = some 0 ∧ hb.getLast? = some 360 ∧ 3 ≤ hb.length ∧
    ∀ p ∈ hb.zip hb.tail, p.1 = 0 ∨ p.2 = 360 ∨
      ((360 : Rat) / (((hb.length : Int) - 1 : Int) : Rat) ≤ p.1 ∧
        p.2 + (360 : Rat) / (((hb.length : Int) - 1 : Int) : Rat) ≤ 360) := by
  simp [GoodSet, and_assoc, or_assoc]

/-- what `GoodSet` says about one basin `(lo, hi) = (hb[i], hb[i+1])` -/
structure BasinFacts (hb : List Rat) (lo hi : Rat) : Prop where
  lo_nonneg : 0 ≤ lo
  lt : lo < hi
  hi_le : hi ≤ 360
  not_whole : ¬ (lo = 0 ∧ hi = 360)
  mid : lo ≠ 0 → hi ≠ 360 →
    (360 : Rat) / (((hb.length : Int) - 1 : Int) : Rat) ≤ lo ∧
      hi + (360 : Rat) / (((hb.length : Int) - 1 : Int) : Rat) ≤ 360
  lo_mem : lo ∈ hb
  hi_mem : hi ∈ hb

theorem basinFacts {hb : List Rat} (hg : GoodSet hb = true) {i : Nat} {lo hi : Rat}
    (h1 : hb[i]? = some lo) (h2 : hb[i + 1]? = some hi) : BasinFacts hb lo hi := by
  obtain ⟨hs, hh, hl, h3, hz⟩ := goodSet_iff.1 hg
  obtain ⟨hi1, e1⟩ := List.getElem?_eq_some_iff.1 h1
  obtain ⟨hi2, e2⟩ := List.getElem?_eq_some_iff.1 h2
  have hpw := List.pairwise_iff_getElem.1 hs
  have h0 : hb[0]'(by omega) = 0 := by
    have := hh
    rw [List.head?_eq_getElem?] at this
    obtain ⟨_, e⟩ := List.getElem?_eq_some_iff.1 this
    exact e
  have hlast : hb[hb.length - 1]'(by omega) = 360 := by
    have := hl
    rw [List.getLast?_eq_getElem?] at this
    obtain ⟨_, e⟩ := List.getElem?_eq_some_iff.1 this
    exact e
  have hlt : lo < hi := by
    rw [← e1, ← e2]; exact hpw i (i + 1) hi1 hi2 (by omega)
  have hlo0 : 0 ≤ lo := by
    rw [← e1, ← h0]
    rcases Nat.eq_zero_or_pos i with rfl | hpos
    · exact le_refl _
    · exact le_of_lt (hpw 0 i (by omega) hi1 hpos)
  have hhi : hi ≤ 360 := by
    rw [← e2, ← hlast]
    rcases Nat.lt_or_ge (i + 1) (hb.length - 1) with hlt' | hge
    · exact le_of_lt (hpw (i + 1) (hb.length - 1) hi2 (by omega) hlt')
    · have : i + 1 = hb.length - 1 := by omega
      simp [this]
  refine ⟨hlo0, hlt, hhi, ?_, ?_, List.mem_of_getElem? h1, List.mem_of_getElem? h2⟩
  · rintro ⟨rfl, rfl⟩
    -- lo = hb[0] forces i = 0, hi = last forces i + 1 = length - 1
    have hi0 : i = 0 := by
      by_contra hne
      have := hpw 0 i (by omega) hi1 (by omega)
      rw [h0, e1] at this
      exact lt_irrefl _ this
    have hil : i + 1 = hb.length - 1 := by
      by_contra hne
      have := hpw (i + 1) (hb.length - 1) hi2 (by omega) (by omega)
      rw [hlast, e2] at this
      exact lt_irrefl _ this
    omega
  · intro hne0 hne360
    have hmem : (lo, hi) ∈ hb.zip hb.tail := by
      rw [List.mem_iff_getElem?]
      refine ⟨i, ?_⟩
      rw [List.getElem?_zip_eq_some]
      refine ⟨h1, ?_⟩
      rw [List.getElem?_tail]
      exact h2
    rcases hz _ hmem with h | h | h
    · exact absurd h hne0
    · exact absurd h hne360
    · exact h

theorem accepted_lt {hb : List Rat} {b : Rat} (h : Accepted hb b) :
    b < (360 : Rat) / (((hb.length : Int) - 1 : Int) : Rat) := h.2

theorem validate_ok {hb : List Rat} {b : Rat} (hg : GoodSet hb = true) (hacc : Accepted hb b) :
    validate hb b = .ok () := by
  obtain ⟨_, hh, hl, h3, _⟩ := goodSet_iff.1 hg
  obtain ⟨hb0, hb1⟩ := hacc
  unfold validate
  have hn : ¬ ((hb.length : Int) - 1 = 0) := by omega
  have hc : ¬ (b < 0 ∨ b ≥ 360 / (((hb.length : Int) - 1 : Int) : Rat)) := by
    rintro (h | h)
    · exact absurd hb0 (not_le.2 h)
    · exact absurd hb1 (not_lt.2 h)
  have hd : ¬ (hb.head? ≠ some 0 ∨ hb.getLast? ≠ some 360) := by
    rintro (h | h)
    · exact h hh
    · exact h hl
  simp only [hn, hc, hd, if_false]
  rfl

theorem inWidened_iff_inArc {hb : List Rat} {b : Rat} {s : Nat} {a lo hi : Rat}
    (h1 : hb[s]? = some lo) (h2 : hb[s + 1]? = some hi) :
    InWidened hb b s a ↔ InArc lo hi b a := by
  constructor
  · rintro ⟨lo', hi', e1, e2, h⟩
    rw [h1] at e1; rw [h2] at e2
    cases e1; cases e2
    exact h
  · intro h
    exact ⟨lo, hi, h1, h2, h⟩

theorem isBufferedTransition_nat {hb : List Rat} {b a : Rat} {s : Nat} {lo hi : Rat}
    (h1 : hb[s]? = some lo) (h2 : hb[s + 1]? = some hi) :
    isBufferedTransition (s : Int) a hb b = .ok (exitTest (gatesOf lo hi b) a) := by
  unfold isBufferedTransition getGates
  rw [pyGet_nat h1, pyGet_nat_succ h2]
  rfl

/-- one loop iteration from a valid basin index: always succeeds and stays a valid basin index;
no hypothesis on the buffer beyond being a number (used for `state_valid`) -/
theorem step_valid {hb : List Rat} {b a : Rat} (hg : GoodSet hb = true)
    (ha0 : 0 ≤ a) (ha : a < 360) {s : Nat} (hs : s + 1 < hb.length) :
    ∃ s' : Nat, step hb b (s : Int) a = .ok (s' : Int) ∧ s' + 1 < hb.length ∧
      (s' = s ∨ IsBasin hb s' a) := by
  obtain ⟨hsort, hh, hl, _, _⟩ := goodSet_iff.1 hg
  have h1 : hb[s]? = some hb[s] := List.getElem?_eq_getElem (by omega)
  have h2 : hb[s + 1]? = some hb[s + 1] := List.getElem?_eq_getElem hs
  unfold step
  rw [isBufferedTransition_nat h1 h2]
  cases he : exitTest (gatesOf hb[s] hb[s + 1] b) a with
  | false =>
    exact ⟨s, by simp [bind, Except.bind, pure, Except.pure], hs, Or.inl rfl⟩
  | true =>
    obtain ⟨i, _, hi⟩ := firstFrame_isBasin hh hl ha0 ha
    refine ⟨i, ?_, isBasin_lt_length hi, Or.inr hi⟩
    simp [bind, Except.bind, pure, Except.pure, digitize_of_isBasin hsort hi]

/-- one loop iteration refines the automaton step -/
theorem step_spec {hb : List Rat} {b a : Rat} (hg : GoodSet hb = true) (hacc : Accepted hb b)
    (hns : NoSelfWrap hb b) (ha0 : 0 ≤ a) (ha : a < 360) (hav : AvoidsGates hb b a)
    {s : Nat} (hs : s + 1 < hb.length) :
    ∃ s' : Nat, step hb b (s : Int) a = .ok (s' : Int) ∧ s' + 1 < hb.length ∧
      SpecStep hb b s a s' := by
  obtain ⟨hsort, hh, hl, _, _⟩ := goodSet_iff.1 hg
  have h1 : hb[s]? = some hb[s] := List.getElem?_eq_getElem (by omega)
  have h2 : hb[s + 1]? = some hb[s + 1] := List.getElem?_eq_getElem hs
  have bf := basinFacts hg h1 h2
  have hmax := accepted_lt hacc
  have hiff : exitTest (gatesOf hb[s] hb[s + 1] b) a = true ↔ ¬ InArc hb[s] hb[s + 1] b a := by
    apply exit_iff_not_inArc ha0 ha hacc.1 bf.lo_nonneg bf.lt bf.hi_le bf.not_whole
      (hns s _ _ h1 h2)
    · intro hn0 hn360
      obtain ⟨m1, m2⟩ := bf.mid hn0 hn360
      exact ⟨by linarith, by linarith⟩
    · exact fun k => hav _ bf.lo_mem k
    · exact fun k => hav _ bf.hi_mem k
  unfold step
  rw [isBufferedTransition_nat h1 h2]
  cases he : exitTest (gatesOf hb[s] hb[s + 1] b) a with
  | false =>
    refine ⟨s, by simp [bind, Except.bind, pure, Except.pure], hs, fun _ => rfl, fun hn => ?_⟩
    exfalso
    have : ¬ ¬ InArc hb[s] hb[s + 1] b a := fun h => by
      have := hiff.2 h
      rw [he] at this
      exact Bool.noConfusion this
    exact this (fun h => hn ((inWidened_iff_inArc h1 h2).2 h))
  | true =>
    obtain ⟨i, _, hi⟩ := firstFrame_isBasin hh hl ha0 ha
    refine ⟨i, ?_, isBasin_lt_length hi, fun hin => ?_, fun _ => hi⟩
    · simp [bind, Except.bind, pure, Except.pure, digitize_of_isBasin hsort hi]
    · exact absurd ((inWidened_iff_inArc h1 h2).1 hin) (hiff.1 he)

/-- the whole loop (rotamer.py L84-93) refines the automaton -/
theorem loop_spec {hb : List Rat} {b : Rat} (hg : GoodSet hb = true) (hacc : Accepted hb b)
    (hns : NoSelfWrap hb b) (as : List Rat)
    (hr : ∀ a ∈ as, 0 ≤ a ∧ a < 360 ∧ AvoidsGates hb b a) :
    ∀ {s : Nat}, s + 1 < hb.length →
    ∃ ss : List Nat, loop hb b (s : Int) as = .ok (ss.map Int.ofNat) ∧
      SpecFrom hb b s as ss ∧ ∀ t ∈ ss, t + 1 < hb.length := by
  induction as with
  | nil =>
    intro s _
    exact ⟨[], rfl, trivial, by simp⟩
  | cons a as ih =>
    intro s hs
    obtain ⟨ha0, ha, hav⟩ := hr a (by simp)
    obtain ⟨s', e1, hs', sp⟩ := step_spec hg hacc hns ha0 ha hav hs
    obtain ⟨ss, e2, sp2, hv⟩ := ih (fun x hx => hr x (by simp [hx])) hs'
    refine ⟨s' :: ss, ?_, ⟨sp, sp2⟩, ?_⟩
    · simp only [loop, e1, e2, bind, Except.bind, pure, Except.pure]
      rfl
    · intro t ht
      rcases List.mem_cons.1 ht with rfl | ht
      · exact hs'
      · exact hv t ht

/-- validity of all states for any buffer value, no gate hypothesis -/
theorem loop_valid {hb : List Rat} {b : Rat} (hg : GoodSet hb = true) (as : List Rat)
    (hr : ∀ a ∈ as, 0 ≤ a ∧ a < 360) :
    ∀ {s : Nat}, s + 1 < hb.length →
    ∃ ss : List Nat, loop hb b (s : Int) as = .ok (ss.map Int.ofNat) ∧ ss.length = as.length ∧
      ∀ t ∈ ss, t + 1 < hb.length := by
  induction as with
  | nil =>
    intro s _
    exact ⟨[], rfl, rfl, by simp⟩
  | cons a as ih =>
    intro s hs
    obtain ⟨ha0, ha⟩ := hr a (by simp)
    obtain ⟨s', e1, hs', _⟩ := step_valid (b := b) hg ha0 ha hs
    obtain ⟨ss, e2, hlen, hv⟩ := ih (fun x hx => hr x (by simp [hx])) hs'
    refine ⟨s' :: ss, ?_, by simp [hlen], ?_⟩
    · simp only [loop, e1, e2, bind, Except.bind, pure, Except.pure]
      rfl
    · intro t ht
      rcases List.mem_cons.1 ht with rfl | ht
      · exact hs'
      · exact hv t ht

end Ens.Rotamer
