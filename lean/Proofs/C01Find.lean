import Proofs.C01Run
import Mathlib.Data.List.Sort
/-!
C01/C09 helper lemmas, part 5: `find_cluster_centers` recovers the center indices of a consistent
state (used by the warm starts: `kcenters(init_centers=…)`, `kmedoids(assignments, distances)`).
-/
namespace Ens.Cluster

theorem mem_insertUniq {x z : Int} : ∀ {l : List Int}, z ∈ insertUniq x l ↔ z = x ∨ z ∈ l := by
  intro l
  induction l with
  | nil => simp [insertUniq]
  | cons y ys ih =>
    unfold insertUniq
    split
    · simp
    · split
      · rename_i h1 h2; subst h2; simp
      · simp only [List.mem_cons, ih]
        constructor
        · rintro (h | h | h)
          · right; left; exact h
          · left; exact h
          · right; right; exact h
        · rintro (h | h | h)
          · right; left; exact h
          · left; exact h
          · right; right; exact h

theorem pairwise_insertUniq {x : Int} : ∀ {l : List Int}, l.Pairwise (· < ·) → (insertUniq x l).Pairwise (· < ·) := by
  intro l
  induction l with
  | nil => intro _; simp [insertUniq]
  | cons y ys ih =>
    intro h
    obtain ⟨h1, h2⟩ := List.pairwise_cons.mp h
    unfold insertUniq
    split
    · rename_i hxy
      refine List.pairwise_cons.mpr ⟨?_, h⟩
      intro z hz
      rcases List.mem_cons.mp hz with rfl | hz'
      · exact hxy
      · exact lt_trans hxy (h1 z hz')
    · split
      · exact h
      · rename_i hxy hne
        refine List.pairwise_cons.mpr ⟨?_, ih h2⟩
        intro z hz
        rcases mem_insertUniq.mp hz with rfl | hz'
        · omega
        · exact h1 z hz'

theorem mem_uniqueLabels {g : Nat → Int} {z : Int} : ∀ {n : Nat}, z ∈ uniqueLabels g n ↔ ∃ f, f < n ∧ g f = z := by
  intro n
  induction n with
  | zero => simp [uniqueLabels]
  | succ k ih =>
    simp only [uniqueLabels, mem_insertUniq, ih]
    constructor
    · rintro (h | ⟨f, hf, e⟩)
      · exact ⟨k, Nat.lt_succ_self k, h.symm⟩
      · exact ⟨f, Nat.lt_succ_of_lt hf, e⟩
    · rintro ⟨f, hf, e⟩
      rcases Nat.lt_succ_iff_lt_or_eq.mp hf with h | h
      · right; exact ⟨f, h, e⟩
      · left; rw [← e, h]

theorem pairwise_uniqueLabels {g : Nat → Int} : ∀ {n : Nat}, (uniqueLabels g n).Pairwise (· < ·) := by
  intro n
  induction n with
  | zero => simp [uniqueLabels]
  | succ k ih => exact pairwise_insertUniq ih

/-- `np.unique(assignments)` of a consistent labelling is `0, 1, …, k-1` -/
theorem uniqueLabels_eq {D : Table} {n : Nat} {s : St} (hs : Consistent D n s) :
    uniqueLabels s.arr.assign n = (List.range s.ctrInds.length).map (fun (j : Nat) => (j : Int)) := by
  apply List.Pairwise.eq_of_mem_iff (r := (· < ·)) pairwise_uniqueLabels
  · rw [List.pairwise_map]
    exact List.Pairwise.imp (fun h => by exact_mod_cast h) List.pairwise_lt_range
  · intro z
    rw [mem_uniqueLabels]
    simp only [List.mem_map, List.mem_range]
    constructor
    · rintro ⟨f, hf, e⟩
      obtain ⟨k, c, h1, h2, _⟩ := hs.lab f hf
      exact ⟨k, getElem?_lt h2, by rw [← e, h1]⟩
    · rintro ⟨j, hj, e⟩
      have hc : s.ctrInds[j]? = some s.ctrInds[j] := List.getElem?_eq_getElem hj
      exact ⟨s.ctrInds[j], hs.inds_lt _ (List.getElem_mem hj), by rw [(hs.own j _ hc).1, e]⟩

theorem firstMinIn_spec (a : Arr) (c : Int) : ∀ (m : Nat),
    (∀ b, firstMinIn a c m = some b → b < m ∧ a.assign b = c ∧
        ∀ f, f < m → a.assign f = c → a.fresh = false → ¬ a.dist f < a.dist b) ∧
    (firstMinIn a c m = none → ∀ f, f < m → a.assign f ≠ c) := by
  intro m
  induction m with
  | zero => simp [firstMinIn]
  | succ k ih =>
    obtain ⟨ih1, ih2⟩ := ih
    unfold firstMinIn
    cases hprev : firstMinIn a c k with
    | none =>
      simp only []
      have hnone := ih2 hprev
      constructor
      · intro b hb
        split at hb
        · rename_i hk
          injection hb with hb; subst hb
          refine ⟨Nat.lt_succ_self _, hk, ?_⟩
          intro f hf hfc _
          rcases Nat.lt_succ_iff_lt_or_eq.mp hf with h | h
          · exact absurd hfc (hnone f h)
          · subst h; exact lt_irrefl _
        · cases hb
      · intro hn f hf
        split at hn
        · cases hn
        · rename_i hk
          rcases Nat.lt_succ_iff_lt_or_eq.mp hf with h | h
          · exact hnone f h
          · subst h; exact hk
    | some b0 =>
      simp only []
      obtain ⟨hb0, hb0c, hb0min⟩ := ih1 b0 hprev
      constructor
      · intro b hb
        split at hb
        · rename_i hk
          injection hb with hb; subst hb
          refine ⟨Nat.lt_succ_self _, hk.1, ?_⟩
          intro f hf hfc hfr
          rcases Nat.lt_succ_iff_lt_or_eq.mp hf with h | h
          · intro hlt; exact hb0min f h hfc hfr (lt_trans hlt hk.2.2)
          · subst h; exact lt_irrefl _
        · rename_i hk
          injection hb with hb; subst hb
          refine ⟨Nat.lt_succ_of_lt hb0, hb0c, ?_⟩
          intro f hf hfc hfr
          rcases Nat.lt_succ_iff_lt_or_eq.mp hf with h | h
          · exact hb0min f h hfc hfr
          · subst h
            intro hlt; exact hk ⟨hfc, hfr, hlt⟩
      · intro hn; split at hn <;> cases hn

/-- the frame `find_cluster_centers` reports for label `j` of a consistent state is center `j` -/
theorem firstMinIn_center {D : Table} {n : Nat} (T : TableOK D n) {s : St} (hs : Consistent D n s)
    {j c : Nat} (hj : s.ctrInds[j]? = some c) : firstMinIn s.arr (j : Int) n = some c := by
  have hc : c < n := hs.inds_lt c (getElem?_mem' hj)
  obtain ⟨hown1, hown2⟩ := hs.own j c hj
  obtain ⟨sp1, sp2⟩ := firstMinIn_spec s.arr (j : Int) n
  cases hres : firstMinIn s.arr (j : Int) n with
  | none => exact absurd hown1 (sp2 hres c hc)
  | some b =>
    obtain ⟨hb, hbj, hmin⟩ := sp1 b hres
    have h1 := hmin c hc hown1 hs.notFresh
    rw [hown2] at h1
    obtain ⟨k', c', e1, e2, e3⟩ := hs.lab b hb
    have hk : k' = j := by rw [hbj] at e1; exact_mod_cast e1.symm
    subst hk
    have hcc : c' = c := by rw [hj] at e2; injection e2 with e2; exact e2.symm
    subst hcc
    have h0 : s.arr.dist b = 0 := le_antisymm (not_lt.mp h1) (hs.dist_nonneg T hb)
    have : b = c' := T.distinct b c' hb hc (by rw [← e3]; exact h0)
    rw [this]

theorem mapM_eq_of_forall {f : Int → Option Nat} :
    ∀ (l : List Nat) (js : List Nat), js.length = l.length →
      (∀ i, i < l.length → ∃ j c, js[i]? = some j ∧ l[i]? = some c ∧ f (j : Int) = some c) →
      (js.map (fun (j : Nat) => (j : Int))).mapM f = some l := by
  intro l
  induction l with
  | nil => intro js h _; have : js = [] := List.eq_nil_of_length_eq_zero h; subst this; rfl
  | cons c l ih =>
    intro js h hall
    cases js with
    | nil => simp at h
    | cons j js =>
      obtain ⟨j0, c0, e1, e2, e3⟩ := hall 0 (by simp)
      simp at e1 e2; subst e1; subst e2
      have := ih js (by simpa using h) (fun i hi => by
        obtain ⟨j', c', a1, a2, a3⟩ := hall (i+1) (by simpa using hi)
        exact ⟨j', c', by simpa using a1, by simpa using a2, a3⟩)
      simp only [List.map_cons, List.mapM_cons, e3, this]
      rfl

/-- `find_cluster_centers` on a consistent state returns its center indices -/
theorem findClusterCenters_eq {D : Table} {n : Nat} (T : TableOK D n) {s : St} (hs : Consistent D n s) :
    findClusterCenters n s.arr = some s.ctrInds := by
  unfold findClusterCenters
  rw [uniqueLabels_eq hs]
  apply mapM_eq_of_forall s.ctrInds (List.range s.ctrInds.length) (by simp)
  intro i hi
  refine ⟨i, s.ctrInds[i], by simp [hi], List.getElem?_eq_getElem hi, ?_⟩
  exact firstMinIn_center T hs (List.getElem?_eq_getElem hi)

end Ens.Cluster
