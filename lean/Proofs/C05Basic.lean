import Model.Ragged
/-! Basic lemmas for C05: `mapE`, `partitionAux`, `starts`, ranges. Core Lean only. -/
namespace Ens.Ragged
open Ens

/-! ### bindE / mapE -/

@[simp] theorem bindE_ok {α β ε} (v : α) (f : α → Except ε β) : bindE (.ok v) f = f v := rfl
@[simp] theorem bindE_error {α β ε} (e : ε) (f : α → Except ε β) : bindE (.error e) f = .error e := rfl

theorem bindE_assoc {α β γ ε} (x : Except ε α) (f : α → Except ε β) (g : β → Except ε γ) :
    bindE (bindE x f) g = bindE x (fun a => bindE (f a) g) := by
  cases x <;> rfl

theorem bindE_congr {α β ε} {x : Except ε α} {f g : α → Except ε β} (h : ∀ a, x = .ok a → f a = g a) :
    bindE x f = bindE x g := by
  cases x with
  | error e => rfl
  | ok a => exact h a rfl

@[simp] theorem mapE_nil {α β ε} (f : α → Except ε β) : mapE f [] = .ok [] := rfl

theorem mapE_cons {α β ε} (f : α → Except ε β) (x : α) (xs : List α) :
    mapE f (x :: xs) = bindE (f x) fun y => bindE (mapE f xs) fun ys => .ok (y :: ys) := rfl

theorem mapE_congr {α β ε} {f g : α → Except ε β} {l : List α} (h : ∀ x ∈ l, f x = g x) :
    mapE f l = mapE g l := by
  induction l with
  | nil => rfl
  | cons x xs ih =>
    rw [mapE_cons, mapE_cons, h x (by simp), ih (fun y hy => h y (by simp [hy]))]

theorem mapE_ok_of_forall {α β ε} {f : α → Except ε β} {g : α → β} {l : List α}
    (h : ∀ x ∈ l, f x = .ok (g x)) : mapE f l = .ok (l.map g) := by
  induction l with
  | nil => rfl
  | cons x xs ih =>
    rw [mapE_cons, h x (by simp), ih (fun y hy => h y (by simp [hy]))]; rfl

theorem mapE_map {α β γ ε} (f : β → Except ε γ) (g : α → β) (l : List α) :
    mapE f (l.map g) = mapE (fun x => f (g x)) l := by
  induction l with
  | nil => rfl
  | cons x xs ih => simp only [List.map_cons, mapE_cons, ih]

theorem mapE_length {α β ε} {f : α → Except ε β} {l : List α} {r : List β} (h : mapE f l = .ok r) :
    r.length = l.length := by
  induction l generalizing r with
  | nil => simp [mapE] at h; subst h; rfl
  | cons x xs ih =>
    rw [mapE_cons] at h
    cases hx : f x with
    | error e => rw [hx] at h; cases h
    | ok y =>
      rw [hx] at h
      cases hm : mapE f xs with
      | error e => rw [hm] at h; cases h
      | ok ys =>
        rw [hm] at h
        cases h
        simp [ih hm]

theorem mapE_append {α β ε} (f : α → Except ε β) (l₁ l₂ : List α) :
    mapE f (l₁ ++ l₂) = bindE (mapE f l₁) fun r₁ => bindE (mapE f l₂) fun r₂ => .ok (r₁ ++ r₂) := by
  induction l₁ with
  | nil => simp only [List.nil_append, mapE_nil, bindE_ok]; cases mapE f l₂ <;> rfl
  | cons x xs ih =>
    simp only [List.cons_append, mapE_cons, ih]
    cases f x with
    | error e => rfl
    | ok y =>
      cases mapE f xs with
      | error e => rfl
      | ok ys => cases mapE f l₂ <;> rfl

/-- `mapE` over a `flatMap` is `mapE` of the inner `mapE`s, flattened (same first error). -/
theorem mapE_flatMap {α β γ ε} (f : β → Except ε γ) (h : α → List β) (l : List α) :
    mapE f (l.flatMap h) = bindE (mapE (fun x => mapE f (h x)) l) fun rs => .ok rs.flatten := by
  induction l with
  | nil => rfl
  | cons x xs ih =>
    simp only [List.flatMap_cons, mapE_append, mapE_cons, ih]
    cases mapE f (h x) with
    | error e => rfl
    | ok y =>
      cases mapE (fun x => mapE f (h x)) xs with
      | error e => rfl
      | ok ys => simp

/-! ### partitionAux / rows -/

theorem partitionAux_append_flatten {α} (pre : List α) (rs : List (List α)) (post : List α) :
    partitionAux (pre ++ rs.flatten ++ post) pre.length (rs.map List.length) = rs := by
  induction rs generalizing pre with
  | nil => rfl
  | cons r rest ih =>
    simp only [List.map_cons, partitionAux, List.flatten_cons]
    congr 1
    · simp [List.append_assoc]
    · have := ih (pre ++ r)
      simpa [List.append_assoc] using this

theorem rows_ofRows' {α} (rs : List (List α)) : rows (ofRows rs) = rs := by
  have := partitionAux_append_flatten ([] : List α) rs []
  simpa [rows, ofRows] using this

theorem partitionAux_length {α} (l : List α) (s : Nat) (lens : List Nat) :
    (partitionAux l s lens).length = lens.length := by
  induction lens generalizing s with
  | nil => rfl
  | cons n ns ih => simp [partitionAux, ih]

theorem partitionAux_map_length {α} (l : List α) (s : Nat) (lens : List Nat)
    (h : s + lens.sum ≤ l.length) : (partitionAux l s lens).map List.length = lens := by
  induction lens generalizing s with
  | nil => rfl
  | cons n ns ih =>
    simp only [partitionAux, List.map_cons, List.sum_cons] at *
    congr 1
    · simp; omega
    · exact ih (s + n) (by omega)

theorem partitionAux_flatten {α} (l : List α) (s : Nat) (lens : List Nat) :
    (partitionAux l s lens).flatten = (l.drop s).take lens.sum := by
  induction lens generalizing s with
  | nil => simp [partitionAux]
  | cons n ns ih =>
    simp only [partitionAux, List.flatten_cons, List.sum_cons, ih]
    rw [List.take_add, ← List.drop_drop]
    
theorem ofRows_rows' {α} (ra : RA α) (h : WF ra) : ofRows (rows ra) = ra := by
  cases ra with
  | mk data lengths =>
    simp only [WF] at h
    simp only [ofRows, rows, RA.mk.injEq]
    constructor
    · rw [partitionAux_flatten]; simp [h]
    · exact partitionAux_map_length _ _ _ (by omega)

theorem partitionAux_getElem? {α} (l : List α) (s : Nat) (lens : List Nat) (i : Nat) :
    (partitionAux l s lens)[i]? =
      (lens[i]?).map fun len => (l.drop (s + (lens.take i).sum)).take len := by
  induction lens generalizing s i with
  | nil => simp [partitionAux]
  | cons n ns ih =>
    cases i with
    | zero => simp [partitionAux]
    | succ i =>
      simp only [partitionAux, List.getElem?_cons_succ, ih, List.take_succ_cons, List.sum_cons]
      congr; funext len; congr 2; omega

/-! ### starts -/

theorem cumsumFrom_getElem? (acc : Nat) (l : List Nat) (i : Nat) (h : i < l.length) :
    (cumsumFrom acc l)[i]? = some (acc + (l.take (i + 1)).sum) := by
  induction l generalizing acc i with
  | nil => simp at h
  | cons x xs ih =>
    cases i with
    | zero => simp [cumsumFrom]
    | succ i =>
      simp only [cumsumFrom, List.getElem?_cons_succ, List.take_succ_cons, List.sum_cons]
      rw [ih (acc + x) i (by simpa using h)]
      simp; omega

theorem cumsumFrom_length (acc : Nat) (l : List Nat) : (cumsumFrom acc l).length = l.length := by
  induction l generalizing acc with
  | nil => rfl
  | cons x xs ih => simp [cumsumFrom, ih]

theorem starts_getElem? (lens : List Nat) (i : Nat) (h : i < lens.length) :
    (starts lens)[i]? = some (lens.take i).sum := by
  cases i with
  | zero => simp [starts]
  | succ i =>
    simp only [starts, List.getElem?_cons_succ]
    rw [List.getElem?_dropLast]
    have hl := cumsumFrom_length 0 lens
    rw [if_pos (by omega), cumsumFrom_getElem? 0 lens i (by omega)]
    simp

theorem starts_length (lens : List Nat) (h : lens ≠ []) : (starts lens).length = lens.length := by
  simp [starts, cumsumFrom_length]
  cases lens with
  | nil => exact absurd rfl h
  | cons x xs => simp

end Ens.Ragged
