import Proofs.C01Basic
/-!
C01/C09 helper lemmas, part 2: `Consistent`, the PAM candidate keeps it when accepted, a proposal
that duplicates another center is never accepted, cost monotonicity.
-/
namespace Ens.Cluster

/-- the property's predicate on a clustering state (C01):
(i) center coordinates are the frames at the center indices, indices are frames;
(ii) every frame's distance is the table distance to the center it is labelled with, and
(iv) that label is a position of the center list; (iii) no center is strictly closer;
(v) every center frame carries its own label at distance zero. -/
structure Consistent (D : Table) (n : Nat) (s : St) : Prop where
  notFresh : s.arr.fresh = false
  frames : s.ctrFrames = s.ctrInds
  inds_lt : ∀ c ∈ s.ctrInds, c < n
  lab : ∀ f, f < n → ∃ (k c : Nat), s.arr.assign f = (k : Nat) ∧ s.ctrInds[k]? = some c ∧ s.arr.dist f = D f c
  best : ∀ f, f < n → ∀ (k c : Nat), s.ctrInds[k]? = some c → ¬ D f c < s.arr.dist f
  own : ∀ (k c : Nat), s.ctrInds[k]? = some c → s.arr.assign c = (k : Nat) ∧ s.arr.dist c = 0

theorem getElem?_lt {l : List Nat} {k c : Nat} (h : l[k]? = some c) : k < l.length := by
  rcases Nat.lt_or_ge k l.length with h' | h'
  · exact h'
  · rw [List.getElem?_eq_none h'] at h; cases h

theorem getElem?_mem' {l : List Nat} {k c : Nat} (h : l[k]? = some c) : c ∈ l :=
  List.mem_of_getElem? h

/-- centers own their label at distance 0: consequence of nearest-center labelling on distinct points -/
theorem own_of {D : Table} {n : Nat} (T : TableOK D n) {cs : List Nat} {a : Arr}
    (hlt : ∀ c ∈ cs, c < n) (hinj : Inj cs)
    (lab : ∀ f, f < n → ∃ (k c : Nat), a.assign f = (k : Nat) ∧ cs[k]? = some c ∧ a.dist f = D f c)
    (best : ∀ f, f < n → ∀ (k c : Nat), cs[k]? = some c → ¬ D f c < a.dist f) :
    ∀ (k c : Nat), cs[k]? = some c → a.assign c = (k : Nat) ∧ a.dist c = 0 := by
  intro k c hk
  have hc : c < n := hlt c (getElem?_mem' hk)
  obtain ⟨k', c', h1, h2, h3⟩ := lab c hc
  have hc' : c' < n := hlt c' (getElem?_mem' h2)
  have hb := best c hc k c hk
  rw [T.self c hc] at hb
  have h0 : 0 ≤ a.dist c := by rw [h3]; exact T.nonneg c c' hc hc'
  have hz : a.dist c = 0 := le_antisymm (not_lt.mp hb) h0
  have : c = c' := T.distinct c c' hc hc' (by rw [← h3]; exact hz)
  subst this
  have := hinj k' k c h2 hk
  subst this
  exact ⟨h1, hz⟩

theorem Consistent.inj {D : Table} {n : Nat} {s : St} (h : Consistent D n s) : Inj s.ctrInds := by
  intro i j c hi hj
  have h1 := (h.own i c hi).1
  have h2 := (h.own j c hj).1
  rw [h1] at h2; exact_mod_cast h2

theorem Consistent.dist_nonneg {D : Table} {n : Nat} {s : St} (T : TableOK D n) (h : Consistent D n s)
    {f : Nat} (hf : f < n) : 0 ≤ s.arr.dist f := by
  obtain ⟨k, c, _, h2, h3⟩ := h.lab f hf
  rw [h3]; exact T.nonneg f c hf (h.inds_lt c (getElem?_mem' h2))

/-- a running-minimum result over distinct frames of the data is a consistent state -/
theorem Consistent.of_runMin {D : Table} {n : Nat} (T : TableOK D n) {cs : List Nat} {a : Arr}
    (h : RunMin D n cs a) (hne : cs ≠ []) (hinj : Inj cs) (hlt : ∀ c ∈ cs, c < n) :
    Consistent D n { arr := a, ctrInds := cs, ctrFrames := cs } where
  notFresh := by
    cases hx : a.fresh
    · rfl
    · exact absurd (h.fresh_iff.mp hx) hne
  frames := rfl
  inds_lt := hlt
  lab := h.lab hne
  best := h.best
  own := own_of T hlt hinj (h.lab hne) h.best

/-! ### cost -/

theorem sumTo_le_sumTo {n : Nat} {g h : Nat → Rat} (H : ∀ f, f < n → g f ≤ h f) :
    sumTo n g ≤ sumTo n h := by
  induction n with
  | zero => simp [sumTo]
  | succ k ih =>
    simp only [sumTo]
    exact add_le_add (ih fun f hf => H f (Nat.lt_succ_of_lt hf)) (H k (Nat.lt_succ_self k))

theorem cost_le_cost {n : Nat} {d e : Nat → Rat} (H : ∀ f, f < n → 0 ≤ d f ∧ d f ≤ e f) :
    cost n d ≤ cost n e := by
  unfold cost
  apply div_le_div_of_nonneg_right _ (by positivity)
  apply sumTo_le_sumTo
  intro f hf
  obtain ⟨h0, h1⟩ := H f hf
  nlinarith

/-! ### the PAM candidate -/

theorem cand_dist (D : Table) {n : Nat} (s : St) (cid p : Nat) {f : Nat} (h : f < n) :
    (pamCandidate D n s cid p).arr.dist f =
      if D f p < s.arr.dist f then D f p
      else if s.arr.assign f ≠ (cid : Nat) then s.arr.dist f
      else (assignNearest D n (s.ctrFrames.set cid p)).dist f := by
  unfold pamCandidate; simp only []; rw [tab_dist _ _ _ h]

theorem cand_assign (D : Table) {n : Nat} (s : St) (cid p : Nat) {f : Nat} (h : f < n) :
    (pamCandidate D n s cid p).arr.assign f =
      if D f p < s.arr.dist f then ((cid : Nat) : Int)
      else if s.arr.assign f ≠ (cid : Nat) then s.arr.assign f
      else (assignNearest D n (s.ctrFrames.set cid p)).assign f := by
  unfold pamCandidate; simp only []; rw [tab_assign _ _ _ h]

@[simp] theorem cand_inds (D : Table) (n : Nat) (s : St) (cid p : Nat) :
    (pamCandidate D n s cid p).ctrInds = s.ctrInds.set cid p := rfl
@[simp] theorem cand_frames (D : Table) (n : Nat) (s : St) (cid p : Nat) :
    (pamCandidate D n s cid p).ctrFrames = s.ctrFrames.set cid p := rfl
@[simp] theorem cand_fresh (D : Table) (n : Nat) (s : St) (cid p : Nat) :
    (pamCandidate D n s cid p).arr.fresh = false := rfl

theorem set_getElem?_cases {l : List Nat} {cid p k c : Nat} (h : (l.set cid p)[k]? = some c) :
    (k = cid ∧ c = p) ∨ (k ≠ cid ∧ l[k]? = some c) := by
  rw [List.getElem?_set] at h
  by_cases hk : cid = k
  · subst hk
    simp only [if_true] at h
    split at h
    · left; exact ⟨rfl, by cases h; rfl⟩
    · cases h
  · right; simp only [hk, if_false] at h; exact ⟨fun e => hk e.symm, h⟩

/-- labelling and optimality of the candidate, whatever the proposal -/
theorem cand_lab_best {D : Table} {n : Nat} {s : St} (hs : Consistent D n s) {cid p : Nat}
    (hcid : cid < s.ctrInds.length) :
    (∀ f, f < n → ∃ (k c : Nat), (pamCandidate D n s cid p).arr.assign f = (k : Nat) ∧
        (s.ctrInds.set cid p)[k]? = some c ∧ (pamCandidate D n s cid p).arr.dist f = D f c) ∧
    (∀ f, f < n → ∀ (k c : Nat), (s.ctrInds.set cid p)[k]? = some c →
        ¬ D f c < (pamCandidate D n s cid p).arr.dist f) := by
  have hne : s.ctrInds.set cid p ≠ [] := by
    intro e
    have := List.length_set (as := s.ctrInds) (i := cid) (a := p)
    rw [e] at this; simp at this; omega
  have hamb := RunMin.assignNearest D n (s.ctrInds.set cid p)
  constructor
  · intro f hf
    rw [cand_dist D s cid p hf, cand_assign D s cid p hf, hs.frames]
    by_cases h1 : D f p < s.arr.dist f
    · simp only [if_pos h1]
      exact ⟨cid, p, rfl, by simp [hcid], rfl⟩
    · simp only [if_neg h1]
      by_cases h2 : s.arr.assign f ≠ (cid : Nat)
      · simp only [if_pos h2]
        obtain ⟨k, c, e1, e2, e3⟩ := hs.lab f hf
        refine ⟨k, c, e1, ?_, e3⟩
        have : cid ≠ k := by intro e; subst e; exact h2 e1
        rw [List.getElem?_set_ne this]; exact e2
      · simp only [if_neg h2]
        exact hamb.lab hne f hf
  · intro f hf k c hk
    rw [cand_dist D s cid p hf, hs.frames]
    by_cases h1 : D f p < s.arr.dist f
    · simp only [if_pos h1]
      rcases set_getElem?_cases hk with ⟨_, rfl⟩ | ⟨_, hk'⟩
      · exact lt_irrefl _
      · have := hs.best f hf k c hk'
        intro hlt; exact this (lt_trans hlt h1)
    · simp only [if_neg h1]
      by_cases h2 : s.arr.assign f ≠ (cid : Nat)
      · simp only [if_pos h2]
        rcases set_getElem?_cases hk with ⟨_, rfl⟩ | ⟨_, hk'⟩
        · exact h1
        · exact hs.best f hf k c hk'
      · simp only [if_neg h2]
        exact hamb.best f hf k c hk

/-- a proposal that is already a center (of this or another cluster) cannot lower the cost -/
theorem cand_dup_cost {D : Table} {n : Nat} (T : TableOK D n) {s : St} (hs : Consistent D n s)
    {cid p a : Nat} (hcid : cid < s.ctrInds.length) (hap : s.ctrInds[a]? = some p) :
    cost n s.arr.dist ≤ cost n (pamCandidate D n s cid p).arr.dist := by
  apply cost_le_cost
  intro f hf
  refine ⟨hs.dist_nonneg T hf, ?_⟩
  obtain ⟨hl, _⟩ := cand_lab_best (p := p) hs hcid
  obtain ⟨k, c, _, e2, e3⟩ := hl f hf
  rw [e3]
  rcases set_getElem?_cases e2 with ⟨_, rfl⟩ | ⟨_, hk'⟩
  · exact not_lt.mp (hs.best f hf a c hap)
  · exact not_lt.mp (hs.best f hf k c hk')

/-- an accepted candidate (strictly lower cost) is a consistent state -/
theorem cand_consistent {D : Table} {n : Nat} (T : TableOK D n) {s : St} (hs : Consistent D n s)
    {cid p : Nat} (hcid : cid < s.ctrInds.length) (hp : p < n)
    (hacc : cost n (pamCandidate D n s cid p).arr.dist < cost n s.arr.dist) :
    Consistent D n (pamCandidate D n s cid p) := by
  obtain ⟨hl, hb⟩ := cand_lab_best (p := p) hs hcid
  have hlt : ∀ c ∈ s.ctrInds.set cid p, c < n := by
    intro c hc
    rcases List.mem_or_eq_of_mem_set hc with h | h
    · exact hs.inds_lt c h
    · exact h ▸ hp
  have hinj : Inj (s.ctrInds.set cid p) := by
    intro i j c hi hj
    rcases set_getElem?_cases hi with ⟨rfl, rfl⟩ | ⟨hi1, hi2⟩ <;>
      rcases set_getElem?_cases hj with ⟨hj0, hj1⟩ | ⟨hj1, hj2⟩
    · exact hj0.symm
    · exact absurd (cand_dup_cost T hs hcid hj2) (not_le.mpr hacc)
    · subst hj0; subst hj1
      exact absurd (cand_dup_cost T hs hcid hi2) (not_le.mpr hacc)
    · exact hs.inj i j c hi2 hj2
  exact {
    notFresh := rfl
    frames := by simp [hs.frames]
    inds_lt := hlt
    lab := hl
    best := hb
    own := own_of T hlt hinj hl hb }

end Ens.Cluster
