import Proofs.C18Real
import Mathlib.Algebra.BigOperators.Group.Finset.Sigma
import Mathlib.Data.Finset.Card
/-!
Mutual information of a finite joint table `P : ℕ → ℕ → ℝ` (rows `< nA`, columns `< nB`) and
its laws: non-negativity, symmetry under transposition, diagonal = entropy, bounded by each
marginal entropy, invariance under relabelling of rows / columns.
-/
namespace Ens.InfoR
open Finset

noncomputable def rowS (P : ℕ → ℕ → ℝ) (nB : ℕ) (u : ℕ) : ℝ := ∑ v ∈ range nB, P u v
noncomputable def colS (P : ℕ → ℕ → ℝ) (nA : ℕ) (v : ℕ) : ℝ := ∑ u ∈ range nA, P u v

/-- `Σ_uv P_uv log (P_uv / (P_u· P_·v))` -/
noncomputable def miF (P : ℕ → ℕ → ℝ) (nA nB : ℕ) : ℝ :=
  ∑ u ∈ range nA, ∑ v ∈ range nB, P u v * Real.log (P u v / (rowS P nB u * colS P nA v))

/-- `−Σ_u p_u log p_u` -/
noncomputable def entF (p : ℕ → ℝ) (n : ℕ) : ℝ := - ∑ u ∈ range n, p u * Real.log (p u)

theorem le_rowS (P : ℕ → ℕ → ℝ) (nA nB : ℕ) (hP : ∀ u < nA, ∀ v < nB, 0 ≤ P u v)
    (u v : ℕ) (hu : u < nA) (hv : v < nB) : P u v ≤ rowS P nB u := by
  unfold rowS
  exact Finset.single_le_sum (f := fun v => P u v) (fun w hw => hP u hu w (mem_range.1 hw)) (mem_range.2 hv)

theorem le_colS (P : ℕ → ℕ → ℝ) (nA nB : ℕ) (hP : ∀ u < nA, ∀ v < nB, 0 ≤ P u v)
    (u v : ℕ) (hu : u < nA) (hv : v < nB) : P u v ≤ colS P nA v := by
  unfold colS
  exact Finset.single_le_sum (f := fun u => P u v) (fun w hw => hP w (mem_range.1 hw) v hv) (mem_range.2 hu)

theorem rowS_nonneg (P : ℕ → ℕ → ℝ) (nA nB : ℕ) (hP : ∀ u < nA, ∀ v < nB, 0 ≤ P u v)
    (u : ℕ) (hu : u < nA) : 0 ≤ rowS P nB u :=
  Finset.sum_nonneg fun v hv => hP u hu v (mem_range.1 hv)

theorem colS_nonneg (P : ℕ → ℕ → ℝ) (nA nB : ℕ) (hP : ∀ u < nA, ∀ v < nB, 0 ≤ P u v)
    (v : ℕ) (hv : v < nB) : 0 ≤ colS P nA v :=
  Finset.sum_nonneg fun u hu => hP u (mem_range.1 hu) v hv

theorem sum_colS (P : ℕ → ℕ → ℝ) (nA nB : ℕ) :
    ∑ v ∈ range nB, colS P nA v = ∑ u ∈ range nA, rowS P nB u := by
  unfold colS rowS; exact Finset.sum_comm

theorem miF_eq_klSum (P : ℕ → ℕ → ℝ) (nA nB : ℕ) :
    miF P nA nB = klSum (range nA ×ˢ range nB) (fun x => P x.1 x.2)
      (fun x => rowS P nB x.1 * colS P nA x.2) := by
  unfold miF klSum
  rw [Finset.sum_product]

/-- mutual information is non-negative for every non-negative table of total mass ≤ 1 -/
theorem miF_nonneg (P : ℕ → ℕ → ℝ) (nA nB : ℕ) (hP : ∀ u < nA, ∀ v < nB, 0 ≤ P u v)
    (hS : ∑ u ∈ range nA, rowS P nB u ≤ 1) : 0 ≤ miF P nA nB := by
  rw [miF_eq_klSum]
  have hS0 : 0 ≤ ∑ u ∈ range nA, rowS P nB u :=
    Finset.sum_nonneg fun u hu => rowS_nonneg P nA nB hP u (mem_range.1 hu)
  apply klSum_nonneg
  · intro x hx
    obtain ⟨h1, h2⟩ := Finset.mem_product.1 hx
    exact hP _ (mem_range.1 h1) _ (mem_range.1 h2)
  · intro x hx
    obtain ⟨h1, h2⟩ := Finset.mem_product.1 hx
    exact mul_nonneg (rowS_nonneg P nA nB hP _ (mem_range.1 h1)) (colS_nonneg P nA nB hP _ (mem_range.1 h2))
  · intro x hx hpos
    obtain ⟨h1, h2⟩ := Finset.mem_product.1 hx
    have a1 := le_rowS P nA nB hP _ _ (mem_range.1 h1) (mem_range.1 h2)
    have a2 := le_colS P nA nB hP _ _ (mem_range.1 h1) (mem_range.1 h2)
    exact mul_pos (lt_of_lt_of_le hpos a1) (lt_of_lt_of_le hpos a2)
  · rw [Finset.sum_product, Finset.sum_product]
    have e1 : ∑ u ∈ range nA, ∑ v ∈ range nB, rowS P nB u * colS P nA v
        = (∑ u ∈ range nA, rowS P nB u) * (∑ v ∈ range nB, colS P nA v) := by
      rw [Finset.sum_mul_sum]
    have e2 : ∑ u ∈ range nA, ∑ v ∈ range nB, P u v = ∑ u ∈ range nA, rowS P nB u := rfl
    simp only at e1 e2 ⊢
    rw [e1, e2, sum_colS]
    nlinarith

/-- transposing the table does not change the mutual information -/
theorem miF_transpose (P : ℕ → ℕ → ℝ) (nA nB : ℕ) :
    miF (fun v u => P u v) nB nA = miF P nA nB := by
  unfold miF
  rw [Finset.sum_comm]
  apply Finset.sum_congr rfl; intro u _
  apply Finset.sum_congr rfl; intro v _
  have e1 : rowS (fun v u => P u v) nA v = colS P nA v := rfl
  have e2 : colS (fun v u => P u v) nB u = rowS P nB u := rfl
  rw [e1, e2, mul_comm (colS P nA v)]

/-- a diagonal table (a variable against itself): mutual information = Shannon entropy -/
theorem miF_diag (p : ℕ → ℝ) (n : ℕ) :
    miF (fun u v => if u = v then p u else 0) n n = entF p n := by
  unfold miF entF
  rw [← Finset.sum_neg_distrib]
  apply Finset.sum_congr rfl; intro u hu
  have hr : rowS (fun u v => if u = v then p u else 0) n u = p u := by
    unfold rowS; simp [Finset.sum_ite_eq, hu]
  rw [Finset.sum_eq_single u]
  · have hc : colS (fun u v => if u = v then p u else 0) n u = p u := by
      unfold colS; simp [Finset.sum_ite_eq', hu]
    rw [hr, hc]
    by_cases h0 : p u = 0
    · simp [h0]
    · simp only [if_true]
      have : p u / (p u * p u) = (p u)⁻¹ := by field_simp
      rw [this, Real.log_inv]; ring
  · intro v _ hvu
    have : ¬ u = v := fun e => hvu e.symm
    simp [this]
  · intro h; exact absurd hu h

/-- `I(X;Y) ≤ H(X)` (row marginal) -/
theorem miF_le_entF_row (P : ℕ → ℕ → ℝ) (nA nB : ℕ) (hP : ∀ u < nA, ∀ v < nB, 0 ≤ P u v) :
    miF P nA nB ≤ entF (rowS P nB) nA := by
  unfold miF entF
  rw [← Finset.sum_neg_distrib]
  apply Finset.sum_le_sum; intro u hu
  have hu' := mem_range.1 hu
  have : -(rowS P nB u * Real.log (rowS P nB u)) = ∑ v ∈ range nB, -(P u v * Real.log (rowS P nB u)) := by
    rw [Finset.sum_neg_distrib, ← Finset.sum_mul]; rfl
  rw [this]
  apply Finset.sum_le_sum; intro v hv
  have hv' := mem_range.1 hv
  rcases (hP u hu' v hv').eq_or_lt with h0 | hpos
  · rw [← h0]; simp
  · have a1 := le_rowS P nA nB hP u v hu' hv'
    have a2 := le_colS P nA nB hP u v hu' hv'
    have r0 : 0 < rowS P nB u := lt_of_lt_of_le hpos a1
    have c0 : 0 < colS P nA v := lt_of_lt_of_le hpos a2
    rw [Real.log_div hpos.ne' (mul_pos r0 c0).ne', Real.log_mul r0.ne' c0.ne']
    have : Real.log (P u v) ≤ Real.log (colS P nA v) := Real.log_le_log hpos a2
    nlinarith

/-- `I(X;Y) ≤ H(Y)` (column marginal) -/
theorem miF_le_entF_col (P : ℕ → ℕ → ℝ) (nA nB : ℕ) (hP : ∀ u < nA, ∀ v < nB, 0 ≤ P u v) :
    miF P nA nB ≤ entF (colS P nA) nB := by
  rw [← miF_transpose]
  exact miF_le_entF_row (fun v u => P u v) nB nA (fun v hv u hu => hP u hu v hv)

/-! relabelling -/

theorem sum_range_relabel (σ : ℕ → ℕ) (n : ℕ) (hmap : ∀ u < n, σ u < n)
    (hinj : ∀ u < n, ∀ u' < n, σ u = σ u' → u = u') (f : ℕ → ℝ) :
    ∑ u ∈ range n, f (σ u) = ∑ u ∈ range n, f u := by
  have hinj' : Set.InjOn σ (range n : Set ℕ) := by
    intro a ha b hb e
    exact hinj a (by simpa using ha) b (by simpa using hb) e
  have himg : (range n).image σ = range n := by
    apply Finset.eq_of_subset_of_card_le
    · intro x hx
      obtain ⟨u, hu, rfl⟩ := Finset.mem_image.1 hx
      exact mem_range.2 (hmap u (mem_range.1 hu))
    · rw [Finset.card_image_of_injOn hinj']
  rw [← Finset.sum_image (f := f) (s := range n) (g := σ) (fun a ha b hb e => hinj' ha hb e), himg]

/-- relabelling rows and columns by permutations of the index ranges leaves MI unchanged -/
theorem miF_relabel (P : ℕ → ℕ → ℝ) (nA nB : ℕ) (σ ρ : ℕ → ℕ)
    (hσ : ∀ u < nA, σ u < nA) (hσi : ∀ u < nA, ∀ u' < nA, σ u = σ u' → u = u')
    (hρ : ∀ v < nB, ρ v < nB) (hρi : ∀ v < nB, ∀ v' < nB, ρ v = ρ v' → v = v') :
    miF (fun u v => P (σ u) (ρ v)) nA nB = miF P nA nB := by
  unfold miF
  have hr : ∀ u, rowS (fun u v => P (σ u) (ρ v)) nB u = rowS P nB (σ u) := by
    intro u; unfold rowS
    exact sum_range_relabel ρ nB hρ hρi (fun v => P (σ u) v)
  have hc : ∀ v, colS (fun u v => P (σ u) (ρ v)) nA v = colS P nA (ρ v) := by
    intro v; unfold colS
    exact sum_range_relabel σ nA hσ hσi (fun u => P u (ρ v))
  simp only [hr, hc]
  rw [sum_range_relabel σ nA hσ hσi
    (fun u => ∑ v ∈ range nB, P u (ρ v) * Real.log (P u (ρ v) / (rowS P nB u * colS P nA (ρ v))))]
  apply Finset.sum_congr rfl; intro u _
  exact sum_range_relabel ρ nB hρ hρi
    (fun v => P u v * Real.log (P u v / (rowS P nB u * colS P nA v)))

end Ens.InfoR
