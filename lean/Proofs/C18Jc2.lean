import Proofs.C18Jc
/-!
`matrix_bincount2d`: additivity over pooled trajectories, invariance under frame permutations,
equivariance under state relabelling.  Core Lean only.
-/
namespace Ens.Info
open Ens.Sched

theorem guard_ok_of (a b : Arr) (nA nB : Int)
    (h1 : a.F < 2 ^ 32) (h2 : a.T = b.T) (h3 : a.entries ≠ []) (h4 : b.entries ≠ [])
    (h5 : ∀ v ∈ a.entries, 0 ≤ v ∧ v < nA) (h6 : ∀ v ∈ b.entries, 0 ≤ v ∧ v < nB) :
    guard a b nA nB = .ok () := (guard_ok_iff a b nA nB).2 ⟨h1, h2, h3, h4, h5, h6⟩

theorem entries_ne_nil_iff (a : Arr) : a.entries ≠ [] ↔ 0 < a.T ∧ 0 < a.F := by
  constructor
  · intro h
    obtain ⟨v, hv⟩ := List.exists_mem_of_ne_nil _ h
    obtain ⟨t, ht, f, hf, _⟩ := (mem_entries a v).1 hv
    omega
  · intro ⟨hT, hF⟩ he
    have : a.get 0 0 ∈ a.entries := (mem_entries a _).2 ⟨0, hT, 0, hF, rfl⟩
    rw [he] at this; cases this

/-- the table produced on success, in closed form -/
theorem ok_of_guard (a b : Arr) (nA nB : Int) (h : guard a b nA nB = .ok ()) :
    ∃ r, matrixBincount2d a b nA nB = .ok r :=
  ⟨_, (matrixBincount2d_ok_iff a b nA nB _).2 ⟨h, rfl⟩⟩

/-! #### pooling -/

theorem mem_entries_append (a a' : Arr) (hF : a'.F = a.F) (v : Int) :
    v ∈ (a.append a').entries ↔ v ∈ a.entries ∨ v ∈ a'.entries := by
  simp only [mem_entries, Arr.append]
  constructor
  · rintro ⟨t, ht, f, hf, rfl⟩
    by_cases h : t < a.T
    · left; exact ⟨t, h, f, hf, by simp [h]⟩
    · right; exact ⟨t - a.T, by omega, f, by omega, by simp [h]⟩
  · rintro (⟨t, ht, f, hf, rfl⟩ | ⟨t, ht, f, hf, rfl⟩)
    · exact ⟨t, by omega, f, hf, by simp [ht]⟩
    · refine ⟨a.T + t, by omega, f, by omega, ?_⟩
      have : ¬ a.T + t < a.T := by omega
      simp [this]

theorem frameCount_append (a a' b b' : Arr) (hT : a.T = b.T) (x y : Nat) (i j : Int) :
    frameCount (a.append a') (b.append b') x y i j
      = frameCount a b x y i j + frameCount a' b' x y i j := by
  unfold frameCount
  have e : (a.append a').T = a.T + a'.T := rfl
  rw [e, List.range_add, List.countP_append, List.countP_map]
  congr 1
  · apply List.countP_congr
    intro t ht
    have ht' : t < a.T := List.mem_range.1 ht
    have ht'' : t < b.T := hT ▸ ht'
    simp [Arr.append, ht', ht'']
  · apply List.countP_congr
    intro t _
    have h1 : ¬ a.T + t < a.T := by omega
    have h2 : ¬ a.T + t < b.T := by omega
    simp [Arr.append, h1, ← hT]

/-- pooled trajectories: the table of the concatenation is the sum of the tables -/
theorem jc_additive_core (a a' b b' : Arr) (nA nB : Int) (r r' : JC)
    (hFa : a'.F = a.F) (hFb : b'.F = b.F)
    (h : matrixBincount2d a b nA nB = .ok r) (h' : matrixBincount2d a' b' nA nB = .ok r') :
    ∃ p, matrixBincount2d (a.append a') (b.append b') nA nB = .ok p ∧
      ∀ x y i j, p.cnt x y i j = r.cnt x y i j + r'.cnt x y i j := by
  obtain ⟨hg, _⟩ := (matrixBincount2d_ok_iff a b nA nB r).1 h
  obtain ⟨hg', _⟩ := (matrixBincount2d_ok_iff a' b' nA nB r').1 h'
  obtain ⟨g1, g2, g3, g4, g5, g6⟩ := (guard_ok_iff a b nA nB).1 hg
  obtain ⟨g1', g2', g3', g4', g5', g6'⟩ := (guard_ok_iff a' b' nA nB).1 hg'
  have hG : guard (a.append a') (b.append b') nA nB = .ok () := by
    apply guard_ok_of
    · exact g1
    · show a.T + a'.T = b.T + b'.T; omega
    · obtain ⟨v, hv⟩ := List.exists_mem_of_ne_nil _ g3
      intro he
      have := (mem_entries_append a a' hFa v).2 (Or.inl hv)
      rw [he] at this; cases this
    · obtain ⟨v, hv⟩ := List.exists_mem_of_ne_nil _ g4
      intro he
      have := (mem_entries_append b b' hFb v).2 (Or.inl hv)
      rw [he] at this; cases this
    · intro v hv
      rcases (mem_entries_append a a' hFa v).1 hv with h | h
      · exact g5 v h
      · exact g5' v h
    · intro v hv
      rcases (mem_entries_append b b' hFb v).1 hv with h | h
      · exact g6 v h
      · exact g6' v h
  obtain ⟨p, hp⟩ := ok_of_guard _ _ nA nB hG
  refine ⟨p, hp, ?_⟩
  intro x y i j
  obtain ⟨_, _, _, _, hc⟩ := jc_exact_core _ _ nA nB p hp
  obtain ⟨_, _, _, _, hc1⟩ := jc_exact_core a b nA nB r h
  obtain ⟨_, _, _, _, hc2⟩ := jc_exact_core a' b' nA nB r' h'
  rw [hc, hc1, hc2, frameCount_append a a' b b' g2]
  have e1 : (a.append a').F = a.F := rfl
  have e2 : (b.append b').F = b.F := rfl
  rw [e1, e2, hFa, hFb]
  split <;> simp

/-! #### frame permutations -/

theorem perm_range_lt (σ : Nat → Nat) (T : Nat) (h : ((List.range T).map σ).Perm (List.range T))
    (t : Nat) (ht : t < T) : σ t < T := by
  have : σ t ∈ (List.range T).map σ := List.mem_map.2 ⟨t, List.mem_range.2 ht, rfl⟩
  exact List.mem_range.1 (h.mem_iff.1 this)

theorem perm_range_surj (σ : Nat → Nat) (T : Nat) (h : ((List.range T).map σ).Perm (List.range T))
    (s : Nat) (hs : s < T) : ∃ t, t < T ∧ σ t = s := by
  have : s ∈ (List.range T).map σ := h.mem_iff.2 (List.mem_range.2 hs)
  obtain ⟨t, ht, e⟩ := List.mem_map.1 this
  exact ⟨t, List.mem_range.1 ht, e⟩

theorem mem_entries_permFrames (a : Arr) (σ : Nat → Nat)
    (h : ((List.range a.T).map σ).Perm (List.range a.T)) (v : Int) :
    v ∈ (a.permFrames σ).entries ↔ v ∈ a.entries := by
  simp only [mem_entries, Arr.permFrames]
  constructor
  · rintro ⟨t, ht, f, hf, rfl⟩
    exact ⟨σ t, perm_range_lt σ a.T h t ht, f, hf, rfl⟩
  · rintro ⟨s, hs, f, hf, rfl⟩
    obtain ⟨t, ht, rfl⟩ := perm_range_surj σ a.T h s hs
    exact ⟨t, ht, f, hf, rfl⟩

theorem frameCount_permFrames (a b : Arr) (σ : Nat → Nat)
    (h : ((List.range a.T).map σ).Perm (List.range a.T)) (x y : Nat) (i j : Int) :
    frameCount (a.permFrames σ) (b.permFrames σ) x y i j = frameCount a b x y i j := by
  unfold frameCount
  calc List.countP (fun t => decide ((a.permFrames σ).get t x = i ∧ (b.permFrames σ).get t y = j))
          (List.range (a.permFrames σ).T)
      = List.countP ((fun t => decide (a.get t x = i ∧ b.get t y = j)) ∘ σ) (List.range a.T) := rfl
    _ = List.countP (fun t => decide (a.get t x = i ∧ b.get t y = j)) ((List.range a.T).map σ) :=
        List.countP_map.symm
    _ = _ := h.countP_eq _

theorem guard_permFrames (a b : Arr) (nA nB : Int) (σ : Nat → Nat)
    (hσ : ((List.range a.T).map σ).Perm (List.range a.T)) (hT : a.T = b.T) :
    guard (a.permFrames σ) (b.permFrames σ) nA nB = .ok () ↔ guard a b nA nB = .ok () := by
  have hσb : ((List.range b.T).map σ).Perm (List.range b.T) := hT ▸ hσ
  have ea : ∀ v, v ∈ (a.permFrames σ).entries ↔ v ∈ a.entries := mem_entries_permFrames a σ hσ
  have eb : ∀ v, v ∈ (b.permFrames σ).entries ↔ v ∈ b.entries := mem_entries_permFrames b σ hσb
  have na : (a.permFrames σ).entries ≠ [] ↔ a.entries ≠ [] := by
    rw [entries_ne_nil_iff, entries_ne_nil_iff]; rfl
  have nb : (b.permFrames σ).entries ≠ [] ↔ b.entries ≠ [] := by
    rw [entries_ne_nil_iff, entries_ne_nil_iff]; rfl
  rw [guard_ok_iff, guard_ok_iff, na, nb]
  simp only [ea, eb]
  rfl

/-- reordering the frames (the same way on both sides) does not change the table -/
theorem jc_perm_frames_core (a b : Arr) (nA nB : Int) (σ : Nat → Nat) (r : JC)
    (hσ : ((List.range a.T).map σ).Perm (List.range a.T))
    (h : matrixBincount2d a b nA nB = .ok r) :
    matrixBincount2d (a.permFrames σ) (b.permFrames σ) nA nB = .ok r := by
  obtain ⟨hg, _⟩ := (matrixBincount2d_ok_iff a b nA nB r).1 h
  have hT : a.T = b.T := ((guard_ok_iff a b nA nB).1 hg).2.1
  have hG := (guard_permFrames a b nA nB σ hσ hT).2 hg
  obtain ⟨p, hp⟩ := ok_of_guard _ _ nA nB hG
  obtain ⟨p1, p2, p3, p4, hc⟩ := jc_exact_core _ _ nA nB p hp
  obtain ⟨r1, r2, r3, r4, hc'⟩ := jc_exact_core a b nA nB r h
  rw [hp]
  congr 1
  obtain ⟨pFa, pFb, pnA, pnB, pc⟩ := p
  obtain ⟨rFa, rFb, rnA, rnB, rc⟩ := r
  simp only at p1 p2 p3 p4 r1 r2 r3 r4 hc hc'
  subst p1 p2 p3 p4 r1 r2 r3 r4
  have : pc = rc := by
    funext x y i j
    rw [hc, hc', frameCount_permFrames a b σ hσ]
    rfl
  rw [this]
  rfl

/-! #### relabelling states -/

/-- `π` maps `[0, n)` into itself injectively -/
def RelabelOn (π : Int → Int) (n : Int) : Prop :=
  (∀ v, 0 ≤ v → v < n → 0 ≤ π v ∧ π v < n) ∧
  (∀ v w, 0 ≤ v → v < n → 0 ≤ w → w < n → π v = π w → v = w)

theorem mem_entries_relabel (a : Arr) (π : Nat → Int → Int) (v : Int) :
    v ∈ (a.relabel π).entries ↔ ∃ t, t < a.T ∧ ∃ f, f < a.F ∧ π f (a.get t f) = v :=
  mem_entries (a.relabel π) v

/-- relabelling the states of every feature moves the counts to the relabelled cells -/
theorem jc_relabel_core (a b : Arr) (nA nB : Int) (πa πb : Nat → Int → Int) (r : JC)
    (ha : ∀ f, f < a.F → RelabelOn (πa f) nA) (hb : ∀ f, f < b.F → RelabelOn (πb f) nB)
    (h : matrixBincount2d a b nA nB = .ok r) :
    ∃ p, matrixBincount2d (a.relabel πa) (b.relabel πb) nA nB = .ok p ∧
      ∀ x y i j, x < a.F → y < b.F → 0 ≤ i → i < nA → 0 ≤ j → j < nB →
        p.cnt x y (πa x i) (πb y j) = r.cnt x y i j := by
  obtain ⟨hg, _⟩ := (matrixBincount2d_ok_iff a b nA nB r).1 h
  obtain ⟨g1, g2, g3, g4, g5, g6⟩ := (guard_ok_iff a b nA nB).1 hg
  have hG : guard (a.relabel πa) (b.relabel πb) nA nB = .ok () := by
    apply guard_ok_of
    · exact g1
    · exact g2
    · rw [entries_ne_nil_iff] at g3 ⊢; exact g3
    · rw [entries_ne_nil_iff] at g4 ⊢; exact g4
    · intro v hv
      obtain ⟨t, ht, f, hf, rfl⟩ := (mem_entries_relabel a πa v).1 hv
      have := g5 _ ((mem_entries a _).2 ⟨t, ht, f, hf, rfl⟩)
      exact (ha f hf).1 _ this.1 this.2
    · intro v hv
      obtain ⟨t, ht, f, hf, rfl⟩ := (mem_entries_relabel b πb v).1 hv
      have := g6 _ ((mem_entries b _).2 ⟨t, ht, f, hf, rfl⟩)
      exact (hb f hf).1 _ this.1 this.2
  obtain ⟨p, hp⟩ := ok_of_guard _ _ nA nB hG
  refine ⟨p, hp, ?_⟩
  intro x y i j hx hy hi0 hi hj0 hj
  obtain ⟨_, _, _, _, hc⟩ := jc_exact_core _ _ nA nB p hp
  obtain ⟨_, _, _, _, hc'⟩ := jc_exact_core a b nA nB r h
  rw [hc, hc']
  have e1 : (a.relabel πa).F = a.F := rfl
  have e2 : (b.relabel πb).F = b.F := rfl
  rw [e1, e2]
  simp only [hx, hy, and_self, if_true]
  unfold frameCount
  apply List.countP_congr
  intro t ht
  have ht' : t < a.T := List.mem_range.1 ht
  have va := g5 _ ((mem_entries a _).2 ⟨t, ht', x, hx, rfl⟩)
  have vb := g6 _ ((mem_entries b _).2 ⟨t, g2 ▸ ht', y, hy, rfl⟩)
  have ia : πa x (a.get t x) = πa x i ↔ a.get t x = i :=
    ⟨(ha x hx).2 _ _ va.1 va.2 hi0 hi, fun e => by rw [e]⟩
  have ib : πb y (b.get t y) = πb y j ↔ b.get t y = j :=
    ⟨(hb y hy).2 _ _ vb.1 vb.2 hj0 hj, fun e => by rw [e]⟩
  simp [Arr.relabel, ia, ib]

end Ens.Info
