import Model.Rotamer
import Mathlib.Tactic.Linarith
import Mathlib.Tactic.NormNum
import Mathlib.Algebra.Order.Field.Rat
/-!
C20, part 1: pure arithmetic.  The two comparison branches of `is_buffered_transition` applied to the
gates of `get_gates` decide membership in the widened basin on the circle, for each of the three
kinds of basin (touching 0, touching 360, touching neither), as long as the widened basin does
not wrap onto itself and the angle avoids the gate values.
-/
namespace Ens.Rotamer

/-- circle-arc membership for explicit endpoints: some representative of the angle lies in `[lo-b, hi+b]` -/
def InArc (lo hi b a : Rat) : Prop :=
  ∃ k : Int, lo - b ≤ a + 360 * (k : Rat) ∧ a + 360 * (k : Rat) ≤ hi + b

/-- the angle is not a gate value `v ± b (mod 360)` -/
def AvoidsGate (v b a : Rat) : Prop :=
  ∀ k : Int, a + 360 * (k : Rat) ≠ v - b ∧ a + 360 * (k : Rat) ≠ v + b

theorem int_tri (k : Int) : (k : Rat) ≤ -1 ∨ k = 0 ∨ (1 : Rat) ≤ (k : Rat) := by
  rcases lt_trichotomy k 0 with h | h | h
  · left
    have : k ≤ -1 := by omega
    exact_mod_cast this
  · right; left; exact h
  · right; right
    have : 1 ≤ k := by omega
    exact_mod_cast this

theorem exitTest_iff (g : Rat × Rat) (a : Rat) :
    exitTest g a = true ↔
      (g.2 < g.1 ∧ g.2 ≤ a ∧ a ≤ g.1) ∨ (g.1 < g.2 ∧ (a < g.1 ∨ g.2 < a)) := by
  simp [exitTest]

/-- basin touching 0 (`lo = 0`, `hi ≠ 360`): gates `(360 - b, hi + b)` -/
theorem exit_first {hi b a : Rat} (ha0 : 0 ≤ a) (ha : a < 360) (hb0 : 0 ≤ b)
    (hhi0 : 0 < hi) (hhi : hi ≠ 360) (hw : hi - 0 + 2 * b ≤ 360)
    (g0 : AvoidsGate 0 b a) (g1 : AvoidsGate hi b a) :
    exitTest (gatesOf 0 hi b) a = true ↔ ¬ InArc 0 hi b a := by
  rw [exitTest_iff]
  simp only [gatesOf, if_true, if_neg hhi]
  have e1 := (g0 (-1)).1
  have e2 := (g1 0).2
  have e3 := (g0 0).1
  push_cast at e1 e2 e3
  constructor
  · rintro (⟨h1, h2, h3⟩ | ⟨h1, _⟩)
    · rintro ⟨k, hk1, hk2⟩
      have h2' : hi + b < a := lt_of_le_of_ne h2 (fun h => e2 (by linarith))
      have h3' : a < 360 - b := lt_of_le_of_ne h3 (fun h => e1 (by linarith))
      rcases int_tri k with hk | hk | hk
      · linarith
      · subst hk; push_cast at hk1 hk2; linarith
      · linarith
    · exfalso; linarith
  · intro h
    left
    have k0 : ¬ (0 - b ≤ a + 360 * ((0 : Int) : Rat) ∧ a + 360 * ((0 : Int) : Rat) ≤ hi + b) :=
      fun hh => h ⟨0, hh⟩
    have k1 : ¬ (0 - b ≤ a + 360 * ((-1 : Int) : Rat) ∧ a + 360 * ((-1 : Int) : Rat) ≤ hi + b) :=
      fun hh => h ⟨-1, hh⟩
    push_cast at k0 k1
    have h2 : hi + b < a := by
      by_contra hc
      exact k0 ⟨by linarith, by linarith⟩
    have h3 : a < 360 - b := by
      by_contra hc
      exact k1 ⟨by linarith, by linarith⟩
    exact ⟨by linarith, le_of_lt h2, le_of_lt h3⟩

/-- basin touching 360 (`lo ≠ 0`, `hi = 360`): gates `(lo - b, b)` -/
theorem exit_last {lo b a : Rat} (ha0 : 0 ≤ a) (ha : a < 360) (hb0 : 0 ≤ b)
    (hlo0 : lo ≠ 0) (hlo : lo < 360) (hw : 360 - lo + 2 * b ≤ 360)
    (g0 : AvoidsGate lo b a) (g1 : AvoidsGate 360 b a) :
    exitTest (gatesOf lo 360 b) a = true ↔ ¬ InArc lo 360 b a := by
  rw [exitTest_iff]
  simp only [gatesOf, if_true, if_neg hlo0]
  have e1 := (g0 0).1
  have e2 := (g1 1).2
  push_cast at e1 e2
  constructor
  · rintro (⟨h1, h2, h3⟩ | ⟨h1, _⟩)
    · rintro ⟨k, hk1, hk2⟩
      have h2' : 0 + b < a := lt_of_le_of_ne h2 (fun h => e2 (by linarith))
      have h3' : a < lo - b := lt_of_le_of_ne h3 (fun h => e1 (by linarith))
      rcases int_tri k with hk | hk | hk
      · linarith
      · subst hk; push_cast at hk1 hk2; linarith
      · linarith
    · exfalso; linarith
  · intro h
    left
    have k0 : ¬ (lo - b ≤ a + 360 * ((0 : Int) : Rat) ∧ a + 360 * ((0 : Int) : Rat) ≤ 360 + b) :=
      fun hh => h ⟨0, hh⟩
    have k1 : ¬ (lo - b ≤ a + 360 * ((1 : Int) : Rat) ∧ a + 360 * ((1 : Int) : Rat) ≤ 360 + b) :=
      fun hh => h ⟨1, hh⟩
    push_cast at k0 k1
    have h3 : a < lo - b := by
      by_contra hc
      exact k0 ⟨by linarith, by linarith⟩
    have h2 : 0 + b < a := by
      by_contra hc
      exact k1 ⟨by linarith, by linarith⟩
    exact ⟨by linarith, le_of_lt h2, le_of_lt h3⟩

/-- basin touching neither end: gates `(lo - b, hi + b)`, no wrap-around in the code -/
theorem exit_mid {lo hi b a : Rat} (ha0 : 0 ≤ a) (ha : a < 360) (hb0 : 0 ≤ b)
    (hlo0 : lo ≠ 0) (hhi : hi ≠ 360) (hlt : lo < hi) (hm1 : b ≤ lo) (hm2 : hi + b ≤ 360)
    (g1 : AvoidsGate hi b a) :
    exitTest (gatesOf lo hi b) a = true ↔ ¬ InArc lo hi b a := by
  rw [exitTest_iff]
  simp only [gatesOf, if_neg hlo0, if_neg hhi]
  constructor
  · rintro (⟨h1, _⟩ | ⟨_, h2⟩)
    · exfalso; linarith
    · rintro ⟨k, hk1, hk2⟩
      rcases int_tri k with hk | hk | hk
      · linarith
      · subst hk; push_cast at hk1 hk2
        rcases h2 with h2 | h2 <;> linarith
      · have e := (g1 k).2
        apply e
        apply le_antisymm hk2
        linarith
  · intro h
    right
    refine ⟨by linarith, ?_⟩
    by_contra hc
    push Not at hc
    exact h ⟨0, by push_cast; linarith [hc.1], by push_cast; linarith [hc.2]⟩

/-- all three kinds of basin at once -/
theorem exit_iff_not_inArc {lo hi b a : Rat} (ha0 : 0 ≤ a) (ha : a < 360) (hb0 : 0 ≤ b)
    (hlo0 : 0 ≤ lo) (hlt : lo < hi) (hhi : hi ≤ 360) (hnot1 : ¬ (lo = 0 ∧ hi = 360))
    (hw : hi - lo + 2 * b ≤ 360)
    (hmid : lo ≠ 0 → hi ≠ 360 → b ≤ lo ∧ hi + b ≤ 360)
    (glo : AvoidsGate lo b a) (ghi : AvoidsGate hi b a) :
    exitTest (gatesOf lo hi b) a = true ↔ ¬ InArc lo hi b a := by
  by_cases h0 : lo = 0
  · subst h0
    have h3 : hi ≠ 360 := fun h => hnot1 ⟨rfl, h⟩
    exact exit_first ha0 ha hb0 hlt h3 hw glo ghi
  · by_cases h3 : hi = 360
    · subst h3
      exact exit_last ha0 ha hb0 h0 hlt hw glo ghi
    · obtain ⟨m1, m2⟩ := hmid h0 h3
      exact exit_mid ha0 ha hb0 h0 h3 hlt m1 m2 ghi

end Ens.Rotamer
