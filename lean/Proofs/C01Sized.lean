import Proofs.C01Total
/-!
C01 helper lemmas, part 8: the result arrays have one entry per frame (`size = n`).
-/
namespace Ens.Cluster

/-- both arrays have exactly `n` entries -/
def Sized (n : Nat) (a : Arr) : Prop := a.distA.size = n ∧ a.assignA.size = n

theorem Sized.tab (n : Nat) (fr : Bool) (d : Nat → Rat) (l : Nat → Int) : Sized n (Arr.tab n fr d l) := by
  simp [Sized, Arr.tab]

theorem Sized.relax {D : Table} {n : Nat} (a : Arr) (lbl : Int) (c : Nat) : Sized n (a.relax D n lbl c) :=
  Sized.tab n _ _ _

theorem Sized.assignLoop {D : Table} {n : Nat} : ∀ (cs : List Nat) (i : Nat) {a : Arr}, Sized n a →
    Sized n (assignLoop D n cs i a) := by
  intro cs
  induction cs with
  | nil => intro i a h; simpa [Cluster.assignLoop] using h
  | cons c cs ih => intro i a _; simp only [Cluster.assignLoop]; exact ih (i+1) (Sized.relax a _ c)

theorem Sized.assignNearest (D : Table) (n : Nat) (cs : List Nat) : Sized n (assignNearest D n cs) :=
  Sized.assignLoop cs 0 (Sized.tab n _ _ _)

theorem kcentersLoop_sized {D : Table} {n : Nat} {nClusters : Option Nat} {cutoff : Rat} :
    ∀ (fuel : Nat) {s s' : St}, Sized n s.arr → kcentersLoop D n nClusters cutoff fuel s = .ok s' →
      Sized n s'.arr := by
  intro fuel
  induction fuel with
  | zero =>
    intro s s' hs h
    unfold kcentersLoop at h
    split at h
    · cases h
    · injection h with h; subst h; exact hs
  | succ k ih =>
    intro s s' hs h
    unfold kcentersLoop at h
    split at h
    · exact ih (Sized.relax _ _ _) h
    · injection h with h; subst h; exact hs

theorem kcenters_sized {D : Table} {n : Nat} {nClusters : Option Nat} {cutoff : Rat} {init : Option (List Nat)}
    {fuel : Nat} {s : St} (h : kcenters D n nClusters cutoff init fuel = .ok s) : Sized n s.arr := by
  unfold kcenters at h
  simp only [bind, Except.bind] at h
  cases init with
  | none =>
    simp only [pure, Except.pure] at h
    split at h
    · simp [throw, throwThe, MonadExceptOf.throw] at h
    · exact kcentersLoop_sized fuel (Sized.tab n _ _ _) h
  | some cs =>
    cases hw : kcentersWarm D n cs with
    | error e => simp [hw] at h
    | ok s0 =>
      simp only [hw] at h
      have hs0 : Sized n s0.arr := by
        unfold kcentersWarm at hw
        split at hw
        · cases hw
        · simp only [] at hw
          split at hw
          · cases hw
          · injection hw with hw; subst hw; exact Sized.assignNearest D n cs
      split at h
      · simp [throw, throwThe, MonadExceptOf.throw] at h
      · exact kcentersLoop_sized fuel hs0 h

theorem pamStep_sized {D : Table} {n : Nat} {s : St} {cid p : Nat} {st : PamStep} (hs : Sized n s.arr)
    (h : pamStep D n s cid p = .ok st) : Sized n st.after.arr := by
  rcases pamStep_after_cases h with ⟨_, e⟩ | ⟨_, e, _⟩
  · rw [e]; exact hs
  · rw [e]; exact Sized.tab n _ _ _

theorem pamLoop_sized {D : Table} {n : Nat} {props : Option (List Nat)} :
    ∀ (cids : List Nat) {s s' : St} {orc orc' : List Nat} {tr : List PamStep},
      Sized n s.arr → pamLoop D n props cids s orc = .ok (s', orc', tr) → Sized n s'.arr := by
  intro cids
  induction cids with
  | nil => intro s s' orc orc' tr hs h; simp [pamLoop] at h; obtain ⟨rfl, _, _⟩ := h; exact hs
  | cons cid rest ih =>
    intro s s' orc orc' tr hs h
    obtain ⟨p, orc1, st, tr2, _, h2, h3, _⟩ := pamLoop_cons_ok h
    exact ih (pamStep_sized hs h2) h3

theorem sweepsFrom_sized {D : Table} {n : Nat} {props : Option (List Nat)} :
    ∀ (k : Nat) {s : St} {orc : List Nat} {r : Run}, Sized n s.arr →
      sweepsFrom D n props k s orc = .ok r → Sized n r.final.arr := by
  intro k
  induction k with
  | zero => intro s orc r hs h; simp [sweepsFrom] at h; subst h; exact hs
  | succ k ih =>
    intro s orc r hs h
    obtain ⟨s', orc', tr, r', h1, h2, e1, _, _, _⟩ := sweepsFrom_succ_ok h
    rw [e1]
    exact ih (pamLoop_sized (s := { s with ctrFrames := s.ctrInds }) _ hs (pamUpdate_ok h1).2.2.2.2.2) h2

end Ens.Cluster
