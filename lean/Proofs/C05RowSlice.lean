import Proofs.C05Finish
/-! `a[rs, j]`, `a[rs, [j…]]` for row slices in the region where `_slice_to_list` is right. -/
namespace Ens.Ragged
open Ens

theorem npTake_error {β} (l : List β) (ix : List Int) (e : Err) (h : npTake l ix = .error e) :
    e = .indexError :=
  mapE_error_same (npIndex_error l) h

theorem slice_list_core {α} (ra : RA α) (h : WF ra) (rs : PySlice) (l : List Int)
    (hrs : RowSliceOK ra.lengths.length rs) (hsel : rs.indices ra.lengths.length ≠ some [])
    (hl : l ≠ []) :
    absE (bindE (sliceToList rs ra.lengths.length) fun first => finish ra (getIisFromList first l)) =
      bindE (npSlice (rows ra) rs) fun sel =>
        bindE (mapE (fun row => npTake row l) sel) fun out => .ok (SRes.rows out) := by
  obtain ⟨ix, hix, hstl⟩ := sliceToList_eq_indices hrs
  have hixne : ix ≠ [] := by
    intro h0; apply hsel; rw [hix, h0]
  have hfirst : ix.map Int.ofNat ≠ [] := by simpa using hixne
  rw [hstl]
  simp only [bindE_ok, getIisFromList]
  rw [if_neg (by simp [hfirst, hl])]
  have hrep : List.replicate (ix.map Int.ofNat).length l.length =
      (ix.map Int.ofNat).map (fun _ => l.length) := by
    rw [List.map_const']
  rw [hrep]
  have hne : (ix.map Int.ofNat).flatMap (fun x => l.map fun j => (x, j)) ≠ [] := by
    cases ix with
    | nil => exact absurd rfl hixne
    | cons k ks =>
      cases l with
      | nil => exact absurd rfl hl
      | cons j js => simp
  rw [finish_eq ra h (ix.map Int.ofNat) (fun x => x) (fun _ => l) hne]
  -- specification side
  simp only [npSlice, rows_length, hix]
  rw [← bindE_assoc, mapE_comp_same (e0 := Err.indexError) (getNat_error (rows ra))
    (fun row e he => npTake_error row l e he)]
  rw [mapE_map]
  congr 1
  apply mapE_congr
  intro k _
  simp only [cell]
  rw [mapE_bind_const _ _ hl]
  show bindE (npIndex (rows ra) (k : Int)) _ = _
  rw [npIndex_ofNat]
  rfl

theorem get_slice_list_partial' {α} (ra : RA α) (h : WF ra) (fast : Bool) (rs : PySlice) (l : List Int)
    (b : Bool) (hrs : RowSliceOK ra.lengths.length rs) (hsel : rs.indices ra.lengths.length ≠ some [])
    (hl : l ≠ []) :
    absE (getItem ra fast (.two (.slice rs) (.list l b))) =
      specGet (rows ra) (.two (.slice rs) (.list l b)) := by
  simp only [getItem, specGet, colSel]
  exact slice_list_core ra h rs l hrs hsel hl

theorem get_slice_int_partial' {α} (ra : RA α) (h : WF ra) (fast : Bool) (rs : PySlice) (j : Int)
    (hrs : RowSliceOK ra.lengths.length rs) (hsel : rs.indices ra.lengths.length ≠ some []) :
    absE (getItem ra fast (.two (.slice rs) (.int j))) =
      specGet (rows ra) (.two (.slice rs) (.int j)) := by
  simp only [getItem, specGet, colSel]
  exact slice_list_core ra h rs [j] hrs hsel (by simp)

end Ens.Ragged
