import Proofs.C12Basic

/-! The mathematics of one diagonal / pair update of the Prinz iteration over an arbitrary
linear ordered field `K` with a square-root function. -/

set_option linter.unusedSectionVars false

namespace Ens.C12P
open Ens Ens.Mle

variable {K : Type} [Field K] [LinearOrder K] [IsStrictOrderedRing K] {n : Nat}

/-- what the proofs need from `sqrt` (satisfied by `Real.sqrt`) -/
structure SqrtSpec (sqrt : K → K) : Prop where
  mul_self : ∀ x, 0 ≤ x → sqrt x * sqrt x = x
  nonneg : ∀ x, 0 ≤ x → 0 ≤ sqrt x

/-- the count matrix is non-negative and `C_rs` holds its row sums (`C_rs = C.sum(axis=1)`) -/
structure Data (C : Mat K n) (Crs : Vec K n) : Prop where
  nonneg : ∀ i j, 0 ≤ mget C i j
  crs : ∀ i, vget Crs i = ∑ j, mget C i j

/-- the loop invariant -/
structure Inv (st : St K n) : Prop where
  symm : ∀ i j, mget st.X i j = mget st.X j i
  nonneg : ∀ i j, 0 ≤ mget st.X i j
  rs : ∀ i, vget st.rs i = ∑ j, mget st.X i j

theorem Inv.le_rs {st : St K n} (h : Inv st) (i j : Fin n) : mget st.X i j ≤ vget st.rs i := by
  rw [h.rs i]
  exact Finset.single_le_sum (f := fun j => mget st.X i j) (fun k _ => h.nonneg i k)
    (Finset.mem_univ j)

theorem Inv.rs_nonneg {st : St K n} (h : Inv st) (i : Fin n) : 0 ≤ vget st.rs i := by
  rw [h.rs i]; exact Finset.sum_nonneg (fun k _ => h.nonneg i k)

theorem Data.le_crs {C : Mat K n} {Crs : Vec K n} (h : Data C Crs) (i j : Fin n) :
    mget C i j ≤ vget Crs i := by
  rw [h.crs i]
  exact Finset.single_le_sum (f := fun j => mget C i j) (fun k _ => h.nonneg i k)
    (Finset.mem_univ j)

/-! ### diagonal step -/

theorem diagStep_inv {C : Mat K n} {Crs : Vec K n} (hD : Data C Crs) {st : St K n}
    (h : Inv st) (i : Fin n) : Inv (diagStep C Crs st i) := by
  unfold diagStep
  by_cases hden : 0 < vget Crs i - mget C i i
  · simp only [hden, if_true]
    have hv : 0 ≤ mget C i i * (vget st.rs i - mget st.X i i) / (vget Crs i - mget C i i) :=
      div_nonneg (mul_nonneg (hD.nonneg i i) (sub_nonneg.2 (h.le_rs i i))) (le_of_lt hden)
    refine ⟨?_, ?_, ?_⟩
    · intro a b
      simp only [mget_mset]
      by_cases hab : a = i ∧ b = i
      · obtain ⟨rfl, rfl⟩ := hab; rfl
      · have hba : ¬ (b = i ∧ a = i) := fun ⟨h1, h2⟩ => hab ⟨h2, h1⟩
        simp only [hab, hba, if_false]
        exact h.symm a b
    · intro a b
      simp only [mget_mset]
      split
      · exact hv
      · exact h.nonneg a b
    · intro a
      simp only [vget_vset, mget_mset]
      by_cases ha : a = i
      · subst ha
        simp only [if_true, true_and, and_self]
        rw [sum_update_one, h.rs a]
      · simp only [ha, if_false, false_and]
        exact h.rs a
  · simp only [hden, if_false]
    refine ⟨h.symm, h.nonneg, ?_⟩
    intro a
    simp only [vget_vset]
    by_cases ha : a = i
    · subst ha; simp only [if_true, sub_self, add_zero]; exact h.rs a
    · simp only [ha, if_false]; exact h.rs a

/-- a diagonal step that leaves `X[i,i]` unchanged ⇒ the diagonal Prinz equation
`X_ii · C_rs_i = C_ii · X_rs_i` (`x_ii = c_ii x_i / c_i`) -/
theorem diag_fixed_eq {C : Mat K n} {Crs : Vec K n} {st : St K n} (i : Fin n)
    (hden : 0 < vget Crs i - mget C i i)
    (hfix : mget (diagStep C Crs st i).X i i = mget st.X i i) :
    mget st.X i i * vget Crs i = mget C i i * vget st.rs i := by
  unfold diagStep at hfix
  simp only [hden, if_true, mget_mset, and_self] at hfix
  have hne : vget Crs i - mget C i i ≠ 0 := ne_of_gt hden
  rw [div_eq_iff hne] at hfix
  linear_combination -hfix

/-! ### pair step -/

theorem coefA_nonneg {C : Mat K n} {Crs : Vec K n} (hD : Data C Crs) (i j : Fin n) :
    0 ≤ coefA C Crs i j := by
  unfold coefA
  exact add_nonneg (sub_nonneg.2 (hD.le_crs i j)) (sub_nonneg.2 (hD.le_crs j i))

/-- `assert c <= 0` cannot fire -/
theorem coefC_nonpos {C : Mat K n} {Crs : Vec K n} (hD : Data C Crs) {st : St K n}
    (h : Inv st) (i j : Fin n) : coefC C st i j ≤ 0 := by
  unfold coefC
  have h1 : 0 ≤ mget C i j + mget C j i := add_nonneg (hD.nonneg i j) (hD.nonneg j i)
  have h2 : 0 ≤ vget st.rs i - mget st.X i j := sub_nonneg.2 (h.le_rs i j)
  have h3 : 0 ≤ vget st.rs j - mget st.X i j := by
    rw [h.symm i j]; exact sub_nonneg.2 (h.le_rs j i)
  have : 0 ≤ (mget C i j + mget C j i) * (vget st.rs i - mget st.X i j)
      * (vget st.rs j - mget st.X i j) := mul_nonneg (mul_nonneg h1 h2) h3
  linarith

/-- discriminant is non-negative when `a ≥ 0`, `c ≤ 0` -/
theorem disc_nonneg {a b c : K} (ha : 0 ≤ a) (hc : c ≤ 0) : 0 ≤ b * b - 4 * a * c := by
  have : 0 ≤ a * (-c) := mul_nonneg ha (neg_nonneg.2 hc)
  nlinarith [mul_self_nonneg b]

/-- the root chosen by the code is non-negative -/
theorem root_nonneg {sqrt : K → K} (hs : SqrtSpec sqrt) {a b c : K} (ha : 0 < a) (hc : c ≤ 0) :
    0 ≤ (-b + sqrt (b * b - 4 * a * c)) / (2 * a) := by
  have hd := disc_nonneg (b := b) (le_of_lt ha) hc
  have hs0 := hs.nonneg _ hd
  have hsq := hs.mul_self _ hd
  have hge : b ≤ sqrt (b * b - 4 * a * c) := by
    by_contra hlt
    have hlt := not_le.1 hlt
    have hb : 0 ≤ b := le_trans hs0 (le_of_lt hlt)
    have : sqrt (b * b - 4 * a * c) * sqrt (b * b - 4 * a * c) < b * b :=
      mul_self_lt_mul_self hs0 hlt
    have hac : 0 ≤ a * (-c) := mul_nonneg (le_of_lt ha) (neg_nonneg.2 hc)
    nlinarith
  apply div_nonneg
  · linarith
  · linarith

/-- the root chosen by the code solves the quadratic -/
theorem root_is_root {sqrt : K → K} (hs : SqrtSpec sqrt) {a b c : K} (ha : a ≠ 0)
    (hd : 0 ≤ b * b - 4 * a * c) :
    let v := (-b + sqrt (b * b - 4 * a * c)) / (2 * a)
    a * v * v + b * v + c = 0 := by
  intro v
  have hsq := hs.mul_self _ hd
  have h2a : (2 * a) ≠ 0 := mul_ne_zero two_ne_zero ha
  have hv : 2 * a * v = -b + sqrt (b * b - 4 * a * c) := by
    show 2 * a * ((-b + sqrt (b * b - 4 * a * c)) / (2 * a)) = _
    field_simp
  have h4 : 4 * a * (a * v * v + b * v + c) = 0 := by
    linear_combination (2 * a * v + sqrt (b * b - 4 * a * c) + b) * hv + hsq
  have h4a : (4 * a) ≠ 0 := mul_ne_zero four_ne_zero ha
  exact (mul_eq_zero.1 h4).resolve_left h4a

theorem newV_nonneg {sqrt : K → K} (hs : SqrtSpec sqrt) {C : Mat K n} {Crs : Vec K n}
    (hD : Data C Crs) {st : St K n} (h : Inv st) (i j : Fin n) :
    0 ≤ newV sqrt C Crs st i j := by
  unfold newV
  by_cases ha : coefA C Crs i j = 0
  · simp only [ha, beq_self_eq_true, if_true]
    exact h.nonneg j i
  · have ha' : (coefA C Crs i j == 0) = false := by simpa using ha
    simp only [ha', Bool.false_eq_true, if_false]
    exact root_nonneg hs (lt_of_le_of_ne (coefA_nonneg hD i j) (Ne.symm ha)) (coefC_nonpos hD h i j)

/-- `update_is_root`: when `a ≠ 0` the new value solves `a v² + b v + c = 0` -/
theorem newV_root {sqrt : K → K} (hs : SqrtSpec sqrt) {C : Mat K n} {Crs : Vec K n}
    (hD : Data C Crs) {st : St K n} (h : Inv st) (i j : Fin n) (ha : coefA C Crs i j ≠ 0) :
    coefA C Crs i j * newV sqrt C Crs st i j * newV sqrt C Crs st i j
      + coefB C Crs st i j * newV sqrt C Crs st i j + coefC C st i j = 0 := by
  have ha' : (coefA C Crs i j == 0) = false := by simpa using ha
  have hd := disc_nonneg (b := coefB C Crs st i j) (coefA_nonneg hD i j) (coefC_nonpos hD h i j)
  have := root_is_root hs ha hd
  simp only [newV, ha', Bool.false_eq_true, if_false]
  exact this

/-- the rounding guard never fires when `c ≤ 0` (i.e. never in exact arithmetic) -/
theorem guardC_of_nonpos {C : Mat K n} {st : St K n} (i j : Fin n) {c : K} (hc : c ≤ 0) :
    guardC C st i j c = c := by
  unfold guardC
  have : ¬ (0 < c) := not_lt.2 hc
  split
  · simp [this]
  · rfl

theorem newVWith_coefC {sqrt : K → K} {C : Mat K n} {Crs : Vec K n} {st : St K n} (i j : Fin n) :
    newVWith sqrt C Crs st i j (coefC C st i j) = newV sqrt C Crs st i j := rfl

/-- the state after a pair step, entrywise -/
theorem pairStep_ok {sqrt : K → K} {C : Mat K n} {Crs : Vec K n} (hD : Data C Crs)
    {st : St K n} (h : Inv st) (i j : Fin n) :
    pairStep sqrt C Crs st i j = .ok
      { X := mset (mset st.X i j (newV sqrt C Crs st i j)) j i (newV sqrt C Crs st i j)
        rs := vset (vset st.rs i (vget st.rs i + (newV sqrt C Crs st i j - mget st.X i j))) j
          (vget (vset st.rs i (vget st.rs i + (newV sqrt C Crs st i j - mget st.X i j))) j
            + (newV sqrt C Crs st i j - mget st.X j i)) } := by
  unfold pairStep
  simp only [guardC_of_nonpos i j (coefC_nonpos hD h i j), coefC_nonpos hD h i j, if_true,
    newVWith_coefC]

theorem pairStep_inv {sqrt : K → K} (hs : SqrtSpec sqrt) {C : Mat K n} {Crs : Vec K n}
    (hD : Data C Crs) {st st' : St K n} (h : Inv st) {i j : Fin n} (hij : i ≠ j)
    (hst : pairStep sqrt C Crs st i j = .ok st') : Inv st' := by
  rw [pairStep_ok hD h] at hst
  injection hst with hst
  subst hst
  have hv := newV_nonneg hs hD h i j
  generalize newV sqrt C Crs st i j = v at hv
  have hji : j ≠ i := Ne.symm hij
  refine ⟨?_, ?_, ?_⟩
  · intro a b
    simp only [mget_mset]
    by_cases h1 : a = j ∧ b = i
    · obtain ⟨rfl, rfl⟩ := h1
      simp [hij, hji]
    · by_cases h2 : a = i ∧ b = j
      · obtain ⟨rfl, rfl⟩ := h2
        simp [hij, hji]
      · have h1' : ¬ (b = i ∧ a = j) := fun ⟨x, y⟩ => h1 ⟨y, x⟩
        have h2' : ¬ (b = j ∧ a = i) := fun ⟨x, y⟩ => h2 ⟨y, x⟩
        simp only [h1, h2, h1', h2', if_false]
        exact h.symm a b
  · intro a b
    simp only [mget_mset]
    split
    · exact hv
    · split
      · exact hv
      · exact h.nonneg a b
  · intro a
    simp only [vget_vset, mget_mset]
    by_cases ha : a = j
    · subst ha
      simp only [if_true, true_and, hji, if_false, false_and]
      rw [sum_update_one, h.rs a]
    · by_cases ha2 : a = i
      · subst ha2
        simp only [ha, if_false, false_and, if_true, true_and]
        rw [sum_update_one, h.rs a]
      · simp only [ha, ha2, if_false, false_and]
        exact h.rs a

/-- A pair step that leaves `X[i,j]` unchanged, with `a ≠ 0` ⇒ the Prinz self-consistency
equation for the pair:
`(C_ij + C_ji) · X_rs_i · X_rs_j = X_ij · (C_rs_i · X_rs_j + C_rs_j · X_rs_i)`,
i.e. `x_ij = (c_ij + c_ji) / (c_i/x_i + c_j/x_j)`. -/
theorem pair_fixed_eq {sqrt : K → K} (hs : SqrtSpec sqrt) {C : Mat K n} {Crs : Vec K n}
    (hD : Data C Crs) {st : St K n} (h : Inv st) (i j : Fin n)
    (ha : coefA C Crs i j ≠ 0)
    (hfix : newV sqrt C Crs st i j = mget st.X i j) :
    (mget C i j + mget C j i) * vget st.rs i * vget st.rs j
      = mget st.X i j * (vget Crs i * vget st.rs j + vget Crs j * vget st.rs i) := by
  have hroot := newV_root hs hD h i j ha
  rw [hfix] at hroot
  unfold coefA coefB coefC at hroot
  linear_combination -hroot

end Ens.C12P
