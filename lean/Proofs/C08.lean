import Proofs.C07
/-!
C08 core lemmas in `Finset.sum` form: flux definition, positive-part algebra of the net flux,
conservation at intermediate states for reversible chains, global balance, reactive populations.
-/
open Finset

namespace Ens.Tpt

/-! ### pointwise facts -/

theorem flux_offdiag (π q : Vec) (T : Mat) {i j : Nat} (h : i ≠ j) :
    reactiveFlux π q T i j = π i * (1 - q i) * T i j * q j := by
  simp only [reactiveFlux, reverseCommittors, h, if_false]; ring

theorem flux_diag (π q : Vec) (T : Mat) (i : Nat) : reactiveFlux π q T i i = 0 := by
  simp [reactiveFlux]

/-- the flux as "full product minus the diagonal term" (for summation) -/
theorem flux_split (π q : Vec) (T : Mat) (i j : Nat) :
    reactiveFlux π q T i j
      = π i * (1 - q i) * T i j * q j - (if i = j then π i * (1 - q i) * T i j * q j else 0) := by
  by_cases h : i = j
  · subst h; simp [reactiveFlux]
  · simp only [h, if_false, sub_zero]; exact flux_offdiag π q T h

theorem net_eq_max (f : Mat) (i j : Nat) : netFlux f i j = max (f i j - f j i) 0 := by
  simp only [netFlux]
  split
  · rename_i h; exact (max_eq_right (le_of_lt h)).symm
  · rename_i h; exact (max_eq_left (not_lt.1 h)).symm

theorem net_nonneg (f : Mat) (i j : Nat) : 0 ≤ netFlux f i j := by
  rw [net_eq_max]; exact le_max_right _ _

theorem net_one_dir (f : Mat) (i j : Nat) : netFlux f i j = 0 ∨ netFlux f j i = 0 := by
  simp only [netFlux]
  by_cases h : f i j - f j i < 0
  · left; simp [h]
  · right
    by_cases h' : f j i - f i j < 0
    · simp [h']
    · have : f j i - f i j = 0 := by linarith [not_lt.1 h, not_lt.1 h']
      simp [this]

/-- positive parts of `d` and `−d` differ by `d` -/
theorem net_sub (f : Mat) (i j : Nat) : netFlux f i j - netFlux f j i = f i j - f j i := by
  simp only [netFlux]
  by_cases h : f i j - f j i < 0
  · have h' : ¬ f j i - f i j < 0 := by linarith
    simp only [h, h', if_true, if_false]; ring
  · by_cases h' : f j i - f i j < 0
    · simp only [h, h', if_true, if_false]; ring
    · have : f i j = f j i := by linarith [not_lt.1 h, not_lt.1 h']
      simp [this]

theorem flux_nonneg {π q : Vec} {T : Mat} {i j : Nat} (hπ : 0 ≤ π i) (hT : 0 ≤ T i j)
    (hqi : q i ≤ 1) (hqj : 0 ≤ q j) : 0 ≤ reactiveFlux π q T i j := by
  simp only [reactiveFlux, reverseCommittors]
  split
  · exact le_refl _
  · exact mul_nonneg (mul_nonneg hT (mul_nonneg hπ (sub_nonneg.2 hqi))) hqj

theorem net_zero_of_le {f : Mat} {i j : Nat} (h : f i j ≤ f j i) : netFlux f i j = 0 := by
  simp only [netFlux]
  by_cases h' : f i j - f j i < 0
  · simp [h']
  · have : f i j - f j i = 0 := by linarith [not_lt.1 h']
    simp [this]

/-! ### conservation -/

section conservation
variable {n : Nat} {T : Mat} {π q : Vec}

/-- total reactive flux out of a state where `q` is harmonic: `π_i (1−q_i) q_i (1 − T_ii)` -/
theorem flux_out_sum {i : Nat} (hi : i < n) (hq : q i = ∑ j ∈ range n, T i j * q j) :
    ∑ j ∈ range n, reactiveFlux π q T i j = π i * (1 - q i) * q i * (1 - T i i) := by
  simp only [flux_split π q T i]
  rw [sum_sub_distrib, sum_ite_eq]
  simp only [mem_range, hi, if_true]
  have : ∑ j ∈ range n, π i * (1 - q i) * T i j * q j = π i * (1 - q i) * q i := by
    rw [hq, mul_sum]
    exact sum_congr rfl fun j _ => by ring
  rw [this]; ring

/-- total reactive flux into a state of a reversible chain: `π_i q_i (1−q_i) (1 − T_ii)` -/
theorem flux_in_sum (hdb : ∀ i, i < n → ∀ j, j < n → π i * T i j = π j * T j i)
    (hrow : ∀ i, i < n → ∑ j ∈ range n, T i j = 1)
    {i : Nat} (hi : i < n) (hq : q i = ∑ j ∈ range n, T i j * q j) :
    ∑ j ∈ range n, reactiveFlux π q T j i = π i * (1 - q i) * q i * (1 - T i i) := by
  have e : ∀ j ∈ range n, reactiveFlux π q T j i
      = (π i * q i * T i j - π i * q i * (T i j * q j))
        - (if i = j then π i * (1 - q i) * T i i * q i else 0) := by
    intro j hj
    have hdb' := hdb i hi j (mem_range.1 hj)
    rw [flux_split π q T j i]
    by_cases h : i = j
    · subst h; simp only [if_true]; ring
    · have h' : j ≠ i := fun e => h e.symm
      simp only [h, h', if_false, sub_zero]
      linear_combination (-(1 - q j) * q i) * hdb'
  rw [sum_congr rfl e, sum_sub_distrib, sum_sub_distrib, ← mul_sum, ← mul_sum, hrow i hi, ← hq,
    sum_ite_eq]
  simp only [mem_range, hi, if_true]; ring

/-- net flux is conserved at every state where `q` is harmonic -/
theorem net_conserved_fin (hdb : ∀ i, i < n → ∀ j, j < n → π i * T i j = π j * T j i)
    (hrow : ∀ i, i < n → ∑ j ∈ range n, T i j = 1)
    {i : Nat} (hi : i < n) (hq : q i = ∑ j ∈ range n, T i j * q j) :
    ∑ j ∈ range n, netFlux (reactiveFlux π q T) j i
      = ∑ j ∈ range n, netFlux (reactiveFlux π q T) i j := by
  have h : ∑ j ∈ range n, (netFlux (reactiveFlux π q T) i j - netFlux (reactiveFlux π q T) j i)
      = 0 := by
    simp only [net_sub]
    rw [sum_sub_distrib, flux_out_sum hi hq, flux_in_sum hdb hrow hi hq]
    ring
  rw [sum_sub_distrib] at h
  linarith

/-- Σ_i Σ_j (net i j − net j i) = 0 for any matrix -/
theorem net_antisym_sum (g : Mat) :
    ∑ i ∈ range n, ∑ j ∈ range n, (g i j - g j i) = 0 := by
  simp only [sum_sub_distrib]
  rw [sum_comm (f := fun i j => g j i)]
  ring

end conservation

end Ens.Tpt
