/- C17 helper: `topPath` — initial invariant, back-pointer walk, validity / bottleneck / optimality. -/
import Proofs.C17Top

namespace Ens.Paths
open Ens

section
variable {n : Nat} {F : Nat → Nat → Nat} {S : List Nat}

theorem initSt_invS (hS : ∀ s ∈ S, s < n) : InvS n F S (initSt S) := by
  refine { vis_lt := ?_, prev_spec := ?_, src_lab := ?_, none_lab := ?_, rank := ?_,
           q_lt := ?_, q_mem := ?_, mono := ?_, fix := ?_, vis_lab := ?vl }
  case vl => intro v hv; simp [initSt] at hv
  · intro v hv; simp [initSt] at hv
  · intro v u hp; simp [initSt] at hp
  · intro v hv; simp [initSt, hv]
  · intro v _ hv; simp [initSt, hv]
  · refine ⟨fun _ => nvis n (initSt S).visited, ?_, ?_, ?_⟩
    · intro v hv; simp [initSt] at hv
    · intro v _; rfl
    · intro v u hp; simp [initSt] at hp
  · intro z hz
    refine ⟨hS z hz, ?_⟩
    have hz' : z ∈ S := hz
    simp [initSt, hz']
  · intro z _ hl
    show z ∈ S
    by_cases hz : z ∈ S
    · exact hz
    · simp [initSt, hz] at hl
  · intro y z hy; simp [initSt] at hy
  · intro x y hx; simp [initSt] at hx

theorem measure_initSt : measure n (initSt S) < loopFuel n S := by
  have := sumTo_le_mul n (n + 1) (fun i => if (initSt S).visited i = true then 0 else n + 1)
    (fun i _ => by split <;> omega)
  simp only [measure, loopFuel]
  have hq : (initSt S).queue.length = S.length := rfl
  omega

/-! ### the back-pointer walk -/

/-- `[t, prev t, prev (prev t), …, x]` with `prev x = none` -/
def RevChain (prev : Nat → Option Nat) : List Nat → Prop
  | [] => False
  | [a] => prev a = none
  | a :: b :: t => prev a = some b ∧ RevChain prev (b :: t)

theorem walkRev_spec (prev : Nat → Option Nat) : ∀ (fuel v : Nat) (l : List Nat),
    walkRev prev fuel v = some l → l.head? = some v ∧ RevChain prev l
  | 0, v, l, h => by simp [walkRev] at h
  | fuel + 1, v, l, h => by
    simp only [walkRev] at h
    split at h
    · next hp =>
      cases h
      exact ⟨rfl, hp⟩
    · next u hp =>
      cases hw : walkRev prev fuel u with
      | none => rw [hw] at h; simp at h
      | some l' =>
        rw [hw] at h
        simp only [Option.map_some, Option.some.injEq] at h
        subst h
        obtain ⟨hh, hc⟩ := walkRev_spec prev fuel u l' hw
        refine ⟨rfl, ?_⟩
        cases l' with
        | nil => simp at hh
        | cons b t =>
          simp only [List.head?_cons, Option.some.injEq] at hh
          subst hh
          exact ⟨hp, hc⟩

theorem walkRev_isSome (prev : Nat → Option Nat) (rank : Nat → Nat)
    (hr : ∀ v u, prev v = some u → rank u < rank v) : ∀ (fuel v : Nat), rank v < fuel →
    ∃ l, walkRev prev fuel v = some l
  | 0, v, h => by omega
  | fuel + 1, v, h => by
    simp only [walkRev]
    split
    · exact ⟨_, rfl⟩
    · next u hp =>
      have := hr v u hp
      obtain ⟨l, hl⟩ := walkRev_isSome prev rank hr fuel u (by omega)
      exact ⟨v :: l, by rw [hl]; rfl⟩

theorem adj_snoc (F : Nat → Nat → Nat) : ∀ (l : List Nat) (b a : Nat),
    Adj F (l ++ [b, a]) ↔ Adj F (l ++ [b]) ∧ 0 < F b a
  | [], b, a => by simp [Adj]
  | [x], b, a => by simp [Adj]
  | x :: y :: l, b, a => by
    have := adj_snoc F (y :: l) b a
    simp only [List.cons_append, Adj] at this ⊢
    rw [this, and_assoc]

theorem bneck_snoc (F : Nat → Nat → Nat) : ∀ (l : List Nat) (b a : Nat),
    bneck F (l ++ [b, a]) = min (bneck F (l ++ [b])) (Ext.fin (F b a))
  | [], b, a => by simp [bneck]
  | [x], b, a => by simp [bneck]
  | x :: y :: l, b, a => by
    have := bneck_snoc F (y :: l) b a
    simp only [List.cons_append, bneck] at this ⊢
    rw [this, min_assoc]

theorem reverse_cons_cons (a b : Nat) (t : List Nat) :
    (a :: b :: t).reverse = t.reverse ++ [b, a] := by simp

/-- everything the chain of back pointers yields -/
theorem revChain_facts {st : St} (h : InvW n F S st) (rank : Nat → Nat)
    (hr : ∀ v u, st.prev v = some u → rank u < rank v) :
    ∀ (rp : List Nat) (a : Nat), rp.head? = some a → a < n → RevChain st.prev rp →
      (∀ x ∈ rp, x < n) ∧ (∀ x ∈ rp.tail, rank x < rank a) ∧ rp.Nodup ∧ Adj F rp.reverse ∧
      rp.reverse.getLast? = some a ∧
      ∃ x, rp.reverse.head? = some x ∧ st.prev x = none ∧
        st.lab a = min (st.lab x) (bneck F rp.reverse)
  | [], a, hh, _, _ => by simp at hh
  | [x], a, hh, ha, hc => by
    simp only [List.head?_cons, Option.some.injEq] at hh
    subst hh
    refine ⟨by simpa using ha, by simp, by simp, by simp [Adj], by simp, x, by simp, hc, ?_⟩
    simp [bneck]
  | x :: b :: t, a, hh, ha, hc => by
    simp only [List.head?_cons, Option.some.injEq] at hh
    subst hh
    obtain ⟨hp, hc'⟩ := hc
    obtain ⟨hvb, hpos, hlab, -, -⟩ := h.prev_spec x b hp
    have hbn := h.vis_lt b hvb
    obtain ⟨i1, i2, i3, i4, i5, y, i6, i7, i8⟩ :=
      revChain_facts h rank hr (b :: t) b rfl hbn hc'
    have hrk : ∀ z ∈ b :: t, rank z < rank x := by
      intro z hz
      rcases List.mem_cons.1 hz with rfl | hz
      · exact hr x z hp
      · have := i2 z hz
        have := hr x b hp
        omega
    refine ⟨?_, hrk, ?_, ?_, ?_, y, ?_, i7, ?_⟩
    · intro z hz
      rcases List.mem_cons.1 hz with rfl | hz
      · exact ha
      · exact i1 z hz
    · refine List.nodup_cons.2 ⟨?_, i3⟩
      intro hx
      have := hrk x hx
      omega
    · rw [reverse_cons_cons, adj_snoc]
      refine ⟨?_, hpos⟩
      have : t.reverse ++ [b] = (b :: t).reverse := by simp
      rw [this]; exact i4
    · simp
    · rw [reverse_cons_cons]
      have : t.reverse ++ [b] = (b :: t).reverse := by simp
      have h2 : t.reverse ++ [b, x] = (t.reverse ++ [b]) ++ [x] := by simp
      rw [h2, this, List.head?_append, i6]
      rfl
    · rw [reverse_cons_cons, bneck_snoc]
      have : t.reverse ++ [b] = (b :: t).reverse := by simp
      rw [this, hlab, relax_eq, i8, min_assoc]

/-- bottleneck in the "smallest flux on its edges" form -/
theorem bneck_fin_iff (F : Nat → Nat → Nat) : ∀ (p : List Nat) (f : Nat),
    bneck F p = Ext.fin f →
      (∀ e ∈ edges p, f ≤ F e.1 e.2) ∧ ∃ e ∈ edges p, F e.1 e.2 = f
  | [], f, h => by simp [bneck] at h
  | [x], f, h => by simp [bneck] at h
  | a :: b :: t, f, h => by
    have hE : edges (a :: b :: t) = (a, b) :: edges (b :: t) := by simp [edges]
    rw [hE]
    simp only [bneck] at h
    cases hb : bneck F (b :: t) with
    | ninf =>
      rw [hb] at h
      have : min (Ext.fin (F a b)) Ext.ninf = Ext.ninf := min_eq_right (Ext.ninf_le _)
      rw [this] at h; cases h
    | pinf =>
      rw [hb, Ext.min_pinf] at h
      cases h
      have ht : edges (b :: t) = [] := by
        cases t with
        | nil => simp [edges]
        | cons c t' =>
          exfalso
          simp only [bneck] at hb
          have := min_le_left (Ext.fin (F b c)) (bneck F (c :: t'))
          rw [hb, Ext.pinf_le_iff] at this
          cases this
      rw [ht]
      simp
    | fin g =>
      rw [hb, Ext.min_fin_fin] at h
      cases h
      obtain ⟨ih1, e, he, ih2⟩ := bneck_fin_iff F (b :: t) g hb
      refine ⟨?_, ?_⟩
      · intro e' he'
        rcases List.mem_cons.1 he' with rfl | he'
        · exact Nat.min_le_left _ _
        · exact le_trans (Nat.min_le_right _ _) (ih1 e' he')
      · rcases Nat.le_total (F a b) g with hle | hle
        · exact ⟨(a, b), List.mem_cons_self, by simp [Nat.min_eq_left hle]⟩
        · exact ⟨e, List.mem_cons_of_mem _ he, by rw [ih2, Nat.min_eq_right hle]⟩

theorem bneck_ne_ninf (F : Nat → Nat → Nat) : ∀ (p : List Nat), bneck F p ≠ Ext.ninf
  | [] => by simp [bneck]
  | [_] => by simp [bneck]
  | a :: b :: t => by
    simp only [bneck]
    intro h
    rcases min_choice (Ext.fin (F a b)) (bneck F (b :: t)) with h' | h'
    · rw [h'] at h; cases h
    · rw [h'] at h; exact bneck_ne_ninf F (b :: t) h

/-- a smaller matrix has smaller bottlenecks -/
theorem bneck_mono (F G : Nat → Nat → Nat) (hle : ∀ i j, G i j ≤ F i j) :
    ∀ (p : List Nat), bneck G p ≤ bneck F p
  | [] => by simp [bneck]
  | [x] => by simp [bneck]
  | a :: b :: t => by
    simp only [bneck]
    exact min_le_min ((Ext.fin_le_fin _ _).2 (hle a b)) (bneck_mono F G hle (b :: t))

theorem adj_mono (F G : Nat → Nat → Nat) (hle : ∀ i j, G i j ≤ F i j) :
    ∀ (p : List Nat), Adj G p → Adj F p
  | [], _ => trivial
  | [_], _ => trivial
  | a :: b :: t, h => ⟨Nat.lt_of_lt_of_le h.1 (hle a b), adj_mono F G hle (b :: t) h.2⟩

end

/-! ### `topPath` -/

/-- everything known about a successful `topPath` call -/
structure TopSpec (n : Nat) (F : Nat → Nat → Nat) (S T : List Nat) (p : List Nat) (fl : Ext) :
    Prop where
  src_lt : ∀ s ∈ S, s < n
  snk_lt : ∀ t ∈ T, t < n
  all_lt : ∀ x ∈ p, x < n
  nodup : p.Nodup
  adj : Adj F p
  last_mem : ∃ t, p.getLast? = some t ∧ t ∈ T
  /-- the walk starts in a source with the reported flux as its bottleneck, unless the sink was
  never reached (`fl = -inf`, `p = [first sink]`) -/
  head_cases : (∃ s, p.head? = some s ∧ s ∈ S ∧ bneck F p = fl) ∨ (fl = Ext.ninf ∧ p.length = 1)
  widest : ∀ (q : List Nat) (s t : Nat), q.head? = some s → s ∈ S → q.getLast? = some t → t ∈ T →
    Adj F q → (∀ x ∈ q, x < n) → bneck F q ≤ fl

theorem guard_false {n : Nat} {S T : List Nat}
    (h : ¬ ((S.any (fun s => decide (n ≤ s)) || T.any (fun s => decide (n ≤ s))) = true)) :
    (∀ s ∈ S, s < n) ∧ (∀ t ∈ T, t < n) := by
  simp only [Bool.or_eq_true, List.any_eq_true, decide_eq_true_eq, not_or, not_exists, not_and,
    Nat.not_le] at h
  exact h

theorem topPath_spec (n : Nat) (F : Nat → Nat → Nat) (S T : List Nat) (p : List Nat) (fl : Ext)
    (h : topPath n F S T = .ok (p, fl)) : TopSpec n F S T p fl := by
  unfold topPath at h
  split at h
  · cases h
  · next hg =>
    obtain ⟨hS, hT⟩ := guard_false hg
    split at h
    · cases h
    · next st hloop =>
      obtain ⟨hW, hopt⟩ := loop_spec (n := n) (F := F) (S := S) T _ _ st (initSt_invS hS) hloop
      split at h
      · cases h
      · next k t hb =>
        split at h
        · cases h
        · next rp hw =>
          simp only [Except.ok.injEq, Prod.mk.injEq] at h
          obtain ⟨rfl, rfl⟩ := h
          have htT : t ∈ T := best_mem st.lab T k t hb
          have htmax := (best_spec st.lab T k t hb).2
          obtain ⟨rank, r1, r2, r3⟩ := hW.rank
          obtain ⟨hh, hc⟩ := walkRev_spec st.prev _ _ _ hw
          obtain ⟨f1, -, f3, f4, f5, x, f6, f7, f8⟩ :=
            revChain_facts hW rank r3 rp t hh (hT t htT) hc
          refine { src_lt := hS, snk_lt := hT, all_lt := ?_, nodup := ?_, adj := f4,
                   last_mem := ⟨t, f5, htT⟩, head_cases := ?_, widest := ?_ }
          · intro y hy; exact f1 y (List.mem_reverse.1 hy)
          · unfold List.Nodup
            rw [List.pairwise_reverse]
            exact List.Pairwise.imp (fun hne => Ne.symm hne) f3
          · by_cases hx : x ∈ S
            · left
              refine ⟨x, f6, hx, ?_⟩
              rw [f8, hW.src_lab x hx, Ext.pinf_min]
            · right
              have hxl := hW.none_lab x f7 hx
              rw [hxl] at f8
              have : st.lab t = Ext.ninf := by
                rw [f8]; exact min_eq_left (Ext.ninf_le _)
              refine ⟨this, ?_⟩
              -- the chain is the single state `t`
              cases rp with
              | nil => simp at hh
              | cons a rest =>
                cases rest with
                | nil => simp
                | cons b rest' =>
                  exfalso
                  simp only [List.head?_cons, Option.some.injEq] at hh
                  subst hh
                  obtain ⟨hp, -⟩ := hc
                  obtain ⟨hvb, -, hlab, -, -⟩ := hW.prev_spec a b hp
                  rw [this] at hlab
                  exact relax_ne_ninf _ _ (hW.vis_lab b hvb) hlab.symm
          · intro q s t' hqh hs hql ht' hadj hlt
            exact le_trans (hopt t' ht' q s hqh hs hql hadj hlt) (htmax t' ht')

theorem guard_true {n : Nat} {S T : List Nat} (hS : ∀ s ∈ S, s < n) (hT : ∀ t ∈ T, t < n) :
    ¬ ((S.any (fun s => decide (n ≤ s)) || T.any (fun s => decide (n ≤ s))) = true) := by
  simp only [Bool.or_eq_true, List.any_eq_true, decide_eq_true_eq, not_or, not_exists, not_and,
    Nat.not_le]
  exact ⟨hS, hT⟩

/-- which branch `topPath` takes: index error, value error, or a result (never out of fuel) -/
theorem topPath_cases (n : Nat) (F : Nat → Nat → Nat) (S T : List Nat) :
    (topPath n F S T = .error .indexError ∧ ¬ ((∀ s ∈ S, s < n) ∧ (∀ t ∈ T, t < n))) ∨
    (topPath n F S T = .error .valueError ∧ (∀ s ∈ S, s < n) ∧ T = []) ∨
    (∃ p fl, topPath n F S T = .ok (p, fl) ∧ (∀ s ∈ S, s < n) ∧ (∀ t ∈ T, t < n) ∧ T ≠ []) := by
  unfold topPath
  split
  · next hg =>
    left
    refine ⟨rfl, ?_⟩
    rintro ⟨hS, hT⟩
    exact guard_true hS hT hg
  · next hg =>
    right
    obtain ⟨hS, hT⟩ := guard_false hg
    obtain ⟨st, hst⟩ := loop_isSome (n := n) (F := F) (S := S) T _ _ (initSt_invS hS)
      measure_initSt
    rw [hst]
    obtain ⟨hW, -⟩ := loop_spec (n := n) (F := F) (S := S) T _ _ st (initSt_invS hS) hst
    simp only
    cases hb : best st.lab T with
    | none =>
      left
      exact ⟨rfl, hS, (best_eq_none _ _).1 hb⟩
    | some kt =>
      obtain ⟨k, t⟩ := kt
      right
      obtain ⟨rank, r1, r2, r3⟩ := hW.rank
      have hrt : rank t < n + 1 := by
        have := nvis_le n st.visited
        cases hv : st.visited t with
        | true => have := r1 t hv; omega
        | false => have := r2 t hv; omega
      obtain ⟨l, hl⟩ := walkRev_isSome st.prev rank r3 (n + 1) t hrt
      simp only [hl]
      refine ⟨_, _, rfl, hS, hT, ?_⟩
      intro hnil
      rw [hnil] at hb
      simp [best] at hb

end Ens.Paths
