import Model.Rotamer
import Mathlib.Tactic.Linarith
import Mathlib.Algebra.Order.Field.Rat
/-!
C20, part 2: list facts.  The first-frame loop and `np.digitize` both find the basin containing the
angle; Python indexing with a valid basin index reads the boundary.
-/
namespace Ens.Rotamer

theorem pyGet_nat {hb : List Rat} {i : Nat} {v : Rat} (h : hb[i]? = some v) :
    pyGet hb (i : Int) = .ok v := by
  unfold pyGet
  have h1 : ¬ ((i : Int) < 0) := by omega
  simp [h1, h]

theorem pyGet_nat_succ {hb : List Rat} {i : Nat} {v : Rat} (h : hb[i + 1]? = some v) :
    pyGet hb ((i : Int) + 1) = .ok v := by
  have := pyGet_nat (i := i + 1) h
  simpa using this

/-- the first-frame loop returns a basin that contains the angle (needs no sortedness) -/
theorem firstFrame_isBasin {hb : List Rat} {a : Rat} (hh : hb.head? = some 0)
    (hl : hb.getLast? = some 360) (ha0 : 0 ≤ a) (ha : a < 360) :
    ∃ i : Nat, firstFrame a hb = (i : Int) ∧ IsBasin hb i a := by
  match hb, hh with
  | h0 :: tl, hh =>
    simp at hh
    subst hh
    have htl : tl ≠ [] := by
      rintro rfl
      simp at hl
    have hl' : tl.getLast? = some 360 := by
      cases tl with
      | nil => exact absurd rfl htl
      | cons x xs => simpa using hl
    have hmem : (360 : Rat) ∈ tl := List.mem_of_getLast? hl'
    unfold firstFrame
    simp only [List.tail_cons]
    cases hf : tl.findIdx? (fun u => decide (a < u)) with
    | none =>
      rw [List.findIdx?_eq_none_iff] at hf
      have := hf 360 hmem
      simp at this
      linarith
    | some i =>
      rw [List.findIdx?_eq_some_iff_getElem] at hf
      obtain ⟨hi, hp, hbefore⟩ := hf
      refine ⟨i, rfl, ?_⟩
      simp at hp
      cases i with
      | zero =>
        exact ⟨0, tl[0], by simp, by simp [List.getElem?_eq_getElem hi], ha0, hp⟩
      | succ j =>
        have hj : j < tl.length := by omega
        have hb' := hbefore j (by omega)
        simp at hb'
        exact ⟨tl[j], tl[j + 1], by simp [List.getElem?_eq_getElem hj],
          by simp [List.getElem?_eq_getElem hi], hb', hp⟩

/-- in a strictly increasing list, the number of entries `≤ a` is the index of the basin + 1 -/
theorem countP_of_isBasin {hb : List Rat} (hs : hb.Pairwise (· < ·)) {i : Nat} {a : Rat}
    (h : IsBasin hb i a) : hb.countP (fun v => decide (v ≤ a)) = i + 1 := by
  induction hb generalizing i with
  | nil =>
    obtain ⟨lo, hi, h1, _⟩ := h
    simp at h1
  | cons x xs ih =>
    obtain ⟨lo, hi, h1, h2, h3, h4⟩ := h
    rw [List.pairwise_cons] at hs
    obtain ⟨hx, hxs⟩ := hs
    cases i with
    | zero =>
      simp at h1 h2
      subst h1
      have hz : xs.countP (fun v => decide (v ≤ a)) = 0 := by
        rw [List.countP_eq_zero]
        intro v hv
        simp only [decide_eq_true_eq, not_le]
        -- v is hi or comes after it
        match xs, h2, hxs, hv with
        | y :: ys, h2, hxs, hv =>
          simp at h2
          subst h2
          rw [List.pairwise_cons] at hxs
          rcases List.mem_cons.1 hv with rfl | hv'
          · exact h4
          · exact lt_trans h4 (hxs.1 v hv')
      rw [List.countP_cons, hz]
      simp [h3]
    | succ j =>
      simp at h1 h2
      have hlo : lo ∈ xs := List.mem_of_getElem? h1
      have hxa : x ≤ a := le_trans (le_of_lt (hx lo hlo)) h3
      have := ih hxs (i := j) ⟨lo, hi, h1, h2, h3, h4⟩
      rw [List.countP_cons, this]
      simp [hxa]

theorem digitize_of_isBasin {hb : List Rat} (hs : hb.Pairwise (· < ·)) {i : Nat} {a : Rat}
    (h : IsBasin hb i a) : digitize a hb = .ok (i + 1) := by
  unfold digitize
  have hle : hb.Pairwise (· ≤ ·) := hs.imp (fun h => le_of_lt h)
  rw [if_pos hle, countP_of_isBasin hs h]

theorem isBasin_unique {hb : List Rat} (hs : hb.Pairwise (· < ·)) {i j : Nat} {a : Rat}
    (hi : IsBasin hb i a) (hj : IsBasin hb j a) : i = j := by
  have h1 := countP_of_isBasin hs hi
  have h2 := countP_of_isBasin hs hj
  omega

theorem isBasin_lt_length {hb : List Rat} {i : Nat} {a : Rat} (h : IsBasin hb i a) :
    i + 1 < hb.length := by
  obtain ⟨lo, hi, _, h2, _⟩ := h
  exact (List.getElem?_eq_some_iff.1 h2).1

end Ens.Rotamer
