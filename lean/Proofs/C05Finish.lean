import Proofs.C05Forms
/-! Reads that build a new RaggedArray from (row, column) pairs. -/
namespace Ens.Ragged
open Ens

theorem mapE_inner_lengths {β γ δ ε} {f : β → γ → Except ε δ} {cols : β → List γ} {X : List β}
    {rs : List (List δ)} (h : mapE (fun x => mapE (f x) (cols x)) X = .ok rs) :
    rs.map List.length = X.map (fun x => (cols x).length) := by
  induction X generalizing rs with
  | nil => simp [mapE] at h; subst h; rfl
  | cons x xs ih =>
    rw [mapE_cons] at h
    cases hx : mapE (f x) (cols x) with
    | error e => rw [hx] at h; cases h
    | ok y =>
      rw [hx] at h
      cases hm : mapE (fun x => mapE (f x) (cols x)) xs with
      | error e => rw [hm] at h; cases h
      | ok ys =>
        rw [hm] at h
        cases h
        simp [ih hm, mapE_length hx]

/-- L661-664: gathering the pairs of a selection given row by row and wrapping them with the
per-row counts as lengths gives the ragged array of the per-row selections -/
theorem finish_eq {α β} (ra : RA α) (h : WF ra) (X : List β) (rowOf : β → Int) (cols : β → List Int)
    (hne : X.flatMap (fun x => (cols x).map fun j => (rowOf x, j)) ≠ []) :
    absE (finish ra (.ok (X.flatMap (fun x => (cols x).map fun j => (rowOf x, j)),
                          X.map fun x => (cols x).length))) =
      bindE (mapE (fun x => mapE (fun j => cell (rows ra) (rowOf x, j)) (cols x)) X)
        fun out => .ok (SRes.rows out) := by
  simp only [finish, absE, bindE_ok, gather_eq ra h, mapE_flatMap, mapE_map]
  cases hm : mapE (fun x => mapE (fun j => cell (rows ra) (rowOf x, j)) (cols x)) X with
  | error e => rfl
  | ok rs =>
    simp only [bindE_ok]
    have hl := mapE_inner_lengths hm
    have hlen : rs.flatten.length = (X.map fun x => (cols x).length).sum := by
      rw [List.length_flatten, hl]
    have hne' : rs.flatten ≠ [] := by
      intro h0
      apply hne
      rw [← List.length_eq_zero_iff, List.length_flatMap]
      rw [h0] at hlen
      simp only [List.length_map]
      simpa using hlen.symm
    simp only [ofFlat, if_neg hne']
    rw [if_neg (by rw [hlen]; simp)]
    simp only [bindE_ok, Res.abs]
    rw [← hl]
    exact congrArg (fun r => Except.ok (SRes.rows r)) (rows_ofRows' rs)

end Ens.Ragged
