import Proofs.C11Closure
/-!
C11, part 2: a valid SCC labelling (scipy's contract, checked per case by the driver) makes
`keep_states` a strongly connected component of maximal weight.
-/
namespace Ens.Trim

/-- mutual reachability -/
def MutReach (n : Nat) (e : Nat → Nat → Bool) (i j : Nat) : Prop := Reach n e i j ∧ Reach n e j i

/-- unpacked form of `validLabeling (closure n e) n labels nsub = true` -/
structure Valid (n : Nat) (e : Nat → Nat → Bool) (labels : Nat → Nat) (nsub : Nat) : Prop where
  lt : ∀ i, i < n → labels i < nsub
  surj : ∀ l, l < nsub → ∃ i, i < n ∧ labels i = l
  iff : ∀ i, i < n → ∀ j, j < n →
    (labels i = labels j ↔ (reachB n e i j = true ∧ reachB n e j i = true))

theorem valid_of_validLabeling {n : Nat} {e : Nat → Nat → Bool} {labels : Nat → Nat} {nsub : Nat}
    (h : validLabeling (closure n e) n labels nsub = true) : Valid n e labels nsub := by
  simp only [validLabeling, Bool.and_eq_true, List.all_eq_true, List.mem_range, List.any_eq_true,
    decide_eq_true_eq, beq_iff_eq] at h
  obtain ⟨⟨h1, h2⟩, h3⟩ := h
  refine ⟨h1, h2, ?_⟩
  intro i hi j hj
  have := h3 i hi j hj
  unfold reachB
  rw [← Bool.and_eq_true, ← this]
  simp

theorem Valid.iff_mut {n : Nat} {e : Nat → Nat → Bool} {labels : Nat → Nat} {nsub : Nat}
    (v : Valid n e labels nsub) {i j : Nat} (hi : i < n) (hj : j < n) :
    labels i = labels j ↔ MutReach n e i j := by
  rw [v.iff i hi j hj, reachB_iff_reach n e hi hj, reachB_iff_reach n e hj hi]; rfl

theorem mem_members {labels : Nat → Nat} {n l i : Nat} :
    i ∈ members labels n l ↔ i < n ∧ labels i = l := by
  simp [members]

theorem members_pairwise (labels : Nat → Nat) (n l : Nat) :
    (members labels n l).Pairwise (· < ·) :=
  List.Pairwise.filter _ List.pairwise_lt_range

theorem sccOfM_pairwise (m : BMat) (n i : Nat) : (sccOfM m n i).Pairwise (· < ·) :=
  List.Pairwise.filter _ List.pairwise_lt_range

theorem mem_sccOf {C : Nat → Nat → Nat} {n : Nat} {thr : Int} {i j : Nat} (hi : i < n) :
    j ∈ sccOf C n thr i ↔ j < n ∧ MutReach n (edge C thr) i j := by
  simp only [sccOf, sccOfM, List.mem_filter, List.mem_range, Bool.and_eq_true]
  constructor
  · rintro ⟨hj, h1, h2⟩
    exact ⟨hj, (reachB_iff_reach n _ hi hj).1 h1, (reachB_iff_reach n _ hj hi).1 h2⟩
  · rintro ⟨hj, h1, h2⟩
    exact ⟨hj, (reachB_iff_reach n _ hi hj).2 h1, (reachB_iff_reach n _ hj hi).2 h2⟩

/-- the members of a label class are the SCC of any of its states -/
theorem members_eq_sccOf {C : Nat → Nat → Nat} {n : Nat} {thr : Int} {labels : Nat → Nat} {nsub : Nat}
    (v : Valid n (edge C thr) labels nsub) {i : Nat} (hi : i < n) :
    members labels n (labels i) = sccOf C n thr i := by
  unfold members sccOf sccOfM
  apply List.filter_congr
  intro j hj
  have hj : j < n := List.mem_range.1 hj
  have := v.iff i hi j hj
  unfold reachB at this
  rw [Bool.eq_iff_iff, beq_iff_eq, Bool.and_eq_true, ← this]
  exact eq_comm

/-! ### argmax -/

theorem argmaxTo_lt {n : Nat} (f : Nat → Nat) (hn : 0 < n) : argmaxTo n f < n := by
  induction n with
  | zero => omega
  | succ k ih =>
    unfold argmaxTo
    by_cases hk : k = 0
    · simp [hk]
    · have := ih (by omega)
      simp only [hk, if_false]
      split <;> omega

theorem le_argmaxTo {n : Nat} (f : Nat → Nat) {l : Nat} (hl : l < n) : f l ≤ f (argmaxTo n f) := by
  induction n with
  | zero => omega
  | succ k ih =>
    unfold argmaxTo
    by_cases hk : k = 0
    · have : l = 0 := by omega
      simp [hk, this]
    · simp only [hk, if_false]
      by_cases hlk : l = k
      · subst hlk; split <;> omega
      · have := ih (by omega)
        split <;> omega

/-- `np.argmax` returns the FIRST maximum -/
theorem lt_argmaxTo {n : Nat} (f : Nat → Nat) {l : Nat} (hl : l < argmaxTo n f) :
    f l < f (argmaxTo n f) := by
  induction n with
  | zero => simp [argmaxTo] at hl
  | succ k ih =>
    unfold argmaxTo at hl ⊢
    by_cases hk : k = 0
    · simp [hk] at hl
    · simp only [hk, if_false] at hl ⊢
      split
      · rename_i h
        by_cases h2 : l < argmaxTo k f
        · have := ih h2; omega
        · have hk0 : 0 < k := by omega
          have h3 := argmaxTo_lt f hk0
          have hl' : l < k := by simpa [h] using hl
          have := le_argmaxTo f hl'
          omega
      · rename_i h
        simp only [h, if_false] at hl
        exact ih hl

/-! ### keep_states -/

section
variable {C : Nat → Nat → Nat} {n : Nat} {thr : Int} {labels : Nat → Nat} {nsub : Nat}

theorem valid_nsub_pos (v : Valid n (edge C thr) labels nsub) : 0 < nsub ↔ 0 < n := by
  constructor
  · intro h; obtain ⟨i, hi, _⟩ := v.surj 0 h; omega
  · intro h; have := v.lt 0 h; omega

/-- `keep_states` is the SCC of each of its states -/
theorem keepStates_eq_sccOf (v : Valid n (edge C thr) labels nsub) {i : Nat}
    (hi : i ∈ keepStates C n labels nsub) : keepStates C n labels nsub = sccOf C n thr i := by
  obtain ⟨hin, hl⟩ := mem_members.1 hi
  rw [← members_eq_sccOf v hin, hl, keepStates]

theorem keepStates_nonempty (v : Valid n (edge C thr) labels nsub) (h0 : nsub ≠ 0) :
    ∃ i, i ∈ keepStates C n labels nsub := by
  obtain ⟨i, hi, hl⟩ := v.surj _ (argmaxTo_lt (subgraphPop C n labels) (Nat.pos_of_ne_zero h0))
  exact ⟨i, mem_members.2 ⟨hi, hl⟩⟩

theorem keepStates_weight_ge (v : Valid n (edge C thr) labels nsub) {j : Nat} (hj : j < n) :
    weight C n (sccOf C n thr j) ≤ weight C n (keepStates C n labels nsub) := by
  rw [← members_eq_sccOf v hj]
  exact le_argmaxTo (subgraphPop C n labels) (v.lt j hj)

theorem keepStates_mem_heaviest (v : Valid n (edge C thr) labels nsub) (h0 : nsub ≠ 0) :
    keepStates C n labels nsub ∈ heaviest C n thr := by
  obtain ⟨i, hi⟩ := keepStates_nonempty (C := C) v h0
  have hin := (mem_members.1 hi).1
  simp only [heaviest, heaviestM, List.mem_filter, List.mem_map, List.mem_range, List.all_eq_true,
    decide_eq_true_eq, forall_exists_index, and_imp, forall_apply_eq_imp_iff₂]
  refine ⟨⟨i, hin, ?_⟩, ?_⟩
  · exact (keepStates_eq_sccOf v hi).symm
  · intro j hj
    exact keepStates_weight_ge v hj

/-- everything in `heaviest` is an SCC of maximal weight (the label-free specification) -/
theorem mem_heaviest_iff {S : List Nat} :
    S ∈ heaviest C n thr ↔
      (∃ i, i < n ∧ S = sccOf C n thr i) ∧
      ∀ j, j < n → weight C n (sccOf C n thr j) ≤ weight C n S := by
  simp only [heaviest, heaviestM, List.mem_filter, List.mem_map, List.mem_range, List.all_eq_true,
    decide_eq_true_eq, forall_exists_index, and_imp, forall_apply_eq_imp_iff₂, sccOf]
  constructor
  · rintro ⟨⟨i, hi, rfl⟩, h⟩; exact ⟨⟨i, hi, rfl⟩, h⟩
  · rintro ⟨⟨i, hi, rfl⟩, h⟩; exact ⟨⟨i, hi, rfl⟩, h⟩

end

end Ens.Trim
