import Proofs.C15Stride
import Proofs.C15Buf
/-!
C15, part 5: `load_as_concatenated`.
Offsets are prefix sums of the lengths, so the workers' windows tile `[0, total)`; the shared
buffer after *any* completion order / interleaving of the workers' writes is the concatenation
in file order.  Sounded lengths equal the loaded lengths under mdtraj's stride contract.
Core Lean only.
-/
namespace Ens.Store

variable {β : Type}

/-! ### offsets and tasks -/

theorem offsets_cons (l : Nat) (ls : List Nat) : offsets (l :: ls) = 0 :: (offsets ls).map (l + ·) := by
  unfold offsets
  rw [List.length_cons, List.range_succ_eq_map, List.map_cons, List.map_map, List.map_map]
  congr 1

/-- the task list as a recursion: file after file, each starting where the previous ended -/
def tasksFrom (d : Nat) : List (List β) → List (Nat × List β)
  | [] => []
  | xs :: rest => (d, xs) :: tasksFrom (d + xs.length) rest

theorem zip_offsets_eq_tasksFrom : ∀ (xss : List (List β)) (d : Nat),
    ((offsets (xss.map List.length)).map (d + ·)).zip xss = tasksFrom d xss
  | [], d => by simp [offsets, tasksFrom]
  | xs :: rest, d => by
    rw [List.map_cons, offsets_cons, List.map_cons, List.map_map, List.zip_cons_cons, tasksFrom]
    congr 1
    rw [← zip_offsets_eq_tasksFrom rest (d + xs.length)]
    congr 2
    funext a
    simp only [Function.comp]
    omega

/-- with the true lengths, the pool's task list is `tasksFrom 0` -/
theorem tasks_eq_tasksFrom (specs : List (FileSpec β)) :
    tasks ((specs.map (·.loaded)).map List.length) specs = tasksFrom 0 (specs.map (·.loaded)) := by
  unfold tasks
  rw [← zip_offsets_eq_tasksFrom]
  congr 1
  simp

/-- the cell writes of one task -/
def cellsOf (t : Nat × List β) : List (Nat × β) := blockCells t.1 t.2

theorem flatMap_cellsOf_tasksFrom : ∀ (xss : List (List β)) (d : Nat),
    (tasksFrom d xss).flatMap cellsOf = cellsFrom d xss
  | [], _ => rfl
  | xs :: rest, d => by
    rw [tasksFrom, List.flatMap_cons, cellsFrom, flatMap_cellsOf_tasksFrom rest]
    rfl

theorem tasksFrom_bounds : ∀ (xss : List (List β)) (d : Nat),
    ∀ t ∈ tasksFrom d xss, t.1 + t.2.length ≤ d + (xss.map List.length).sum
  | [], _, t, h => by simp [tasksFrom] at h
  | xs :: rest, d, t, h => by
    rw [tasksFrom] at h
    rw [length_sum_cons]
    rcases List.mem_cons.mp h with rfl | h'
    · simp only; omega
    · have := tasksFrom_bounds rest (d + xs.length) t h'
      omega

theorem length_tasksFrom : ∀ (xss : List (List β)) (d : Nat), (tasksFrom d xss).length = xss.length
  | [], _ => rfl
  | xs :: rest, d => by simp [tasksFrom, length_tasksFrom rest]

theorem tasksFrom_map_snd : ∀ (xss : List (List β)) (d : Nat), (tasksFrom d xss).map (·.2) = xss
  | [], _ => rfl
  | xs :: rest, d => by simp [tasksFrom, tasksFrom_map_snd rest]

/-! ### executing the tasks in some order -/

/-- the cell writes of task `i` -/
def taskCells (ts : List (Nat × List β)) (i : Nat) : List (Nat × β) :=
  match ts[i]? with
  | some t => cellsOf t
  | none => []

theorem runOrder_ok (total : Nat) (ts : List (Nat × List β))
    (hb : ∀ t ∈ ts, t.1 + t.2.length ≤ total) :
    ∀ (order : List Nat) (buf : Nat → β), (∀ i ∈ order, i < ts.length) →
      runOrder total ts order buf = .ok (runCells (order.flatMap (taskCells ts)) buf)
  | [], _, _ => rfl
  | i :: rest, buf, h => by
    have hi : i < ts.length := h i (by simp)
    have hget : ts[i]? = some ts[i] := List.getElem?_eq_getElem hi
    rw [runOrder, hget]
    simp only
    rw [writeWindow_ok total buf ts[i].1 ts[i].2 (hb _ (List.getElem_mem hi))]
    simp only
    rw [runOrder_ok total ts hb rest _ (fun j hj => h j (by simp [hj]))]
    rw [List.flatMap_cons, runCells_append]
    simp [taskCells, hget, cellsOf]

theorem flatMap_range_taskCells : ∀ (ts : List (Nat × List β)),
    (List.range ts.length).flatMap (taskCells ts) = ts.flatMap cellsOf
  | [] => rfl
  | t :: ts => by
    rw [List.length_cons, List.range_succ_eq_map, List.flatMap_cons, List.flatMap_map, List.flatMap_cons]
    congr 1
    rw [← flatMap_range_taskCells ts]
    have : (taskCells (t :: ts) ∘ Nat.succ) = taskCells ts := by
      funext i; simp [taskCells]
    first
      | rw [this]
      | (show (List.range ts.length).flatMap (fun i => taskCells (t :: ts) (Nat.succ i)) = _
         rw [show (fun i => taskCells (t :: ts) (Nat.succ i)) = taskCells ts from this])

/-- All cell writes the pool issues, in file order. -/
def issuedCells (lengths : List Nat) (specs : List (FileSpec β)) : List (Nat × β) :=
  (tasks lengths specs).flatMap cellsOf

/-- with the true lengths the issued cell writes are exactly the cell writes of the concatenation -/
theorem issuedCells_eq (specs : List (FileSpec β)) :
    issuedCells ((specs.map (·.loaded)).map List.length) specs
      = blockCells 0 (specs.map (·.loaded)).flatten := by
  unfold issuedCells
  rw [tasks_eq_tasksFrom, flatMap_cellsOf_tasksFrom, cellsFrom_eq_block]

/-- the workers' windows are pairwise disjoint: no buffer position is written twice -/
theorem issuedCells_nodup (specs : List (FileSpec β)) :
    ((issuedCells ((specs.map (·.loaded)).map List.length) specs).map (·.1)).Nodup := by
  rw [issuedCells_eq]; exact blockCells_nodup _ _

/-- Main lemma: lengths are the true ones, the completion order is any permutation of the
tasks; the result is the concatenation in file order. -/
theorem loadAsConcatenated_of_lengths (specs : List (FileSpec β)) (hint : Option (List Nat))
    (hne : specs ≠ [])
    (hl : resolveLengths specs hint = .ok ((specs.map (·.loaded)).map List.length))
    (order : List Nat) (hp : order.Perm (List.range specs.length)) (init : Nat → β) :
    loadAsConcatenated specs hint order init
      = .ok ((specs.map (·.loaded)).map List.length, (specs.map (·.loaded)).flatten) := by
  unfold loadAsConcatenated
  rw [if_neg (by simpa using hne)]
  rw [hl]
  simp only
  rw [tasks_eq_tasksFrom]
  have hlen : (tasksFrom 0 (specs.map (·.loaded))).length = specs.length := by
    rw [length_tasksFrom]; simp
  have hb : ∀ t ∈ tasksFrom 0 (specs.map (·.loaded)),
      t.1 + t.2.length ≤ ((specs.map (·.loaded)).map List.length).sum := by
    intro t ht
    have := tasksFrom_bounds (specs.map (·.loaded)) 0 t ht
    omega
  have hidx : ∀ i ∈ order, i < (tasksFrom 0 (specs.map (·.loaded))).length := by
    intro i hi
    rw [hlen]
    exact List.mem_range.mp (hp.subset hi)
  rw [runOrder_ok _ _ hb order init hidx]
  simp only
  have hsum : ((tasksFrom 0 (specs.map (·.loaded))).map fun t => t.2.length).sum
      = ((specs.map (·.loaded)).map List.length).sum := by
    have := tasksFrom_map_snd (specs.map (·.loaded)) 0
    rw [show (fun t : Nat × List β => t.2.length) = List.length ∘ (fun t => t.2) from rfl,
      ← List.map_map, this]
  rw [if_neg (by rw [hsum]; simp)]
  congr 2
  rw [← length_flatten_eq]
  apply tabulate_runCells
  have h1 : (order.flatMap (taskCells (tasksFrom 0 (specs.map (·.loaded))))).Perm
      ((List.range specs.length).flatMap (taskCells (tasksFrom 0 (specs.map (·.loaded))))) :=
    hp.flatMap_right _
  rw [← hlen, flatMap_range_taskCells, flatMap_cellsOf_tasksFrom, cellsFrom_eq_block] at h1
  exact h1

/-! ### sounding -/

/-- mdtraj's contract as used by the code: a file loaded with its arguments has one frame if
`frame=` is given, else `⌈n_frames/stride⌉` frames; strides are positive. -/
def MdLoadContract (sp : FileSpec β) : Prop :=
  0 < sp.stride ∧ sp.loaded.length = if sp.hasFrame then 1 else ceilDiv sp.nFrames sp.stride

/-- a loader that returns `raw[::stride]` (with any per-frame atom selection `sel`)
satisfies the contract — by `length_strideSel` -/
theorem contract_of_strided {γ : Type} (raw : List γ) (sel : γ → β) (s : Nat) (hs : 0 < s) :
    MdLoadContract { nFrames := raw.length, stride := s, hasFrame := false,
                     loaded := (strideSel s raw).map sel } := by
  refine ⟨hs, ?_⟩
  simp [length_strideSel s hs]

theorem pyInsert_at_length {γ} (x : γ) : ∀ (pre l : List γ), pyInsert pre.length x (pre ++ l) = pre ++ x :: l
  | [], l => by cases l <;> rfl
  | p :: pre, l => by
    simp only [List.length_cons, List.cons_append, pyInsert]
    rw [pyInsert_at_length x pre l]

/-- the `insert` loop puts the 1s of the `frame=` files back at their file positions -/
theorem insertFrames_spec : ∀ (specs : List (FileSpec β)) (pre : List Nat),
    (∀ sp ∈ specs, MdLoadContract sp) →
    insertFrames specs pre.length
        (pre ++ (specs.filter fun a => !a.hasFrame).map fun a => ceilDiv a.nFrames a.stride)
      = pre ++ specs.map (·.loaded.length)
  | [], pre, _ => by simp [insertFrames]
  | sp :: rest, pre, h => by
    have hsp := (h sp (by simp)).2
    have ih := insertFrames_spec rest (pre ++ [sp.loaded.length]) (fun a ha => h a (by simp [ha]))
    rw [List.length_append, List.length_singleton] at ih
    rw [insertFrames]
    cases hf : sp.hasFrame with
    | true =>
      rw [hf] at hsp
      simp only [if_true] at hsp
      simp only [List.filter_cons, hf, Bool.not_true, if_true]
      rw [pyInsert_at_length]
      simp only [Bool.false_eq_true, if_false, List.map_cons]
      rw [hsp] at ih ⊢
      simpa using ih
    | false =>
      rw [hf] at hsp
      simp only [Bool.false_eq_true, if_false] at hsp
      simp only [List.filter_cons, hf, Bool.not_false, if_true, List.map_cons, Bool.false_eq_true, if_false]
      rw [hsp] at ih ⊢
      simpa using ih

theorem soundAll_of_contract (specs : List (FileSpec β)) (h : ∀ sp ∈ specs, MdLoadContract sp) :
    soundAll specs = .ok (specs.map (·.loaded.length)) := by
  unfold soundAll
  have hm : (specs.filter fun a => !a.hasFrame).mapM (fun a => soundTrajectory a.nFrames a.stride)
      = .ok ((specs.filter fun a => !a.hasFrame).map fun a => ceilDiv a.nFrames a.stride) := by
    have : ∀ (l : List (FileSpec β)), (∀ a ∈ l, 0 < a.stride) →
        l.mapM (fun a => soundTrajectory a.nFrames a.stride) = .ok (l.map fun a => ceilDiv a.nFrames a.stride) := by
      intro l
      induction l with
      | nil => intro _; rfl
      | cons a l ih =>
        intro hl
        have ha : 0 < a.stride := hl a (by simp)
        rw [List.mapM_cons, ih (fun b hb => hl b (by simp [hb]))]
        simp only [soundTrajectory]
        rw [if_neg (by omega)]
        rfl
    apply this
    intro a ha
    exact (h a (List.mem_filter.mp ha).1).1
  rw [hm]
  simp only
  have := insertFrames_spec specs [] h
  simp only [List.length_nil, List.nil_append] at this
  rw [this]

/-! ### wrong hints -/

theorem runOrder_error_kind (total : Nat) (ts : List (Nat × List β)) :
    ∀ (order : List Nat) (buf : Nat → β) (e : Err), (∀ i ∈ order, i < ts.length) →
      runOrder total ts order buf = .error e → e = .valueError
  | [], _, _, _, h => by simp [runOrder] at h
  | i :: rest, buf, e, hidx, h => by
    have hi : i < ts.length := hidx i (by simp)
    rw [runOrder, List.getElem?_eq_getElem hi] at h
    simp only at h
    cases hw : writeWindow total buf ts[i].1 ts[i].2 with
    | error e' =>
      rw [hw] at h
      simp only [Except.error.injEq] at h
      subst h
      unfold writeWindow at hw
      split at hw
      · simp at hw
      · split at hw
        · simp at hw
        · simpa using hw.symm
    | ok b =>
      rw [hw] at h
      exact runOrder_error_kind total ts rest b e (fun j hj => hidx j (by simp [hj])) h

theorem zip_map_snd_of_length_eq {γ δ : Type} : ∀ (a : List γ) (b : List δ), a.length = b.length →
    (a.zip b).map (·.2) = b
  | [], [], _ => rfl
  | [], _ :: _, h => by simp at h
  | _ :: _, [], h => by simp at h
  | x :: a, y :: b, h => by
    simp only [List.zip_cons_cons, List.map_cons]
    rw [zip_map_snd_of_length_eq a b (by simpa using h)]

/-- **a hint whose total is wrong is always rejected** (by a worker's broadcast error or by
the final total check), whatever the completion order. -/
theorem hint_total_mismatch_rejected (specs : List (FileSpec β)) (hint : List Nat) (hne : specs ≠ [])
    (hsum : hint.sum ≠ ((specs.map (·.loaded)).map List.length).sum)
    (order : List Nat) (hp : order.Perm (List.range specs.length)) (init : Nat → β) :
    ∃ e, loadAsConcatenated specs (some hint) order init = .error e ∧
      (e = .improperlyConfigured ∨ e = .valueError ∨ e = .dataInvalid) := by
  unfold loadAsConcatenated
  rw [if_neg (by simpa using hne)]
  rw [show resolveLengths specs (some hint)
      = (if hint.length ≠ specs.length then .error .improperlyConfigured else .ok hint) from rfl]
  by_cases hlen : hint.length ≠ specs.length
  · rw [if_pos hlen]
    exact ⟨_, rfl, Or.inl rfl⟩
  · rw [if_neg hlen]
    simp only
    have hlen' : hint.length = specs.length := by omega
    have htl : (tasks hint specs).length = specs.length := by
      simp [tasks, offsets, hlen']
    cases hr : runOrder hint.sum (tasks hint specs) order init with
    | error e =>
      refine ⟨e, rfl, Or.inr (Or.inl ?_)⟩
      apply runOrder_error_kind _ _ order init e _ hr
      intro i hi
      rw [htl]
      exact List.mem_range.mp (hp.subset hi)
    | ok b =>
      simp only
      have hs : ((tasks hint specs).map fun t => t.2.length).sum
          = ((specs.map (·.loaded)).map List.length).sum := by
        rw [show (fun t : Nat × List β => t.2.length) = List.length ∘ (fun t => t.2) from rfl,
          ← List.map_map]
        unfold tasks
        rw [zip_map_snd_of_length_eq _ _ (by simp [offsets, hlen'])]
      rw [if_pos (by rw [hs]; exact fun h => hsum h.symm)]
      exact ⟨_, rfl, Or.inr (Or.inr rfl)⟩

end Ens.Store
