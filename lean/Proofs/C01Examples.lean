import Proofs.C01Sized
/-!
Concrete instance used by the non-vacuity `example`s of Props/C01.lean and Props/C09.lean:
six points on a line, `0 1 3 | 10 12 15`, distance = absolute difference; start state = nearest-center
assignment to the centers {frame 0, frame 5}.
-/
namespace Ens.Cluster.Ex

def pts : List Int := [0, 1, 3, 10, 12, 15]
def D6 : Table := fun f c => ((pts.getD f 0 - pts.getD c 0).natAbs : Nat)
def s6 : St := { arr := assignNearest D6 6 [0, 5], ctrInds := [0, 5], ctrFrames := [0, 5] }

theorem D6_ok : TableOK D6 6 := by
  have h1 : ∀ i, i < 6 → D6 i i = 0 := by decide +kernel
  have h2 : ∀ i, i < 6 → ∀ j, j < 6 → 0 ≤ D6 i j := by decide +kernel
  have h3 : ∀ i, i < 6 → ∀ j, j < 6 → D6 i j = 0 → i = j := by decide +kernel
  exact ⟨h1, fun i j hi hj => h2 i hi j hj, fun i j hi hj => h3 i hi j hj⟩

end Ens.Cluster.Ex
