import Proofs.C18Dtype
/-!
`mi_matrix`: the table accumulated over several trajectories (`jc += jc_i`) holds, in every cell,
the sum of the per-trajectory frame counts.  Core Lean only.
-/
namespace Ens.Info

/-- frame count of one trajectory pair (0 outside the feature ranges) -/
def trajCount (XY : TArr × TArr) (x y : Nat) (i j : Int) : Nat :=
  if x < XY.1.arr.F ∧ y < XY.2.arr.F then frameCount XY.1.arr XY.2.arr x y i j else 0

/-- one accumulation step of `mi_matrix` -/
def miStep (nx ny : Int) (acc : JC) (XY : TArr × TArr) : Except Err JC := do
  let ji ← jointCounts XY.1 (some XY.2) (some nx) (some ny)
  if ji.Fa ≠ acc.Fa ∨ ji.Fb ≠ acc.Fb then throw .dataInvalid
  pure (acc.add ji)

theorem miStep_ok (nx ny : Int) (acc : JC) (XY : TArr × TArr) (p : JC)
    (hv : XY.1.valid ∧ XY.2.valid) (h : miStep nx ny acc XY = .ok p) :
    ∀ x y i j, p.cnt x y i j = acc.cnt x y i j + trajCount XY x y i j := by
  unfold miStep at h
  simp only [bind, Except.bind, pure, Except.pure] at h
  cases hj : jointCounts XY.1 (some XY.2) (some nx) (some ny) with
  | error e => rw [hj] at h; cases h
  | ok ji =>
    rw [hj] at h
    simp only at h
    split at h
    · simp [throw, throwThe, MonadExceptOf.throw] at h
    · cases h
      obtain ⟨_, _, _, _, hc⟩ := jointCounts_exact XY.1 XY.2 hv.1 hv.2 nx ny ji hj
      intro x y i j
      show acc.cnt x y i j + ji.cnt x y i j = _
      rw [hc]; rfl

theorem foldlM_miStep (nx ny : Int) (rest : List (TArr × TArr)) (acc p : JC)
    (hv : ∀ XY ∈ rest, XY.1.valid ∧ XY.2.valid)
    (h : rest.foldlM (miStep nx ny) acc = .ok p) :
    ∀ x y i j, p.cnt x y i j = acc.cnt x y i j + (rest.map fun XY => trajCount XY x y i j).sum := by
  induction rest generalizing acc with
  | nil =>
    simp only [List.foldlM_nil, pure, Except.pure] at h
    cases h
    intro x y i j; simp
  | cons XY rest ih =>
    rw [List.foldlM_cons] at h
    simp only [bind, Except.bind] at h
    cases hs : miStep nx ny acc XY with
    | error e => rw [hs] at h; cases h
    | ok acc' =>
      rw [hs] at h
      have h1 := miStep_ok nx ny acc XY acc' (hv XY List.mem_cons_self) hs
      have h2 := ih acc' (fun Z hZ => hv Z (List.mem_cons_of_mem _ hZ)) h
      intro x y i j
      rw [h2, h1, List.map_cons, List.sum_cons]
      omega

theorem miMatrixCounts_eq (X Y : TArr) (rest : List (TArr × TArr)) (nx ny : Int) :
    miMatrixCounts ((X, Y) :: rest) nx ny =
      (jointCounts X (some Y) (some nx) (some ny)) >>= fun j0 => rest.foldlM (miStep nx ny) j0 := by
  rfl

/-- `mi_matrix` over several trajectories: every cell of the accumulated table is the sum of the
per-trajectory frame counts (= the frame count of the concatenated trajectories, `jc_additive`) -/
theorem miMatrixCounts_pooled (trajs : List (TArr × TArr)) (nx ny : Int) (p : JC)
    (hv : ∀ XY ∈ trajs, XY.1.valid ∧ XY.2.valid)
    (h : miMatrixCounts trajs nx ny = .ok p) :
    ∀ x y i j, p.cnt x y i j = (trajs.map fun XY => trajCount XY x y i j).sum := by
  cases trajs with
  | nil => simp [miMatrixCounts, throw, throwThe, MonadExceptOf.throw] at h
  | cons XY rest =>
    obtain ⟨X, Y⟩ := XY
    rw [miMatrixCounts_eq] at h
    simp only [bind, Except.bind] at h
    cases hj : jointCounts X (some Y) (some nx) (some ny) with
    | error e => rw [hj] at h; cases h
    | ok j0 =>
      rw [hj] at h
      have hv0 := hv (X, Y) List.mem_cons_self
      obtain ⟨_, _, _, _, hc⟩ := jointCounts_exact X Y hv0.1 hv0.2 nx ny j0 hj
      have := foldlM_miStep nx ny rest j0 p (fun Z hZ => hv Z (List.mem_cons_of_mem _ hZ)) h
      intro x y i j
      rw [this, hc, List.map_cons, List.sum_cons]
      rfl

end Ens.Info
