import Proofs.C06AsIs
namespace Ens.RaggedW
variable {α : Type}

theorem initRows_obj {rows : Rows α} {obj : Bool} {s' : State α} (h : initRows rows obj = .ok s') :
    s'.objDtype = obj := by
  unfold initRows at h
  split at h
  · cases h
  · simp only [] at h
    split at h
    · injection h with h; subst h; rfl
    · cases h

theorem rebuild_obj {d : List α} {ls : List Nat} {obj : Bool} {s' : State α}
    (h : rebuild d ls obj = .ok s') : s'.objDtype = obj := by
  unfold rebuild at h
  split at h
  · injection h with h; subst h; rfl
  · cases h

theorem initFlat_obj {cfg : Cfg} {d : List α} {ls : List Nat} {np obj : Bool} {s' : State α}
    (h : initFlat cfg d ls np obj = .ok s') : s'.objDtype = obj := by
  unfold initFlat at h
  repeat' split at h
  all_goals first
    | (injection h with h; subst h; rfl)
    | cases h

theorem scatterWrite_obj {cfg : Cfg} {s s' : State α} {iis : List (Int × Int)} {v : Val α}
    (h : scatterWrite cfg s iis v = .ok s') : s'.objDtype = s.objDtype := by
  unfold scatterWrite at h
  repeat' split at h
  all_goals first
    | exact rebuild_obj h
    | cases h

theorem zipOp_obj {β γ : Type} {cfg : Cfg} {g : α → β → γ} {s : State α} {o : List β} {s' : State γ}
    (h : zipOp cfg g s o = .ok s') : s'.objDtype = s.objDtype := by
  unfold zipOp at h
  repeat' split at h
  all_goals first
    | exact initFlat_obj h
    | cases h

theorem mapOp_obj {β : Type} {cfg : Cfg} {f : α → β} {s : State α} {s' : State β}
    (h : mapOp cfg f s = .ok s') : s'.objDtype = s.objDtype := initFlat_obj h

/-- with the row-view repair the public dtype never degrades to `object` -/
theorem dtype_stable (cfg : Cfg) (hfix : cfg.rowViewsFix = true) (s s' : State α) (o : Option (State α))
    (op : Op α) (h0 : s.objDtype = false) (hstep : step cfg s op = .ok (s', o)) : s'.objDtype = false := by
  have hleak : leak cfg s = false := by simp [leak, h0, hfix]
  have hlv : ∀ form (vs : List (List α)), leakVal cfg form vs = false := by
    intro form vs; simp [leakVal, hfix]
  cases op <;> simp only [step, npLeftStep] at hstep
  case setRows sel vs form =>
    split at hstep
    · cases hstep
    · unfold setRowsWith at hstep
      repeat' split at hstep
      all_goals first
        | (injection hstep with hstep; injection hstep with e1 e2; subst e1;
           rename_i hh; have := initRows_obj hh; simp_all)
        | cases hstep
  case npLeft f rebind =>
    repeat' split at hstep
    all_goals first
      | (injection hstep with hstep; injection hstep with e1 e2; subst e1;
         first
          | exact h0
          | (rename_i hh; have := mapOp_obj hh; simp_all)
          | (rename_i hh _; have := mapOp_obj hh; simp_all)
          | (rename_i hh _ _; have := mapOp_obj hh; simp_all))
      | cases hstep
  all_goals (repeat' split at hstep)
  all_goals first
    | (injection hstep with hstep; injection hstep with e1 e2; subst e1;
       first
        | exact h0
        | (rename_i hh; have := scatterWrite_obj hh; simp_all)
        | (rename_i hh; have := initRows_obj hh; simp_all)
        | (rename_i hh; have := rebuild_obj hh; simp_all)
        | (rename_i hh; have := initFlat_obj hh; simp_all)
        | (rename_i hh; have := zipOp_obj hh; simp_all)
        | (rename_i hh; have := mapOp_obj hh; simp_all)
        | rfl)
    | cases hstep

end Ens.RaggedW
