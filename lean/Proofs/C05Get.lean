import Proofs.C05Cell
import Proofs.C05Slice
/-! Refinement lemmas per index form (the forms that do not go through the slice arithmetic). -/
namespace Ens.Ragged
open Ens

/-! ### the rectangular fast path builds the same row view -/

theorem partitionAux_replicate {α} (l : List α) (s k L : Nat) :
    partitionAux l s (List.replicate k L) = chunks L k (l.drop s) := by
  induction k generalizing s with
  | zero => rfl
  | succ k ih =>
    simp only [List.replicate_succ, partitionAux, chunks, ih, List.drop_drop]

theorem eq_replicate_of_all {L : Nat} {rest : List Nat} (h : ∀ x ∈ rest, x = L) :
    rest = List.replicate rest.length L := by
  induction rest with
  | nil => rfl
  | cons x xs ih =>
    simp only [List.length_cons, List.replicate_succ]
    rw [h x (by simp), ← ih (fun y hy => h y (by simp [hy]))]

/-- `_array` is the list of rows whichever way `__init__` built it (`reshape` on the rectangular
fast path, `partition_list` otherwise) -/
theorem arrayView_eq_rows {α} (ra : RA α) (h : WF ra) (fast : Bool)
    (hfast : fast = true → ∃ L, 0 < L ∧ ra.lengths ≠ [] ∧ ∀ x ∈ ra.lengths, x = L) :
    arrayView ra fast = .ok (rows ra) := by
  obtain ⟨data, lens⟩ := ra
  simp only [WF] at h
  cases fast with
  | false => simp [arrayView, partitionList, h, rows]
  | true =>
    obtain ⟨L, hL, hne, hall⟩ := hfast rfl
    simp only at hne hall
    have hrep := eq_replicate_of_all hall
    cases lens with
    | nil => exact absurd rfl hne
    | cons x xs =>
      have hx : x = L := hall x (by simp)
      subst hx
      simp only [arrayView, reshapeRows, rows, ↓reduceIte]
      have hsum : data.length = (xs.length + 1) * x := by
        rw [← h, hrep]; simp
      have hx0 : ¬ (x = 0) := by omega
      rw [if_neg hx0, if_neg (by rw [hsum]; simp)]
      congr 1
      rw [hrep, partitionAux_replicate]
      simp [hsum, Nat.mul_div_cancel _ hL]

/-! ### iteration -/

theorem npIndex_ofNat {β} (l : List β) (k : Nat) : npIndex l (k : Int) = getNat l k := by
  simp only [npIndex, getNat]
  have : ¬ ((k : Int) < 0) := by omega
  simp [this]

theorem iterAux_eq_drop {α} (v : List (List α)) (fuel i : Nat) (h : v.length < i + fuel) :
    iterAux v fuel i = v.drop i := by
  induction fuel generalizing i with
  | zero =>
    simp only [iterAux]
    rw [List.drop_eq_nil_of_le (by omega)]
  | succ f ih =>
    simp only [iterAux, npIndex_ofNat, getNat]
    cases hv : v[i]? with
    | none =>
      simp only []
      have := List.getElem?_eq_none_iff.mp hv
      rw [List.drop_eq_nil_of_le this]
    | some r =>
      simp only []
      rw [ih (i + 1) (by omega)]
      have hi := (List.getElem?_eq_some_iff.mp hv)
      obtain ⟨hi, hr⟩ := hi
      rw [List.drop_eq_getElem_cons hi, hr]

/-! ### gathering cells -/

theorem mapE_error_same {α β ε} {f : α → Except ε β} {e0 : ε} (hf : ∀ x e, f x = .error e → e = e0)
    {l : List α} {e : ε} (h : mapE f l = .error e) : e = e0 := by
  induction l with
  | nil => simp [mapE] at h
  | cons x xs ih =>
    rw [mapE_cons] at h
    cases hx : f x with
    | error e' => rw [hx] at h; cases h; exact hf x _ hx
    | ok y =>
      rw [hx] at h
      cases hm : mapE f xs with
      | error e' => rw [hm] at h; cases h; exact ih hm
      | ok ys => rw [hm] at h; cases h

/-- two passes fuse into one when every failure is the same error -/
theorem mapE_comp_same {α β γ ε} {f : α → Except ε β} {g : β → Except ε γ} {e0 : ε}
    (hf : ∀ x e, f x = .error e → e = e0) (hg : ∀ y e, g y = .error e → e = e0) (l : List α) :
    bindE (mapE f l) (mapE g) = mapE (fun x => bindE (f x) g) l := by
  induction l with
  | nil => rfl
  | cons x xs ih =>
    simp only [mapE_cons]
    cases hx : f x with
    | error e => rfl
    | ok y =>
      simp only [bindE_ok]
      cases hm : mapE f xs with
      | error e =>
        simp only [bindE_error]
        have he := mapE_error_same hf hm
        rw [hm] at ih
        cases hy : g y with
        | error e' => simp only [bindE_error]; rw [hg y e' hy, he]
        | ok z => simp only [bindE_ok]; rw [← ih]; rfl
      | ok ys =>
        simp only [bindE_ok, mapE_cons]
        rw [hm] at ih
        simp only [bindE_ok] at ih
        rw [ih]

theorem convertOne_error (lens : List Nat) (p : Int × Int) (e : Err) (h : convertOne lens p = .error e) :
    e = .indexError := by
  simp only [convertOne] at h
  repeat' split at h
  all_goals first | cases h; rfl | cases h

theorem getNat_error {β} (l : List β) (k : Nat) (e : Err) (h : getNat l k = .error e) : e = .indexError := by
  simp only [getNat] at h
  split at h <;> cases h
  rfl

theorem npIndex_error {β} (l : List β) (i : Int) (e : Err) (h : npIndex l i = .error e) : e = .indexError := by
  simp only [npIndex] at h
  repeat' split at h
  all_goals first | cases h; rfl | cases h

theorem cell_error {α} (rs : List (List α)) (p : Int × Int) (e : Err) (h : cell rs p = .error e) :
    e = .indexError := by
  simp only [cell] at h
  cases hr : npIndex rs p.1 with
  | error e' => rw [hr] at h; cases h; exact npIndex_error _ _ _ hr
  | ok row => rw [hr] at h; exact npIndex_error _ _ _ h

/-- `self._data[_convert_from_2d(iis)]` reads, pair by pair, the cells of the list of rows -/
theorem gather_eq {α} (ra : RA α) (h : WF ra) (pairs : List (Int × Int)) :
    gather ra pairs = mapE (cell (rows ra)) pairs := by
  simp only [gather, convertFrom2d]
  rw [mapE_comp_same (e0 := Err.indexError) (convertOne_error ra.lengths) (getNat_error ra.data)]
  exact mapE_congr (fun p _ => convertOne_getNat ra h p)

end Ens.Ragged
