import Proofs.C10Assign
import Proofs.C10Partition
/-! Lemmas for C10: `compute_batches` and the bookkeeping of `batch_reassign`. -/
namespace Ens.Assign

def BState.all (s : BState) : List (List Nat) := s.done ++ [s.curIdx]

theorem batchStep_flatten (B : Nat) (s : BState) (i l : Nat) :
    (batchStep B s i l).all.flatten = s.all.flatten ++ [i] := by
  simp only [batchStep, BState.all]
  split <;> simp

theorem batchLoop_flatten (B : Nat) (s : BState) (i : Nat) (ls : List Nat) :
    (batchLoop B s i ls).all.flatten = s.all.flatten ++ List.range' i ls.length := by
  induction ls generalizing s i with
  | nil => simp [batchLoop]
  | cons l ls ih =>
    simp only [batchLoop, ih, batchStep_flatten, List.length_cons, List.append_assoc]
    congr 1

theorem computeBatches_flatten (lens : List Nat) (B : Nat) :
    (computeBatches lens B).flatten = List.range lens.length := by
  have := batchLoop_flatten B ⟨[], [], []⟩ 0 lens
  simp only [BState.all] at this
  simp only [computeBatches, this, List.range_eq_range']
  simp

/-- every batch after the first is non-empty -/
def TailNonempty (bs : List (List Nat)) : Prop := ∀ b ∈ bs.tail, b ≠ []

theorem batchStep_tail (B : Nat) (s : BState) (i l : Nat) (h : TailNonempty s.all) :
    TailNonempty (batchStep B s i l).all := by
  simp only [batchStep]
  split
  · intro b hb
    simp only [BState.all] at hb h
    cases hd : s.done with
    | nil => simp [hd] at hb
    | cons d0 ds =>
      simp only [hd, List.cons_append, List.tail_cons, List.mem_append, List.mem_singleton] at hb
      rcases hb with hb | hb
      · exact h b (by simp [hd, hb])
      · subst hb; simp
  · intro b hb
    have e : (BState.all ⟨s.done ++ [s.curIdx], [l], [i]⟩) = s.all ++ [[i]] := by simp [BState.all]
    rw [e] at hb
    have hne : s.all ≠ [] := by simp [BState.all]
    rw [List.tail_append_of_ne_nil hne] at hb
    rcases List.mem_append.1 hb with hb | hb
    · exact h b hb
    · simp at hb; subst hb; simp

theorem batchLoop_tail (B : Nat) (s : BState) (i : Nat) (ls : List Nat) (h : TailNonempty s.all) :
    TailNonempty (batchLoop B s i ls).all := by
  induction ls generalizing s i with
  | nil => exact h
  | cons l ls ih => exact ih _ _ (batchStep_tail B s i l h)

theorem computeBatches_tail (lens : List Nat) (B : Nat) : TailNonempty (computeBatches lens B) := by
  have := batchLoop_tail B ⟨[], [], []⟩ 0 lens (by simp [TailNonempty, BState.all])
  exact this

theorem batchStep_allne (B : Nat) (s : BState) (i l : Nat) (h : ∀ b ∈ s.all, b ≠ []) :
    ∀ b ∈ (batchStep B s i l).all, b ≠ [] := by
  simp only [batchStep]
  split
  · intro b hb
    simp only [BState.all, List.mem_append, List.mem_singleton] at hb h
    rcases hb with hb | hb
    · exact h b (Or.inl hb)
    · subst hb; simp
  · intro b hb
    simp only [BState.all, List.mem_append, List.mem_singleton] at hb h
    rcases hb with (hb | hb) | hb
    · exact h b (Or.inl hb)
    · exact h b (Or.inr hb)
    · subst hb; simp

theorem batchLoop_allne (B : Nat) (s : BState) (i : Nat) (ls : List Nat) (h : ∀ b ∈ s.all, b ≠ []) :
    ∀ b ∈ (batchLoop B s i ls).all, b ≠ [] := by
  induction ls generalizing s i with
  | nil => exact h
  | cons l ls ih => exact ih _ _ (batchStep_allne B s i l h)

/-- no batch is empty (as soon as there is a trajectory) -/
theorem computeBatches_allne (l0 : Nat) (ls : List Nat) (B : Nat) :
    ∀ b ∈ computeBatches (l0 :: ls) B, b ≠ [] := by
  have : computeBatches (l0 :: ls) B = (batchLoop B ⟨[], [l0], [0]⟩ 1 ls).all := by
    simp [computeBatches, batchLoop, batchStep, BState.all]
  rw [this]
  exact batchLoop_allne B _ _ _ (by simp [BState.all])

/-! ### sizes: every batch is a single trajectory or shorter than the batch size -/

/-- a batch respects the limit: one trajectory, or combined length `< B` -/
def BatchFits (lens : List Nat) (B : Nat) (b : List Nat) : Prop :=
  b.length ≤ 1 ∨ (b.map fun t => lens.getD t 0).sum < B

structure SizeInv (lens : List Nat) (B : Nat) (s : BState) : Prop where
  sizes : s.curSizes = s.curIdx.map fun t => lens.getD t 0
  fits : ∀ b ∈ s.all, BatchFits lens B b

theorem batchStep_sizeInv (lens : List Nat) (B : Nat) (s : BState) (i l : Nat)
    (hl : lens.getD i 0 = l) (h : SizeInv lens B s) : SizeInv lens B (batchStep B s i l) := by
  obtain ⟨hs, hf⟩ := h
  subst hl
  simp only [batchStep]
  split
  · rename_i hlt
    refine ⟨by simp [hs], ?_⟩
    intro b hb
    simp only [BState.all, List.mem_append, List.mem_singleton] at hb hf
    rcases hb with hb | hb
    · exact hf b (Or.inl hb)
    · subst hb
      rcases hlt with hemp | hlt
      · left
        rw [hs] at hemp
        have : s.curIdx = [] := by simpa using hemp
        simp [this]
      · right
        rw [hs] at hlt
        simpa using hlt
  · refine ⟨by simp, ?_⟩
    intro b hb
    simp only [BState.all, List.mem_append, List.mem_singleton] at hb hf
    rcases hb with (hb | hb) | hb
    · exact hf b (Or.inl hb)
    · exact hf b (Or.inr hb)
    · subst hb; left; simp

theorem batchLoop_sizeInv (lens : List Nat) (B : Nat) (s : BState) (i : Nat) (ls : List Nat)
    (hls : lens.drop i = ls) (h : SizeInv lens B s) : SizeInv lens B (batchLoop B s i ls) := by
  induction ls generalizing s i with
  | nil => exact h
  | cons l ls ih =>
    have hi : lens.getD i 0 = l := by
      have : (lens.drop i)[0]? = some l := by rw [hls]; rfl
      rw [List.getElem?_drop] at this
      simp only [Nat.add_zero] at this
      simp [List.getD, this]
    have hd : lens.drop (i+1) = ls := by
      have : (lens.drop i).drop 1 = ls := by rw [hls]; rfl
      rwa [List.drop_drop] at this
    exact ih _ _ hd (batchStep_sizeInv lens B s i l hi h)

theorem computeBatches_fits (lens : List Nat) (B : Nat) :
    ∀ b ∈ computeBatches lens B, BatchFits lens B b := by
  have := batchLoop_sizeInv lens B ⟨[], [], []⟩ 0 lens (by simp)
    ⟨by simp, by simp [BState.all, BatchFits]⟩
  exact this.fits

/-! ### `batch_reassign` -/

/-- label and distance of the whole-data sweep for every frame of trajectory `t` -/
def pieceOf (D : Nat → Nat → Rat) (lens : List Nat) (k t : Nat) : List (Nat × ERat) :=
  (List.range (lens.getD t 0)).map fun j =>
    ((sweep D k).lab (startOf lens t + j), (sweep D k).dist (startOf lens t + j))

theorem map_range_getD {β} (l : List Nat) (h : Nat → β) :
    (List.range l.length).map (fun p => h (l.getD p 0)) = l.map h := by
  apply List.ext_getElem
  · simp
  · intro i h1 h2
    simp at h1
    simp [List.getD, h1]

theorem reassignBatch_ok (D : Nat → Nat → Rat) (lens : List Nat) (k : Nat) (x : Bool)
    (batch : List Nat) (hne : batch ≠ []) :
    reassignBatch D lens k x batch = .ok (batch.map (pieceOf D lens k)) := by
  cases batch with
  | nil => exact absurd rfl hne
  | cons b0 bs =>
    simp only [reassignBatch]
    generalize hfr : batchFrames lens (b0 :: bs) = frames
    have hpt : ∀ p, ((assignNearest (fun p c => D (frames.getD p 0) c) frames.length k x).lab p,
        (assignNearest (fun p c => D (frames.getD p 0) c) frames.length k x).dist p) =
        ((sweep D k).lab (frames.getD p 0), (sweep D k).dist (frames.getD p 0)) := by
      intro p
      have h1 := assignNearest_eq_sweep (fun p c => D (frames.getD p 0) c) frames.length k x p
      have h2 := sweep_pointwise (fun p c => D (frames.getD p 0) c) D p (frames.getD p 0)
        (fun c => rfl) k
      rw [h1.1, h1.2, h2.1, h2.2]
    have htab : tabulate frames.length (fun p =>
        ((assignNearest (fun p c => D (frames.getD p 0) c) frames.length k x).lab p,
         (assignNearest (fun p c => D (frames.getD p 0) c) frames.length k x).dist p)) =
        frames.map (fun g => ((sweep D k).lab g, (sweep D k).dist g)) := by
      simp only [tabulate, hpt]
      exact map_range_getD frames (fun g => ((sweep D k).lab g, (sweep D k).dist g))
    rw [htab]
    have hflat : frames.map (fun g => ((sweep D k).lab g, (sweep D k).dist g)) =
        ((b0 :: bs).map (pieceOf D lens k)).flatten := by
      rw [← hfr, batchFrames, List.map_flatten, List.map_map]
      congr 1
      apply List.map_congr_left
      intro t _
      simp [pieceOf]
    have hlen : (b0 :: bs).map (fun t => lens.getD t 0) =
        ((b0 :: bs).map (pieceOf D lens k)).map List.length := by
      rw [List.map_map]
      apply List.map_congr_left
      intro t _
      simp [pieceOf]
    rw [hflat, hlen]
    exact partitionList_flatten_self _

theorem reassignBatches_ok (D : Nat → Nat → Rat) (lens : List Nat) (k : Nat) (x : Bool)
    (bs : List (List Nat)) (hne : ∀ b ∈ bs, b ≠ []) :
    reassignBatches D lens k x bs = .ok (bs.flatten.map (pieceOf D lens k)) := by
  induction bs with
  | nil => rfl
  | cons b bs ih =>
    simp only [reassignBatches, reassignBatch_ok D lens k x b (hne b (by simp)),
      ih (fun b' hb' => hne b' (by simp [hb'])), List.flatten_cons, List.map_append]

theorem listMax_le (lens : List Nat) (m : Nat) (h : listMax lens = some m) :
    ∀ l ∈ lens, l ≤ m := by
  cases lens with
  | nil => simp [listMax] at h
  | cons a as =>
    simp only [listMax, Option.some.injEq] at h
    have gen : ∀ (as : List Nat) (a : Nat), a ≤ as.foldl max a ∧ ∀ l ∈ as, l ≤ as.foldl max a := by
      intro as
      induction as with
      | nil => simp
      | cons b bs ih =>
        intro a
        simp only [List.foldl_cons]
        obtain ⟨h1, h2⟩ := ih (max a b)
        refine ⟨by omega, ?_⟩
        intro l hl
        rcases List.mem_cons.1 hl with hl | hl
        · subst hl; omega
        · exact h2 l hl
    obtain ⟨h1, h2⟩ := gen as a
    intro l hl
    rcases List.mem_cons.1 hl with hl | hl
    · subst hl; omega
    · have := h2 l hl; omega

theorem listMax_mem (lens : List Nat) (m : Nat) (h : listMax lens = some m) : m ∈ lens := by
  cases lens with
  | nil => simp [listMax] at h
  | cons a as =>
    simp only [listMax, Option.some.injEq] at h
    have gen : ∀ (as : List Nat) (a : Nat), as.foldl max a = a ∨ as.foldl max a ∈ as := by
      intro as
      induction as with
      | nil => simp
      | cons b bs ih =>
        intro a
        simp only [List.foldl_cons]
        rcases ih (max a b) with h | h
        · rw [h]
          by_cases hab : a ≤ b
          · right; simp [Nat.max_eq_right hab]
          · left; exact Nat.max_eq_left (by omega)
        · right; simp [h]
    subst h
    rcases gen as a with h | h
    · simp [h]
    · simp [h]

end Ens.Assign
