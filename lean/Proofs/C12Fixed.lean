import Proofs.C12Sweep

/-! A sweep that leaves `X` unchanged leaves it unchanged at every single step; hence the
Prinz self-consistency equations hold at such a state. -/

set_option linter.unusedSectionVars false

namespace Ens.C12P
open Ens Ens.Mle

variable {K : Type} [Field K] [LinearOrder K] [IsStrictOrderedRing K] {n : Nat}

theorem vec_ext {α : Type} {x y : Vec α n} (h : ∀ i, vget x i = vget y i) : x = y := by
  apply Vector.ext
  intro i hi
  exact h ⟨i, hi⟩

theorem mat_ext {α : Type} {X Y : Mat α n} (h : ∀ i j, mget X i j = mget Y i j) : X = Y := by
  apply Vector.ext
  intro i hi
  apply Vector.ext
  intro j hj
  exact h ⟨i, hi⟩ ⟨j, hj⟩

theorem st_ext {st st' : St K n} (hX : ∀ i j, mget st.X i j = mget st'.X i j)
    (hr : ∀ i, vget st.rs i = vget st'.rs i) : st = st' := by
  cases st; cases st'
  simp only [St.mk.injEq]
  exact ⟨mat_ext hX, vec_ext hr⟩

/-! ### the state part of the two phases -/

def diagFoldSt (C : Mat K n) (Crs : Vec K n) (l : List (Fin n)) (st : St K n) : St K n :=
  l.foldl (fun st i => diagStep C Crs st i) st

theorem diagFold_fst {log : K → K} {C : Mat K n} {Crs : Vec K n} (l : List (Fin n))
    (p : St K n × K) :
    (l.foldl (fun p i =>
      let st' := diagStep C Crs p.1 i
      (st', diagLogl log C st' i p.2)) p).1 = diagFoldSt C Crs l p.1 := by
  induction l generalizing p with
  | nil => rfl
  | cons i rest ih => simp only [List.foldl_cons, diagFoldSt]; exact ih _

def pairFoldSt (sqrt : K → K) (C : Mat K n) (Crs : Vec K n) :
    List (Fin n × Fin n) → St K n → Except Err (St K n)
  | [], st => .ok st
  | (i, j) :: rest, st =>
    match pairStep sqrt C Crs st i j with
    | .error e => .error e
    | .ok st' => pairFoldSt sqrt C Crs rest st'

theorem pairPhaseOn_fst {sqrt log : K → K} {C : Mat K n} {Crs : Vec K n}
    (l : List (Fin n × Fin n)) (p q : St K n × K)
    (h : pairPhaseOn sqrt log C Crs l p = .ok q) : pairFoldSt sqrt C Crs l p.1 = .ok q.1 := by
  induction l generalizing p with
  | nil => simp only [pairPhaseOn] at h; injection h with h; subst h; rfl
  | cons ij rest ih =>
    obtain ⟨i, j⟩ := ij
    simp only [pairPhaseOn] at h
    simp only [pairFoldSt]
    cases hst : pairStep sqrt C Crs p.1 i j with
    | error e => rw [hst] at h; cases h
    | ok st' => rw [hst] at h; exact ih _ h

/-! ### which entries a step can change -/

theorem diagStep_other (C : Mat K n) (Crs : Vec K n) (st : St K n) (i a b : Fin n)
    (h : ¬ (a = i ∧ b = i)) : mget (diagStep C Crs st i).X a b = mget st.X a b := by
  unfold diagStep
  dsimp only
  split
  · simp only [mget_mset, h, if_false]
  · rfl

theorem diagFoldSt_other (C : Mat K n) (Crs : Vec K n) (l : List (Fin n)) (st : St K n)
    (a b : Fin n) (h : ¬ (a = b ∧ a ∈ l)) :
    mget (diagFoldSt C Crs l st).X a b = mget st.X a b := by
  induction l generalizing st with
  | nil => rfl
  | cons i rest ih =>
    simp only [diagFoldSt, List.foldl_cons]
    have h1 : ¬ (a = b ∧ a ∈ rest) := fun ⟨x, y⟩ => h ⟨x, List.mem_cons_of_mem _ y⟩
    have h2 : ¬ (a = i ∧ b = i) := fun ⟨x, y⟩ => h ⟨x.trans y.symm, x ▸ List.mem_cons_self⟩
    have := ih (diagStep C Crs st i) h1
    simp only [diagFoldSt] at this
    rw [this, diagStep_other C Crs st i a b h2]

theorem pairStep_other {sqrt : K → K} {C : Mat K n} {Crs : Vec K n} {st st' : St K n}
    {i j : Fin n} (hst : pairStep sqrt C Crs st i j = .ok st') (a b : Fin n)
    (h1 : ¬ (a = i ∧ b = j)) (h2 : ¬ (a = j ∧ b = i)) : mget st'.X a b = mget st.X a b := by
  unfold pairStep at hst
  dsimp only at hst
  split at hst
  · injection hst with hst
    subst hst
    simp only [mget_mset, h1, h2, if_false]
  · cases hst

theorem pairFoldSt_other {sqrt : K → K} {C : Mat K n} {Crs : Vec K n}
    (l : List (Fin n × Fin n)) (st st' : St K n) (hst : pairFoldSt sqrt C Crs l st = .ok st')
    (a b : Fin n) (h1 : (a, b) ∉ l) (h2 : (b, a) ∉ l) : mget st'.X a b = mget st.X a b := by
  induction l generalizing st with
  | nil => simp only [pairFoldSt] at hst; injection hst with hst; subst hst; rfl
  | cons ij rest ih =>
    obtain ⟨i, j⟩ := ij
    simp only [pairFoldSt] at hst
    cases hs1 : pairStep sqrt C Crs st i j with
    | error e => rw [hs1] at hst; cases hst
    | ok st1 =>
      rw [hs1] at hst
      have e1 : ¬ (a = i ∧ b = j) := fun ⟨x, y⟩ => h1 (by rw [x, y]; exact List.mem_cons_self)
      have e2 : ¬ (a = j ∧ b = i) := fun ⟨x, y⟩ => h2 (by rw [x, y]; exact List.mem_cons_self)
      rw [ih st1 hst (fun h => h1 (List.mem_cons_of_mem _ h)) (fun h => h2 (List.mem_cons_of_mem _ h)),
        pairStep_other hs1 a b e1 e2]

/-! ### a step that writes the old value is the identity -/

theorem diagStep_eq_self {C : Mat K n} {Crs : Vec K n} {st : St K n} (i : Fin n)
    (h : mget (diagStep C Crs st i).X i i = mget st.X i i) : diagStep C Crs st i = st := by
  apply st_ext
  · intro a b
    by_cases hab : a = i ∧ b = i
    · obtain ⟨rfl, rfl⟩ := hab; exact h
    · exact diagStep_other C Crs st i a b hab
  · intro a
    have : vget (diagStep C Crs st i).rs a
        = if a = i then vget st.rs i + (mget (diagStep C Crs st i).X i i - mget st.X i i)
          else vget st.rs a := by
      unfold diagStep
      dsimp only
      rw [vget_vset]
    rw [this, h]
    by_cases ha : a = i
    · subst ha; simp
    · simp [ha]

theorem pairStep_eq_self {sqrt : K → K} {C : Mat K n} {Crs : Vec K n} (hD : Data C Crs)
    {st : St K n} (h : Inv st) {i j : Fin n} (hij : i ≠ j)
    (hv : newV sqrt C Crs st i j = mget st.X i j) :
    pairStep sqrt C Crs st i j = .ok st := by
  rw [pairStep_ok hD h i j]
  congr 1
  apply st_ext
  · intro a b
    simp only [mget_mset, hv]
    by_cases h1 : a = j ∧ b = i
    · obtain ⟨rfl, rfl⟩ := h1; simp only [and_self, if_true]; exact h.symm _ _
    · by_cases h2 : a = i ∧ b = j
      · obtain ⟨rfl, rfl⟩ := h2; simp only [h1, if_false, and_self, if_true]
      · simp only [h1, h2, if_false]
  · intro a
    simp only [vget_vset, hv, h.symm j i]
    by_cases h1 : a = j
    · subst h1; simp [Ne.symm hij]
    · by_cases h2 : a = i
      · subst h2; simp [h1]
      · simp [h1, h2]

/-! ### fixed sweeps -/

theorem diagFold_fixed {C : Mat K n} {Crs : Vec K n} (l : List (Fin n)) (hl : l.Nodup)
    (st : St K n) (hfix : ∀ i ∈ l, mget (diagFoldSt C Crs l st).X i i = mget st.X i i) :
    (∀ i ∈ l, diagStep C Crs st i = st) ∧ diagFoldSt C Crs l st = st := by
  induction l with
  | nil => exact ⟨fun _ h => absurd h List.not_mem_nil, rfl⟩
  | cons i rest ih =>
    have hnd := List.nodup_cons.1 hl
    have hstep : diagStep C Crs st i = st := by
      apply diagStep_eq_self
      have := hfix i List.mem_cons_self
      simp only [diagFoldSt, List.foldl_cons] at this
      have h2 := diagFoldSt_other C Crs rest (diagStep C Crs st i) i i (fun ⟨_, y⟩ => hnd.1 y)
      simp only [diagFoldSt] at h2
      rw [h2] at this
      exact this
    have hfold : diagFoldSt C Crs (i :: rest) st = diagFoldSt C Crs rest st := by
      simp only [diagFoldSt, List.foldl_cons, hstep]
    obtain ⟨h1, h2⟩ := ih hnd.2 (fun k hk => by
      have := hfix k (List.mem_cons_of_mem _ hk)
      rw [hfold] at this; exact this)
    refine ⟨?_, by rw [hfold, h2]⟩
    intro k hk
    rcases List.mem_cons.1 hk with rfl | hk
    · exact hstep
    · exact h1 k hk

theorem pairFold_fixed {sqrt : K → K} {C : Mat K n} {Crs : Vec K n} (hD : Data C Crs)
    (l : List (Fin n × Fin n)) (hl : l.Nodup) (hlt : ∀ p ∈ l, p.1 < p.2)
    (st st' : St K n) (h : Inv st) (hrun : pairFoldSt sqrt C Crs l st = .ok st')
    (hfix : ∀ p ∈ l, mget st'.X p.1 p.2 = mget st.X p.1 p.2) :
    ∀ p ∈ l, newV sqrt C Crs st p.1 p.2 = mget st.X p.1 p.2 := by
  induction l with
  | nil => exact fun _ h => absurd h List.not_mem_nil
  | cons ij rest ih =>
    obtain ⟨i, j⟩ := ij
    have hnd := List.nodup_cons.1 hl
    have hij : i < j := hlt (i, j) List.mem_cons_self
    have hne : i ≠ j := ne_of_lt hij
    simp only [pairFoldSt, pairStep_ok hD h i j] at hrun
    -- value written at (i,j) survives the rest of the phase
    have hji : (j, i) ∉ rest := fun hmem => by
      have := hlt (j, i) (List.mem_cons_of_mem _ hmem)
      exact absurd hij (not_lt.2 (le_of_lt this))
    have hkeep := pairFoldSt_other rest _ st' hrun i j hnd.1 hji
    have hv : newV sqrt C Crs st i j = mget st.X i j := by
      have := hfix (i, j) List.mem_cons_self
      simp only at this
      rw [hkeep] at this
      simp only [mget_mset] at this
      have e : ¬ (i = j ∧ j = i) := fun ⟨x, _⟩ => hne x
      simpa only [e, if_false, and_self, if_true] using this
    have hself := pairStep_eq_self hD h hne hv
    rw [pairStep_ok hD h i j] at hself
    injection hself with hself
    rw [hself] at hrun
    intro p hp
    rcases List.mem_cons.1 hp with rfl | hp
    · exact hv
    · exact ih hnd.2 (fun q hq => hlt q (List.mem_cons_of_mem _ hq)) hrun
        (fun q hq => hfix q (List.mem_cons_of_mem _ hq)) p hp

theorem pairs_nodup (n : Nat) : (pairs n).Nodup := by
  unfold pairs
  rw [List.nodup_flatMap]
  constructor
  · intro i _
    apply List.Nodup.map
    · intro a b h; injection h
    · exact (List.nodup_finRange n).filter _
  · apply List.Nodup.pairwise_of_forall_ne (List.nodup_finRange n)
    intro a _ b _ hab p hp1 hp2
    simp only [List.mem_map, List.mem_filter] at hp1 hp2
    obtain ⟨_, _, rfl⟩ := hp1
    obtain ⟨_, _, h⟩ := hp2
    injection h with h1 _
    exact hab h1.symm

/-- `fixed_point_prinz`: if a sweep returns the same `X`, then every update wrote the value
that was already there; consequently the diagonal and pair Prinz equations hold. -/
theorem sweep_fixed {sqrt log : K → K} {C : Mat K n} {Crs : Vec K n}
    (hD : Data C Crs) {st : St K n} (h : Inv st) {q : St K n × K}
    (hsw : sweep sqrt log C Crs st = .ok q) (hX : q.1.X = st.X) :
    (∀ i, diagStep C Crs st i = st) ∧
    (∀ i j, i < j → newV sqrt C Crs st i j = mget st.X i j) := by
  unfold sweep at hsw
  have hpf := pairPhaseOn_fst _ _ _ hsw
  unfold diagPhase at hpf
  rw [diagFold_fst] at hpf
  simp only at hpf
  -- diagonal entries are not touched by the pair phase
  have hdiagfix : ∀ i ∈ List.finRange n,
      mget (diagFoldSt C Crs (List.finRange n) st).X i i = mget st.X i i := by
    intro i _
    have := pairFoldSt_other _ _ _ hpf i i
      (fun hm => absurd (pairs_lt hm) (lt_irrefl _)) (fun hm => absurd (pairs_lt hm) (lt_irrefl _))
    rw [← this, hX]
  obtain ⟨hd1, hd2⟩ := diagFold_fixed (List.finRange n) (List.nodup_finRange n) st hdiagfix
  rw [hd2] at hpf
  refine ⟨fun i => hd1 i (List.mem_finRange i), ?_⟩
  have := pairFold_fixed hD (pairs n) (pairs_nodup n) (fun p hp => pairs_lt hp) st q.1 h hpf
    (fun p _ => by rw [hX])
  intro i j hij
  exact this (i, j) (mem_pairs hij)

end Ens.C12P
