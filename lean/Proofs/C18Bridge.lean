import Model.Info
import Proofs.C18RealMI
import Mathlib.Data.Rat.Cast.Order
import Mathlib.Data.Rat.Cast.CharZero
import Mathlib.Data.Real.Basic
import Mathlib.Algebra.BigOperators.Field
/-!
Bridge between the executable term lists of `Model.Info` (what the driver prints, what the
correspondence check evaluates with libm) and the real-valued finite sums of `Proofs.C18RealMI`.
`termsVal l = Σ_{(c,x) ∈ l} c · log x`.
-/
namespace Ens.InfoR
open Finset Ens Ens.Info

noncomputable def termVal (t : Term) : ℝ := (t.1 : ℝ) * Real.log (t.2 : ℝ)
noncomputable def termsVal (l : List Term) : ℝ := (l.map termVal).sum

theorem sumTo_eq_sum (n : ℕ) (f : ℕ → ℕ) : sumTo n f = ∑ k ∈ range n, f k := by
  induction n with
  | zero => rfl
  | succ k ih => rw [Finset.sum_range_succ, ← ih]; rfl

theorem sum_flatMap_range (n : ℕ) (f : ℕ → List ℝ) :
    ((List.range n).flatMap f).sum = ∑ u ∈ range n, (f u).sum := by
  induction n with
  | zero => simp
  | succ k ih =>
    rw [List.range_succ, List.flatMap_append, List.sum_append, ih, Finset.sum_range_succ]
    simp

theorem sum_filterMap_range (n : ℕ) (g : ℕ → Option ℝ) :
    ((List.range n).filterMap g).sum = ∑ v ∈ range n, (g v).getD 0 := by
  induction n with
  | zero => simp
  | succ k ih =>
    rw [List.range_succ, List.filterMap_append, List.sum_append, ih, Finset.sum_range_succ]
    cases h : g k <;> simp [h]

/-- probability table of a count table: `P_uv = c_uv / N` -/
noncomputable def probTable (c : ℕ → ℕ → ℕ) (nA nB : ℕ) : ℕ → ℕ → ℝ :=
  fun u v => (c u v : ℝ) / (total c nA nB : ℝ)

theorem gdiv_cast (k N : ℕ) : ((gdiv k N : ℚ) : ℝ) = (k : ℝ) / (N : ℝ) := by
  unfold gdiv
  by_cases h : N > 0
  · simp [h]
  · have : N = 0 := by omega
    subst this; simp

theorem rowS_probTable (c : ℕ → ℕ → ℕ) (nA nB u : ℕ) :
    rowS (probTable c nA nB) nB u = (rowSum c nB u : ℝ) / (total c nA nB : ℝ) := by
  unfold rowS probTable rowSum
  rw [← Finset.sum_div, sumTo_eq_sum, Nat.cast_sum]

theorem colS_probTable (c : ℕ → ℕ → ℕ) (nA nB v : ℕ) :
    colS (probTable c nA nB) nA v = (colSum c nA v : ℝ) / (total c nA nB : ℝ) := by
  unfold colS probTable colSum
  rw [← Finset.sum_div, sumTo_eq_sum, Nat.cast_sum]

theorem miCell_val (c : ℕ → ℕ → ℕ) (nA nB u v : ℕ) :
    ((miCell c nA nB u v).map termVal).getD 0
      = probTable c nA nB u v *
          Real.log (probTable c nA nB u v / (rowS (probTable c nA nB) nB u * colS (probTable c nA nB) nA v)) := by
  rw [rowS_probTable, colS_probTable]
  unfold miCell probTable
  simp only
  by_cases h : gdiv (c u v) (total c nA nB) = 0 ∨ gdiv (rowSum c nB u) (total c nA nB) = 0 ∨
      gdiv (colSum c nA v) (total c nA nB) = 0
  · rw [if_pos h]
    simp only [Option.map_none, Option.getD_none]
    rcases h with h | h | h
    · have := congrArg (fun q : ℚ => (q : ℝ)) h
      simp only [gdiv_cast, Rat.cast_zero] at this
      rw [this]; simp
    · have := congrArg (fun q : ℚ => (q : ℝ)) h
      simp only [gdiv_cast, Rat.cast_zero] at this
      rw [this]; simp
    · have := congrArg (fun q : ℚ => (q : ℝ)) h
      simp only [gdiv_cast, Rat.cast_zero] at this
      rw [this]; simp
  · rw [if_neg h]
    simp only [Option.map_some, Option.getD_some, termVal, Rat.cast_div, Rat.cast_mul, gdiv_cast]

/-- the value of the model's term list is the mutual information of the probability table -/
theorem miTerms_val (c : ℕ → ℕ → ℕ) (nA nB : ℕ) :
    termsVal (miTerms c nA nB) = miF (probTable c nA nB) nA nB := by
  unfold termsVal miTerms miF
  rw [List.map_flatMap, sum_flatMap_range]
  apply Finset.sum_congr rfl; intro u _
  rw [List.map_filterMap, sum_filterMap_range]
  apply Finset.sum_congr rfl; intro v _
  exact miCell_val c nA nB u v

theorem probTable_nonneg (c : ℕ → ℕ → ℕ) (nA nB u v : ℕ) : 0 ≤ probTable c nA nB u v := by
  unfold probTable; positivity

theorem total_cast (c : ℕ → ℕ → ℕ) (nA nB : ℕ) :
    (total c nA nB : ℝ) = ∑ u ∈ range nA, ∑ v ∈ range nB, (c u v : ℝ) := by
  unfold total rowSum
  rw [sumTo_eq_sum, Nat.cast_sum]
  apply Finset.sum_congr rfl; intro u _
  rw [sumTo_eq_sum, Nat.cast_sum]

theorem probTable_mass (c : ℕ → ℕ → ℕ) (nA nB : ℕ) :
    ∑ u ∈ range nA, rowS (probTable c nA nB) nB u ≤ 1 := by
  unfold rowS probTable
  simp_rw [← Finset.sum_div]
  rw [← total_cast]
  exact div_self_le_one _

/-- `mi ≥ 0` for every count table -/
theorem miTerms_nonneg (c : ℕ → ℕ → ℕ) (nA nB : ℕ) : 0 ≤ termsVal (miTerms c nA nB) := by
  rw [miTerms_val]
  exact miF_nonneg _ nA nB (fun u _ v _ => probTable_nonneg c nA nB u v) (probTable_mass c nA nB)

end Ens.InfoR
