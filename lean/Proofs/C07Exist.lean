import Mathlib.LinearAlgebra.Matrix.NonsingularInverse
import Proofs.C07Uniq
/-!
C07: existence of the solver outputs.  Under the ergodicity hypotheses `I − Q` is non-singular: uniqueness
(`absorbing_unique`, maximum principle) makes `v ↦ (I−Q) v` injective on `Fin n → ℚ`, hence the matrix is a unit
(finite square system over a field), hence surjective — every right-hand side has a solution.
-/
open Finset

namespace Ens.Tpt
open LinSolveT

/-- the `n × n` block of an index-function matrix as a Mathlib matrix -/
def toMatrix (n : Nat) (A : Mat) : Matrix (Fin n) (Fin n) ℚ := fun i j => A i.val j.val

/-- extend a `Fin n` vector by zero -/
def ext0 {n : Nat} (v : Fin n → ℚ) : Vec := fun i => if h : i < n then v ⟨i, h⟩ else 0

theorem sum_range_ext0 {n : Nat} (a : Nat → ℚ) (v : Fin n → ℚ) :
    ∑ j ∈ range n, a j * ext0 v j = ∑ j : Fin n, a j.val * v j := by
  rw [Finset.sum_range]
  exact Finset.sum_congr rfl fun j _ => by simp [ext0]

theorem isSolution_ext0_iff {n : Nat} (A : Mat) (v b : Fin n → ℚ) :
    IsSolution n 1 A (fun i _ => ext0 v i) (fun i _ => ext0 b i) ↔ (toMatrix n A).mulVec v = b := by
  rw [isSolution_iff]
  constructor
  · intro h
    funext i
    have := h i.val i.isLt 0 Nat.zero_lt_one
    rw [sum_range_ext0] at this
    simpa [Matrix.mulVec, dotProduct, toMatrix, ext0] using this
  · intro h i hi k _
    rw [sum_range_ext0]
    have := congrFun h ⟨i, hi⟩
    simpa [Matrix.mulVec, dotProduct, toMatrix, ext0, hi] using this

/-- `I − Q` is non-singular under the ergodicity hypotheses. -/
theorem ImQ_isUnit {n : Nat} {T : Mat} {S : List Nat}
    (hS : ∀ s ∈ S, s < n)
    (hnn : ∀ i, i < n → ∀ j, j < n → 0 ≤ T i j)
    (hrow : ∀ i, i < n → ∑ j ∈ range n, T i j = 1)
    (hreach : ∀ i, i < n → Reach n T S i) :
    IsUnit (toMatrix n (ImQ T S)) := by
  rw [← Matrix.mulVec_injective_iff_isUnit]
  intro v w hvw
  have hv := (isSolution_ext0_iff (ImQ T S) v _).2 rfl
  have hw := (isSolution_ext0_iff (ImQ T S) w ((toMatrix n (ImQ T S)).mulVec v)).2 hvw.symm
  have := absorbing_unique hS hnn hrow hreach hv hw
  funext i
  have h := this i.val i.isLt
  simpa [ext0] using h

/-- every right-hand side `R` (any number of columns) has a solution `B` of `(I−Q) B = R` -/
theorem absorbing_exists {n : Nat} {T : Mat} {S : List Nat}
    (hS : ∀ s ∈ S, s < n)
    (hnn : ∀ i, i < n → ∀ j, j < n → 0 ≤ T i j)
    (hrow : ∀ i, i < n → ∑ j ∈ range n, T i j = 1)
    (hreach : ∀ i, i < n → Reach n T S i) (m : Nat) (R : Mat) :
    ∃ B : Mat, IsSolution n m (ImQ T S) B R := by
  have hsurj := Matrix.mulVec_surjective_iff_isUnit.2 (ImQ_isUnit hS hnn hrow hreach)
  choose sol hsol using fun k : Nat => hsurj (fun i : Fin n => R i.val k)
  refine ⟨fun i k => ext0 (sol k) i, ?_⟩
  rw [isSolution_iff]
  intro i hi k _
  rw [sum_range_ext0]
  have := congrFun (hsol k) ⟨i, hi⟩
  simpa [Matrix.mulVec, dotProduct, toMatrix] using this

end Ens.Tpt
