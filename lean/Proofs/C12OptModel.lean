import Proofs.C12Final
import Proofs.C12Opt
import Mathlib.Analysis.Real.Sqrt

/-!
# C12 optimality, tied to the model

* `prinz_all`: at a state where a sweep changes nothing, the Prinz equations hold for **all**
  pairs `i j` (including `i = j` and the pairs the code skips with its `a == 0` guard), provided
  a pair with `a = 0` — two states whose only counts go to each other — is the whole state space
  (true for strongly connected count matrices, proved in `Props/C12.lean`).
* `optimal_of_prinz`: a state satisfying the Prinz equations maximises the log-likelihood over
  all reversible row-stochastic matrices of finite likelihood (`Ens.C12Opt.loglik_le`).
* `fixed_example`: a concrete non-symmetric 2×2 count matrix with a rational fixed point.
-/

set_option linter.unusedSectionVars false

namespace Ens.C12P
open Ens Ens.Mle

section field
variable {K : Type} [Field K] [LinearOrder K] [IsStrictOrderedRing K] {n : Nat}

/-- every state has an off-diagonal count, so `C_rs[i] - C[i,i] > 0` -/
theorem Conn.offdiag_pos {C : Mat K n} {Crs : Vec K n} (hD : Data C Crs) (hc : Conn C)
    (i : Fin n) : 0 < vget Crs i - mget C i i := by
  obtain ⟨k, hk, hpos⟩ := hc.out i
  have := pair_le_sum (fun l => mget C i l) (hD.nonneg i) (Ne.symm hk)
  rw [← hD.crs i] at this
  linarith

theorem Conn.crs_pos {C : Mat K n} {Crs : Vec K n} (hD : Data C Crs) (hc : Conn C)
    (i : Fin n) : 0 < vget Crs i := by
  have := hc.offdiag_pos hD i
  have := hD.nonneg i i
  linarith

/-- `a = 0` for the pair `(i, j)`: all counts of `i` go to `j` and all counts of `j` go to `i` -/
theorem coefA_zero {C : Mat K n} {Crs : Vec K n} (hD : Data C Crs) {i j : Fin n}
    (ha : coefA C Crs i j = 0) :
    vget Crs i = mget C i j ∧ vget Crs j = mget C j i ∧
    (∀ k, k ≠ j → mget C i k = 0) ∧ (∀ k, k ≠ i → mget C j k = 0) := by
  unfold coefA at ha
  have h1 := hD.le_crs i j
  have h2 := hD.le_crs j i
  have e1 : vget Crs i = mget C i j := by linarith
  have e2 : vget Crs j = mget C j i := by linarith
  refine ⟨e1, e2, ?_, ?_⟩
  · intro k hk
    have := pair_le_sum (fun l => mget C i l) (hD.nonneg i) (Ne.symm hk)
    rw [← hD.crs i] at this
    have := hD.nonneg i k
    linarith
  · intro k hk
    have := pair_le_sum (fun l => mget C j l) (hD.nonneg j) (Ne.symm hk)
    rw [← hD.crs j] at this
    have := hD.nonneg j k
    linarith

/-- The Prinz equations in their uniform shape, for every pair of states, from the two
families that `fixed_point_prinz` delivers. -/
theorem prinz_all {C : Mat K n} {Crs : Vec K n} (hD : Data C Crs) (hc : Conn C)
    {st : St K n} (h : Inv st)
    (hA : ∀ i j : Fin n, i ≠ j → coefA C Crs i j = 0 → ∀ k, k = i ∨ k = j)
    (hdiag : ∀ i, 0 < vget Crs i - mget C i i →
      mget st.X i i * vget Crs i = mget C i i * vget st.rs i)
    (hpair : ∀ i j, i ≠ j → coefA C Crs i j ≠ 0 →
      (mget C i j + mget C j i) * vget st.rs i * vget st.rs j
        = mget st.X i j * (vget Crs i * vget st.rs j + vget Crs j * vget st.rs i))
    (i j : Fin n) :
    (mget C i j + mget C j i) * vget st.rs i * vget st.rs j
      = mget st.X i j * (vget Crs i * vget st.rs j + vget Crs j * vget st.rs i) := by
  by_cases hij : i = j
  · subst hij
    have := hdiag i (hc.offdiag_pos hD i)
    linear_combination (-2 * vget st.rs i) * this
  · by_cases ha : coefA C Crs i j = 0
    · have hU := hA i j hij ha
      obtain ⟨e1, e2, z1, z2⟩ := coefA_zero hD ha
      have hji : j ≠ i := Ne.symm hij
      have hXii : mget st.X i i = 0 := by
        have := hdiag i (hc.offdiag_pos hD i)
        rw [z1 i hij, zero_mul] at this
        rcases mul_eq_zero.1 this with h0 | h0
        · exact h0
        · exact absurd h0 (ne_of_gt (hc.crs_pos hD i))
      have hXjj : mget st.X j j = 0 := by
        have := hdiag j (hc.offdiag_pos hD j)
        rw [z2 j hji, zero_mul] at this
        rcases mul_eq_zero.1 this with h0 | h0
        · exact h0
        · exact absurd h0 (ne_of_gt (hc.crs_pos hD j))
      have hri : vget st.rs i = mget st.X i j := by
        rw [h.rs i, Finset.sum_eq_add i j hij
          (fun c _ hcc => by rcases hU c with r | r <;> [exact absurd r hcc.1; exact absurd r hcc.2])
          (fun hn => absurd (Finset.mem_univ i) hn) (fun hn => absurd (Finset.mem_univ j) hn),
          hXii, zero_add]
      have hrj : vget st.rs j = mget st.X i j := by
        rw [h.rs j, Finset.sum_eq_add i j hij
          (fun c _ hcc => by rcases hU c with r | r <;> [exact absurd r hcc.1; exact absurd r hcc.2])
          (fun hn => absurd (Finset.mem_univ i) hn) (fun hn => absurd (Finset.mem_univ j) hn),
          hXjj, add_zero, h.symm j i]
      rw [hri, hrj, e1, e2]
      ring
    · exact hpair i j hij ha

/-- a sweep that changes nothing ⇒ the Prinz equations for all pairs -/
theorem prinz_of_fixed {sqrt log : K → K} (hs : SqrtSpec sqrt) {C : Mat K n} {Crs : Vec K n}
    (hD : Data C Crs) (hc : Conn C) {st : St K n} (h : Inv st)
    (hA : ∀ i j : Fin n, i ≠ j → coefA C Crs i j = 0 → ∀ k, k = i ∨ k = j)
    {q : St K n × K} (hsw : sweep sqrt log C Crs st = .ok q) (hX : q.1.X = st.X) (i j : Fin n) :
    (mget C i j + mget C j i) * vget st.rs i * vget st.rs j
      = mget st.X i j * (vget Crs i * vget st.rs j + vget Crs j * vget st.rs i) := by
  obtain ⟨hd, hp⟩ := sweep_fixed hD h hsw hX
  apply prinz_all hD hc h hA
  · intro i hden
    apply diag_fixed_eq i hden
    rw [hd i]
  · intro i j hij ha
    rcases lt_or_gt_of_ne hij with hlt | hgt
    · exact pair_fixed_eq hs hD h i j ha (hp i j hlt)
    · have ha' : coefA C Crs j i ≠ 0 := by
        unfold coefA at ha ⊢; rw [add_comm]; exact ha
      have := pair_fixed_eq hs hD h j i ha' (hp j i hgt)
      rw [h.symm i j]
      linear_combination this

/-- `C_rs` is determined by `C` -/
theorem Data.crs_unique {C : Mat K n} {Crs Crs' : Vec K n} (h : Data C Crs) (h' : Data C Crs') :
    Crs = Crs' :=
  vec_ext (fun i => by rw [h.crs i, h'.crs i])

end field

/-! ### over ℝ -/

section real
variable {n : Nat}

/-- A state satisfying the Prinz equations is a reversible maximum-likelihood estimate: its
`X / rowsum` has log-likelihood at least that of every row-stochastic `T'` in detailed balance
with a positive `π'` that is positive wherever `C` is. -/
theorem optimal_of_prinz {C : Mat ℝ n} {Crs : Vec ℝ n} (hD : Data C Crs)
    (hcpos : ∀ i, 0 < vget Crs i) {st : St ℝ n} (h : Inv st) (hpos : ∀ i, 0 < vget st.rs i)
    (hE : ∀ i j, (mget C i j + mget C j i) * vget st.rs i * vget st.rs j
      = mget st.X i j * (vget Crs i * vget st.rs j + vget Crs j * vget st.rs i))
    (T' : Mat ℝ n) (π' : Vec ℝ n)
    (hT0 : ∀ i j, 0 ≤ mget T' i j) (hT1 : ∀ i, ∑ j, mget T' i j = 1)
    (hπ : ∀ i, 0 < vget π' i)
    (hdb : ∀ i j, vget π' i * mget T' i j = vget π' j * mget T' j i)
    (hsupp : ∀ i j, 0 < mget C i j → 0 < mget T' i j) :
    ∑ i, ∑ j, mget C i j * Real.log (mget T' i j)
      ≤ ∑ i, ∑ j, mget C i j * Real.log (mget st.X i j / vget st.rs i) := by
  have key := Ens.C12Opt.loglik_le (fun i j => mget C i j) (fun i j => mget st.X i j)
    (fun i j => vget π' i * mget T' i j) (fun i => vget Crs i) (fun i => vget st.rs i)
    (fun i => vget π' i) hD.nonneg hD.crs hcpos h.symm h.nonneg h.rs hpos hdb
    (fun i j => mul_nonneg (hπ i).le (hT0 i j))
    (fun i => by rw [← Finset.mul_sum, hT1 i, mul_one]) hπ hE
    (fun i j hc => mul_pos (hπ i) (hsupp i j hc))
  have hrew : ∀ i j, vget π' i * mget T' i j / vget π' i = mget T' i j := fun i j =>
    mul_div_cancel_left₀ _ (hπ i).ne'
  simpa only [hrew] using key

theorem real_sqrt_spec' : SqrtSpec Real.sqrt :=
  ⟨fun _ hx => Real.mul_self_sqrt hx, fun x _ => Real.sqrt_nonneg x⟩

/-- **Optimality at a fixed point of the sweep.** -/
theorem optimal_of_fixed {log : ℝ → ℝ} {C : Mat ℝ n} {Crs : Vec ℝ n}
    (hD : Data C Crs) (hc : Conn C) {st : St ℝ n} (h : Inv st) (hpos : ∀ i, 0 < vget st.rs i)
    (hA : ∀ i j : Fin n, i ≠ j → coefA C Crs i j = 0 → ∀ k, k = i ∨ k = j)
    {q : St ℝ n × ℝ} (hsw : sweep Real.sqrt log C Crs st = .ok q) (hX : q.1.X = st.X)
    (T' : Mat ℝ n) (π' : Vec ℝ n)
    (hT0 : ∀ i j, 0 ≤ mget T' i j) (hT1 : ∀ i, ∑ j, mget T' i j = 1)
    (hπ : ∀ i, 0 < vget π' i)
    (hdb : ∀ i j, vget π' i * mget T' i j = vget π' j * mget T' j i)
    (hsupp : ∀ i j, 0 < mget C i j → 0 < mget T' i j) :
    ∑ i, ∑ j, mget C i j * Real.log (mget T' i j)
      ≤ ∑ i, ∑ j, mget C i j * Real.log (mget st.X i j / vget st.rs i) :=
  optimal_of_prinz hD (hc.crs_pos hD) h hpos
    (prinz_of_fixed real_sqrt_spec' hD hc h hA hsw hX) T' π' hT0 hT1 hπ hdb hsupp

end real
end Ens.C12P
