import Proofs.C14PamRun
import Proofs.C14Kcenters
/-!
Bridge between the two serial k-centers models: `Ens.Mpi.serialKcenters` (Model/Mpi.lean, distances in
`Dist` = rationals + inf, used for the distributed refinement) and `Ens.Cluster.kcenters`
(Model/Cluster.lean, rational arrays with a `fresh` flag, used by C01/C09 and by the distributed PAM
refinement).  On a rational table they compute the same state, so the distributed k-centers result is
the striped view of the C01-consistent serial state.
-/
namespace Ens.Mpi
open Ens.Cluster Ens.MpiPam

def Dist.toRat : Dist → Rat
  | .fin q => q
  | .inf => 0

/-- a rational table as a `Dist`-valued table -/
def finD (D : Table) : Nat → Nat → Dist := fun f c => .fin (D f c)

theorem fin_lt_fin (x y : Rat) : (Dist.fin x < Dist.fin y) ↔ x < y := Iff.rfl
theorem fin_lt_inf (x : Rat) : Dist.fin x < Dist.inf := trivial
theorem not_inf_lt (a : Dist) : ¬ Dist.inf < a := by cases a <;> exact fun h => h

theorem argmaxTo_fin (n : Nat) (d : Nat → Rat) (f : Nat → Dist) (h : ∀ i, i < n → f i = .fin (d i)) :
    Ens.argmaxTo n f = Ens.argmaxTo n d := by
  induction n with
  | zero => rfl
  | succ k ih =>
    unfold Ens.argmaxTo
    by_cases hk : k = 0
    · simp only [hk, if_true]
    · simp only [hk, if_false]
      have e := ih (fun i hi => h i (by omega))
      have hb : Ens.argmaxTo k d < k := (argmaxTo_spec k (by omega) d).1
      rw [e, h _ (by omega), h k (by omega)]
      by_cases hlt : d (Ens.argmaxTo k d) < d k
      · rw [if_pos ((fin_lt_fin _ _).mpr hlt), if_pos hlt]
      · rw [if_neg (fun hh => hlt ((fin_lt_fin _ _).mp hh)), if_neg hlt]

/-- the two serial states hold the same data -/
structure SEq (N : Nat) (ss : SState Dist) (st : St) : Prop where
  fresh : st.arr.fresh = true → ∀ g, g < N → ss.dist g = .inf
  notfresh : st.arr.fresh = false → ∀ g, g < N → ss.dist g = .fin (st.arr.dist g)
  assign : ∀ g, g < N → ss.assign g = st.arr.assign g
  inds : st.ctrInds = ss.ctrs
  frames : st.ctrFrames = ss.ctrs

theorem SEq.argmax {N : Nat} (hN : 0 < N) {ss : SState Dist} {st : St} (h : SEq N ss st) :
    Ens.argmaxTo N ss.dist = argmaxDist N st.arr := by
  unfold argmaxDist
  cases hf : st.arr.fresh with
  | true => simp only [if_true]; exact argmaxTo_const N hN ss.dist .inf (h.fresh hf)
  | false => simp only [Bool.false_eq_true, if_false]; exact argmaxTo_fin N _ _ (h.notfresh hf)

theorem SEq.iter {N : Nat} (hN : 0 < N) (D : Table) {ss : SState Dist} {st : St} (h : SEq N ss st) :
    SEq N (serialIter N (finD D) ss) (kcentersIter D N st) := by
  have hc := h.argmax hN
  have hlen : ss.ctrs.length = st.ctrInds.length := by rw [h.inds]
  constructor
  · intro hf; simp [kcentersIter, Arr.relax] at hf
  · intro _ g hg
    simp only [serialIter, kcentersIter, hc, finD]
    rw [relax_dist _ _ _ hg]
    cases hf : st.arr.fresh with
    | true =>
      rw [h.fresh hf g hg]
      simp only [Bool.true_or, if_true]
      rw [if_pos (fin_lt_inf _)]
    | false =>
      rw [h.notfresh hf g hg]
      simp only [Bool.false_or, decide_eq_true_eq]
      by_cases hlt : D g (argmaxDist N st.arr) < st.arr.dist g
      · rw [if_pos hlt, if_pos ((fin_lt_fin _ _).mpr hlt)]
      · rw [if_neg hlt, if_neg (fun hh => hlt ((fin_lt_fin _ _).mp hh))]
  · intro g hg
    simp only [serialIter, kcentersIter, hc, finD]
    rw [relax_assign _ _ _ hg]
    cases hf : st.arr.fresh with
    | true =>
      rw [h.fresh hf g hg]
      simp only [Bool.true_or, if_true]
      rw [if_pos (fin_lt_inf _), hlen]
    | false =>
      rw [h.notfresh hf g hg, h.assign g hg]
      simp only [Bool.false_or, decide_eq_true_eq]
      by_cases hlt : D g (argmaxDist N st.arr) < st.arr.dist g
      · rw [if_pos hlt, if_pos ((fin_lt_fin _ _).mpr hlt), hlen]
      · rw [if_neg hlt, if_neg (fun hh => hlt ((fin_lt_fin _ _).mp hh))]
  · simp only [serialIter, kcentersIter, hc, h.inds]
  · simp only [serialIter, kcentersIter, hc, h.frames]

theorem SEq.goOn {N : Nat} (hN : 0 < N) {ss : SState Dist} {st : St} (h : SEq N ss st) (k : Option Nat) (cutoff : Rat) :
    (underK k ss.ctrs.length = true ∧ Dist.fin cutoff < serialMax N ss.dist) ↔
      kcentersGoOn N k cutoff st = true := by
  have ha := h.argmax hN
  have hlt : Ens.argmaxTo N ss.dist < N := (argmaxTo_spec N hN ss.dist).1
  unfold kcentersGoOn underK serialMax maxDist
  rw [← h.inds, Bool.and_eq_true]
  apply and_congr
  · cases k <;> simp [h.inds]
  · cases hf : st.arr.fresh with
    | true =>
      simp only [if_true]
      rw [h.fresh hf _ hlt]
      exact ⟨fun _ => trivial, fun _ => fin_lt_inf _⟩
    | false =>
      simp only [Bool.false_eq_true, if_false, decide_eq_true_eq]
      rw [h.notfresh hf _ hlt, fin_lt_fin]
      have : Ens.argmaxTo N ss.dist = Ens.argmaxTo N st.arr.dist := by
        rw [ha]; unfold argmaxDist; simp [hf]
      rw [this]

theorem SEq.loop {N : Nat} (hN : 0 < N) (D : Table) (k : Option Nat) (cutoff : Rat) (fuel : Nat)
    {ss ss' : SState Dist} {st : St} (h : SEq N ss st)
    (hl : serialLoop N (finD D) k (.fin cutoff) fuel ss = .ok ss') :
    ∃ st', kcentersLoop D N k cutoff fuel st = .ok st' ∧ SEq N ss' st' := by
  induction fuel generalizing ss st with
  | zero =>
    unfold serialLoop at hl
    unfold kcentersLoop
    by_cases hc : underK k ss.ctrs.length = true ∧ Dist.fin cutoff < serialMax N ss.dist
    · rw [if_pos hc] at hl; cases hl
    · rw [if_neg hc] at hl
      have : ¬ kcentersGoOn N k cutoff st = true := fun hh => hc ((h.goOn hN k cutoff).mpr hh)
      injection hl with hl
      subst hl
      exact ⟨st, by simp only [this]; rfl, h⟩
  | succ fuel ih =>
    unfold serialLoop at hl
    unfold kcentersLoop
    by_cases hc : underK k ss.ctrs.length = true ∧ Dist.fin cutoff < serialMax N ss.dist
    · rw [if_pos hc] at hl
      have : kcentersGoOn N k cutoff st = true := (h.goOn hN k cutoff).mp hc
      simp only [this, if_true]
      exact ih (h.iter hN D) hl
    · rw [if_neg hc] at hl
      have : ¬ kcentersGoOn N k cutoff st = true := fun hh => hc ((h.goOn hN k cutoff).mpr hh)
      injection hl with hl
      subst hl
      exact ⟨st, by simp only [this]; rfl, h⟩

/-- the cold-start runs of the two serial models agree -/
theorem serialKcenters_eq_cluster {N : Nat} (hN : 0 < N) (D : Table) (k : Option Nat) (cutoff : Rat) (fuel : Nat)
    {ss : SState Dist} (h : serialKcenters N (finD D) .inf k (.fin cutoff) fuel = .ok ss) :
    ∃ st, Ens.Cluster.kcenters D N k cutoff none fuel = .ok st ∧ SEq N ss st := by
  have hN0 : N ≠ 0 := by omega
  unfold serialKcenters at h
  simp only [hN0, if_false] at h
  have h0 : SEq N (serialInit Dist.inf) (St.cold N) := by
    constructor
    · intro _ g _; rfl
    · intro hf; simp [St.cold] at hf
    · intro g hg; simp only [serialInit, St.cold]; rw [tab_assign _ _ _ hg]
    · rfl
    · rfl
  obtain ⟨st, h1, h2⟩ := h0.loop hN D k cutoff fuel h
  refine ⟨st, ?_, h2⟩
  unfold Ens.Cluster.kcenters
  simp only [bind, Except.bind, pure, Except.pure, hN0, if_false]
  exact h1

/-- the distributed `Dist`-valued state as the per-rank rational arrays of `Model/MpiPam.lean` -/
def toPState (lay : Layout) (ms : MState Dist) : PState :=
  { arrs := tabulate lay.w fun r => Arr.tab (lay.m r) false (fun i => (ms.dist r i).toRat) (ms.assign r)
    ctrs := ms.ctrs
    coords := ms.ctrs.map fun p => lay.X p.1 p.2 }

/-- a distributed state related to a serial state that the C01 model calls non-fresh is its
    striped view -/
theorem striped_of_rel {lay : Layout} {N : Nat} (hb : LayoutBij lay N) {ms : MState Dist} {ss : SState Dist} {st : St}
    (hr : Rel lay ms ss) (he : SEq N ss st) (hf : st.arr.fresh = false) :
    Striped lay (toPState lay ms) st := by
  have harr : ∀ r, r < lay.w → (toPState lay ms).arr r =
      Arr.tab (lay.m r) false (fun i => (ms.dist r i).toRat) (ms.assign r) := by
    intro r hr'
    exact arr_tabulate lay.w _ _ _ hr'
  constructor
  · exact hf
  · intro r hr'; rw [harr r hr']; rfl
  · intro r hr'; rw [harr r hr']; simp
  · intro r hr'; rw [harr r hr']; simp
  · intro r i hr' hi
    rw [harr r hr', tab_dist _ _ _ hi, hr.dist r i hr' hi, he.notfresh hf _ (hb.lt r i hr' hi)]
    rfl
  · intro r i hr' hi
    rw [harr r hr', tab_assign _ _ _ hi, hr.assign r i hr' hi, he.assign _ (hb.lt r i hr' hi)]
  · show ms.ctrs.map _ = st.ctrInds
    rw [hr.ctrs, he.inds]
  · exact hr.valid
  · show ms.ctrs.map _ = st.ctrFrames
    rw [hr.ctrs, he.frames]

/-- a C01 table with pairwise distinct off-diagonal entries is tie-free in the sense of the
    k-centers refinement -/
theorem tieFree_of_tableOK {D : Table} {N : Nat} (T : TableOK D N)
    (hd : ∀ a b c d, a < N → b < N → c < N → d < N → a ≠ b → c ≠ d → D a b = D c d →
      (a = c ∧ b = d) ∨ (a = d ∧ b = c)) :
    TieFree N (finD D) (.fin 0) .inf := by
  constructor
  · intro g hg; show Dist.fin (D g g) = Dist.fin 0; rw [T.self g hg]
  · intro g c hg hc hne
    show (0 : Rat) < D g c
    rcases lt_or_eq_of_le (T.nonneg g c hg hc) with h | h
    · exact h
    · exact absurd (T.distinct g c hg hc h.symm) hne
  · intro g c _ _; exact fin_lt_inf _
  · intro a b c d ha hb hc hd' hab hcd he
    exact hd a b c d ha hb hc hd' hab hcd (by injection he)

end Ens.Mpi
