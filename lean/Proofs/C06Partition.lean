import Model.RaggedW
/-!
Representation lemmas for C06: `partition` / `flatten` / `startOf` / cell updates.
-/
namespace Ens.RaggedW
variable {α β γ : Type}

/-! ### partition -/

@[simp] theorem partition_nil (d : List α) : partition [] d = [] := rfl
@[simp] theorem partition_cons (l : Nat) (ls : List Nat) (d : List α) :
    partition (l :: ls) d = d.take l :: partition ls (d.drop l) := rfl

@[simp] theorem length_partition (ls : List Nat) (d : List α) : (partition ls d).length = ls.length := by
  induction ls generalizing d with
  | nil => rfl
  | cons l ls ih => simp [ih]

/-- `partition_list(np.concatenate(rows), [len(r) for r in rows]) == rows` -/
theorem partition_flatten (rows : List (List α)) :
    partition (rows.map List.length) rows.flatten = rows := by
  induction rows with
  | nil => rfl
  | cons r rows ih => simp [ih]

theorem flatten_partition (ls : List Nat) (d : List α) (h : ls.sum = d.length) :
    (partition ls d).flatten = d := by
  induction ls generalizing d with
  | nil =>
    simp at h
    simp [List.eq_nil_of_length_eq_zero h.symm]
  | cons l ls ih =>
    simp only [List.sum_cons] at h
    simp only [partition_cons, List.flatten_cons]
    rw [ih (d.drop l) (by simp; omega)]
    exact List.take_append_drop l d

theorem map_length_partition (ls : List Nat) (d : List α) (h : ls.sum = d.length) :
    (partition ls d).map List.length = ls := by
  induction ls generalizing d with
  | nil => rfl
  | cons l ls ih =>
    simp only [List.sum_cons] at h
    simp only [partition_cons, List.map_cons, List.length_take]
    rw [ih (d.drop l) (by simp; omega)]
    congr 1
    omega

theorem sum_map_length (rows : List (List α)) : (rows.map List.length).sum = rows.flatten.length := by
  simp [List.length_flatten]

theorem partition_append (l1 l2 : List Nat) (d1 d2 : List α) (h : l1.sum = d1.length) :
    partition (l1 ++ l2) (d1 ++ d2) = partition l1 d1 ++ partition l2 d2 := by
  induction l1 generalizing d1 with
  | nil =>
    simp at h
    simp [List.eq_nil_of_length_eq_zero h.symm]
  | cons l ls ih =>
    simp only [List.sum_cons] at h
    have hl : l ≤ d1.length := by omega
    simp only [List.cons_append, partition_cons]
    rw [List.take_append_of_le_length hl, List.drop_append_of_le_length hl]
    rw [ih (d1.drop l) (by simp; omega)]

theorem partition_map (f : α → β) (ls : List Nat) (d : List α) :
    partition ls (d.map f) = (partition ls d).map (List.map f) := by
  induction ls generalizing d with
  | nil => rfl
  | cons l ls ih =>
    simp only [partition_cons, List.map_cons]
    rw [← List.map_drop, ← List.map_take, ih]

theorem partition_zipWith (g : α → β → γ) (ls : List Nat) (d : List α) (e : List β) :
    partition ls (List.zipWith g d e) =
      List.zipWith (List.zipWith g) (partition ls d) (partition ls e) := by
  induction ls generalizing d e with
  | nil => rfl
  | cons l ls ih => simp [List.take_zipWith, List.drop_zipWith, ih]

/-! ### offsets -/

@[simp] theorem startOf_zero (ls : List Nat) : startOf ls 0 = 0 := by simp [startOf]
@[simp] theorem startOf_cons_succ (l : Nat) (ls : List Nat) (r : Nat) :
    startOf (l :: ls) (r + 1) = l + startOf ls r := by simp [startOf]

theorem startsFrom_getElem? (ls : List Nat) (acc r : Nat) (h : r < ls.length) :
    (startsFrom acc ls)[r]? = some (acc + startOf ls r) := by
  induction ls generalizing acc r with
  | nil => simp at h
  | cons l ls ih =>
    cases r with
    | zero => simp [startsFrom]
    | succ r =>
      simp only [startsFrom, List.getElem?_cons_succ, startOf_cons_succ]
      rw [ih (acc + l) r (by simpa using h)]
      congr 1
      omega

@[simp] theorem length_startsFrom (ls : List Nat) (acc : Nat) : (startsFrom acc ls).length = ls.length := by
  induction ls generalizing acc with
  | nil => rfl
  | cons l ls ih => simp [startsFrom, ih]

/-- `starts` are the prefix sums of the lengths -/
theorem starts_getElem? (ls : List Nat) (r : Nat) (h : r < ls.length) :
    (starts ls)[r]? = some (startOf ls r) := by
  cases ls with
  | nil => simp at h
  | cons l ls =>
    simp only [starts]
    rw [startsFrom_getElem? _ _ _ h]
    simp

/-! ### cell updates -/

theorem setCell_map_length (rows : List (List α)) (r c : Nat) (x : α) :
    (setCell rows r c x).map List.length = rows.map List.length := by
  unfold setCell
  induction rows generalizing r with
  | nil => simp
  | cons row rows ih =>
    cases r with
    | zero => simp
    | succ r => simp [ih]

@[simp] theorem setCell_length (rows : List (List α)) (r c : Nat) (x : α) :
    (setCell rows r c x).length = rows.length := by
  simp [setCell]

/-- writing cell `(r, c)` of the rows = writing offset `start r + c` of the flat data -/
theorem flatten_setCell (rows : List (List α)) (r c : Nat) (x : α)
    (hr : r < rows.length) (hc : c < (rows[r]).length) :
    (setCell rows r c x).flatten = rows.flatten.set (startOf (rows.map List.length) r + c) x := by
  unfold setCell
  induction rows generalizing r with
  | nil => simp at hr
  | cons row rows ih =>
    cases r with
    | zero =>
      simp only [List.getElem_cons_zero] at hc
      simp only [List.modify_zero_cons, List.flatten_cons, List.map_cons, startOf_zero, Nat.zero_add]
      rw [List.set_append_left _ _ (by simpa using hc)]
    | succ r =>
      simp only [List.getElem_cons_succ] at hc
      simp only [List.modify_succ_cons, List.flatten_cons, List.map_cons, startOf_cons_succ]
      rw [ih r (by simpa using hr) hc]
      rw [List.set_append_right _ _ (by omega)]
      congr 2
      omega

theorem getElem?_setCell_length (rows : List (List α)) (r c : Nat) (x : α) (i : Nat) :
    ((setCell rows r c x)[i]?).map List.length = (rows[i]?).map List.length := by
  have h := setCell_map_length rows r c x
  have := congrArg (fun l => l[i]?) h
  simpa [List.getElem?_map] using this

/-- every target addresses an existing cell -/
def ValidTargets (rows : List (List α)) (tg : List (Nat × Nat)) : Prop :=
  ∀ p ∈ tg, ∃ row, rows[p.1]? = some row ∧ p.2 < row.length

theorem validTargets_setCell (rows : List (List α)) (tg : List (Nat × Nat)) (r c : Nat) (x : α)
    (h : ValidTargets rows tg) : ValidTargets (setCell rows r c x) tg := by
  intro p hp
  obtain ⟨row, h1, h2⟩ := h p hp
  have := getElem?_setCell_length rows r c x p.1
  rw [h1] at this
  cases hq : (setCell rows r c x)[p.1]? with
  | none => simp [hq] at this
  | some row' =>
    simp [hq] at this
    exact ⟨row', rfl, by omega⟩

def flatOf (ls : List Nat) (p : Nat × Nat) : Nat := startOf ls p.1 + p.2

theorem scatterRows_map_length (rows : List (List α)) (tg : List (Nat × Nat)) (vals : List α) :
    (scatterRows rows tg vals).map List.length = rows.map List.length := by
  induction tg generalizing rows vals with
  | nil => cases vals <;> rfl
  | cons p ps ih =>
    cases vals with
    | nil => rfl
    | cons x xs =>
      simp only [scatterRows]
      rw [ih, setCell_map_length]

/-- fancy assignment on the flat data = the same assignments cell by cell on the rows -/
theorem flatten_scatterRows (rows : List (List α)) (tg : List (Nat × Nat)) (vals : List α)
    (h : ValidTargets rows tg) :
    (scatterRows rows tg vals).flatten =
      scatter rows.flatten (tg.map (flatOf (rows.map List.length))) vals := by
  induction tg generalizing rows vals with
  | nil => cases vals <;> rfl
  | cons p ps ih =>
    cases vals with
    | nil => rfl
    | cons x xs =>
      obtain ⟨row, h1, h2⟩ := h p (by simp)
      have hr : p.1 < rows.length := by
        rcases List.getElem?_eq_some_iff.mp h1 with ⟨hlt, _⟩
        exact hlt
      have hrow : rows[p.1] = row := by
        rcases List.getElem?_eq_some_iff.mp h1 with ⟨_, he⟩
        exact he
      simp only [scatterRows, List.map_cons, scatter]
      have hv : ValidTargets (setCell rows p.1 p.2 x) ps :=
        validTargets_setCell rows ps p.1 p.2 x (fun q hq => h q (by simp [hq]))
      rw [ih (setCell rows p.1 p.2 x) xs hv, setCell_map_length]
      rw [flatten_setCell rows p.1 p.2 x hr (by rw [hrow]; exact h2)]
      rfl

theorem length_scatter (d : List α) (is : List Nat) (xs : List α) : (scatter d is xs).length = d.length := by
  induction is generalizing d xs with
  | nil => cases xs <;> rfl
  | cons i is ih =>
    cases xs with
    | nil => rfl
    | cons x xs => simp [scatter, ih]

/-! ### coherence -/

/-- the two stored representations describe the same content -/
def Coherent (s : State α) : Prop :=
  s.lengths.sum = s.data.length ∧ s.array = partition s.lengths s.data

theorem Coherent.data_eq {s : State α} (h : Coherent s) : s.data = s.array.flatten := by
  rw [h.2, flatten_partition _ _ h.1]

theorem Coherent.lengths_eq {s : State α} (h : Coherent s) : s.lengths = s.array.map List.length := by
  rw [h.2, map_length_partition _ _ h.1]

theorem coherent_of_rows (rows : List (List α)) (np obj : Bool) :
    Coherent (⟨rows.flatten, rows.map List.length, rows, np, obj⟩ : State α) :=
  ⟨sum_map_length rows, (partition_flatten rows).symm⟩

theorem coherent_iff (s : State α) :
    Coherent s ↔ (s.data = s.array.flatten ∧ s.lengths = s.array.map List.length) := by
  constructor
  · intro h
    exact ⟨h.data_eq, h.lengths_eq⟩
  · intro ⟨h1, h2⟩
    refine ⟨?_, ?_⟩
    · rw [h1, h2]; exact sum_map_length _
    · rw [h1, h2]; exact (partition_flatten _).symm

theorem partitionList_of_sum (d : List α) (ls : List Nat) (h : ls.sum = d.length) :
    partitionList d ls = .ok (partition ls d) := by
  simp [partitionList, h]

theorem initRows_eq (rows : List (List α)) (obj : Bool) (h : rows ≠ []) :
    initRows rows obj = .ok ⟨rows.flatten, rows.map List.length, rows, false, obj⟩ := by
  cases rows with
  | nil => exact absurd rfl h
  | cons r rs =>
    simp only [initRows]
    rw [partitionList_of_sum _ _ (sum_map_length (r :: rs)), partition_flatten]

theorem rebuild_eq (d : List α) (ls : List Nat) (obj : Bool) (h : ls.sum = d.length) :
    rebuild d ls obj = .ok ⟨d, ls, partition ls d, false, obj⟩ := by
  simp only [rebuild]
  rw [partitionList_of_sum _ _ h]

end Ens.RaggedW
