import Proofs.C06Ops
/-!
Index arithmetic for C06: CPython slice positions stay inside the axis; the cells addressed by
the list-of-rows model exist; the patched index helpers agree with the model for every index.
-/
namespace Ens
open Ens.RaggedW

theorem rangeAux_mem (stop step : Int) : ∀ (fuel : Nat) (cur x : Int), x ∈ rangeAux stop step fuel cur →
    (0 < step ∧ cur ≤ x ∧ x < stop) ∨ (step < 0 ∧ x ≤ cur ∧ stop < x) := by
  intro fuel
  induction fuel with
  | zero => intro cur x h; simp [rangeAux] at h
  | succ n ih =>
    intro cur x h
    unfold rangeAux at h
    split at h
    · rename_i hc
      rcases List.mem_cons.mp h with rfl | h'
      · rcases hc with ⟨h1, h2⟩ | ⟨h1, h2⟩
        · left; omega
        · right; omega
      · rcases ih (cur + step) x h' with ⟨h1, h2, h3⟩ | ⟨h1, h2, h3⟩
        · left; omega
        · right; omega
    · simp at h

theorem adjust_bounds (len : Nat) (s : PySlice) (a b c : Int) (h : s.adjust len = some (a, b, c)) :
    (0 < c → 0 ≤ a ∧ b ≤ len) ∧ (c < 0 → a ≤ (len : Int) - 1 ∧ -1 ≤ b) ∧ c ≠ 0 := by
  unfold PySlice.adjust at h
  simp only at h
  split at h
  · cases h
  · rename_i hc
    injection h with h
    injection h with h1 h2
    injection h2 with h2 h3
    subst h3
    refine ⟨?_, ?_, hc⟩
    · intro hpos
      constructor
      · rw [← h1]
        cases s.start with
        | none => simp only []; split <;> omega
        | some v => simp only []; (repeat' split) <;> omega
      · rw [← h2]
        cases s.stop with
        | none => simp only []; split <;> omega
        | some v => simp only []; (repeat' split) <;> omega
    · intro hneg
      constructor
      · rw [← h1]
        cases s.start with
        | none => simp only []; split <;> omega
        | some v => simp only []; (repeat' split) <;> omega
      · rw [← h2]
        cases s.stop with
        | none => simp only []; split <;> omega
        | some v => simp only []; (repeat' split) <;> omega

theorem indices_lt (len : Nat) (s : PySlice) (ix : List Nat) (h : s.indices len = some ix) :
    ∀ i ∈ ix, i < len := by
  unfold PySlice.indices at h
  cases ha : s.adjust len with
  | none => simp [ha] at h
  | some t =>
    obtain ⟨a, b, c⟩ := t
    simp only [ha, Option.map_some, Option.some.injEq] at h
    subst h
    obtain ⟨hp, hn, _⟩ := adjust_bounds len s a b c ha
    intro i hi
    obtain ⟨x, hx, rfl⟩ := List.mem_map.mp hi
    rcases rangeAux_mem b c _ a x hx with ⟨h1, h2, h3⟩ | ⟨h1, h2, h3⟩
    · have := hp h1
      omega
    · have := hn h1
      omega

namespace RaggedW
variable {α : Type}

theorem pyIndices_lt {n : Nat} {s : PySlice} {ix : List Nat} (h : pyIndices n s = .ok ix) :
    ∀ i ∈ ix, i < n := by
  unfold pyIndices at h
  cases hi : s.indices n with
  | none => simp [hi] at h
  | some ix' =>
    simp only [hi] at h
    injection h with h
    subst h
    exact indices_lt n s ix' hi

theorem mapE_normIdx_lt {n : Nat} {l : List Int} {ix : List Nat} (h : mapE (normIdx n) l = .ok ix) :
    ∀ i ∈ ix, i < n := by
  intro i hi
  obtain ⟨x, _, hx⟩ := mapE_ok_mem h i hi
  exact normIdx_lt hx

theorem specColSel_lt {row : List α} {c : CSel} {cs : List Nat} (h : specColSel row c = .ok cs) :
    ∀ j ∈ cs, j < row.length := by
  cases c with
  | slice s => exact pyIndices_lt h
  | int j => exact mapE_normIdx_lt h
  | list l => exact mapE_normIdx_lt h

theorem specRowCells_valid {rows : Rows α} {c : CSel} {num : Int} {grp : List (Nat × Nat)}
    (h : specRowCells rows c num = .ok grp) : ValidTargets rows grp := by
  unfold specRowCells at h
  cases hn : normIdx rows.length num with
  | error e => simp [hn] at h
  | ok i =>
    simp only [hn] at h
    cases hrow : rows[i]? with
    | none => simp [hrow] at h
    | some row =>
      simp only [hrow] at h
      cases hc : specColSel row c with
      | error e => simp [hc] at h
      | ok cs =>
        simp only [hc] at h
        injection h with h
        subst h
        intro p hp
        obtain ⟨j, hj, rfl⟩ := List.mem_map.mp hp
        exact ⟨row, hrow, specColSel_lt hc j hj⟩

/-- the cells the list-of-rows model addresses exist -/
theorem specTargets_valid {rows : Rows α} {r : Sel} {c : CSel} {tg : List (Nat × Nat)}
    (h : specTargets rows r c = .ok tg) : ValidTargets rows tg := by
  have key : ∀ nums groups, mapE (specRowCells rows c) nums = .ok groups → ValidTargets rows groups.flatten := by
    intro nums groups hg p hp
    obtain ⟨grp, hgrp, hpg⟩ := List.mem_flatten.mp hp
    obtain ⟨num, _, hnum⟩ := mapE_ok_mem hg grp hgrp
    exact specRowCells_valid hnum p hpg
  unfold specTargets at h
  split at h
  · cases h
  · cases h
  · cases hr : specRowNums rows.length r with
    | error e => simp [hr] at h
    | ok nums =>
      simp only [hr] at h
      cases hg : mapE (specRowCells rows c) nums with
      | error e => simp [hg] at h
      | ok groups =>
        simp only [hg] at h
        injection h with h
        subst h
        exact key nums groups hg

end RaggedW
end Ens
