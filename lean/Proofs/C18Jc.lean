import Proofs.C18Counts
/-!
`matrix_bincount2d`: guard characterisation, exactness, interleaving independence, guard
soundness, additivity over pooled trajectories, frame permutations, state relabelling.
Core Lean only.
-/
namespace Ens.Info
open Ens.Sched

theorem mem_entries (a : Arr) (v : Int) :
    v ∈ a.entries ↔ ∃ t, t < a.T ∧ ∃ f, f < a.F ∧ a.get t f = v := by
  simp [Arr.entries, List.mem_flatMap, List.mem_map]

theorem max?_lt_iff (l : List Int) (m n : Int) (h : l.max? = some m) : m < n ↔ ∀ v ∈ l, v < n := by
  constructor
  · intro hm v hv
    have := (List.max?_le_iff (x := m) h).1 (Int.le_refl m) v hv
    omega
  · intro hall
    exact hall m (List.max?_mem h)

theorem le_min?_iff' (l : List Int) (m n : Int) (h : l.min? = some m) : n ≤ m ↔ ∀ v ∈ l, n ≤ v := by
  constructor
  · intro hm v hv
    have := (List.le_min?_iff (x := m) h).1 (Int.le_refl m) v hv
    omega
  · intro hall
    exact hall m (List.min?_mem h)

theorem guard_ok_iff (a b : Arr) (nA nB : Int) :
    guard a b nA nB = .ok () ↔
      a.F < 2 ^ 32 ∧ a.T = b.T ∧ a.entries ≠ [] ∧ b.entries ≠ [] ∧
      (∀ v ∈ a.entries, 0 ≤ v ∧ v < nA) ∧ (∀ v ∈ b.entries, 0 ≤ v ∧ v < nB) := by
  unfold guard Arr.max? Arr.min?
  cases ha : a.entries.max? with
  | none =>
    have : a.entries = [] := List.max?_eq_none_iff.1 ha
    by_cases h1 : a.F < 2 ^ 32 <;> by_cases h2 : a.T = b.T <;> simp [h1, h2, this, bind, Except.bind, throw, throwThe, MonadExceptOf.throw]
  | some ma =>
    have hane : a.entries ≠ [] := by intro e; rw [e] at ha; cases ha
    cases hb : b.entries.max? with
    | none =>
      have : b.entries = [] := List.max?_eq_none_iff.1 hb
      by_cases h1 : a.F < 2 ^ 32 <;> by_cases h2 : a.T = b.T <;> by_cases h3 : ma < nA <;>
        simp [h1, h2, h3, this, bind, Except.bind, throw, throwThe, MonadExceptOf.throw]
    | some mb =>
      have hbne : b.entries ≠ [] := by intro e; rw [e] at hb; cases hb
      cases ha' : a.entries.min? with
      | none => exact absurd (List.min?_eq_none_iff.1 ha') hane
      | some la =>
        cases hb' : b.entries.min? with
        | none => exact absurd (List.min?_eq_none_iff.1 hb') hbne
        | some lb =>
          have e1 := max?_lt_iff _ _ nA ha
          have e2 := max?_lt_iff _ _ nB hb
          have e3 := le_min?_iff' _ _ 0 ha'
          have e4 := le_min?_iff' _ _ 0 hb'
          have ea : (∀ v ∈ a.entries, 0 ≤ v ∧ v < nA) ↔ (0 ≤ la ∧ ma < nA) := by
            rw [e1, e3]; constructor
            · intro h; exact ⟨fun v hv => (h v hv).1, fun v hv => (h v hv).2⟩
            · intro h v hv; exact ⟨h.1 v hv, h.2 v hv⟩
          have eb : (∀ v ∈ b.entries, 0 ≤ v ∧ v < nB) ↔ (0 ≤ lb ∧ mb < nB) := by
            rw [e2, e4]; constructor
            · intro h; exact ⟨fun v hv => (h v hv).1, fun v hv => (h v hv).2⟩
            · intro h v hv; exact ⟨h.1 v hv, h.2 v hv⟩
          rw [ea, eb]
          by_cases h1 : a.F < 2 ^ 32 <;> by_cases h2 : a.T = b.T <;> by_cases h3 : ma < nA <;>
            by_cases h4 : mb < nB <;> by_cases h5 : 0 ≤ la <;> by_cases h6 : 0 ≤ lb <;>
            simp [h1, h2, h3, h4, h5, h6, hane, hbne, bind, Except.bind, throw, throwThe, MonadExceptOf.throw, pure, Except.pure]

theorem matrixBincount2d_ok_iff (a b : Arr) (nA nB : Int) (r : JC) :
    matrixBincount2d a b nA nB = .ok r ↔
      guard a b nA nB = .ok () ∧
      r = { Fa := a.F, Fb := b.F, nA := nA, nB := nB,
            cnt := run (seqExec a b) (fun _ => zeroSlab) } := by
  unfold matrixBincount2d
  cases hg : guard a b nA nB with
  | error e => simp [bind, Except.bind]
  | ok u =>
    simp only [bind, Except.bind, pure, Except.pure, true_and]
    constructor
    · intro h; cases h; rfl
    · intro h; rw [h]

theorem seqExec_isInterleaving' (a b : Arr) : IsInterleaving (progs a b) (seqExec a b) :=
  seqExec_isInterleaving (progs a b)

/-- exactness of the sequential triple loop -/
theorem jc_exact_core (a b : Arr) (nA nB : Int) (r : JC) (h : matrixBincount2d a b nA nB = .ok r) :
    r.Fa = a.F ∧ r.Fb = b.F ∧ r.nA = nA ∧ r.nB = nB ∧
    ∀ x y i j, r.cnt x y i j = if x < a.F ∧ y < b.F then frameCount a b x y i j else 0 := by
  obtain ⟨_, rfl⟩ := (matrixBincount2d_ok_iff a b nA nB r).1 h
  refine ⟨rfl, rfl, rfl, rfl, ?_⟩
  intro x y i j
  exact run_interleaving_count a b (seqExec a b) (seqExec_isInterleaving' a b) x y i j

/-- any interleaving of the prange iterations computes the table of the sequential loop -/
theorem jc_interleaving_core (a b : Arr) (e : Exec Slab) (h : IsInterleaving (progs a b) e) :
    run e (fun _ => zeroSlab) = run (seqExec a b) (fun _ => zeroSlab) :=
  run_eq_seq (progs a b) e _ h

theorem jc_sched_core (choices : List Nat) (a b : Arr) (nA nB : Int) :
    matrixBincount2dSched choices a b nA nB = matrixBincount2d a b nA nB := by
  unfold matrixBincount2dSched matrixBincount2d
  rw [jc_interleaving_core a b _ (schedule_isInterleaving (progs a b) choices)]

theorem mem_writesOf (a b : Arr) (x : Nat) (w : Nat × Int × Int) :
    w ∈ writesOf a b x ↔ ∃ y, y < b.F ∧ ∃ t, t < a.T ∧ w = (y, a.get t x, b.get t y) := by
  simp [writesOf, List.mem_flatMap, List.mem_map, eq_comm]

/-- guard ok ⇒ every read and every write of the triple loop is in bounds -/
theorem jc_guard_sound_core (a b : Arr) (nA nB : Int) (h : guard a b nA nB = .ok ()) :
    a.T = b.T ∧ ∀ x, x < a.F → ∀ w ∈ writesOf a b x,
      w.1 < b.F ∧ 0 ≤ w.2.1 ∧ w.2.1 < nA ∧ 0 ≤ w.2.2 ∧ w.2.2 < nB := by
  obtain ⟨_, hT, _, _, hA, hB⟩ := (guard_ok_iff a b nA nB).1 h
  refine ⟨hT, ?_⟩
  intro x hx w hw
  obtain ⟨y, hy, t, ht, rfl⟩ := (mem_writesOf a b x w).1 hw
  have h1 := hA (a.get t x) ((mem_entries a _).2 ⟨t, ht, x, hx, rfl⟩)
  have h2 := hB (b.get t y) ((mem_entries b _).2 ⟨t, hT ▸ ht, y, hy, rfl⟩)
  exact ⟨hy, h1.1, h1.2, h2.1, h2.2⟩

theorem frameCount_pos_iff (a b : Arr) (x y : Nat) (i j : Int) :
    0 < frameCount a b x y i j ↔ ∃ t, t < a.T ∧ a.get t x = i ∧ b.get t y = j := by
  simp [frameCount, List.countP_pos_iff]

/-- the table has no mass outside `[0, nA) × [0, nB)` -/
theorem jc_support_core (a b : Arr) (nA nB : Int) (r : JC) (h : matrixBincount2d a b nA nB = .ok r)
    (x y : Nat) (i j : Int) (hpos : 0 < r.cnt x y i j) :
    x < a.F ∧ y < b.F ∧ 0 ≤ i ∧ i < nA ∧ 0 ≤ j ∧ j < nB := by
  obtain ⟨hg, _⟩ := (matrixBincount2d_ok_iff a b nA nB r).1 h
  obtain ⟨_, _, _, _, hc⟩ := jc_exact_core a b nA nB r h
  rw [hc] at hpos
  by_cases hxy : x < a.F ∧ y < b.F
  · rw [if_pos hxy] at hpos
    obtain ⟨t, ht, rfl, rfl⟩ := (frameCount_pos_iff a b x y i j).1 hpos
    obtain ⟨hT, hs⟩ := jc_guard_sound_core a b nA nB hg
    have := hs x hxy.1 (y, a.get t x, b.get t y) ((mem_writesOf a b x _).2 ⟨y, hxy.2, t, ht, rfl⟩)
    exact ⟨hxy.1, hxy.2, this.2.1, this.2.2.1, this.2.2.2.1, this.2.2.2.2⟩
  · rw [if_neg hxy] at hpos; omega

end Ens.Info
