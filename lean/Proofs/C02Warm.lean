import Proofs.C02Tri
import Mathlib.Data.List.Nodup

/-! Warm start: when the supplied initial centers are distinct frames of the data set and distinct
frames are at positive distance, `assign_to_nearest_center` + `find_cluster_centers` give back
exactly these frames as `ctr_inds`, every frame labelled by a center at its recorded distance. -/
namespace Ens.KC

/-- the hypothesis under which "the supplied centers are kept" is meaningful for `ctr_inds` -/
structure GoodInit (D : Table) (n : Nat) (cs : List Nat) : Prop where
  ne : cs ≠ []
  nodup : cs.Nodup
  frames : ∀ c, c ∈ cs → c < n
  diag : ∀ i, i < n → D i i = 0
  pos : ∀ i j, i < n → j < n → i ≠ j → 0 < D i j

/-- state of `assign_to_nearest_center` after the centers `pre`: every frame carries the first
nearest one -/
def NInv (D : Table) (pre : List Nat) (d : Nat → ERat) (a : Nat → Int) : Prop :=
  ∀ f, (pre = [] ∧ d f = none ∧ a f = 0) ∨
    ∃ (k : Nat) (hk : k < pre.length), a f = (k : Int) ∧ d f = some (D f pre[k]) ∧
      (∀ (k' : Nat) (hk' : k' < pre.length), D f pre[k] ≤ D f pre[k']) ∧
      (∀ (k' : Nat) (hk' : k' < k), D f pre[k] < D f (pre[k']'(by omega)))

theorem NInv_step {D : Table} {pre : List Nat} {d : Nat → ERat} {a : Nat → Int} (c : Nat)
    (h : NInv D pre d a) :
    NInv D (pre ++ [c])
      (fun f => if ltE (some (D f c)) (d f) then some (D f c) else d f)
      (fun f => if ltE (some (D f c)) (d f) then (pre.length : Int) else a f) := by
  intro f
  right
  rcases h f with ⟨h1, h2, h3⟩ | ⟨k, hk, h1, h2, h3, h4⟩
  · subst h1
    refine ⟨0, by simp, ?_⟩
    simp only [h2, ltE, if_true]
    refine ⟨by simp, by simp, ?_, ?_⟩
    · intro k' hk'
      simp only [List.nil_append, List.length_singleton] at hk'
      have : k' = 0 := by omega
      subst this
      simp
    · intro k' hk'; omega
  · by_cases hlt : ltE (some (D f c)) (d f) = true
    · have hlt' : D f c < D f pre[k] := by rw [h2] at hlt; simpa [ltE] using hlt
      refine ⟨pre.length, by simp, ?_⟩
      have e : (pre ++ [c])[pre.length]'(by simp) = c := by
        rw [List.getElem_append_right (le_refl _)]; simp
      refine ⟨by simp only [hlt, if_true], by simp only [hlt, if_true]; rw [e], ?_, ?_⟩
      · intro k' hk'
        rw [e]
        by_cases hk2 : k' < pre.length
        · rw [List.getElem_append_left hk2]
          exact le_of_lt (lt_of_lt_of_le hlt' (h3 k' hk2))
        · have : k' = pre.length := by simp at hk'; omega
          subst this; rw [e]
      · intro k' hk'
        rw [e, List.getElem_append_left hk']
        exact lt_of_lt_of_le hlt' (h3 k' hk')
    · have hlt' : ¬ D f c < D f pre[k] := by rw [h2] at hlt; simpa [ltE] using hlt
      refine ⟨k, by simp; omega, ?_⟩
      simp only [hlt, if_false, Bool.false_eq_true]
      have e : (pre ++ [c])[k]'(by simp; omega) = pre[k] := List.getElem_append_left hk
      refine ⟨h1, by rw [e, h2], ?_, ?_⟩
      · intro k' hk'
        rw [e]
        by_cases hk2 : k' < pre.length
        · rw [List.getElem_append_left hk2]; exact h3 k' hk2
        · have : k' = pre.length := by simp at hk'; omega
          subst this
          rw [List.getElem_append_right (le_refl _)]
          simpa using not_lt.mp hlt'
      · intro k' hk'
        rw [e, List.getElem_append_left (by omega)]
        exact h4 k' hk'

theorem NInv_nearestGo {D : Table} {n : Nat} :
    ∀ (cs pre : List Nat) (d : Nat → ERat) (a : Nat → Int), NInv D pre d a →
      NInv D (pre ++ cs) (nearestGo D n cs pre.length d a).1 (nearestGo D n cs pre.length d a).2 := by
  intro cs
  induction cs with
  | nil => intro pre d a h; simpa [nearestGo] using h
  | cons c cs ih =>
    intro pre d a h
    simp only [nearestGo, look_tab]
    have := ih (pre ++ [c]) _ _ (NInv_step c h)
    simpa using this

theorem NInv_assignToNearest (D : Table) (n : Nat) (cs : List Nat) :
    NInv D cs (assignToNearest D n cs).1 (assignToNearest D n cs).2 := by
  have := NInv_nearestGo (D := D) (n := n) cs [] (fun _ => none) (fun _ => 0)
    (fun f => Or.inl ⟨rfl, rfl, rfl⟩)
  simpa [assignToNearest] using this

/-- under `GoodInit` the center frame `cs[k]` is labelled `k` at distance 0, and every frame is
labelled by some `k` at distance `D f cs[k]`, positive unless `f = cs[k]` -/
theorem GoodInit_labels {D : Table} {n : Nat} {cs : List Nat} (g : GoodInit D n cs)
    {d : Nat → ERat} {a : Nat → Int} (h : NInv D cs d a) :
    (∀ (k : Nat) (hk : k < cs.length), a cs[k] = (k : Int) ∧ d cs[k] = some 0) ∧
    (∀ f, f < n → ∃ (k : Nat) (hk : k < cs.length), a f = (k : Int) ∧ d f = some (D f cs[k]) ∧
      (f ≠ cs[k] → 0 < D f cs[k])) := by
  have hall : ∀ f, ∃ (k : Nat) (hk : k < cs.length), a f = (k : Int) ∧ d f = some (D f cs[k]) ∧
      (∀ (k' : Nat) (hk' : k' < cs.length), D f cs[k] ≤ D f cs[k']) := by
    intro f
    rcases h f with ⟨h1, _⟩ | ⟨k, hk, h1, h2, h3, _⟩
    · exact absurd h1 g.ne
    · exact ⟨k, hk, h1, h2, h3⟩
  constructor
  · intro k hk
    obtain ⟨k0, hk0, h1, h2, h3⟩ := hall cs[k]
    have hck := g.frames _ (List.getElem_mem hk)
    have hle := h3 k hk
    rw [g.diag _ hck] at hle
    have hk0k : k0 = k := by
      by_contra hne
      have hne' : cs[k] ≠ cs[k0] := by
        intro he
        exact hne ((List.Nodup.getElem_inj_iff g.nodup).mp he).symm
      have := g.pos _ _ hck (g.frames _ (List.getElem_mem hk0)) hne'
      linarith
    subst hk0k
    exact ⟨h1, by rw [h2, g.diag _ hck]⟩
  · intro f hf
    obtain ⟨k0, hk0, h1, h2, _⟩ := hall f
    exact ⟨k0, hk0, h1, h2, fun hne => g.pos _ _ hf (g.frames _ (List.getElem_mem hk0)) hne⟩

theorem filterMap_range_eq {cs : List Nat} (F : Nat → Option Nat)
    (h : ∀ (k : Nat) (hk : k < cs.length), F k = some cs[k]) :
    (List.range cs.length).filterMap F = cs := by
  apply List.ext_getElem?
  intro i
  have hcongr : (List.range cs.length).filterMap F =
      (List.range cs.length).filterMap (fun k => cs[k]?) := by
    apply List.filterMap_congr
    intro k hk
    rw [List.mem_range] at hk
    rw [h k hk, List.getElem?_eq_getElem hk]
  rw [hcongr]
  have : ∀ (m : Nat), m ≤ cs.length → (List.range m).filterMap (fun k => cs[k]?) = cs.take m := by
    intro m
    induction m with
    | zero => intro _; simp
    | succ m ih =>
      intro hm
      have hm' : m < cs.length := by omega
      rw [List.range_succ, List.filterMap_append, ih (by omega),
        List.take_succ_eq_append_getElem hm']
      congr 1
      simp only [List.filterMap_cons, List.filterMap_nil, List.getElem?_eq_getElem hm']
  rw [this cs.length (le_refl _), List.take_length]

/-- `find_cluster_centers` gives back the supplied frames -/
theorem GoodInit_ctrInds {D : Table} {n : Nat} {cs : List Nat} (g : GoodInit D n cs) :
    (initState D n (some cs)).ctrInds = cs := by
  simp only [initState]
  have hlen : max cs.length 1 = cs.length := by
    have : 0 < cs.length := List.length_pos_of_ne_nil g.ne
    omega
  rw [hlen]
  unfold findClusterCenters
  apply filterMap_range_eq
  intro k hk
  obtain ⟨hctr, hfr⟩ := GoodInit_labels g (NInv_assignToNearest D n cs)
  set d := (assignToNearest D n cs).1
  set a := (assignToNearest D n cs).2
  obtain ⟨s1, s2⟩ := argminOn_spec (fun f => a f == (k : Int)) d n
  have hck := g.frames _ (List.getElem_mem hk)
  cases hres : argminOn (fun f => a f == (k : Int)) d n with
  | none =>
    have := s1 hres cs[k] hck
    simp [(hctr k hk).1] at this
  | some b =>
    obtain ⟨hb, hpb, hmin, _⟩ := s2 b hres
    have hab : a b = (k : Int) := by simpa using hpb
    have hle := hmin cs[k] hck (by simp [(hctr k hk).1])
    rw [(hctr k hk).2] at hle
    obtain ⟨k0, hk0, h1, h2, h3⟩ := hfr b hb
    have hk0k : k0 = k := by rw [hab] at h1; exact_mod_cast h1.symm
    subst hk0k
    by_contra hne
    have hne' : b ≠ cs[k0] := fun he => hne (by rw [he])
    have := h3 hne'
    rw [h2] at hle
    simp only [toWT_some, WithTop.coe_le_coe] at hle
    linarith

/-- and every frame is labelled by a center frame at its recorded distance -/
theorem GoodInit_Lab {D : Table} {n : Nat} {cs : List Nat} (g : GoodInit D n cs) :
    Lab D n (initState D n (some cs)) := by
  intro f hf
  have hci := GoodInit_ctrInds g
  obtain ⟨_, hfr⟩ := GoodInit_labels g (NInv_assignToNearest D n cs)
  obtain ⟨k, hk, h1, h2, _⟩ := hfr f hf
  refine ⟨k, cs[k], ?_, ?_, g.frames _ (List.getElem_mem hk), ?_⟩
  · simpa [initState] using h1
  · rw [hci, List.getElem?_eq_getElem hk]
  · simpa [initState] using h2

end Ens.KC
