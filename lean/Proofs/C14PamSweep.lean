import Proofs.C14PamStep
import Proofs.C01Total
/-!
C14, distributed PAM, part 2: the sweep (`_kmedoids_pam_update` in MPI mode) refines the serial
sweep; consistency and cost monotonicity are inherited from C01/C09.
-/
namespace Ens.MpiPam
open Ens Ens.Cluster Ens.Mpi

/-- a distributed step and a serial step that did the same thing -/
def StepRel (lay : Layout) (m : MStep) (s : PamStep) : Prop :=
  m.cid = s.cid ∧ m.y = s.p ∧ m.oldCost = s.oldCost ∧ m.newCost = s.newCost ∧ m.acc = s.acc ∧
  Striped lay m.after s.after

theorem Npos_of_bij {lay : Layout} {N : Nat} (hb : LayoutBij lay N) : 0 < N := by
  have := hb.lt 0 0 hb.wpos (hb.nonempty 0 hb.wpos)
  omega

/-! ### unfolding the loop -/

theorem mpiPamLoop_cons_ok {lay : Layout} {D : Table} {props : Option (List (Nat × Nat))} {cid : Nat}
    {rest : List Nat} {s s' : PState} {orc orc' : List Nat} {tr : List MStep}
    (h : mpiPamLoop lay D props (cid :: rest) s orc = .ok (s', orc', tr)) :
    ∃ p orc1 st tr2, mpiPropose lay s cid props orc = .ok (p, orc1) ∧ mpiPamStep lay D s cid p = .ok st ∧
      mpiPamLoop lay D props rest st.after orc1 = .ok (s', orc', tr2) ∧ tr = st :: tr2 := by
  simp only [mpiPamLoop] at h
  cases hp : mpiPropose lay s cid props orc with
  | error e => simp [hp] at h
  | ok v =>
    obtain ⟨p, orc1⟩ := v
    simp only [hp] at h
    cases hst : mpiPamStep lay D s cid p with
    | error e => simp [hst] at h
    | ok st =>
      simp only [hst] at h
      cases hl : mpiPamLoop lay D props rest st.after orc1 with
      | error e => simp [hl] at h
      | ok v2 =>
        obtain ⟨s2, orc2, tr2⟩ := v2
        simp only [hl] at h
        injection h with h
        injection h with h1 h
        injection h with h2 h3
        subst h1; subst h2; subst h3
        exact ⟨p, orc1, st, tr2, rfl, hst, hl, rfl⟩

theorem mpiPamLoop_cons_of {lay : Layout} {D : Table} {props : Option (List (Nat × Nat))} {cid : Nat}
    {rest : List Nat} {s s' : PState} {orc orc1 orc' : List Nat} {p : Nat × Nat} {st : MStep} {tr2 : List MStep}
    (h1 : mpiPropose lay s cid props orc = .ok (p, orc1)) (h2 : mpiPamStep lay D s cid p = .ok st)
    (h3 : mpiPamLoop lay D props rest st.after orc1 = .ok (s', orc', tr2)) :
    mpiPamLoop lay D props (cid :: rest) s orc = .ok (s', orc', st :: tr2) := by
  simp only [mpiPamLoop, h1, h2, h3]

/-- whatever the layout: a step that returns carries its arguments, and its proposal was a
    frame of its owner -/
theorem mpiPamStep_ok {lay : Layout} {D : Table} {s : PState} {cid : Nat} {p : Nat × Nat} {st : MStep}
    (h : mpiPamStep lay D s cid p = .ok st) :
    st.cid = cid ∧ st.p = p ∧ distribute lay p = .ok st.y := by
  unfold mpiPamStep at h
  cases hd : distribute lay p with
  | error e => simp [hd] at h
  | ok y =>
    simp only [hd] at h
    split at h
    · cases h
    · split at h
      · cases h
      · cases h
      · injection h with h; subst h; exact ⟨rfl, rfl, rfl⟩

/-! ### the loop -/

theorem loop_refines {lay : Layout} {N : Nat} (hb : LayoutBij lay N) (hm : MeanOK lay N) (D : Table)
    (props : Option (List (Nat × Nat))) (sp : List Nat) :
    ∀ (cids : List Nat) {ms : PState} {ss : St} {orc : List Nat} {ms' : PState} {orc' : List Nat}
      {tr : List MStep}, Striped lay ms ss →
      mpiPamLoop lay D props cids ms orc = .ok (ms', orc', tr) →
      (∀ st ∈ tr, sp[st.cid]? = some st.y) →
      ∃ ss' tr', pamLoop D N (some sp) cids ss [] = .ok (ss', [], tr') ∧ Striped lay ms' ss' ∧
        List.Forall₂ (StepRel lay) tr tr' := by
  intro cids
  induction cids with
  | nil =>
    intro ms ss orc ms' orc' tr hr h _
    simp only [mpiPamLoop] at h
    injection h with h
    injection h with h1 h
    injection h with h2 h3
    subst h1; subst h3
    exact ⟨ss, [], rfl, hr, List.Forall₂.nil⟩
  | cons cid rest ih =>
    intro ms ss orc ms' orc' tr hr h H
    obtain ⟨p, orc1, st, tr2, _, h2, h3, rfl⟩ := mpiPamLoop_cons_ok h
    obtain ⟨e1, e2, hd⟩ := mpiPamStep_ok h2
    obtain ⟨v1, v2, hy⟩ := distribute_ok hd
    rcases step_refines hb hm D hr cid v1 v2 with ⟨mst, sst, g1, g2, _, _, g5, g6, g7, g8, g9⟩ | ⟨g1, _⟩
    · rw [h2] at g1
      injection g1 with g1
      subst g1
      obtain ⟨q1, q2, _⟩ := pamStep_spec g2
      have hsp : sp[cid]? = some (lay.X p.1 p.2) := by
        have := H st List.mem_cons_self
        rw [e1, hy] at this; exact this
      have hprop : propose N ss cid (some sp) [] = .ok (lay.X p.1 p.2, []) := by
        unfold propose
        simp only [hsp, hb.lt _ _ v1 v2, if_true]
      obtain ⟨ss', tr', k1, k2, k3⟩ := ih g9 h3 (fun x hx => H x (List.mem_cons_of_mem _ hx))
      refine ⟨ss', sst :: tr', ?_, k2, List.Forall₂.cons ⟨by rw [e1, q1], by rw [g5, q2], g6, g7, g8, g9⟩ k3⟩
      simp only [pamLoop, bind, Except.bind, hprop, g2, k1, pure, Except.pure]
    · rw [h2] at g1; cases g1

/-- in a sweep over `a, a+1, …` the `j`-th step is the step of center `a + j` -/
theorem loop_trace_index {lay : Layout} {D : Table} {props : Option (List (Nat × Nat))} :
    ∀ (len a : Nat) (pre : List Nat) {ms : PState} {orc : List Nat} {ms' : PState} {orc' : List Nat}
      {tr : List MStep}, pre.length = a →
      mpiPamLoop lay D props (List.range' a len) ms orc = .ok (ms', orc', tr) →
      tr.length = len ∧ ∀ st ∈ tr, (pre ++ tr.map (·.y))[st.cid]? = some st.y := by
  intro len
  induction len with
  | zero =>
    intro a pre ms orc ms' orc' tr _ h
    simp only [List.range'_zero, mpiPamLoop] at h
    injection h with h
    injection h with _ h
    injection h with _ h3
    subst h3
    exact ⟨rfl, by simp⟩
  | succ len ih =>
    intro a pre ms orc ms' orc' tr hpre h
    rw [List.range'_succ] at h
    obtain ⟨p, orc1, st, tr2, _, h2, h3, rfl⟩ := mpiPamLoop_cons_ok h
    obtain ⟨e1, _, _⟩ := mpiPamStep_ok h2
    obtain ⟨i1, i2⟩ := ih (a + 1) (pre ++ [st.y]) (by simp [hpre]) h3
    refine ⟨by simp [i1], ?_⟩
    intro x hx
    rcases List.mem_cons.mp hx with rfl | hx'
    · rw [e1, List.getElem?_append_right (by omega)]
      simp [hpre]
    · have := i2 x hx'
      simpa [List.append_assoc] using this

/-! ### `_kmedoids_pam_update` -/

theorem mapM_ok_of_forall' {β γ ε : Type} (l : List β) (f : β → Except ε γ) (g : β → γ)
    (h : ∀ x ∈ l, f x = .ok (g x)) : l.mapM f = .ok (l.map g) := by
  induction l with
  | nil => rfl
  | cons a l ih =>
    rw [List.mapM_cons, h a List.mem_cons_self, ih (fun x hx => h x (List.mem_cons_of_mem _ hx))]
    rfl

theorem medoidCoords_of_valid {lay : Layout} {N : Nat} (hb : LayoutBij lay N) (ctrs : List (Nat × Nat))
    (hv : ∀ p ∈ ctrs, p.1 < lay.w ∧ p.2 < lay.m p.1) :
    medoidCoords lay ctrs = .ok (ctrs.map fun p => lay.X p.1 p.2) := by
  unfold medoidCoords
  apply mapM_ok_of_forall'
  intro p hp
  obtain ⟨h1, h2⟩ := hv p hp
  have : ¬ lay.w ≤ p.1 := by omega
  simp only [this, if_false]
  exact distribute_of_valid hb h1 h2

/-- on a striped state over a layout without empty ranks, the guards of the distributed sweep
    reduce to the two guards it shares with the serial sweep -/
theorem update_eq {lay : Layout} {N : Nat} (hb : LayoutBij lay N) (D : Table) {ms : PState} {ss : St}
    (hr : Striped lay ms ss) (props : Option (List (Nat × Nat))) (orc : List Nat) :
    mpiPamUpdate lay D ms props orc =
      if propsLenBad props ms.ctrs.length = true then
        .error (.mpi .dataInvalid)
      else if ms.ctrs = [] then .error (.mpi .indexError)
      else mpiPamLoop lay D props (List.range ms.ctrs.length) { ms with coords := ss.ctrInds } orc := by
  have g1 : ((List.range lay.w).any fun r => decide (lay.m r = 0)) = false := by
    rw [List.any_eq_false]
    intro r hr'
    have := hb.nonempty r (List.mem_range.mp hr')
    simp; omega
  have g2 : ((List.range lay.w).any fun r => decide ((ms.arr r).assignA.size ≠ lay.m r) ||
      decide ((ms.arr r).distA.size ≠ lay.m r)) = false := by
    rw [List.any_eq_false]
    intro r hr'
    simp [hr.sizeA r (List.mem_range.mp hr'), hr.sizeD r (List.mem_range.mp hr')]
  have g3 : ((List.range lay.w).any fun r => (ms.arr r).fresh) = false := by
    rw [List.any_eq_false]
    intro r hr'
    simp [hr.mfresh r (List.mem_range.mp hr')]
  unfold mpiPamUpdate
  rw [g1, g2, medoidCoords_of_valid hb ms.ctrs hr.valid, hr.ctrs]
  simp only [g3, Bool.false_eq_true, if_false]

theorem Striped.resetFrames {lay : Layout} {ms : PState} {ss : St} (hr : Striped lay ms ss) :
    Striped lay { ms with coords := ss.ctrInds } { ss with ctrFrames := ss.ctrInds } :=
  { sfresh := hr.sfresh, mfresh := hr.mfresh, sizeD := hr.sizeD, sizeA := hr.sizeA, dist := hr.dist,
    assign := hr.assign, ctrs := hr.ctrs, valid := hr.valid, coords := rfl }

theorem Striped.len_ctrs {lay : Layout} {ms : PState} {ss : St} (hr : Striped lay ms ss) :
    ms.ctrs.length = ss.ctrInds.length := by
  have := congrArg List.length hr.ctrs; simpa using this

theorem Striped.inds_lt {lay : Layout} {N : Nat} (hb : LayoutBij lay N) {ms : PState} {ss : St}
    (hr : Striped lay ms ss) : ∀ c ∈ ss.ctrInds, c < N := by
  intro c hc
  rw [← hr.ctrs] at hc
  obtain ⟨p, hp, rfl⟩ := List.mem_map.mp hc
  exact hb.lt _ _ (hr.valid p hp).1 (hr.valid p hp).2

/-- the serial sweep with explicit proposals, once its guards are known to pass -/
theorem pamUpdate_eq_loop {D : Table} {n : Nat} (hn : 0 < n) {s : St} (hfr : s.arr.fresh = false)
    (hne : s.ctrInds ≠ []) (hlt : ∀ c ∈ s.ctrInds, c < n) {sp : List Nat}
    (hl : sp.length = s.ctrInds.length) (orc : List Nat) :
    pamUpdate D n s (some sp) orc =
      pamLoop D n (some sp) (List.range s.ctrInds.length) { s with ctrFrames := s.ctrInds } orc := by
  have hany : (s.ctrInds.any fun c => decide (n ≤ c)) = false := by
    rw [List.any_eq_false]; intro c hc; simpa using hlt c hc
  have h0 : n ≠ 0 := Nat.pos_iff_ne_zero.mp hn
  unfold pamUpdate
  simp only [bind, Except.bind, h0, if_false, hne, hany, hfr, hl, ne_eq, not_true_eq_false]
  rfl

/-- what a successful distributed sweep tells about its guards -/
theorem update_ok {lay : Layout} {N : Nat} (hb : LayoutBij lay N) {D : Table} {ms : PState} {ss : St}
    (hr : Striped lay ms ss) {props : Option (List (Nat × Nat))} {orc : List Nat}
    {out : PState × List Nat × List MStep} (h : mpiPamUpdate lay D ms props orc = .ok out) :
    (∀ ps, props = some ps → ps.length = ms.ctrs.length) ∧ ms.ctrs ≠ [] ∧
    mpiPamLoop lay D props (List.range ms.ctrs.length) { ms with coords := ss.ctrInds } orc = .ok out := by
  rw [update_eq hb D hr] at h
  by_cases hc : propsLenBad props ms.ctrs.length = true
  · rw [if_pos hc] at h; cases h
  · rw [if_neg hc] at h
    by_cases hne : ms.ctrs = []
    · rw [if_pos hne] at h; cases h
    · rw [if_neg hne] at h
      refine ⟨?_, hne, h⟩
      intro ps e
      subst e
      simpa [propsLenBad] using hc

/-- **Sweep refinement (any source of proposals).**  A distributed sweep that returns did what
    the serial sweep does on the whole data when it is handed, as explicit proposals, the global
    frames of the proposals the distributed sweep used: same decisions, same costs, and the
    resulting distributed state is the striped view of the serial result. -/
theorem update_refines {lay : Layout} {N : Nat} (hb : LayoutBij lay N) (hm : MeanOK lay N) (D : Table)
    {ms : PState} {ss : St} (hr : Striped lay ms ss) {props : Option (List (Nat × Nat))} {orc orc' : List Nat}
    {ms' : PState} {tr : List MStep} (h : mpiPamUpdate lay D ms props orc = .ok (ms', orc', tr)) :
    ∃ ss' tr', pamUpdate D N ss (some (tr.map (·.y))) [] = .ok (ss', [], tr') ∧ Striped lay ms' ss' ∧
      List.Forall₂ (StepRel lay) tr tr' := by
  obtain ⟨_, hne, hl⟩ := update_ok hb hr h
  have hlen := hr.len_ctrs
  rw [List.range_eq_range'] at hl
  obtain ⟨t1, t2⟩ := loop_trace_index ms.ctrs.length 0 [] rfl hl
  rw [← List.range_eq_range'] at hl
  obtain ⟨ss', tr', k1, k2, k3⟩ := loop_refines hb hm D props (tr.map (·.y)) _ hr.resetFrames hl
    (by simpa using t2)
  refine ⟨ss', tr', ?_, k2, k3⟩
  have hne' : ss.ctrInds ≠ [] := by
    intro e; rw [← hr.ctrs] at e; exact hne (List.map_eq_nil_iff.mp e)
  rw [pamUpdate_eq_loop (Npos_of_bij hb) hr.sfresh hne' (hr.inds_lt hb) (by simp [t1, hlen]), ← hlen]
  exact k1

/-! ### explicit proposals -/

theorem loop_explicit_trace {lay : Layout} {D : Table} {ps : List (Nat × Nat)} :
    ∀ (cids : List Nat) {ms : PState} {orc : List Nat} {ms' : PState} {orc' : List Nat} {tr : List MStep},
      mpiPamLoop lay D (some ps) cids ms orc = .ok (ms', orc', tr) →
      orc' = orc ∧ ∀ st ∈ tr, ps[st.cid]? = some st.p ∧ st.y = lay.X st.p.1 st.p.2 := by
  intro cids
  induction cids with
  | nil =>
    intro ms orc ms' orc' tr h
    simp only [mpiPamLoop] at h
    injection h with h
    injection h with _ h
    injection h with h2 h3
    subst h3
    exact ⟨h2.symm, by simp⟩
  | cons cid rest ih =>
    intro ms orc ms' orc' tr h
    obtain ⟨p, orc1, st, tr2, h1, h2, h3, rfl⟩ := mpiPamLoop_cons_ok h
    obtain ⟨e1, e2, hd⟩ := mpiPamStep_ok h2
    obtain ⟨_, _, hy⟩ := distribute_ok hd
    have hp : ps[cid]? = some p ∧ orc1 = orc := by
      unfold mpiPropose at h1
      simp only [] at h1
      split at h1
      · cases h1
      · rename_i q hq
        injection h1 with h1
        injection h1 with a b
        subst a; exact ⟨hq, b.symm⟩
    obtain ⟨i1, i2⟩ := ih h3
    refine ⟨by rw [i1, hp.2], ?_⟩
    intro x hx
    rcases List.mem_cons.mp hx with rfl | hx'
    · rw [e1, e2]; exact ⟨hp.1, hy⟩
    · exact i2 x hx'

/-- **Sweep refinement, explicit proposals.**  With proposals `ps` given as `(rank, index)`
    pairs the distributed sweep is the serial sweep with the proposals' global frames. -/
theorem update_refines_explicit {lay : Layout} {N : Nat} (hb : LayoutBij lay N) (hm : MeanOK lay N)
    (D : Table) {ms : PState} {ss : St} (hr : Striped lay ms ss) {ps : List (Nat × Nat)} {orc orc' : List Nat}
    {ms' : PState} {tr : List MStep} (h : mpiPamUpdate lay D ms (some ps) orc = .ok (ms', orc', tr)) :
    ∃ ss' tr', pamUpdate D N ss (some (ps.map fun p => lay.X p.1 p.2)) [] = .ok (ss', [], tr') ∧
      Striped lay ms' ss' ∧ List.Forall₂ (StepRel lay) tr tr' ∧ orc' = orc := by
  obtain ⟨hpl, hne, hl⟩ := update_ok hb hr h
  have hlen := hr.len_ctrs
  obtain ⟨t1, t2⟩ := loop_explicit_trace _ hl
  obtain ⟨ss', tr', k1, k2, k3⟩ := loop_refines hb hm D (some ps) (ps.map fun p => lay.X p.1 p.2) _
    hr.resetFrames hl (by
      intro st hst
      obtain ⟨a, b⟩ := t2 st hst
      rw [List.getElem?_map, a, b]; rfl)
  refine ⟨ss', tr', ?_, k2, k3, t1⟩
  have hne' : ss.ctrInds ≠ [] := by
    intro e; rw [← hr.ctrs] at e; exact hne (List.map_eq_nil_iff.mp e)
  rw [pamUpdate_eq_loop (Npos_of_bij hb) hr.sfresh hne' (hr.inds_lt hb) (by simp [hpl ps rfl, hlen]), ← hlen]
  exact k1

/-! ### consistency and cost, inherited from the serial theorems -/

/-- the global cost after every accept/reject decision of a trace, in order -/
def costsAfter (lay : Layout) (tr : List MStep) : List (Except Err Rat) :=
  tr.map fun st => mpiCost lay st.after.arr

theorem costsAfter_eq {lay : Layout} {N : Nat} (hb : LayoutBij lay N) (hm : MeanOK lay N)
    {tr : List MStep} {tr' : List PamStep} (h : List.Forall₂ (StepRel lay) tr tr') :
    costsAfter lay tr = (costsOf N tr').map .ok := by
  induction h with
  | nil => rfl
  | cons hrel _ ih =>
    obtain ⟨_, _, _, _, _, hs⟩ := hrel
    simp only [costsAfter, costsOf, List.map_cons] at ih ⊢
    rw [ih, mpiCost_eq hb hm _ _ hs.dist]

/-- one distributed sweep keeps the (striped view of a) state consistent -/
theorem update_consistent {lay : Layout} {N : Nat} (hb : LayoutBij lay N) (hm : MeanOK lay N) {D : Table}
    (T : TableOK D N) {ms : PState} {ss : St} (hr : Striped lay ms ss) (hs : Consistent D N ss)
    {props : Option (List (Nat × Nat))} {orc orc' : List Nat} {ms' : PState} {tr : List MStep}
    (h : mpiPamUpdate lay D ms props orc = .ok (ms', orc', tr)) :
    ∃ ss', Striped lay ms' ss' ∧ Consistent D N ss' ∧ ss'.ctrInds.length = ss.ctrInds.length := by
  obtain ⟨ss', tr', k1, k2, _⟩ := update_refines hb hm D hr h
  exact ⟨ss', k2, pamUpdate_consistent T hs k1, (pamUpdate_shape k1).len⟩

/-- one distributed sweep never raises the global cost, along its whole history -/
theorem update_costs {lay : Layout} {N : Nat} (hb : LayoutBij lay N) (hm : MeanOK lay N) {D : Table}
    {ms : PState} {ss : St} (hr : Striped lay ms ss)
    {props : Option (List (Nat × Nat))} {orc orc' : List Nat} {ms' : PState} {tr : List MStep}
    (h : mpiPamUpdate lay D ms props orc = .ok (ms', orc', tr)) :
    ∃ (c0 c1 : Rat) (cs : List Rat), mpiCost lay ms.arr = .ok c0 ∧ mpiCost lay ms'.arr = .ok c1 ∧
      costsAfter lay tr = cs.map .ok ∧ (c0 :: cs).Pairwise (fun x y => y ≤ x) ∧
      (∀ x ∈ c0 :: cs, c1 ≤ x) := by
  obtain ⟨ss', tr', k1, k2, k3⟩ := update_refines hb hm D hr h
  obtain ⟨p1, p2⟩ := pamUpdate_costs k1
  exact ⟨_, _, costsOf N tr', mpiCost_eq hb hm _ _ hr.dist, mpiCost_eq hb hm _ _ k2.dist,
    costsAfter_eq hb hm k3, p1, p2⟩

/-! ### totality: from a consistent state and valid explicit proposals the sweep runs through -/

theorem loop_total {lay : Layout} {N : Nat} (hb : LayoutBij lay N) (hm : MeanOK lay N) {D : Table}
    (T : TableOK D N) (ps : List (Nat × Nat)) :
    ∀ (cids : List Nat) {ms : PState} {ss : St} (orc : List Nat), Striped lay ms ss → Consistent D N ss →
      (∀ c ∈ cids, c < ss.ctrInds.length) →
      (∀ c ∈ cids, ∃ p, ps[c]? = some p ∧ p.1 < lay.w ∧ p.2 < lay.m p.1) →
      ∃ out, mpiPamLoop lay D (some ps) cids ms orc = .ok out := by
  intro cids
  induction cids with
  | nil => intro ms ss orc _ _ _ _; exact ⟨_, rfl⟩
  | cons cid rest ih =>
    intro ms ss orc hr hs hc hp
    obtain ⟨p, e, v1, v2⟩ := hp cid List.mem_cons_self
    have hcid := hc cid List.mem_cons_self
    have hpn := hb.lt _ _ v1 v2
    have h1 : mpiPropose lay ms cid (some ps) orc = .ok (p, orc) := by
      unfold mpiPropose; simp only [e]
    rcases step_refines hb hm D hr cid v1 v2 with ⟨mst, sst, g1, g2, _, _, _, _, _, _, g9⟩ | ⟨_, g2⟩
    · have hs1 := pamStep_consistent T hs hcid hpn g2
      have hlen : sst.after.ctrInds.length = ss.ctrInds.length :=
        (pamStep_shape (k := ss.ctrInds.length) ⟨rfl, hs.frames, hs.inds_lt⟩ hpn g2).len
      obtain ⟨out, h3⟩ := ih orc g9 hs1
        (fun c hc' => by rw [hlen]; exact hc c (List.mem_cons_of_mem _ hc'))
        (fun c hc' => hp c (List.mem_cons_of_mem _ hc'))
      obtain ⟨s', orc', tr2⟩ := out
      exact ⟨_, mpiPamLoop_cons_of h1 g1 h3⟩
    · obtain ⟨st, h2⟩ := pamStep_total T hs hcid hpn
      rw [h2] at g2; cases g2

theorem update_total {lay : Layout} {N : Nat} (hb : LayoutBij lay N) (hm : MeanOK lay N) {D : Table}
    (T : TableOK D N) {ms : PState} {ss : St} (hr : Striped lay ms ss) (hs : Consistent D N ss)
    {ps : List (Nat × Nat)} (hl : ps.length = ms.ctrs.length)
    (hv : ∀ p ∈ ps, p.1 < lay.w ∧ p.2 < lay.m p.1) (orc : List Nat) :
    ∃ out, mpiPamUpdate lay D ms (some ps) orc = .ok out := by
  have hne : ms.ctrs ≠ [] := by
    intro e
    obtain ⟨k, c, _, h2, _⟩ := hs.lab 0 (Npos_of_bij hb)
    rw [← hr.ctrs, e] at h2; simp at h2
  rw [update_eq hb D hr]
  simp only [propsLenBad, hl, ne_eq, not_true_eq_false, decide_false, Bool.false_eq_true, if_false, hne]
  apply loop_total hb hm T ps _ orc hr.resetFrames hs.resetFrames
  · intro c hc
    have := List.mem_range.mp hc
    rw [hr.len_ctrs] at this; exact this
  · intro c hc
    have hc' : c < ps.length := by rw [hl]; exact List.mem_range.mp hc
    exact ⟨ps[c], List.getElem?_eq_getElem hc', hv _ (List.getElem_mem hc')⟩

end Ens.MpiPam
