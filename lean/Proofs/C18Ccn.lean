import Model.Info
/-!
`channel_capacity_normalization`: the grid of logarithm arguments.  Core Lean only.
-/
namespace Ens.Info

/-- the state count the validator assigns to feature `i` (a scalar is broadcast) -/
def stateAt (n : Int ⊕ List Int) (i : Nat) : Option Int :=
  match n with
  | .inl k => some k
  | .inr l => l[i]?

theorem validateStates_ok (n : Int ⊕ List Int) (dim : Nat) (l : List Int)
    (h : validateStates n dim = .ok l) :
    l.length = dim ∧ (∀ i, i < dim → l[i]? = stateAt n i) ∧ ∀ v ∈ l, 2 ≤ v := by
  unfold validateStates at h
  cases n with
  | inl k =>
    simp only [bind, Except.bind, pure, Except.pure] at h
    by_cases h1 : (List.replicate dim k).any (· < 2) = true
    · simp [h1, throw, throwThe, MonadExceptOf.throw] at h
    · simp only [h1] at h
      simp only [Bool.false_eq_true, if_false, List.length_replicate, ne_eq, not_true_eq_false] at h
      cases h
      refine ⟨by simp, ?_, ?_⟩
      · intro i hi; simp [stateAt, hi]
      · intro v hv
        have : ¬ v < 2 := by
          intro hlt; apply h1
          exact List.any_eq_true.2 ⟨v, hv, by simpa using hlt⟩
        omega
  | inr l' =>
    simp only [bind, Except.bind, pure, Except.pure] at h
    by_cases h1 : l'.any (· < 2) = true
    · simp [h1, throw, throwThe, MonadExceptOf.throw] at h
    · simp only [h1] at h
      by_cases h2 : l'.length ≠ dim
      · simp [h2, throw, throwThe, MonadExceptOf.throw] at h
      · simp only [Bool.false_eq_true, if_false, h2] at h
        cases h
        refine ⟨by omega, ?_, ?_⟩
        · intro i _; rfl
        · intro v hv
          have : ¬ v < 2 := by
            intro hlt; apply h1
            exact List.any_eq_true.2 ⟨v, hv, by simpa using hlt⟩
          omega

theorem ccnGrid_length (nx ny : List Int) : (ccnGrid nx ny).length = nx.length := by
  simp [ccnGrid, meshgridIJ]

theorem ccnGrid_get (nx ny : List Int) (i j : Nat) (a b : Int)
    (ha : nx[i]? = some a) (hb : ny[j]? = some b) :
    ((ccnGrid nx ny)[i]?).bind (·[j]?) = some (min a b) := by
  simp [ccnGrid, meshgridIJ, List.getElem?_zipWith, List.getElem?_map, ha, hb]

theorem ccnGrid_row_length (nx ny : List Int) (i : Nat) (row : List Int)
    (h : (ccnGrid nx ny)[i]? = some row) : row.length = ny.length := by
  simp only [ccnGrid, meshgridIJ, List.getElem?_zipWith, List.getElem?_map] at h
  cases hx : nx[i]? with
  | none => simp [hx] at h
  | some a =>
    simp [hx] at h
    rw [← h]; simp

/-- entry `(i, j)` of an `rows × cols` MI matrix is divided by `log (min n_x[i] n_y[j])`, and that
minimum is at least 2 (the logarithm is positive) -/
theorem ccn_entry_core (rows cols : Nat) (nx ny : Int ⊕ List Int) (g : List (List Int))
    (h : channelCapacityArgs rows cols nx ny = .ok g) :
    g.length = rows ∧ ∀ i, i < rows → ∀ j, j < cols → ∃ a b,
      stateAt nx i = some a ∧ stateAt ny j = some b ∧
      (g[i]?).bind (·[j]?) = some (min a b) ∧ 2 ≤ min a b := by
  unfold channelCapacityArgs at h
  simp only [bind, Except.bind, pure, Except.pure] at h
  cases h1 : validateStates nx rows with
  | error e => rw [h1] at h; cases h
  | ok lx =>
    cases h2 : validateStates ny cols with
    | error e => rw [h1, h2] at h; cases h
    | ok ly =>
      rw [h1, h2] at h
      cases h
      obtain ⟨x1, x2, x3⟩ := validateStates_ok nx rows lx h1
      obtain ⟨y1, y2, y3⟩ := validateStates_ok ny cols ly h2
      refine ⟨by rw [ccnGrid_length, x1], ?_⟩
      intro i hi j hj
      have hi' : i < lx.length := by omega
      have hj' : j < ly.length := by omega
      refine ⟨lx[i], ly[j], ?_, ?_, ?_, ?_⟩
      · rw [← x2 i hi]; simp [hi']
      · rw [← y2 j hj]; simp [hj']
      · exact ccnGrid_get lx ly i j _ _ (by simp [hi']) (by simp [hj'])
      · have a2 := x3 lx[i] (List.getElem_mem hi')
        have b2 := y3 ly[j] (List.getElem_mem hj')
        omega

/-- the grid the code used before the `indexing='ij'` fix (`np.meshgrid` default `'xy'`) -/
def ccnGridXY (nx ny : List Int) : List (List Int) :=
  let g := meshgridXY nx ny
  List.zipWith (fun r s => List.zipWith min r s) g.1 g.2

end Ens.Info
