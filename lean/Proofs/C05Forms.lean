import Proofs.C05Get
/-! Refinement per index form, part 1: forms numpy handles on the row view and the paired forms. -/
namespace Ens.Ragged
open Ens

/-- what a returned value stands for, through `Except` -/
def absE {α} (x : Except Err (Res α)) : Except Err (SRes α) := bindE x fun r => .ok r.abs

/-- side condition under which `__init__` takes the rectangular fast path (`fast = true` means:
lengths were given as an ndarray and `np.all(lengths == lengths[0])` held) -/
def FastOK {α} (ra : RA α) (fast : Bool) : Prop :=
  fast = true → ∃ L, 0 < L ∧ ra.lengths ≠ [] ∧ ∀ x ∈ ra.lengths, x = L

theorem get_row' {α} (ra : RA α) (h : WF ra) (fast : Bool) (hf : FastOK ra fast) (i : Int) :
    absE (getItem ra fast (.one (.int i))) = specGet (rows ra) (.one (.int i)) := by
  simp only [getItem, specGet, absE, arrayView_eq_rows ra h fast hf, bindE_ok]
  cases npIndex (rows ra) i <;> rfl

theorem get_row_slice' {α} (ra : RA α) (h : WF ra) (fast : Bool) (hf : FastOK ra fast) (s : PySlice) :
    absE (getItem ra fast (.one (.slice s))) = specGet (rows ra) (.one (.slice s)) := by
  simp only [getItem, specGet, absE, arrayView_eq_rows ra h fast hf, bindE_ok]
  cases npSlice (rows ra) s with
  | error e => rfl
  | ok sel => simp only [bindE_ok, Res.abs, rows_ofRows']

theorem get_row_list' {α} (ra : RA α) (h : WF ra) (fast : Bool) (hf : FastOK ra fast) (l : List Int) (b : Bool) :
    absE (getItem ra fast (.one (.list l b))) = specGet (rows ra) (.one (.list l b)) := by
  simp only [getItem, specGet, absE, arrayView_eq_rows ra h fast hf, bindE_ok]
  cases npTake (rows ra) l with
  | error e => rfl
  | ok sel => simp only [bindE_ok, Res.abs, rows_ofRows']

theorem get_int_slice' {α} (ra : RA α) (h : WF ra) (fast : Bool) (hf : FastOK ra fast) (i : Int) (cs : PySlice) :
    absE (getItem ra fast (.two (.int i) (.slice cs))) = specGet (rows ra) (.two (.int i) (.slice cs)) := by
  simp only [getItem, specGet, absE, arrayView_eq_rows ra h fast hf, bindE_ok, colSel]
  cases npIndex (rows ra) i with
  | error e => rfl
  | ok row =>
    simp only [bindE_ok]
    cases npSlice row cs <;> rfl

theorem get_elem' {α} (ra : RA α) (h : WF ra) (fast : Bool) (i j : Int) :
    absE (getItem ra fast (.two (.int i) (.int j))) = specGet (rows ra) (.two (.int i) (.int j)) := by
  simp only [getItem, specGet, absE, paired, idxArr, gather_eq ra h]
  cases hc : cell (rows ra) (i, j) <;> simp [mapE_cons, hc, Res.abs]

end Ens.Ragged

namespace Ens.Ragged
open Ens

/-- the broadcasting rule of `_convert_from_2d` L317-319 plus numpy's own broadcasting -/
def pairUp (f s : List Int) : Option (List (Int × Int)) :=
  if f.length > 1 ∧ s.length = 1 then some (f.map fun i => (i, s.headD 0))
  else if f.length = s.length then some (f.zip s)
  else if f.length = 1 then some (s.map fun j => (f.headD 0, j))
  else none

theorem paired_nonempty {α} (ra : RA α) (r c : Part) (hf : (idxArr r).1 ≠ []) (hs : (idxArr c).1 ≠ []) :
    paired ra r c = (match pairUp (idxArr r).1 (idxArr c).1 with
      | none => .error .other
      | some ps => bindE (gather ra ps) fun d => .ok (Res.arr d)) := by
  unfold paired pairUp
  cases hr : idxArr r with
  | mk f fi =>
    cases hc : idxArr c with
    | mk s si =>
      rw [hr] at hf; rw [hc] at hs
      simp only at hf hs
      cases f with
      | nil => exact absurd rfl hf
      | cons a as =>
        cases s with
        | nil => exact absurd rfl hs
        | cons b bs => cases as <;> cases bs <;> rfl

theorem mapE_bind_const {α β γ ε} (x : Except ε α) (g : α → β → Except ε γ) {l : List β} (hl : l ≠ []) :
    mapE (fun j => bindE x (fun r => g r j)) l = bindE x (fun r => mapE (g r) l) := by
  cases x with
  | ok r => rfl
  | error e =>
    cases l with
    | nil => exact absurd rfl hl
    | cons y ys => rfl

theorem get_int_list' {α} (ra : RA α) (h : WF ra) (fast : Bool) (i : Int) (l : List Int) (b : Bool)
    (hl : l ≠ []) :
    absE (getItem ra fast (.two (.int i) (.list l b))) = specGet (rows ra) (.two (.int i) (.list l b)) := by
  simp only [getItem, specGet, absE, colSel]
  rw [paired_nonempty ra _ _ (by simp [idxArr]) (by simpa [idxArr] using hl)]
  have hp : pairUp (idxArr (.int i)).1 (idxArr (.list l b)).1 = some (l.map fun j => (i, j)) := by
    simp only [idxArr, pairUp, List.length_cons, List.length_nil]
    cases l with
    | nil => exact absurd rfl hl
    | cons y ys =>
      cases ys with
      | nil => simp
      | cons z zs => simp
  rw [hp]
  simp only [gather_eq ra h, mapE_map, cell, npTake]
  rw [mapE_bind_const _ _ hl]
  cases npIndex (rows ra) i with
  | error e => rfl
  | ok row =>
    simp only [bindE_ok]
    cases mapE (npIndex row) l <;> rfl

theorem get_list_int' {α} (ra : RA α) (h : WF ra) (fast : Bool) (l : List Int) (b : Bool) (j : Int)
    (hl : l ≠ []) :
    absE (getItem ra fast (.two (.list l b) (.int j))) = specGet (rows ra) (.two (.list l b) (.int j)) := by
  simp only [getItem, specGet, absE]
  rw [paired_nonempty ra _ _ (by simpa [idxArr] using hl) (by simp [idxArr])]
  have hp : pairUp (idxArr (.list l b)).1 (idxArr (.int j)).1 = some (l.map fun i => (i, j)) := by
    simp only [idxArr, pairUp, List.length_cons, List.length_nil]
    cases l with
    | nil => exact absurd rfl hl
    | cons y ys =>
      cases ys with
      | nil => simp
      | cons z zs => simp
  rw [hp]
  simp only [gather_eq ra h, mapE_map]
  cases mapE (fun i => cell (rows ra) (i, j)) l <;> rfl

theorem get_paired' {α} (ra : RA α) (h : WF ra) (fast : Bool) (l l2 : List Int) (b b2 : Bool)
    (hl : l ≠ []) (hlen : l.length = l2.length) :
    absE (getItem ra fast (.two (.list l b) (.list l2 b2))) =
      specGet (rows ra) (.two (.list l b) (.list l2 b2)) := by
  have hl2 : l2 ≠ [] := by
    intro h2; subst h2; simp at hlen; exact hl hlen
  simp only [getItem, specGet, absE, hlen, if_true]
  rw [paired_nonempty ra _ _ (by simpa [idxArr] using hl) (by simpa [idxArr] using hl2)]
  have hp : pairUp (idxArr (.list l b)).1 (idxArr (.list l2 b2)).1 = some (l.zip l2) := by
    show pairUp l l2 = some (l.zip l2)
    unfold pairUp
    have h1 : ¬ (l.length > 1 ∧ l2.length = 1) := by omega
    rw [if_neg h1, if_pos hlen]
  rw [hp]
  simp only [gather_eq ra h]
  cases mapE (cell (rows ra)) (l.zip l2) <;> rfl

end Ens.Ragged

namespace Ens.Ragged
open Ens

theorem get_elem_of_convert_error {α} (ra : RA α) (fast : Bool) (i j : Int) (e : Err)
    (h : convertOne ra.lengths (i, j) = .error e) :
    getItem ra fast (.two (.int i) (.int j)) = .error e := by
  simp only [getItem]
  rw [paired_nonempty ra _ _ (by simp [idxArr]) (by simp [idxArr])]
  have hp : pairUp (idxArr (.int i)).1 (idxArr (.int j)).1 = some [(i, j)] := by
    simp [idxArr, pairUp]
  rw [hp]
  simp only [gather, convertFrom2d, mapE_cons, h, bindE_error]

end Ens.Ragged
