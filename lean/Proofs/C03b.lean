import Proofs.C03
import Mathlib.Algebra.BigOperators.Group.Finset.Basic
import Mathlib.Algebra.BigOperators.Intervals
/-! Pair lists over all rows, counting lemmas. -/
namespace Ens.Counts
open Ens

def stepOf (lag : Nat) (sliding : Bool) : Nat := if sliding then 1 else lag

/-- all lagged pairs of all rows, in row order (the spec) -/
def specPairs (rows : List (List Int)) (lag : Nat) (sliding : Bool) : List (Int × Int) :=
  (rows.map fun r => lagPairs (dropPad r) lag (stepOf lag sliding)).flatten

theorem mapM_helper (rows : List (List Int)) (lag : Nat) (sliding : Bool) (hlag : 1 ≤ lag) :
    rows.mapM (fun r => transitionsHelper (dropPad r) lag sliding)
      = Except.ok (rows.map fun r => lagPairs (dropPad r) lag (stepOf lag sliding)) := by
  induction rows with
  | nil => rfl
  | cons r rs ih =>
    rw [List.mapM_cons, ih, transitionsHelper_eq _ _ _ hlag]
    rfl

theorem allPairs_eq (rows : List (List Int)) (lag : Nat) (sliding : Bool) (hlag : 1 ≤ lag) :
    allPairs rows lag sliding = .ok (specPairs rows lag sliding) := by
  unfold allPairs
  rw [mapM_helper rows lag sliding hlag]
  rfl

theorem specPairs_append (A B : List (List Int)) (lag : Nat) (sliding : Bool) :
    specPairs (A ++ B) lag sliding = specPairs A lag sliding ++ specPairs B lag sliding := by
  simp [specPairs]

theorem countPair_append (p q : List (Int × Int)) (i j : Int) :
    countPair (p ++ q) i j = countPair p i j + countPair q i j := by
  simp [countPair]

theorem countPair_perm {p q : List (Int × Int)} (h : p.Perm q) (i j : Int) :
    countPair p i j = countPair q i j := by
  unfold countPair
  exact (h.filter _).length_eq

theorem specPairs_perm {A B : List (List Int)} (h : A.Perm B) (lag : Nat) (sliding : Bool) :
    (specPairs A lag sliding).Perm (specPairs B lag sliding) := by
  unfold specPairs
  exact (h.map _).flatten

theorem dropPad_append_pad (r : List Int) (k : Nat) :
    dropPad (r ++ List.replicate k (-1)) = dropPad r := by
  unfold dropPad
  rw [List.filter_append]
  have : List.filter (fun x => decide (x ≠ -1)) (List.replicate k (-1 : Int)) = [] := by
    apply List.filter_eq_nil_iff.mpr
    intro a ha
    have := List.eq_of_mem_replicate ha
    simp [this]
  rw [this, List.append_nil]

theorem lagPairs_length (a : List Int) (lag s : Nat) : (lagPairs a lag s).length = nPairs a.length lag s := by
  simp [lagPairs]

theorem nPairs_one (L lag : Nat) : nPairs L lag 1 = L - lag := by
  simp [nPairs]

theorem specPairs_length (rows : List (List Int)) (lag : Nat) (sliding : Bool) :
    (specPairs rows lag sliding).length
      = (rows.map fun r => nPairs (dropPad r).length lag (stepOf lag sliding)).sum := by
  unfold specPairs
  rw [List.length_flatten, List.map_map]
  congr 1
  apply List.map_congr_left
  intro r _
  simp [lagPairs_length]

open Finset in
/-- summing the table over the square `[0,n)²` counts every in-range pair exactly once -/
theorem sum_countPair (ps : List (Int × Int)) (n : Nat)
    (h : ∀ p ∈ ps, 0 ≤ p.1 ∧ 0 ≤ p.2 ∧ p.1 < n ∧ p.2 < n) :
    ∑ i ∈ range n, ∑ j ∈ range n, countPair ps (i : Int) (j : Int) = ps.length := by
  induction ps with
  | nil => simp [countPair]
  | cons p ps ih =>
    have hp := h p (List.mem_cons_self)
    have ih' := ih (fun q hq => h q (List.mem_cons_of_mem _ hq))
    have hc : ∀ i j : Int, countPair (p :: ps) i j
        = (if p.1 = i ∧ p.2 = j then 1 else 0) + countPair ps i j := by
      intro i j
      unfold countPair
      rw [List.filter_cons]
      split <;> rename_i hh
      · have : p.1 = i ∧ p.2 = j := by simpa using hh
        simp [this]; omega
      · have : ¬ (p.1 = i ∧ p.2 = j) := by simpa using hh
        simp [this]
    simp only [hc, Finset.sum_add_distrib, ih', List.length_cons]
    have : ∑ i ∈ range n, ∑ j ∈ range n, (if p.1 = (i:Int) ∧ p.2 = (j:Int) then 1 else 0) = 1 := by
      obtain ⟨a, ha⟩ := Int.eq_ofNat_of_zero_le hp.1
      obtain ⟨b, hb⟩ := Int.eq_ofNat_of_zero_le hp.2.1
      have ha' : a < n := by have := hp.2.2.1; rw [ha] at this; exact_mod_cast this
      have hb' : b < n := by have := hp.2.2.2; rw [hb] at this; exact_mod_cast this
      rw [ha, hb]
      rw [Finset.sum_eq_single a]
      · rw [Finset.sum_eq_single b]
        · simp
        · intro j _ hj
          have : ¬ ((b:Int) = (j:Int)) := by intro e; exact hj (by exact_mod_cast e.symm)
          simp [this]
        · intro hb''; exact absurd (Finset.mem_range.mpr hb') hb''
      · intro i _ hi
        have : ¬ ((a:Int) = (i:Int)) := by intro e; exact hi (by exact_mod_cast e.symm)
        simp [this]
      · intro ha''; exact absurd (Finset.mem_range.mpr ha') ha''
    omega

end Ens.Counts
