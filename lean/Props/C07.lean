import Proofs.C07Uniq
import Proofs.C07Examples
import Proofs.C07Exec
import Proofs.C07Exist
/-!
C07 — committors and mean first-passage times satisfy their first-step equations.

All statements are about the model `Model/Tpt.lean` (which mirrors `enspara/tpt/core.py`
statement by statement) and are stated with the model's own sum `sumTo`.  The numerical solvers
are parameters with contracts (`CommittorSolve`, `MfptSolve`, `FundInv`, `Stationary`), never
axioms; the `…_exec` theorems instantiate them with the certified exact solver that the driver
runs, so they speak about exactly the values the correspondence check compares against.

CORRESPONDENCE-ONLY clauses of the property (no theorem here; they are about containers, object identity and the
numerical eigen-solver, none of which the model has — `harness/props/c07.py` checks them on every case):
  * "dense and sparse inputs give the same values" (ndarray / np.matrix / Fortran / strided / float32 and the 7 scipy
    `*_matrix` containers are compared with each other on the real code);
  * "the inputs are not modified" (byte snapshots of every argument before/after every real call, also when the same
    objects are reused across calls);
  * populations GIVEN vs COMPUTED (`eq_probs` is a parameter with contract `Stationary`; that the library's own
    eigen-solver meets it, and that both ways give the same table, is checked numerically).
Existence of the solver outputs is NOT assumed silently: `ImQ_nonsingular`, `committor_solver_output_exists` and
`mfpt_solver_output_exists` prove that under the ergodicity hypotheses `I − Q` is non-singular, so the contracts
`CommittorSolve` / `MfptSolve` are satisfiable (and by `absorbing_unique` determine the output).  For the all-pairs
table the existence of the right inverse `Z` (`FundInv`) is a hypothesis (checked exactly on every correspondence case
by the certified solver; not proved in general).

Hypotheses are the property's quantifier: state indices in range, sources/sinks disjoint, sinks
listed without repetition, `T` non-negative and row-stochastic, absorbing set reachable from
every state ("ergodic"), `π` stationary with `Σ π = 1` and `π j ≠ 0`.
-/
open Ens Ens.Tpt Ens.LinSolveT

namespace C07
open Ens.Tpt.Ex

/-! ### committors -/

/-- Forward committors computed as in `committors` from ANY solution `B` of `(I−Q) B = R`:
0 on sources, 1 on sinks, transition-weighted average of the neighbours elsewhere. -/
theorem committor_first_step (n : Nat) (T : Mat) (sources sinks : List Nat) (B : Mat)
    (hsrc : ∀ s ∈ sources, s < n) (hsnk : ∀ s ∈ sinks, s < n)
    (hdisj : ∀ s ∈ sources, s ∉ sinks) (hnd : sinks.Nodup)
    (hB : CommittorSolve n T sources sinks B) :
    (∀ s ∈ sources, committorsFrom B sinks s = 0) ∧
    (∀ s ∈ sinks, committorsFrom B sinks s = 1) ∧
    (∀ i, i < n → i ∉ sources → i ∉ sinks →
      committorsFrom B sinks i = sumTo n (fun j => T i j * committorsFrom B sinks j)) := by
  simp only [sumTo_eq_sum]
  exact committor_first_step_fin hsrc hsnk hdisj hnd hB

example : (∀ s ∈ [0], s < 4) ∧ (∀ s ∈ [2, 3], s < 4) ∧ (∀ s ∈ [0], s ∉ [2, 3]) ∧
    [2, 3].Nodup ∧ CommittorSolve 4 T4 [0] [2, 3] B4 ∧ committorsFrom B4 [2, 3] 1 = 2/3 := by
  unfold CommittorSolve IsSolution; decide +kernel

/-- Why the pinning statement `committors[sinks] = 1.0` is there: `R[sinks] = 1.0` fills whole
rows, so at a sink the row sum of `B` is the NUMBER of sinks. -/
theorem committor_rowsum_at_sink (n : Nat) (T : Mat) (sources sinks : List Nat) (B : Mat)
    (hB : CommittorSolve n T sources sinks B) (s : Nat) (hs : s ∈ sinks) (hns : s ∉ sources)
    (hsn : s < n) : rowSums B sinks.length s = sinks.length :=
  rowSums_sink hB hs hns hsn

/-- Discrete maximum principle: any vector that is 0 on sources, 1 on sinks and harmonic elsewhere
lies in `[0,1]` when `T` is non-negative, row-stochastic and the absorbing set is reachable from
every state. -/
theorem harmonic_bounds (n : Nat) (T : Mat) (sources sinks : List Nat) (q : Vec)
    (hnn : ∀ i, i < n → ∀ j, j < n → 0 ≤ T i j)
    (hrow : ∀ i, i < n → sumTo n (fun j => T i j) = 1)
    (hreach : ∀ i, i < n → Reach n T (sources ++ sinks) i)
    (h0 : ∀ s ∈ sources, q s = 0) (h1 : ∀ s ∈ sinks, q s = 1)
    (hharm : ∀ i, i < n → i ∉ sources → i ∉ sinks → q i = sumTo n (fun j => T i j * q j)) :
    ∀ i, i < n → 0 ≤ q i ∧ q i ≤ 1 := by
  simp only [sumTo_eq_sum] at hrow hharm
  have hA : ∀ a ∈ sources ++ sinks, 0 ≤ q a ∧ q a ≤ 1 := by
    intro a ha
    rcases List.mem_append.1 ha with h | h
    · rw [h0 a h]; exact ⟨le_refl _, by decide +kernel⟩
    · rw [h1 a h]; exact ⟨by decide +kernel, le_refl _⟩
  have hh : ∀ i, i < n → i ∉ sources ++ sinks → q i = ∑ j ∈ Finset.range n, T i j * q j := by
    intro i hi hia
    simp only [List.mem_append, not_or] at hia
    exact hharm i hi hia.1 hia.2
  intro i hi
  exact ⟨harmonic_ge hnn hrow hreach (fun a ha => (hA a ha).1) hh i hi,
         harmonic_le hnn hrow hreach (fun a ha => (hA a ha).2) hh i hi⟩

/-- Committors as computed lie in `[0,1]` (full strength: every state, any solver output `B`). -/
theorem committor_bounds (n : Nat) (T : Mat) (sources sinks : List Nat) (B : Mat)
    (hsrc : ∀ s ∈ sources, s < n) (hsnk : ∀ s ∈ sinks, s < n)
    (hdisj : ∀ s ∈ sources, s ∉ sinks) (hnd : sinks.Nodup)
    (hnn : ∀ i, i < n → ∀ j, j < n → 0 ≤ T i j)
    (hrow : ∀ i, i < n → sumTo n (fun j => T i j) = 1)
    (hreach : ∀ i, i < n → Reach n T (sources ++ sinks) i)
    (hB : CommittorSolve n T sources sinks B) :
    ∀ i, i < n → 0 ≤ committorsFrom B sinks i ∧ committorsFrom B sinks i ≤ 1 := by
  obtain ⟨h0, h1, hh⟩ := committor_first_step n T sources sinks B hsrc hsnk hdisj hnd hB
  exact harmonic_bounds n T sources sinks _ hnn hrow hreach h0 h1 hh

example : (∀ i, i < 4 → ∀ j, j < 4 → 0 ≤ T4 i j) ∧ (∀ i, i < 4 → sumTo 4 (fun j => T4 i j) = 1) ∧
    (∀ i, i < 4 → Reach 4 T4 ([0] ++ [2, 3]) i) := ⟨by decide +kernel, by decide +kernel, reach_T4⟩

/-- The same facts for what the driver's `committors` returns (certified exact solver). -/
theorem committor_exec (n : Nat) (T : Mat) (sources sinks : List Nat) (q : Vec)
    (hdisj : ∀ s ∈ sources, s ∉ sinks) (hnd : sinks.Nodup)
    (hq : committors n T sources sinks = .ok q) :
    (∀ s ∈ sources, q s = 0) ∧ (∀ s ∈ sinks, q s = 1) ∧
    (∀ i, i < n → i ∉ sources → i ∉ sinks → q i = sumTo n (fun j => T i j * q j)) := by
  simp only [sumTo_eq_sum]
  exact committors_ok_first_step hdisj hnd hq

example : okVal (committors 4 T4 [0] [2, 3]) 1 = some (2/3) ∧
    okVal (committors 4 T4 [0] [2, 3]) 3 = some 1 ∧
    okVal (committors 4 T4 [0] [7]) 0 = none := by decide +kernel

/-! ### the solver outputs exist -/

/-- Under the ergodicity hypotheses `I − Q` is non-singular (finite square system: uniqueness from the maximum
principle ⇒ injective ⇒ unit). -/
theorem ImQ_nonsingular (n : Nat) (T : Mat) (S : List Nat)
    (hS : ∀ s ∈ S, s < n)
    (hnn : ∀ i, i < n → ∀ j, j < n → 0 ≤ T i j)
    (hrow : ∀ i, i < n → sumTo n (fun j => T i j) = 1)
    (hreach : ∀ i, i < n → Reach n T S i) :
    IsUnit (toMatrix n (ImQ T S)) := by
  simp only [sumTo_eq_sum] at hrow
  exact ImQ_isUnit hS hnn hrow hreach

/-- …so a solver output with the contract `(I−Q) B = R` exists for `committors` (and is unique on `0 … n-1`). -/
theorem committor_solver_output_exists (n : Nat) (T : Mat) (sources sinks : List Nat)
    (hsrc : ∀ s ∈ sources, s < n) (hsnk : ∀ s ∈ sinks, s < n)
    (hnn : ∀ i, i < n → ∀ j, j < n → 0 ≤ T i j)
    (hrow : ∀ i, i < n → sumTo n (fun j => T i j) = 1)
    (hreach : ∀ i, i < n → Reach n T (sources ++ sinks) i) :
    ∃ B : Mat, CommittorSolve n T sources sinks B := by
  simp only [sumTo_eq_sum] at hrow
  have hS : ∀ s ∈ sources ++ sinks, s < n := fun s hs =>
    (List.mem_append.1 hs).elim (hsrc s) (hsnk s)
  exact absorbing_exists hS hnn hrow hreach sinks.length (Rmat T sources sinks)

/-- …and for `mfpts(sinks=…)`. -/
theorem mfpt_solver_output_exists (n : Nat) (T : Mat) (sinks : List Nat)
    (hsnk : ∀ s ∈ sinks, s < n)
    (hnn : ∀ i, i < n → ∀ j, j < n → 0 ≤ T i j)
    (hrow : ∀ i, i < n → sumTo n (fun j => T i j) = 1)
    (hreach : ∀ i, i < n → Reach n T sinks i) :
    ∃ t : Vec, MfptSolve n T sinks t := by
  simp only [sumTo_eq_sum] at hrow
  obtain ⟨B, hB⟩ := absorbing_exists hsnk hnn hrow hreach 1 (cVec sinks)
  refine ⟨fun i => B i 0, ?_⟩
  intro i hi k hk
  have hk0 : k = 0 := by omega
  subst hk0
  exact hB i hi 0 hk

example : (∀ s ∈ [0] ++ [2, 3], s < 4) ∧ (∀ i, i < 4 → Reach 4 T4 ([0] ++ [2, 3]) i) :=
  ⟨by decide, reach_T4⟩

/-! ### mean first-passage times to a sink set -/

/-- MFPTs to a sink set, from ANY solution `t` of `(I−Q) t = c`: 0 on the sinks, one lag time
plus the transition-weighted average of the neighbours' times elsewhere. -/
theorem mfpt_sinks_first_step (n : Nat) (T : Mat) (sinks : List Nat) (t : Vec) (lag : Rat)
    (hsnk : ∀ s ∈ sinks, s < n) (ht : MfptSolve n T sinks t) :
    (∀ s ∈ sinks, mfptSinksFrom lag t s = 0) ∧
    (∀ i, i < n → i ∉ sinks →
      mfptSinksFrom lag t i = lag + sumTo n (fun j => T i j * mfptSinksFrom lag t j)) := by
  simp only [sumTo_eq_sum]
  exact mfpt_sinks_fin lag hsnk ht

example : (∀ s ∈ [2], s < 3) ∧ MfptSolve 3 T3 [2] t3 ∧ mfptSinksFrom (5/2) t3 0 = 20 := by
  unfold MfptSolve IsSolution; decide +kernel

theorem mfpt_sinks_exec (n : Nat) (T : Mat) (sinks : List Nat) (lag : Rat) (m : Vec)
    (hm : mfptsSinks n T sinks lag = .ok m) :
    (∀ s ∈ sinks, m s = 0) ∧
    (∀ i, i < n → i ∉ sinks → m i = lag + sumTo n (fun j => T i j * m j)) := by
  unfold mfptsSinks at hm
  split at hm
  · rename_i hidx
    simp only [idxOk, List.all_eq_true, decide_eq_true_eq] at hidx
    split at hm
    · exact absurd hm (by simp)
    · rename_i t hsol
      have : mfptSinksFrom lag (fun i => t i 0) = m := by simpa using hm
      subst this
      have ht : MfptSolve n T sinks (fun i => t i 0) := by
        intro i hi k hk
        have hk0 : k = 0 := by omega
        subst hk0
        exact solve_sound hsol i hi 0 hk
      exact mfpt_sinks_first_step n T sinks _ lag hidx ht
  · exact absurd hm (by simp)

example : okVal (mfptsSinks 3 T3 [2] (5/2)) 0 = some 20 ∧ okVal (mfptsSinks 3 T3 [2] (5/2)) 2 = some 0 := by
  decide +kernel

/-- Both tables scale linearly with the lag time: the lag multiplies the solver output, which
does not depend on it (source: `lagtime * np.linalg.solve(…)`, `lagtime * (…) / W`). -/
theorem mfpt_lag_linear (a lag : Rat) (t : Vec) (Z : Mat) (π : Vec) :
    (∀ i, mfptSinksFrom (a * lag) t i = a * mfptSinksFrom lag t i) ∧
    (∀ i j, mfptAll (a * lag) Z π i j = a * mfptAll lag Z π i j) := by
  refine ⟨fun i => ?_, fun i j => ?_⟩
  · simp only [mfptSinksFrom]; ring
  · simp only [mfptAll]; ring

/-- …and for the executable reference: the result for lag `lag` is `lag ·` the result for lag 1,
errors included. -/
theorem mfpt_lag_linear_exec (n : Nat) (T : Mat) (sinks : List Nat) (π : Vec) (lag : Rat) :
    mfptsSinks n T sinks lag = (mfptsSinks n T sinks 1).map (fun t i => lag * t i) ∧
    mfptsAll n T π lag = (mfptsAll n T π 1).map (fun m i j => lag * m i j) := by
  constructor
  · unfold mfptsSinks
    split
    · split
      · rfl
      · simp only [Except.map]; congr 1; funext i; simp only [mfptSinksFrom]; ring
    · rfl
  · unfold mfptsAll
    split
    · split
      · rfl
      · simp only [Except.map]; congr 1; funext i j; simp only [mfptAll]; ring
    · rfl

/-! ### all-pairs table -/

/-- All-pairs MFPTs from the fundamental matrix: for `π` stationary with `Σ π = 1`, `T`
row-stochastic and `Z` ANY right inverse of `I − T + W`, column `j` (with `π j ≠ 0`) satisfies the
first-step equations of the single sink `j`. -/
theorem mfpt_all_first_step (n : Nat) (T : Mat) (π : Vec) (Z : Mat) (lag : Rat)
    (hrow : ∀ i, i < n → sumTo n (fun j => T i j) = 1)
    (hπ : Stationary n T π) (hZ : FundInv n T π Z)
    (j : Nat) (hj : j < n) (hπj : π j ≠ 0) :
    mfptAll lag Z π j j = 0 ∧
    ∀ i, i < n → i ≠ j →
      mfptAll lag Z π i j = lag + sumTo n (fun k => T i k * mfptAll lag Z π k j) := by
  obtain ⟨hst, hsum⟩ := hπ
  simp only [sumTo_eq_sum] at hrow hst hsum ⊢
  exact mfpt_all_fin lag hrow hst hsum hZ hj hπj

example : (∀ i, i < 3 → sumTo 3 (fun j => T3 i j) = 1) ∧ Stationary 3 T3 π3 ∧
    FundInv 3 T3 π3 Z3 ∧ π3 2 ≠ 0 ∧ mfptAll 1 Z3 π3 0 2 = 8 := by
  unfold Stationary FundInv IsSolution; decide +kernel

/-- The exact stand-in for `eq_probs` only ever returns a stationary distribution. -/
theorem eq_probs_exec (n : Nat) (T : Mat) (π : Vec) (h : eqProbs n T = .ok π) :
    Stationary n T π := by
  unfold eqProbs at h
  simp only at h
  split at h
  · exact absurd h (by simp)
  · split at h
    · rename_i x _ hok
      have : (fun i => x i 0) = π := by simpa using h
      subst this
      simp only [stationaryOk, Bool.and_eq_true, List.all_eq_true, List.mem_range,
        decide_eq_true_eq] at hok
      exact hok
    · exact absurd h (by simp)

/-- What the driver's all-pairs table satisfies (certified exact inverse plugged in). -/
theorem mfpt_all_exec (n : Nat) (T : Mat) (π : Vec) (lag : Rat) (m : Mat)
    (hrow : ∀ i, i < n → sumTo n (fun j => T i j) = 1) (hπ : Stationary n T π)
    (hm : mfptsAll n T π lag = .ok m) :
    ∀ j, j < n → m j j = 0 ∧ ∀ i, i < n → i ≠ j → m i j = lag + sumTo n (fun k => T i k * m k j) := by
  unfold mfptsAll at hm
  split at hm
  · rename_i hnz
    simp only [List.all_eq_true, List.mem_range, decide_eq_true_eq] at hnz
    split at hm
    · exact absurd hm (by simp)
    · rename_i Z hsol
      have : mfptAll lag Z π = m := by simpa using hm
      subst this
      intro j hj
      exact mfpt_all_first_step n T π Z lag hrow hπ (solve_sound hsol) j hj (hnz j hj)
  · exact absurd hm (by simp)

example : okVal (eqProbs 3 T3) 1 = some (1/2) ∧ okEntry (mfptsAll 3 T3 π3 1) 0 2 = some 8 ∧
    okEntry (mfptsAll 3 T3 π3 10) 2 0 = some 80 := by decide +kernel

/-- Column `j` of the all-pairs table equals the single-sink computation for the sink `{j}`
whenever the single-sink system determines its solution uniquely. -/
theorem mfpt_all_eq_single_sink (n : Nat) (T : Mat) (π : Vec) (Z : Mat) (t : Vec) (lag : Rat)
    (hrow : ∀ i, i < n → sumTo n (fun j => T i j) = 1)
    (hπ : Stationary n T π) (hZ : FundInv n T π Z)
    (j : Nat) (hj : j < n) (hπj : π j ≠ 0)
    (ht : MfptSolve n T [j] t)
    (huniq : ∀ (b : Mat) (x y : Vec), IsSolution n 1 (ImQ T [j]) (fun i _ => x i) b →
      IsSolution n 1 (ImQ T [j]) (fun i _ => y i) b → ∀ i, i < n → x i = y i) :
    ∀ i, i < n → mfptAll lag Z π i j = mfptSinksFrom lag t i := by
  obtain ⟨h0, h1⟩ := mfpt_all_first_step n T π Z lag hrow hπ hZ j hj hπj
  simp only [sumTo_eq_sum] at h1
  have hx : IsSolution n 1 (ImQ T [j]) (fun i _ => mfptAll lag Z π i j)
      (fun i k => lag * cVec [j] i k) :=
    first_step_isSolution (x := fun i => mfptAll lag Z π i j)
      (fun s hs => by rw [List.mem_singleton.1 hs]; exact h0)
      (fun i hi his => h1 i hi (fun e => his (by simp [e])))
  exact huniq _ _ _ hx (mfptSolve_scale lag ht)

/-- The uniqueness hypothesis holds under the property's quantifier (non-negative row-stochastic
`T`, state `j` reachable from every state), so there the columns agree unconditionally. -/
theorem mfpt_all_eq_single_sink_ergodic (n : Nat) (T : Mat) (π : Vec) (Z : Mat) (t : Vec)
    (lag : Rat)
    (hnn : ∀ i, i < n → ∀ j, j < n → 0 ≤ T i j)
    (hrow : ∀ i, i < n → sumTo n (fun j => T i j) = 1)
    (hπ : Stationary n T π) (hZ : FundInv n T π Z)
    (j : Nat) (hj : j < n) (hπj : π j ≠ 0)
    (hreach : ∀ i, i < n → Reach n T [j] i)
    (ht : MfptSolve n T [j] t) :
    ∀ i, i < n → mfptAll lag Z π i j = mfptSinksFrom lag t i := by
  refine mfpt_all_eq_single_sink n T π Z t lag hrow hπ hZ j hj hπj ht ?_
  intro b x y hx hy
  simp only [sumTo_eq_sum] at hrow
  exact absorbing_unique (fun s hs => by rw [List.mem_singleton.1 hs]; exact hj) hnn hrow hreach hx hy

example : (∀ i, i < 3 → ∀ j, j < 3 → 0 ≤ T3 i j) ∧ (∀ i, i < 3 → Reach 3 T3 [2] i) ∧
    MfptSolve 3 T3 [2] t3 ∧ mfptAll 1 Z3 π3 0 2 = mfptSinksFrom 1 t3 0 := by
  refine ⟨by decide +kernel, reach_T3, ?_, by decide +kernel⟩
  unfold MfptSolve IsSolution; decide +kernel

end C07
