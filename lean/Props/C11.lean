import Proofs.C11Csv
/-!
# C11 — ergodic trimming keeps exactly the heaviest strongly connected component

Model: `Model/Trim.lean` (`Ens.Trim.trimDisconnected`, mirror of
`enspara.msm.transition_matrices.trim_disconnected`, and `TrimMapping`).
Graph: `i → j` iff `thr ≤ C i j ∧ C i j ≠ 0` between states `< n`.
scipy's component numbering (`labels`, `nsub`) is a parameter of the model; every theorem about
`trimDisconnected` assumes only `validLabeling (closure …) n labels nsub = true`, i.e. that the
numbering IS the partition into strongly connected components of the model's own Warshall closure,
numbered `0 … nsub-1` without gaps.  The driver evaluates exactly this Boolean on scipy's labels for
every correspondence case; the examples below show the hypothesis is satisfiable on a graph with a
one-way link and two competing components.  Which maximal component wins a weight tie depends
on scipy's numbering (first maximal label, `keep_label_first_max`); with the labelling fixed the
output is fully determined.  The correspondence passes scipy's ORIGINAL numbering to the model, so the
first-maximum choice is compared with the implementation's pick also under ties (a different but still
heaviest pick satisfies the property and is reported as a broken correspondence, not as a violation).

Correspondence-only clauses.  The model has no notion of a container and no `MSM.fit`, hence two clauses
of the property statement are NOT theorems here and are established only by the differential /
predicate check in `harness/props/c11.py` on the real code:
* "dense and sparse inputs agree and keep their container type" (ndarray, np.matrix, every scipy sparse
  `*_matrix` / `*_array` class, canonical and non-canonical storage; result type `is` the input type);
* "a model fitted with trimming reports the same mapping" (`MSM(trim=True).fit(a).mapping_` equals the mapping
  of `trim_disconnected` on the counts, and satisfies the predicate w.r.t. an independent pair count).
Likewise "the caller's matrix is unchanged" is checked on the real code only (the model is functional).
-/
namespace C11
open Ens Ens.Trim

/-- reachability along thresholded edges between states `< n`, spelled out -/
abbrev Reaches (n : Nat) (e : Nat → Nat → Bool) (i j : Nat) : Prop :=
  Relation.ReflTransGen (fun a b => a < n ∧ b < n ∧ e a b = true) i j

/-- what an edge is: the count reaches the threshold and is not zero (so for `thr ≤ 0` every
    non-zero count is an edge, as for scipy after `thresholded_counts[counts < thr] = 0`) -/
theorem edge_iff (C : Nat → Nat → Nat) (thr : Int) (i j : Nat) :
    edge C thr i j = true ↔ thr ≤ (C i j : Int) ∧ C i j ≠ 0 := by
  simp [edge]

/-- the Warshall closure is reflexive–transitive reachability — all `n`, all graphs -/
theorem closure_is_reach (n : Nat) (e : Nat → Nat → Bool) (i j : Nat) (hi : i < n) (hj : j < n) :
    reachB n e i j = true ↔ Reaches n e i j :=
  reachB_iff_reach n e hi hj

/-- `sccOf i` is the set of states mutually reachable with `i`, ascending -/
theorem sccOf_spec (C : Nat → Nat → Nat) (n : Nat) (thr : Int) (i : Nat) (hi : i < n) :
    (sccOf C n thr i).Pairwise (· < ·) ∧
    ∀ j, j ∈ sccOf C n thr i ↔
      j < n ∧ Reaches n (edge C thr) i j ∧ Reaches n (edge C thr) j i :=
  ⟨sccOfM_pairwise _ _ _, fun _ => mem_sccOf hi⟩

/-- the only error: an empty matrix (`np.argmax` of an empty list) -/
theorem trim_error_iff_empty (C : Nat → Nat → Nat) (n : Nat) (thr : Int) (labels : Nat → Nat) (nsub : Nat)
    (renumber : Bool) (hv : validLabeling (closure n (edge C thr)) n labels nsub = true) :
    ((∃ err, trimDisconnected C n labels nsub renumber = .error err) ↔ n = 0) ∧
    (trimDisconnected C n labels nsub renumber = .error .valueError ↔ n = 0) := by
  have v := valid_of_validLabeling hv
  have h0 : nsub = 0 ↔ n = 0 := by have := valid_nsub_pos v; omega
  refine ⟨by rw [Ens.Trim.trim_error_iff, h0], ?_⟩
  rw [← h0]
  constructor
  · intro h; exact (Ens.Trim.trim_error_iff renumber).1 ⟨_, h⟩
  · intro h; simp [trimDisconnected, h]

/-- the kept set is a strongly connected component: non-empty, its states are mutually reachable,
    and it is maximal (every state mutually reachable with a kept state is kept) -/
theorem keep_is_scc (C : Nat → Nat → Nat) (n : Nat) (thr : Int) (labels : Nat → Nat) (nsub : Nat)
    (renumber : Bool) (r : Result)
    (hv : validLabeling (closure n (edge C thr)) n labels nsub = true)
    (h : trimDisconnected C n labels nsub renumber = .ok r) :
    r.keep ≠ [] ∧ (∀ i ∈ r.keep, i < n) ∧
    ∀ i ∈ r.keep, ∀ j, j < n →
      (j ∈ r.keep ↔ Reaches n (edge C thr) i j ∧ Reaches n (edge C thr) j i) := by
  have v := valid_of_validLabeling hv
  obtain ⟨h0, hk⟩ := trim_keep h
  rw [hk]
  refine ⟨?_, ?_, ?_⟩
  · obtain ⟨i, hi⟩ := keepStates_nonempty (C := C) v h0
    exact List.ne_nil_of_mem hi
  · intro i hi; exact (mem_members.1 hi).1
  · intro i hi j hj
    rw [keepStates_eq_sccOf v hi, mem_sccOf (mem_members.1 hi).1]
    exact ⟨fun h => h.2, fun h => ⟨hj, h⟩⟩

/-- the kept component has maximal total weight, the weight of a set being the sum of the
    ORIGINAL (un-thresholded) row sums of its states; it is one of the model's `heaviest` -/
theorem keep_heaviest (C : Nat → Nat → Nat) (n : Nat) (thr : Int) (labels : Nat → Nat) (nsub : Nat)
    (renumber : Bool) (r : Result)
    (hv : validLabeling (closure n (edge C thr)) n labels nsub = true)
    (h : trimDisconnected C n labels nsub renumber = .ok r) :
    (∀ S, weight C n S = (S.map fun i => sumTo n fun j => C i j).sum) ∧
    (∀ j, j < n → weight C n (sccOf C n thr j) ≤ weight C n r.keep) ∧
    r.keep ∈ heaviest C n thr := by
  have v := valid_of_validLabeling hv
  obtain ⟨h0, hk⟩ := trim_keep h
  rw [hk]
  exact ⟨fun _ => rfl, fun j hj => keepStates_weight_ge v hj, keepStates_mem_heaviest v h0⟩

/-- `heaviest` is exactly the set of SCCs of maximal weight (label-free specification) -/
theorem heaviest_spec (C : Nat → Nat → Nat) (n : Nat) (thr : Int) (S : List Nat) :
    S ∈ heaviest C n thr ↔
      (∃ i, i < n ∧ S = sccOf C n thr i) ∧
      ∀ j, j < n → weight C n (sccOf C n thr j) ≤ weight C n S :=
  mem_heaviest_iff

/-- tie-break of the code: the kept states are those of the FIRST label of maximal weight -/
theorem keep_label_first_max (C : Nat → Nat → Nat) (n : Nat) (labels : Nat → Nat) (nsub : Nat)
    (renumber : Bool) (r : Result) (h : trimDisconnected C n labels nsub renumber = .ok r) :
    ∃ l, l < nsub ∧ (∀ i, i ∈ r.keep ↔ i < n ∧ labels i = l) ∧
      (∀ l', l' < nsub → subgraphPop C n labels l' ≤ subgraphPop C n labels l) ∧
      (∀ l', l' < l → subgraphPop C n labels l' < subgraphPop C n labels l) := by
  obtain ⟨h0, hk⟩ := trim_keep h
  refine ⟨argmaxTo nsub (subgraphPop C n labels), argmaxTo_lt _ (Nat.pos_of_ne_zero h0), ?_, ?_, ?_⟩
  · intro i; rw [hk]; exact mem_members
  · intro l' hl'; exact le_argmaxTo _ hl'
  · intro l' hl'; exact lt_argmaxTo _ hl'

/-- renumbered variant: a compact `|keep| × |keep|` matrix with `C' a b = C (keep a) (keep b)` -/
theorem trim_renumbered_entries (C : Nat → Nat → Nat) (n : Nat) (labels : Nat → Nat) (nsub : Nat)
    (r : Result) (h : trimDisconnected C n labels nsub true = .ok r) :
    r.shape = r.keep.length ∧
    ∀ a b (ha : a < r.keep.length) (hb : b < r.keep.length), r.entry a b = C r.keep[a] r.keep[b] :=
  ⟨(trim_inv_renumber h).2.2.1, fun _ _ ha hb => renumber_entry h ha hb⟩

/-- in-place variant: same shape, original counts between kept states, 0 on every removed
    row and column -/
theorem trim_inplace_entries (C : Nat → Nat → Nat) (n : Nat) (labels : Nat → Nat) (nsub : Nat)
    (r : Result) (h : trimDisconnected C n labels nsub false = .ok r) :
    r.shape = n ∧
    (∀ i j, i ∈ r.keep → j ∈ r.keep → r.entry i j = C i j) ∧
    (∀ i j, i < n → j < n → (i ∉ r.keep ∨ j ∉ r.keep) → r.entry i j = 0) :=
  ⟨(trim_inv_inplace h).2.2.1, fun _ _ hi hj => inplace_entry_in h hi hj,
   fun _ _ hi hj ho => inplace_entry_out h hi hj ho⟩

/-- the trimmed matrix is strongly connected w.r.t. the thresholded edges OF THE TRIMMED MATRIX
    (walks between kept states never leave the component): every new state reaches every
    new state in the renumbered matrix; every kept state reaches every kept state in the in-place
    matrix, whose removed states have no edge at all.  (A single kept state is strongly
    connected by reflexivity, whatever its self count.) -/
theorem trim_strongly_connected (C : Nat → Nat → Nat) (n : Nat) (thr : Int) (labels : Nat → Nat)
    (nsub : Nat) (hv : validLabeling (closure n (edge C thr)) n labels nsub = true) :
    (∀ r, trimDisconnected C n labels nsub true = .ok r →
      ∀ a b, a < r.shape → b < r.shape → Reaches r.shape (edge r.entry thr) a b) ∧
    (∀ r, trimDisconnected C n labels nsub false = .ok r →
      (∀ i j, i ∈ r.keep → j ∈ r.keep → Reaches n (edge r.entry thr) i j) ∧
      (∀ i j, i < n → j < n → (i ∉ r.keep ∨ j ∉ r.keep) → edge r.entry thr i j = false)) := by
  have v := valid_of_validLabeling hv
  refine ⟨?_, ?_⟩
  · intro r h a b ha hb
    have hs := (trim_inv_renumber h).2.2.1
    rw [hs] at ha hb ⊢
    exact renumber_strongly_connected v h ha hb
  · intro r h
    exact ⟨fun i j hi hj => inplace_strongly_connected v h hi hj,
      fun i j hi hj ho => inplace_no_edge_out h hi hj ho⟩

/-- the mapping: `keep` is strictly increasing; (renumbered) new id `t` ↦ `keep[t]` is an
    order-preserving bijection from `0 … |keep|-1` onto `keep` and `to_mapped` is its inverse;
    (in place) both dictionaries are the identity on `keep`. -/
theorem mapping_order_iso (C : Nat → Nat → Nat) (n : Nat) (labels : Nat → Nat) (nsub : Nat) :
    (∀ r, trimDisconnected C n labels nsub true = .ok r →
      r.keep.Pairwise (· < ·) ∧
      (∀ a b (ha : a < r.keep.length) (hb : b < r.keep.length), a < b → r.keep[a] < r.keep[b]) ∧
      (∀ t o, r.mapping.originalOf t = some o ↔ r.keep[t]? = some o) ∧
      (∀ o t, r.mapping.mappedOf o = some t ↔ r.keep[t]? = some o) ∧
      (∀ o t, r.mapping.mappedOf o = some t ↔ r.mapping.originalOf t = some o)) ∧
    (∀ r, trimDisconnected C n labels nsub false = .ok r →
      r.keep.Pairwise (· < ·) ∧
      (∀ t o, r.mapping.originalOf t = some o ↔ (o = t ∧ o ∈ r.keep)) ∧
      (∀ o t, r.mapping.mappedOf o = some t ↔ (o = t ∧ o ∈ r.keep))) := by
  refine ⟨?_, ?_⟩
  · intro r h
    obtain ⟨_, hk, _, _, hm⟩ := trim_inv_renumber h
    have hp : r.keep.Pairwise (· < ·) := hk ▸ members_pairwise _ _ _
    have hnd : r.keep.Nodup := hp.imp (fun h => Nat.ne_of_lt h)
    have h1 : ((r.keep.zip (List.range r.keep.length)).map Prod.fst).Nodup := by
      rw [List.map_fst_zip (by simp)]; exact hnd
    have h2 : ((r.keep.zip (List.range r.keep.length)).map Prod.snd).Nodup := by
      rw [List.map_snd_zip (by simp)]; exact List.nodup_range
    obtain ⟨_, _, l1, l2⟩ := ofTransformations_lookup h1 h2
    rw [hm]
    refine ⟨hp, ?_, ?_, ?_, ?_⟩
    · intro a b ha hb hab
      exact List.pairwise_iff_getElem.1 hp a b ha hb hab
    · intro t o; rw [l1, mem_zip_range]
    · intro o t; rw [l2, mem_zip_range]
    · intro o t; rw [l1, l2]
  · intro r h
    obtain ⟨_, hk, _, _, hm⟩ := trim_inv_inplace h
    have hp : r.keep.Pairwise (· < ·) := hk ▸ members_pairwise _ _ _
    have hnd : r.keep.Nodup := hp.imp (fun h => Nat.ne_of_lt h)
    have h1 : ((r.keep.zip r.keep).map Prod.fst).Nodup := by
      rw [List.map_fst_zip (by simp)]; exact hnd
    have h2 : ((r.keep.zip r.keep).map Prod.snd).Nodup := by
      rw [List.map_snd_zip (by simp)]; exact hnd
    obtain ⟨_, _, l1, l2⟩ := ofTransformations_lookup h1 h2
    rw [hm]
    refine ⟨hp, ?_, ?_⟩
    · intro t o; rw [l1, mem_zip_self]
    · intro o t; rw [l2, mem_zip_self]

/-- renumbered and in-place results describe the same model: same kept states, the compact matrix
    is the in-place matrix restricted to `keep`, everything outside `keep` is zero in place, and
    composing the renumbered mapping with the in-place one changes nothing. -/
theorem renumbered_eq_inplace_restricted (C : Nat → Nat → Nat) (n : Nat) (labels : Nat → Nat)
    (nsub : Nat) (r₁ r₂ : Result) (h₁ : trimDisconnected C n labels nsub true = .ok r₁)
    (h₂ : trimDisconnected C n labels nsub false = .ok r₂) :
    r₁.keep = r₂.keep ∧
    (∀ a b (ha : a < r₁.keep.length) (hb : b < r₁.keep.length),
      r₁.entry a b = r₂.entry r₁.keep[a] r₁.keep[b]) ∧
    (∀ i j, i < n → j < n → (i ∉ r₁.keep ∨ j ∉ r₁.keep) → r₂.entry i j = 0) ∧
    (∀ t o, r₁.mapping.originalOf t = some o → r₂.mapping.originalOf o = some o) := by
  have hk : r₁.keep = r₂.keep := by rw [(trim_inv_renumber h₁).2.1, (trim_inv_inplace h₂).2.1]
  refine ⟨hk, ?_, ?_, ?_⟩
  · intro a b ha hb
    rw [renumber_entry h₁ ha hb, inplace_entry_in h₂ (hk ▸ List.getElem_mem ha) (hk ▸ List.getElem_mem hb)]
  · intro i j hi hj ho
    exact inplace_entry_out h₂ hi hj (hk ▸ ho)
  · intro t o hto
    have hm := ((mapping_order_iso C n labels nsub).1 r₁ h₁).2.2.1 t o
    have := ((mapping_order_iso C n labels nsub).2 r₂ h₂).2.1 o o
    rw [this]
    refine ⟨rfl, ?_⟩
    rw [← hk]
    exact List.mem_of_getElem? (hm.1 hto)

/-- `TrimMapping.read(write(m)) == m` for the mapping of either variant (exact equality of the
    stored dictionary, csv cells going through `str`/`int`) -/
theorem trimmapping_roundtrip (C : Nat → Nat → Nat) (n : Nat) (labels : Nat → Nat) (nsub : Nat)
    (renumber : Bool) (r : Result) (h : trimDisconnected C n labels nsub renumber = .ok r) :
    TrimMapping.read r.mapping.write = .ok r.mapping := by
  cases renumber
  · obtain ⟨_, hk, _, _, hm⟩ := trim_inv_inplace h
    have hp : r.keep.Pairwise (· < ·) := hk ▸ members_pairwise _ _ _
    rw [hm]
    apply read_write_sorted
    · rw [List.map_fst_zip (by simp)]; exact hp
    · rw [List.map_snd_zip (by simp)]; exact hp.imp (fun h => Nat.ne_of_lt h)
  · obtain ⟨_, hk, _, _, hm⟩ := trim_inv_renumber h
    have hp : r.keep.Pairwise (· < ·) := hk ▸ members_pairwise _ _ _
    rw [hm]
    apply read_write_sorted
    · rw [List.map_fst_zip (by simp)]; exact hp
    · rw [List.map_snd_zip (by simp)]; exact List.nodup_range

/-- round trip for ANY mapping that is one-to-one (rows come back sorted by original id, so
    equality is equality of dictionaries = permutation of the item lists + same lookups) -/
theorem trimmapping_roundtrip_general (m : TrimMapping) (h1 : (m.toOriginal.map Prod.fst).Nodup)
    (h2 : (m.toOriginal.map Prod.snd).Nodup) :
    ∃ m', TrimMapping.read m.write = .ok m' ∧ m'.toOriginal.Perm m.toOriginal ∧
      m'.toMapped.Perm m.toMapped ∧
      (∀ t, m'.originalOf t = m.originalOf t) ∧ (∀ o, m'.mappedOf o = m.mappedOf o) :=
  read_write_perm m h1 h2

/-- a csv file whose header is not `original,mapped` is rejected, an empty one too -/
theorem read_rejects (h : List String) (rest : List (List String)) (hh : h ≠ csvHeader) :
    TrimMapping.read (h :: rest) = .error .assertion ∧ TrimMapping.read [] = .error .stopIteration := by
  simp [TrimMapping.read, hh]

/-! ### non-vacuity: a graph with a one-way link and two competing components

States 0↔1 (counts 2, 1), one-way 1→2 (count 5), 2↔3 (counts 1, 1).  Row sums 2, 6, 1, 1.
At threshold 1 the components are {0,1} (weight 8) and {2,3} (weight 2); at threshold 2 all
components are singletons and state 1 (weight 6) wins; scipy-style numberings `[1,1,0,0]`
and `[3,2,1,0]`. -/

def exC : Nat → Nat → Nat := fun i j =>
  (([[0,2,0,0],[1,0,5,0],[0,0,0,1],[0,0,1,0]] : List (List Nat)).getD i []).getD j 0
def exL1 : Nat → Nat := fun i => ([1,1,0,0] : List Nat).getD i 0
def exL2 : Nat → Nat := fun i => ([3,2,1,0] : List Nat).getD i 0

example : validLabeling (closure 4 (edge exC 1)) 4 exL1 2 = true := by decide
example : validLabeling (closure 4 (edge exC 2)) 4 exL2 4 = true := by decide
/-- the one-way link 1→2 does not merge the components; a weakly-connected labelling is rejected -/
example : validLabeling (closure 4 (edge exC 1)) 4 (fun _ => 0) 1 = false := by decide
example : reachB 4 (edge exC 1) 0 3 = true ∧ reachB 4 (edge exC 1) 3 0 = false := by decide
example : heaviest exC 4 1 = [[0,1],[0,1]] ∧ heaviest exC 4 2 = [[1]] := by decide
example : ∃ r, trimDisconnected exC 4 exL1 2 true = .ok r ∧ r.keep = [0,1] ∧
    r.toLists = [[0,2],[1,0]] ∧ r.mapping.toOriginal = [(0,0),(1,1)] := ⟨_, rfl, by decide⟩
example : ∃ r, trimDisconnected exC 4 exL2 4 true = .ok r ∧ r.keep = [1] ∧
    r.toLists = [[0]] ∧ r.mapping.toOriginal = [(0,1)] ∧ r.mapping.toMapped = [(1,0)] :=
  ⟨_, rfl, by decide⟩
example : ∃ r, trimDisconnected exC 4 exL2 4 false = .ok r ∧ r.keep = [1] ∧
    r.toLists = [[0,0,0,0],[0,0,0,0],[0,0,0,0],[0,0,0,0]] ∧ r.mapping.toOriginal = [(1,1)] :=
  ⟨_, rfl, by decide⟩
example : trimDisconnected exC 0 exL1 0 true = .error .valueError := rfl
/-- `write` sorts the rows by original id (here the dictionary order is the other one) -/
example : (TrimMapping.ofTransformations [(5,0),(2,1)]).write
    = [["original","mapped"],["2","1"],["5","0"]] := by
  simp [TrimMapping.write, TrimMapping.toMapped, TrimMapping.ofTransformations, dictOf, dictInsert,
    swap, csvHeader, List.mergeSort]
  decide
/-- hypotheses of `trimmapping_roundtrip_general` on a mapping that is NOT sorted -/
example : (((TrimMapping.ofTransformations [(5,0),(2,1)]).toOriginal.map Prod.fst).Nodup) ∧
    (((TrimMapping.ofTransformations [(5,0),(2,1)]).toOriginal.map Prod.snd).Nodup) := by decide
/-- non-injective transformations are outside `trimmapping_roundtrip_general`: the later pair wins -/
example : (TrimMapping.ofTransformations [(2,0),(5,0)]).toOriginal = [(0,5)] := by decide

end C11
