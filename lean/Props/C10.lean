import Proofs.C10Assign
import Proofs.C10Partition
import Proofs.C10Centers
import Proofs.C10Batches
/-!
C10 — nearest-center assignment and per-trajectory bookkeeping are exact.

Model: `Model/Assign.lean` (mirrors `enspara/cluster/util.py` and `enspara/ra/ra.py`).
All statements are for every table of distances `D` (any values, ties, non-metrics), every
number of frames and centers, every vector of trajectory lengths.
-/
open Ens Ens.Assign

namespace C10

/-! ## `assign_to_nearest_center` -/

/-- Every frame gets the FIRST center at minimal distance and exactly that distance, in both
code branches (`hasXyz` and `k > n` select the per-frame branch).  With no centers the
arrays keep their initial values (label 0, distance inf). -/
theorem assign_is_min (D : Nat → Nat → Rat) (n k : Nat) (hasXyz : Bool) (f : Nat) :
    (k = 0 → (assignNearest D n k hasXyz).dist f = none ∧ (assignNearest D n k hasXyz).lab f = 0) ∧
    (0 < k →
      let c := (assignNearest D n k hasXyz).lab f
      c < k ∧ (assignNearest D n k hasXyz).dist f = some (D f c) ∧
      (∀ c', c' < k → D f c ≤ D f c') ∧ (∀ c', c' < c → D f c < D f c')) := by
  have he := assignNearest_eq_sweep D n k hasXyz f
  constructor
  · intro hk; subst hk; exact ⟨rfl, rfl⟩
  · intro hk
    obtain ⟨j, rfl⟩ : ∃ j, k = j + 1 := ⟨k - 1, by omega⟩
    have hs := sweep_spec D j f
    simp only [he.1, he.2]
    exact ⟨hs.1.1, hs.2, hs.1.2.1, hs.1.2.2⟩

/-- the two code branches return the same arrays on the same table -/
theorem assign_branches_agree (D : Nat → Nat → Rat) (n n' k : Nat) (f : Nat) :
    (assignNearest D n k true).lab f = (assignNearest D n' k false).lab f ∧
    (assignNearest D n k true).dist f = (assignNearest D n' k false).dist f := by
  have h1 := assignNearest_eq_sweep D n k true f
  have h2 := assignNearest_eq_sweep D n' k false f
  exact ⟨h1.1.trans h2.1.symm, h1.2.trans h2.2.symm⟩

-- non-vacuity: 2 frames, 3 centers, a tie on frame 0 (centers 1 and 2), per-frame branch taken
example : let D : Nat → Nat → Rat := fun f c => [[3, 1, 1], [2, 2, 5]][f]![c]!
    (tabulate 2 (assignNearest D 2 3 true).lab, tabulate 2 (assignNearest D 2 3 true).dist)
      = ([1, 0], [some 1, some 2]) ∧
    (tabulate 2 (assignNearest D 2 3 false).lab, tabulate 2 (assignNearest D 2 3 false).dist)
      = ([1, 0], [some 1, some 2]) := by decide

/-! ## `partition_list` -/

/-- `partition_list` succeeds exactly when the lengths sum to the list length (DataInvalid
otherwise); then concatenating the pieces restores the list and piece `t` has length `lens[t]`. -/
theorem partitionList_join {α : Type} (l : List α) (lens : List Nat) :
    (lens.sum ≠ l.length → partitionList l lens = .error .dataInvalid) ∧
    (lens.sum = l.length → ∃ ps, partitionList l lens = .ok ps ∧ ps.flatten = l ∧
      ps.map List.length = lens) := by
  constructor
  · exact partitionList_err l lens
  · intro h
    refine ⟨splitBy l lens, partitionList_ok l lens h, ?_, splitBy_lengths l lens (by omega)⟩
    rw [splitBy_flatten, h, List.take_length]

example : partitionList [10, 11, 12, 13, 14, 15] [1, 0, 3, 2] = .ok [[10], [], [11, 12, 13], [14, 15]] := by
  decide
example : partitionList [10, 11, 12] [1, 1] = (.error .dataInvalid : Except Err (List (List Nat))) := by
  decide

/-! ## `partition_indices` -/

/-- A flat index `0 ≤ i < sum lens` becomes `(t, f)` with `f < lens[t]` and
`starts t + f = i`; the output keeps order and multiplicity of the input indices. -/
theorem partitionIndices_correct (inds : List Int) (lens : List Nat)
    (h : ∀ i ∈ inds, 0 ≤ i ∧ i < lens.sum) :
    (partitionIndices inds lens).length = inds.length ∧
    (partitionIndices inds lens).map (flatOf lens) = inds ∧
    ∀ p ∈ partitionIndices inds lens, ∃ L, lens[p.1]? = some L ∧ 0 ≤ p.2 ∧ p.2 < L := by
  have hmap := partitionIndices_map_flat inds lens h
  refine ⟨?_, hmap, ?_⟩
  · have := congrArg List.length hmap
    simpa using this
  · intro p hp
    simp only [partitionIndices, List.mem_filterMap] at hp
    obtain ⟨i, hi, hl⟩ := hp
    obtain ⟨t, f, L, hl', hL, hf, _⟩ := locate_inrange lens i 0 (h i hi).1 (h i hi).2
    rw [hl'] at hl
    cases hl
    exact ⟨L, by simpa using hL, by omega, by omega⟩

/-- What the code does outside the range: an index `≥ sum lens` is silently dropped; a negative
index is returned as `(0, index)`; in general exactly the indices `< sum lens` survive, in
order, each pair addressing the index it came from. -/
theorem partitionIndices_out_of_range (inds : List Int) (lens : List Nat) :
    (∀ i : Int, (lens.sum : Int) ≤ i → partitionIndices [i] lens = []) ∧
    (∀ i : Int, i < 0 → lens ≠ [] → partitionIndices [i] lens = [(0, i)]) ∧
    (lens ≠ [] → (partitionIndices inds lens).map (flatOf lens)
      = inds.filter (fun i => decide (i < (lens.sum : Int)))) := by
  refine ⟨?_, ?_, partitionIndices_map_flat_general inds lens⟩
  · intro i hi
    simp [partitionIndices, locate_beyond lens i 0 hi]
  · intro i hi hne
    cases lens with
    | nil => exact absurd rfl hne
    | cons a as => simp [partitionIndices, locate_negative a as i 0 hi]

-- the hypothesis is satisfiable: indices on first/last frames of trajectories, one repeated
example : ∀ i ∈ ([0, 2, 3, 5, 5] : List Int), 0 ≤ i ∧ i < (([3, 0, 3] : List Nat).sum : Int) := by decide
example : partitionIndices [0, 2, 3, 5, 5, 9, -1] [3, 0, 3] = [(0, 0), (0, 2), (2, 0), (2, 2), (2, 2), (0, -1)] := by
  decide

/-- The pair produced for a flat index addresses the same element in the partitioned list:
`partition_list(l, lens)[t][f] = l[i]`. -/
theorem partition_addresses_same_frame {α : Type} (l : List α) (lens : List Nat) (i : Nat)
    (hsum : lens.sum = l.length) (hi : i < l.length) :
    ∃ (t f : Nat) (ps : List (List α)) (row : List α), partitionIndices [(i : Int)] lens = [(t, (f : Int))] ∧
      partitionList l lens = .ok ps ∧ ps[t]? = some row ∧ row[f]? = l[i]? := by
  obtain ⟨t, f, L, hl, hL, hf, hs⟩ := locate_inrange lens i 0 (by omega) (by omega)
  obtain ⟨row, hr, hrow, _⟩ := splitBy_getElem l lens t f L hL hf (by omega)
  refine ⟨t, f, splitBy l lens, row, ?_, partitionList_ok l lens hsum, hr, ?_⟩
  · simp [partitionIndices, hl]
  · rw [hrow]; congr 1; omega

-- flat index 3 is frame 0 of trajectory 2 (trajectory 1 is empty) and holds the same value
example : partitionIndices [3] [3, 0, 3] = [(2, 0)] ∧
    partitionList [10, 11, 12, 13, 14, 15] [3, 0, 3] = .ok [[10, 11, 12], [], [13, 14, 15]] := by decide

/-! ## `ClusterResult.partition` -/

/-- `partition` succeeds exactly on consistent input: non-empty `lens` summing to the length of
both flat arrays. -/
theorem partition_ok_iff {α β : Type} (a : List α) (d : List β) (ci : List Int) (lens : List Nat) :
    (∃ r, partition a d ci lens = .ok r) ↔
      (lens ≠ [] ∧ lens.sum = a.length ∧ lens.sum = d.length) := by
  constructor
  · intro ⟨r, hr⟩
    by_cases h : lens ≠ [] ∧ lens.sum = a.length ∧ lens.sum = d.length
    · exact h
    · have h' : lens = [] ∨ lens.sum ≠ a.length ∨ lens.sum ≠ d.length := by
        by_cases h1 : lens = []
        · exact Or.inl h1
        · by_cases h2 : lens.sum = a.length
          · by_cases h3 : lens.sum = d.length
            · exact absurd ⟨h1, h2, h3⟩ h
            · exact Or.inr (Or.inr h3)
          · exact Or.inr (Or.inl h2)
      rw [partition_err a d ci lens h'] at hr; cases hr
  · intro ⟨hne, ha, hd⟩
    exact ⟨_, partition_eq a d ci lens hne ha hd⟩

/-- the error raised on inconsistent input: IndexError for empty `lengths` (the `lengths[0]`
argument of the debug log), DataInvalid when the lengths do not sum to the length of both flat
arrays — also for empty flat arrays -/
theorem partition_error_kind {α β : Type} (a : List α) (d : List β) (ci : List Int) (lens : List Nat)
    (h : lens = [] ∨ lens.sum ≠ a.length ∨ lens.sum ≠ d.length) :
    partition a d ci lens = .error (if lens = [] then .indexError else .dataInvalid) :=
  partition_err a d ci lens h

example : partition ([] : List Int) ([] : List Rat) [] [1, 2] = .error .dataInvalid := by decide
example : partition [1, 2] [(1 : Rat), 2] [] [] = .error .indexError := by decide

/-- rectangular (ndarray) output iff all lengths are equal, ragged (RaggedArray) otherwise -/
theorem partition_square_iff {α β : Type} (a : List α) (d : List β) (ci : List Int)
    (lens : List Nat) (r : Partitioned α β) (h : partition a d ci lens = .ok r) :
    (r.assignments.isSquare = true ↔ ∀ x ∈ lens, ∀ y ∈ lens, x = y) ∧
    (r.distances.isSquare = true ↔ ∀ x ∈ lens, ∀ y ∈ lens, x = y) := by
  rw [← allEqual_iff]
  obtain ⟨hne, hsa, hsd⟩ := (partition_ok_iff a d ci lens).1 ⟨r, h⟩
  rw [partition_eq a d ci lens hne hsa hsd] at h
  cases h
  by_cases hsq : allEqual lens = true <;> simp [hsq, Parts.isSquare]

/-- concatenating the pieces restores the flat arrays, piece `t` has length `lens[t]`, the
ragged container stores the flat data and the lengths, and the center indices are exactly
`partition_indices(center_indices, lens)` -/
theorem partition_roundtrip {α β : Type} (a : List α) (d : List β) (ci : List Int)
    (lens : List Nat) (r : Partitioned α β) (h : partition a d ci lens = .ok r) :
    r.assignments.rows.flatten = a ∧ r.assignments.rows.map List.length = lens ∧
    r.distances.rows.flatten = d ∧ r.distances.rows.map List.length = lens ∧
    r.centerIndices = partitionIndices ci lens ∧
    (∀ da la ra, r.assignments = .ragged da la ra → da = a ∧ la = lens) ∧
    (∀ dd ld rd, r.distances = .ragged dd ld rd → dd = d ∧ ld = lens) := by
  obtain ⟨hne, hsa, hsd⟩ := (partition_ok_iff a d ci lens).1 ⟨r, h⟩
  rw [partition_eq a d ci lens hne hsa hsd] at h
  cases h
  have hfa : (splitBy a lens).flatten = a := by rw [splitBy_flatten, hsa, List.take_length]
  have hfd : (splitBy d lens).flatten = d := by rw [splitBy_flatten, hsd, List.take_length]
  have hla := splitBy_lengths a lens (by omega)
  have hld := splitBy_lengths d lens (by omega)
  by_cases hsq : allEqual lens = true
  · simp [hsq, Parts.rows, hfa, hfd, hla, hld]
  · simp only [hsq]
    refine ⟨hfa, hla, hfd, hld, rfl, ?_, ?_⟩
    · intro da la ra e; cases e; exact ⟨rfl, rfl⟩
    · intro dd ld rd e; cases e; exact ⟨rfl, rfl⟩

-- non-vacuity: unequal lengths incl. a length-1 trajectory, centers on first/last frames
example : partition [0, 1, 1, 0, 2, 2] [(1 : Rat), 0, 0, 3, 0, 2] [1, 0, 4] [1, 3, 2]
    = .ok ⟨.ragged [0, 1, 1, 0, 2, 2] [1, 3, 2] [[0], [1, 1, 0], [2, 2]],
           .ragged [1, 0, 0, 3, 0, 2] [1, 3, 2] [[1], [0, 0, 3], [0, 2]],
           [(1, 0), (0, 0), (2, 0)]⟩ := by decide
example : partition [0, 1, 1, 0] [(1 : Rat), 0, 0, 3] [1, 0] [2, 2]
    = .ok ⟨.square [[0, 1], [1, 0]], .square [[1, 0], [0, 3]], [(0, 1), (0, 0)]⟩ := by decide

/-! ## `find_cluster_centers` -/

/-- With arrays of equal length the center finder returns, for the labels present in
ascending order without repetition, one frame per label: a member of the label whose
distance is minimal among the members, the first such frame on ties.  Arrays of different
length are rejected with DataInvalid. -/
theorem findClusterCenters_min (n : Nat) (a : Nat → Int) (nd : Nat) (d : Nat → ERat) :
    (nd ≠ n → findClusterCenters n a nd d = .error .dataInvalid) ∧
    (nd = n →
      let labels := uniqueSorted (tabulate n a)
      labels.Pairwise (· < ·) ∧ (∀ x, x ∈ labels ↔ ∃ f, f < n ∧ a f = x) ∧
      ∃ cs, findClusterCenters n a nd d = .ok cs ∧ cs.length = labels.length ∧
        ∀ (i : Nat) (c : Int), labels[i]? = some c → ∃ m, cs[i]? = some m ∧
          m < n ∧ a m = c ∧
          (∀ f, f < n → a f = c → ERat.le (d m) (d f) = true) ∧
          (∀ f, f < m → a f = c → ERat.lt (d m) (d f) = true)) := by
  constructor
  · intro h; simp [findClusterCenters, h]
  · intro h
    have hmem : ∀ x, x ∈ uniqueSorted (tabulate n a) ↔ ∃ f, f < n ∧ a f = x := by
      intro x; rw [mem_uniqueSorted, mem_tabulate]
    refine ⟨pairwise_uniqueSorted _, hmem, ?_⟩
    obtain ⟨ms, hms, hlen, hspec⟩ := centersFor_spec n a d (uniqueSorted (tabulate n a))
      (fun c hc => (hmem c).1 hc)
    refine ⟨ms, by simp [findClusterCenters, h, hms], hlen, ?_⟩
    intro i c hi
    obtain ⟨m, hm, hlt, hp, hmin, hfirst⟩ := hspec i c hi
    refine ⟨m, hm, hlt, by simpa using hp, ?_, ?_⟩
    · intro f hf hfa; exact hmin f hf (by simp [hfa])
    · intro f hf hfa; exact hfirst f hf (by simp [hfa])

-- labels 0, 2, 5 present; label 2 has a tie (frames 0 and 2) -> frame 0; an `inf` distance
example : let a : Nat → Int := fun f => [2, 0, 2, 0, 5][f]!
    let d : Nat → ERat := fun f => [some 1, some 3, some 1, some 2, none][f]!
    findClusterCenters 5 a 5 d = .ok [3, 0, 4] := by decide

/-- `predict`: labels and distances are those of `assign_to_nearest_center` on the fitted
centers, and the reported center indices are those of `find_cluster_centers` on them;
it never fails. -/
theorem predict_correct (D : Nat → Nat → Rat) (n k : Nat) (hasXyz : Bool) :
    ∃ cs, predict D n k hasXyz =
        .ok (tabulate n (assignNearest D n k hasXyz).lab, tabulate n (assignNearest D n k hasXyz).dist, cs) ∧
      findClusterCenters n (fun f => ((assignNearest D n k hasXyz).lab f : Int)) n
        (assignNearest D n k hasXyz).dist = .ok cs := by
  obtain ⟨_, _, cs, hcs, _⟩ := (findClusterCenters_min n
    (fun f => ((assignNearest D n k hasXyz).lab f : Int)) n (assignNearest D n k hasXyz).dist).2 rfl
  exact ⟨cs, by simp [predict, hcs], hcs⟩

-- more centers than frames, labels 1 and 0 present -> center frames 1 and 0
example : predict (fun f c => [[3, 1, 1], [2, 2, 5]][f]![c]!) 2 3 false
    = .ok ([1, 0], [some 1, some 2], [1, 0]) := by decide

/-! ## `compute_batches`, `batch_reassign` -/

/-- The batches concatenate to `0 … m-1` in order (every trajectory in exactly one batch, order
kept), every batch after the first is non-empty, and every batch is a single trajectory or
has combined length `< batch_size`. -/
theorem computeBatches_cover (lens : List Nat) (batchSize : Nat) :
    (computeBatches lens batchSize).flatten = List.range lens.length ∧
    (∀ b ∈ (computeBatches lens batchSize).tail, b ≠ []) ∧
    (∀ b ∈ computeBatches lens batchSize,
      b.length ≤ 1 ∨ (b.map fun t => lens.getD t 0).sum < batchSize) :=
  ⟨computeBatches_flatten lens batchSize, computeBatches_tail lens batchSize,
   computeBatches_fits lens batchSize⟩

/-- no batch is empty when there is at least one trajectory -/
theorem computeBatches_nonempty (lens : List Nat) (batchSize : Nat) (h : lens ≠ []) :
    ∀ b ∈ computeBatches lens batchSize, b ≠ [] := by
  cases lens with
  | nil => exact absurd rfl h
  | cons l0 ls => exact computeBatches_allne l0 ls batchSize

example : computeBatches [3, 4, 5, 1, 1, 9] 9 = [[0, 1], [2, 3, 4], [5]] := by decide
example : computeBatches [9, 1] 9 = [[0], [1]] := by decide

/-- Batch reassignment: for every valid input (at least one center, at least one trajectory, no
trajectory longer than the batch size — the guard of `batch_reassign`) each trajectory gets,
frame by frame, the label and distance of the whole-data sweep (hence by `assign_is_min` the
first nearest center and exactly its distance), whatever the batch size. -/
theorem batchReassign_correct (D : Nat → Nat → Rat) (lens : List Nat) (k : Nat)
    (hasXyz : Bool) (batchSize : Nat)
    (hk : 0 < k) (hne : lens ≠ []) (hle : ∀ l ∈ lens, l ≤ batchSize) :
    batchReassign D lens k hasXyz batchSize =
      .ok ((List.range lens.length).map (pieceOf D lens k)) := by
  have hk' : ¬ k = 0 := by omega
  simp only [batchReassign, hk', if_false]
  cases hm : listMax lens with
  | none => cases lens with
    | nil => exact absurd rfl hne
    | cons a as => simp [listMax] at hm
  | some m =>
    have hmem := listMax_mem _ _ hm
    have hmle := hle m hmem
    simp only [show ¬ batchSize < m by omega, if_false]
    rw [reassignBatches_ok D lens k hasXyz _ (computeBatches_nonempty lens batchSize hne),
      computeBatches_flatten]

-- non-vacuity: two batches; first trajectory exactly as long as the batch size
example : batchReassign (fun f c => [[1, 2], [2, 1], [3, 3]][f]![c]!) [2, 1] 2 false 3
    = .ok [[(0, some 1), (1, some 1)], [(0, some 3)]] := by decide
example : batchReassign (fun f c => [[1, 2], [2, 1], [3, 3]][f]![c]!) [2, 1] 2 false 2
    = .ok [[(0, some 1), (1, some 1)], [(0, some 3)]] := by decide

end C10
