import Proofs.C06Dtype
/-!
# C06 — ragged-array writes keep all views coherent over any operation history

Model: `Ens.RaggedW` (`lean/Model/RaggedW.lean`), `step cfg : State α → Op α → Except Err …` mirrors
`RaggedArray.__setitem__ / append / map_operator / __invert__ / __init__` of `enspara/ra/ra.py` with
`_data`, `_array`, `lengths` as separate fields.  `cfg` names a variant of the code:
`Cfg.current` = `/repo` HEAD (the five `fix:` commits of the read-side, write-side and operator-priority
repairs and the all-empty `append` repair are in),
`Cfg.beforeAppendEmpty` / `Cfg.beforePriority` / `Cfg.beforeC06` / `Cfg.asIs` = the variants before them.  Specification: `specStep` on a plain list
of rows.  Everything is for an arbitrary element type `α`, arbitrary states, operations, histories.

* Full-strength theorems for `/repo` HEAD (`Cfg.current`, all six repairs committed): `step_refines`,
  `step_preserves_coherent`, `history_refines`, `history_observers`, `dtype_stable_current`,
  `observers_agree`, `operators_pure_current`, `iop_elementwise_current`, `init_inv_rows`,
  `init_inv_flat`.
  Hypotheses: `Inv` (coherent, at least one row — what every constructor establishes, `init_inv_*`) of
  the START state and `Valid`, the property's own preconditions (operand / mask of the array's row
  structure — NOT guards of the code, see `Valid`).
* NOT theorems, checked by the correspondence (`harness/props/c06.py`) only: object identity and
  aliasing — "operators return NEW objects", "never alter their operands" (byte snapshots of both
  operands, of every index object and of every value object), "building by copy never aliases the
  caller's data".  The functional model cannot express sharing; `operators_pure*` only say that the
  result is the element-wise image and that `step` leaves the state as it was.
* The same statements for an arbitrary variant `cfg` carry the region `InScope cfg`
  (`…_variant` theorems); for the OLD variants the full statements are false — the
  `…_before_fix_counterexample`s (explicitly about `Cfg.beforeAppendEmpty` / `Cfg.beforePriority` / `Cfg.beforeC06` / `Cfg.asIs`) document what each
  committed repair changed.
-/
namespace C06
open Ens Ens.RaggedW
variable {α β γ : Type}

/-! ## representation -/

/-- the two stored representations describe the same content iff both are the images of one list of
rows (`_data` = concatenation, `lengths` = row lengths) -/
theorem coherent_iff_rows (s : State α) :
    Coherent s ↔ (s.data = s.array.flatten ∧ s.lengths = s.array.map List.length) := coherent_iff s

example : Coherent (⟨[1, 2, 3], [1, 2], [[1], [2, 3]], false, false⟩ : State Nat) := by decide
example : ¬ Coherent (⟨[1, 2, 3], [1, 2], [[9], [2, 3]], false, false⟩ : State Nat) := by decide

/-- partitioning the concatenation by the row lengths gives the rows back (`__init__(rows)`) -/
theorem partition_roundtrip (rows : Rows α) :
    partition (rows.map List.length) rows.flatten = rows := partition_flatten rows

/-! ## constructors establish the invariant -/

/-- `RaggedArray(rows)` (any non-empty list of rows, rows may be empty): the object shows exactly
`rows` and satisfies the invariant all theorems below start from -/
theorem init_inv_rows (rows : Rows α) (obj : Bool) (h : rows ≠ []) :
    ∃ s, initRows rows obj = .ok s ∧ s.array = rows ∧ Inv s := initRows_spec rows obj h

/-- `RaggedArray([])` is the one input that does not give a usable object (no `_data` attribute) -/
theorem init_rows_empty (obj : Bool) : initRows ([] : Rows α) obj = .error .emptyArray := rfl

/-- `RaggedArray(array=flat, lengths=ls)` with `sum(ls) = len(flat)` (list or ndarray lengths, equal or
unequal, empty rows allowed), `/repo` HEAD: rows = the partition, invariant established -/
theorem init_inv_flat (cfg : Cfg) (hr : cfg.readsFix = true) (d : List α) (ls : List Nat) (np obj : Bool)
    (hne : ls ≠ []) (hsum : ls.sum = d.length) :
    ∃ s, initFlat cfg d ls np obj = .ok s ∧ s.array = partition ls d ∧ s.data = d ∧ s.lengths = ls ∧ Inv s := by
  refine ⟨_, initFlat_eq cfg d ls np obj hne hsum (Or.inr hr), rfl, rfl, rfl, ⟨hsum, rfl⟩, ?_⟩
  show partition ls d ≠ []
  exact ne_nil_of_length_eq (l' := ls) (by simp) hne

/-- … and a length list that does not add up to the data is rejected (DataInvalid / ValueError) -/
theorem init_flat_rejects (cfg : Cfg) (hr : cfg.readsFix = true) (d : List α) (ls : List Nat) (np obj : Bool)
    (hne : ls ≠ []) (hsum : ls.sum ≠ d.length) : ∃ e, initFlat cfg d ls np obj = .error e := by
  unfold initFlat
  have h0 : (d.isEmpty && !cfg.readsFix) = false := by simp [hr]
  rw [h0]
  cases ls with
  | nil => exact absurd rfl hne
  | cons l0 ls =>
    simp only [Bool.false_eq_true, if_false]
    by_cases hb : (np && allEq (l0 :: ls)) = true
    · simp only [hb, if_true, hr]
      have hall : allEq (l0 :: ls) = true := by cases np <;> simp_all
      have hrep := allEq_eq_replicate ls l0 hall
      have hs : (l0 :: ls).sum = (ls.length + 1) * l0 := by
        rw [hrep, sum_replicate_nat]
      have : ¬ ((l0 :: ls).length * l0 = d.length) := by
        intro hh
        apply hsum
        rw [hs]
        simpa using hh
      simp only [this, if_false]
      exact ⟨_, rfl⟩
    · simp only [hb, Bool.false_eq_true, if_false, partitionList, hsum]
      exact ⟨_, rfl⟩

example : ∃ s, initFlat Cfg.current [1, 2, 3] [1, 0, 2] true false = .ok s ∧ s.array = [[1], [], [2, 3]] :=
  ⟨_, rfl, rfl⟩

/-! ## one step -/

/-- **step_refines** for any variant of the code, in its region `InScope`.  In scope, a write does to the rows exactly what the
list-of-rows model does, raises exactly when the model raises (same error kind), and a pure
operator returns the model's result. -/
theorem step_refines_variant (cfg : Cfg) (s : State α) (op : Op α) (h : Inv s) (hs : InScope cfg s op) :
    absR (step cfg s op) = specStep s.array op :=
  (stepOK_of_inScope cfg h op hs (fun _ _ _ => specTargets_valid)).1

/-- **step_preserves_coherent** for any variant (in scope, and not the stale row-view write). -/
theorem step_preserves_coherent_variant (cfg : Cfg) (s s' : State α) (o : Option (State α)) (op : Op α)
    (h : Inv s) (hs : InScope cfg s op) (hst : ¬ StaleWrite cfg s op)
    (hstep : step cfg s op = .ok (s', o)) :
    Coherent s' ∧ s'.array ≠ [] ∧ ∀ b, o = some b → Coherent b :=
  let ⟨_, hinv⟩ := stepOK_of_inScope cfg h op hs (fun _ _ _ => specTargets_valid)
  ⟨((hinv s' o hstep).1 hst).1, ((hinv s' o hstep).1 hst).2, fun b hb => ((hinv s' o hstep).2 b hb).1.1⟩

-- non-vacuity: a 2-d slice write in scope on the unchanged tree
example : InScope Cfg.asIs (⟨[1, 2, 3], [1, 2], [[1], [2, 3]], false, false⟩ : State Nat)
    (.set2d (.slice ⟨none, none, none⟩) (.slice ⟨some 0, some 1, none⟩) (.scalar 7)) := by decide
example : Inv (⟨[1, 2, 3], [1, 2], [[1], [2, 3]], false, false⟩ : State Nat) := by decide
example : absR (step Cfg.asIs (⟨[1, 2, 3], [1, 2], [[1], [2, 3]], false, false⟩ : State Nat)
    (.set2d (.slice ⟨none, none, none⟩) (.slice ⟨some 0, some 1, none⟩) (.scalar 7)))
    = .ok ([[7], [7, 3]], none) := by decide

def ragged0' : State Int := ⟨[1, 2, 3], [1, 2], [[1], [2, 3]], false, false⟩
def block0' : State Int := ⟨[1, 2, 3, 4], [2, 2], [[1, 2], [3, 4]], false, false⟩

/-! ## the guards that belong to the operations themselves -/

/-- **The property's own preconditions** (NOT guards of the code):
* "operators between ragged arrays": the operand of `a ⊕ b` has the row structure of `a`.  `map_operator`
  itself only looks at the flat data (`self._data ⊕ other._data`): with a different row structure but
  the same number of cells it answers with `a`'s structure (the model `zipOp` does exactly that, and also
  mirrors numpy's 1-cell broadcasting); the list-of-rows model rejects such an operand.
* a boolean mask has the row structure of the array it indexes (`where` uses the mask's own starts).
Every other operation is valid on every array. -/
def Valid (s : State α) : Op α → Prop
  | .iop2 _ o => o.map List.length = s.lengths
  | .binop2 _ o => o.map List.length = s.lengths
  | .setMask mask _ => mask.map List.length = s.lengths
  | _ => True

instance (s : State α) [DecidableEq α] : (op : Op α) → Decidable (Valid s op)
  | .iop2 _ o => inferInstanceAs (Decidable (o.map List.length = s.lengths))
  | .binop2 _ o => inferInstanceAs (Decidable (o.map List.length = s.lengths))
  | .setMask mask _ => inferInstanceAs (Decidable (mask.map List.length = s.lengths))
  | .setElem _ _ _ | .viewWrite _ _ _ | .setRow _ _ | .setRows _ _ _ | .setIntSlice _ _ _
  | .set2d _ _ _ | .setPaired _ _ _ | .iop _ | .iopAt _ _ _ | .binop _ | .copyCtor _ _
  | .npLeft _ _ | .append _ _ | .appendFlat _ => isTrue trivial

def isAppend : Op α → Bool
  | .append _ _ => true
  | .appendFlat _ => true
  | _ => false

/-- without `C06-append-all-empty.diff`, `append` on an array whose rows are ALL empty replaces the array
(`if len(self._data) == 0: self.__init__(values)`): the region that variant gets right -/
def AppendOK (cfg : Cfg) (s : State α) (op : Op α) : Prop :=
  cfg.appendEmptyFix = true ∨ isAppend op = false ∨ s.data ≠ []

instance [DecidableEq α] (cfg : Cfg) (s : State α) (op : Op α) : Decidable (AppendOK cfg s op) := by
  unfold AppendOK; infer_instance

/-- the four committed repairs are present -/
def Repaired (cfg : Cfg) : Prop :=
  cfg.readsFix = true ∧ cfg.rowViewsFix = true ∧ cfg.arrayViewsFix = true ∧ cfg.appendFix = true

/-- `c ⊕ a` with a numpy scalar / 0-d array on the LEFT -/
def isNpLeft : Op α → Bool
  | .npLeft _ _ => true
  | _ => false

/-- With the four committed repairs every valid operation is in scope, except (without the proposed
operator-priority repair) an operator whose left operand is a numpy scalar. -/
theorem inScope_repaired (cfg : Cfg) (hr : Repaired cfg) (s : State α) (op : Op α) (h : Coherent s)
    (hv : Valid s op) (hn : cfg.priorityFix = true ∨ isNpLeft op = false) (ha : AppendOK cfg s op) :
    InScope cfg s op := by
  have hap : cfg.appendEmptyFix = true ∨ isAppend op = true → cfg.appendEmptyFix = true ∨ s.data ≠ [] := by
    intro _
    rcases ha with ha | ha | ha
    · exact Or.inl ha
    · rename_i h'; rcases h' with h' | h'
      · exact Or.inl h'
      · rw [ha] at h'; cases h'
    · exact Or.inr ha
  obtain ⟨h1, h2, _, h4⟩ := hr
  cases op with
  | setElem i j x => trivial
  | viewWrite i j x => trivial
  | setRow i v => exact Or.inl h2
  | setRows sel vs form => exact Or.inl h2
  | setIntSlice i sl v => trivial
  | set2d r c v => exact ⟨idxAgree_fixed cfg h1 h r c, Or.inl h2⟩
  | setPaired r c v => exact Or.inl h2
  | setMask mask v => exact ⟨maskAgree_of_lengths cfg h mask hv (Or.inl h1), Or.inl h2⟩
  | append vs form => exact ⟨hap (Or.inr rfl), Or.inl h4⟩
  | appendFlat v => exact ⟨h4, hap (Or.inr rfl)⟩
  | iop f => exact Or.inr h1
  | iop2 g o => exact ⟨hv, Or.inr h1⟩
  | iopAt r c f => exact ⟨idxAgree_fixed cfg h1 h r c, Or.inl h2⟩
  | binop f => exact Or.inr h1
  | binop2 g o => exact ⟨hv, Or.inr h1⟩
  | copyCtor viaFlat np => exact Or.inr (Or.inr h1)
  | npLeft f rebind =>
    rcases hn with hn | hn
    · exact ⟨hn, Or.inr h1⟩
    · simp [isNpLeft] at hn

theorem repaired_current : Repaired Cfg.current := ⟨rfl, rfl, rfl, rfl⟩

/-- On the unchanged tree a mask assignment is in scope as soon as the mask has the row structure
of the array and at least one `True` cell (`where` + index conversion address exactly the `True`
cells: `maskAgree_of_lengths`). -/
theorem setMask_inScope_asIs (cfg : Cfg) (s : State α) (mask : List (List Bool)) (v : Val α)
    (h : Coherent s) (hlen : mask.map List.length = s.lengths)
    (htrue : (whereMask mask).isEmpty = false) (hv : ValOK cfg v) :
    InScope cfg s (.setMask mask v) :=
  ⟨maskAgree_of_lengths cfg h mask hlen (Or.inr htrue), hv⟩

/-- **The unchanged tree on plain 2-d indices.**  `a[r, c] = v` and `a[r, c] ⊕= k` are in scope for
EVERY variant of the code (in particular `Cfg.asIs`) when the row selector is a list of row numbers
or a slice with positive step, start ≥ -len and stop ≤ len, the column selector is an integer, a
non-empty list of integers or a slice with positive step and non-negative start, at least one row
is selected and (column slice) every selected row has a selected column: `PlainIdx`.
This is exactly the complement of the index classes of the known findings `set2d-*`. -/
theorem set2d_inScope_plain (cfg : Cfg) (s : State α) (r : Sel) (c : CSel) (v : Val α)
    (h : Coherent s) (hp : PlainIdx s.lengths r c) (hv : ValOK cfg v) :
    InScope cfg s (.set2d r c v) :=
  ⟨idxAgree_plain cfg h r c hp, hv⟩

theorem iopAt_inScope_plain (cfg : Cfg) (s : State α) (r : Sel) (c : CSel) (f : α → α)
    (h : Coherent s) (hp : PlainIdx s.lengths r c)
    (hn : cfg.rowViewsFix = true ∨ noRows cfg s.lengths.length r = false) :
    InScope cfg s (.iopAt r c f) :=
  ⟨idxAgree_plain cfg h r c hp, hn⟩

/-- the unchanged hand-written slice arithmetic equals CPython's `slice.indices` on plain slices -/
theorem asIs_slices_agree (n l : Nat) (rs cs : PySlice) (hr : PlainRowSlice n rs) (hc : PlainColSlice cs) :
    sliceToListAsIs rs n = specRowNums n (.slice rs) ∧ colsAsIs cs l = colsPy cs l :=
  ⟨sliceToListAsIs_plain n rs hr, colsAsIs_plain l cs hc⟩

-- non-vacuity: `a[-2:2, 1:] = …` on rows of lengths 2 and 3
example : PlainIdx [2, 3] (.slice ⟨some (-2), some 2, none⟩) (.slice ⟨some 1, none, some 2⟩) :=
  plainIdx_of_B _ _ _ (by decide)
example : PlainIdx [2, 3] (.list [-1, 0]) (.slice ⟨none, some (-1), none⟩) :=
  plainIdx_of_B _ _ _ (by decide)
-- … and the defect regions are outside
example : plainIdxB [2, 3] (.slice ⟨none, none, none⟩) (.slice ⟨some (-1), none, none⟩) = false := by decide
example : plainIdxB [2, 3] (.slice ⟨none, none, none⟩) (.slice ⟨some 2, none, none⟩) = false := by decide
example : plainIdxB [2, 3] (.slice ⟨none, some 3, none⟩) (.int 0) = false := by decide
example : plainIdxB [2, 3] (.slice ⟨none, none, some (-1)⟩) (.int 0) = false := by decide

/-- the full statement of *step_refines* for a variant of the code (not asserted in general) -/
def C06_step_refines_full (cfg : Cfg) : Prop :=
  ∀ (s : State Int) (op : Op Int), Inv s → Valid s op → absR (step cfg s op) = specStep s.array op

/-- the full statement of *step_preserves_coherent* -/
def C06_step_preserves_coherent_full (cfg : Cfg) : Prop :=
  ∀ (s s' : State Int) (o : Option (State Int)) (op : Op Int), Inv s → Valid s op →
    step cfg s op = .ok (s', o) → Coherent s'

def allEmpty0 : State Int := ⟨[], [0, 0], [[], []], false, false⟩
example : Inv allEmpty0 := by decide

/-- **step_refines**, full strength, `/repo` HEAD: every valid operation on every coherent array does to
the rows exactly what the list-of-rows model does (same result, same error kind, same operator
result). -/
theorem step_refines (s : State α) (op : Op α) (h : Inv s) (hv : Valid s op) :
    absR (step Cfg.current s op) = specStep s.array op :=
  step_refines_variant Cfg.current s op h
    (inScope_repaired _ repaired_current s op h.1 hv (Or.inl rfl) (Or.inl rfl))

/-- **step_preserves_coherent**, full strength, `/repo` HEAD (also for the result of a pure operator) -/
theorem step_preserves_coherent (s s' : State α) (o : Option (State α)) (op : Op α)
    (h : Inv s) (hv : Valid s op) (hstep : step Cfg.current s op = .ok (s', o)) :
    Coherent s' ∧ s'.array ≠ [] ∧ ∀ b, o = some b → Coherent b :=
  step_preserves_coherent_variant Cfg.current s s' o op h
    (inScope_repaired _ repaired_current s op h.1 hv (Or.inl rfl) (Or.inl rfl))
    (not_stale_of_fix Cfg.current rfl s op) hstep

example : C06_step_refines_full Cfg.current := fun s op h hv => step_refines s op h hv
example : C06_step_preserves_coherent_full Cfg.current :=
  fun s s' o op h hv hs => (step_preserves_coherent s s' o op h hv hs).1

/-! ### what the all-empty `append` repair changed: the variant `Cfg.beforeAppendEmpty` (for the record) -/

theorem repaired_beforeAppendEmpty : Repaired Cfg.beforeAppendEmpty := ⟨rfl, rfl, rfl, rfl⟩

/-- before the repair everything except `append` onto an array whose rows are all empty was already right -/
theorem step_refines_before_append_empty_fix (s : State α) (op : Op α) (h : Inv s) (hv : Valid s op)
    (ha : isAppend op = false ∨ s.data ≠ []) :
    absR (step Cfg.beforeAppendEmpty s op) = specStep s.array op :=
  step_refines_variant Cfg.beforeAppendEmpty s op h
    (inScope_repaired _ repaired_beforeAppendEmpty s op h.1 hv (Or.inl rfl) (Or.inr ha))

/-- `RaggedArray([[], []]).append([[1]])` gave `[[1]]` (the array was REPLACED), the list of rows is
`[[], [], [1]]`; HEAD gives the list-of-rows result -/
theorem append_all_empty_rows_before_fix_counterexample :
    absR (step Cfg.beforeAppendEmpty allEmpty0 (.append [[1]] .listarr)) = .ok ([[1]], none) ∧
    specStep allEmpty0.array (.append [[1]] .listarr) = .ok ([[], [], [1]], none) ∧
    absR (step Cfg.current allEmpty0 (.append [[1]] .listarr)) = .ok ([[], [], [1]], none) ∧
    absR (step Cfg.beforeAppendEmpty allEmpty0 (.appendFlat [1, 2])) = .ok ([[1, 2]], none) ∧
    absR (step Cfg.current allEmpty0 (.appendFlat [1, 2])) = .ok ([[], [], [1, 2]], none) :=
  ⟨by decide, by decide, by decide, by decide, by decide⟩

theorem step_refines_before_append_empty_fix_counterexample :
    ¬ C06_step_refines_full Cfg.beforeAppendEmpty := by
  intro h
  have := h allEmpty0 (.append [[1]] .listarr) (by decide) trivial
  revert this
  decide

/-! ### what the operator-priority repair changed: the variant `Cfg.beforePriority` (for the record) -/

theorem repaired_beforePriority : Repaired Cfg.beforePriority := ⟨rfl, rfl, rfl, rfl⟩

/-- without `__array_priority__` everything except a numpy scalar on the left of an operator was
already right -/
theorem step_refines_before_priority_fix (s : State α) (op : Op α) (h : Inv s) (hv : Valid s op)
    (hn : isNpLeft op = false) (ha : isAppend op = false ∨ s.data ≠ []) : absR (step Cfg.beforePriority s op) = specStep s.array op :=
  step_refines_variant Cfg.beforePriority s op h
    (inScope_repaired _ repaired_beforePriority s op h.1 hv (Or.inr hn) (Or.inr ha))

/-- `np.int64(2) * a` before the repair — ValueError on unequal rows, a plain ndarray on equal rows; the
list-of-rows model, `2 * a`, and HEAD give the element-wise result -/
theorem numpy_scalar_left_operand_before_fix_counterexample :
    absR (step Cfg.beforePriority ragged0' (.npLeft (2 * ·) false)) = .error .valueError ∧
    absR (step Cfg.beforePriority block0' (.npLeft (2 * ·) false)) = .error .notRagged ∧
    specStep block0'.array (.npLeft (2 * ·) false) = .ok ([[1, 2], [3, 4]], some [[2, 4], [6, 8]]) ∧
    absR (step Cfg.beforePriority block0' (.binop (2 * ·))) = .ok ([[1, 2], [3, 4]], some [[2, 4], [6, 8]]) ∧
    absR (step Cfg.current block0' (.npLeft (2 * ·) false)) = .ok ([[1, 2], [3, 4]], some [[2, 4], [6, 8]]) :=
  ⟨by decide, by decide, by decide, by decide, by decide⟩

theorem step_refines_before_priority_fix_counterexample : ¬ C06_step_refines_full Cfg.beforePriority := by
  intro h
  have := h block0' (.npLeft (2 * ·) false) (by decide) trivial
  revert this
  decide

/-! ### what the three write-side repairs changed: the variant `Cfg.beforeC06` (read-side repair only),
one witness per finding that was open then (all closed by the `fix:` commits; for the record) -/

/-- a ragged array `[[1], [2, 3]]` and an equal-length array `[[1, 2], [3, 4]]` as the
constructor builds them (2-d object block for equal lengths) -/
def ragged0 : State Int := ⟨[1, 2, 3], [1, 2], [[1], [2, 3]], false, false⟩
def block0 : State Int := ⟨[1, 2, 3, 4], [2, 2], [[1, 2], [3, 4]], false, false⟩
def all_ : PySlice := ⟨none, none, none⟩

example : Inv ragged0 ∧ Inv block0 := by decide

/-- `a[0] = [7, 8, 9]` on an equal-length array: ValueError; `a[0] = [7]` fills the row with 7 -/
theorem setrow_rectangular_resize_before_fix_counterexample :
    absR (step Cfg.beforeC06 block0 (.setRow 0 [7, 8, 9])) = .error .valueError ∧
    specStep block0.array (.setRow 0 [7, 8, 9]) = .ok ([[7, 8, 9], [3, 4]], none) ∧
    absR (step Cfg.beforeC06 block0 (.setRow 0 [7])) = .ok ([[7, 7], [3, 4]], none) ∧
    specStep block0.array (.setRow 0 [7]) = .ok ([[7], [3, 4]], none) :=
  ⟨by decide, by decide, by decide, by decide⟩

/-- `a[0:2] = RaggedArray([[5, 6, 1], [7, 8]])` (two rows, unequal) on a 2 x 2 array: the two row
OBJECTS are broadcast into the cells -/
theorem setrows_rectangular_before_fix_counterexample :
    absR (step Cfg.beforeC06 block0 (.setRows (.slice all_) [[5, 6, 1], [7, 8]] .ra)) = .error .garbled ∧
    specStep block0.array (.setRows (.slice all_) [[5, 6, 1], [7, 8]] .ra)
      = .ok ([[5, 6, 1], [7, 8]], none) := ⟨by decide, by decide⟩

/-- `a.append([5, 6])` : ValueError -/
theorem append_flat_row_before_fix_counterexample :
    absR (step Cfg.beforeC06 ragged0 (.appendFlat [5, 6])) ≠ specStep ragged0.array (.appendFlat [5, 6]) := by
  decide

/-- `a[5:, 0] += 1` (no row selected): IndexError from `value[0]`, the model does nothing -/
theorem iopat_no_row_selected_before_fix_counterexample :
    absR (step Cfg.beforeC06 ragged0 (.iopAt (.slice ⟨some 5, none, none⟩) (.int 0) (· + 1))) = .error .indexError ∧
    specStep ragged0.array (.iopAt (.slice ⟨some 5, none, none⟩) (.int 0) (· + 1)) = .ok ([[1], [2, 3]], none) :=
  ⟨by decide, by decide⟩

/-- `row = a[0]; row[0] = 9` on an equal-length array: `_array` changes, `_data` does not -/
theorem viewwrite_rectangular_before_fix_counterexample :
    ∃ s', step Cfg.beforeC06 block0 (.viewWrite 0 0 9) = .ok (s', none) ∧ ¬ Coherent s' ∧
      obsRow s' 0 = .ok [9, 2] ∧ obsElem s' 0 0 = .ok 1 :=
  ⟨⟨[1, 2, 3, 4], [2, 2], [[9, 2], [3, 4]], false, false⟩, by decide, by decide, by decide, by decide⟩

/-- a row write on an equal-length array turns `_data` into an object array (public `.dtype`) -/
theorem rowwrite_object_dtype_before_fix_counterexample :
    ∃ s', step Cfg.beforeC06 block0 (.setRow 0 [7, 8]) = .ok (s', none) ∧ s'.objDtype = true :=
  ⟨⟨[7, 8, 3, 4], [2, 2], [[7, 8], [3, 4]], false, true⟩, by decide, rfl⟩

/-- the full statement about the public `.dtype` observer: it never degrades to `object` -/
def C06_dtype_stable_full (cfg : Cfg) : Prop :=
  ∀ (s s' : State Int) (o : Option (State Int)) (op : Op Int), s.objDtype = false →
    step cfg s op = .ok (s', o) → s'.objDtype = false

/-- **dtype_stable** for any variant that has the row-view repair (every operation, every state) -/
theorem dtype_stable_variant (cfg : Cfg) (hfix : cfg.rowViewsFix = true) (s s' : State α)
    (o : Option (State α)) (op : Op α) (h0 : s.objDtype = false)
    (hstep : step cfg s op = .ok (s', o)) : s'.objDtype = false :=
  dtype_stable cfg hfix s s' o op h0 hstep

/-- **dtype_stable**, `/repo` HEAD: no operation ever turns `_data` into an object array -/
theorem dtype_stable_current (s s' : State α) (o : Option (State α)) (op : Op α) (h0 : s.objDtype = false)
    (hstep : step Cfg.current s op = .ok (s', o)) : s'.objDtype = false :=
  dtype_stable Cfg.current rfl s s' o op h0 hstep

example : C06_dtype_stable_full Cfg.current := fun s s' o op h0 hs => dtype_stable_current s s' o op h0 hs

theorem dtype_stable_before_fix_counterexample : ¬ C06_dtype_stable_full Cfg.beforeC06 := by
  intro h
  have := h block0 ⟨[7, 8, 3, 4], [2, 2], [[7, 8], [3, 4]], false, true⟩ none (.setRow 0 [7, 8]) rfl (by decide)
  cases this

/-- the full statement of step_refines was false before the write-side repairs -/
theorem step_refines_before_fix_counterexample : ¬ C06_step_refines_full Cfg.beforeC06 := by
  intro h
  have := h ragged0 (.appendFlat [5, 6]) (by decide) (by decide)
  exact append_flat_row_before_fix_counterexample this

/-- the full statement of step_preserves_coherent was false before the write-side repairs -/
theorem step_preserves_coherent_before_fix_counterexample : ¬ C06_step_preserves_coherent_full Cfg.beforeC06 := by
  intro h
  have := h block0 ⟨[1, 2, 3, 4], [2, 2], [[9, 2], [3, 4]], false, false⟩ none (.viewWrite 0 0 9)
    (by decide) trivial (by decide)
  revert this
  decide

/-- On `/repo` HEAD every 2-d index is handled like the list of rows (the read-side repair):
`a[r, c] = v` is in scope for every index and every non-degenerate value. -/
theorem set2d_inScope_current (s : State α) (r : Sel) (c : CSel) (v : Val α) (h : Coherent s)
    (hv : v.isEmptyContainer = false) : InScope Cfg.current s (.set2d r c v) :=
  ⟨idxAgree_fixed Cfg.current rfl h r c, Or.inr hv⟩

/-- … and so is every mask assignment with a mask of the array's row structure -/
theorem setMask_inScope_current (s : State α) (mask : List (List Bool)) (v : Val α) (h : Coherent s)
    (hlen : mask.map List.length = s.lengths) (hv : v.isEmptyContainer = false) :
    InScope Cfg.current s (.setMask mask v) :=
  ⟨maskAgree_of_lengths Cfg.current h mask hlen (Or.inl rfl), Or.inr hv⟩

/-! ### before the `fix:` commit of the read-side repair (`Cfg.asIs`), for the record:
the index classes that were known findings then, each now handled like the list of rows -/

/-- `a[mask] = 7` with an all-false mask: was IndexError -/
theorem setmask_all_false_before_fix_counterexample :
    absR (step Cfg.asIs ragged0 (.setMask [[false], [false, false]] (.scalar 7)))
      ≠ specStep ragged0.array (.setMask [[false], [false, false]] (.scalar 7)) ∧
    absR (step Cfg.current ragged0 (.setMask [[false], [false, false]] (.scalar 7)))
      = specStep ragged0.array (.setMask [[false], [false, false]] (.scalar 7)) := ⟨by decide, by decide⟩

/-- `a[:, 1:] = 7` when a selected row has no column 1: was TypeError -/
theorem set2d_empty_selection_before_fix_counterexample :
    absR (step Cfg.asIs ragged0 (.set2d (.slice all_) (.slice ⟨some 1, none, none⟩) (.scalar 7)))
      ≠ specStep ragged0.array (.set2d (.slice all_) (.slice ⟨some 1, none, none⟩) (.scalar 7)) ∧
    absR (step Cfg.current ragged0 (.set2d (.slice all_) (.slice ⟨some 1, none, none⟩) (.scalar 7)))
      = .ok ([[1], [2, 7]], none) := ⟨by decide, by decide⟩

/-- `a[:, -1:] = 7` : wrote every cell instead of the last cell of each row -/
theorem set2d_col_slice_negative_start_before_fix_counterexample :
    absR (step Cfg.asIs ragged0 (.set2d (.slice all_) (.slice ⟨some (-1), none, none⟩) (.scalar 7)))
      = .ok ([[7], [7, 7]], none) ∧
    absR (step Cfg.current ragged0 (.set2d (.slice all_) (.slice ⟨some (-1), none, none⟩) (.scalar 7)))
      = .ok ([[7], [2, 7]], none) ∧
    specStep ragged0.array (.set2d (.slice all_) (.slice ⟨some (-1), none, none⟩) (.scalar 7))
      = .ok ([[7], [2, 7]], none) := ⟨by decide, by decide, by decide⟩

/-- `a[:, ::-1] = 7` : was TypeError -/
theorem set2d_col_slice_negative_step_before_fix_counterexample :
    absR (step Cfg.asIs ragged0 (.set2d (.slice all_) (.slice ⟨none, none, some (-1)⟩) (.scalar 7)))
      ≠ specStep ragged0.array (.set2d (.slice all_) (.slice ⟨none, none, some (-1)⟩) (.scalar 7)) := by decide

/-- `a[::-1, 0] = 7` : was ValueError -/
theorem set2d_row_slice_negative_step_before_fix_counterexample :
    absR (step Cfg.asIs ragged0 (.set2d (.slice ⟨none, none, some (-1)⟩) (.int 0) (.scalar 7)))
      ≠ specStep ragged0.array (.set2d (.slice ⟨none, none, some (-1)⟩) (.int 0) (.scalar 7)) := by decide

/-- `a[:5, 0] = 7` on two rows: was IndexError -/
theorem set2d_row_slice_out_of_range_before_fix_counterexample :
    absR (step Cfg.asIs ragged0 (.set2d (.slice ⟨none, some 5, none⟩) (.int 0) (.scalar 7)))
      ≠ specStep ragged0.array (.set2d (.slice ⟨none, some 5, none⟩) (.int 0) (.scalar 7)) := by decide

/-! ## histories -/

/-- **history_refines** (partial): after ANY finite history whose operations are in scope, the rows of
the object are the rows of the list-of-rows model after the same history, and the two stored
representations are coherent — hence (`observers_agree`) every observer agrees with the model. -/
theorem history_refines_variant (cfg : Cfg) (s : State α) (ops : List (Op α)) (h : Inv s)
    (hall : AllInScope cfg s ops) :
    (run cfg s ops).array = specRun s.array ops ∧ Coherent (run cfg s ops) :=
  let ⟨h1, h2⟩ := run_refines cfg ops s h hall
  ⟨h1, h2.1⟩

/-- `P` holds for every operation of the history at the state it is applied to -/
def AllAlong (cfg : Cfg) (P : State α → Op α → Prop) : State α → List (Op α) → Prop
  | _, [] => True
  | s, op :: ops => P s op ∧
      (match step cfg s op with
        | .ok (s', _) => AllAlong cfg P s' ops
        | .error _ => AllAlong cfg P s ops)

/-- every operation of the history satisfies the property's preconditions where it is applied -/
abbrev AllValidC (cfg : Cfg) (s : State α) (ops : List (Op α)) : Prop := AllAlong cfg Valid s ops
abbrev AllValid (s : State α) (ops : List (Op α)) : Prop := AllValidC Cfg.current s ops
/-- … and no `append` is applied to an array whose rows are all empty -/
abbrev AllValidNow (s : State α) (ops : List (Op α)) : Prop :=
  AllAlong Cfg.current (fun s op => Valid s op ∧ (isAppend op = false ∨ s.data ≠ [])) s ops

def decAllAlong (cfg : Cfg) (P : State α → Op α → Prop) [∀ s op, Decidable (P s op)] :
    (ops : List (Op α)) → (s : State α) → Decidable (AllAlong cfg P s ops)
  | [], _ => isTrue trivial
  | op :: ops, s =>
    match hs : step cfg s op with
    | .ok (s', o) =>
      have := decAllAlong cfg P ops s'
      decidable_of_iff (P s op ∧ AllAlong cfg P s' ops) (by simp only [AllAlong, hs])
    | .error e =>
      have := decAllAlong cfg P ops s
      decidable_of_iff (P s op ∧ AllAlong cfg P s ops) (by simp only [AllAlong, hs])

instance (cfg : Cfg) (P : State α → Op α → Prop) [∀ s op, Decidable (P s op)] (ops : List (Op α))
    (s : State α) : Decidable (AllAlong cfg P s ops) := decAllAlong cfg P ops s

theorem allAlong_mono (cfg : Cfg) (P Q : State α → Op α → Prop) (hpq : ∀ s op, P s op → Q s op)
    (ops : List (Op α)) : ∀ s, AllAlong cfg P s ops → AllAlong cfg Q s ops := by
  induction ops with
  | nil => intro _ _; trivial
  | cons op ops ih =>
    intro s h
    refine ⟨hpq s op h.1, ?_⟩
    have h2 := h.2
    cases hs : step cfg s op with
    | error e => rw [hs] at h2; exact ih s h2
    | ok res => rw [hs] at h2; exact ih res.1 h2

/-- the full statement of *history_refines* for a variant of the code -/
def C06_history_refines_full (cfg : Cfg) : Prop :=
  ∀ (s : State Int) (ops : List (Op Int)), Inv s → AllValidC cfg s ops →
    (run cfg s ops).array = specRun s.array ops ∧ Coherent (run cfg s ops)

theorem allInScope_repaired (cfg : Cfg) (hr : Repaired cfg) (ops : List (Op α)) :
    ∀ (s : State α), Inv s → AllAlong cfg (fun s op => Valid s op ∧ AppendOK cfg s op) s ops →
    (cfg.priorityFix = true ∨ ∀ op ∈ ops, isNpLeft op = false) → AllInScope cfg s ops := by
  induction ops with
  | nil => intro _ _ _ _; trivial
  | cons op ops ih =>
    intro s h hv hn
    obtain ⟨hv1, hv2⟩ := hv
    have hn1 : cfg.priorityFix = true ∨ isNpLeft op = false := by
      rcases hn with hn | hn
      · exact Or.inl hn
      · exact Or.inr (hn op (by simp))
    have hn2 : cfg.priorityFix = true ∨ ∀ op' ∈ ops, isNpLeft op' = false := by
      rcases hn with hn | hn
      · exact Or.inl hn
      · exact Or.inr (fun op' ho => hn op' (by simp [ho]))
    have hin := inScope_repaired cfg hr s op h.1 hv1.1 hn1 hv1.2
    have hst := not_stale_of_fix cfg hr.2.2.1 s op
    refine ⟨hin, hst, ?_⟩
    cases hs : step cfg s op with
    | error e =>
      rw [hs] at hv2
      exact ih s h hv2 hn2
    | ok res =>
      obtain ⟨s', o⟩ := res
      rw [hs] at hv2
      have := (stepOK_of_inScope cfg h op hin (fun _ _ _ => specTargets_valid)).2 s' o hs
      exact ih s' (this.1 hst) hv2 hn2

/-- **history_refines**, full strength, `/repo` HEAD: after ANY finite history of valid operations,
starting from any coherent non-empty array, the rows of the object are the rows of the list-of-rows
model after the same history and the two stored representations are coherent. -/
theorem history_refines (s : State α) (ops : List (Op α)) (h : Inv s) (hv : AllValid s ops) :
    (run Cfg.current s ops).array = specRun s.array ops ∧ Coherent (run Cfg.current s ops) :=
  history_refines_variant Cfg.current s ops h
    (allInScope_repaired _ repaired_current ops s h
      (allAlong_mono _ _ _ (fun _ _ hp => ⟨hp, Or.inl rfl⟩) ops s hv) (Or.inl rfl))

def decAllInScope [DecidableEq α] (cfg : Cfg) :
    (ops : List (Op α)) → (s : State α) → Decidable (AllInScope cfg s ops)
  | [], _ => isTrue trivial
  | op :: ops, s =>
    match hs : step cfg s op with
    | .ok (s', o) =>
      have := decAllInScope cfg ops s'
      decidable_of_iff (InScope cfg s op ∧ ¬ StaleWrite cfg s op ∧ AllInScope cfg s' ops)
        (by simp only [AllInScope, hs])
    | .error e =>
      have := decAllInScope cfg ops s
      decidable_of_iff (InScope cfg s op ∧ ¬ StaleWrite cfg s op ∧ AllInScope cfg s ops)
        (by simp only [AllInScope, hs])

instance [DecidableEq α] (cfg : Cfg) (ops : List (Op α)) (s : State α) :
    Decidable (AllInScope cfg s ops) := decAllInScope cfg ops s

example : C06_history_refines_full Cfg.current := fun s ops h hv => history_refines s ops h hv

/-- before the all-empty `append` repair the full statement of history_refines was false -/
theorem history_refines_before_append_empty_fix_counterexample :
    ¬ C06_history_refines_full Cfg.beforeAppendEmpty := by
  intro h
  have := (h allEmpty0 [.append [[1]] .listarr] (by decide) (by decide)).1
  revert this
  decide

/-- before the operator-priority repair: `a = np.int64(2) * a` on `[[1], [2, 3]]` raised, the list of rows
becomes `[[2], [4, 6]]` -/
theorem history_refines_before_priority_fix_counterexample : ¬ C06_history_refines_full Cfg.beforePriority := by
  intro h
  have := (h ragged0' [.npLeft (2 * ·) true] (by decide) ⟨trivial, by split <;> trivial⟩).1
  revert this
  decide

/-- history_refines was false before the write-side repairs: `a.append([5, 6])` on `[[1], [2, 3]]`
raised and left the array as it was, the list of rows becomes `[[1], [2, 3], [5, 6]]` -/
theorem history_refines_before_fix_counterexample : ¬ C06_history_refines_full Cfg.beforeC06 := by
  intro h
  have := (h ragged0 [.appendFlat [5, 6]] (by decide) ⟨by decide, by split <;> trivial⟩).1
  revert this
  decide

-- non-vacuity: a three-step history on the unchanged tree, in scope at every step
example : AllInScope Cfg.asIs ragged0
    [.setElem 1 (-1) 9, .set2d (.slice all_) (.int 0) (.flat [5, 6]), .append [[4, 4]] .listarr] := by decide
example : (run Cfg.asIs ragged0
    [.setElem 1 (-1) 9, .set2d (.slice all_) (.int 0) (.flat [5, 6]), .append [[4, 4]] .listarr]).array
    = [[5], [6, 9], [4, 4]] := by decide

/-- **observers_agree**: on a coherent state every way of looking at the object shows the rows:
`a[i]`, `a[i, j]` (incl. negative indices and IndexError), iteration, `flatten()/_data`, `lengths`,
`starts`, `len`, `size`, and every reduction (`all/any/max/min` are folds over `_data`). -/
theorem observers_agree (s : State α) (h : Coherent s) :
    (∀ i, obsRow s i = specRow s.array i) ∧
    (∀ i j, obsElem s i j = specElem s.array i j) ∧
    obsIter s = s.array ∧
    obsFlat s = s.array.flatten ∧
    obsLengths s = s.array.map List.length ∧
    (∀ r, r < s.array.length → (obsStarts s)[r]? = some ((s.array.take r).map List.length).sum) ∧
    obsLen s = s.array.length ∧
    obsSize s = (s.array.map List.length).sum ∧
    (∀ (β : Type) (f : β → α → β) (init : β), obsReduce s f init = s.array.flatten.foldl f init) :=
  ⟨fun i => obsRow_eq s i, fun i j => obsElem_eq h i j, obsIter_eq s, obsFlat_eq h, obsLengths_eq h,
   fun r hr => obsStarts_eq h r hr, obsLen_eq s, obsSize_eq h, fun _ f init => obsReduce_eq h f init⟩

example : obsElem ragged0 1 (-1) = .ok 3 ∧ obsElem ragged0 0 1 = .error .indexError := by decide

/-- history + observers: after any in-scope history every observer of the object equals the
observer of the list-of-rows model after the same history -/
theorem history_observers_variant (cfg : Cfg) (s : State α) (ops : List (Op α)) (h : Inv s)
    (hall : AllInScope cfg s ops) :
    let s' := run cfg s ops
    let rows' := specRun s.array ops
    (∀ i, obsRow s' i = specRow rows' i) ∧ (∀ i j, obsElem s' i j = specElem rows' i j) ∧
    obsIter s' = rows' ∧ obsFlat s' = rows'.flatten ∧ obsLengths s' = rows'.map List.length ∧
    obsLen s' = rows'.length ∧
    (∀ (β : Type) (f : β → α → β) (init : β), obsReduce s' f init = rows'.flatten.foldl f init) ∧
    (∀ r, r < rows'.length → (obsStarts s')[r]? = some ((rows'.take r).map List.length).sum) ∧
    obsSize s' = (rows'.map List.length).sum := by
  obtain ⟨h1, h2⟩ := history_refines_variant cfg s ops h hall
  have ho := observers_agree (run cfg s ops) h2
  simp only
  rw [← h1]
  exact ⟨ho.1, ho.2.1, ho.2.2.1, ho.2.2.2.1, ho.2.2.2.2.1, ho.2.2.2.2.2.2.1, ho.2.2.2.2.2.2.2.2,
    ho.2.2.2.2.2.1, ho.2.2.2.2.2.2.2.1⟩

/-- **history_observers**, full strength, `/repo` HEAD: after any finite history of valid operations every
observer of the object (rows, cells incl. negative indices / IndexError, iteration, flat data, lengths,
starts, len, size, every reduction) equals the observer of the list-of-rows model after that history. -/
theorem history_observers (s : State α) (ops : List (Op α)) (h : Inv s) (hv : AllValid s ops) :
    let s' := run Cfg.current s ops
    let rows' := specRun s.array ops
    (∀ i, obsRow s' i = specRow rows' i) ∧ (∀ i j, obsElem s' i j = specElem rows' i j) ∧
    obsIter s' = rows' ∧ obsFlat s' = rows'.flatten ∧ obsLengths s' = rows'.map List.length ∧
    obsLen s' = rows'.length ∧
    (∀ (β : Type) (f : β → α → β) (init : β), obsReduce s' f init = rows'.flatten.foldl f init) ∧
    (∀ r, r < rows'.length → (obsStarts s')[r]? = some ((rows'.take r).map List.length).sum) ∧
    obsSize s' = (rows'.map List.length).sum :=
  history_observers_variant Cfg.current s ops h
    (allInScope_repaired _ repaired_current ops s h
      (allAlong_mono _ _ _ (fun _ _ hp => ⟨hp, Or.inl rfl⟩) ops s hv) (Or.inl rfl))

-- non-vacuity on `/repo` HEAD: a history through every writer family, incl. the formerly failing forms
example : AllValid block0
    [.setRow 0 [7, 8, 9], .viewWrite 1 0 5, .set2d (.slice all_) (.slice ⟨some (-1), none, none⟩) (.scalar 0),
     .setMask [[false, false, false], [false, false]] (.scalar 1), .appendFlat [6],
     .iopAt (.slice ⟨some 9, none, none⟩) (.int 0) (· + 1), .setRows (.slice ⟨none, some 2, none⟩) [[1], [2, 2]] .ra] := by
  decide
example : (run Cfg.current block0
    [.setRow 0 [7, 8, 9], .viewWrite 1 0 5, .set2d (.slice all_) (.slice ⟨some (-1), none, none⟩) (.scalar 0),
     .setMask [[false, false, false], [false, false]] (.scalar 1), .appendFlat [6],
     .iopAt (.slice ⟨some 9, none, none⟩) (.int 0) (· + 1), .setRows (.slice ⟨none, some 2, none⟩) [[1], [2, 2]] .ra]).array
    = [[1], [2, 2], [6]] := by decide

/-! ## operators -/

/-- **operators_pure**: `b = a ⊕ scalar`, `b = ~a`, `b = a < c` (any element function `f`, any result
type): a new value with the same lengths whose flat data and rows are the element-wise images; `a`
itself is not part of the result (the functional model returns it unchanged, see `step`). -/
theorem operators_pure (cfg : Cfg) (s : State α) (f : α → β) (h : Inv s)
    (hd : s.data ≠ [] ∨ cfg.readsFix = true) :
    ∃ b, mapOp cfg f s = .ok b ∧ b.lengths = s.lengths ∧ b.data = s.data.map f ∧
      b.array = s.array.map (List.map f) ∧ Coherent b :=
  let ⟨b, h1, h2, h3, h4, h5⟩ := mapOp_spec cfg h f hd
  ⟨b, h1, h4, h5, h2, h3.1⟩

/-- the same between two ragged arrays of equal row structure -/
theorem operators_pure2 (cfg : Cfg) (s : State α) (g : α → β → γ) (o : Rows β) (h : Inv s)
    (ho : o.map List.length = s.lengths) (hd : s.data ≠ [] ∨ cfg.readsFix = true) :
    ∃ b, zipOp cfg g s o.flatten = .ok b ∧ b.lengths = s.lengths ∧
      b.data = List.zipWith g s.data o.flatten ∧
      b.array = List.zipWith (List.zipWith g) s.array o ∧ Coherent b :=
  let ⟨b, h1, h2, h3, h4, h5⟩ := zipOp_spec cfg h g o ho hd
  ⟨b, h1, h4, h5, h2, h3.1⟩

/-- `/repo` HEAD: no side condition at all -/
theorem operators_pure_current (s : State α) (f : α → β) (h : Inv s) :
    ∃ b, mapOp Cfg.current f s = .ok b ∧ b.lengths = s.lengths ∧ b.data = s.data.map f ∧
      b.array = s.array.map (List.map f) ∧ Coherent b :=
  operators_pure Cfg.current s f h (Or.inr rfl)

theorem operators_pure2_current (s : State α) (g : α → β → γ) (o : Rows β) (h : Inv s)
    (ho : o.map List.length = s.lengths) :
    ∃ b, zipOp Cfg.current g s o.flatten = .ok b ∧ b.lengths = s.lengths ∧
      b.data = List.zipWith g s.data o.flatten ∧
      b.array = List.zipWith (List.zipWith g) s.array o ∧ Coherent b :=
  operators_pure2 Cfg.current s g o h ho (Or.inr rfl)

/-- in `step`, a pure operator leaves the object as it is and returns the element-wise result -/
theorem operators_pure_step (cfg : Cfg) (s s' : State α) (o : Option (State α)) (f : α → α)
    (h : Inv s) (hstep : step cfg s (.binop f) = .ok (s', o)) :
    s' = s ∧ ∃ b, o = some b ∧ b.data = s.data.map f ∧ b.lengths = s.lengths := by
  simp only [step] at hstep
  cases hm : mapOp cfg f s with
  | error e => simp [hm] at hstep
  | ok b =>
    simp only [hm] at hstep
    injection hstep with hstep
    injection hstep with e1 e2
    subst e1 e2
    refine ⟨rfl, b, rfl, ?_⟩
    unfold mapOp at hm
    have hsum : s.lengths.sum = (s.data.map f).length := by simp [h.1.1]
    by_cases hd : s.data ≠ [] ∨ cfg.readsFix = true
    · have hd' : s.data.map f ≠ [] ∨ cfg.readsFix = true := by
        rcases hd with hd | hd
        · left; simpa using hd
        · right; exact hd
      rw [initFlat_eq cfg _ _ _ _ h.lengths_ne hsum hd'] at hm
      injection hm with hm
      subst hm
      exact ⟨rfl, rfl⟩
    · exfalso
      have hd1 : s.data = [] := by
        cases hs : s.data with
        | nil => rfl
        | cons x xs => exact absurd (Or.inl (by simp [hs])) hd
      have hd2 : cfg.readsFix = false := by
        cases hr : cfg.readsFix with
        | false => rfl
        | true => exact absurd (Or.inr hr) hd
      simp [initFlat, hd1, hd2] at hm

example : ∃ b, step Cfg.asIs ragged0 (.binop (· + 10)) = .ok (ragged0, some b) ∧
    b.array = [[11], [12, 13]] := ⟨⟨[11, 12, 13], [1, 2], [[11], [12, 13]], true, false⟩, by decide, rfl⟩

/-- **iop_elementwise**: `a ⊕= scalar` / `a ⊕= RaggedArray` rebinds `a` to the element-wise result
(`ra.py` has no `__iadd__`: Python evaluates `a = a.__add__(b)`). -/
theorem iop_elementwise (cfg : Cfg) (s : State α) (f : α → α) (h : Inv s)
    (hd : s.data ≠ [] ∨ cfg.readsFix = true) :
    ∃ s', step cfg s (.iop f) = .ok (s', none) ∧ s'.array = s.array.map (List.map f) ∧
      s'.lengths = s.lengths ∧ Coherent s' := by
  obtain ⟨b, h1, h2, h3, h4, _⟩ := mapOp_spec cfg h f hd
  exact ⟨b, by simp only [step, h1], h2, h4, h3.1⟩

theorem iop_elementwise_current (s : State α) (f : α → α) (h : Inv s) :
    ∃ s', step Cfg.current s (.iop f) = .ok (s', none) ∧ s'.array = s.array.map (List.map f) ∧
      s'.lengths = s.lengths ∧ Coherent s' :=
  iop_elementwise Cfg.current s f h (Or.inr rfl)

theorem iop2_elementwise (cfg : Cfg) (s : State α) (g : α → α → α) (o : Rows α) (h : Inv s)
    (ho : o.map List.length = s.lengths) (hd : s.data ≠ [] ∨ cfg.readsFix = true) :
    ∃ s', step cfg s (.iop2 g o) = .ok (s', none) ∧
      s'.array = List.zipWith (List.zipWith g) s.array o ∧ s'.lengths = s.lengths ∧ Coherent s' := by
  obtain ⟨b, h1, h2, h3, h4, _⟩ := zipOp_spec cfg h g o ho hd
  exact ⟨b, by simp only [step, h1], h2, h4, h3.1⟩

/-- `a[r, c] ⊕= scalar`: in scope, exactly the addressed cells are mapped (gather, map, scatter) -/
theorem iopAt_elementwise (cfg : Cfg) (s : State α) (r : Sel) (c : CSel) (f : α → α) (h : Inv s)
    (hs : InScope cfg s (.iopAt r c f)) :
    absR (step cfg s (.iopAt r c f)) = specStep s.array (.iopAt r c f) :=
  step_refines_variant cfg s _ h hs

example : absR (step Cfg.asIs ragged0 (.iopAt (.slice all_) (.slice ⟨none, some 1, none⟩) (· + 2)))
    = .ok ([[3], [4, 3]], none) := by decide

end C06
