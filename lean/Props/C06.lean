import Model.RaggedW
namespace C06
theorem placeholder : True := trivial
end C06
