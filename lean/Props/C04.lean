import Model.Builders
import Proofs.C04
import Proofs.C04Mle
import Model.Generated.BuildersSite
import Mathlib.Tactic.NormNum
import Mathlib.Tactic.IntervalCases
import Mathlib.Tactic.FinCases
import Mathlib.Data.Rat.Floor

/-!
# C04 — every builder returns a valid, stationary and (where promised) reversible model

Theorems about `Model.Builders` over an arbitrary linear ordered field `K` (so in particular
over `Rat`, the instance the driver runs; the `example`s at `Rat` check that the model's core
instances and Mathlib's agree).  Sums are the model's `sumTo n` (indices `< n`).

What is *not* proved here and why:
* `normalize`: stationarity of the populations that `normalize` returns needs the eigen-solver.
  LAPACK's `eig` is a **parameter** of the model (`normalizeBuilder … eig`); the full clause is
  `def C04_normalize_stationary_full` (not asserted), what is proved is the contract form
  `normalize_stationary_partial`: *if* the solver's vector is a left eigenvector for eigenvalue
  1 with non-zero sum, the code's normalisation makes it a stationary probability vector.  The
  correspondence check compares the real output with the exact stationary vector.
* floats: all statements are exact-arithmetic statements.

Correspondence-only clauses (no theorem, because the model has one value per call and no
notion of aliasing; established by the differential run in `harness/props/c04.py` on every
case): "the numbers are the same for dense input and every supported sparse format" (each
container's output is compared with the model and with the ndarray result, incl. sparse inputs
with un-summed repeated entries), and "the caller's matrix is left unchanged" (snapshots
before/after every call).  scipy's result containers (`A + A.T`, `A + prior`, `A / 2.0`) are a
measured table, re-measured on every run.

Size-gated code path, correspondence-only: for sparse input with ≥ 1000 states
`eigenspectrum`/`eq_probs` switch from LAPACK (`scipy.linalg.eig` on the densified matrix) to
ARPACK (`eigs(…, which="LR")`, random start vector).  Nothing in the model depends on the size
(the solver is the parameter of `C04_solver_contract`), so that path is covered only by the
`large-sparse` family of `harness/props/c04.py`: 999/1000/1001/1024/1500/2048 states, periodic
(period 2, 3, 4, 6), near-periodic, metastable-block and aperiodic chains in csr/csc/coo/lil/
dok/bsr, `normalize` called repeatedly on the same matrix, populations compared with a direct
sparse solve that certifies its own residual.

Theorems marked "by construction of the model" are `rfl`-level: they state what the model
does (which the correspondence check ties to the code), not a consequence of it.

`mle`: the Prinz iteration is C12; `mle_end_to_end` composes C12's run theorems with the
output-stage theorems here into one statement about what the `mle` builder returns.
-/

set_option linter.unusedSectionVars false

namespace C04
open Ens Ens.Builders Ens.C04P

section field
variable {K : Type} [Field K] [LinearOrder K] [IsStrictOrderedRing K]

/-! ### row normalisation -/

/-- `_row_normalize`: a row with positive total becomes `C[i,j] / rowsum[i]` and sums to one;
a row whose total is not positive becomes zero; non-negative rows stay non-negative. -/
theorem rowNormalize_stochastic (n : Nat) (C : Mat K) (i : Nat) :
    (0 < rowSum n C i →
        (∀ j, rowNormalize n C i j = C i j / rowSum n C i) ∧
        sumTo n (fun j => rowNormalize n C i j) = 1) ∧
    (¬ 0 < rowSum n C i → ∀ j, rowNormalize n C i j = 0) ∧
    ((∀ j, 0 ≤ C i j) → ∀ j, 0 ≤ rowNormalize n C i j) := by
  refine ⟨fun h => ⟨fun j => rowNormalize_entry h j, rowNormalize_row_sum h⟩, ?_, ?_⟩
  · intro h j
    simp [rowNormalize, invWeight_nonpos h]
  · intro h j
    exact mul_nonneg (h j) (invWeight_nonneg _)

-- non-vacuity: a 2×2 count matrix with a positive and a zero row
example : (0 : Rat) < rowSum 2 (fun i j => if i = 0 then (j : Rat) + 1 else 0) 0 := by
  norm_num [rowSum, sumTo]
example : ¬ (0 : Rat) < rowSum 2 (fun i j => if i = 0 then (j : Rat) + 1 else 0) 1 := by
  norm_num [rowSum, sumTo]
example : rowNormalize 2 (fun i j => if i = 0 then (j : Rat) + 1 else 0) 0 1 = 2 / 3 := by
  norm_num [rowNormalize, invWeight, rowSum, sumTo]
-- the theorem applies to the `Rat` instance the driver runs
example (n : Nat) (C : Mat Rat) (i : Nat) (h : 0 < rowSum n C i) :
    sumTo n (fun j => rowNormalize n C i j) = 1 := ((rowNormalize_stochastic n C i).1 h).2

/-- (by construction of the model) the `normalize` builder returns `rownorm (C + prior)` and
`C + prior` -/
theorem normalize_probs (n : Nat) (C : Mat K) (prior : Prior K) (eig : Option (Nat → K)) :
    (normalizeBuilder n C prior eig).probs = rowNormalize n (applyPrior C prior) ∧
    (normalizeBuilder n C prior eig).counts = applyPrior C prior := ⟨rfl, rfl⟩

/-! ### prior counts are added before estimation -/

/-- (by construction of the model: `applyPrior` is the first step of each builder, as
`_apply_prior_counts` is the first statement of each function)
`builder(C, prior) = builder(C + prior, None)` for all three builders (for `mle`: around
any estimator `est`) -/
theorem prior_added_first (n : Nat) (C : Mat K) (prior : Prior K) :
    (∀ eig, (normalizeBuilder n C prior eig).probs = (normalizeBuilder n (applyPrior C prior) .none eig).probs
          ∧ (normalizeBuilder n C prior eig).counts = (normalizeBuilder n (applyPrior C prior) .none eig).counts
          ∧ (normalizeBuilder n C prior eig).eq = (normalizeBuilder n (applyPrior C prior) .none eig).eq) ∧
    (∀ calcEq, (transposeBuilder n C prior calcEq).probs = (transposeBuilder n (applyPrior C prior) .none calcEq).probs
          ∧ (transposeBuilder n C prior calcEq).counts = (transposeBuilder n (applyPrior C prior) .none calcEq).counts
          ∧ (transposeBuilder n C prior calcEq).eq = (transposeBuilder n (applyPrior C prior) .none calcEq).eq) ∧
    (∀ {ε : Type} (est : Mat K → Except ε (Mat K × (Nat → K))) calcEq,
        mleBuilder est C prior calcEq = mleBuilder est (applyPrior C prior) .none calcEq) :=
  ⟨fun _ => ⟨rfl, rfl, rfl⟩, fun _ => ⟨rfl, rfl, rfl⟩, fun _ _ => rfl⟩

/-- (by construction of the model) scalar and matrix priors add entrywise -/
theorem applyPrior_entry (C : Mat K) (a : K) (P : Mat K) (i j : Nat) :
    applyPrior C .none i j = C i j ∧
    applyPrior C (.scalar a) i j = C i j + a ∧
    applyPrior C (.matrix P) i j = C i j + P i j := ⟨rfl, rfl, rfl⟩

/-! ### transpose (symmetrisation) builder -/

/-- the symmetrised matrix of the transpose builder -/
abbrev symOf (C : Mat K) (prior : Prior K) : Mat K := symmetrize (applyPrior C prior)

theorem symOf_symm (C : Mat K) (prior : Prior K) (i j : Nat) :
    symOf C prior i j = symOf C prior j i := by
  simp [symOf, symmetrize, add_comm]

/-- the rows of the returned matrix are probability distributions for every state whose
symmetrised row has positive total; entries are `S[i,j] / rowsum S[i]` -/
theorem transpose_stochastic (n : Nat) (C : Mat K) (prior : Prior K) (calcEq : Bool) (i : Nat)
    (hi : 0 < rowSum n (symOf C prior) i) :
    sumTo n (fun j => (transposeBuilder n C prior calcEq).probs i j) = 1 ∧
    ∀ j, (transposeBuilder n C prior calcEq).probs i j
          = symOf C prior i j / rowSum n (symOf C prior) i :=
  ⟨rowNormalize_row_sum hi, fun j => rowNormalize_entry hi j⟩

/-- detailed balance `π_i T_ij = π_j T_ji` with the returned populations -/
theorem transpose_detailed_balance (n : Nat) (C : Mat K) (prior : Prior K)
    (hpos : ∀ i, i < n → 0 < rowSum n (symOf C prior) i)
    (π : Nat → K) (hπ : (transposeBuilder n C prior true).eq = some π)
    (i j : Nat) (hi : i < n) (hj : j < n) :
    π i * (transposeBuilder n C prior true).probs i j
      = π j * (transposeBuilder n C prior true).probs j i := by
  have hπ' : π = fun i => rowSum n (symOf C prior) i / total n (symOf C prior) := by
    simpa [transposeBuilder] using hπ.symm
  subst hπ'
  show rowSum n (symOf C prior) i / _ * rowNormalize n (symOf C prior) i j
     = rowSum n (symOf C prior) j / _ * rowNormalize n (symOf C prior) j i
  rw [pi_mul_T (hpos i hi), pi_mul_T (hpos j hj), symOf_symm]

/-- stationarity `Σ_i π_i T_ij = π_j` -/
theorem transpose_stationary (n : Nat) (C : Mat K) (prior : Prior K)
    (hpos : ∀ i, i < n → 0 < rowSum n (symOf C prior) i)
    (π : Nat → K) (hπ : (transposeBuilder n C prior true).eq = some π)
    (j : Nat) (_hj : j < n) :
    sumTo n (fun i => π i * (transposeBuilder n C prior true).probs i j) = π j := by
  have hπ' : π = fun i => rowSum n (symOf C prior) i / total n (symOf C prior) := by
    simpa [transposeBuilder] using hπ.symm
  subst hπ'
  show sumTo n (fun i => rowSum n (symOf C prior) i / _ * rowNormalize n (symOf C prior) i j) = _
  rw [sumTo_eq_sum]
  rw [Finset.sum_congr rfl (fun i hi => pi_mul_T (hpos i (Finset.mem_range.mp hi)) _ j)]
  rw [← Finset.sum_div]
  show _ = rowSum n (symOf C prior) j / total n (symOf C prior)
  rw [rowSum_eq]
  congr 1
  exact Finset.sum_congr rfl (fun i _ => symOf_symm C prior i j)

/-- the returned populations are a probability vector -/
theorem transpose_pi_prob (n : Nat) (hn : 0 < n) (C : Mat K) (prior : Prior K)
    (hpos : ∀ i, i < n → 0 < rowSum n (symOf C prior) i)
    (π : Nat → K) (hπ : (transposeBuilder n C prior true).eq = some π) :
    sumTo n π = 1 ∧ ∀ i, i < n → 0 < π i := by
  have hπ' : π = fun i => rowSum n (symOf C prior) i / total n (symOf C prior) := by
    simpa [transposeBuilder] using hπ.symm
  subst hπ'
  have htot := total_pos n hn _ hpos
  constructor
  · rw [sumTo_eq_sum, ← Finset.sum_div]
    have : ∑ i ∈ Finset.range n, rowSum n (symOf C prior) i = total n (symOf C prior) := by
      unfold total; rw [sumTo_eq_sum]
    rw [this]
    exact div_self (ne_of_gt htot)
  · intro i hi
    exact div_pos (hpos i hi) htot

/-- (by construction of the model) `calculate_eq_probs=False` returns no populations; the
returned counts are `S/2` -/
theorem transpose_flags (n : Nat) (C : Mat K) (prior : Prior K) :
    (transposeBuilder n C prior false).eq = none ∧
    (∃ π, (transposeBuilder n C prior true).eq = some π) ∧
    ∀ b i j, (transposeBuilder n C prior b).counts i j = symOf C prior i j / 2 :=
  ⟨rfl, ⟨_, rfl⟩, fun _ _ _ => rfl⟩

-- non-vacuity: C = [[1,2],[0,3]] has positive symmetrised rows
example : ∀ i, i < 2 → (0 : Rat) < rowSum 2 (symOf (fun i j => if i = 0 then (j : Rat) + 1 else if j = 0 then 0 else 3) .none) i := by
  intro i hi
  interval_cases i <;> norm_num [rowSum, sumTo, symOf, symmetrize, applyPrior]

/-! ### output stage of the maximum-likelihood builder -/

/-- rows are probability distributions -/
theorem mle_output_stochastic (n : Nat) (X : Mat K) (Xrs : Nat → K)
    (hpos : ∀ i, i < n → 0 < rowSum n X i) (i : Nat) (hi : i < n) :
    sumTo n (fun j => (mleOutput n X Xrs).1 i j) = 1 ∧
    ((∀ j, 0 ≤ X i j) → ∀ j, 0 ≤ (mleOutput n X Xrs).1 i j) := by
  constructor
  · show sumTo n (fun j => X i j / rowSum n X i) = 1
    rw [sumTo_eq_sum, ← Finset.sum_div, ← rowSum_eq]
    exact div_self (ne_of_gt (hpos i hi))
  · intro h j
    exact div_nonneg (h j) (le_of_lt (hpos i hi))

/-- detailed balance of the returned `(T, π)` for every symmetric `X` whose running row sums
are its row sums -/
theorem mle_output_detailed_balance (n : Nat) (X : Mat K) (Xrs : Nat → K)
    (hsym : ∀ i j, i < n → j < n → X i j = X j i)
    (hrs : ∀ i, i < n → Xrs i = rowSum n X i)
    (hpos : ∀ i, i < n → 0 < rowSum n X i)
    (i j : Nat) (hi : i < n) (hj : j < n) :
    (mleOutput n X Xrs).2 i * (mleOutput n X Xrs).1 i j
      = (mleOutput n X Xrs).2 j * (mleOutput n X Xrs).1 j i := by
  show Xrs i / sumTo n Xrs * (X i j / rowSum n X i) = Xrs j / sumTo n Xrs * (X j i / rowSum n X j)
  rw [hrs i hi, hrs j hj, pi_mul_div (ne_of_gt (hpos i hi)), pi_mul_div (ne_of_gt (hpos j hj)),
    hsym i j hi hj]

/-- stationarity of the returned `π` under the returned `T` -/
theorem mle_output_stationary (n : Nat) (X : Mat K) (Xrs : Nat → K)
    (hsym : ∀ i j, i < n → j < n → X i j = X j i)
    (hrs : ∀ i, i < n → Xrs i = rowSum n X i)
    (hpos : ∀ i, i < n → 0 < rowSum n X i)
    (j : Nat) (hj : j < n) :
    sumTo n (fun i => (mleOutput n X Xrs).2 i * (mleOutput n X Xrs).1 i j)
      = (mleOutput n X Xrs).2 j := by
  show sumTo n (fun i => Xrs i / sumTo n Xrs * (X i j / rowSum n X i)) = Xrs j / sumTo n Xrs
  rw [sumTo_eq_sum]
  have h1 : ∀ i ∈ Finset.range n,
      Xrs i / sumTo n Xrs * (X i j / rowSum n X i) = X i j / sumTo n Xrs := by
    intro i hi
    have hi' := Finset.mem_range.mp hi
    rw [hrs i hi', pi_mul_div (ne_of_gt (hpos i hi'))]
  rw [Finset.sum_congr rfl h1, ← Finset.sum_div, hrs j hj, rowSum_eq,
    colSum_of_symm n X hsym j hj]

/-- the returned populations are a probability vector -/
theorem mle_output_pi_prob (n : Nat) (hn : 0 < n) (X : Mat K) (Xrs : Nat → K)
    (hrs : ∀ i, i < n → Xrs i = rowSum n X i)
    (hpos : ∀ i, i < n → 0 < rowSum n X i) :
    sumTo n (mleOutput n X Xrs).2 = 1 ∧ ∀ i, i < n → 0 < (mleOutput n X Xrs).2 i := by
  have hp : ∀ i, i < n → 0 < Xrs i := fun i hi => by rw [hrs i hi]; exact hpos i hi
  have htot : 0 < sumTo n Xrs := sum_pos_of_pos n hn Xrs hp
  constructor
  · show sumTo n (fun i => Xrs i / sumTo n Xrs) = 1
    rw [sumTo_eq_sum, ← Finset.sum_div, ← sumTo_eq_sum]
    exact div_self (ne_of_gt htot)
  · intro i hi
    exact div_pos (hp i hi) htot

-- non-vacuity: X = [[2,1],[1,0]] is symmetric with positive row sums
example : (∀ i j, i < 2 → j < 2 →
      (fun i j => if i = 0 ∧ j = 0 then (2 : Rat) else if i = 1 ∧ j = 1 then 0 else 1) i j
    = (fun i j => if i = 0 ∧ j = 0 then (2 : Rat) else if i = 1 ∧ j = 1 then 0 else 1) j i) ∧
    (∀ i, i < 2 → (0 : Rat) < rowSum 2
      (fun i j => if i = 0 ∧ j = 0 then (2 : Rat) else if i = 1 ∧ j = 1 then 0 else 1) i) := by
  constructor
  · intro i j hi hj
    interval_cases i <;> interval_cases j <;> norm_num
  · intro i hi
    interval_cases i <;> norm_num [rowSum, sumTo]

/-! ### the `mle` builder end to end -/

section mle_e2e
open Ens.Mle Ens.C12P
variable {n : Nat}

/-- **`builders.mle` end to end** (model: `mleBuilder` around `prinzEst`, i.e. prior counts,
then the Prinz iteration `Mle.run` of C12 on the dense counts, then `T = X/rowsum`,
`π = X_rs/ΣX_rs`).  On non-negative counts (after the prior) in which every state has an
outgoing and an incoming off-diagonal count (implied by strong connectivity with ≥ 2 states,
`C12.conn_of_strongly_connected`), in exact arithmetic:
* the call never ends in an assertion failure, and returns whenever the `warnings.warn` call
  site is in its repaired form;
* whatever it returns has a row-stochastic non-negative `T`, a positive probability vector `π`
  that satisfies detailed balance and is stationary under `T`, and the counts `C + prior`.
This composes C12's `run_spec`/`valid_props` (loop invariants, positivity of the running row
sums, exact final assertions) with the representation bridge `matFn`/`matOfFn`. -/
theorem mle_end_to_end {P : Params K} (hs : SqrtSpec P.sqrt) (hP : ParamsOK P) (hn : 0 < n)
    (hmax : 0 < P.maxIter) (C : Mat K) (prior : Prior K)
    (hC : ∀ i j, i < n → j < n → 0 ≤ applyPrior C prior i j)
    (hc : Conn (matOfFn n (applyPrior C prior))) :
    mleBuilder (prinzEst P n) C prior true ≠ .error .assertion ∧
    (P.warnSwapped = false → ∃ o, mleBuilder (prinzEst P n) C prior true = .ok o) ∧
    ∀ o, mleBuilder (prinzEst P n) C prior true = .ok o →
      o.counts = applyPrior C prior ∧
      (∀ i, i < n → sumTo n (fun j => o.probs i j) = 1) ∧
      (∀ i j, i < n → j < n → 0 ≤ o.probs i j) ∧
      ∃ π, o.eq = some π ∧ sumTo n π = 1 ∧ (∀ i, i < n → 0 < π i) ∧
        (∀ i j, i < n → j < n → π i * o.probs i j = π j * o.probs j i) ∧
        (∀ j, j < n → sumTo n (fun i => π i * o.probs i j) = π j) := by
  have hC' : ∀ i j : Fin n, 0 ≤ mget (matOfFn n (applyPrior C prior)) i j := fun i j => by
    rw [mget_matOfFn]; exact hC _ _ i.isLt j.isLt
  obtain ⟨Crs, st, k, hD, hinv, hpos, _, hcase⟩ := run_spec hs hP hn hmax hC' hc
  have hb : mleBuilder (prinzEst P n) C prior true
      = match Mle.run P (matOfFn n (applyPrior C prior)) with
        | .error e => .error e
        | .ok r => .ok { counts := applyPrior C prior, probs := matFn r.T, eq := some (vecFn r.pi) } := by
    unfold mleBuilder prinzEst
    dsimp only
    cases Mle.run P (matOfFn n (applyPrior C prior)) <;> rfl
  rcases hcase with ⟨_, hw, herr⟩ | ⟨hne, r, hr, hv⟩
  · rw [hb, herr]
    refine ⟨?_, ?_, ?_⟩
    · simp
    · intro hf; rw [hw] at hf; cases hf
    · intro o ho; cases ho
  · rw [hb, hr]
    refine ⟨?_, fun _ => ⟨_, rfl⟩, ?_⟩
    · simp
    intro o ho
    injection ho with ho
    subst ho
    have hrs := fun i => hpos.rs_pos hD hc hinv i
    obtain ⟨a, b, c, d, e, f⟩ := valid_props hn hinv hrs hv
    refine ⟨rfl, ?_, ?_, vecFn r.pi, rfl, ?_, ?_, ?_, ?_⟩
    · intro i hi
      rw [sumTo_eq_fin_sum, ← a ⟨i, hi⟩]
      exact Finset.sum_congr rfl (fun j _ => matFn_lt r.T hi j.isLt)
    · intro i j hi hj
      show 0 ≤ matFn r.T i j
      rw [matFn_lt r.T hi hj]; exact b _ _
    · rw [sumTo_eq_fin_sum, ← c]
      exact Finset.sum_congr rfl (fun i _ => vecFn_lt r.pi i.isLt)
    · intro i hi
      rw [vecFn_lt r.pi hi]; exact d _
    · intro i j hi hj
      show vecFn r.pi i * matFn r.T i j = vecFn r.pi j * matFn r.T j i
      rw [vecFn_lt r.pi hi, vecFn_lt r.pi hj, matFn_lt r.T hi hj, matFn_lt r.T hj hi]
      exact e _ _
    · intro j hj
      rw [sumTo_eq_fin_sum, vecFn_lt r.pi hj, ← f ⟨j, hj⟩]
      apply Finset.sum_congr rfl
      intro i _
      show vecFn r.pi i.val * matFn r.T i.val j = _
      rw [vecFn_lt r.pi i.isLt, matFn_lt r.T i.isLt hj]

-- non-vacuity: the all-ones 2×2 counts satisfy the hypotheses (over `Rat`)
example : (∀ i j, i < 2 → j < 2 → (0 : Rat) ≤ applyPrior (fun _ _ => (1 : Rat)) .none i j) ∧
    Conn (matOfFn 2 (applyPrior (fun _ _ => (1 : Rat)) .none)) := by
  refine ⟨fun i j _ _ => by simp [applyPrior], ⟨fun i => ?_, fun i => ?_⟩⟩
  · fin_cases i
    · exact ⟨1, by decide, by simp [mget_matOfFn, applyPrior]⟩
    · exact ⟨0, by decide, by simp [mget_matOfFn, applyPrior]⟩
  · fin_cases i
    · exact ⟨1, by decide, by simp [mget_matOfFn, applyPrior]⟩
    · exact ⟨0, by decide, by simp [mget_matOfFn, applyPrior]⟩

end mle_e2e

/-! ### populations of the `normalize` builder -/

/-- **Full clause (NOT proved, never asserted)**: for an eigen-solver `eig` (LAPACK's `eig`
followed by the selection of the eigenvalue with the largest real part — a *parameter* of the
model, not modelled), on every count matrix with positive row sums whose row-normalised matrix
has a unique stationary distribution, the populations `normalize` returns are a probability
vector that is stationary under the returned matrix.  Proving it needs a specification of the
solver (`C04_solver_contract`); given that contract it follows from
`normalize_stationary_partial`. -/
def C04_normalize_stationary_full (eig : Nat → Mat K → Nat → K) : Prop :=
  ∀ (n : Nat) (C : Mat K) (prior : Prior K), 0 < n →
    (∀ i j, i < n → j < n → 0 ≤ applyPrior C prior i j) →
    (∀ i, i < n → 0 < rowSum n (applyPrior C prior) i) →
    ∃ π, (normalizeBuilder n C prior
            (some (eig n (rowNormalize n (applyPrior C prior))))).eq = some π ∧
      sumTo n π = 1 ∧ (∀ i, i < n → 0 ≤ π i) ∧
      ∀ j, j < n → sumTo n (fun i => π i * rowNormalize n (applyPrior C prior) i j) = π j

/-- what LAPACK is trusted for: the vector it returns for a row-stochastic matrix is a left
eigenvector for eigenvalue 1 with components of one sign and non-zero sum -/
def C04_solver_contract (eig : Nat → Mat K → Nat → K) : Prop :=
  ∀ (n : Nat) (T : Mat K), (∀ i, i < n → sumTo n (fun j => T i j) = 1) →
    (∀ j, j < n → sumTo n (fun i => eig n T i * T i j) = eig n T j) ∧ sumTo n (eig n T) ≠ 0 ∧
    ((∀ i, i < n → 0 ≤ eig n T i) ∨ (∀ i, i < n → eig n T i ≤ 0))

/-- **Contract (`_partial`) form.**  If the eigen-solver's vector `v` is a left eigenvector of the returned matrix for
eigenvalue 1 with non-zero component sum (the solver's contract), then what the code returns
after `vecs[:,0] /= vecs[:,0].sum()` is stationary and sums to one; if moreover the components
of `v` all have the same sign (Perron vector up to the solver's arbitrary scaling), it is
non-negative. -/
theorem normalize_stationary_partial (n : Nat) (C : Mat K) (prior : Prior K) (v : Nat → K)
    (heig : ∀ j, j < n →
      sumTo n (fun i => v i * (normalizeBuilder n C prior (some v)).probs i j) = v j)
    (hsum : sumTo n v ≠ 0)
    (π : Nat → K) (hπ : (normalizeBuilder n C prior (some v)).eq = some π) :
    (∀ j, j < n → sumTo n (fun i => π i * (normalizeBuilder n C prior (some v)).probs i j) = π j) ∧
    sumTo n π = 1 ∧
    (((∀ i, i < n → 0 ≤ v i) ∨ (∀ i, i < n → v i ≤ 0)) → ∀ i, i < n → 0 ≤ π i) := by
  have hπ' : π = normalizeEig n v := by
    simpa [normalizeBuilder] using hπ.symm
  subst hπ'
  refine ⟨?_, ?_, ?_⟩
  · intro j hj
    show sumTo n (fun i => v i / sumTo n v * _) = v j / sumTo n v
    rw [← heig j hj]
    generalize sumTo n v = t
    rw [sumTo_eq_sum, sumTo_eq_sum, Finset.sum_div]
    apply Finset.sum_congr rfl
    intro i _
    ring
  · show sumTo n (fun i => v i / sumTo n v) = 1
    rw [sumTo_eq_sum, ← Finset.sum_div, ← sumTo_eq_sum]
    exact div_self hsum
  · intro hsign i hi
    show 0 ≤ v i / sumTo n v
    rcases hsign with h | h
    · apply div_nonneg (h i hi)
      rw [sumTo_eq_sum]
      exact Finset.sum_nonneg (fun k hk => h k (Finset.mem_range.mp hk))
    · apply div_nonneg_of_nonpos (h i hi)
      rw [sumTo_eq_sum]
      exact Finset.sum_nonpos (fun k hk => h k (Finset.mem_range.mp hk))

/-- given the solver contract, the full clause follows (so the only thing between the proved
part and the full clause is LAPACK) -/
theorem normalize_stationary_of_solver_contract (eig : Nat → Mat K → Nat → K)
    (hsolver : C04_solver_contract eig) : C04_normalize_stationary_full eig := by
  intro n C prior _ _ hpos
  have hrows : ∀ i, i < n → sumTo n (fun j => rowNormalize n (applyPrior C prior) i j) = 1 :=
    fun i hi => rowNormalize_row_sum (hpos i hi)
  obtain ⟨h1, h2, h3⟩ := hsolver n _ hrows
  obtain ⟨a, b, c⟩ := normalize_stationary_partial n C prior
    (eig n (rowNormalize n (applyPrior C prior))) h1 h2 _ rfl
  exact ⟨_, rfl, b, c h3, a⟩

-- non-vacuity: T = rownorm [[1,1],[2,0]] = [[1/2,1/2],[1,0]] has the left eigenvector (-4,-2)
example : ∀ j, j < 2 → sumTo 2 (fun i => (if i = 0 then (-4 : Rat) else -2) *
      (normalizeBuilder 2 (fun i j => if i = 0 then (1 : Rat) else if j = 0 then 2 else 0) .none
        (some fun i => if i = 0 then (-4 : Rat) else -2)).probs i j)
      = (if j = 0 then (-4 : Rat) else -2) := by
  intro j hj
  interval_cases j <;>
    norm_num [sumTo, normalizeBuilder, rowNormalize, invWeight, rowSum, applyPrior]

end field

/-! ### containers -/

/-- the site facts of the source the check is running against -/
def theSite : Site :=
  { priorMatrixToArray := Ens.Generated.BuildersSite.priorMatrixToArray
    transposeHalfIntLiteral := Ens.Generated.BuildersSite.transposeHalfIntLiteral
    transposeTotalSum := Ens.Generated.BuildersSite.transposeTotalSum }

/-- after `_apply_prior_counts` the container is unchanged, or a sparse input with a prior
became dense -/
theorem prior_cases (toArr : Bool) (c : Container) (p : PriorKind) (hc : c.inScope = true) :
    priorContainer toArr c p = c ∨
    (c.isSparse = true ∧ p ≠ .none ∧
      (priorContainer toArr c p = .ndarray ∨ priorContainer toArr c p = .npmatrix)) := by
  cases p <;> cases c <;> cases toArr <;>
    first
    | (rename_i f; cases f <;> simp [priorContainer, Container.isSparse])
    | simp_all [priorContainer, Container.isSparse, Container.inScope]

/-- the recast in `transpose` always restores the container of `C + prior` -/
theorem transposePair_eq (c' : Container) : transposePair c' = (c', c') := by
  cases c' with
  | ndarray => simp [transposePair, symContainer, rowNormContainer, Container.isSparse]
  | npmatrix => simp [transposePair, symContainer, rowNormContainer, Container.isSparse]
  | spmatrix f => cases f <;> simp [transposePair, symContainer, rowNormContainer, Container.isSparse]

/-- Output container = input container; the only exception is a sparse input with prior
counts, whose outputs may be dense (ndarray or numpy.matrix).  Holds for every state of the
source-site facts and every call. -/
theorem container_out (site : Site) (ci : CallInfo) (b : BuilderId) (c : Container)
    (p : PriorKind) (cC cT : Container)
    (hc : c.inScope = true) (h : builderContainers site ci b c p = .ok (cC, cT)) :
    (cC = c ∧ cT = c) ∨
    (c.isSparse = true ∧ p ≠ .none ∧ cC.isDense = true ∧ cT.isDense = true) := by
  unfold builderContainers at h
  rcases prior_cases site.priorMatrixToArray c p hc with hsame | ⟨hsp, hp, hd⟩
  · left
    rw [hsame] at h
    cases b with
    | normalize =>
      simp only [Except.ok.injEq, Prod.mk.injEq] at h
      obtain ⟨rfl, rfl⟩ := h
      cases c <;> simp_all [rowNormContainer, Container.isSparse, Container.inScope]
    | transpose =>
      simp only [transposePair_eq] at h
      split at h
      · cases h
      · simp only [Except.ok.injEq, Prod.mk.injEq] at h
        exact ⟨h.1.symm, h.2.symm⟩
    | mle =>
      cases c with
      | ndarray => simp only [Except.ok.injEq, Prod.mk.injEq] at h; exact ⟨h.1.symm, h.2.symm⟩
      | npmatrix => simp [Container.inScope] at hc
      | spmatrix f => simp only [Except.ok.injEq, Prod.mk.injEq] at h; exact ⟨h.1.symm, h.2.symm⟩
  · right
    refine ⟨hsp, hp, ?_⟩
    rcases hd with hd | hd <;> rw [hd] at h <;> cases b
    all_goals first
      | (simp only [transposePair_eq] at h
         split at h
         · cases h
         · simp only [Except.ok.injEq, Prod.mk.injEq] at h
           obtain ⟨rfl, rfl⟩ := h
           simp [Container.isDense, Container.isSparse])
      | (simp only [Except.ok.injEq, Prod.mk.injEq] at h
         obtain ⟨rfl, rfl⟩ := h
         simp [rowNormContainer, Container.isDense, Container.isSparse])

/-- full statement: every builder returns for every in-scope container, prior kind and call
(with the source-site facts read by the translator) -/
def C04_container_total_full : Prop :=
  ∀ (ci : CallInfo) (b : BuilderId) (c : Container) (p : PriorKind), c.inScope = true →
    ∃ r, builderContainers theSite ci b c p = .ok r

/-- for an arbitrary source: every call returns except
* `mle` on a sparse matrix with a dense (ndarray) prior and ≥ 2 states when
  `_apply_prior_counts` leaves the `numpy.matrix` that scipy produces;
* `transpose` with populations on a `bsr_matrix` stored as several blocks larger than 1×k when
  the source calls `C_sym.sum()` without an axis. -/
theorem container_total_partial (site : Site) (ci : CallInfo) (b : BuilderId) (c : Container)
    (p : PriorKind) (hc : c.inScope = true)
    (hex1 : ¬ (b = .mle ∧ c.isSparse = true ∧ p = .dense ∧ site.priorMatrixToArray = false
              ∧ ci.multi = true))
    (hex2 : ¬ (b = .transpose ∧ c = .spmatrix .bsr ∧ p = .none ∧ ci.calcEq = true
              ∧ ci.bsrBlocky = true ∧ site.transposeTotalSum = true)) :
    ∃ r, builderContainers site ci b c p = .ok r := by
  unfold builderContainers
  cases b with
  | normalize => exact ⟨_, rfl⟩
  | transpose =>
    simp only [transposePair_eq]
    split
    · rename_i hcond
      exfalso
      simp only [Bool.and_eq_true, beq_iff_eq] at hcond
      obtain ⟨⟨⟨h1, h2⟩, h3⟩, h4⟩ := hcond
      -- the container after the prior is bsr only when the input is bsr and there is no prior
      have : c = .spmatrix .bsr ∧ p = .none := by
        cases p <;> cases c <;>
          first
          | (rename_i f; cases f <;> cases hta : site.priorMatrixToArray <;>
              simp_all [priorContainer])
          | simp_all [priorContainer, Container.inScope]
      exact hex2 ⟨rfl, this.1, this.2, h1, h3, h2⟩
    · exact ⟨_, rfl⟩
  | mle =>
    cases hc' : priorContainer site.priorMatrixToArray c p with
    | ndarray => exact ⟨_, rfl⟩
    | spmatrix f => exact ⟨_, rfl⟩
    | npmatrix =>
      simp only
      cases hm : ci.multi with
      | false => exact ⟨(.ndarray, .ndarray), by simp⟩
      | true =>
        exfalso
        apply hex1
        cases p <;> cases c <;>
          first
          | (rename_i f; cases f <;> cases hta : site.priorMatrixToArray <;>
              simp_all [priorContainer, Container.isSparse])
          | simp_all [priorContainer, Container.inScope]

/-- with both call sites in their repaired form every combination returns -/
theorem container_total_of_fix (site : Site) (h1 : site.priorMatrixToArray = true)
    (h2 : site.transposeTotalSum = false) (ci : CallInfo) (b : BuilderId) (c : Container)
    (p : PriorKind) (hc : c.inScope = true) : ∃ r, builderContainers site ci b c p = .ok r :=
  container_total_partial site ci b c p hc (by simp [h1]) (by simp [h2])

/-- the source the translator read has the repaired call sites: `_apply_prior_counts`
converts `numpy.matrix` to `ndarray`, `transpose` divides by a float and totals the row sums.
(If the source regresses, the regenerated `Model.Generated.BuildersSite` makes this fail.) -/
theorem site_is_fixed :
    theSite = { priorMatrixToArray := true, transposeHalfIntLiteral := false,
                transposeTotalSum := false } := by
  rfl

/-- **Full statement, for the code as it is**: every builder returns for every in-scope
container, prior kind and call. -/
theorem container_total : C04_container_total_full := by
  intro ci b c p hc
  exact container_total_of_fix theSite (by rw [site_is_fixed]) (by rw [site_is_fixed]) ci b c p hc

/-- about the *old* source (flags `priorMatrixToArray = false`, `transposeTotalSum = true`,
before the `fix:` commits) only: there the statement failed, with two independent witnesses -/
theorem container_total_old_source_counterexample :
    (¬ ∀ (ci : CallInfo) (b : BuilderId) (c : Container) (p : PriorKind), c.inScope = true →
        ∃ r, builderContainers ⟨false, false, false⟩ ci b c p = .ok r) ∧
    (¬ ∀ (ci : CallInfo) (b : BuilderId) (c : Container) (p : PriorKind), c.inScope = true →
        ∃ r, builderContainers ⟨true, false, true⟩ ci b c p = .ok r) := by
  constructor
  · intro h
    obtain ⟨r, hr⟩ := h ⟨true, true, false⟩ .mle (.spmatrix .csr) .dense rfl
    simp [builderContainers, priorContainer] at hr
  · intro h
    obtain ⟨r, hr⟩ := h ⟨true, true, true⟩ .transpose (.spmatrix .bsr) .none rfl
    simp [builderContainers, priorContainer, transposePair_eq] at hr

/-! ### the returned counts of `transpose`: `C_sym / 2` -/

/-- full statement: the returned counts are exactly half the symmetrised counts, in every
container and for every dtype (with the divisor literal of the source as read by the
translator) -/
def C04_transpose_counts_full : Prop :=
  ∀ (c : Container) (intDtype : Bool) (x : Rat), c.inScope = true →
    halfEntry (halfTruncates Ens.Generated.BuildersSite.transposeHalfIntLiteral c intDtype) x = x / 2

/-- for an arbitrary source: exact halves except for `lil_matrix`/`dok_matrix` of integer
dtype when the divisor is the integer literal `2` (scipy then keeps the integer dtype and
truncates) -/
theorem transpose_counts_partial (intLiteral : Bool) (c : Container) (intDtype : Bool) (x : Rat)
    (hex : ¬ (intLiteral = true ∧ intDtype = true ∧ (c = .spmatrix .lil ∨ c = .spmatrix .dok))) :
    halfEntry (halfTruncates intLiteral c intDtype) x = x / 2 := by
  have : halfTruncates intLiteral c intDtype = false := by
    unfold halfTruncates
    cases intLiteral <;> cases intDtype <;> simp_all
  simp [halfEntry, this]

/-- with a float divisor (`C_sym / 2.0`) the counts are exact in every container -/
theorem transpose_counts_of_fix (c : Container) (intDtype : Bool) (x : Rat) :
    halfEntry (halfTruncates false c intDtype) x = x / 2 :=
  transpose_counts_partial false c intDtype x (by simp)

/-- **Full statement, for the code as it is** (the source divides by `2.0`) -/
theorem transpose_counts : C04_transpose_counts_full := by
  intro c intDtype x _
  have h : Ens.Generated.BuildersSite.transposeHalfIntLiteral = false := by decide
  rw [h]
  exact transpose_counts_of_fix c intDtype x

/-- about the *old* source (integer literal divisor) only: lil, 23 ↦ 11 ≠ 23/2 -/
theorem transpose_counts_old_source_counterexample :
    ¬ ∀ (c : Container) (intDtype : Bool) (x : Rat), c.inScope = true →
        halfEntry (halfTruncates true c intDtype) x = x / 2 := by
  intro h
  have h1 := h (.spmatrix .lil) true 23 rfl
  have hf : ((23 : Rat) / 2).floor = 11 := by
    show ⌊((23 : Rat) / 2)⌋ = 11
    norm_num [Int.floor_eq_iff]
  simp only [halfTruncates, halfEntry, Bool.and_self, beq_self_eq_true, Bool.true_or,
    if_true, hf] at h1
  norm_num at h1

end C04
