import Proofs.C16Fit
import Proofs.C16Spec
import Proofs.C16Uniq
import Proofs.C16Pairs
/-!
C16 — MSM estimator equals its function pipeline, round-trips, has a sound spectrum.

Parameters (other properties / trusted numerics): the trimming stage, the builder, LAPACK's
`eig`, the decimal and pickle serialisers, `log`.  Everything the estimator itself does —
which constructor arguments are stored and handed to which stage, the identity mapping, the
csv form of a mapping, what `load` rebuilds, the ordering/normalisation after `eig`, the
timescale formula, the propagation loop — is proved here for all inputs.
-/
namespace C16
open Ens Ens.Counts Ens.Msm

/-! ## estimator = pipeline -/

/-- For the configuration *the caller passed* (lag time, sliding-window flag, state count,
trimming choice, builder), constructing the estimator and fitting it is the hand-written
composition counting → (trimming) → builder, including every error outcome.

This theorem is weak by nature: `MSM.fit` and `pipeline` are transcriptions of the same few lines
written side by side, so the proof is a case split closed by `rfl`.  What it pins down is the model
(`mkMSM` stores all five arguments, `fit` hands each stored field to the stage that needs it); the
risk the property is about — the *code* dropping a constructor argument — is carried by the
differential run of the real estimator against the real function pipeline and against this model
(harness section `fit`, `sweep`), and by the three-literal example below. -/
theorem fit_eq_pipeline {C T P : Type} (builders : String → Option (Builder C T P))
    (lag : Int) (f : Builder C T P) (trim sliding : Bool) (maxN : Option Nat)
    (trimF : Trimmer) (assigns : List (List Int)) :
    (mkMSM builders lag (.callable f) trim sliding maxN >>= fun m => m.fit trimF assigns)
      = pipeline lag sliding maxN trim trimF f assigns :=
  fit_pipeline_callable builders lag f trim sliding maxN trimF assigns

/-- the same when the builder is given by name; an unknown name is an `AttributeError` -/
theorem fit_eq_pipeline_by_name {C T P : Type} (builders : String → Option (Builder C T P))
    (lag : Int) (s : String) (trim sliding : Bool) (maxN : Option Nat)
    (trimF : Trimmer) (assigns : List (List Int)) :
    (∀ f, builders s = some f →
      (mkMSM builders lag (.name s) trim sliding maxN >>= fun m => m.fit trimF assigns)
        = pipeline lag sliding maxN trim trimF f assigns) ∧
    (builders s = none → mkMSM builders lag (.name s) trim sliding maxN = .error .attributeError) :=
  ⟨fun f hf => fit_pipeline_name builders lag s f hf trim sliding maxN trimF assigns,
   fun h => mk_name_missing builders lag s h trim sliding maxN⟩

/-- `sliding_window = false`, `max_n_states = 4` and `trim = true` are all forwarded: flipping any one
of the three literals changes the outcome (sliding: other counts; no state count: state 3 does not
exist, the trimming stage refuses; no trimming: identity mapping on 4 states).  The first two lines
are DESIGN's witness for F1. -/
def runExample (trim sliding : Bool) (maxN : Option Nat) :
    Except Ens.Msm.Err (List (Int × Int) × List (List Rat)) := do
  let m ← mkMSM (fun _ => none) 2 (.callable countsOnly) trim sliding maxN
  let r ← m.fit (trimTo [0, 1, 3]) [[0,1,0,1,1,0,0,1,0,1,2]]
  pure (r.mapping.toOriginal, r.tcounts)

example :
    runExample true false (some 4) = .ok ([(0,0),(1,1),(2,3)], [[2,1,0],[1,0,0],[0,0,0]]) ∧
    runExample true true (some 4) = .ok ([(0,0),(1,1),(2,3)], [[2,2,0],[2,2,0],[0,0,0]]) ∧
    runExample true false none = .error .stage ∧
    runExample false false (some 4) = .ok ([(0,0),(1,1),(2,2),(3,3)],
                                           [[2,1,1,0],[1,0,0,0],[0,0,0,0],[0,0,0,0]]) :=
  ⟨by decide +kernel, by decide +kernel, by decide +kernel, by decide +kernel⟩

/-- the lag and an inferred state count reach the counting stage as well -/
example :
    (do let m ← mkMSM (fun _ => none) 2 (.callable countsOnly) false true none
        let r ← m.fit (trimTo []) [[0,1,0,1,1,0,0,1,0,1]]
        pure r.tcounts) = .ok [[2,2],[2,2]] ∧
    (do let m ← mkMSM (fun _ => none) 1 (.callable countsOnly) false true (some 3)
        let r ← m.fit (trimTo []) [[0,1,0,1,1,0,0,1,0,1]]
        pure r.tcounts) = .ok [[1,4,0],[3,1,0],[0,0,0]] := by decide

/-- trimming branch, by-name builder, non-trivial mapping -/
example :
    (do let m ← mkMSM (fun s => if s = "transpose" then some transposeQ else none) 1
                  (.name "transpose") true true (some 4)
        let r ← m.fit (trimTo [0, 2]) [[0,2,0,2,2,1]]
        pure (r.mapping.toOriginal, r.tprobs)) = .ok ([(0,0),(1,2)], [[0,1],[3/5,2/5]]) := by decide +kernel

/-- Without trimming the mapping is the identity on all `n` states of the count matrix
(`n` = the explicit state count, or one more than the largest state seen). -/
theorem mapping_identity_when_untrimmed {C T P : Type} (m : MSM (Builder C T P))
    (hm : m.trim = false) (trimF : Trimmer) (assigns : List (List Int)) (r : Fit C T P)
    (h : m.fit trimF assigns = .ok r) :
    ∃ c, liftC (assignsToCounts assigns m.lagTime m.maxNStates m.slidingWindow) = .ok c ∧
      r.mapping = TrimMapping.identity c.n ∧
      r.mapping.toOriginal.length = c.n ∧
      ∀ i : Nat, i < c.n → Dict.lookup r.mapping.toOriginal i = some (i : Int) := by
  obtain ⟨c, hc, hr⟩ := fit_untrimmed_mapping m hm trimF assigns r h
  refine ⟨c, hc, hr, ?_, ?_⟩
  · rw [hr]; exact identity_length c.n
  · intro i hi; rw [hr]; exact identity_lookup c.n i hi

example : (TrimMapping.identity 3).toOriginal = [(0,0),(1,1),(2,2)] := by decide

/-- The mappings `fit` produces satisfy the hypothesis of the round-trip theorems: the identity
mapping of the untrimmed branch, and `zip(keep_states, range(k))` for distinct kept states (what
`trim_disconnected` builds; `trimTo keep` is that form). -/
theorem fit_mappings_well_formed :
    (∀ n : Nat, (TrimMapping.identity n).WellFormed) ∧
    (∀ keep : List Nat, keep.Nodup →
      (TrimMapping.ofTransformations ((keep.zip (List.range keep.length)).map
        fun p => ((p.1 : Int), (p.2 : Int)))).WellFormed) :=
  ⟨identity_wf, keep_mapping_wf⟩

/-! ## TrimMapping csv round trip -/

instance : DecidablePred TrimMapping.WellFormed := fun m => by
  unfold TrimMapping.WellFormed; infer_instance

/-- Writing a mapping (a dict with distinct post-trim ids and distinct original ids) and
reading it back gives a mapping that `TrimMapping.__eq__` calls equal and that has exactly the
same (post-trim id, original id) items; the integer printer/parser is a parameter. -/
theorem trimmapping_roundtrip (print : Int → String) (parse : String → Option Int)
    (hpp : ∀ i, parse (print i) = some i) (m : TrimMapping) (wf : m.WellFormed) :
    ∃ m', TrimMapping.read parse (m.write print) = .ok m' ∧ m'.beq m = true ∧
      m'.toOriginal.Perm m.toOriginal :=
  roundtrip_beq print parse hpp m wf

/-- for mappings listed by ascending original id (what `fit` produces) the round trip is literal -/
theorem trimmapping_roundtrip_literal (print : Int → String) (parse : String → Option Int)
    (hpp : ∀ i, parse (print i) = some i) (m : TrimMapping) (wf : m.WellFormed)
    (hsorted : (m.toOriginal.map (·.2)).Pairwise (· ≤ ·)) :
    TrimMapping.read parse (m.write print) = .ok m :=
  roundtrip_sorted print parse hpp m wf hsorted

example : (TrimMapping.ofTransformations [(5,0),(2,1),(7,2)]).WellFormed := by decide
example : (TrimMapping.ofTransformations [(5,0),(2,1),(7,2)]).write (fun i => toString i) =
    [["original","mapped"], ["2","1"], ["5","0"], ["7","2"]] := by decide
/-- the hypotheses are needed: a non-injective "mapping" loses an item in `to_mapped` -/
theorem trimmapping_roundtrip_counterexample :
    ¬ (∀ m : TrimMapping, ∃ m', TrimMapping.read (fun s => if s = "0" then some 0 else if s = "1" then some 1
          else if s = "4" then some 4 else none)
        (m.write (fun i => if i = 0 then "0" else if i = 1 then "1" else "4")) = .ok m' ∧ m'.beq m = true) := by
  intro h
  obtain ⟨m', h1, h2⟩ := h ⟨[(0,4),(1,4)]⟩
  revert h1 h2
  generalize hr : TrimMapping.read _ _ = r
  have : r = .ok ⟨[(1,4)]⟩ := by rw [← hr]; decide
  subst this
  intro h1 h2
  cases h1
  revert h2
  decide

/-! ## save / load -/

/-- binary64 numbers and `p`-significant-digit decimals, as sets of rationals -/
def IsBinary64 (x : ℚ) : Prop := ∃ (m e : Int), |m| < 2 ^ 53 ∧ -1074 ≤ e ∧ e ≤ 971 ∧ x = m * (2 : ℚ) ^ e
def IsDecimal (p : Nat) (d : ℚ) : Prop := ∃ (m e : Int), |m| < 10 ^ p ∧ d = m * (10 : ℚ) ^ e
def IsNearest (S : ℚ → Prop) (q y : ℚ) : Prop := S y ∧ ∀ z, S z → |q - y| ≤ |q - z|

/-- printing a binary64 number to the nearest `p`-digit decimal and reading back the nearest
binary64 number returns it -/
def DecimalRoundTrip (p : Nat) : Prop :=
  ∀ x, IsBinary64 x → ∀ d, IsNearest (IsDecimal p) x d → ∀ y, IsNearest IsBinary64 d y → y = x

/-- Full statement, NOT asserted: the serialisers `MSM.save` really uses are exact.  It needs the
decimal round-trip facts for `mmwrite(precision=20)` (20 significant digits, `tprobs_`, and
`tcounts_` when they are halves) and `np.savetxt` (`'%.18e'`, 19 significant digits, `eq_probs_`)
— the classical "17 digits suffice for binary64" theorem (its arithmetic core is
`2^53 < 10^(p-1)`, checked below) — plus correct rounding of the C library's `printf`/`strtod`,
and pickle/csv faithfulness for the config and the integer ids.  None of this is proved here. -/
def C16_load_save_full : Prop := DecimalRoundTrip 20 ∧ DecimalRoundTrip 19

example : (2 : Nat) ^ 53 < 10 ^ (17 - 1) ∧ (2 : Nat) ^ 53 < 10 ^ (19 - 1) ∧ (2 : Nat) ^ 53 < 10 ^ (20 - 1) := by
  decide

/-- Partial (parametric) form of the save/load round trip: IF the four serialisers return what was
written (`Codec.Exact` — this is where the property's numerical risk lives, see
`C16_load_save_full`; the correspondence check observes it bit-exactly on every case) and the
integer printer/parser do, then `load (save m)` succeeds and is an equal model in the library's
sense: same `config` (lag time, sliding window, trim, method), populations, counts, probabilities,
and an equal mapping.  `max_n_states` is not part of `config`; the loaded estimator has the
default.  What the theorem itself establishes is the bookkeeping: which fields are written, that
`load` rebuilds the estimator from exactly the saved config, and the csv round trip of the mapping. -/
theorem load_save_config_partial {F C T P σK σC σT σP : Type} (cd : Codecs F C T P σK σC σT σP)
    (hK : cd.config.Exact) (hC : cd.tcounts.Exact) (hT : cd.tprobs.Exact) (hP : cd.eqProbs.Exact)
    (hpp : ∀ i, cd.parse (cd.print i) = some i)
    (m : Fitted F C T P) (wf : m.fit.mapping.WellFormed)
    (s : Saved σK σC σT σP) (hs : save cd m = .ok s) :
    ∃ m', load cd s = .ok m' ∧ m'.Equal m ∧ m'.msm.maxNStates = none ∧
      m'.fit.mapping.toOriginal.Perm m.fit.mapping.toOriginal :=
  load_save cd hK hC hT hP hpp m wf s hs

/-- identity serialisers are exact (the hypotheses are satisfiable) -/
example : (⟨fun a => pure a, fun a => pure a⟩ : Codec Nat Nat).Exact := by
  intro a s h; cases h; rfl

/-! ## spectrum post-processing -/

/-- The returned eigenvalues are the real parts of LAPACK's values in descending order,
cut to the first `n_eigs`. -/
theorem eig_post_sorted (k : Nat) (vals : List Cx) (cols : List (List Cx))
    (v : List Rat) (c : List (List Rat)) (h : eigPost k vals cols = .ok (v, c)) :
    v.Pairwise (· ≥ ·) ∧
    ∃ full : List Rat, full.Perm (vals.map (·.re)) ∧ full.Pairwise (· ≥ ·) ∧ v = full.take k := by
  have hv := eigPost_vals k vals cols v c h
  refine ⟨?_, sortedReals vals, sortedReals_perm vals, sortedReals_desc vals, hv⟩
  rw [hv]
  exact (sortedReals_desc vals).sublist (List.take_sublist k _)

/-- The first returned vector sums to one (whenever `eig` post-processing returns at all, i.e.
the leading column does not sum to zero). -/
theorem eig_post_first_sums_to_one (k : Nat) (hk : 1 ≤ k) (vals : List Cx) (cols : List (List Cx))
    (v : List Rat) (c : List (List Rat)) (h : eigPost k vals cols = .ok (v, c)) :
    ∃ w rest, c = w :: rest ∧ w.sum = 1 := by
  obtain ⟨c0, rest, _, hs, hc⟩ := eigPost_cols k vals cols v c h
  obtain ⟨k', rfl⟩ : ∃ k', k = k' + 1 := ⟨k - 1, by omega⟩
  refine ⟨(c0.map fun z => z.div (cxSum c0)).map (·.re), (rest.take k').map (fun col => col.map (·.re)), ?_, ?_⟩
  · rw [hc]; simp
  · rw [List.map_map]
    exact first_sums_to_one c0 hs

example : eigPost 2 [⟨1/2,0⟩, ⟨1,0⟩] [[⟨1,0⟩,⟨-1,0⟩],[⟨1,0⟩,⟨3,0⟩]]
    = .ok ([1, 1/2], [[1/4,3/4],[1,-1]]) := by decide +kernel
/-- complex pair and a negative eigenvalue: order by real part, real parts returned -/
example : eigPost 4 [⟨-1/2,0⟩, ⟨1/4,1/3⟩, ⟨1/4,-1/3⟩, ⟨1,0⟩]
      [[⟨1,0⟩],[⟨0,1⟩],[⟨0,-1⟩],[⟨2,0⟩]]
    = .ok ([1, 1/4, 1/4, -1/2], [[1],[0],[0],[1]]) := by decide +kernel
/-- error branches: a leading column summing to zero (numpy: nan), fewer than … columns -/
example : eigPost 2 [⟨1,0⟩] [[⟨1,0⟩,⟨-1,0⟩]] = .error .nan := by decide +kernel
example : eigPost 2 [] [] = .error .indexError := by decide
example : resolveNEigs 5 (some 1) = .error .valueError ∧ resolveNEigs 5 none = .ok 5 := by decide

/-- Dividing a left eigenvector by its sum keeps it a left eigenvector for the same eigenvalue
and makes it sum to one; for the real column `v` LAPACK returns for a real eigenvalue this is
exactly what the post-processing computes (`z.div (cxSum c0)`, then real parts).  With
eigenvalue 1 the result is therefore a stationary distribution of `T`. -/
theorem eig_post_still_left_eigvec {n : Nat} (T : Matrix (Fin n) (Fin n) ℚ) (v : Fin n → ℚ) (lam : ℚ)
    (h : Matrix.vecMul v T = lam • v) :
    let c0 : List Cx := List.ofFn fun i => (⟨v i, 0⟩ : Cx)
    let w : Fin n → ℚ := fun i => v i / ∑ i, v i
    (c0.map fun z => (z.div (cxSum c0)).re) = List.ofFn w ∧
      Matrix.vecMul w T = lam • w ∧ ((∑ i, v i) ≠ 0 → ∑ i, w i = 1) := by
  intro c0 w
  refine ⟨?_, vecMul_div_scale T v lam _ h, fun hs => sum_div_scale v hs⟩
  have hre : ∀ z ∈ c0, z.im = 0 := by
    intro z hz
    obtain ⟨i, hi⟩ := List.mem_ofFn.mp hz
    rw [← hi]
  rw [first_real c0 hre]
  have hsum : (c0.map (·.re)).sum = ∑ i, v i := by
    simp only [c0, List.map_ofFn, Function.comp_def, List.sum_ofFn]
  rw [hsum]
  simp only [c0, w, List.map_ofFn, Function.comp_def]

/-- the complex case: the model's `Cx.div` is complex division, and scaling a complex left
eigenvector by any complex number keeps it one -/
theorem eig_post_still_left_eigvec_complex {n : Nat} (T : Matrix (Fin n) (Fin n) ℂ)
    (c0 : Fin n → Cx) (lam : ℂ) (s : Cx)
    (h : Matrix.vecMul (fun i => toC (c0 i)) T = lam • fun i => toC (c0 i)) :
    Matrix.vecMul (fun i => toC ((c0 i).div s)) T = lam • fun i => toC ((c0 i).div s) := by
  simp only [toC_div]
  exact vecMul_div_scale T (fun i => toC (c0 i)) lam (toC s) h

/-- a 2-state chain: `(1,2)` is a left eigenvector of `[[1/2,1/2],[1/4,3/4]]` for eigenvalue 1 -/
example : Matrix.vecMul (![1, 2] : Fin 2 → ℚ) !![1/2, 1/2; 1/4, 3/4] = (1 : ℚ) • ![1, 2] := by
  funext i; fin_cases i <;> simp [Matrix.vecMul, dotProduct, Fin.sum_univ_two] <;> norm_num

/-! ## eigenvalues of a row-stochastic matrix -/

/-- Every real eigenvalue of a non-negative matrix with unit row sums that has a non-zero
eigenvector (left: 1-norm argument; right: max-norm argument) has `|λ| ≤ 1`, and `1` is an
eigenvalue with the all-ones right eigenvector. -/
theorem stochastic_eigenvalue_bound {n : Nat} (T : Matrix (Fin n) (Fin n) ℝ)
    (hnn : ∀ i j, 0 ≤ T i j) (hrow : ∀ i, ∑ j, T i j = 1) :
    (∀ (v : Fin n → ℝ) (lam : ℝ), v ≠ 0 → Matrix.vecMul v T = lam • v → |lam| ≤ 1) ∧
    (∀ (v : Fin n → ℝ) (lam : ℝ), v ≠ 0 → Matrix.mulVec T v = lam • v → |lam| ≤ 1) ∧
    Matrix.mulVec T (fun _ => (1 : ℝ)) = (1 : ℝ) • (fun _ => (1 : ℝ)) := by
  have hr := stochastic_row_norms T hnn hrow
  refine ⟨?_, ?_, ones_right_eigvec T hrow⟩
  · intro v lam hv h
    have := norm_le_one_of_left T hr v lam hv h
    rwa [Real.norm_eq_abs] at this
  · intro v lam hv h
    have := norm_le_one_of_right T hr v lam hv h
    rwa [Real.norm_eq_abs] at this

/-- the same for complex eigenvalues / eigenvectors: `‖λ‖ ≤ 1`, hence `Re λ ≤ 1` -/
theorem stochastic_eigenvalue_bound_complex {n : Nat} (T : Matrix (Fin n) (Fin n) ℝ)
    (hnn : ∀ i j, 0 ≤ T i j) (hrow : ∀ i, ∑ j, T i j = 1)
    (v : Fin n → ℂ) (lam : ℂ) (hv : v ≠ 0)
    (h : Matrix.vecMul v (T.map (fun x => (x : ℂ))) = lam • v) : ‖lam‖ ≤ 1 ∧ lam.re ≤ 1 := by
  have := norm_le_one_of_left _ (stochastic_row_norms_complex T hnn hrow) v lam hv h
  exact ⟨this, le_trans (Complex.re_le_norm lam) this⟩

/-- Consequently: if every value `eig` returned is an eigenvalue of the stochastic matrix (with
a non-zero complex left eigenvector) and the eigenvalue 1 is among them, the leading value
after the descending sort is exactly 1. -/
theorem eig_post_leading_is_one {n : Nat} (T : Matrix (Fin n) (Fin n) ℝ)
    (hnn : ∀ i j, 0 ≤ T i j) (hrow : ∀ i, ∑ j, T i j = 1) (k : Nat) (hk : 1 ≤ k)
    (vals : List Cx) (cols : List (List Cx)) (v : List Rat) (c : List (List Rat))
    (h : eigPost k vals cols = .ok (v, c))
    (heig : ∀ z ∈ vals, ∃ u : Fin n → ℂ, u ≠ 0 ∧
      Matrix.vecMul u (T.map (fun x => (x : ℂ))) = toC z • u)
    (hone : (⟨1, 0⟩ : Cx) ∈ vals) : v.head? = some 1 := by
  obtain ⟨hdesc, full, hperm, hfull, hv⟩ := eig_post_sorted k vals cols v c h
  have hle : ∀ x ∈ full, x ≤ 1 := by
    intro x hx
    obtain ⟨z, hz, rfl⟩ := List.mem_map.mp (hperm.mem_iff.mp hx)
    obtain ⟨u, hu, he⟩ := heig z hz
    have := (stochastic_eigenvalue_bound_complex T hnn hrow u (toC z) hu he).2
    simp only [toC] at this
    exact_mod_cast this
  have h1 : (1 : Rat) ∈ full := hperm.mem_iff.mpr (List.mem_map.mpr ⟨_, hone, rfl⟩)
  cases full with
  | nil => cases h1
  | cons x rest =>
    obtain ⟨k', rfl⟩ : ∃ k', k = k' + 1 := ⟨k - 1, by omega⟩
    rw [hv]
    simp only [List.take_succ_cons, List.head?_cons, Option.some.injEq]
    apply le_antisymm (hle x List.mem_cons_self)
    rcases List.mem_cons.mp h1 with e | hm
    · rw [e]
    · exact (List.pairwise_cons.mp hfull).1 1 hm

/-- "The" stationary distribution: full statement for irreducible chains (every state reaches
every state: some power of `T` has a positive `(i, j)` entry) — the uniqueness part of the
Perron–Frobenius theorem.  Proved below as `stationary_unique`. -/
def C16_stationary_unique_full : Prop :=
  ∀ (n : Nat) (T : Matrix (Fin n) (Fin n) ℝ), (∀ i j, 0 ≤ T i j) → (∀ i, ∑ j, T i j = 1) →
    (∀ i j, ∃ k : Nat, 0 < (T ^ k) i j) →
    ∀ v w : Fin n → ℝ, Matrix.vecMul v T = v → Matrix.vecMul w T = w →
      ∑ i, v i = 1 → ∑ i, w i = 1 → v = w

/-- The full statement holds: for an irreducible non-negative matrix with unit row sums the left
fixed vector with unit sum is unique (no sign assumption on the vectors, no aperiodicity), so
the normalised leading left eigenvector `eigenspectrum` returns is *the* stationary
distribution.  Elementary proof (`Proofs/C16Uniq.lean`): `|u|` of a fixed vector `u` is a fixed
vector; a non-negative fixed vector is zero or everywhere positive; so a fixed vector with zero
sum is zero. -/
theorem stationary_unique : C16_stationary_unique_full :=
  fun _ T hnn hrow hirr v w hv hw sv sw => stationary_unique_irred T hnn hrow hirr v w hv hw sv sw

/-- the same with irreducibility stated on the transition graph: every state reaches every
state along transitions of positive probability -/
theorem stationary_unique_paths {n : Nat} (T : Matrix (Fin n) (Fin n) ℝ) (hnn : ∀ i j, 0 ≤ T i j)
    (hrow : ∀ i, ∑ j, T i j = 1)
    (hirr : ∀ i j, Relation.ReflTransGen (fun a b => 0 < T a b) i j)
    (v w : Fin n → ℝ) (hv : Matrix.vecMul v T = v) (hw : Matrix.vecMul w T = w)
    (sv : ∑ i, v i = 1) (sw : ∑ i, w i = 1) : v = w :=
  stationary_unique_irred T hnn hrow (fun i j => pow_pos_of_path T hnn i j (hirr i j)) v w hv hw sv sw

/-- the two formulations of irreducibility are the same hypothesis -/
theorem irreducible_iff_paths {n : Nat} (T : Matrix (Fin n) (Fin n) ℝ) (hnn : ∀ i j, 0 ≤ T i j) :
    (∀ i j, ∃ k : Nat, 0 < (T ^ k) i j) ↔
      ∀ i j, Relation.ReflTransGen (fun a b => 0 < T a b) i j :=
  ⟨fun h i j => (h i j).elim fun k hk => path_of_pow_pos T hnn k i j hk,
   fun h i j => pow_pos_of_path T hnn i j (h i j)⟩

/-- and that unique unit-sum fixed vector is a probability distribution with full support:
every entry is strictly positive -/
theorem stationary_positive {n : Nat} (T : Matrix (Fin n) (Fin n) ℝ) (hnn : ∀ i j, 0 ≤ T i j)
    (hrow : ∀ i, ∑ j, T i j = 1) (hirr : ∀ i j, ∃ k : Nat, 0 < (T ^ k) i j)
    (v : Fin n → ℝ) (hv : Matrix.vecMul v T = v) (sv : ∑ i, v i = 1) : ∀ j, 0 < v j :=
  stationary_pos_irred T hnn hrow hirr v hv sv

/-- non-vacuity: the 3-cycle `0 → 1 → 2 → 0` is row-stochastic and irreducible (both
formulations) but has zero entries (and is periodic), so `stationary_unique_partial` does not
apply to it; its unit-sum fixed vector is the uniform one -/
example :
    let T : Matrix (Fin 3) (Fin 3) ℝ := !![0, 1, 0; 0, 0, 1; 1, 0, 0]
    (∀ i j, 0 ≤ T i j) ∧ (∀ i, ∑ j, T i j = 1) ∧ (∀ i j, ∃ k : Nat, 0 < (T ^ k) i j) ∧
    (∀ i j, Relation.ReflTransGen (fun a b => 0 < T a b) i j) ∧ ¬ (∀ i j, 0 < T i j) ∧
    Matrix.vecMul (![1/3, 1/3, 1/3] : Fin 3 → ℝ) T = ![1/3, 1/3, 1/3] ∧
    ∑ i, (![1/3, 1/3, 1/3] : Fin 3 → ℝ) i = 1 := by
  intro T
  have hnn : ∀ i j, 0 ≤ T i j := by
    intro i j; fin_cases i <;> fin_cases j <;> simp [T]
  have e01 : (0 : ℝ) < T 0 1 := by simp [T]
  have e12 : (0 : ℝ) < T 1 2 := by simp [T]
  have e20 : (0 : ℝ) < T 2 0 := by simp [T]
  have s01 : Relation.ReflTransGen (fun a b => 0 < T a b) 0 1 := .single e01
  have s12 : Relation.ReflTransGen (fun a b => 0 < T a b) 1 2 := .single e12
  have s20 : Relation.ReflTransGen (fun a b => 0 < T a b) 2 0 := .single e20
  have hpaths : ∀ i j, Relation.ReflTransGen (fun a b => 0 < T a b) i j := by
    intro i j
    fin_cases i <;> fin_cases j
    · exact .refl
    · exact s01
    · exact s01.trans s12
    · exact s12.trans s20
    · exact .refl
    · exact s12
    · exact s20
    · exact s20.trans s01
    · exact .refl
  refine ⟨hnn, ?_, (irreducible_iff_paths T hnn).mpr hpaths, hpaths, ?_, ?_, ?_⟩
  · intro i; fin_cases i <;> simp [T, Fin.sum_univ_three]
  · intro h; have := h 0 0; simp [T] at this
  · funext j
    fin_cases j <;> simp [T, Matrix.vecMul, dotProduct, Fin.sum_univ_three]
  · simp [Fin.sum_univ_three]; norm_num

/-- The earlier special case (entrywise positive matrices), kept: it is the instance `k = 1` of
the irreducibility hypothesis. -/
theorem stationary_unique_partial {n : Nat} (T : Matrix (Fin n) (Fin n) ℝ) (hpos : ∀ i j, 0 < T i j)
    (hrow : ∀ i, ∑ j, T i j = 1) (v w : Fin n → ℝ) (hv : Matrix.vecMul v T = v)
    (hw : Matrix.vecMul w T = w) (sv : ∑ i, v i = 1) (sw : ∑ i, w i = 1) : v = w :=
  stationary_unique_pos T hpos hrow v w hv hw sv sw

/-- a stochastic matrix satisfying the hypotheses -/
example : (∀ i j, 0 < (!![1/2, 1/2; 1/4, 3/4] : Matrix (Fin 2) (Fin 2) ℝ) i j) ∧
    ∀ i, ∑ j, (!![1/2, 1/2; 1/4, 3/4] : Matrix (Fin 2) (Fin 2) ℝ) i j = 1 := by
  constructor
  · intro i j; fin_cases i <;> fin_cases j <;> norm_num
  · intro i; fin_cases i <;> norm_num [Fin.sum_univ_two]

/-! ## eigenpairs stay together -/

/-- Position by position, the returned value and the returned vector are (real parts of) ONE input
eigenpair `(vals[i], vecs[:, i])` with `i = order[j]`, `order = argsort(-real(vals))`; the vector in
position 0 is first divided by its non-zero sum.  (A model or code that sorted `vals` but left
`vecs` unpermuted would violate this.) -/
theorem eig_post_pairs (k : Nat) (vals : List Cx) (cols : List (List Cx))
    (hlen : cols.length = vals.length)
    (v : List Rat) (c : List (List Rat)) (h : eigPost k vals cols = .ok (v, c)) :
    v.length = min k vals.length ∧ c.length = v.length ∧
    ∀ j, j < v.length → ∃ i z col, (argsortDesc vals)[j]? = some i ∧ vals[i]? = some z ∧
      cols[i]? = some col ∧ v[j]? = some z.re ∧
      (j = 0 → cxSum col ≠ Cx.zero ∧ c[j]? = some (col.map fun w => (w.div (cxSum col)).re)) ∧
      (j ≠ 0 → c[j]? = some (col.map (·.re))) :=
  eigPost_pairs k vals cols hlen v c h

/-- Hence: if every input pair `(vals[i], cols[i])` is a left eigenpair of the row-stochastic `T`
(non-zero complex vector) and the eigenvalue 1 is among the values, the returned leading pair is
`(1, w)` with `w T = w` and `Σ w = 1` — a stationary vector of `T` (unique for irreducible `T` by
`stationary_unique`). -/
theorem eig_post_leading_pair {n : Nat} (T : Matrix (Fin n) (Fin n) ℝ)
    (hnn : ∀ i j, 0 ≤ T i j) (hrow : ∀ i, ∑ j, T i j = 1) (k : Nat) (hk : 1 ≤ k)
    (vals : List Cx) (cols : List (List Cx)) (hlen : cols.length = vals.length)
    (v : List Rat) (c : List (List Rat)) (h : eigPost k vals cols = .ok (v, c))
    (heig : ∀ (i : Nat) (z : Cx) (col : List Cx), vals[i]? = some z → cols[i]? = some col →
      ∃ hl : col.length = n, colVec col hl ≠ 0 ∧
        Matrix.vecMul (colVec col hl) (T.map (fun x => (x : ℂ))) = toC z • colVec col hl)
    (hone : (⟨1, 0⟩ : Cx) ∈ vals) :
    v[0]? = some 1 ∧ ∃ wl : List Rat, c[0]? = some wl ∧ ∃ hw : wl.length = n,
      Matrix.vecMul (ratVec wl hw) T = ratVec wl hw ∧ ∑ a, ratVec wl hw a = 1 := by
  have heig' : ∀ z ∈ vals, ∃ u : Fin n → ℂ, u ≠ 0 ∧
      Matrix.vecMul u (T.map (fun x => (x : ℂ))) = toC z • u := by
    intro z hz
    obtain ⟨i, hi, rfl⟩ := List.mem_iff_getElem.mp hz
    have hic : i < cols.length := by rw [hlen]; exact hi
    obtain ⟨hl, hne, hE⟩ := heig i vals[i] cols[i] (List.getElem?_eq_getElem hi)
      (List.getElem?_eq_getElem hic)
    exact ⟨_, hne, hE⟩
  have h1 := eig_post_leading_is_one T hnn hrow k hk vals cols v c h heig' hone
  obtain ⟨hvl, _, hp⟩ := eig_post_pairs k vals cols hlen v c h
  have hpos : 0 < v.length := by
    rw [hvl]
    have : 0 < vals.length := List.length_pos_of_mem hone
    omega
  obtain ⟨i, z, col, _, hz, hcol, hv0, hc0, _⟩ := hp 0 hpos
  obtain ⟨hs, hc0⟩ := hc0 rfl
  have hv1 : v[0]? = some 1 := by rw [← List.head?_eq_getElem?]; exact h1
  have hre : z.re = 1 := by rw [hv0] at hv1; exact Option.some.inj hv1
  obtain ⟨hl, hne, hE⟩ := heig i z col hz hcol
  obtain ⟨hw, hfix, hsum⟩ := leading_pair T hnn hrow z col hre hs hl hne hE
  exact ⟨hv1, _, hc0, hw, hfix, hsum⟩

/-! ## guards and defaults -/

/-- `n_eigs`: not given → all `n`; given and `< 2` → `ValueError`; otherwise that many -/
theorem resolve_n_eigs_guard (n : Nat) :
    resolveNEigs n none = .ok n ∧
    (∀ k : Int, k < 2 → resolveNEigs n (some k) = .error .valueError) ∧
    (∀ k : Int, 2 ≤ k → resolveNEigs n (some k) = .ok k.toNat) :=
  ⟨resolveNEigs_none n, resolveNEigs_lt_two n, resolveNEigs_ge_two n⟩

/-- `implied_timescales`: the default is `⌊n/10⌋ + 1` timescales, and never more than `n − 1` -/
theorem imp_n_times_clamp (n : Nat) :
    impNTimes n none = min (n / 10 + 1) (n - 1) ∧
    (∀ k, impNTimes n (some k) = min k (n - 1)) ∧ (∀ o, impNTimes n o ≤ n - 1) := by
  refine ⟨impNTimes_none n, impNTimes_some n, ?_⟩
  intro o
  cases o with
  | none => rw [impNTimes_none]; omega
  | some k => rw [impNTimes_some]; omega

/-- `left=True` decomposes the transpose, `left=False` the matrix itself; the `n_eigs` guard comes
first in both cases -/
theorem eigenspectrum_left_transposes {M : Type} (eig : M → List Cx × List (List Cx)) (tr : M → M)
    (size : M → Nat) (T : M) (nEigs : Option Int) :
    eigenspectrum eig tr size T nEigs true =
      (resolveNEigs (size T) nEigs >>= fun k => eigPost k (eig (tr T)).1 (eig (tr T)).2) ∧
    eigenspectrum eig tr size T nEigs false =
      (resolveNEigs (size T) nEigs >>= fun k => eigPost k (eig T).1 (eig T).2) :=
  ⟨eigenspectrum_left eig tr size T nEigs, eigenspectrum_right eig tr size T nEigs⟩

/-! ## implied timescales -/

/-- `calc_imp_times` returns `−lag / log λ_k` for the eigenvalues after the first, in order;
on the domain `0 < λ < 1`, `lag > 0` that number is positive and is the `t` with
`λ = exp(−lag / t)`. -/
theorem imp_times_formula (lag : ℝ) (eVals : List ℝ) :
    impTimes Real.log lag eVals = (eVals.drop 1).map (fun l => -lag / Real.log l) ∧
    (impTimes Real.log lag eVals).length = eVals.length - 1 ∧
    (∀ k, (impTimes Real.log lag eVals)[k]? = (eVals[k + 1]?).map (fun l => -lag / Real.log l)) ∧
    (∀ l, 0 < lag → 0 < l → l < 1 →
      0 < -lag / Real.log l ∧ Real.exp (-lag / (-lag / Real.log l)) = l) := by
  refine ⟨rfl, by simp [impTimes], ?_, ?_⟩
  · intro k
    simp only [impTimes, List.getElem?_map, List.getElem?_drop]
    rw [Nat.add_comm]
  · intro l hlag h0 h1
    exact ⟨imp_time_pos lag l hlag h0 h1, imp_time_defining lag l hlag h0 h1⟩

example : impNTimes 25 none = 3 ∧ impNTimes 5 none = 1 ∧ impNTimes 5 (some 9) = 4 ∧
    impNTimes 1 none = 0 := by decide

/-! ## ensemble propagation -/

/-- `synthetic_ensemble(T, p0, k+1)` returns `p0 Tᵏ` and the observations `p0 T⁰ … p0 Tᵏ`
(`T^t` is Mathlib's matrix power); with `n_steps ≤ 1` nothing is multiplied. -/
theorem ensemble_pow {R : Type} [Semiring R] {n : Nat} (T : Matrix (Fin n) (Fin n) R)
    (p0 : Fin n → R) :
    (∀ k : Nat,
      let r := syntheticEnsemble n (extM T) (extV p0) ((k : Int) + 1)
      restrict n r.1 = Matrix.vecMul p0 (T ^ k) ∧ r.2.length = k + 1 ∧
      ∀ t, t ≤ k → (r.2[t]?).map (restrict n) = some (Matrix.vecMul p0 (T ^ t))) ∧
    (∀ s : Int, s ≤ 1 →
      let r := syntheticEnsemble n (extM T) (extV p0) s
      restrict n r.1 = p0 ∧ r.2.length = 1) := by
  constructor
  · intro k
    have hk : ((k : Int) + 1 - 1).toNat = k := by omega
    obtain ⟨h1, h2, h3⟩ := ensembleLoop_spec T k (extV p0)
    simp only [syntheticEnsemble, hk]
    refine ⟨by rw [h1, restrict_extV], by simp [h2], ?_⟩
    intro t ht
    cases t with
    | zero => simp [restrict_extV]
    | succ t =>
      simp only [List.getElem?_cons_succ]
      rw [h3 t (by omega), restrict_extV]
  · intro s hs
    have : (s - 1).toNat = 0 := by omega
    simp only [syntheticEnsemble, this, ensembleLoop]
    exact ⟨restrict_extV p0, rfl⟩

/-- two steps of the 2-state chain from state 0, computed by the model on rationals -/
example :
    let r := syntheticEnsemble (α := Rat) 2
      (fun i j => ([[1/2, 1/2], [1/4, 3/4]].getD i []).getD j 0) (fun i => [1, 0].getD i 0) 3
    tabulate 2 r.1 = [3/8, 5/8] ∧ r.2.map (tabulate 2) = [[1, 0], [1/2, 1/2], [3/8, 5/8]] := by
  decide +kernel

end C16
