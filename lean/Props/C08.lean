import Proofs.C08
import Proofs.C07Examples
import Proofs.C07Exec
/-!
C08 — reactive flux obeys its definition and is conserved.

Statements are about `Model/Tpt.lean` (mirror of `enspara/tpt/tpt.py`), with the model's own sum
`sumTo`.  The committor vector `q` enters through the facts C07 proves about it (0 on sources,
1 on sinks, harmonic elsewhere, in `[0,1]`); `net_conserved_from_solver` chains the two
properties for the committors computed from ANY solver output `B`.

CORRESPONDENCE-ONLY clauses of the property (no theorem; containers, object identity and the eigen-solver are not in
the model — `harness/props/c08.py` checks them on every case): dense and sparse containers give the same fluxes /
populations; the inputs are not modified (also when the same objects go through committors → fluxes → net fluxes →
populations); populations GIVEN vs COMPUTED agree (the stationary vector is a parameter of the theorems; that the
library's `eq_probs` delivers it is checked numerically against the closed-form / exactly solved vector).

OPEN KNOWN FINDING `reactive-populations-zero-normaliser`: the last clause of the property ("reactive populations are a
probability vector …") is FALSE for ergodic reversible chains in which no intermediate state is reactive (every
intermediate committor is 0 or 1): the code divides 0 by 0.  Full statement `C08_reactive_pop_prob_full` (not
asserted), `reactive_pop_prob_partial` (with the positivity hypothesis), `reactive_pop_zero_normaliser_counterexample`.

"Reversible" is detailed balance `π i T i j = π j T j i`; "ergodic" enters only through C07.
-/
open Ens Ens.Tpt Ens.LinSolveT

namespace C08
open Ens.Tpt.Ex

/-- Reactive flux: `π_i q⁻_i T_ij q⁺_j` off the diagonal, 0 on it, with `q⁻ = 1 − q⁺`. -/
theorem flux_def (π q : Vec) (T : Mat) (i j : Nat) :
    (i ≠ j → reactiveFlux π q T i j = π i * reverseCommittors q i * T i j * q j) ∧
    reactiveFlux π q T i i = 0 ∧ reverseCommittors q i = 1 - q i :=
  ⟨fun h => flux_offdiag π q T h, flux_diag π q T i, rfl⟩

example : reactiveFlux π3 q3 T3 0 1 = 1/16 ∧ reactiveFlux π3 q3 T3 1 0 = 0 := by decide +kernel

/-- About the PRE-FIX reading only (the finding `reactive-fluxes-np-matrix` is closed: /repo now converts with
`np.asarray`, and np.matrix input is an ordinary dense container of the correspondence check): the matrix-product
reading `reactiveFluxNpMatrix` of the dense expression is NOT the defined flux — witness: the 3-state chain `T3`,
source 0, sink 2.  It documents why the conversion must stay. -/
theorem flux_def_npmatrix_prefix_counterexample :
    ¬ (∀ i, i < 3 → ∀ j, j < 3 → i ≠ j →
        reactiveFluxNpMatrix 3 π3 q3 T3 i j = π3 i * reverseCommittors q3 i * T3 i j * q3 j) := by
  decide +kernel

/-- Net flux is the positive part of `f − fᵀ`. -/
theorem net_def (f : Mat) (i j : Nat) :
    netFlux f i j = max (f i j - f j i) 0 ∧ 0 ≤ netFlux f i j :=
  ⟨net_eq_max f i j, net_nonneg f i j⟩

/-- At most one direction of any pair carries net flux. -/
theorem net_one_direction (f : Mat) (i j : Nat) : netFlux f i j = 0 ∨ netFlux f j i = 0 :=
  net_one_dir f i j

/-- Reversible chain: at every state where the committor is harmonic (every intermediate state),
net flux in equals net flux out. -/
theorem net_conserved (n : Nat) (T : Mat) (π q : Vec)
    (hdb : ∀ i, i < n → ∀ j, j < n → π i * T i j = π j * T j i)
    (hrow : ∀ i, i < n → sumTo n (fun j => T i j) = 1)
    (i : Nat) (hi : i < n) (hq : q i = sumTo n (fun j => T i j * q j)) :
    sumTo n (fun j => netFlux (reactiveFlux π q T) j i)
      = sumTo n (fun j => netFlux (reactiveFlux π q T) i j) := by
  simp only [sumTo_eq_sum] at hrow hq ⊢
  exact net_conserved_fin hdb hrow hi hq

example : (∀ i, i < 3 → ∀ j, j < 3 → π3 i * T3 i j = π3 j * T3 j i) ∧
    (∀ i, i < 3 → sumTo 3 (fun j => T3 i j) = 1) ∧ q3 1 = sumTo 3 (fun j => T3 1 j * q3 j) ∧
    sumTo 3 (fun j => netFlux (reactiveFlux π3 q3 T3) 1 j) = 1/16 := by decide +kernel

/-- The key step of conservation, as a statement of its own: total reactive flux out of a state
where `q` is harmonic is `π_i (1−q_i) q_i (1 − T_ii)` — and for a reversible chain so is the
total reactive flux into it. -/
theorem flux_out_eq_flux_in (n : Nat) (T : Mat) (π q : Vec)
    (hdb : ∀ i, i < n → ∀ j, j < n → π i * T i j = π j * T j i)
    (hrow : ∀ i, i < n → sumTo n (fun j => T i j) = 1)
    (i : Nat) (hi : i < n) (hq : q i = sumTo n (fun j => T i j * q j)) :
    sumTo n (fun j => reactiveFlux π q T i j) = π i * (1 - q i) * q i * (1 - T i i) ∧
    sumTo n (fun j => reactiveFlux π q T j i) = π i * (1 - q i) * q i * (1 - T i i) := by
  simp only [sumTo_eq_sum] at hrow hq ⊢
  exact ⟨flux_out_sum hi hq, flux_in_sum hdb hrow hi hq⟩

/-- Nothing flows into a state with `q = 0` (a source). -/
theorem no_flow_into_sources (T : Mat) (π q : Vec) (s j : Nat)
    (hs : q s = 0) (hπ : 0 ≤ π s) (hT : 0 ≤ T s j) (hqj : 0 ≤ q j) :
    netFlux (reactiveFlux π q T) j s = 0 := by
  apply net_zero_of_le
  have h0 : reactiveFlux π q T j s = 0 := by
    simp only [reactiveFlux, hs, mul_zero, ite_self]
  rw [h0]
  exact flux_nonneg hπ hT (by rw [hs]; decide) hqj

/-- Nothing flows out of a state with `q = 1` (a sink). -/
theorem no_flow_out_of_sinks (T : Mat) (π q : Vec) (s j : Nat)
    (hs : q s = 1) (hπ : 0 ≤ π j) (hT : 0 ≤ T j s) (hqj : q j ≤ 1) :
    netFlux (reactiveFlux π q T) s j = 0 := by
  apply net_zero_of_le
  have h0 : reactiveFlux π q T s j = 0 := by
    simp only [reactiveFlux, reverseCommittors, hs, sub_self, mul_zero, zero_mul, ite_self]
  rw [h0]
  exact flux_nonneg hπ hT hqj (by rw [hs]; decide)

/-- hypotheses shared by the global statements: a reversible non-negative row-stochastic chain,
`q` a committor (0 on sources, 1 on sinks, harmonic elsewhere, in `[0,1]`) -/
structure TptHyp (n : Nat) (T : Mat) (π q : Vec) (sources sinks : List Nat) : Prop where
  db : ∀ i, i < n → ∀ j, j < n → π i * T i j = π j * T j i
  row : ∀ i, i < n → sumTo n (fun j => T i j) = 1
  Tnn : ∀ i, i < n → ∀ j, j < n → 0 ≤ T i j
  πnn : ∀ i, i < n → 0 ≤ π i
  q0 : ∀ s ∈ sources, q s = 0
  q1 : ∀ s ∈ sinks, q s = 1
  qharm : ∀ i, i < n → i ∉ sources → i ∉ sinks → q i = sumTo n (fun j => T i j * q j)
  qlo : ∀ i, i < n → 0 ≤ q i
  qhi : ∀ i, i < n → q i ≤ 1
  disj : ∀ s ∈ sources, s ∉ sinks

/-- Total net outflow from the sources equals total net inflow to the sinks. -/
theorem total_out_eq_total_in (n : Nat) (T : Mat) (π q : Vec) (sources sinks : List Nat)
    (h : TptHyp n T π q sources sinks) :
    sumTo n (fun i => if i ∈ sources then sumTo n (fun j => netFlux (reactiveFlux π q T) i j) else 0)
      = sumTo n (fun i => if i ∈ sinks then sumTo n (fun j => netFlux (reactiveFlux π q T) j i) else 0) := by
  have hrow := h.row
  have hqh := h.qharm
  simp only [sumTo_eq_sum] at hrow hqh ⊢
  have hanti := net_antisym_sum (n := n) (netFlux (reactiveFlux π q T))
  have e : ∀ i ∈ Finset.range n,
      ∑ j ∈ Finset.range n, (netFlux (reactiveFlux π q T) i j - netFlux (reactiveFlux π q T) j i)
      = (if i ∈ sources then ∑ j ∈ Finset.range n, netFlux (reactiveFlux π q T) i j else 0)
        - (if i ∈ sinks then ∑ j ∈ Finset.range n, netFlux (reactiveFlux π q T) j i else 0) := by
    intro i hi
    have hi' := Finset.mem_range.1 hi
    rw [Finset.sum_sub_distrib]
    by_cases h1 : i ∈ sources
    · have h2 : i ∉ sinks := h.disj i h1
      have hin : ∑ j ∈ Finset.range n, netFlux (reactiveFlux π q T) j i = 0 :=
        Finset.sum_eq_zero fun j hj =>
          no_flow_into_sources T π q i j (h.q0 i h1) (h.πnn i hi')
            (h.Tnn i hi' j (Finset.mem_range.1 hj)) (h.qlo j (Finset.mem_range.1 hj))
      simp [h1, h2, hin]
    · by_cases h2 : i ∈ sinks
      · have hout : ∑ j ∈ Finset.range n, netFlux (reactiveFlux π q T) i j = 0 :=
          Finset.sum_eq_zero fun j hj =>
            no_flow_out_of_sinks T π q i j (h.q1 i h2) (h.πnn j (Finset.mem_range.1 hj))
              (h.Tnn j (Finset.mem_range.1 hj) i hi') (h.qhi j (Finset.mem_range.1 hj))
        simp [h1, h2, hout]
      · have := net_conserved_fin (π := π) h.db hrow hi' (hqh i hi' h1 h2)
        simp [h1, h2, this]
  rw [Finset.sum_congr rfl e, Finset.sum_sub_distrib] at hanti
  linarith

/-- The same with the sums running over the source / sink LISTS (no repetition, in range). -/
theorem total_out_eq_total_in_lists (n : Nat) (T : Mat) (π q : Vec) (sources sinks : List Nat)
    (h : TptHyp n T π q sources sinks)
    (hsrc : ∀ s ∈ sources, s < n) (hsnk : ∀ s ∈ sinks, s < n)
    (hnd1 : sources.Nodup) (hnd2 : sinks.Nodup) :
    sumTo sources.length (fun k => sumTo n (fun j => netFlux (reactiveFlux π q T) (sources.getD k 0) j))
      = sumTo sinks.length (fun k => sumTo n (fun j => netFlux (reactiveFlux π q T) j (sinks.getD k 0))) := by
  have := total_out_eq_total_in n T π q sources sinks h
  simp only [sumTo_eq_sum] at this ⊢
  rw [sum_pick n (fun s => ∑ j ∈ Finset.range n, netFlux (reactiveFlux π q T) s j) sources hnd1 hsrc,
    sum_pick n (fun s => ∑ j ∈ Finset.range n, netFlux (reactiveFlux π q T) j s) sinks hnd2 hsnk]
  exact this

example : TptHyp 3 T3 π3 q3 [0] [2] := by
  constructor <;> decide +kernel

/-- PARTIAL (see `C08_reactive_pop_prob_full` below for the full statement, which is false): reactive populations
`π q⁺ q⁻ / Σ π q⁺ q⁻` are non-negative, sum to 1 and vanish wherever `q` is 0 or 1 (sources and sinks) — PROVIDED some
state has positive `π q (1−q)`.  That hypothesis is NOT a guard of the code and is NOT implied by the property's
quantifier; what is missing without it is exactly the zero-normaliser case of the counterexample. -/
theorem reactive_pop_prob_partial (n : Nat) (π q : Vec)
    (hπ : ∀ i, i < n → 0 ≤ π i) (hlo : ∀ i, i < n → 0 ≤ q i) (hhi : ∀ i, i < n → q i ≤ 1)
    (hpos : ∃ i, i < n ∧ 0 < π i * q i * (1 - q i)) :
    sumTo n (density π q) ≠ 0 ∧
    (∀ i, i < n → 0 ≤ reactivePop n π q i) ∧
    sumTo n (reactivePop n π q) = 1 ∧
    (∀ s, q s = 0 → reactivePop n π q s = 0) ∧
    (∀ s, q s = 1 → reactivePop n π q s = 0) := by
  simp only [sumTo_eq_sum]
  have hd : ∀ i ∈ Finset.range n, 0 ≤ density π q i := fun i hi =>
    mul_nonneg (mul_nonneg (hπ i (Finset.mem_range.1 hi)) (hlo i (Finset.mem_range.1 hi)))
      (sub_nonneg.2 (hhi i (Finset.mem_range.1 hi)))
  have hN : 0 < ∑ i ∈ Finset.range n, density π q i := by
    obtain ⟨i, hi, hp⟩ := hpos
    exact Finset.sum_pos' hd ⟨i, Finset.mem_range.2 hi, hp⟩
  refine ⟨ne_of_gt hN, ?_, ?_, ?_, ?_⟩
  · intro i hi
    simp only [reactivePop, sumTo_eq_sum]
    exact div_nonneg (hd i (Finset.mem_range.2 hi)) (le_of_lt hN)
  · simp only [reactivePop, sumTo_eq_sum, div_eq_mul_inv]
    rw [← Finset.sum_mul]
    exact mul_inv_cancel₀ (ne_of_gt hN)
  · intro s hs; simp [reactivePop, density, hs]
  · intro s hs; simp [reactivePop, density, reverseCommittors, hs]

example : (∀ i, i < 3 → 0 ≤ π3 i) ∧ (∃ i, i < 3 ∧ 0 < π3 i * q3 i * (1 - q3 i)) ∧
    reactivePop 3 π3 q3 1 = 1 :=
  ⟨by decide +kernel, ⟨1, by decide +kernel⟩, by decide +kernel⟩

/-- FULL statement of the last clause of the property, as quantified ("all ergodic reversible transition matrices with
their stationary populations, all disjoint source/sink sets", at least one intermediate state): NOT asserted — it is
false, see the counterexample. -/
def C08_reactive_pop_prob_full : Prop :=
  ∀ (n : Nat) (T : Mat) (π q : Vec) (sources sinks : List Nat),
    sources ≠ [] → sinks ≠ [] → TptHyp n T π q sources sinks →
    (∀ i, i < n → 0 < π i) → sumTo n π = 1 →
    (∀ i, i < n → Reach n T (sources ++ sinks) i) →
    (∃ i, i < n ∧ i ∉ sources ∧ i ∉ sinks) →
    (∀ i, i < n → 0 ≤ reactivePop n π q i) ∧ sumTo n (reactivePop n π q) = 1 ∧
    (∀ s ∈ sources, reactivePop n π q s = 0) ∧ (∀ s ∈ sinks, reactivePop n π q s = 0)

/-- committors of the path chain `T3` (0 – 1 – 2) for source `1`, sink `2`: the intermediate state 0 can reach the
sink only through the source -/
def qPath : Vec := fun i => if i = 2 then 1 else 0

/-- Known finding `reactive-populations-zero-normaliser` (open): on the reversible ergodic path chain `0 – 1 – 2`
with source `1` and sink `2` the only intermediate state has `q = 0`, every density `π q (1−q)` is 0 and the
normaliser vanishes — the code computes 0/0 = nan (the executable reference reports `zeroDivision`; over `Rat` the
totalised quotient is 0, so the sum is 0, not 1). -/
theorem reactive_pop_zero_normaliser_counterexample : ¬ C08_reactive_pop_prob_full := by
  intro h
  have hyp : TptHyp 3 T3 π3 qPath [1] [2] := by constructor <;> decide +kernel
  have hreach : ∀ i, i < 3 → Reach 3 T3 ([1] ++ [2]) i := by
    intro i hi
    match i, hi with
    | 0, _ => exact .step (j := 1) (by decide) (by decide +kernel) (.base (by decide))
    | 1, _ => exact .base (by decide)
    | 2, _ => exact .base (by decide)
  have := (h 3 T3 π3 qPath [1] [2] (by decide) (by decide) hyp (by decide +kernel) (by decide +kernel) hreach
    ⟨0, by decide, by decide, by decide⟩).2.1
  revert this
  decide +kernel

example : okVal (committors 3 T3 [1] [2]) 0 = some 0 ∧
    okVal (reactivePopulations 3 T3 [1] [2] π3) 0 = none := by decide +kernel

/-- C07 ∘ C08: for the committors the code computes from ANY solver output `B` with
`(I−Q) B = R`, on a reversible row-stochastic chain, net flux is conserved at every intermediate
state. -/
theorem net_conserved_from_solver (n : Nat) (T : Mat) (π : Vec) (sources sinks : List Nat) (B : Mat)
    (hsrc : ∀ s ∈ sources, s < n) (hsnk : ∀ s ∈ sinks, s < n)
    (hdisj : ∀ s ∈ sources, s ∉ sinks) (hnd : sinks.Nodup)
    (hB : CommittorSolve n T sources sinks B)
    (hdb : ∀ i, i < n → ∀ j, j < n → π i * T i j = π j * T j i)
    (hrow : ∀ i, i < n → sumTo n (fun j => T i j) = 1)
    (i : Nat) (hi : i < n) (h1 : i ∉ sources) (h2 : i ∉ sinks) :
    sumTo n (fun j => netFlux (reactiveFlux π (committorsFrom B sinks) T) j i)
      = sumTo n (fun j => netFlux (reactiveFlux π (committorsFrom B sinks) T) i j) := by
  have hq := (committor_first_step_fin hsrc hsnk hdisj hnd hB).2.2 i hi h1 h2
  rw [← sumTo_eq_sum] at hq
  exact net_conserved n T π _ hdb hrow i hi hq

/-- …and for the executable reference the driver runs: whenever `netFluxes` returns a table, it
is conserved at every intermediate state of a reversible row-stochastic chain. -/
theorem net_conserved_exec (n : Nat) (T : Mat) (π : Vec) (sources sinks : List Nat) (g : Mat)
    (hdisj : ∀ s ∈ sources, s ∉ sinks) (hnd : sinks.Nodup)
    (hg : netFluxes n T sources sinks π = .ok g)
    (hdb : ∀ i, i < n → ∀ j, j < n → π i * T i j = π j * T j i)
    (hrow : ∀ i, i < n → sumTo n (fun j => T i j) = 1)
    (i : Nat) (hi : i < n) (h1 : i ∉ sources) (h2 : i ∉ sinks) :
    sumTo n (fun j => g j i) = sumTo n (fun j => g i j) := by
  unfold netFluxes reactiveFluxes at hg
  cases hc : committors n T sources sinks with
  | error e => rw [hc] at hg; exact absurd hg (by simp)
  | ok q =>
    rw [hc] at hg
    have : netFlux (reactiveFlux π q T) = g := by simpa using hg
    subst this
    have hq := (committors_ok_first_step hdisj hnd hc).2.2 i hi h1 h2
    rw [← sumTo_eq_sum] at hq
    exact net_conserved n T π q hdb hrow i hi hq

example : okEntry (netFluxes 3 T3 [0] [2] π3) 0 1 = some (1/16) ∧
    okEntry (netFluxes 3 T3 [0] [2] π3) 1 0 = some 0 ∧
    okVal (reactivePopulations 3 T3 [0] [2] π3) 1 = some 1 := by decide +kernel

end C08
