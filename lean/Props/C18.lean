import Proofs.C18Dtype
import Proofs.C18Ccn
import Proofs.C18Laws2
import Proofs.C18Pooled
import Proofs.C18Bincount1
import Proofs.C18Weighted
import Model.Generated.InfoKernel
/-!
C18 — joint counts are exact and mutual information obeys its algebraic laws.

Model: `Model/Info.lean` (mirrors `libinfo.matrix_bincount2d`, `mutual_info.joint_counts`,
`mutual_information`, `mi_matrix`, `weighted_mi`, `channel_capacity_normalization`,
`entropy.shannon_entropy`, `entropy.kl_divergence`).  Real-valued notions: `termsVal l =
Σ_{(c,x)∈l} c·log x` is the value of a term list printed by the driver; `miVal j x y` is the value
of `mi[x, y]` for the table `j`.  Counts are `Nat` in the model and `uint32` in the code: the
theorems assume fewer than 2³² frames (trusted base of `harness/props/c18.py`).

Outside the model, exercised by the harness only: the memory layout of the arrays (C / Fortran /
strided / reversed views — the model's arrays are index functions), OS thread scheduling, floating
point (the model returns exact rational terms) and `weighted_mi`'s trailing `np.clip(·, 0, inf)`
(see `wmiValidate`; its default state counts `int(features.max()) + 1` are modelled).
-/
namespace C18
open Ens Ens.Info Ens.Sched Ens.InfoR

/-! ### joint counts -/

/-- every cell `[x, y, i, j]` of the table is the exact number of frames `t` with `a[t,x] = i` and
`b[t,y] = j` (for all `i j : ℤ`: nothing is counted in another cell), and the shape is the declared one -/
theorem jc_exact (a b : Arr) (nA nB : Int) (r : JC) (h : matrixBincount2d a b nA nB = .ok r) :
    r.Fa = a.F ∧ r.Fb = b.F ∧ r.nA = nA ∧ r.nB = nB ∧
    ∀ x y i j, r.cnt x y i j = if x < a.F ∧ y < b.F then frameCount a b x y i j else 0 :=
  jc_exact_core a b nA nB r h

/-- `joint_counts(X, Y, n_x, n_y)` is exact for every pair of the eight integer dtypes (the dtype
harmonisation changes no value of a valid array) -/
theorem jc_exact_all_dtypes (X Y : TArr) (hX : X.valid) (hY : Y.valid) (nx ny : Int) (r : JC)
    (h : jointCounts X (some Y) (some nx) (some ny) = .ok r) :
    r.Fa = X.arr.F ∧ r.Fb = Y.arr.F ∧ r.nA = nx ∧ r.nB = ny ∧
    ∀ x y i j, r.cnt x y i j =
      if x < X.arr.F ∧ y < Y.arr.F then frameCount X.arr Y.arr x y i j else 0 :=
  jointCounts_exact X Y hX hY nx ny r h

/-- any interleaving of the `prange` iterations (every thread count, schedule clause and assignment
of iterations to threads) computes the table of the sequential triple loop.
Scope: race-freedom is *structural* here — the program of `a_row` is typed `Slab → Slab`, i.e. the
model already says that iteration `a_row` touches `jc[a_row, …]` only.  A kernel that wrote into
another row's slab (`jc[b_row, a_row, …]`, a `prange` over `t`, …) is outside what this theorem can
see; that the source really indexes `jc[a_row, b_row, i, j]` inside `prange(a_row)` is re-checked on
every run by `kernel_source_as_modelled` below (a `decide` over the normalised loop nest, write
and guards extracted from `libinfo.pyx`), and the compiled code is exercised by the differential thread sweeps (1…16 threads)
of `harness/props/c18.py`. -/
theorem jc_interleaving (a b : Arr) (e : Exec Slab) (h : IsInterleaving (progs a b) e) :
    run e (fun _ => zeroSlab) = run (seqExec a b) (fun _ => zeroSlab) :=
  jc_interleaving_core a b e h

/-- the kernel executed under an arbitrary schedule is the kernel -/
theorem jc_interleaving_sched (choices : List Nat) (a b : Arr) (nA nB : Int) :
    matrixBincount2dSched choices a b nA nB = matrixBincount2d a b nA nB :=
  jc_sched_core choices a b nA nB

/-- guard ok ⇒ the two arrays have the same number of frames and every write of the triple loop is
inside the `(Fa, Fb, nA, nB)` table -/
theorem jc_guard_sound (a b : Arr) (nA nB : Int) (h : guard a b nA nB = .ok ()) :
    a.T = b.T ∧ ∀ x, x < a.F → ∀ w ∈ writesOf a b x,
      w.1 < b.F ∧ 0 ≤ w.2.1 ∧ w.2.1 < nA ∧ 0 ≤ w.2.2 ∧ w.2.2 < nB :=
  jc_guard_sound_core a b nA nB h

/-- the guard accepts exactly the well-formed streams: non-empty, equal lengths, every id in range -/
theorem jc_guard_iff (a b : Arr) (nA nB : Int) :
    guard a b nA nB = .ok () ↔
      a.F < 2 ^ 32 ∧ a.T = b.T ∧ a.entries ≠ [] ∧ b.entries ≠ [] ∧
      (∀ v ∈ a.entries, 0 ≤ v ∧ v < nA) ∧ (∀ v ∈ b.entries, 0 ≤ v ∧ v < nB) :=
  guard_ok_iff a b nA nB

/-- pooled trajectories: the table of the concatenation is the sum of the tables -/
theorem jc_additive (a a' b b' : Arr) (nA nB : Int) (r r' : JC)
    (hFa : a'.F = a.F) (hFb : b'.F = b.F)
    (h : matrixBincount2d a b nA nB = .ok r) (h' : matrixBincount2d a' b' nA nB = .ok r') :
    ∃ p, matrixBincount2d (a.append a') (b.append b') nA nB = .ok p ∧
      ∀ x y i j, p.cnt x y i j = r.cnt x y i j + r'.cnt x y i j :=
  jc_additive_core a a' b b' nA nB r r' hFa hFb h h'

/-- reordering the frames (the same way on both sides) gives the same table -/
theorem jc_perm_frames (a b : Arr) (nA nB : Int) (σ : Nat → Nat) (r : JC)
    (hσ : ((List.range a.T).map σ).Perm (List.range a.T))
    (h : matrixBincount2d a b nA nB = .ok r) :
    matrixBincount2d (a.permFrames σ) (b.permFrames σ) nA nB = .ok r :=
  jc_perm_frames_core a b nA nB σ r hσ h

/-- relabelling the states of every feature by permutations of the declared range moves the counts
to the relabelled cells -/
theorem jc_relabel (a b : Arr) (nA nB : Int) (πa πb : Nat → Int → Int) (r : JC)
    (ha : ∀ f, f < a.F → RelabelOn (πa f) nA) (hb : ∀ f, f < b.F → RelabelOn (πb f) nB)
    (h : matrixBincount2d a b nA nB = .ok r) :
    ∃ p, matrixBincount2d (a.relabel πa) (b.relabel πb) nA nB = .ok p ∧
      ∀ x y i j, x < a.F → y < b.F → 0 ≤ i → i < nA → 0 ≤ j → j < nB →
        p.cnt x y (πa x i) (πb y j) = r.cnt x y i j :=
  jc_relabel_core a b nA nB πa πb r ha hb h

/-- the 1-D kernel `libinfo.bincount2d`: `H[i, j]` is the exact number of frames with `a[t] = i`
and `b[t] = j` -/
theorem bincount1_exact (a b : Arr) (nA nB : Int) (h : Tab2) (hk : bincount2d a b nA nB = .ok h) :
    h.nA = nA ∧ h.nB = nB ∧ ∀ i j, h.cnt i j = frameCount a b 0 0 i j :=
  bincount2d_exact_core a b nA nB h hk

/-- … and its guards (equal lengths, ids in range) keep every write inside the table -/
theorem bincount1_guard_sound (a b : Arr) (nA nB : Int) (h : Tab2) (hFa : 0 < a.F) (hFb : 0 < b.F)
    (hk : bincount2d a b nA nB = .ok h) :
    a.T = b.T ∧ ∀ w ∈ writes1 a b, 0 ≤ w.2.1 ∧ w.2.1 < nA ∧ 0 ≤ w.2.2 ∧ w.2.2 < nB :=
  bincount2d_guard_sound_core a b nA nB h hFa hFb hk

/-- the NORMALISED structure of the two kernels, extracted from `libinfo.pyx` on this run
(`Model/Generated/InfoKernel.lean`, regenerated by `harness/props/c18.py translate`: comments,
docstrings, assert messages and scalar declarations dropped, locals renamed canonically — array
parameters `A`, `B`, state counts `NA`, `NB`, output `OUT`, loop variables `L0 L1 L2` by nesting
depth — temporaries and hoisted bounds inlined, counting `while` loops read as `range` loops) is the
one `Model.Info` mirrors:
* `matrix_bincount2d`: the outermost loop is the `prange` over `a.shape[1]`, inside it the loops over
  `b.shape[1]` and `a.shape[0]`; there is exactly one write, in the innermost loop,
  `jc[prange index, inner index, a[t, prange index], b[t, inner index]] += 1` (iteration `a_row` owns the
  slab `jc[a_row, …]`); the guards are exactly the six modelled ones, all before the loops; the output is `np.zeros` of `uint32`
  with shape `(a.shape[1], b.shape[1], n_a, n_b)` and is what is returned; nothing unrecognised;
* `bincount2d`: one loop over `a.shape[0]`, the single write `H[a[t], b[t]] += 1`, the length guard
  and the four range guards under `a.shape[0] > 0`, `np.zeros((n_a, n_b), uint32)`;
* both fused types list the eight integer dtypes;
* pinned exactly (not only contained): the guard SET, each guard tagged `pre:` (before the first loop — a
  guard behind the loop nest would let the out-of-bounds write happen first); the enclosing condition of
  the write (`depth|cond|…`, must be empty); the declared C types of the parameters, loop variables and
  index temporaries (`long` / `unsigned int`, `int` state counts — a narrower type would wrap ids); the
  declared buffer type of the output; the decorators and module-level `# cython:` directives.
Renaming locals, deleting unused declarations, reordering declarations or rewriting the frame loop
as a counting `while` leave this structure unchanged; a different write cell, a dropped guard,
`np.empty`, or a `prange` on another loop make the obligation fail (the check then escalates). -/
theorem kernel_source_as_modelled :
    (Ens.Info.Gen.matrixBincount2d.loops =
        [("prange", "A.shape[1]"), ("range", "B.shape[1]"), ("range", "A.shape[0]")] ∧
     Ens.Info.Gen.matrixBincount2d.writes = ["3||OUT[L0,L1,A[L2,L0],B[L2,L1]]+=1"] ∧
     Ens.Info.Gen.matrixBincount2d.guards =
        ["pre:A.max()<NA", "pre:A.min()>=0", "pre:A.shape[0]==B.shape[0]", "pre:A.shape[1]<2**32",
         "pre:B.max()<NB", "pre:B.min()>=0"] ∧
     Ens.Info.Gen.matrixBincount2d.alloc =
        ["zeros", "(A.shape[1],B.shape[1],NA,NB)", "np.uint32", "buffer:np.ndarray[np.uint32_t,ndim=4]"] ∧
     Ens.Info.Gen.matrixBincount2d.ret = "OUT" ∧
     Ens.Info.Gen.matrixBincount2d.extras = [] ∧
     Ens.Info.Gen.matrixBincount2d.types =
        [("A", "INTEGRAL_2D_ARRAY"), ("A[L2,L0]", "long"), ("B", "INTEGRAL_2D_ARRAY"), ("B[L2,L1]", "long"),
         ("L0", "long"), ("L1", "long"), ("L2", "long"), ("NA", "int"), ("NB", "int")] ∧
     Ens.Info.Gen.matrixBincount2d.tags = ["@cython.boundscheck(False)", "@cython.wraparound(False)"]) ∧
    (Ens.Info.Gen.bincount2d.loops = [("range", "A.shape[0]")] ∧
     Ens.Info.Gen.bincount2d.writes = ["1||OUT[A[L0],B[L0]]+=1"] ∧
     Ens.Info.Gen.bincount2d.guards =
        ["pre:A.shape[0]==B.shape[0]", "pre:A.shape[0]>0=>A.max()<NA", "pre:A.shape[0]>0=>A.min()>=0",
         "pre:A.shape[0]>0=>B.max()<NB", "pre:A.shape[0]>0=>B.min()>=0"] ∧
     Ens.Info.Gen.bincount2d.alloc = ["zeros", "(NA,NB)", "np.uint32", "buffer:np.ndarray[np.uint32_t,ndim=2]"] ∧
     Ens.Info.Gen.bincount2d.ret = "OUT" ∧
     Ens.Info.Gen.bincount2d.extras = [] ∧
     Ens.Info.Gen.bincount2d.types =
        [("A", "INTEGRAL_1D_ARRAY"), ("A[L0]", "unsigned int"), ("B", "INTEGRAL_1D_ARRAY"),
         ("B[L0]", "unsigned int"), ("L0", "unsigned int"), ("NA", "int"), ("NB", "int")] ∧
     Ens.Info.Gen.bincount2d.tags = ["@cython.boundscheck(False)"]) ∧
    Ens.Info.Gen.fused =
      [("INTEGRAL_1D_ARRAY", ["int8", "int16", "int32", "int64", "uint8", "uint16", "uint32", "uint64"]),
       ("INTEGRAL_2D_ARRAY", ["int8", "int16", "int32", "int64", "uint8", "uint16", "uint32", "uint64"])] := by
  decide

/-! ### mutual information -/

/-- the value of the model's term list is `Σ_uv P_uv log (P_uv / (P_u· P_·v))` for `P = counts / N` -/
theorem mi_terms_value (c : ℕ → ℕ → ℕ) (nA nB : ℕ) :
    termsVal (miTerms c nA nB) = miF (probTable c nA nB) nA nB :=
  miTerms_val c nA nB

/-- mutual information is non-negative, for every table of counts -/
theorem mi_nonneg (j : JC) (x y : Nat) : 0 ≤ miVal j x y :=
  miVal_nonneg j x y

/-- a data set against itself: `mi[x, y] = mi[y, x]` -/
theorem mi_symm_self (a : Arr) (n : ℤ) (r : JC) (h : matrixBincount2d a a n n = .ok r)
    (x y : Nat) (hx : x < a.F) (hy : y < a.F) : miVal r x y = miVal r y x :=
  mi_symm_self_core a n r h x y hx hy

/-- the diagonal is the Shannon entropy of the feature (as `shannon_entropy` computes it from the
marginal counts) -/
theorem mi_diag_eq_entropy (a : Arr) (n : ℤ) (r : JC) (h : matrixBincount2d a a n n = .ok r)
    (x : Nat) (hx : x < a.F) :
    ∃ ts, entropyTerms (countsList (fun u => margCount a x (u : ℤ)) n.toNat) true = .ok ts ∧
      termsVal ts = miVal r x x :=
  mi_diag_eq_entropy_core a n r h x hx

/-- `mi[x, y]` is at most the entropy of feature `x` of the first side and at most the entropy of
feature `y` of the second side -/
theorem mi_le_min_entropy (a b : Arr) (nA nB : ℤ) (r : JC) (h : matrixBincount2d a b nA nB = .ok r)
    (x y : Nat) (hx : x < a.F) (hy : y < b.F) :
    ∃ tx ty,
      entropyTerms (countsList (fun u => margCount a x (u : ℤ)) nA.toNat) true = .ok tx ∧
      entropyTerms (countsList (fun v => margCount b y (v : ℤ)) nB.toNat) true = .ok ty ∧
      miVal r x y ≤ termsVal tx ∧ miVal r x y ≤ termsVal ty :=
  mi_le_min_entropy_core a b nA nB r h x y hx hy

/-- relabelling states leaves the mutual information unchanged -/
theorem mi_relabel_invariant (a b : Arr) (nA nB : ℤ) (πa πb : Nat → ℤ → ℤ) (r p : JC)
    (ha : ∀ f, f < a.F → RelabelOn (πa f) nA) (hb : ∀ f, f < b.F → RelabelOn (πb f) nB)
    (h : matrixBincount2d a b nA nB = .ok r)
    (hp : matrixBincount2d (a.relabel πa) (b.relabel πb) nA nB = .ok p)
    (x y : Nat) (hx : x < a.F) (hy : y < b.F) : miVal p x y = miVal r x y :=
  mi_relabel_core a b nA nB πa πb r p ha hb h hp x y hx hy

/-- reordering frames leaves the mutual information unchanged -/
theorem mi_frame_perm_invariant (a b : Arr) (nA nB : Int) (σ : Nat → Nat) (r p : JC)
    (hσ : ((List.range a.T).map σ).Perm (List.range a.T))
    (h : matrixBincount2d a b nA nB = .ok r)
    (hp : matrixBincount2d (a.permFrames σ) (b.permFrames σ) nA nB = .ok p) (x y : Nat) :
    miVal p x y = miVal r x y := by
  rw [jc_perm_frames_core a b nA nB σ r hσ h] at hp
  cases hp; rfl

/-- several trajectories: `mi_matrix` adds the tables (`jc += jc_i`), which is the table of the
concatenated trajectories, so its mutual information is that of the pooled counts -/
theorem mi_pooled (a a' b b' : Arr) (nA nB : ℤ) (r r' : JC)
    (hFa : a'.F = a.F) (hFb : b'.F = b.F)
    (h : matrixBincount2d a b nA nB = .ok r) (h' : matrixBincount2d a' b' nA nB = .ok r') :
    ∃ p, matrixBincount2d (a.append a') (b.append b') nA nB = .ok p ∧
      p.cnt = (r.add r').cnt ∧ ∀ x y, miVal p x y = miVal (r.add r') x y :=
  mi_pooled_core a a' b b' nA nB r r' hFa hFb h h'

/-- `mi_matrix` over any number of trajectories (any dtypes): every cell of the accumulated table is
the sum of the per-trajectory frame counts -/
theorem mi_pooled_counts (trajs : List (TArr × TArr)) (nx ny : Int) (p : JC)
    (hv : ∀ XY ∈ trajs, XY.1.valid ∧ XY.2.valid)
    (h : miMatrixCounts trajs nx ny = .ok p) :
    ∀ x y i j, p.cnt x y i j = (trajs.map fun XY => trajCount XY x y i j).sum :=
  miMatrixCounts_pooled trajs nx ny p hv h

/-! ### weighted estimator -/

/-- under uniform weights (any positive constant, normalised by the code to `1/T`) the weighted
estimator produces, for every feature pair, exactly the terms the counts-based estimator produces
from the joint counts of the data set against itself (`M` = the declared number of states, all ids
below it) -/
theorem weighted_uniform_eq_counts (X : Arr) (c : ℚ) (hc : 0 < c) (f g : ℕ) (M : ℕ) (hT : 0 < X.T)
    (hf : ∀ t, t < X.T → 0 ≤ X.get t f ∧ X.get t f < (M : ℤ))
    (hg : ∀ t, t < X.T → 0 ≤ X.get t g ∧ X.get t g < (M : ℤ)) :
    wmiTerms X (normWeights (List.replicate X.T c)) M f g
      = miTerms (fun (u v : ℕ) => frameCount X X f g (u : ℤ) (v : ℤ)) M M :=
  wmiTerms_uniform X c hc f g M hT hf hg

/-- `weighted_mi` returns those term lists (after its validation stage) -/
theorem weighted_mi_terms (X : Arr) (wl : List ℚ) (nfs : Option (List ℤ)) (res : WMI)
    (h : weightedMi X wl nfs = .ok res) :
    ∃ v, wmiValidate X wl nfs = .ok v ∧ res.states = v.1 ∧
      res.terms = tabulate X.F fun f => tabulate X.F fun g =>
        wmiTerms X (normWeights wl) v.2.toNat f g :=
  weightedMi_ok X wl nfs res h

/-! ### channel capacity normalisation -/

/-- entry `(i, j)` is divided by `log (min n_x[i] n_y[j])`, and that minimum is ≥ 2 -/
theorem ccn_entry (rows cols : Nat) (nx ny : Int ⊕ List Int) (g : List (List Int))
    (h : channelCapacityArgs rows cols nx ny = .ok g) :
    g.length = rows ∧ ∀ i, i < rows → ∀ j, j < cols → ∃ a b,
      stateAt nx i = some a ∧ stateAt ny j = some b ∧
      (g[i]?).bind (·[j]?) = some (min a b) ∧ 2 ≤ min a b :=
  ccn_entry_core rows cols nx ny g h

/-- the grid of the code before the `indexing='ij'` fix (numpy's default `'xy'`) is a different grid -/
theorem ccn_xy_grid_counterexample : ¬ (∀ nx ny : List Int, ccnGridXY nx ny = ccnGrid nx ny) := by
  intro h
  have := h [2, 3] [4, 5, 6]
  revert this
  decide

/-! ### relative entropy -/

/-- `kl_divergence(P, Q) ≥ 0` when `Σ Q ≤ Σ P` (in particular for two probability distributions);
the code divides by `log base`, which keeps the sign for `base > 1` -/
theorem kl_nonneg (P Q : List ℚ) (ts : List Term) (h : klTerms P Q = .ok (.terms ts))
    (hsum : ratSum Q ≤ ratSum P) (base : ℝ) (hb : 1 < base) : 0 ≤ termsVal ts / Real.log base :=
  div_nonneg (kl_nonneg_core P Q ts h hsum) (Real.log_nonneg hb.le)

/-- … and it is zero exactly for equal distributions -/
theorem kl_eq_zero_iff (P Q : List ℚ) (ts : List Term) (h : klTerms P Q = .ok (.terms ts))
    (hsum : ratSum Q = ratSum P) (base : ℝ) (hb : 1 < base) :
    termsVal ts / Real.log base = 0 ↔ P = Q := by
  rw [div_eq_zero_iff, kl_eq_zero_iff_core P Q ts h hsum]
  have : Real.log base ≠ 0 := (Real.log_pos hb).ne'
  simp [this]

/-- the `inf` result (some `p > 0` where `q = 0`) only occurs for different distributions -/
theorem kl_inf_only_if_ne (P Q : List ℚ) (h : klTerms P Q = .ok .inf) : P ≠ Q :=
  kl_inf_ne P Q h

/-! ### non-vacuity: concrete instances satisfying the hypotheses -/

/-- 3 frames × 2 features, states `< 2` -/
def exA : Arr := ⟨3, 2, fun t f => match t, f with
  | 0, 0 => 0 | 0, 1 => 1 | 1, 0 => 1 | 1, 1 => 0 | 2, 0 => 1 | 2, 1 => 1 | _, _ => 0⟩
/-- 3 frames × 1 feature, states `< 3` -/
def exB : Arr := ⟨3, 1, fun t _ => match t with | 0 => 0 | 1 => 2 | 2 => 1 | _ => 0⟩

-- jc_exact / jc_guard_sound / jc_guard_iff: the guard accepts, the table is the expected one
example : guard exA exB 2 3 = .ok () := by decide
example : (matrixBincount2d exA exB 2 3).map JC.toLists
    = .ok [[[[1, 0, 0], [0, 1, 1]]], [[[0, 0, 1], [1, 1, 0]]]] := by decide
-- … and the error branches are reachable: too-large id, negative id, different lengths, empty
example : (matrixBincount2d exA exB 2 2).map JC.toLists = .error .assertion := by decide
example : (matrixBincount2d exA (exB.relabel fun _ v => v - 1) 2 3).map JC.toLists = .error .assertion := by decide
example : (matrixBincount2d exA { exB with T := 2 } 2 3).map JC.toLists = .error .assertion := by decide
example : (matrixBincount2d { exA with T := 0 } { exB with T := 0 } 2 3).map JC.toLists = .error .valueError := by decide

-- bincount1_exact / bincount1_guard_sound: first column of `exA` against `exB`; the error branches
example : (bincount2d exA exB 2 3).map Tab2.toLists = .ok [[1, 0, 0], [0, 1, 1]] := by decide
example : (bincount2d exA exB 2 2).map Tab2.toLists = .error .assertion := by decide
example : (bincount2d exA (exB.relabel fun _ v => v - 1) 2 3).map Tab2.toLists = .error .assertion := by decide
example : (bincount2d exA { exB with T := 2 } 2 3).map Tab2.toLists = .error .assertion := by decide
example : (bincount2d { exA with T := 0 } { exB with T := 0 } 2 3).map Tab2.toLists = .ok [[0, 0, 0], [0, 0, 0]] := by
  decide

-- jc_exact_all_dtypes: int8 against uint16, both valid
example : (⟨⟨8, true⟩, exA⟩ : TArr).valid := by
  refine ⟨Or.inl rfl, ?_⟩; decide
example : (⟨⟨16, false⟩, exB⟩ : TArr).valid := by
  refine ⟨Or.inr (Or.inl rfl), ?_⟩; decide
example : (jointCounts ⟨⟨8, true⟩, exA⟩ (some ⟨⟨16, false⟩, exB⟩) (some 2) (some 3)).map JC.toLists
    = .ok [[[[1, 0, 0], [0, 1, 1]]], [[[0, 0, 1], [1, 1, 0]]]] := by decide
-- a negative id in a signed array is rejected before the cast to the unsigned dtype
example : (jointCounts ⟨⟨8, true⟩, exA.relabel fun _ v => v - 1⟩ (some ⟨⟨8, false⟩, exB⟩) (some 300) (some 3)).map
    JC.toLists = .error .dataInvalid := by decide

-- jc_interleaving: a genuinely interleaved execution (cells alternate) is an interleaving
example : IsInterleaving (progs exA exB) (schedule (progs exA exB) [1, 0, 1, 1, 0]) :=
  schedule_isInterleaving _ _
example : (schedule (progs exA exB) [1, 0, 1, 1, 0]).map (·.1) = [1, 0, 1, 1, 0, 0] := by decide
example : (seqExec exA exB).map (·.1) = [0, 0, 0, 1, 1, 1] := by decide

-- jc_additive: same feature counts on both sides
example : ∃ r r', matrixBincount2d exA exB 2 3 = .ok r ∧ matrixBincount2d exA exB 2 3 = .ok r' :=
  let ⟨r, h⟩ := ok_of_guard exA exB 2 3 (by decide); ⟨r, r, h, h⟩

-- jc_perm_frames: reversing three frames
example : ((List.range exA.T).map fun t => 2 - t).Perm (List.range exA.T) := by decide

-- jc_relabel / mi_relabel_invariant: swapping the two states of the first side, a 3-cycle on the second
example : RelabelOn (fun v => 1 - v) 2 :=
  ⟨fun v _ _ => by show 0 ≤ 1 - v ∧ 1 - v < 2; omega, fun v w _ _ _ _ h => by have : 1 - v = 1 - w := h; omega⟩
example : RelabelOn (fun v => (v + 1) % 3) 3 :=
  ⟨fun v _ _ => by show 0 ≤ (v + 1) % 3 ∧ (v + 1) % 3 < 3; omega,
   fun v w _ _ _ _ h => by have : (v + 1) % 3 = (w + 1) % 3 := h; omega⟩

-- mi_symm_self / mi_diag_eq_entropy: a data set against itself
example : guard exA exA 2 2 = .ok () := by decide

-- mi_terms_value / mi_nonneg: a table with dependent features has non-empty term lists
example : miTerms (fun u v => if u = v then 1 else 0) 2 2 = [((1 : ℚ) / 2, 2), ((1 : ℚ) / 2, 2)] := by decide +kernel
-- the all-zero table (no observations) has no terms: the guarded division skips every cell
example : miTerms (fun _ _ => 0) 2 2 = [] := by decide +kernel

-- mi_pooled_counts: two trajectories of different dtypes
example : (miMatrixCounts [(⟨⟨8, true⟩, exA⟩, ⟨⟨16, false⟩, exB⟩), (⟨⟨8, true⟩, exA⟩, ⟨⟨16, false⟩, exB⟩)] 2 3).map
    JC.toLists = .ok [[[[2, 0, 0], [0, 2, 2]]], [[[0, 0, 2], [2, 2, 0]]]] := by decide

-- weighted_uniform_eq_counts / weighted_mi_terms: three frames, weights 1/3 and unnormalised weights 2
example : ∀ t, t < exA.T → 0 ≤ exA.get t 0 ∧ exA.get t 0 < ((2 : ℕ) : ℤ) := by decide
example : (weightedMi exA [1 / 3, 1 / 3, 1 / 3] none).map (·.terms)
    = (weightedMi exA [2, 2, 2] (some [2, 2])).map (·.terms) := by decide +kernel
example : (weightedMi exA [1 / 3, 1 / 3, 1 / 3] none).map (·.states) = .ok [2, 2] := by decide +kernel
example : (weightedMi exA [1 / 3, 1 / 3] none).map (·.states) = .error .dataInvalid := by decide +kernel
example : (weightedMi exA [1 / 3, -1 / 3, 1] none).map (·.states) = .error .assertion := by decide +kernel

-- ccn_entry: different lengths and different state counts on the two sides; scalar broadcast; errors
example : channelCapacityArgs 2 3 (.inr [2, 3]) (.inr [4, 5, 2]) = .ok [[2, 2, 2], [3, 3, 2]] := by decide
example : channelCapacityArgs 2 3 (.inl 4) (.inr [4, 5, 2]) = .ok [[4, 4, 2], [4, 4, 2]] := by decide
example : channelCapacityArgs 2 3 (.inr [2, 3, 4]) (.inr [4, 5, 2]) = .error .dataInvalid := by decide
example : channelCapacityArgs 2 3 (.inr [1, 3]) (.inr [4, 5, 2]) = .error .dataInvalid := by decide

-- kl_nonneg / kl_eq_zero_iff: two distributions with equal sums
example : klTerms [(1 : ℚ) / 2, 1 / 2, 0] [(1 : ℚ) / 4, 1 / 2, 1 / 4]
    = .ok (.terms [((1 : ℚ) / 2, 2), ((1 : ℚ) / 2, 1)]) := by decide +kernel
example : ratSum [(1 : ℚ) / 4, 1 / 2, 1 / 4] = ratSum [(1 : ℚ) / 2, 1 / 2, 0] := by decide +kernel
-- the other branches: `inf` when `p > 0 = q`, negative probability, different lengths
example : klTerms [(1 : ℚ) / 2, 1 / 2] [1, 0] = .ok .inf := by decide +kernel
example : klTerms [(3 : ℚ) / 2, -1 / 2] [1, 0] = .error .dataInvalid := by decide +kernel
example : klTerms [(1 : ℚ)] [1, 0] = .error .runtimeError := by decide +kernel

end C18
