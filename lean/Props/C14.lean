import Proofs.C14Layout
import Proofs.C14Mean
/-!
C14 — MPI-striped clustering and reductions equal their serial counterparts.

Model: `Model/Mpi.lean`.  `w` is the world size; per-rank values are functions of the rank.
Collectives are functions of all ranks' contributions (arrival order is not represented:
that is the MPI contract, trusted).  Hypotheses are the guards the code has: `0 < w`,
`w ≤ number of trajectories` (a rank without data raises), trajectory lengths `> 0` where the
first center matters, tie-free tables for k-centers.
-/
open Ens Ens.Mpi

namespace C14

/-! ## striping -/

/-- The stripes `xs[r::w]`, `r < w`, partition `xs`: putting stripe `r` back at positions
    `r, r+w, …` restores `xs`; the concatenated stripes are a permutation of `xs`; index `i`
    belongs to stripe `i % w` and to no other. -/
theorem stripe_partition {α : Type} (w : Nat) (hw : 0 < w) (xs : List α) :
    unstripe w xs.length (fun r => stripe w xs r) = xs ∧
    ((List.range w).flatMap fun r => stripe w xs r).Perm xs ∧
    (∀ n r i, r < w → (i ∈ stripeIdx w n r ↔ i < n ∧ i % w = r)) ∧
    (∀ r j, (stripe w xs r)[j]? = xs[r + j * w]?) :=
  ⟨unstripe_stripe w hw xs, stripe_perm w hw xs, fun n r i hr => mem_stripeIdx w hw n r i hr,
   fun r j => getElem?_stripe w hw xs r j⟩

example : stripe 3 [10, 11, 12, 13, 14, 15, 16] 1 = [11, 14] := by decide
example : unstripe 3 7 (fun r => stripe 3 [10, 11, 12, 13, 14, 15, 16] r) = [10, 11, 12, 13, 14, 15, 16] := by decide

/-! ## `convert_local_indices` -/

/-- `(rank r, local index i) ↦ g` is correct: whatever global per-frame array `f` is dealt
    round-robin by trajectories, element `i` of rank `r`'s local array is `f g`; and the map is
    a bijection between valid `(rank, local)` pairs and global frames `0 … N-1`. -/
theorem convertLocal_correct {α : Type} (w : Nat) (hw : 0 < w) (L : List Nat) :
    (∀ (f : Nat → α) (r i g : Nat), r < L.length → convertLocal w L (r, i) = .ok g →
      ((stripe w (splitBy L ((List.range L.sum).map f)) r).flatten)[i]? = some (f g)) ∧
    (∀ g, g < L.sum → ∃ (r i : Nat), r < w ∧ (localFrames w L r)[i]? = some g) ∧
    (∀ (r i r' i' g : Nat), r < w → r' < w → (localFrames w L r)[i]? = some g →
      (localFrames w L r')[i']? = some g → r = r' ∧ i = i') ∧
    (∀ (r i g : Nat), r < w → (localFrames w L r)[i]? = some g → g < L.sum) := by
  obtain ⟨h1, h2, h3⟩ := localFrames_bijective w hw L
  refine ⟨?_, h1, h2, h3⟩
  intro f r i g hr h
  rw [localFrames_map, List.getElem?_map, (convertLocal_ok_iff w L r i g hr hw).mp h]
  rfl

example : convertLocalIndices 2 [3, 2, 4] [(0, 5), (1, 1)] = .ok [7, 4] := by decide
example : convertLocalIndices 3 [3, 2] [(2, 0)] = .error .attributeError := by decide

/-! ## `assemble_striped_ragged_array` -/

/-- Reassembling the per-rank pieces (rank `r` holds the concatenation of trajectories
    `r, r+w, …`) of any array laid out by trajectory lengths `L` returns that array, for
    every world size that leaves no rank without a trajectory. -/
theorem assemble_ragged_correct {α : Type} (w : Nat) (hw : 0 < w) (L : List Nat) (hT : w ≤ L.length)
    (xs : List α) (hx : xs.length = L.sum) :
    assembleStripedRagged w L (fun r => (stripe w (splitBy L xs) r).flatten) = .ok xs :=
  assemble_ragged_ok w hw L hT xs hx

/-- the layout that the repaired slice assignment has to handle: rank 0 of 4 owns two
    trajectories, ranks 1 and 2 own two of different length, rank 3 owns one -/
example : assembleStripedRagged 4 [3, 5, 2, 4, 1, 6, 2]
    (fun r => (stripe 4 (splitBy [3, 5, 2, 4, 1, 6, 2] (List.range 23)) r).flatten) = .ok (List.range 23) := by
  decide
example : assembleStripedRagged 3 [3, 2] (fun _ => [0]) = .error .indexError := by decide

/-! ## `striped_array_max` -/

/-- Whenever `striped_array_max` returns, the value is the maximum of the whole array (the
    local arrays concatenated in any order); it returns as soon as no rank is empty. -/
theorem striped_max_eq {α : Type} [LT α] [DecidableRel (α := α) (· < ·)] [StrictTotal α]
    (w : Nat) (hw : 0 < w) (locals : Nat → List α) :
    (∀ (xs : List α) (M : α), xs.Perm ((List.range w).flatMap locals) → stripedMax w locals = .ok M →
      listMax xs = some M ∧ M ∈ xs ∧ ∀ y ∈ xs, ¬ M < y) ∧
    ((∀ r, r < w → locals r ≠ []) → ∃ M, stripedMax w locals = .ok M) := by
  refine ⟨?_, stripedMax_ok w hw locals⟩
  intro xs M hp h
  have := stripedMax_eq_listMax w locals xs hp M h
  exact ⟨this, listMax_spec this⟩

example : stripedMax 2 (fun r => if r = 0 then [3, 9, 4] else [7, 2]) = .ok 9 := by decide
example : stripedMax 2 (fun r => if r = 0 then [3, 9, 4] else ([] : List Nat)) = .error .valueError := by decide

/-! ## `striped_array_mean` -/

/-- full statement: for every non-empty data set the striped mean is the mean of the whole
    array.  FALSE for the code as written (see the counterexample): the function asserts
    `global_sum >= local_sum`, which fails as soon as another rank's values sum to a negative
    number (known finding `striped-mean-negative-local-sum`). -/
def C14_striped_mean_full : Prop :=
  ∀ (w : Nat), 0 < w → ∀ (locals : Nat → List Rat) (xs : List Rat),
    xs.Perm ((List.range w).flatMap locals) → xs ≠ [] →
    stripedMean w locals = .ok (xs.sum / (xs.length : Rat))

/-- proved part: when every local sum is non-negative (the situation of its only caller, the
    mean of squared distances) the striped mean is the mean of the whole array. -/
theorem striped_mean_eq_partial (w : Nat) (hw : 0 < w) (locals : Nat → List Rat) (xs : List Rat)
    (hp : xs.Perm ((List.range w).flatMap locals)) (hne : xs ≠ [])
    (hnn : ∀ r, r < w → 0 ≤ (locals r).sum) :
    stripedMean w locals = .ok (xs.sum / (xs.length : Rat)) :=
  stripedMean_eq w hw locals xs hp hne hnn

theorem striped_mean_counterexample : ¬ C14_striped_mean_full := by
  intro h
  have := h 2 (by decide) (fun r => if r = 0 then [-1] else [-5]) [-1, -5] (by decide) (by decide)
  revert this
  decide +kernel

example : stripedMean 2 (fun r => if r = 0 then [1, 2] else [5]) = .ok (8 / 3) := by decide +kernel

/-! ## `randind` -/

/-- For every vector of local lengths (packed or not, empty ranks allowed) with at least one
    element, the broadcast draw `g ∈ {0 … N-1}` is mapped bijectively onto the elements
    `(owner rank, local index)` of the striped array; a uniform draw is therefore a uniform
    element. -/
theorem randind_bijection (lens : List Nat) (hw : 0 < lens.length) (hN : 1 ≤ lens.sum) :
    (∀ g, g < lens.sum → ∃ (r i l : Nat), randind lens g = .ok (r, i) ∧ lens[r]? = some l ∧ i < l) ∧
    (∀ (g g' : Nat) (p : Nat × Nat), randind lens g = .ok p → randind lens g' = .ok p → g = g') ∧
    (∀ (r i l : Nat), lens[r]? = some l → i < l → ∃ g, g < lens.sum ∧ randind lens g = .ok (r, i)) :=
  randind_bijective lens hw hN

example : (List.range 5).map (randind [2, 0, 3]) = [.ok (0, 0), .ok (2, 0), .ok (2, 2), .ok (0, 1), .ok (2, 1)] := by
  decide
example : randind [0, 0] 0 = .error .dataInvalid := by decide

/-! ## `ctr_ids_mpi` -/

/-- `ctr_ids_mpi` on `(trajectory, frame)` pairs is a right inverse of
    `convert_local_indices`: the pair is sent to a valid rank and local index whose global
    frame id is `offset(trajectory) + frame`. -/
theorem ctrIdsMpi_inverse (w : Nat) (hw : 0 < w) (L : List Nat) (t f l : Nat)
    (ht : L[t]? = some l) (hf : f < l) :
    ∃ p, ctrIdMpi w L (t, f) = .ok p ∧ p.1 < w ∧ convertLocal w L p = .ok ((L.take t).sum + f) :=
  ctrIdMpi_inverse w hw L t f l ht hf

example : ctrIdsMpi 2 [3, 2, 4] [(2, 2), (1, 1)] = .ok [(0, 5), (1, 1)] := by decide

/-- full statement for flat global ids: the code path does what it documents.  FALSE as
    written (known finding `ctr-ids-mpi-flat-ragged`): `np.where` on a `RaggedArray` raises
    as soon as two trajectories differ in length. -/
def C14_ctrIdsMpiFlat_full : Prop :=
  ∀ (w : Nat) (L : List Nat) (cs : List Nat), 0 < w → ctrIdsMpiFlat w L cs = ctrIdsMpiFlatIntended w L cs

theorem ctrIdsMpiFlat_partial (w : Nat) (L : List Nat) (cs : List Nat)
    (heq : L.all (fun l => l = L.headD 0) = true) :
    ctrIdsMpiFlat w L cs = ctrIdsMpiFlatIntended w L cs := by
  unfold ctrIdsMpiFlat ctrIdsMpiFlatIntended
  rw [if_pos heq]

theorem ctrIdsMpiFlat_counterexample : ¬ C14_ctrIdsMpiFlat_full := by
  intro h
  have := h 2 [3, 2] [0] (by decide)
  revert this
  decide

/-! ## striped loading -/

/-- `load_h5_as_striped` / `load_npy_as_striped` without subsampling: every key / file is
    loaded by exactly one rank (`t % w`), each rank holds the concatenation of its rows, the
    returned global lengths are the row lengths, and the reassembly routine applied to what
    the ranks hold gives back the whole data set. -/
theorem load_stripes_cover {β : Type} (w : Nat) (hw : 0 < w) (rows : List (List β)) (hT : w ≤ rows.length) :
    (∀ r, r < w → loadStriped w rows 1 r = .ok (rows.map List.length, (stripe w rows r).flatten)) ∧
    (∀ r, r < w → loadNpyStriped w rows 1 r = .ok (rows.map List.length, (stripe w rows r).flatten)) ∧
    (∀ t r, r < w → (t ∈ stripeIdx w rows.length r ↔ t < rows.length ∧ t % w = r)) ∧
    assembleStripedRagged w (rows.map List.length) (fun r => (stripe w rows r).flatten) = .ok rows.flatten := by
  have hone : ∀ (row : List β), everyNth 1 row = row := by
    intro row
    unfold everyNth
    induction row with
    | nil => rfl
    | cons a l ih => simp only [stripe]; rw [ih]
  have hmap : ∀ r, (stripe w rows r).map (everyNth 1) = stripe w rows r := by
    intro r
    rw [List.map_congr_left (fun a _ => hone a), List.map_id']
  have hne : ∀ r, r < w → (stripe w rows r).isEmpty = false := by
    intro r hr
    have := length_stripe_pos w hw rows r (by omega)
    cases h : stripe w rows r with
    | nil => rw [h] at this; simp at this
    | cons a l => rfl
  refine ⟨?_, ?_, fun t r hr => mem_stripeIdx w hw rows.length r t hr, ?_⟩
  · intro r hr
    unfold loadStriped
    simp only [hne r hr, hmap r]
    rfl
  · intro r hr
    unfold loadNpyStriped
    simp only [hne r hr, hmap r, List.length_flatten]
    rfl
  · have h := assemble_ragged_ok w hw (rows.map List.length) (by simpa using hT) rows.flatten
      (by simp [List.length_flatten])
    rw [splitBy_lengths_flatten] at h
    exact h

/-- full statement with subsampling: the returned global lengths describe the loaded
    (strided) rows.  FALSE as written (known findings `load-h5-striped-stride-lengths`,
    `load-npy-striped-stride`): the unstrided lengths are returned / asserted. -/
def C14_load_stride_full : Prop :=
  ∀ {β : Type} (w : Nat) (rows : List (List β)) (s r : Nat), 0 < w → 0 < s → r < w → w ≤ rows.length →
    loadStriped w rows s r = .ok (rows.map (fun row => (everyNth s row).length),
                                  ((stripe w rows r).map (everyNth s)).flatten) ∧
    loadNpyStriped w rows s r = loadStriped w rows s r

theorem load_stride_counterexample : ¬ C14_load_stride_full := by
  intro h
  have := (h (β := Nat) 1 [[1, 2, 3]] 2 0 (by decide) (by decide) (by decide) (by decide)).1
  revert this
  decide

/-! ## distributed k-centers -/

/-- For every world size `w ≥ 1`, every vector of positive trajectory lengths with at least
    `w` trajectories, every tie-free table and every cutoff `≥ 0`: distributed k-centers on the
    round-robin layout, followed by the library's reassembly (`convert_local_indices` for the
    centers, `assemble_striped_ragged_array` for distances and labels), yields exactly the
    serial k-centers result on the concatenated data — or both runs exhaust the same fuel.
    By induction on the iterations (`Proofs/C14Kcenters.lean`). -/
theorem mpi_kcenters_refines_serial {α : Type} [LT α] [DecidableRel (α := α) (· < ·)] [StrictTotal α]
    (w : Nat) (hw : 0 < w) (L : List Nat) (hT : w ≤ L.length) (hpos : ∀ l ∈ L, 0 < l)
    (D : Nat → Nat → α) (zero top : α) (ht : TieFree L.sum D zero top)
    (k : Option Nat) (cutoff : α) (hcut : ¬ cutoff < zero) (fuel : Nat) :
    (∃ ms ss, mpiKcenters (stripeLayout w L) D top k cutoff fuel = .ok ms ∧
        serialKcenters L.sum D top k cutoff fuel = .ok ss ∧
        convertLocalIndices w L ms.ctrs = .ok ss.ctrs ∧
        assembleStripedRagged w L (fun r => tabulate ((stripeLayout w L).m r) (ms.dist r)) =
          .ok (tabulate L.sum ss.dist) ∧
        assembleStripedRagged w L (fun r => tabulate ((stripeLayout w L).m r) (ms.assign r)) =
          .ok (tabulate L.sum ss.assign)) ∨
    (mpiKcenters (stripeLayout w L) D top k cutoff fuel = .error .fuel ∧
        serialKcenters L.sum D top k cutoff fuel = .error .fuel) := by
  have hN : 0 < L.sum := by
    have h0 : 0 < L.length := by omega
    have := hpos _ (List.getElem_mem h0)
    have hle := sum_take_add_le L 0 L[0] (List.getElem?_eq_getElem h0)
    omega
  have hb := stripeLayout_bij w hw L hT hpos
  rcases kcenters_refines (stripeLayout w L) L.sum hN hb D zero top ht k cutoff hcut fuel with
    ⟨ms, ss, h1, h2, hr⟩ | h
  · refine Or.inl ⟨ms, ss, h1, h2, ?_, ?_, ?_⟩
    · rw [convert_of_valid w hw L hT ms.ctrs hr.valid, hr.ctrs]
    · exact assemble_of_rel w hw L hT ss.dist ms.dist hr.dist
    · exact assemble_of_rel w hw L hT ss.assign ms.assign hr.assign
  · exact Or.inr h

/-- a concrete tie-free instance: 3 ranks, trajectories of lengths 2,1,1,2 (frames 0…5),
    `D a b = 2^max(a,b) + min(a,b)` off the diagonal (all values distinct), 3 centers -/
def exD (a b : Nat) : Nat := if a = b then 0 else 2 ^ (max a b) + min a b

-- the hypotheses of `mpi_kcenters_refines_serial` are satisfiable
example : TieFree 6 exD 0 1000 := by
  constructor
  · decide
  · exact fun g c hg hc => (by decide : ∀ g, g < 6 → ∀ c, c < 6 → g ≠ c → 0 < exD g c) g hg c hc
  · exact fun g c hg hc => (by decide : ∀ g, g < 6 → ∀ c, c < 6 → exD g c < 1000) g hg c hc
  · intro a b c d ha hb hc hd hab hcd he
    have h := (by decide +kernel : ∀ a ∈ List.range 6, ∀ b ∈ List.range 6, ∀ c ∈ List.range 6,
        ∀ d ∈ List.range 6, (a = b ∨ c = d ∨ exD a b ≠ exD c d ∨ (a = c ∧ b = d) ∨ (a = d ∧ b = c)))
      a (List.mem_range.mpr ha) b (List.mem_range.mpr hb) c (List.mem_range.mpr hc) d (List.mem_range.mpr hd)
    rcases h with h | h | h | h
    · exact absurd h hab
    · exact absurd h hcd
    · exact absurd he h
    · exact h
example : ∀ l ∈ [2, 1, 1, 2], 0 < l := by decide

example : (mpiKcenters (stripeLayout 3 [2, 1, 1, 2]) exD 1000 (some 3) 0 4).toOption.map (·.ctrs) =
    some [(0, 0), (0, 3), (0, 2)] := by decide +kernel
example : (serialKcenters 6 exD 1000 (some 3) 0 4).toOption.map (·.ctrs) = some [0, 5, 4] := by decide +kernel
example : convertLocalIndices 3 [2, 1, 1, 2] [(0, 0), (0, 3), (0, 2)] = .ok [0, 5, 4] := by decide

/-- tie-freeness is needed: with `D 0 1 = D 0 2` the gathered argmax takes the first RANK
    attaining the maximum (rank 0 holds frame 2), the serial argmax the first FRAME (1) -/
def tieD (a b : Nat) : Nat := if a = b then 0 else if a + b = 3 then 1 else 5

theorem mpi_kcenters_tie_counterexample :
    (mpiKcenters (stripeLayout 2 [1, 1, 1]) tieD 1000 (some 2) 0 3).toOption.map
        (fun s => convertLocalIndices 2 [1, 1, 1] s.ctrs) = some (.ok [0, 2]) ∧
    (serialKcenters 3 tieD 1000 (some 2) 0 3).toOption.map (·.ctrs) = some [0, 1] := by
  decide

end C14
