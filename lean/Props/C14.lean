import Proofs.C14Layout
import Proofs.C14Mean
import Proofs.C14PamRun
import Proofs.C01Examples
import Proofs.C14Compose
import Props.C01
/-!
C14 — MPI-striped clustering and reductions equal their serial counterparts.

Model: `Model/Mpi.lean`.  `w` is the world size; per-rank values are functions of the rank.
Collectives are functions of all ranks' contributions (arrival order is not represented:
that is the MPI contract, trusted).  Hypotheses are the guards the code has: `0 < w`,
`w ≤ number of trajectories` (a rank without data raises), trajectory lengths `> 0` where the
first center matters, tie-free tables for k-centers.
-/
open Ens Ens.Mpi

namespace C14

/-! ## striping -/

/-- The stripes `xs[r::w]`, `r < w`, partition `xs`: putting stripe `r` back at positions
    `r, r+w, …` restores `xs`; the concatenated stripes are a permutation of `xs`; index `i`
    belongs to stripe `i % w` and to no other. -/
theorem stripe_partition {α : Type} (w : Nat) (hw : 0 < w) (xs : List α) :
    unstripe w xs.length (fun r => stripe w xs r) = xs ∧
    ((List.range w).flatMap fun r => stripe w xs r).Perm xs ∧
    (∀ n r i, r < w → (i ∈ stripeIdx w n r ↔ i < n ∧ i % w = r)) ∧
    (∀ r j, (stripe w xs r)[j]? = xs[r + j * w]?) :=
  ⟨unstripe_stripe w hw xs, stripe_perm w hw xs, fun n r i hr => mem_stripeIdx w hw n r i hr,
   fun r j => getElem?_stripe w hw xs r j⟩

example : stripe 3 [10, 11, 12, 13, 14, 15, 16] 1 = [11, 14] := by decide
example : unstripe 3 7 (fun r => stripe 3 [10, 11, 12, 13, 14, 15, 16] r) = [10, 11, 12, 13, 14, 15, 16] := by decide

/-! ## `convert_local_indices` -/

/-- `(rank r, local index i) ↦ g` is correct: whatever global per-frame array `f` is dealt
    round-robin by trajectories, element `i` of rank `r`'s local array is `f g`; and the map is
    a bijection between valid `(rank, local)` pairs and global frames `0 … N-1`. -/
theorem convertLocal_correct {α : Type} (w : Nat) (hw : 0 < w) (L : List Nat) :
    (∀ (f : Nat → α) (r i g : Nat), r < L.length → convertLocal w L (r, i) = .ok g →
      ((stripe w (splitBy L ((List.range L.sum).map f)) r).flatten)[i]? = some (f g)) ∧
    (∀ g, g < L.sum → ∃ (r i : Nat), r < w ∧ (localFrames w L r)[i]? = some g) ∧
    (∀ (r i r' i' g : Nat), r < w → r' < w → (localFrames w L r)[i]? = some g →
      (localFrames w L r')[i']? = some g → r = r' ∧ i = i') ∧
    (∀ (r i g : Nat), r < w → (localFrames w L r)[i]? = some g → g < L.sum) := by
  obtain ⟨h1, h2, h3⟩ := localFrames_bijective w hw L
  refine ⟨?_, h1, h2, h3⟩
  intro f r i g hr h
  rw [localFrames_map, List.getElem?_map, (convertLocal_ok_iff w L r i g hr hw).mp h]
  rfl

example : convertLocalIndices 2 [3, 2, 4] [(0, 5), (1, 1)] = .ok [7, 4] := by decide
example : convertLocalIndices 3 [3, 2] [(2, 0)] = .error .attributeError := by decide

/-! ## `assemble_striped_ragged_array` -/

/-- Reassembling the per-rank pieces (rank `r` holds the concatenation of trajectories
    `r, r+w, …`) of any array laid out by trajectory lengths `L` returns that array, for
    every world size that leaves no rank without a trajectory. -/
theorem assemble_ragged_correct {α : Type} (w : Nat) (hw : 0 < w) (L : List Nat) (hT : w ≤ L.length)
    (xs : List α) (hx : xs.length = L.sum) :
    assembleStripedRagged w L (fun r => (stripe w (splitBy L xs) r).flatten) = .ok xs :=
  assemble_ragged_ok w hw L hT xs hx

/-- the layout that the repaired slice assignment has to handle: rank 0 of 4 owns two
    trajectories, ranks 1 and 2 own two of different length, rank 3 owns one -/
example : assembleStripedRagged 4 [3, 5, 2, 4, 1, 6, 2]
    (fun r => (stripe 4 (splitBy [3, 5, 2, 4, 1, 6, 2] (List.range 23)) r).flatten) = .ok (List.range 23) := by
  decide
example : assembleStripedRagged 3 [3, 2] (fun _ => [0]) = .error .indexError := by decide

/-! ## `assemble_striped_array` (striped gather) -/

/-- "Striped gathers": for every world size `w ≥ 1` and every array of positive integers (the
    trajectory lengths it is used for), gathering the stripes `xs[r::w]` returns `xs` on every
    rank (the model's result is the value every rank receives); with more than one rank a
    non-positive entry raises ImproperlyConfigured, as the code does. -/
theorem assemble_striped_array_correct (w : Nat) (hw : 0 < w) (xs : List Int) :
    ((∀ x ∈ xs, 0 < x) → assembleStripedArray w (fun r => stripe w xs r) = .ok xs) ∧
    (w ≠ 1 → (∃ x ∈ xs, x ≤ 0) →
      assembleStripedArray w (fun r => stripe w xs r) = .error .improperlyConfigured) :=
  assembleStripedArray_stripes w hw xs

example : assembleStripedArray 3 (fun r => stripe 3 [4, 1, 7, 2, 9, 3, 5] r) = .ok [4, 1, 7, 2, 9, 3, 5] := by decide
example : assembleStripedArray 3 (fun r => stripe 3 [4, 1, 0, 2] r) = .error .improperlyConfigured := by decide
-- a layout that is not packed cannot be gathered (numpy refuses the assignment)
example : assembleStripedArray 2 (fun r => if r = 0 then [1, 2, 3] else [4]) = .error .valueError := by decide

/-! ## `striped_array_max` -/

/-- Whenever `striped_array_max` returns, the value is the maximum of the whole array (the
    local arrays concatenated in any order); it returns as soon as no rank is empty. -/
theorem striped_max_eq {α : Type} [LT α] [DecidableRel (α := α) (· < ·)] [StrictTotal α]
    (w : Nat) (hw : 0 < w) (locals : Nat → List α) :
    (∀ (xs : List α) (M : α), xs.Perm ((List.range w).flatMap locals) → stripedMax w locals = .ok M →
      listMax xs = some M ∧ M ∈ xs ∧ ∀ y ∈ xs, ¬ M < y) ∧
    ((∀ r, r < w → locals r ≠ []) → ∃ M, stripedMax w locals = .ok M) := by
  refine ⟨?_, stripedMax_ok w hw locals⟩
  intro xs M hp h
  have := stripedMax_eq_listMax w locals xs hp M h
  exact ⟨this, listMax_spec this⟩

example : stripedMax 2 (fun r => if r = 0 then [3, 9, 4] else [7, 2]) = .ok 9 := by decide
example : stripedMax 2 (fun r => if r = 0 then [3, 9, 4] else ([] : List Nat)) = .error .valueError := by decide

/-! ## `striped_array_mean` -/

/-- For every world size and every non-empty data set (any signs), the striped mean is the
    mean of the whole array, in whatever order the local arrays are concatenated; an empty
    striped array has no mean (`nan`). -/
theorem striped_mean_eq (w : Nat) (hw : 0 < w) (locals : Nat → List Rat) :
    (∀ xs : List Rat, xs.Perm ((List.range w).flatMap locals) → xs ≠ [] →
      stripedMean w locals = .ok (xs.sum / (xs.length : Rat))) ∧
    ((∀ r, r < w → locals r = []) → stripedMean w locals = .error .nan) :=
  ⟨fun xs hp hne => stripedMean_eq w hw locals xs hp hne, stripedMean_empty w hw locals⟩

example : stripedMean 2 (fun r => if r = 0 then [1, 2] else [5]) = .ok (8 / 3) := by decide +kernel
example : stripedMean 2 (fun r => if r = 0 then [-1] else [-5]) = .ok (-3) := by decide +kernel

/-! ## `randind` -/

/-- For every vector of local lengths (packed or not, empty ranks allowed) with at least one
    element, the broadcast draw `g ∈ {0 … N-1}` is mapped bijectively onto the elements
    `(owner rank, local index)` of the striped array; a uniform draw is therefore a uniform
    element. -/
theorem randind_bijection (lens : List Nat) (hw : 0 < lens.length) (hN : 1 ≤ lens.sum) :
    (∀ g, g < lens.sum → ∃ (r i l : Nat), randind lens g = .ok (r, i) ∧ lens[r]? = some l ∧ i < l) ∧
    (∀ (g g' : Nat) (p : Nat × Nat), randind lens g = .ok p → randind lens g' = .ok p → g = g') ∧
    (∀ (r i l : Nat), lens[r]? = some l → i < l → ∃ g, g < lens.sum ∧ randind lens g = .ok (r, i)) :=
  randind_bijective lens hw hN

example : (List.range 5).map (randind [2, 0, 3]) = [.ok (0, 0), .ok (2, 0), .ok (2, 2), .ok (0, 1), .ok (2, 1)] := by
  decide
example : randind [0, 0] 0 = .error .dataInvalid := by decide

/-! ## `ctr_ids_mpi` -/

/-- `ctr_ids_mpi` on `(trajectory, frame)` pairs is a right inverse of
    `convert_local_indices`: the pair is sent to a valid rank and local index whose global
    frame id is `offset(trajectory) + frame`. -/
theorem ctrIdsMpi_inverse (w : Nat) (hw : 0 < w) (L : List Nat) (t f l : Nat)
    (ht : L[t]? = some l) (hf : f < l) :
    ∃ p, ctrIdMpi w L (t, f) = .ok p ∧ p.1 < w ∧ convertLocal w L p = .ok ((L.take t).sum + f) :=
  ctrIdMpi_inverse w hw L t f l ht hf

example : ctrIdsMpi 2 [3, 2, 4] [(2, 2), (1, 1)] = .ok [(0, 5), (1, 1)] := by decide

/-- the same for flat global frame ids (the `ra.where` path): id `g` is sent to the
    `(rank, local index)` that `convert_local_indices` maps back to `g`. -/
theorem ctrIdsMpiFlat_inverse (w : Nat) (hw : 0 < w) (L : List Nat) (g : Nat) (hg : g < L.sum) :
    ∃ p, ctrIdsMpiFlat w L [g] = .ok [p] ∧ p.1 < w ∧ convertLocal w L p = .ok g :=
  ctrIdMpi_flat_inverse w hw L g hg

example : ctrIdsMpiFlat 2 [3, 2, 4] [7, 4] = .ok [(0, 5), (1, 1)] := by decide
example : ctrIdsMpiFlat 2 [3, 2, 4] [9] = .error .indexError := by decide

/-! ## k-medoids under MPI: inputs and cost -/

/-- full statement: k-medoids under MPI can start from scratch (as the serial code can) or
    from a warm start.  FALSE for the code as written (known finding
    `kmedoids-mpi-cold-start`): the cold-start branch raises before computing anything. -/
def C14_kmedoids_inputs_full : Prop :=
  ∀ (w : Nat) (L : List Nat) (warm : Option (List (Nat × Nat))), 0 < w →
    (∀ ps, warm = some ps → ∀ p ∈ ps, ∃ l, L[p.1]? = some l ∧ p.2 < l) →
    ∃ cs, kmedoidsInputsMpi w L warm = .ok cs

/-- proved part: a warm start with ANY list of valid `(trajectory, frame)` centers is converted,
    center by center, to `(rank, local index)` centers that `convert_local_indices` maps back to
    the same global frames `offset(trajectory) + frame` -/
theorem kmedoids_inputs_partial (w : Nat) (hw : 0 < w) (L : List Nat) (ps : List (Nat × Nat))
    (hv : ∀ p ∈ ps, ∃ l, L[p.1]? = some l ∧ p.2 < l) :
    ∃ qs, kmedoidsInputsMpi w L (some ps) = .ok qs ∧
      List.Forall₂ (fun p q => q.1 < w ∧ convertLocal w L q = .ok ((L.take p.1).sum + p.2)) ps qs := by
  unfold kmedoidsInputsMpi ctrIdsMpi
  induction ps with
  | nil => exact ⟨[], rfl, List.Forall₂.nil⟩
  | cons p ps ih =>
    obtain ⟨l, hl, hf⟩ := hv p List.mem_cons_self
    obtain ⟨q, hq, hqw, hc⟩ := ctrIdMpi_inverse w hw L p.1 p.2 l hl hf
    obtain ⟨qs, hqs, hall⟩ := ih (fun x hx => hv x (List.mem_cons_of_mem _ hx))
    refine ⟨q :: qs, ?_, List.Forall₂.cons ⟨hqw, hc⟩ hall⟩
    simp only at hqs ⊢
    rw [List.mapM_cons, hq, hqs]
    rfl

theorem kmedoids_inputs_counterexample : ¬ C14_kmedoids_inputs_full := by
  intro h
  obtain ⟨cs, hcs⟩ := h 2 [3, 2] none (by decide) (by intro ps hps; cases hps)
  revert hcs
  simp [kmedoidsInputsMpi]

/-- the distributed PAM step is the serial step's per-frame computation on every rank plus
    ONE collective quantity, the cost `_msq` = `striped_array_mean` of the squared distances
    (proposal = `randind` + `bcast`, medoid frames = `distribute_frame`, both above).  This is
    the cost part: on the round-robin layout the distributed cost of any per-frame array `f`
    equals the serial mean over the concatenated data.  (The distributed sweep itself is
    modelled in `Model/MpiPam.lean`; `mpi_pam_refines_serial`, `mpi_pam_consistent` and
    `mpi_pam_cost_antitone` below build on this cost lemma.) -/
theorem mpi_pam_cost_eq (w : Nat) (hw : 0 < w) (L : List Nat) (hN : 0 < L.sum) (f : Nat → Rat) :
    stripedMean w (fun r => (localFrames w L r).map f) =
      .ok (((List.range L.sum).map f).sum / (((List.range L.sum).map f).length : Rat)) := by
  apply stripedMean_eq w hw
  · have h := (localFrames_perm w hw L).map f
    rw [List.map_flatMap] at h
    exact h.symm
  · intro h
    have := congrArg List.length h
    simp at this
    omega

/-! ## distributed k-medoids (PAM): refinement of the serial sweep, consistency, cost

Model: `Model/MpiPam.lean` (every rank runs the serial per-frame update of `Model/Cluster.lean`
on its local arrays against the broadcast proposal frame; cost = striped mean; one common
accept/reject decision).  `Striped lay ms ss` (Proofs/C14PamStep.lean): the distributed state `ms`
is the serial state `ss` dealt to the ranks.  `ReassemblesTo w L ms ss` (Proofs/C14PamRun.lean):
`assemble_striped_ragged_array` / `convert_local_indices` applied to `ms` return exactly `ss`.
No tie-freeness is needed: PAM has no arg-max, every rank decides from the same global cost. -/
section Pam
open Ens.Cluster Ens.MpiPam

/-- **One distributed PAM step = the serial step on the concatenated data.**  For every world
    size `w ≥ 1`, every vector of positive trajectory lengths with at least `w` trajectories,
    every table, every center number and every proposal `(rank, local index)` that is a frame
    of its owner: the proposal's global frame is what `convert_local_indices` returns, and
    either both steps succeed — same old and new cost, same accept/reject decision, and the
    distributed result reassembles exactly to the serial result — or both trip the assert. -/
theorem mpi_pam_step_refines_serial (w : Nat) (hw : 0 < w) (L : List Nat) (hT : w ≤ L.length)
    (hpos : ∀ l ∈ L, 0 < l) (D : Table) (ms : PState) (ss : St)
    (hr : Striped (stripeLayout w L) ms ss) (cid : Nat) (p : Nat × Nat)
    (hp1 : p.1 < w) (hp2 : p.2 < (stripeLayout w L).m p.1) :
    ∃ g, convertLocalIndices w L [p] = .ok [g] ∧
      ((∃ mst sst, mpiPamStep (stripeLayout w L) D ms cid p = .ok mst ∧ pamStep D L.sum ss cid g = .ok sst ∧
          mst.y = g ∧ mst.oldCost = sst.oldCost ∧ mst.newCost = sst.newCost ∧ mst.acc = sst.acc ∧
          ReassemblesTo w L mst.after sst.after) ∨
       (mpiPamStep (stripeLayout w L) D ms cid p = .error (.mpi .assertion) ∧
          pamStep D L.sum ss cid g = .error .assertion)) := by
  have hb := stripeLayout_bij w hw L hT hpos
  have hm := meanOK_stripeLayout w hw L (sum_pos_of w hw L hT hpos)
  refine ⟨(stripeLayout w L).X p.1 p.2, ?_, ?_⟩
  · rw [convert_of_valid w hw L hT [p] (by simpa using ⟨hp1, hp2⟩)]; rfl
  · rcases step_refines hb hm D hr cid hp1 hp2 with ⟨mst, sst, g1, g2, _, _, g5, g6, g7, g8, g9⟩ | h
    · exact Or.inl ⟨mst, sst, g1, g2, g5, g6, g7, g8, reassemblesTo_of_striped w hw L hT g9⟩
    · exact Or.inr h

/-- **One distributed sweep (`_kmedoids_pam_update` in MPI mode) refines the serial sweep**, for
    explicit proposals or random ones drawn through `randind` from any oracle: whenever the
    distributed sweep returns, the serial sweep on the concatenated data, handed the global
    frames of the proposals the ranks used, returns too; step by step the costs and the
    accept/reject decisions coincide, and the distributed result reassembles exactly to the
    serial result. -/
theorem mpi_pam_refines_serial (w : Nat) (hw : 0 < w) (L : List Nat) (hT : w ≤ L.length)
    (hpos : ∀ l ∈ L, 0 < l) (D : Table) (ms : PState) (ss : St)
    (hr : Striped (stripeLayout w L) ms ss) (props : Option (List (Nat × Nat))) (orc orc' : List Nat)
    (ms' : PState) (tr : List MStep)
    (h : mpiPamUpdate (stripeLayout w L) D ms props orc = .ok (ms', orc', tr)) :
    ∃ ss' tr', pamUpdate D L.sum ss (some (tr.map (·.y))) [] = .ok (ss', [], tr') ∧
      ReassemblesTo w L ms' ss' ∧ Striped (stripeLayout w L) ms' ss' ∧
      tr.map (·.acc) = tr'.map (·.acc) ∧ tr.map (·.oldCost) = tr'.map (·.oldCost) ∧
      tr.map (·.newCost) = tr'.map (·.newCost) ∧
      (∀ st ∈ tr, convertLocalIndices w L [st.p] = .ok [st.y]) := by
  have hb := stripeLayout_bij w hw L hT hpos
  have hm := meanOK_stripeLayout w hw L (sum_pos_of w hw L hT hpos)
  obtain ⟨ss', tr', k1, k2, k3⟩ := update_refines hb hm D hr h
  refine ⟨ss', tr', k1, reassemblesTo_of_striped w hw L hT k2, k2, ?_, ?_, ?_, ?_⟩
  · exact forall₂_map_eq k3 _ _ fun a b hab => hab.2.2.2.2.1
  · exact forall₂_map_eq k3 _ _ fun a b hab => hab.2.2.1
  · exact forall₂_map_eq k3 _ _ fun a b hab => hab.2.2.2.1
  · intro st hst
    obtain ⟨v1, v2, hy⟩ := update_trace_valid hb hr h st hst
    rw [convert_of_valid w hw L hT [st.p] (by simpa using ⟨v1, v2⟩), hy]; rfl

/-- **Distributed k-medoids with explicit `(rank, index)` proposals = serial k-medoids with the
    proposals' global frames**, for any number of sweeps (`_kmedoids_iterations`): the global
    frames are what `convert_local_indices` returns for the proposals; the serial run on the
    concatenated data returns whenever the distributed one does; the final states and the states
    after every sweep reassemble exactly to the serial ones; all accept/reject decisions agree. -/
theorem mpi_kmedoids_refines_serial (w : Nat) (hw : 0 < w) (L : List Nat) (hT : w ≤ L.length)
    (hpos : ∀ l ∈ L, 0 < l) (D : Table) (ms : PState) (ss : St)
    (hr : Striped (stripeLayout w L) ms ss) (nIters : Nat) (ps : List (Nat × Nat))
    (hv : ∀ p ∈ ps, p.1 < w ∧ p.2 < (stripeLayout w L).m p.1) (orc : List Nat) (r : MRun)
    (h : mpiKmedoidsIterations (stripeLayout w L) D nIters ms (some ps) orc = .ok r) :
    ∃ gs sr, convertLocalIndices w L ps = .ok gs ∧
      kmedoidsIterations D L.sum nIters ss (some gs) [] = .ok sr ∧
      ReassemblesTo w L r.final sr.final ∧
      List.Forall₂ (ReassemblesTo w L) r.sweeps sr.sweeps ∧
      r.trace.map (·.acc) = sr.trace.map (·.acc) := by
  have hb := stripeLayout_bij w hw L hT hpos
  have hm := meanOK_stripeLayout w hw L (sum_pos_of w hw L hT hpos)
  obtain ⟨k, rfl, hsw⟩ := iterations_ok h
  obtain ⟨sr, j1, j2, j3, j4⟩ := sweeps_refines_explicit hb hm D ps (k+1) hr hsw
  refine ⟨_, sr, convert_of_valid w hw L hT ps hv, ?_, reassemblesTo_of_striped w hw L hT j2, ?_,
    forall₂_map_eq j3 _ _ fun a b hab => hab.2.2.2.2.1⟩
  · unfold kmedoidsIterations
    simp only [Nat.succ_ne_zero, if_false]
    exact j1
  · exact List.Forall₂.imp (fun a b hab => reassemblesTo_of_striped w hw L hT hab) j4

/-- **The distributed k-medoids stage keeps the clustering consistent** (C01's predicate), for
    every world size, every striping, every table of distinct points, any number of sweeps and
    any source of proposals (explicit pairs, or `randind` draws from any oracle): if the start
    is the striped view of a consistent state, the library's reassembly of the final
    distributed state — and of the state after every sweep — succeeds and is consistent. -/
theorem mpi_pam_consistent (w : Nat) (hw : 0 < w) (L : List Nat) (hT : w ≤ L.length)
    (hpos : ∀ l ∈ L, 0 < l) (D : Table) (T : TableOK D L.sum) (ms : PState) (ss : St)
    (hr : Striped (stripeLayout w L) ms ss) (hs : Consistent D L.sum ss) (nIters : Nat)
    (props : Option (List (Nat × Nat))) (orc : List Nat) (r : MRun)
    (h : mpiKmedoidsIterations (stripeLayout w L) D nIters ms props orc = .ok r) :
    ∀ x ∈ r.final :: r.sweeps, ∃ rs, reassemble w L x = .ok rs ∧ Consistent D L.sum rs ∧
      rs.ctrInds.length = ss.ctrInds.length := by
  have hb := stripeLayout_bij w hw L hT hpos
  have hm := meanOK_stripeLayout w hw L (sum_pos_of w hw L hT hpos)
  obtain ⟨k, rfl, hsw⟩ := iterations_ok h
  obtain ⟨ss', cs, i1, i2, _, _, _, i6⟩ := sweeps_inv hb hm D props (k+1) hr hsw
  obtain ⟨c1, c2⟩ := i6 T hs
  intro x hx
  rcases List.mem_cons.mp hx with rfl | hx'
  · obtain ⟨rs, e1, e2, e3⟩ := reassembled_consistent w hw L hT i1 c1
    exact ⟨rs, e1, e2, by rw [e3, i2]⟩
  · obtain ⟨sx, sx1, sx2, sx3⟩ := c2 x hx'
    obtain ⟨rs, e1, e2, e3⟩ := reassembled_consistent w hw L hT sx1 sx2
    exact ⟨rs, e1, e2, by rw [e3, sx3]⟩

/-- **The distributed k-medoids stage never raises the cost**: along the whole accept/reject
    history of all sweeps the global cost (`striped_array_mean` of the squared local distances)
    is defined, never increases, and the result's cost is the minimum of the history — from
    any striped start (consistent or not), any proposals. -/
theorem mpi_pam_cost_antitone (w : Nat) (hw : 0 < w) (L : List Nat) (hT : w ≤ L.length)
    (hpos : ∀ l ∈ L, 0 < l) (D : Table) (ms : PState) (ss : St)
    (hr : Striped (stripeLayout w L) ms ss) (nIters : Nat)
    (props : Option (List (Nat × Nat))) (orc : List Nat) (r : MRun)
    (h : mpiKmedoidsIterations (stripeLayout w L) D nIters ms props orc = .ok r) :
    ∃ (c0 c1 : Rat) (cs : List Rat),
      mpiCost (stripeLayout w L) ms.arr = .ok c0 ∧ c0 = cost L.sum ss.arr.dist ∧
      mpiCost (stripeLayout w L) r.final.arr = .ok c1 ∧
      costsAfter (stripeLayout w L) r.trace = cs.map .ok ∧
      (c0 :: cs).Pairwise (fun x y => y ≤ x) ∧ (∀ x ∈ c0 :: cs, c1 ≤ x) := by
  have hb := stripeLayout_bij w hw L hT hpos
  have hm := meanOK_stripeLayout w hw L (sum_pos_of w hw L hT hpos)
  obtain ⟨k, rfl, hsw⟩ := iterations_ok h
  obtain ⟨ss', cs, i1, _, i3, i4, i5, _⟩ := sweeps_inv hb hm D props (k+1) hr hsw
  exact ⟨_, _, cs, mpiCost_eq hb hm _ _ hr.dist, rfl, mpiCost_eq hb hm _ _ i1.dist, i3, i4, i5⟩

/-- …and from the striped view of a consistent state, with one valid explicit proposal per
    center, the distributed sweeps always run through (no assert trips, no rank raises): the
    hypotheses `= .ok r` above are never vacuous -/
theorem mpi_pam_total (w : Nat) (hw : 0 < w) (L : List Nat) (hT : w ≤ L.length)
    (hpos : ∀ l ∈ L, 0 < l) (D : Table) (T : TableOK D L.sum) (ms : PState) (ss : St)
    (hr : Striped (stripeLayout w L) ms ss) (hs : Consistent D L.sum ss) (nIters : Nat) (hi : 0 < nIters)
    (ps : List (Nat × Nat)) (hl : ps.length = ms.ctrs.length)
    (hv : ∀ p ∈ ps, p.1 < w ∧ p.2 < (stripeLayout w L).m p.1) (orc : List Nat) :
    ∃ r, mpiKmedoidsIterations (stripeLayout w L) D nIters ms (some ps) orc = .ok r := by
  have hb := stripeLayout_bij w hw L hT hpos
  have hm := meanOK_stripeLayout w hw L (sum_pos_of w hw L hT hpos)
  unfold mpiKmedoidsIterations
  simp only [Nat.pos_iff_ne_zero.mp hi, if_false]
  exact sweeps_total hb hm T hv nIters orc hr hs hl

/-- **The pipeline composes (`hybrid(mpi_mode=True)`): distributed k-centers hands distributed
    k-medoids exactly the premise it needs.**  On a rational table of distinct points with pairwise
    distinct off-diagonal entries, for every world size, every striping, every cluster count `≠ 0`
    and every radius `≥ 0`: whatever `kcenters(mpi_mode=True)` returns is the striped view
    (`Striped`) of the state the serial `kcenters` of C01's model returns on the concatenated
    data, and that state is `Consistent`.  (`use_triangle_inequality=True` in
    `_kcenters_iteration_mpi` is NOT modelled; it is covered by the correspondence run only.) -/
theorem mpi_kcenters_striped_consistent (w : Nat) (hw : 0 < w) (L : List Nat) (hT : w ≤ L.length)
    (hpos : ∀ l ∈ L, 0 < l) (D : Table) (T : TableOK D L.sum)
    (hd : ∀ a b c d, a < L.sum → b < L.sum → c < L.sum → d < L.sum → a ≠ b → c ≠ d → D a b = D c d →
      (a = c ∧ b = d) ∨ (a = d ∧ b = c))
    (k : Option Nat) (hk : k ≠ some 0) (cutoff : Rat) (hc : 0 ≤ cutoff) (fuel : Nat) (ms : MState Dist)
    (h : mpiKcenters (stripeLayout w L) (finD D) .inf k (.fin cutoff) fuel = .ok ms) :
    ∃ st, Ens.Cluster.kcenters D L.sum k cutoff none fuel = .ok st ∧ Consistent D L.sum st ∧
      Striped (stripeLayout w L) (toPState (stripeLayout w L) ms) st := by
  have hN := sum_pos_of w hw L hT hpos
  have hb := stripeLayout_bij w hw L hT hpos
  have hcut : ¬ Dist.fin cutoff < Dist.fin 0 := fun hh => absurd ((fin_lt_fin _ _).mp hh) (not_lt.mpr hc)
  rcases kcenters_refines (stripeLayout w L) L.sum hN hb (finD D) (.fin 0) .inf (tieFree_of_tableOK T hd)
      k (.fin cutoff) hcut fuel with ⟨ms', ss, h1, h2, hr⟩ | ⟨h1, _⟩
  · rw [h] at h1
    injection h1 with h1
    subst h1
    obtain ⟨st, e1, e2⟩ := serialKcenters_eq_cluster hN D k cutoff fuel h2
    have hcons : Consistent D L.sum st :=
      C01.kcenters_consistent T hk hc (fun cs hcs => by cases hcs) e1
    exact ⟨st, e1, hcons, striped_of_rel hb hr e2 hcons.notFresh⟩
  · rw [h] at h1; cases h1

/-- …hence distributed k-medoids started from the distributed k-centers result — the whole of
    `hybrid(mpi_mode=True)` — reassembles, after every sweep and at the end, to a consistent
    clustering with the k-centers number of centers -/
theorem mpi_hybrid_consistent (w : Nat) (hw : 0 < w) (L : List Nat) (hT : w ≤ L.length)
    (hpos : ∀ l ∈ L, 0 < l) (D : Table) (T : TableOK D L.sum)
    (hd : ∀ a b c d, a < L.sum → b < L.sum → c < L.sum → d < L.sum → a ≠ b → c ≠ d → D a b = D c d →
      (a = c ∧ b = d) ∨ (a = d ∧ b = c))
    (k : Option Nat) (hk : k ≠ some 0) (cutoff : Rat) (hc : 0 ≤ cutoff) (fuel : Nat) (ms : MState Dist)
    (h : mpiKcenters (stripeLayout w L) (finD D) .inf k (.fin cutoff) fuel = .ok ms)
    (nIters : Nat) (props : Option (List (Nat × Nat))) (orc : List Nat) (r : MRun)
    (hp : mpiKmedoidsIterations (stripeLayout w L) D nIters (toPState (stripeLayout w L) ms) props orc = .ok r) :
    ∀ x ∈ r.final :: r.sweeps, ∃ rs, reassemble w L x = .ok rs ∧ Consistent D L.sum rs ∧
      rs.ctrInds.length = ms.ctrs.length := by
  obtain ⟨st, _, hcons, hstr⟩ := mpi_kcenters_striped_consistent w hw L hT hpos D T hd k hk cutoff hc fuel ms h
  have hlen : st.ctrInds.length = ms.ctrs.length := by
    have := congrArg List.length hstr.ctrs
    simpa [toPState] using this.symm
  intro x hx
  obtain ⟨rs, e1, e2, e3⟩ := mpi_pam_consistent w hw L hT hpos D T _ st hstr hcons nIters props orc r hp x hx
  exact ⟨rs, e1, e2, by rw [e3, hlen]⟩

/-- the six points of C01/C09 (`0 1 3 | 10 12 15`, centers = frames 0 and 5) dealt to 2 ranks as
    trajectories of lengths 1, 2, 3: rank 0 holds frames 0,3,4,5, rank 1 holds frames 1,2 -/
def ms6 : PState := scatter (stripeLayout 2 [1, 2, 3]) Ex.s6 [(0, 0), (0, 3)]

example : (List.range 2).map (localFrames 2 [1, 2, 3]) = [[0, 3, 4, 5], [1, 2]] := by decide

-- the hypotheses of the theorems above are satisfiable
example : Striped (stripeLayout 2 [1, 2, 3]) ms6 Ex.s6 :=
  scatter_striped (by decide) _ (by decide) (by decide)
example : Consistent Ex.D6 ([1, 2, 3] : List Nat).sum Ex.s6 :=
  Consistent.of_runMin Ex.D6_ok (RunMin.assignNearest Ex.D6 6 [0, 5]) (by decide) (Inj_of_nodup (by decide)) (by decide)
example : ∀ p ∈ [((1 : Nat), (0 : Nat)), (0, 2)], p.1 < 2 ∧ p.2 < (stripeLayout 2 [1, 2, 3]).m p.1 := by decide

/-- two sweeps with proposals frame 1 = (rank 1, 0) and frame 4 = (rank 0, 2): both accepted in
    the first sweep, rejected in the second; same decisions and costs as the serial run of
    Props/C09.lean (`22/3 → 13/2 → 3`) -/
example : (mpiKmedoidsIterations (stripeLayout 2 [1, 2, 3]) Ex.D6 2 ms6 (some [(1, 0), (0, 2)]) []).toOption.map
    (fun r => (r.final.ctrs, r.trace.map (fun st => (st.y, st.acc, st.newCost)))) =
    some ([(1, 0), (0, 2)], [(1, true, 13/2), (4, true, 3), (1, false, 3), (4, false, 3)]) := by
  decide +kernel
example : (mpiKmedoidsIterations (stripeLayout 2 [1, 2, 3]) Ex.D6 2 ms6 (some [(1, 0), (0, 2)]) []).toOption.map
    (fun r => ((r.final.arr 0).assignA, (r.final.arr 1).assignA)) = some (#[0, 1, 1, 1], #[0, 0]) := by
  decide +kernel
example : ((mpiKmedoidsIterations (stripeLayout 2 [1, 2, 3]) Ex.D6 2 ms6 (some [(1, 0), (0, 2)]) []).toOption.bind
    (fun r => (reassemble 2 [1, 2, 3] r.final).toOption)).map (fun s => (s.ctrInds, s.arr.assignA)) =
    some ([1, 4], #[0, 0, 0, 1, 1, 1]) := by decide +kernel
/-- random proposals through `randind`: draws 1 and 0 pick frame 3 for center 0 (rejected) and
    frame 3 for center 1 (accepted) -/
example : (mpiPamUpdate (stripeLayout 2 [1, 2, 3]) Ex.D6 ms6 none [1, 0]).toOption.map
    (fun o => o.2.2.map (fun st => (st.p, st.y, st.acc))) =
    some [((1, 1), 2, false), ((0, 1), 3, true)] := by decide +kernel

/-- a random proposal under MPI (`_propose_new_center_amongst(mpi_mode=True)`: `randind` over the
    ranks' member lists of cluster `cid`, any oracle draw) is a frame of its owner and a member
    of the cluster being updated — the distributed counterpart of C09's
    `random_proposal_is_member` -/
theorem mpi_random_proposal_is_member (lay : Layout) (s : PState) (cid : Nat) (orc orc' : List Nat)
    (p : Nat × Nat) (h : mpiPropose lay s cid none orc = .ok (p, orc')) :
    p.1 < lay.w ∧ p.2 < lay.m p.1 ∧ (s.arr p.1).assign p.2 = (cid : Nat) :=
  ⟨(mpiPropose_random_member h).1, (mpiPropose_random_member h).2.1, (mpiPropose_random_member h).2.2.1⟩

/-- `kmedoids(...)` under MPI with a warm start only converts the centers (`ctr_ids_mpi`) and
    checks them before it runs `_kmedoids_iterations`; the `medoid_coords` are re-broadcast by
    every sweep, so whatever coordinates the start state is given, the run is the same: the
    theorems above apply to the entry point with `coords := ` the serial coordinates. -/
theorem mpi_kmedoids_entry (w : Nat) (L : List Nat) (D : Table) (nIters : Nat) (arrs : List Arr)
    (centers : List (Nat × Nat) ⊕ List Nat) (props : Option (List (Nat × Nat))) (orc : List Nat) (r : MRun)
    (h : mpiKmedoids w L D nIters arrs centers props orc = .ok r) :
    ∃ ctrs, warmCenters w L centers = .ok ctrs ∧
      ∀ coords, mpiKmedoidsIterations (stripeLayout w L) D nIters
        { arrs := arrs, ctrs := ctrs, coords := coords } props orc = .ok r := by
  obtain ⟨ctrs, h1, h2⟩ := mpiKmedoids_ok h
  refine ⟨ctrs, h1, fun coords => ?_⟩
  rw [← h2]
  exact mpiKmedoidsIterations_coords (stripeLayout w L) D nIters { arrs := arrs, ctrs := ctrs, coords := [] } coords props orc

/-- the entry point on the six points: centers given as (trajectory, frame) pairs `(0,0)`, `(2,2)`
    = frames 0 and 5, or as flat ids -/
example : (mpiKmedoids 2 [1, 2, 3] Ex.D6 2 ms6.arrs (.inl [(0, 0), (2, 2)]) (some [(1, 0), (0, 2)]) []).toOption.map
    (fun r => (r.final.ctrs, r.trace.map (·.acc))) = some ([(1, 0), (0, 2)], [true, true, false, false]) := by
  decide +kernel
example : (mpiKmedoids 2 [1, 2, 3] Ex.D6 1 ms6.arrs (.inr [0, 5]) none [1, 0]).toOption.map
    (fun r => (r.final.ctrs, r.trace.map (·.acc))) = some ([(0, 0), (0, 1)], [false, true]) := by
  decide +kernel

end Pam
/-! ## striped loading -/

/-- `load_h5_as_striped` / `load_npy_as_striped`, any subsampling stride `s ≥ 1` (`row[::0]` raises
    ValueError in the code; `everyNth 0` is not a model of it, hence the hypothesis): every key /
    file is loaded by exactly one rank (`t % w`); each rank holds the concatenation of its
    (strided) rows; the returned global lengths are the lengths of the strided rows; and the
    reassembly routine applied to what the ranks hold, with those lengths, gives back the
    whole (strided) data set. -/
theorem load_stripes_cover {β : Type} (w : Nat) (hw : 0 < w) (rows : List (List β)) (hT : w ≤ rows.length)
    (s : Nat) (_hs : 0 < s) :
    (∀ r, r < w → loadStriped w rows s r =
        .ok (rows.map (fun row => (everyNth s row).length), ((stripe w rows r).map (everyNth s)).flatten)) ∧
    (∀ r, r < w → loadNpyStriped w rows s r = loadStriped w rows s r) ∧
    (∀ t r, r < w → (t ∈ stripeIdx w rows.length r ↔ t < rows.length ∧ t % w = r)) ∧
    assembleStripedRagged w (rows.map (fun row => (everyNth s row).length))
        (fun r => ((stripe w rows r).map (everyNth s)).flatten) = .ok (rows.map (everyNth s)).flatten := by
  have hne : ∀ r, r < w → (stripe w rows r).isEmpty = false := by
    intro r hr
    have := length_stripe_pos w hw rows r (by omega)
    cases h : stripe w rows r with
    | nil => rw [h] at this; simp at this
    | cons a l => rfl
  have hlen : rows.map (fun row => (everyNth s row).length) = (rows.map (everyNth s)).map List.length := by
    rw [List.map_map]; rfl
  refine ⟨?_, ?_, fun t r hr => mem_stripeIdx w hw rows.length r t hr, ?_⟩
  · intro r hr
    unfold loadStriped
    simp only [hne r hr]
    rfl
  · intro r hr
    unfold loadNpyStriped loadStriped
    simp only [hne r hr]
    have : (((stripe w rows r).map (everyNth s)).flatten).length =
        (stripe w (rows.map fun row => (everyNth s row).length) r).sum := by
      rw [hlen, stripe_map, ← stripe_map w (everyNth s), List.length_flatten]
    simp only [this]
    rfl
  · have h := assemble_ragged_ok w hw ((rows.map (everyNth s)).map List.length)
      (by simpa using hT) (rows.map (everyNth s)).flatten (by simp [List.length_flatten])
    rw [splitBy_lengths_flatten] at h
    rw [hlen]
    simp only [stripe_map] at h
    exact h

example : loadStriped 2 [[1, 2, 3], [4, 5], [6]] 2 0 = .ok ([2, 1, 1], [1, 3, 6]) := by decide
example : loadNpyStriped 2 [[1, 2, 3], [4, 5], [6]] 2 1 = .ok ([2, 1, 1], [4]) := by decide
example : loadStriped 3 [[1, 2, 3], [4, 5]] 1 2 = .error .indexError := by decide

/-! ## distributed k-centers -/

/-- For every world size `w ≥ 1`, every vector of positive trajectory lengths with at least
    `w` trajectories, every tie-free table and every cutoff `≥ 0`: distributed k-centers on the
    round-robin layout, followed by the library's reassembly (`convert_local_indices` for the
    centers, `assemble_striped_ragged_array` for distances and labels), yields exactly the
    serial k-centers result on the concatenated data — or both runs exhaust the same fuel.
    By induction on the iterations (`Proofs/C14Kcenters.lean`). -/
theorem mpi_kcenters_refines_serial {α : Type} [LT α] [DecidableRel (α := α) (· < ·)] [StrictTotal α]
    (w : Nat) (hw : 0 < w) (L : List Nat) (hT : w ≤ L.length) (hpos : ∀ l ∈ L, 0 < l)
    (D : Nat → Nat → α) (zero top : α) (ht : TieFree L.sum D zero top)
    (k : Option Nat) (cutoff : α) (hcut : ¬ cutoff < zero) (fuel : Nat) :
    (∃ ms ss, mpiKcenters (stripeLayout w L) D top k cutoff fuel = .ok ms ∧
        serialKcenters L.sum D top k cutoff fuel = .ok ss ∧
        convertLocalIndices w L ms.ctrs = .ok ss.ctrs ∧
        assembleStripedRagged w L (fun r => tabulate ((stripeLayout w L).m r) (ms.dist r)) =
          .ok (tabulate L.sum ss.dist) ∧
        assembleStripedRagged w L (fun r => tabulate ((stripeLayout w L).m r) (ms.assign r)) =
          .ok (tabulate L.sum ss.assign)) ∨
    (mpiKcenters (stripeLayout w L) D top k cutoff fuel = .error .fuel ∧
        serialKcenters L.sum D top k cutoff fuel = .error .fuel) := by
  have hN : 0 < L.sum := by
    have h0 : 0 < L.length := by omega
    have := hpos _ (List.getElem_mem h0)
    have hle := sum_take_add_le L 0 L[0] (List.getElem?_eq_getElem h0)
    omega
  have hb := stripeLayout_bij w hw L hT hpos
  rcases kcenters_refines (stripeLayout w L) L.sum hN hb D zero top ht k cutoff hcut fuel with
    ⟨ms, ss, h1, h2, hr⟩ | h
  · refine Or.inl ⟨ms, ss, h1, h2, ?_, ?_, ?_⟩
    · rw [convert_of_valid w hw L hT ms.ctrs hr.valid, hr.ctrs]
    · exact assemble_of_rel w hw L hT ss.dist ms.dist hr.dist
    · exact assemble_of_rel w hw L hT ss.assign ms.assign hr.assign
  · exact Or.inr h

/-- a concrete tie-free instance: 3 ranks, trajectories of lengths 2,1,1,2 (frames 0…5),
    `D a b = 2^max(a,b) + min(a,b)` off the diagonal (all values distinct), 3 centers -/
def exD (a b : Nat) : Nat := if a = b then 0 else 2 ^ (max a b) + min a b

-- the hypotheses of `mpi_kcenters_refines_serial` are satisfiable
example : TieFree 6 exD 0 1000 := by
  constructor
  · decide
  · exact fun g c hg hc => (by decide : ∀ g, g < 6 → ∀ c, c < 6 → g ≠ c → 0 < exD g c) g hg c hc
  · exact fun g c hg hc => (by decide : ∀ g, g < 6 → ∀ c, c < 6 → exD g c < 1000) g hg c hc
  · intro a b c d ha hb hc hd hab hcd he
    have h := (by decide +kernel : ∀ a ∈ List.range 6, ∀ b ∈ List.range 6, ∀ c ∈ List.range 6,
        ∀ d ∈ List.range 6, (a = b ∨ c = d ∨ exD a b ≠ exD c d ∨ (a = c ∧ b = d) ∨ (a = d ∧ b = c)))
      a (List.mem_range.mpr ha) b (List.mem_range.mpr hb) c (List.mem_range.mpr hc) d (List.mem_range.mpr hd)
    rcases h with h | h | h | h
    · exact absurd h hab
    · exact absurd h hcd
    · exact absurd he h
    · exact h
example : ∀ l ∈ [2, 1, 1, 2], 0 < l := by decide

example : (mpiKcenters (stripeLayout 3 [2, 1, 1, 2]) exD 1000 (some 3) 0 4).toOption.map (·.ctrs) =
    some [(0, 0), (0, 3), (0, 2)] := by decide +kernel
example : (serialKcenters 6 exD 1000 (some 3) 0 4).toOption.map (·.ctrs) = some [0, 5, 4] := by decide +kernel
example : convertLocalIndices 3 [2, 1, 1, 2] [(0, 0), (0, 3), (0, 2)] = .ok [0, 5, 4] := by decide

/-- tie-freeness is needed: with `D 0 1 = D 0 2` the gathered argmax takes the first RANK
    attaining the maximum (rank 0 holds frame 2), the serial argmax the first FRAME (1) -/
def tieD (a b : Nat) : Nat := if a = b then 0 else if a + b = 3 then 1 else 5

theorem mpi_kcenters_tie_counterexample :
    (mpiKcenters (stripeLayout 2 [1, 1, 1]) tieD 1000 (some 2) 0 3).toOption.map
        (fun s => convertLocalIndices 2 [1, 1, 1] s.ctrs) = some (.ok [0, 2]) ∧
    (serialKcenters 3 tieD 1000 (some 2) 0 3).toOption.map (·.ctrs) = some [0, 1] := by
  decide

/-! ### the hypotheses of `mpi_kcenters_striped_consistent` / `mpi_hybrid_consistent` are satisfiable -/

/-- `exD` as a rational table -/
def exQ : Ens.Cluster.Table := fun a b => (exD a b : Rat)

example : Ens.Cluster.TableOK exQ 6 := by
  constructor
  · intro i _; simp [exQ, exD]
  · intro i j _ _; exact Nat.cast_nonneg _
  · intro i j _ _ h
    have h0 : exD i j = 0 := by unfold exQ at h; exact_mod_cast h
    by_contra hne
    simp only [exD, hne, if_false] at h0
    have : 0 < 2 ^ max i j := Nat.pow_pos (by decide)
    omega

example : ∀ a b c d, a < 6 → b < 6 → c < 6 → d < 6 → a ≠ b → c ≠ d → exQ a b = exQ c d →
    (a = c ∧ b = d) ∨ (a = d ∧ b = c) := by
  intro a b c d ha hb hc hd hab hcd he
  have he' : exD a b = exD c d := by unfold exQ at he; exact_mod_cast he
  have h := (by decide +kernel : ∀ a ∈ List.range 6, ∀ b ∈ List.range 6, ∀ c ∈ List.range 6,
      ∀ d ∈ List.range 6, (a = b ∨ c = d ∨ exD a b ≠ exD c d ∨ (a = c ∧ b = d) ∨ (a = d ∧ b = c)))
    a (List.mem_range.mpr ha) b (List.mem_range.mpr hb) c (List.mem_range.mpr hc) d (List.mem_range.mpr hd)
  rcases h with h | h | h | h
  · exact absurd h hab
  · exact absurd h hcd
  · exact absurd he' h
  · exact h

example : (mpiKcenters (stripeLayout 3 [2, 1, 1, 2]) (finD exQ) .inf (some 3) (.fin 0) 4).toOption.map (·.ctrs) =
    some [(0, 0), (0, 3), (0, 2)] := by decide +kernel

end C14
