import Proofs.C14Layout
import Proofs.C14Mean
/-!
C14 — MPI-striped clustering and reductions equal their serial counterparts.

Model: `Model/Mpi.lean`.  `w` is the world size; per-rank values are functions of the rank.
Collectives are functions of all ranks' contributions (arrival order is not represented:
that is the MPI contract, trusted).  Hypotheses are the guards the code has: `0 < w`,
`w ≤ number of trajectories` (a rank without data raises), trajectory lengths `> 0` where the
first center matters, tie-free tables for k-centers.
-/
open Ens Ens.Mpi

namespace C14

/-! ## striping -/

/-- The stripes `xs[r::w]`, `r < w`, partition `xs`: putting stripe `r` back at positions
    `r, r+w, …` restores `xs`; the concatenated stripes are a permutation of `xs`; index `i`
    belongs to stripe `i % w` and to no other. -/
theorem stripe_partition {α : Type} (w : Nat) (hw : 0 < w) (xs : List α) :
    unstripe w xs.length (fun r => stripe w xs r) = xs ∧
    ((List.range w).flatMap fun r => stripe w xs r).Perm xs ∧
    (∀ n r i, r < w → (i ∈ stripeIdx w n r ↔ i < n ∧ i % w = r)) ∧
    (∀ r j, (stripe w xs r)[j]? = xs[r + j * w]?) :=
  ⟨unstripe_stripe w hw xs, stripe_perm w hw xs, fun n r i hr => mem_stripeIdx w hw n r i hr,
   fun r j => getElem?_stripe w hw xs r j⟩

example : stripe 3 [10, 11, 12, 13, 14, 15, 16] 1 = [11, 14] := by decide
example : unstripe 3 7 (fun r => stripe 3 [10, 11, 12, 13, 14, 15, 16] r) = [10, 11, 12, 13, 14, 15, 16] := by decide

/-! ## `convert_local_indices` -/

/-- `(rank r, local index i) ↦ g` is correct: whatever global per-frame array `f` is dealt
    round-robin by trajectories, element `i` of rank `r`'s local array is `f g`; and the map is
    a bijection between valid `(rank, local)` pairs and global frames `0 … N-1`. -/
theorem convertLocal_correct {α : Type} (w : Nat) (hw : 0 < w) (L : List Nat) :
    (∀ (f : Nat → α) (r i g : Nat), r < L.length → convertLocal w L (r, i) = .ok g →
      ((stripe w (splitBy L ((List.range L.sum).map f)) r).flatten)[i]? = some (f g)) ∧
    (∀ g, g < L.sum → ∃ (r i : Nat), r < w ∧ (localFrames w L r)[i]? = some g) ∧
    (∀ (r i r' i' g : Nat), r < w → r' < w → (localFrames w L r)[i]? = some g →
      (localFrames w L r')[i']? = some g → r = r' ∧ i = i') ∧
    (∀ (r i g : Nat), r < w → (localFrames w L r)[i]? = some g → g < L.sum) := by
  obtain ⟨h1, h2, h3⟩ := localFrames_bijective w hw L
  refine ⟨?_, h1, h2, h3⟩
  intro f r i g hr h
  rw [localFrames_map, List.getElem?_map, (convertLocal_ok_iff w L r i g hr hw).mp h]
  rfl

example : convertLocalIndices 2 [3, 2, 4] [(0, 5), (1, 1)] = .ok [7, 4] := by decide
example : convertLocalIndices 3 [3, 2] [(2, 0)] = .error .attributeError := by decide

/-! ## `assemble_striped_ragged_array` -/

/-- Reassembling the per-rank pieces (rank `r` holds the concatenation of trajectories
    `r, r+w, …`) of any array laid out by trajectory lengths `L` returns that array, for
    every world size that leaves no rank without a trajectory. -/
theorem assemble_ragged_correct {α : Type} (w : Nat) (hw : 0 < w) (L : List Nat) (hT : w ≤ L.length)
    (xs : List α) (hx : xs.length = L.sum) :
    assembleStripedRagged w L (fun r => (stripe w (splitBy L xs) r).flatten) = .ok xs :=
  assemble_ragged_ok w hw L hT xs hx

/-- the layout that the repaired slice assignment has to handle: rank 0 of 4 owns two
    trajectories, ranks 1 and 2 own two of different length, rank 3 owns one -/
example : assembleStripedRagged 4 [3, 5, 2, 4, 1, 6, 2]
    (fun r => (stripe 4 (splitBy [3, 5, 2, 4, 1, 6, 2] (List.range 23)) r).flatten) = .ok (List.range 23) := by
  decide
example : assembleStripedRagged 3 [3, 2] (fun _ => [0]) = .error .indexError := by decide

/-! ## `striped_array_max` -/

/-- Whenever `striped_array_max` returns, the value is the maximum of the whole array (the
    local arrays concatenated in any order); it returns as soon as no rank is empty. -/
theorem striped_max_eq {α : Type} [LT α] [DecidableRel (α := α) (· < ·)] [StrictTotal α]
    (w : Nat) (hw : 0 < w) (locals : Nat → List α) :
    (∀ (xs : List α) (M : α), xs.Perm ((List.range w).flatMap locals) → stripedMax w locals = .ok M →
      listMax xs = some M ∧ M ∈ xs ∧ ∀ y ∈ xs, ¬ M < y) ∧
    ((∀ r, r < w → locals r ≠ []) → ∃ M, stripedMax w locals = .ok M) := by
  refine ⟨?_, stripedMax_ok w hw locals⟩
  intro xs M hp h
  have := stripedMax_eq_listMax w locals xs hp M h
  exact ⟨this, listMax_spec this⟩

example : stripedMax 2 (fun r => if r = 0 then [3, 9, 4] else [7, 2]) = .ok 9 := by decide
example : stripedMax 2 (fun r => if r = 0 then [3, 9, 4] else ([] : List Nat)) = .error .valueError := by decide

/-! ## `striped_array_mean` -/

/-- For every world size and every non-empty data set (any signs), the striped mean is the
    mean of the whole array, in whatever order the local arrays are concatenated; an empty
    striped array has no mean (`nan`). -/
theorem striped_mean_eq (w : Nat) (hw : 0 < w) (locals : Nat → List Rat) :
    (∀ xs : List Rat, xs.Perm ((List.range w).flatMap locals) → xs ≠ [] →
      stripedMean w locals = .ok (xs.sum / (xs.length : Rat))) ∧
    ((∀ r, r < w → locals r = []) → stripedMean w locals = .error .nan) :=
  ⟨fun xs hp hne => stripedMean_eq w hw locals xs hp hne, stripedMean_empty w hw locals⟩

example : stripedMean 2 (fun r => if r = 0 then [1, 2] else [5]) = .ok (8 / 3) := by decide +kernel
example : stripedMean 2 (fun r => if r = 0 then [-1] else [-5]) = .ok (-3) := by decide +kernel

/-! ## `randind` -/

/-- For every vector of local lengths (packed or not, empty ranks allowed) with at least one
    element, the broadcast draw `g ∈ {0 … N-1}` is mapped bijectively onto the elements
    `(owner rank, local index)` of the striped array; a uniform draw is therefore a uniform
    element. -/
theorem randind_bijection (lens : List Nat) (hw : 0 < lens.length) (hN : 1 ≤ lens.sum) :
    (∀ g, g < lens.sum → ∃ (r i l : Nat), randind lens g = .ok (r, i) ∧ lens[r]? = some l ∧ i < l) ∧
    (∀ (g g' : Nat) (p : Nat × Nat), randind lens g = .ok p → randind lens g' = .ok p → g = g') ∧
    (∀ (r i l : Nat), lens[r]? = some l → i < l → ∃ g, g < lens.sum ∧ randind lens g = .ok (r, i)) :=
  randind_bijective lens hw hN

example : (List.range 5).map (randind [2, 0, 3]) = [.ok (0, 0), .ok (2, 0), .ok (2, 2), .ok (0, 1), .ok (2, 1)] := by
  decide
example : randind [0, 0] 0 = .error .dataInvalid := by decide

/-! ## `ctr_ids_mpi` -/

/-- `ctr_ids_mpi` on `(trajectory, frame)` pairs is a right inverse of
    `convert_local_indices`: the pair is sent to a valid rank and local index whose global
    frame id is `offset(trajectory) + frame`. -/
theorem ctrIdsMpi_inverse (w : Nat) (hw : 0 < w) (L : List Nat) (t f l : Nat)
    (ht : L[t]? = some l) (hf : f < l) :
    ∃ p, ctrIdMpi w L (t, f) = .ok p ∧ p.1 < w ∧ convertLocal w L p = .ok ((L.take t).sum + f) :=
  ctrIdMpi_inverse w hw L t f l ht hf

example : ctrIdsMpi 2 [3, 2, 4] [(2, 2), (1, 1)] = .ok [(0, 5), (1, 1)] := by decide

/-- the same for flat global frame ids (the `ra.where` path): id `g` is sent to the
    `(rank, local index)` that `convert_local_indices` maps back to `g`. -/
theorem ctrIdsMpiFlat_inverse (w : Nat) (hw : 0 < w) (L : List Nat) (g : Nat) (hg : g < L.sum) :
    ∃ p, ctrIdsMpiFlat w L [g] = .ok [p] ∧ p.1 < w ∧ convertLocal w L p = .ok g :=
  ctrIdMpi_flat_inverse w hw L g hg

example : ctrIdsMpiFlat 2 [3, 2, 4] [7, 4] = .ok [(0, 5), (1, 1)] := by decide
example : ctrIdsMpiFlat 2 [3, 2, 4] [9] = .error .indexError := by decide

/-! ## k-medoids under MPI: inputs and cost -/

/-- full statement: k-medoids under MPI can start from scratch (as the serial code can) or
    from a warm start.  FALSE for the code as written (known finding
    `kmedoids-mpi-cold-start`): the cold-start branch raises before computing anything. -/
def C14_kmedoids_inputs_full : Prop :=
  ∀ (w : Nat) (L : List Nat) (warm : Option (List (Nat × Nat))), 0 < w →
    (∀ ps, warm = some ps → ∀ p ∈ ps, ∃ l, L[p.1]? = some l ∧ p.2 < l) →
    ∃ cs, kmedoidsInputsMpi w L warm = .ok cs

/-- proved part: a warm start with valid `(trajectory, frame)` centers is converted to
    `(rank, local index)` centers that `convert_local_indices` maps back to the same frames -/
theorem kmedoids_inputs_partial (w : Nat) (hw : 0 < w) (L : List Nat) (t f l : Nat)
    (ht : L[t]? = some l) (hf : f < l) :
    ∃ p, kmedoidsInputsMpi w L (some [(t, f)]) = .ok [p] ∧ p.1 < w ∧
      convertLocal w L p = .ok ((L.take t).sum + f) := by
  obtain ⟨p, hp, hpw, hc⟩ := ctrIdMpi_inverse w hw L t f l ht hf
  refine ⟨p, ?_, hpw, hc⟩
  unfold kmedoidsInputsMpi ctrIdsMpi
  simp only [List.mapM_cons, List.mapM_nil, hp]
  rfl

theorem kmedoids_inputs_counterexample : ¬ C14_kmedoids_inputs_full := by
  intro h
  obtain ⟨cs, hcs⟩ := h 2 [3, 2] none (by decide) (by intro ps hps; cases hps)
  revert hcs
  simp [kmedoidsInputsMpi]

/-- the distributed PAM step is the serial step's per-frame computation on every rank plus
    ONE collective quantity, the cost `_msq` = `striped_array_mean` of the squared distances
    (proposal = `randind` + `bcast`, medoid frames = `distribute_frame`, both above).  This is
    the cost part: on the round-robin layout the distributed cost of any per-frame array `f`
    equals the serial mean over the concatenated data.  (`mpi_pam_consistent` in full — that the
    distributed sweep preserves `Consistent` and never raises the cost — is NOT proved here: the
    distributed sweep itself is not modelled in `Model/Mpi.lean`; it is covered on the
    implementation side by the invariants and by equality with serial PAM under identical
    proposals.) -/
theorem mpi_pam_cost_partial (w : Nat) (hw : 0 < w) (L : List Nat) (hN : 0 < L.sum) (f : Nat → Rat) :
    stripedMean w (fun r => (localFrames w L r).map f) =
      .ok (((List.range L.sum).map f).sum / (((List.range L.sum).map f).length : Rat)) := by
  apply stripedMean_eq w hw
  · have h := (localFrames_perm w hw L).map f
    rw [List.map_flatMap] at h
    exact h.symm
  · intro h
    have := congrArg List.length h
    simp at this
    omega

/-! ## striped loading -/

/-- `load_h5_as_striped` / `load_npy_as_striped`, any subsampling stride `s ≥ 1`: every key /
    file is loaded by exactly one rank (`t % w`); each rank holds the concatenation of its
    (strided) rows; the returned global lengths are the lengths of the strided rows; and the
    reassembly routine applied to what the ranks hold, with those lengths, gives back the
    whole (strided) data set. -/
theorem load_stripes_cover {β : Type} (w : Nat) (hw : 0 < w) (rows : List (List β)) (hT : w ≤ rows.length)
    (s : Nat) :
    (∀ r, r < w → loadStriped w rows s r =
        .ok (rows.map (fun row => (everyNth s row).length), ((stripe w rows r).map (everyNth s)).flatten)) ∧
    (∀ r, r < w → loadNpyStriped w rows s r = loadStriped w rows s r) ∧
    (∀ t r, r < w → (t ∈ stripeIdx w rows.length r ↔ t < rows.length ∧ t % w = r)) ∧
    assembleStripedRagged w (rows.map (fun row => (everyNth s row).length))
        (fun r => ((stripe w rows r).map (everyNth s)).flatten) = .ok (rows.map (everyNth s)).flatten := by
  have hne : ∀ r, r < w → (stripe w rows r).isEmpty = false := by
    intro r hr
    have := length_stripe_pos w hw rows r (by omega)
    cases h : stripe w rows r with
    | nil => rw [h] at this; simp at this
    | cons a l => rfl
  have hlen : rows.map (fun row => (everyNth s row).length) = (rows.map (everyNth s)).map List.length := by
    rw [List.map_map]; rfl
  refine ⟨?_, ?_, fun t r hr => mem_stripeIdx w hw rows.length r t hr, ?_⟩
  · intro r hr
    unfold loadStriped
    simp only [hne r hr]
    rfl
  · intro r hr
    unfold loadNpyStriped loadStriped
    simp only [hne r hr]
    have : (((stripe w rows r).map (everyNth s)).flatten).length =
        (stripe w (rows.map fun row => (everyNth s row).length) r).sum := by
      rw [hlen, stripe_map, ← stripe_map w (everyNth s), List.length_flatten]
    simp only [this]
    rfl
  · have h := assemble_ragged_ok w hw ((rows.map (everyNth s)).map List.length)
      (by simpa using hT) (rows.map (everyNth s)).flatten (by simp [List.length_flatten])
    rw [splitBy_lengths_flatten] at h
    rw [hlen]
    simp only [stripe_map] at h
    exact h

example : loadStriped 2 [[1, 2, 3], [4, 5], [6]] 2 0 = .ok ([2, 1, 1], [1, 3, 6]) := by decide
example : loadNpyStriped 2 [[1, 2, 3], [4, 5], [6]] 2 1 = .ok ([2, 1, 1], [4]) := by decide
example : loadStriped 3 [[1, 2, 3], [4, 5]] 1 2 = .error .indexError := by decide

/-! ## distributed k-centers -/

/-- For every world size `w ≥ 1`, every vector of positive trajectory lengths with at least
    `w` trajectories, every tie-free table and every cutoff `≥ 0`: distributed k-centers on the
    round-robin layout, followed by the library's reassembly (`convert_local_indices` for the
    centers, `assemble_striped_ragged_array` for distances and labels), yields exactly the
    serial k-centers result on the concatenated data — or both runs exhaust the same fuel.
    By induction on the iterations (`Proofs/C14Kcenters.lean`). -/
theorem mpi_kcenters_refines_serial {α : Type} [LT α] [DecidableRel (α := α) (· < ·)] [StrictTotal α]
    (w : Nat) (hw : 0 < w) (L : List Nat) (hT : w ≤ L.length) (hpos : ∀ l ∈ L, 0 < l)
    (D : Nat → Nat → α) (zero top : α) (ht : TieFree L.sum D zero top)
    (k : Option Nat) (cutoff : α) (hcut : ¬ cutoff < zero) (fuel : Nat) :
    (∃ ms ss, mpiKcenters (stripeLayout w L) D top k cutoff fuel = .ok ms ∧
        serialKcenters L.sum D top k cutoff fuel = .ok ss ∧
        convertLocalIndices w L ms.ctrs = .ok ss.ctrs ∧
        assembleStripedRagged w L (fun r => tabulate ((stripeLayout w L).m r) (ms.dist r)) =
          .ok (tabulate L.sum ss.dist) ∧
        assembleStripedRagged w L (fun r => tabulate ((stripeLayout w L).m r) (ms.assign r)) =
          .ok (tabulate L.sum ss.assign)) ∨
    (mpiKcenters (stripeLayout w L) D top k cutoff fuel = .error .fuel ∧
        serialKcenters L.sum D top k cutoff fuel = .error .fuel) := by
  have hN : 0 < L.sum := by
    have h0 : 0 < L.length := by omega
    have := hpos _ (List.getElem_mem h0)
    have hle := sum_take_add_le L 0 L[0] (List.getElem?_eq_getElem h0)
    omega
  have hb := stripeLayout_bij w hw L hT hpos
  rcases kcenters_refines (stripeLayout w L) L.sum hN hb D zero top ht k cutoff hcut fuel with
    ⟨ms, ss, h1, h2, hr⟩ | h
  · refine Or.inl ⟨ms, ss, h1, h2, ?_, ?_, ?_⟩
    · rw [convert_of_valid w hw L hT ms.ctrs hr.valid, hr.ctrs]
    · exact assemble_of_rel w hw L hT ss.dist ms.dist hr.dist
    · exact assemble_of_rel w hw L hT ss.assign ms.assign hr.assign
  · exact Or.inr h

/-- a concrete tie-free instance: 3 ranks, trajectories of lengths 2,1,1,2 (frames 0…5),
    `D a b = 2^max(a,b) + min(a,b)` off the diagonal (all values distinct), 3 centers -/
def exD (a b : Nat) : Nat := if a = b then 0 else 2 ^ (max a b) + min a b

-- the hypotheses of `mpi_kcenters_refines_serial` are satisfiable
example : TieFree 6 exD 0 1000 := by
  constructor
  · decide
  · exact fun g c hg hc => (by decide : ∀ g, g < 6 → ∀ c, c < 6 → g ≠ c → 0 < exD g c) g hg c hc
  · exact fun g c hg hc => (by decide : ∀ g, g < 6 → ∀ c, c < 6 → exD g c < 1000) g hg c hc
  · intro a b c d ha hb hc hd hab hcd he
    have h := (by decide +kernel : ∀ a ∈ List.range 6, ∀ b ∈ List.range 6, ∀ c ∈ List.range 6,
        ∀ d ∈ List.range 6, (a = b ∨ c = d ∨ exD a b ≠ exD c d ∨ (a = c ∧ b = d) ∨ (a = d ∧ b = c)))
      a (List.mem_range.mpr ha) b (List.mem_range.mpr hb) c (List.mem_range.mpr hc) d (List.mem_range.mpr hd)
    rcases h with h | h | h | h
    · exact absurd h hab
    · exact absurd h hcd
    · exact absurd he h
    · exact h
example : ∀ l ∈ [2, 1, 1, 2], 0 < l := by decide

example : (mpiKcenters (stripeLayout 3 [2, 1, 1, 2]) exD 1000 (some 3) 0 4).toOption.map (·.ctrs) =
    some [(0, 0), (0, 3), (0, 2)] := by decide +kernel
example : (serialKcenters 6 exD 1000 (some 3) 0 4).toOption.map (·.ctrs) = some [0, 5, 4] := by decide +kernel
example : convertLocalIndices 3 [2, 1, 1, 2] [(0, 0), (0, 3), (0, 2)] = .ok [0, 5, 4] := by decide

/-- tie-freeness is needed: with `D 0 1 = D 0 2` the gathered argmax takes the first RANK
    attaining the maximum (rank 0 holds frame 2), the serial argmax the first FRAME (1) -/
def tieD (a b : Nat) : Nat := if a = b then 0 else if a + b = 3 then 1 else 5

theorem mpi_kcenters_tie_counterexample :
    (mpiKcenters (stripeLayout 2 [1, 1, 1]) tieD 1000 (some 2) 0 3).toOption.map
        (fun s => convertLocalIndices 2 [1, 1, 1] s.ctrs) = some (.ok [0, 2]) ∧
    (serialKcenters 3 tieD 1000 (some 2) 0 3).toOption.map (·.ctrs) = some [0, 1] := by
  decide

end C14
