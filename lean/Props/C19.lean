import Model.Masked
import Model.Generated.UfuncSites
import Proofs.C19
/-!
C19 — results depend on arguments only, not on history, threads or heap contents.

In every statement the heap is an explicit parameter (`g`, `jc0`, the previous content of a
caller-supplied `out`); "depends on the arguments only" = "does not depend on that parameter".
What is *not* covered here (the property is partial by design, DESIGN.md §5 C19): that the
interpreter, numpy and the C runtime never read uninitialised memory elsewhere — that part is
only sampled by the perturbation runs of harness/props/c19.py.
-/
namespace C19
open Ens.Masked Ens.Generated.UfuncSites

/-! ### (i) masked element-wise operation -/

/-- Both directions.  With an `out` buffer the result is the same for every heap content `g`.
Without `out` (numpy allocates), for a mask of the operands' length and a value type with two
distinct values: the result is the same for all heap contents iff no cell is masked out. -/
theorem masked_ufunc_garbage_independent {α β} (f : α → β) (mask : List Bool) (args : List α) : (∀ (out g1 g2 : List β), maskedApply f mask args (some out) g1 = maskedApply f mask args (some out) g2) ∧ (mask.length = args.length → ∀ b1 b2 : β, b1 ≠ b2 → ((∀ g1 g2 : List β, g1.length = args.length → g2.length = args.length → maskedApply f mask args none g1 = maskedApply f mask args none g2) ↔ ∀ m ∈ mask, m = true)) :=
  ⟨fun _ _ _ => rfl, fun hm b1 b2 hb => maskedApply_none_independent_iff f mask args hm b1 b2 hb⟩

/-- the explicit witness of the "without `out`" direction: a masked-out cell and two constant
heaps give two results -/
theorem masked_ufunc_without_out_two_results {α β} (f : α → β) (mask : List Bool) (args : List α) (hm : mask.length = args.length) (hf : false ∈ mask) (b1 b2 : β) (hb : b1 ≠ b2) : maskedApply f mask args none (List.replicate args.length b1) ≠ maskedApply f mask args none (List.replicate args.length b2) := by
  rw [maskedApply_none_ok f mask args _ hm (by simp), maskedApply_none_ok f mask args _ hm (by simp)]
  intro h
  exact maskedCells_some_false f b1 b2 hb mask args hm hf (by simpa using h)

/-- what each cell of the result holds -/
theorem masked_cell_spec {α β} (f : α → β) (mask : List Bool) (args : List α) (buf : List β) (i : Nat) (m : Bool) (a : α) (b : β) (hm : mask[i]? = some m) (ha : args[i]? = some a) (hb : buf[i]? = some b) : (maskedCells f mask args buf)[i]? = some (if m then f a else b) :=
  maskedCells_getElem? f mask args buf i m a b hm ha hb

-- non-vacuity: the hypotheses are satisfiable and the two directions really differ
example : ok? (maskedApply (fun x : Int => x + 1) [true, false] [10, 20] none [7, 7])
    = some [11, 7] := by decide +kernel
example : ok? (maskedApply (fun x : Int => x + 1) [true, false] [10, 20] none [7, 9])
    = some [11, 9] := by decide +kernel
example : ok? (maskedApply (fun x : Int => x + 1) [true, false] [10, 20] (some [0, 0]) [7, 9])
    = some [11, 0] := by decide +kernel
example : err? (maskedApply (fun x : Int => x + 1) [true] [10, 20] none [7, 9])
    = some .shapeMismatch := by decide +kernel

/-! ### (ii) obligations regenerated from the source on every run -/

/-- every masked ufunc call in the source passes an `out=` buffer (and not one that is itself a
fresh `np.empty`) -/
theorem all_sites_initialised : ∀ s ∈ sites, s.hasOut = true := by decide

/-- every `np.empty`/`empty_like`/`ndarray(` allocation in the anchored files is followed at
once by a recognised total initialisation (`.fill`, `[:] =`, or the index loop over its length) -/
theorem all_alloc_sites_initialised : ∀ s ∈ allocSites, s.init ≠ InitKind.uninitialised := by decide

/-- in the anchored kernels every buffer that is accumulated into is zeroed (cell assignment
`= 0` or `np.zeros`) before its first compound assignment -/
theorem all_accumulators_zeroed : ∀ s ∈ accumSites, s.zeroed = true := by decide

/-! ### (i') `shannon_entropy` on top of the masked log, NaN-propagating values -/

/-- the code as it is equals the fixed function `-Σ_{p_i>0} p_i·log p_i` for every heap -/
theorem shannon_entropy_eq_spec (lg : Rat → FV) (p : List Rat) (g : List FV) : shannonEntropy lg p g = .ok (entropySpec lg p) :=
  shannonEntropy_eq_spec lg p g

theorem shannon_entropy_heap_independent (lg : Rat → FV) (p : List Rat) (g1 g2 : List FV) : shannonEntropy lg p g1 = shannonEntropy lg p g2 := by
  rw [shannonEntropy_eq_spec, shannonEntropy_eq_spec]

/-- without `out=` (the code before the fix): as soon as one probability is not positive and the
logarithm is finite on positives, a NaN-filled recycled block and the specified value differ -/
theorem shannon_entropy_without_out_depends_on_heap (lg : Rat → FV) (p : List Rat) (hlg : ∀ x, 0 < x → (lg x).isSome) (hz : ∃ x ∈ p, ¬ 0 < x) : shannonEntropyNoOut lg p (List.replicate p.length none) ≠ .ok (entropySpec lg p) := by
  rw [shannonEntropyNoOut_nan lg p hz]
  intro h
  have hs := entropySpec_isSome lg p hlg
  have : entropySpec lg p = none := by injection h with h'; exact h'.symm
  rw [this] at hs
  simp at hs

-- the DESIGN.md witness `p = [.5, .5, 0, 0]`: zeros in the heap give the right value, NaNs give NaN
example : ok? (shannonEntropyNoOut (fun _ => some (-1)) [1/2, 1/2, 0, 0] [some 0, some 0, some 0, some 0])
    = some (some 1) := by decide +kernel
example : ok? (shannonEntropyNoOut (fun _ => some (-1)) [1/2, 1/2, 0, 0] [none, none, none, none])
    = some none := by decide +kernel
example : ok? (shannonEntropy (fun _ => some (-1)) [1/2, 1/2, 0, 0] [none, none, none, none])
    = some (some 1) := by decide +kernel

/-! ### (iii) kernels zero their outputs before accumulating -/

/-- `libdist.manhattan(X, y, out=o)`: the previous content of `o` is irrelevant … -/
theorem manhattan_out_independent_of_initial (X : List (List Rat)) (ncols : Nat) (y o1 o2 : List Rat) (h : o1.length = o2.length) : manhattan X ncols y (some o1) = manhattan X ncols y (some o2) :=
  wrapper_congr _ (manhattanKernel_congr X ncols y) X ncols y o1 o2 h

/-- … and equals the call that lets the routine allocate -/
theorem manhattan_out_eq_fresh (X : List (List Rat)) (ncols : Nat) (y o : List Rat) (h : o.length = X.length) : manhattan X ncols y (some o) = manhattan X ncols y none :=
  wrapper_none _ (manhattanKernel_congr X ncols y) X ncols y o h

theorem euclidean_out_independent_of_initial (sqrtF : Rat → Rat) (X : List (List Rat)) (ncols : Nat) (y o1 o2 : List Rat) (h : o1.length = o2.length) : euclidean sqrtF X ncols y (some o1) = euclidean sqrtF X ncols y (some o2) :=
  wrapper_congr _ (euclideanKernel_congr sqrtF X ncols y) X ncols y o1 o2 h

theorem euclidean_out_eq_fresh (sqrtF : Rat → Rat) (X : List (List Rat)) (ncols : Nat) (y o : List Rat) (h : o.length = X.length) : euclidean sqrtF X ncols y (some o) = euclidean sqrtF X ncols y none :=
  wrapper_none _ (euclideanKernel_congr sqrtF X ncols y) X ncols y o h

theorem hamming_out_independent_of_initial (X : List (List Rat)) (ncols : Nat) (y o1 o2 : List Rat) (h : o1.length = o2.length) : hamming X ncols y (some o1) = hamming X ncols y (some o2) :=
  wrapper_congr _ (hammingKernel_congr X ncols y) X ncols y o1 o2 h

theorem hamming_out_eq_fresh (X : List (List Rat)) (ncols : Nat) (y o : List Rat) (h : o.length = X.length) : hamming X ncols y (some o) = hamming X ncols y none :=
  wrapper_none _ (hammingKernel_congr X ncols y) X ncols y o h

-- non-vacuity: a real distance comes out, whatever was in `out`; and the `+=` loop alone
-- (the kernel with its zeroing loop removed) does depend on the previous content
example : ok? (manhattan [[1, 2], [3, 5]] 2 [0, 1] (some [100, -7]))
    = some [2, 7] := by decide +kernel
example : ok? (manhattan [[1, 2], [3, 5]] 2 [0, 1] none)
    = some [2, 7] := by decide +kernel
example : ok? (hamming [[1, 2], [0, 1]] 2 [0, 1] (some [100, -7]))
    = some [some 1, some 0] := by decide +kernel
example : ok? (hamming [[], []] 0 [] none)
    = some [none, none] := by decide +kernel
example : accumulate (fun x yj => absR (x - yj)) [[1, 2], [3, 5]] [0, 1] [100, -7] = [102, 0] := by decide +kernel
example : err? (manhattan [[1, 2]] 2 [0, 1] (some [1, 2]))
    = some .dataInvalid := by decide +kernel

/-- `libinfo.matrix_bincount2d`: the block `np.zeros` receives from the allocator is irrelevant -/
theorem bincount_out_independent_of_initial (a : List (List Int)) (fa : Nat) (b : List (List Int)) (fb na nb : Nat) (g1 g2 : Nat → Nat → Nat → Nat → Nat) : matrixBincount2d a fa b fb na nb g1 = matrixBincount2d a fa b fb na nb g2 :=
  rfl

/-- each cell of the zero-started accumulation is exactly the number of co-occurrences … -/
theorem bincount_cell_is_pair_count (a b : List (List Int)) (fa fb i j : Nat) : bincountFrom (fun _ _ _ _ => 0) a b fa fb i j = pairCount (column a fa) (column b fb) i j :=
  bincountFrom_zero a b fa fb i j

/-- … whereas started from a block with content `jc0` it is off by exactly that content -/
theorem bincount_from_garbage_offset (jc0 : Nat → Nat → Nat → Nat → Nat) (a b : List (List Int)) (fa fb i j : Nat) : bincountFrom jc0 a b fa fb i j = jc0 fa fb i j + bincountFrom (fun _ _ _ _ => 0) a b fa fb i j := by
  simp [bincountFrom]

example : ok? (matrixBincount2d [[0, 1], [1, 1], [0, 1]] 2 [[0], [0], [1]] 1 2 2 (fun _ _ _ _ => 99))
    = some [[[[1, 1], [1, 0]]], [[[0, 0], [2, 1]]]] := by decide +kernel
example : err? (matrixBincount2d [[0], [2]] 1 [[0], [0]] 1 2 2 (fun _ _ _ _ => 0))
    = some .assertion := by decide +kernel
example : err? (matrixBincount2d [[0], [-1]] 1 [[0], [0]] 1 2 2 (fun _ _ _ _ => 0))
    = some .assertion := by decide +kernel
example : err? (matrixBincount2d [] 1 [] 1 2 2 (fun _ _ _ _ => 0))
    = some .valueError := by decide +kernel

end C19
