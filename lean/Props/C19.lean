import Model.Masked
import Model.Generated.UfuncSites
import Proofs.C19
import Proofs.C13Spec
import Proofs.C18Jc
/-!
C19 — results depend on arguments only, not on history, threads or heap contents.

THE PROPERTY (`C19_arguments_only_full`, NOT asserted): for every numerical routine of the library,
under its real execution semantics, the value is a function of the arguments alone — whatever the
heap held, however the OpenMP iterations interleave, however many threads / worker processes run,
whatever was computed before — and no argument is modified unless documented in place.  There is no
Lean semantics of CPython, numpy, the C runtime or the OS scheduler, so this is not a theorem.

WHAT IS PROVED (each an instance of one clause for executable models of the code):
* heap clause       — `heap_clause_modelled_partial` : the models of the masked-ufunc routines, of the
                      libdist wrappers and of `matrix_bincount2d` satisfy the property when the world is
                      the heap (every allocation receives arbitrary previous content);
                      supporting statements: `masked_ufunc_garbage_independent` (both directions),
                      `shannon_entropy_eq_spec`, `*_out_independent_of_initial`, `bincount_*`.
* thread clause     — `thread_clause_libdist_partial`, `thread_clause_libdist_initial_partial`,
                      `thread_clause_joint_counts_partial`: word for word the statements of
                      `C13.interleaving_independent`, `C13.out_independent_of_initial` and
                      `C18.jc_interleaving` (other models of the same kernels, with schedules), proved from
                      the same lemmas of Proofs/C13*, Proofs/C18Jc.  They are imported at the Proofs level,
                      not through Props/C13, Props/C18, so that those properties' own source obligations
                      (`decide`s over their generated tables) do not gate this file.
* source obligations — `all_sites_initialised`, `all_alloc_sites_initialised`,
                      `all_accumulators_initialised`, `all_accumulators_single_writer`: `decide`d over tables regenerated from the source on
                      every run; they tie the heap clause to what the code contains today.
CORRESPONDENCE-ONLY (no model, sampled by harness/props/c19.py): "no routine modifies an array passed to
it" (argument byte snapshots; the models are pure functions, so the second conjunct of `ArgumentsOnly`
holds for them by construction and says nothing about the code), worker-process-count independence,
call-history independence (memo / module state), every routine without a model here, and that the
interpreter and C runtime read no uninitialised memory elsewhere.
-/
namespace C19
open Ens.Masked Ens.Generated.UfuncSites

/-- The property, for a library given as routines under an execution semantics with world `W`
(heap × schedule × worker count × call history for the real library).  Unasserted. -/
def C19_arguments_only_full {W : Type} (lib : List (Routine W)) : Prop :=
  ∀ r ∈ lib, ArgumentsOnly r

/-! ### heap clause for the modelled routines -/

/-- what every allocation of one execution may find in its block, per element type -/
structure Heap where
  rat : Nat → Rat
  fv : Nat → FV
  nat : Nat → Nat

/-- `np.<ufunc>(args, where=mask, out=np.zeros(shape))` as the six call sites in the source are written -/
def maskedRoutine (f : Rat → Rat) : Routine Heap where
  Args := List Bool × List Rat
  Val := Except Err (List Rat)
  run := fun w a => (maskedApply f a.1 a.2 (some (npFull 0 a.2.length w.rat)) (npEmpty a.2.length w.rat), a)
  inPlace := false

def shannonRoutine (lg : Rat → FV) : Routine Heap where
  Args := List Rat
  Val := Except Err FV
  run := fun w p => (shannonEntropy lg p w.fv, p)
  inPlace := false

/-- libdist wrappers; `out` is documented as the place the distances are written to -/
def manhattanRoutine : Routine Heap where
  Args := List (List Rat) × Nat × List Rat × Option (List Rat)
  Val := Except Err (List Rat)
  run := fun w a => (manhattan a.1 a.2.1 a.2.2.1 a.2.2.2 w.rat, a)
  inPlace := true

def bincountRoutine : Routine Heap where
  Args := List (List Int) × Nat × List (List Int) × Nat × Nat × Nat
  Val := Except Err (List (List (List (List Nat))))
  run := fun w a => (matrixBincount2d a.1 a.2.1 a.2.2.1 a.2.2.2.1 a.2.2.2.2.1 a.2.2.2.2.2 w.nat, a)
  inPlace := false

def modelledRoutines (f : Rat → Rat) (lg : Rat → FV) : List (Routine Heap) :=
  [maskedRoutine f, shannonRoutine lg, manhattanRoutine, bincountRoutine]

def heap0 : Heap := ⟨fun _ => 0, fun _ => some 0, fun _ => 0⟩

/-- HEAP CLAUSE, PARTIAL: the modelled routines are functions of their arguments whatever every
allocation finds in its block.  (Missing for the full property: schedules, worker counts, call history,
the remaining routines, and the correspondence between these models and the code.) -/
theorem heap_clause_modelled_partial (f : Rat → Rat) (lg : Rat → FV) : C19_arguments_only_full (modelledRoutines f lg) := by
  intro r hr
  simp only [modelledRoutines, List.mem_cons, List.mem_nil_iff, or_false] at hr
  rcases hr with rfl | rfl | rfl | rfl
  · refine ⟨⟨fun a => ((maskedRoutine f).run heap0 a).1, fun w (a : List Bool × List Rat) => ?_⟩, fun _ _ _ => rfl⟩
    change maskedApply f a.1 a.2 (some (npFull 0 a.2.length w.rat)) (npEmpty a.2.length w.rat) = maskedApply f a.1 a.2 (some (npFull 0 a.2.length heap0.rat)) (npEmpty a.2.length heap0.rat)
    rw [npFull_heap_independent 0 a.2.length w.rat heap0.rat]
    rfl
  · refine ⟨⟨fun p => ((shannonRoutine lg).run heap0 p).1, fun w (p : List Rat) => ?_⟩, fun _ _ _ => rfl⟩
    change shannonEntropy lg p w.fv = shannonEntropy lg p heap0.fv
    rw [shannonEntropy_eq_spec lg p w.fv, shannonEntropy_eq_spec lg p heap0.fv]
  · refine ⟨⟨fun a => (manhattanRoutine.run heap0 a).1, fun w (a : List (List Rat) × Nat × List Rat × Option (List Rat)) => ?_⟩, fun h => by simp [manhattanRoutine] at h⟩
    change manhattan a.1 a.2.1 a.2.2.1 a.2.2.2 w.rat = manhattan a.1 a.2.1 a.2.2.1 a.2.2.2 heap0.rat
    cases a.2.2.2 with
    | none => exact wrapper_fresh _ a.1 a.2.1 a.2.2.1 w.rat heap0.rat
    | some o => exact wrapper_congr _ (manhattanKernel_congr a.1 a.2.1 a.2.2.1) a.1 a.2.1 a.2.2.1 _ _ w.rat heap0.rat rfl
  · refine ⟨⟨fun a => (bincountRoutine.run heap0 a).1, fun w (a : List (List Int) × Nat × List (List Int) × Nat × Nat × Nat) => ?_⟩, fun _ _ _ => rfl⟩
    exact matrixBincount2d_heap_independent _ _ _ _ _ _ w.nat heap0.nat

/-! ### thread clause: restated from C13 and C18 -/

/-- THREAD CLAUSE for libdist (C13's model of the same kernels, with schedules): every interleaving of
the rows' step sequences — any thread count, any assignment of iterations to threads, any preemption —
leaves the buffer the sequential loop leaves. -/
theorem thread_clause_libdist_partial {ε} (k : Ens.Dist.Kernel) (term : ε → ε → Rat) (rows : List (List ε)) (ys : List ε) (offset stride : Int) (buf : Nat → Ens.Dist.Cell) (hpos : ∀ i, i < rows.length → 0 ≤ Ens.Dist.idx1 offset stride i) (hs : stride ≠ 0 ∨ rows.length ≤ 1) (e : Ens.Sched.Exec Ens.Dist.Cell) (he : Ens.Sched.IsInterleaving (Ens.Dist.progsOf k term rows ys) e) : Ens.Dist.runMem offset stride e buf = Ens.Dist.runMem offset stride (Ens.Sched.seqExec (Ens.Dist.progsOf k term rows ys)) buf := by
  apply Ens.Dist.runMem_interleaving_independent (Ens.Dist.progsOf k term rows ys) e _ he (Ens.Sched.seqExec_isInterleaving _)
  · intro i hi; exact hpos i (by rw [Ens.Dist.progsOf_length] at hi; exact hi)
  · rw [Ens.Dist.progsOf_length]; exact hs

/-- THREAD + HEAP CLAUSE for libdist with a caller-supplied `out`: two runs under two arbitrary
schedules, started from two arbitrary buffer contents, agree on every cell of the result. -/
theorem thread_clause_libdist_initial_partial {ε} (k : Ens.Dist.Kernel) (term : ε → ε → Rat) (X y : Ens.Dist.Arr ε) (out1 out2 : Ens.Dist.Arr Ens.Dist.Cell) (choices1 choices2 : List Nat) (r1 r2 : Ens.Dist.Result) (hoff : out1.offset = out2.offset) (hsh : out1.shape = out2.shape) (hst : out1.strides = out2.strides) (h1 : Ens.Dist.kernelRun k term X y out1 choices1 = .ok r1) (h2 : Ens.Dist.kernelRun k term X y out2 choices2 = .ok r2) : ∃ n so, out1.shape = [n] ∧ out1.strides = [so] ∧ ∀ i, i < n → r1.buf[Ens.Dist.outPos out1.offset so i]? = r2.buf[Ens.Dist.outPos out1.offset so i]? ∧ (r1.buf[Ens.Dist.outPos out1.offset so i]?).isSome :=
  Ens.Dist.kernelRun_init_independent k term X y out1 out2 choices1 choices2 r1 r2 hoff hsh hst h1 h2

/-- THREAD CLAUSE for `libinfo.matrix_bincount2d` (C18's model): every interleaving of the `prange`
iterations computes the table of the sequential triple loop. -/
theorem thread_clause_joint_counts_partial (a b : Ens.Info.Arr) (e : Ens.Sched.Exec Ens.Info.Slab) (h : Ens.Sched.IsInterleaving (Ens.Info.progs a b) e) : Ens.Sched.run e (fun _ => Ens.Info.zeroSlab) = Ens.Sched.run (Ens.Info.seqExec a b) (fun _ => Ens.Info.zeroSlab) :=
  Ens.Info.jc_interleaving_core a b e h

/-! ### (i) masked element-wise operation -/

/-- Both directions, each a statement about what the allocator handed out (`g`, `h` : content of the
blocks).  (a) `out=np.full(z)` (np.zeros): the same result for all heap contents.  (b) no `out`, or
`out=np.empty(..)`: for a mask of the operands' length and two distinct values, the result is the same for
all heap contents iff no cell is masked out. -/
theorem masked_ufunc_garbage_independent {α β} (f : α → β) (mask : List Bool) (args : List α) (z : β) : (∀ (g1 g2 : Nat → β) (h1 h2 : List β), maskedApply f mask args (some (npFull z args.length g1)) h1 = maskedApply f mask args (some (npFull z args.length g2)) h2) ∧ (mask.length = args.length → ∀ b1 b2 : β, b1 ≠ b2 → ((∀ g1 g2 : List β, g1.length = args.length → g2.length = args.length → maskedApply f mask args none g1 = maskedApply f mask args none g2) ↔ ∀ m ∈ mask, m = true)) := by
  refine ⟨fun g1 g2 h1 h2 => ?_, fun hm b1 b2 hb => maskedApply_none_independent_iff f mask args hm b1 b2 hb⟩
  rw [npFull_heap_independent z args.length g1 g2]
  rfl

/-- the explicit witness of direction (b): a masked-out cell and two constant heaps give two results,
both for the call without `out` and for `out=np.empty(..)` -/
theorem masked_ufunc_without_out_two_results {α β} (f : α → β) (mask : List Bool) (args : List α) (hm : mask.length = args.length) (hf : false ∈ mask) (b1 b2 : β) (hb : b1 ≠ b2) : maskedApply f mask args none (npEmpty args.length (fun _ => b1)) ≠ maskedApply f mask args none (npEmpty args.length (fun _ => b2)) ∧ ∀ h1 h2 : List β, maskedApply f mask args (some (npEmpty args.length (fun _ => b1))) h1 ≠ maskedApply f mask args (some (npEmpty args.length (fun _ => b2))) h2 := by
  rw [npEmpty_const, npEmpty_const]
  have key : maskedCells f mask args (List.replicate args.length b1) ≠ maskedCells f mask args (List.replicate args.length b2) := maskedCells_some_false f b1 b2 hb mask args hm hf
  refine ⟨?_, fun h1 h2 => ?_⟩
  · rw [maskedApply_none_ok f mask args _ hm (by simp), maskedApply_none_ok f mask args _ hm (by simp)]
    intro h; exact key (by simpa using h)
  · rw [maskedApply_some_ok f mask args _ h1 hm (by simp), maskedApply_some_ok f mask args _ h2 hm (by simp)]
    intro h; exact key (by simpa using h)

/-- what each cell of the result holds -/
theorem masked_cell_spec {α β} (f : α → β) (mask : List Bool) (args : List α) (buf : List β) (i : Nat) (m : Bool) (a : α) (b : β) (hm : mask[i]? = some m) (ha : args[i]? = some a) (hb : buf[i]? = some b) : (maskedCells f mask args buf)[i]? = some (if m then f a else b) :=
  maskedCells_getElem? f mask args buf i m a b hm ha hb

-- non-vacuity: the hypotheses are satisfiable and the two directions really differ
example : ok? (maskedApply (fun x : Int => x + 1) [true, false] [10, 20] none (npEmpty 2 (fun _ => 7)))
    = some [11, 7] := by decide +kernel
example : ok? (maskedApply (fun x : Int => x + 1) [true, false] [10, 20] none (npEmpty 2 (fun k => 7 + 2 * k)))
    = some [11, 9] := by decide +kernel
example : ok? (maskedApply (fun x : Int => x + 1) [true, false] [10, 20] (some (npFull 0 2 (fun k => 7 + 2 * k))) [])
    = some [11, 0] := by decide +kernel
example : ok? (maskedApply (fun x : Int => x + 1) [true, false] [10, 20] (some (npEmpty 2 (fun k => 7 + 2 * k))) [])
    = some [11, 9] := by decide +kernel
example : err? (maskedApply (fun x : Int => x + 1) [true] [10, 20] none [7, 9])
    = some .shapeMismatch := by decide +kernel

/-! ### (ii) obligations regenerated from the source on every run -/

/-- every call that carries `where=` (or may carry it in a `**` splat) and is not provably a non-ufunc
passes an `out=` that is recognisably an initialised buffer (zeros / ones / full / copy …, or a name whose
every binding in the function is one); `.pyx` files are scanned textually -/
theorem all_sites_initialised : ∀ s ∈ sites, s.hasOut = true := by decide

/-- allocations whose initialisation the translator cannot recognise, reviewed by hand:
`mpi/io.py load_npy_as_striped local_data` — filled by consecutive slice writes `local_data[start:end] = …`
whose offsets are chained (`start = end`) and closed by `assert end == len(local_data)` -/
def reviewedAllocs : List (String × String × String) :=
  [("enspara/mpi/io.py", "load_npy_as_striped", "local_data")]

/-- every `np.empty` / `empty_like` / `ndarray(` allocation in enspara/**/*.py and *.pyx is followed by a
recognised total initialisation (`.fill`, `[:] =`, the index loop over its length, an MPI receive-type
collective as the first use, object dtype) or is in the reviewed list above -/
theorem all_alloc_sites_initialised : ∀ s ∈ allocSites, s.init ≠ InitKind.uninitialised ∨ (s.file, s.func, s.target) ∈ reviewedAllocs := by decide

/-- in every `.pyx` kernel, every buffer that is accumulated into (`b[i] op= …` or `b[i] = b[i] op …`) got
defined content first: zeroed over the same full iteration space and not under a condition, allocated by
`np.zeros`, or bound to a computed array -/
theorem all_accumulators_initialised : ∀ s ∈ accumSites, s.init ≠ AccumInit.uninitialised := by decide

/-- thread clause, source side: every accumulation inside a parallel region has ONE writer per cell — each
`prange` variable enclosing it is a component of the accumulated index, the first one (the position the
C13 / C18 interleaving models assume: `out[i]`, `jc[a_row, …]`); no accumulation sits under a `prange` over a
variable absent from its index (interchanged loops, a `prange` moved to the frame loop) -/
theorem all_accumulators_single_writer : ∀ s ∈ accumSites, s.owner = Owner.serial ∨ s.owner = Owner.ownedAt0 := by decide

/-! ### (i') `shannon_entropy` on top of the masked log, NaN-propagating values -/

/-- the code as it is equals the fixed function `-Σ_{p_i>0} p_i·log p_i` for every heap -/
theorem shannon_entropy_eq_spec (lg : Rat → FV) (p : List Rat) (g : Nat → FV) : shannonEntropy lg p g = .ok (entropySpec lg p) :=
  shannonEntropy_eq_spec lg p g

theorem shannon_entropy_heap_independent (lg : Rat → FV) (p : List Rat) (g1 g2 : Nat → FV) : shannonEntropy lg p g1 = shannonEntropy lg p g2 := by
  rw [shannonEntropy_eq_spec, shannonEntropy_eq_spec]

/-- without `out=` (the code before the fix): as soon as one probability is not positive and the
logarithm is finite on positives, a NaN-filled recycled block and the specified value differ -/
theorem shannon_entropy_without_out_depends_on_heap (lg : Rat → FV) (p : List Rat) (hlg : ∀ x, 0 < x → (lg x).isSome) (hz : ∃ x ∈ p, ¬ 0 < x) : shannonEntropyNoOut lg p (fun _ => none) ≠ .ok (entropySpec lg p) := by
  rw [shannonEntropyNoOut_nan lg p hz]
  intro h
  have hs := entropySpec_isSome lg p hlg
  have : entropySpec lg p = none := by injection h with h'; exact h'.symm
  rw [this] at hs
  simp at hs

-- the DESIGN.md witness `p = [.5, .5, 0, 0]`: zeros in the heap give the right value, NaNs give NaN
example : ok? (shannonEntropyNoOut (fun _ => some (-1)) [1/2, 1/2, 0, 0] (fun _ => some 0))
    = some (some 1) := by decide +kernel
example : ok? (shannonEntropyNoOut (fun _ => some (-1)) [1/2, 1/2, 0, 0] (fun _ => none))
    = some none := by decide +kernel
example : ok? (shannonEntropy (fun _ => some (-1)) [1/2, 1/2, 0, 0] (fun _ => none))
    = some (some 1) := by decide +kernel

/-! ### (iii) kernels zero their outputs before accumulating -/

/-- `libdist.manhattan(X, y, out=o)`: the previous content of `o` (and of the heap) is irrelevant … -/
theorem manhattan_out_independent_of_initial (X : List (List Rat)) (ncols : Nat) (y o1 o2 : List Rat) (g1 g2 : Nat → Rat) (h : o1.length = o2.length) : manhattan X ncols y (some o1) g1 = manhattan X ncols y (some o2) g2 :=
  wrapper_congr _ (manhattanKernel_congr X ncols y) X ncols y o1 o2 g1 g2 h

/-- … and equals the call that lets the routine allocate, whatever that allocation finds -/
theorem manhattan_out_eq_fresh (X : List (List Rat)) (ncols : Nat) (y o : List Rat) (g1 g2 : Nat → Rat) (h : o.length = X.length) : manhattan X ncols y (some o) g1 = manhattan X ncols y none g2 :=
  wrapper_none _ (manhattanKernel_congr X ncols y) X ncols y o g1 g2 h

theorem euclidean_out_independent_of_initial (sqrtF : Rat → Rat) (X : List (List Rat)) (ncols : Nat) (y o1 o2 : List Rat) (g1 g2 : Nat → Rat) (h : o1.length = o2.length) : euclidean sqrtF X ncols y (some o1) g1 = euclidean sqrtF X ncols y (some o2) g2 :=
  wrapper_congr _ (euclideanKernel_congr sqrtF X ncols y) X ncols y o1 o2 g1 g2 h

theorem euclidean_out_eq_fresh (sqrtF : Rat → Rat) (X : List (List Rat)) (ncols : Nat) (y o : List Rat) (g1 g2 : Nat → Rat) (h : o.length = X.length) : euclidean sqrtF X ncols y (some o) g1 = euclidean sqrtF X ncols y none g2 :=
  wrapper_none _ (euclideanKernel_congr sqrtF X ncols y) X ncols y o g1 g2 h

theorem hamming_out_independent_of_initial (X : List (List Rat)) (ncols : Nat) (y o1 o2 : List Rat) (g1 g2 : Nat → Rat) (h : o1.length = o2.length) : hamming X ncols y (some o1) g1 = hamming X ncols y (some o2) g2 :=
  wrapper_congr _ (hammingKernel_congr X ncols y) X ncols y o1 o2 g1 g2 h

theorem hamming_out_eq_fresh (X : List (List Rat)) (ncols : Nat) (y o : List Rat) (g1 g2 : Nat → Rat) (h : o.length = X.length) : hamming X ncols y (some o) g1 = hamming X ncols y none g2 :=
  wrapper_none _ (hammingKernel_congr X ncols y) X ncols y o g1 g2 h

-- non-vacuity: a real distance comes out, whatever was in `out` / the heap; and the `+=` loop alone
-- (the kernel with its zeroing loop removed) does depend on the previous content
example : ok? (manhattan [[1, 2], [3, 5]] 2 [0, 1] (some [100, -7]) (fun _ => 3))
    = some [2, 7] := by decide +kernel
example : ok? (manhattan [[1, 2], [3, 5]] 2 [0, 1] none (fun k => 50 + k))
    = some [2, 7] := by decide +kernel
example : ok? (hamming [[1, 2], [0, 1]] 2 [0, 1] (some [100, -7]) (fun _ => 3))
    = some [some 1, some 0] := by decide +kernel
example : ok? (hamming [[], []] 0 [] none (fun _ => 3))
    = some [none, none] := by decide +kernel
example : accumulate (fun x yj => absR (x - yj)) [[1, 2], [3, 5]] [0, 1] [100, -7] = [102, 0] := by decide +kernel
example : err? (manhattan [[1, 2]] 2 [0, 1] (some [1, 2]) (fun _ => 0))
    = some .dataInvalid := by decide +kernel

/-- `libinfo.matrix_bincount2d`: what the block held before `np.zeros` overwrote it is irrelevant
(a statement about the zeroing: `matrixBincount2dNoZero` below fails it) -/
theorem bincount_out_independent_of_initial (a : List (List Int)) (fa : Nat) (b : List (List Int)) (fb na nb : Nat) (g1 g2 : Nat → Nat) : matrixBincount2d a fa b fb na nb g1 = matrixBincount2d a fa b fb na nb g2 :=
  matrixBincount2d_heap_independent a fa b fb na nb g1 g2

/-- with `np.empty` in place of `np.zeros` the table depends on the heap (concrete witness) -/
theorem bincount_without_zeroing_counterexample : ¬ (∀ g1 g2 : Nat → Nat, matrixBincount2dNoZero [[0]] 1 [[0]] 1 1 1 g1 = matrixBincount2dNoZero [[0]] 1 [[0]] 1 1 1 g2) := by
  intro h
  have := congrArg ok? (h (fun _ => 0) (fun _ => 5))
  revert this
  decide +kernel

example : ok? (matrixBincount2d [[0, 1], [1, 1], [0, 1]] 2 [[0], [0], [1]] 1 2 2 (fun k => 99 + k))
    = some [[[[1, 1], [1, 0]]], [[[0, 0], [2, 1]]]] := by decide +kernel
example : ok? (matrixBincount2dNoZero [[0, 1], [1, 1], [0, 1]] 2 [[0], [0], [1]] 1 2 2 (fun k => 10 * k))
    = some [[[[1, 11], [21, 30]]], [[[40, 50], [62, 71]]]] := by decide +kernel
example : err? (matrixBincount2d [[0], [2]] 1 [[0], [0]] 1 2 2 (fun _ => 0)) = some .assertion := by decide +kernel
example : err? (matrixBincount2d [[0], [-1]] 1 [[0], [0]] 1 2 2 (fun _ => 0)) = some .assertion := by decide +kernel
example : err? (matrixBincount2d [] 1 [] 1 2 2 (fun _ => 0)) = some .valueError := by decide +kernel

end C19
