namespace C01
theorem placeholder : True := trivial
end C01
