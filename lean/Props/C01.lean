import Proofs.C01Examples
/-!
C01 — clustering results are self-consistent for every algorithm and input.

`Consistent D n s` (Proofs/C01Pam.lean) is the property's predicate: center coordinates are the frames at
the center indices (which are frames of the data); every frame's distance is the table distance to the
center it is labelled with, the label being a position of the center list; no center is strictly closer;
every center frame carries its own label at distance zero.
`TableOK D n`: the metric is zero exactly on the diagonal and never negative ("distinct points");
neither symmetry nor the triangle inequality is assumed.
"Inputs are not modified" and float rounding are outside the model (checked on the real code by
byte snapshots / tolerances in harness/props/c01.py).
All theorems: every size `n`, every table, every stopping parameter, every proposal list / oracle.

Hypotheses that are NOT guards of the code but the property's own quantifier:
* `nClusters ≠ some 0` and `0 ≤ cutoff` ("cluster counts / radii"): `kcenters(n_clusters=0)` returns the empty
  clustering and a negative radius with more clusters than frames re-adds frame 0; the code checks neither.
* init centers / supplied center indices are DISTINCT frames of the data (`Nodup`, `< n`): "data sets of distinct
  points", "start from frames of the data".  With a repeated init frame the real code (and the model, see the
  `example` after `kcenters_consistent`) reports fewer center indices than center coordinates, because
  `find_cluster_centers` sees no frame labelled with the second copy.  Outside the quantifier; the harness runs
  such inputs only to compare code and model (tag `outside-quantifier:repeated-init-frame`).
* `WarmOK` with supplied labels/distances assumes that the caller's arrays are `Consistent` for the supplied (or
  inferred) centers - "starting from a supplied consistent state".  The code itself only asserts
  `distances[cluster_center_inds] < 0.001`; arrays that pass that assert but are not a nearest-center labelling
  are outside the property.
-/
namespace C01
open Ens Ens.Cluster Ens.Cluster.Ex

/-! ### `assign_to_nearest_center` -/

/-- the loop branch of `assign_to_nearest_center` over distinct frames of the data gives a consistent state -/
theorem assignNearest_consistent {D : Table} {n : Nat} (T : TableOK D n) {cs : List Nat}
    (hne : cs ≠ []) (hnd : cs.Nodup) (hlt : ∀ c ∈ cs, c < n) :
    Consistent D n { arr := assignNearest D n cs, ctrInds := cs, ctrFrames := cs } :=
  Consistent.of_runMin T (RunMin.assignNearest D n cs) hne (Inj_of_nodup hnd) hlt

example : Consistent D6 6 s6 := assignNearest_consistent D6_ok (by decide) (by decide) (by decide)

/-- `assign_to_nearest_center` as the C01 entry points call it: centers = distinct frames of the data, hence
at most `n` of them, hence the loop branch (the per-frame argmin branch needs more centers than frames; for it
see `assignToNearestCenter_nearest` below, which needs neither distinctness nor `c < n`) -/
theorem assignToNearestCenter_consistent {D : Table} {n : Nat} (T : TableOK D n) {cs : List Nat} {xyz : Bool}
    {a : Arr} (hne : cs ≠ []) (hnd : cs.Nodup) (hlt : ∀ c ∈ cs, c < n)
    (h : assignToNearestCenter D n cs xyz = .ok a) :
    Consistent D n { arr := a, ctrInds := cs, ctrFrames := cs } :=
  Consistent.of_runMin T (RunMin.assignToNearestCenter h hne) hne (Inj_of_nodup hnd) hlt

/-- BOTH branches of `assign_to_nearest_center`, for ANY non-empty list of centers given as columns of the table
(repeats allowed, more centers than frames allowed - with `xyz = true` that is the per-frame argmin branch):
every frame's label is a position of the center list, its distance is the table distance to that center, and no
center is strictly closer.  ("Centers own their label at distance 0" is meaningless for repeated centers and is
not claimed here.) -/
theorem assignToNearestCenter_nearest {D : Table} {n : Nat} {cs : List Nat} {xyz : Bool} {a : Arr}
    (hne : cs ≠ []) (h : assignToNearestCenter D n cs xyz = .ok a) :
    a.fresh = false ∧
    (∀ f, f < n → ∃ (k c : Nat), a.assign f = (k : Nat) ∧ cs[k]? = some c ∧ a.dist f = D f c) ∧
    (∀ f, f < n → ∀ (k c : Nat), cs[k]? = some c → ¬ D f c < a.dist f) := by
  have hr := RunMin.assignToNearestCenter h hne
  refine ⟨?_, hr.lab hne, hr.best⟩
  cases hx : a.fresh
  · rfl
  · exact absurd (hr.fresh_iff.mp hx) hne

/-- the argmin branch really runs and agrees with the loop branch: 3 centers (one repeated), 2 frames -/
example : assignToNearestCenter D6 2 [5, 1, 1] true = assignArgmin D6 2 [5, 1, 1] ∧
    (assignToNearestCenter D6 2 [5, 1, 1] true).toOption.map (fun a => (a.assignA, a.distA)) =
      some (#[1, 1], #[1, 0]) ∧
    (assignToNearestCenter D6 2 [5, 1, 1] false).toOption.map (fun a => (a.assignA, a.distA)) =
      some (#[1, 1], #[1, 0]) := by decide +kernel

/-- `find_cluster_centers` recovers the center indices of a consistent state (so the indices inferred by the
warm starts are the centers the labels refer to) -/
theorem findClusterCenters_of_consistent {D : Table} {n : Nat} (T : TableOK D n) {s : St}
    (hs : Consistent D n s) : findClusterCenters n s.arr = some s.ctrInds :=
  findClusterCenters_eq T hs

/-! ### what `Consistent` gives: labels in range, distinct centers -/

theorem consistent_labels_in_range {D : Table} {n : Nat} {s : St} (hs : Consistent D n s) {f : Nat}
    (hf : f < n) : 0 ≤ s.arr.assign f ∧ s.arr.assign f < (s.ctrInds.length : Nat) := by
  obtain ⟨k, c, h1, h2, _⟩ := hs.lab f hf
  have := getElem?_lt h2
  rw [h1]; constructor
  · exact Int.natCast_nonneg k
  · exact_mod_cast this

theorem consistent_centers_distinct {D : Table} {n : Nat} {s : St} (hs : Consistent D n s) :
    s.ctrInds.Nodup := by
  rw [List.nodup_iff_getElem?_ne_getElem?]
  intro i j hij hj h
  have hi : i < s.ctrInds.length := lt_trans hij hj
  have e1 : s.ctrInds[i]? = some s.ctrInds[i] := List.getElem?_eq_getElem hi
  have e2 : s.ctrInds[j]? = some s.ctrInds[i] := by rw [← h]; exact e1
  have := hs.inj i j _ e1 e2
  omega

/-! ### k-centers -/

/-- `kcenters` (cold start, or warm start from distinct frames of the data) returns a consistent state,
for every cluster count ≥ 1 (or none) and every radius ≥ 0 -/
theorem kcenters_consistent {D : Table} {n : Nat} (T : TableOK D n) {nClusters : Option Nat} {cutoff : Rat}
    {init : Option (List Nat)} {fuel : Nat} {s : St}
    (hk : nClusters ≠ some 0) (hc : 0 ≤ cutoff)
    (hinit : ∀ cs, init = some cs → cs ≠ [] ∧ cs.Nodup ∧ ∀ c ∈ cs, c < n)
    (h : kcenters D n nClusters cutoff init fuel = .ok s) : Consistent D n s := by
  unfold kcenters at h
  simp only [bind, Except.bind] at h
  have fin : ∀ s0, KInv D n s0 → n ≠ 0 → kcentersLoop D n nClusters cutoff fuel s0 = .ok s →
      Consistent D n s := by
    intro s0 hs0 h0 h'
    obtain ⟨hinv, hstop⟩ := kcentersLoop_inv T (Nat.pos_of_ne_zero h0) hc fuel hs0 h'
    exact hinv.consistent T (stopped_nonempty hinv hk hstop)
  by_cases h0 : n = 0
  · cases init with
    | none => simp [h0, pure, Except.pure, throw, throwThe, MonadExceptOf.throw] at h
    | some cs =>
      obtain ⟨hne, _, hlt⟩ := hinit cs rfl
      obtain ⟨c, hc'⟩ := List.exists_mem_of_ne_nil cs hne
      have := hlt c hc'
      omega
  · cases init with
    | none =>
      simp only [pure, Except.pure, h0, if_false] at h
      exact fin _ (KInv.cold D n) h0 h
    | some cs =>
      obtain ⟨hne, hnd, hlt⟩ := hinit cs rfl
      simp only [kcentersWarm_ok T hne hnd hlt, h0, if_false] at h
      refine fin _ ?_ h0 h
      exact { frames := rfl, inds_lt := hlt, inj := Inj_of_nodup hnd, rm := RunMin.assignNearest D n cs }

/-- outside the quantifier: a repeated init frame leaves the second copy without any labelled frame, so
`find_cluster_centers` returns one index for two coordinates (code and model agree on this) -/
example : (kcenters D6 6 (some 1) 0 (some [4, 4]) 8).toOption.map (fun s => (s.ctrInds, s.ctrFrames)) =
    some ([4], [4, 4]) := by decide +kernel

/-- the arrays `kcenters` returns have one entry per frame -/
theorem kcenters_arrays_sized {D : Table} {n : Nat} {nClusters : Option Nat} {cutoff : Rat}
    {init : Option (List Nat)} {fuel : Nat} {s : St} (h : kcenters D n nClusters cutoff init fuel = .ok s) :
    s.arr.distA.size = n ∧ s.arr.assignA.size = n :=
  kcenters_sized h

/-- …and with `fuel ≥ n` the model's loop always finishes (the Python `while` has no bound; on distinct points
with a radius ≥ 0 it stops after at most `n` new centers): `kcenters_consistent` is never vacuous -/
theorem kcenters_total {D : Table} {n : Nat} (T : TableOK D n) (hn : 0 < n) {nClusters : Option Nat} {cutoff : Rat}
    {init : Option (List Nat)} {fuel : Nat} (hc : 0 ≤ cutoff) (hfuel : n ≤ fuel)
    (hinit : ∀ cs, init = some cs → cs ≠ [] ∧ cs.Nodup ∧ ∀ c ∈ cs, c < n) :
    ∃ s, kcenters D n nClusters cutoff init fuel = .ok s := by
  unfold kcenters
  simp only [bind, Except.bind]
  have h0 : n ≠ 0 := Nat.pos_iff_ne_zero.mp hn
  cases init with
  | none =>
    simp only [pure, Except.pure, h0, if_false]
    exact kcentersLoop_total T hn hc fuel (KInv.cold D n) (by omega)
  | some cs =>
    obtain ⟨hne, hnd, hlt⟩ := hinit cs rfl
    simp only [kcentersWarm_ok T hne hnd hlt, h0, if_false]
    exact kcentersLoop_total T hn hc fuel
      { frames := rfl, inds_lt := hlt, inj := Inj_of_nodup hnd, rm := RunMin.assignNearest D n cs } (by omega)

example : (kcenters D6 6 (some 3) 0 none 8).toOption.map (fun s => (s.ctrInds, s.arr.assignA)) =
    some ([0, 5, 3], #[0, 0, 0, 2, 2, 1]) := by decide +kernel
example : (kcenters D6 6 none 2 (some [4, 1]) 8).toOption.map (fun s => (s.ctrInds, s.ctrFrames, s.arr.assignA)) =
    some ([4, 1, 5], [4, 1, 5], #[1, 1, 1, 0, 0, 2]) := by decide +kernel

/-! ### k-medoids -/

/-- one PAM step (any proposed frame, accepted or rejected) keeps the state consistent -/
theorem pamStep_preserves_consistent {D : Table} {n : Nat} (T : TableOK D n) {s : St} (hs : Consistent D n s)
    {cid p : Nat} (hcid : cid < s.ctrInds.length) (hp : p < n) {st : PamStep}
    (h : pamStep D n s cid p = .ok st) : Consistent D n st.after :=
  pamStep_consistent T hs hcid hp h

/-- …and such a step never trips the asserts of `_kmedoids_pam_update` (the hypothesis `= .ok` above is
never vacuous) -/
theorem pamStep_total_of_consistent {D : Table} {n : Nat} (T : TableOK D n) {s : St} (hs : Consistent D n s)
    {cid p : Nat} (hcid : cid < s.ctrInds.length) (hp : p < n) : ∃ st, pamStep D n s cid p = .ok st :=
  pamStep_total T hs hcid hp

/-- the three reassignment branches of one step on the six points: frames 1,2 move to the proposal (`dst_dn`),
frames 3,4,5 stay with the other center (`dst_up_assig_other`), frame 0 is recomputed (`dst_up_assig_this`);
the step is accepted -/
example : (pamStep D6 6 s6 0 1).toOption.map (fun st => (st.dn, st.other, st.this, st.acc)) =
    some (2, 3, 1, true) := by decide +kernel
example : (pamStep D6 6 s6 0 1).toOption.map (fun st => (st.after.ctrInds, st.after.arr.assignA)) =
    some ([1, 5], #[0, 0, 0, 1, 1, 1]) := by decide +kernel
/-- a rejected step on the same state (proposal 3 for cluster 0) -/
example : (pamStep D6 6 s6 0 2).toOption.map (fun st => (st.dn, st.other, st.this, st.acc, st.after == s6)) =
    some (1, 3, 2, false, true) := by decide +kernel

/-- one sweep of `_kmedoids_pam_update` (explicit proposals or random choices from any oracle) keeps the
state consistent -/
theorem pamUpdate_preserves_consistent {D : Table} {n : Nat} (T : TableOK D n) {s s' : St}
    {props : Option (List Nat)} {orc orc' : List Nat} {tr : List PamStep} (hs : Consistent D n s)
    (h : pamUpdate D n s props orc = .ok (s', orc', tr)) : Consistent D n s' :=
  pamUpdate_consistent T hs h

/-- `kmedoids` (any number of sweeps, explicit proposals or any oracle; start from distinct center indices,
from a full consistent state, or from the labels+distances of one): the result and the state after every
sweep are consistent -/
theorem kmedoids_consistent {D : Table} {n nIters : Nat} (T : TableOK D n) {inds : Option (List Nat)}
    {ad : Option Arr} {props : Option (List Nat)} {orc : List Nat} {r : Run}
    (hw : WarmOK D n inds ad) (h : kmedoids D n nIters inds ad props orc = .ok r) :
    Consistent D n r.final ∧ ∀ x ∈ r.sweeps, Consistent D n x := by
  obtain ⟨s, hs, hit⟩ := kmedoids_start T hw h
  obtain ⟨k, _, hsw⟩ := kmedoidsIterations_ok hit
  exact sweepsFrom_consistent T (k+1) hs hsw

example : (kmedoids D6 6 2 (some [0, 5]) none (some [1, 4]) []).toOption.map
    (fun r => (r.final.ctrInds, r.final.ctrFrames, r.final.arr.assignA, r.trace.map (·.acc))) =
    some ([1, 4], [1, 4], #[0, 0, 0, 1, 1, 1], [true, true, false, false]) := by decide +kernel
example : (kmedoids D6 6 1 none (some s6.arr) none [2, 0]).toOption.map
    (fun r => (r.final.ctrInds, r.trace.map (fun st => (st.p, st.acc)))) =
    some ([0, 3], [(2, false), (3, true)]) := by decide +kernel

/-- `hybrid` = `kcenters` then the sweeps with random proposals (any oracle): consistent -/
theorem hybrid_consistent {D : Table} {n : Nat} (T : TableOK D n) {nClusters : Option Nat} {cutoff : Rat}
    {init : Option (List Nat)} {fuel nIters : Nat} {orc : List Nat} {r : Run}
    (hk : nClusters ≠ some 0) (hc : 0 ≤ cutoff)
    (hinit : ∀ cs, init = some cs → cs ≠ [] ∧ cs.Nodup ∧ ∀ c ∈ cs, c < n)
    (h : hybrid D n nClusters cutoff init fuel nIters orc = .ok r) :
    Consistent D n r.final ∧ ∀ x ∈ r.sweeps, Consistent D n x := by
  unfold hybrid at h
  simp only [bind, Except.bind] at h
  cases hkc : kcenters D n nClusters cutoff init fuel with
  | error e => simp [hkc] at h
  | ok s =>
    simp only [hkc] at h
    have hs := kcenters_consistent T hk hc hinit hkc
    by_cases hpos : nIters > 0
    · simp only [hpos, if_true] at h
      obtain ⟨k, _, hsw⟩ := kmedoidsIterations_ok h
      exact sweepsFrom_consistent T (k+1) hs hsw
    · simp only [hpos, if_false, pure, Except.pure] at h
      injection h with h; subst h
      exact ⟨hs, by simp⟩

example : (hybrid D6 6 (some 2) 0 none 8 2 [1, 1, 0, 2]).toOption.map
    (fun r => (r.final.ctrInds, r.final.arr.assignA, r.trace.map (fun st => (st.p, st.acc)))) =
    some ([1, 4], #[0, 0, 0, 1, 1, 1], [(1, true), (4, true), (0, false), (5, false)]) := by decide +kernel

/-- the arrays the sweeps return have one entry per frame whenever the arrays they start from do (accepted
candidates are built with `n` entries, rejected ones keep the old arrays) -/
theorem sweeps_arrays_sized {D : Table} {n nIters : Nat} {s : St} {props : Option (List Nat)} {orc : List Nat}
    {r : Run} (hs : s.arr.distA.size = n ∧ s.arr.assignA.size = n)
    (h : kmedoidsIterations D n nIters s props orc = .ok r) :
    r.final.arr.distA.size = n ∧ r.final.arr.assignA.size = n := by
  obtain ⟨k, _, hsw⟩ := kmedoidsIterations_ok h
  exact sweepsFrom_sized (k+1) hs hsw

/-- k-hybrid: one label and one distance per frame -/
theorem hybrid_arrays_sized {D : Table} {n : Nat} {nClusters : Option Nat} {cutoff : Rat}
    {init : Option (List Nat)} {fuel nIters : Nat} {orc : List Nat} {r : Run}
    (h : hybrid D n nClusters cutoff init fuel nIters orc = .ok r) :
    r.final.arr.distA.size = n ∧ r.final.arr.assignA.size = n := by
  unfold hybrid at h
  simp only [bind, Except.bind] at h
  cases hkc : kcenters D n nClusters cutoff init fuel with
  | error e => simp [hkc] at h
  | ok s =>
    simp only [hkc] at h
    have hs := kcenters_sized hkc
    by_cases hpos : nIters > 0
    · simp only [hpos, if_true] at h
      exact sweeps_arrays_sized hs h
    · simp only [hpos, if_false, pure, Except.pure] at h
      injection h with h; subst h
      exact hs

end C01
