import Proofs.C15Load
import Proofs.C15Concat
/-!
# C15 — stored and bulk-loaded data come back bit-identical

Property theorems about the model `Model/Store.lean` of `ra.save`, `ra.load`,
`load_as_concatenated`, `sound_trajectory`.  Values (`α`), frames (`β`) and dtypes (a tag) are
opaque: "bit-identical" is equality of the stored entries.

Outside the model, exercised only by the correspondence check `harness/props/c15.py` (which also
compares this model with the real code case by case):
* HDF5 / zlib and the **compression level** (cannot influence the stored values; 0/1/9 are run),
  mdtraj's readers, the process pool, `mp.Array`;
* the **HDF5 listing order**: `listNodes` (names sorted as strings) is a trusted description of
  PyTables' `list_nodes`, compared with the real listing in every case;
* **per-file atom-count mismatches** (frames of different shape in one call): frames are opaque;
* **float exactness of `math.ceil(n_frames / stride)`**: modelled as the exact `⌈n/s⌉`
  (equal for `n_frames < 2^53 / stride`);
* the legacy `keys=None` file format, negative strides.

Theorems carrying the PyTables guard `Storable` (no empty row, no zero inner dimension — the
unguarded statement is false, see `save_load_roundtrip_full_counterexample`) are named
`…_partial`: `save_load_roundtrip_partial`, `save_load_roundtrip_identity_partial`,
`load_subset_eq_rows_partial`, `save_load_roundtrip_ndarray_partial`.
-/
open Ens Ens.Store

namespace C15

/-- decidable equality of results (used by the `decide` examples only) -/
instance decEqExcept {ε α : Type} [DecidableEq ε] [DecidableEq α] : DecidableEq (Except ε α)
  | .ok a, .ok b => if h : a = b then isTrue (by rw [h]) else isFalse (fun e => h (Except.ok.inj e))
  | .error a, .error b => if h : a = b then isTrue (by rw [h]) else isFalse (fun e => h (Except.error.inj e))
  | .ok _, .error _ => isFalse (fun e => nomatch e)
  | .error _, .ok _ => isFalse (fun e => nomatch e)

/-! ## 1. zero-padded names sort in row order -/

/-- For rows `i, j` of an array with `nrows` rows, the node names
`tag + '_' + str(i).zfill(len(str(nrows)) + 1)` compare (code-point lexicographic order, as Python
strings do) exactly as the row numbers. -/
theorem zfill_order (tag : Name) (i j nrows : Nat) (hi : i < nrows) (hj : j < nrows) :
    keyName tag i nrows < keyName tag j nrows ↔ i < j :=
  keyName_lt_iff tag hi hj

/-- the same statement on Lean `String`s -/
theorem zfill_order_string (tag : Name) (i j nrows : Nat) (hi : i < nrows) (hj : j < nrows) :
    String.ofList (keyName tag i nrows) < String.ofList (keyName tag j nrows) ↔ i < j := by
  rw [String.lt_iff, String.toList_ofList, String.toList_ofList]
  exact keyName_lt_iff tag hi hj

example : keyName "arr".toList 9 11 = "arr_009".toList := by decide
example : keyName "arr".toList 9 11 < keyName "arr".toList 10 11 := by decide
example : keyName "arr".toList 99 250 < keyName "arr".toList 100 250 := by decide
/-- why the padding matters: unpadded decimal names do *not* sort numerically -/
theorem unpadded_order_counterexample :
    ¬ ("arr_".toList ++ pyStr 9 < "arr_".toList ++ pyStr 10) := by decide

/-- distinct rows get distinct names (so `create_carray` never meets an existing node) -/
theorem key_names_distinct (tag : Name) (nrows : Nat) : (rowNames tag nrows).Nodup :=
  rowNames_nodup tag nrows

/-- **Listed order is row order, for every row count**: in whatever order the nodes are kept,
`list_nodes` (names sorted as strings) returns `key 0, key 1, …, key (nrows-1)`. -/
theorem listed_order_is_row_order (tag : Name) (nrows : Nat) (stored : List Name)
    (h : stored.Perm (rowNames tag nrows)) : listNodes stored = rowNames tag nrows :=
  listNodes_rowNames tag nrows stored h

example : (rowNames "arr".toList 12).reverse.Perm (rowNames "arr".toList 12) := List.reverse_perm _

/-! ## 2. strides -/

/-- `len(l[::s]) = (len(l) + s - 1) // s` (the lengths `ra.load` computes without loading, and
`sound_trajectory`'s `ceil(n/stride)`) -/
theorem stride_len {α} (s : Nat) (hs : 0 < s) (l : List α) :
    (strideSel s l).length = (l.length + s - 1) / s :=
  length_strideSel s hs l

/-- element `i` of `l[::s]` is `l[i*s]` -/
theorem stride_elements {α} (s : Nat) (hs : 0 < s) (l : List α) (i : Nat) :
    (strideSel s l)[i]? = l[i * s]? :=
  getElem?_strideSel s hs l i

/-- `strideSel` is the shared CPython slice model's `l[::s]` -/
theorem stride_is_pyslice {α} [Inhabited α] (l : List α) (s : Nat) (hs : 0 < s) :
    (PySlice.mk none none (some (s : Int))).apply l = some (strideSel s l) :=
  pySlice_apply_stride l s hs

example : strideSel 3 [0, 1, 2, 3, 4, 5, 6] = [0, 3, 6] := by decide
example : (7 + 3 - 1) / 3 = 3 := by decide

/-- `sound_trajectory(trj, stride)` returns the number of frames a strided load yields -/
theorem sound_matches_strided_load {γ} (raw : List γ) (s : Nat) (hs : 0 < s) :
    soundTrajectory raw.length s = .ok (strideSel s raw).length := by
  simp only [soundTrajectory]
  rw [if_neg (by omega), length_strideSel s hs]

/-- **Load with a stride = `[:, ::stride]` of the full load**, for every file, every key
selection, every stride `≥ 1` (rows and lengths; an error of the full load is the same error
of the strided load). -/
theorem load_stride_eq_slice {α} [Inhabited α] (f : H5File α) (keys : Keys) (s : Nat) (hs : 0 < s) :
    (load f keys s).map Loaded.rows = (load f keys 1).map (fun r => r.rows.map (strideSel s))
    ∧ (load f keys s).map Loaded.lengths = (load f keys 1).map (fun r => r.lengths.map fun n => (n + s - 1) / s) :=
  ⟨load_stride_rows f keys s hs, load_stride_lengths f keys s hs⟩

/-- stride 0 is rejected (numpy: "slice step cannot be zero"), never silently mis-loaded -/
theorem load_stride_zero_rejected {α} [Inhabited α] (f : H5File α) (keys : Keys) :
    ∃ e, load f keys 0 = .error e := by
  unfold load
  split
  · split
    · exact ⟨_, rfl⟩
    · exact ⟨_, rfl⟩
  · split
    · exact ⟨_, rfl⟩
    · rename_i nodes _
      unfold loadMany
      split
      · exact ⟨_, rfl⟩
      · exact ⟨_, rfl⟩

/-! ## 3. save → load -/

/-- what PyTables accepts: no empty row, no zero in the inner shape -/
def Storable {α} (inner : List Nat) (rows : List (List α)) : Prop :=
  (∀ r ∈ rows, r ≠ []) ∧ 0 ∉ inner

theorem save_ok_of_storable {α} (tag : Name) (dt : String) (inner : List Nat) (rows : List (List α))
    (h : Storable inner rows) :
    save tag (.ragged dt inner rows) = .ok (savedFile tag dt inner rows) := by
  simp only [save]
  rw [if_pos]
  rw [List.all_eq_true]
  intro r hr
  have h1 := h.1 r hr
  have h2 := h.2
  simp only [shapeOk, Bool.and_eq_true, Bool.not_eq_true', List.isEmpty_eq_false_iff,
    List.contains_eq_mem, decide_eq_false_iff_not]
  exact ⟨h1, h2⟩

/-- **Subset / stride load of a saved array** (partial: same `Storable` guard as
`save_load_roundtrip_partial`): loading any non-empty list of rows `idx` (any
order, repetitions allowed) with stride `s ≥ 1` returns exactly the rows `rows[i][::s]`, `i ∈ idx`,
in the order asked for, with their `⌈len/s⌉` lengths, element type and inner shape; a plain
array comes back iff one key was asked for. -/
theorem load_subset_eq_rows_partial {α} [Inhabited α] (tag : Name) (dt : String) (inner : List Nat)
    (rows : List (List α)) (hst : Storable inner rows)
    (idx : List (Fin rows.length)) (hne : idx ≠ []) (s : Nat) (hs : 0 < s) :
    ∃ f r, save tag (.ragged dt inner rows) = .ok f
      ∧ load f (.list (idx.map fun i => keyName tag i.val rows.length)) s = .ok r
      ∧ r.rows = idx.map (fun i => strideSel s rows[i])
      ∧ r.lengths = idx.map (fun i => (rows[i].length + s - 1) / s)
      ∧ r.dtype = dt ∧ r.inner = inner
      ∧ (r.isPlain = true ↔ idx.length = 1) := by
  obtain ⟨r, h1, h2, h3, h4, h5, h6⟩ := load_saved_subset tag dt inner rows idx hne s hs
  exact ⟨_, r, save_ok_of_storable tag dt inner rows hst, h1, h2, h3, h4, h5, h6⟩

/-- **Round trip** (partial: guard `Storable` = what PyTables accepts; the unguarded statement
`C15_save_load_roundtrip_full` below is false, see the counterexample): saving a ragged array with
`nrows ≥ 1` rows and loading the file back (all keys, any stride `s ≥ 1`) returns the same values
in the same row order with the same row lengths (`s = 1`), element type and inner shape — for
every number of rows. -/
theorem save_load_roundtrip_partial {α} [Inhabited α] (tag : Name) (dt : String) (inner : List Nat)
    (rows : List (List α)) (hst : Storable inner rows) (hne : rows ≠ []) (s : Nat) (hs : 0 < s) :
    ∃ f r, save tag (.ragged dt inner rows) = .ok f
      ∧ names f = rowNames tag rows.length
      ∧ load f .all s = .ok r
      ∧ r.rows = rows.map (strideSel s)
      ∧ r.lengths = rows.map (fun row => (row.length + s - 1) / s)
      ∧ r.dtype = dt ∧ r.inner = inner
      ∧ (r.isPlain = true ↔ rows.length = 1) := by
  have hne' : List.finRange rows.length ≠ [] := by
    intro h
    have := congrArg List.length h
    simp at this
    exact hne this
  obtain ⟨r, h1, h2, h3, h4, h5, h6⟩ :=
    load_saved_subset tag dt inner rows (List.finRange rows.length) hne' s hs
  refine ⟨_, r, save_ok_of_storable tag dt inner rows hst, names_savedFile tag dt inner rows, ?_, ?_, ?_, h4, h5, ?_⟩
  · rw [load_all_eq_subset]; exact h1
  · rw [h2]; exact map_finRange_rows rows (strideSel s)
  · rw [h3]
    apply List.ext_getElem
    · simp
    · intro i _ _; simp [ceilDiv]
  · rw [h6]; simp

/-- with stride 1 the rows come back unchanged -/
theorem save_load_roundtrip_identity_partial {α} [Inhabited α] (tag : Name) (dt : String) (inner : List Nat)
    (rows : List (List α)) (hst : Storable inner rows) (hne : rows ≠ []) :
    ∃ f r, save tag (.ragged dt inner rows) = .ok f ∧ load f .all 1 = .ok r
      ∧ r.rows = rows ∧ r.lengths = rows.map List.length ∧ r.dtype = dt ∧ r.inner = inner := by
  obtain ⟨f, r, h1, _, h3, h4, h5, h6, h7, _⟩ := save_load_roundtrip_partial tag dt inner rows hst hne 1 (by omega)
  refine ⟨f, r, h1, h3, ?_, ?_, h6, h7⟩
  · rw [h4]
    have : (strideSel 1 : List α → List α) = id := by funext l; exact strideSel_one l
    rw [this, List.map_id]
  · rw [h5]; simp

example : Storable ([] : List Nat) [[1, 2, 3], [4, 5], [6]] := by
  refine ⟨?_, by simp⟩
  intro r hr
  simp only [List.mem_cons, List.not_mem_nil, or_false] at hr
  rcases hr with rfl | rfl | rfl <;> simp

/-- a rectangular `ndarray` is stored as the single node `tag_0` and comes back as the array
(strided along its first axis).  Partial: the guard `data ≠ []`, `0 ∉ inner` is the `Storable`
condition for the single node (PyTables refuses a zero dimension). -/
theorem save_load_roundtrip_ndarray_partial {α} [Inhabited α] (tag : Name) (dt : String) (inner : List Nat)
    (data : List α) (hd : data ≠ []) (hi : 0 ∉ inner) (s : Nat) (hs : 0 < s) :
    ∃ f, save tag (.ndarray dt inner data) = .ok f
      ∧ names f = [tag ++ "_0".toList]
      ∧ load f .all s = .ok (.plain dt inner (strideSel s data)) := by
  refine ⟨mkNodes tag 1 dt inner [data], ?_, ?_, ?_⟩
  · simp only [save]
    rw [if_pos]
    simp only [shapeOk, Bool.and_eq_true, Bool.not_eq_true', List.isEmpty_eq_false_iff,
      List.contains_eq_mem, decide_eq_false_iff_not]
    exact ⟨hd, hi⟩
  · simp [names, mkNodes, keyNameW, zfill, pyStr]
  · have hn : names (mkNodes tag 1 dt inner [data]) = [keyNameW tag 1 0] := by simp [names, mkNodes]
    simp only [load, resolveKeys]
    rw [hn]
    have : listNodes [keyNameW tag 1 0] = [keyNameW tag 1 0] := by simp [listNodes]
    rw [this]
    simp only
    have hg : getNode (mkNodes tag 1 dt inner [data]) (keyNameW tag 1 0)
        = some { dtype := dt, inner := inner, data := data } := by
      simp [getNode, mkNodes]
    rw [hg]
    simp only
    rw [if_neg (by omega)]

/-- The round trip *without* the `Storable` guard (every ragged array with at least one row). -/
def C15_save_load_roundtrip_full : Prop :=
  ∀ (tag : Name) (dt : String) (inner : List Nat) (rows : List (List Nat)), rows ≠ [] →
    ∃ f r, save tag (.ragged dt inner rows) = .ok f ∧ load f .all 1 = .ok r ∧ r.rows = rows

/-- It fails: `ra.save` raises `ValueError` for an array with an empty row (PyTables cannot
create a CArray with a zero dimension) — known finding `save-empty-row`.
`save_load_roundtrip_partial` is the partial statement (guard `Storable`). -/
theorem save_load_roundtrip_full_counterexample : ¬ C15_save_load_roundtrip_full := by
  intro h
  obtain ⟨f, r, h1, _, _⟩ := h [] "int64" [] [[1, 2], []] (by simp)
  simp [save, shapeOk] at h1

/-- an array with an empty row (or a zero inner dimension) is rejected loudly, never stored wrongly -/
theorem save_rejects_unstorable {α} (tag : Name) (dt : String) (inner : List Nat) (rows : List (List α))
    (h : ∃ r ∈ rows, r = [] ∨ 0 ∈ inner) : save tag (.ragged dt inner rows) = .error .valueError := by
  simp only [save]
  rw [if_neg]
  rw [List.all_eq_true]
  intro hall
  obtain ⟨r, hr, hbad⟩ := h
  have := hall r hr
  simp only [shapeOk, Bool.and_eq_true, Bool.not_eq_true', List.isEmpty_eq_false_iff,
    List.contains_eq_mem, decide_eq_false_iff_not] at this
  rcases hbad with h1 | h2
  · exact this.1 h1
  · exact this.2 h2

/-! ## 4. parallel loading -/

/-- the lengths of the individually loaded trajectories -/
abbrev trueLengths {β} (specs : List (FileSpec β)) : List Nat := (specs.map (·.loaded)).map List.length

/-- `load_as_concatenated([])` raises `IndexError` (`args[0]` is evaluated first), with or
without a hint, for every schedule -/
theorem parallel_load_no_files_rejected {β} (hint : Option (List Nat)) (order : List Nat) (init : Nat → β) :
    loadAsConcatenated ([] : List (FileSpec β)) hint order init = .error .indexError := rfl

/-- **Windows are disjoint and tile the buffer**: with offsets `sum(lengths[0:i])` the positions
written by all workers together are `0, 1, …, total-1`, each exactly once. -/
theorem windows_disjoint {β} (specs : List (FileSpec β)) :
    (issuedCells (trueLengths specs) specs).map (·.1) = List.range (trueLengths specs).sum
    ∧ ((issuedCells (trueLengths specs) specs).map (·.1)).Nodup := by
  refine ⟨?_, issuedCells_nodup specs⟩
  rw [issuedCells_eq, blockCells_positions, List.range_eq_range', length_flatten_eq]

/-- **Order independence (completion order)**: lengths sounded (`hint = none`, mdtraj's stride
contract assumed) or given correctly; for *every* order in which the workers perform their
window writes and every initial buffer content, the result is the true lengths and the
concatenation, in file order, of the individually loaded trajectories.  At least one file
(`specs ≠ []`): the empty call raises `IndexError`, see `parallel_load_no_files_rejected`. -/
theorem parallel_load_order_independent {β} (specs : List (FileSpec β)) (hint : Option (List Nat))
    (hne : specs ≠ [])
    (hh : (hint = none ∧ ∀ sp ∈ specs, MdLoadContract sp) ∨ hint = some (trueLengths specs))
    (order : List Nat) (hp : order.Perm (List.range specs.length)) (init : Nat → β) :
    loadAsConcatenated specs hint order init = .ok (trueLengths specs, (specs.map (·.loaded)).flatten) := by
  apply loadAsConcatenated_of_lengths specs hint hne ?_ order hp init
  rcases hh with ⟨rfl, hc⟩ | rfl
  · simp only [resolveLengths]
    rw [soundAll_of_contract specs hc, List.map_map]
    rfl
  · simp [resolveLengths]

/-- **Order independence (arbitrary interleaving)**: the individual cell writes of all workers,
performed in *any* order (any interleaving of the workers, any number of processes), leave the
first `total` cells of the buffer equal to the concatenation. -/
theorem parallel_load_interleaving_independent {β} (specs : List (FileSpec β))
    (sched : List (Nat × β)) (hp : sched.Perm (issuedCells (trueLengths specs) specs)) (init : Nat → β) :
    (List.range (trueLengths specs).sum).map (runCells sched init) = (specs.map (·.loaded)).flatten := by
  rw [← length_flatten_eq]
  apply tabulate_runCells
  rw [← issuedCells_eq]
  exact hp

/-- two schedules give the same buffer -/
theorem parallel_load_schedules_agree {β} (specs : List (FileSpec β))
    (s1 s2 : List (Nat × β)) (h1 : s1.Perm (issuedCells (trueLengths specs) specs))
    (h2 : s2.Perm (issuedCells (trueLengths specs) specs)) (init : Nat → β) :
    runCells s1 init = runCells s2 init :=
  runCells_perm (h1.trans h2.symm) ((h1.map _).nodup_iff.mpr (issuedCells_nodup specs)) init

/-- sounded lengths (with the `frame=` files re-inserted as 1) are the loaded lengths -/
theorem sounded_lengths_eq_loaded {β} (specs : List (FileSpec β)) (h : ∀ sp ∈ specs, MdLoadContract sp) :
    soundAll specs = .ok (specs.map (·.loaded.length)) :=
  soundAll_of_contract specs h

/-- a loader returning `raw[::stride]` (then any atom selection) satisfies the contract -/
theorem strided_loader_meets_contract {β γ : Type} (raw : List γ) (sel : γ → β) (s : Nat) (hs : 0 < s) :
    MdLoadContract { nFrames := raw.length, stride := s, hasFrame := false, loaded := (strideSel s raw).map sel } :=
  contract_of_strided raw sel s hs

def exSpecs : List (FileSpec Nat) :=
  [ { nFrames := 3, stride := 1, hasFrame := false, loaded := [10, 11, 12] },
    { nFrames := 5, stride := 2, hasFrame := false, loaded := [20, 22, 24] },
    { nFrames := 5, stride := 2, hasFrame := true,  loaded := [23] } ]

example : ∀ sp ∈ exSpecs, MdLoadContract sp := by
  intro sp h
  simp only [exSpecs, List.mem_cons, List.not_mem_nil, or_false] at h
  rcases h with rfl | rfl | rfl <;> exact ⟨by decide, by decide⟩
example : loadAsConcatenated exSpecs none [2, 0, 1] (fun _ => 0) = .ok ([3, 3, 1], [10, 11, 12, 20, 22, 24, 23]) := by
  decide
example : loadAsConcatenated exSpecs none [0, 1, 2] (fun k => k + 100) = .ok ([3, 3, 1], [10, 11, 12, 20, 22, 24, 23]) := by
  decide

/-! ## 5. wrong length hints -/

/-- **Detected**: a hint of the wrong length is refused up front; a hint whose *total* differs
from the true total is always refused (worker broadcast error or the final check), whatever the
completion order. -/
theorem lengths_mismatch_detected_partial {β} (specs : List (FileSpec β)) (hint : List Nat)
    (hbad : hint.length ≠ specs.length ∨ hint.sum ≠ (trueLengths specs).sum)
    (order : List Nat) (hp : order.Perm (List.range specs.length)) (init : Nat → β) :
    ∃ e, loadAsConcatenated specs (some hint) order init = .error e := by
  by_cases hne : specs = []
  · subst hne; exact ⟨.indexError, rfl⟩
  rcases hbad with hl | hs
  · refine ⟨.improperlyConfigured, ?_⟩
    unfold loadAsConcatenated
    rw [if_neg (by simpa using hne)]
    rw [show resolveLengths specs (some hint)
      = (if hint.length ≠ specs.length then .error .improperlyConfigured else .ok hint) from rfl, if_pos hl]
  · obtain ⟨e, he, _⟩ := hint_total_mismatch_rejected specs hint hne hs order hp init
    exact ⟨e, he⟩

/-- Full strength would be: *every* wrong hint is refused. -/
def C15_lengths_mismatch_detected_full : Prop :=
  ∀ (specs : List (FileSpec Nat)) (hint : List Nat), hint ≠ trueLengths specs →
    ∀ (order : List Nat), order.Perm (List.range specs.length) → ∀ (init : Nat → Nat),
      ∃ e, loadAsConcatenated specs (some hint) order init = .error e

def swapSpecs : List (FileSpec Nat) :=
  [ { nFrames := 2, stride := 1, hasFrame := false, loaded := [1, 2] },
    { nFrames := 1, stride := 1, hasFrame := false, loaded := [4] } ]

/-- It does not hold: the code only compares totals.  With the two lengths swapped the call
succeeds and returns overlapping windows (and the content depends on which worker finishes
last).  The `lengths` argument is documented as "a speed benefit only"; a correct hint is the
caller's obligation, so this is not counted as a violation of the property. -/
theorem lengths_mismatch_detected_counterexample : ¬ C15_lengths_mismatch_detected_full := by
  intro h
  obtain ⟨e, he⟩ := h swapSpecs [1, 2] (by decide) [0, 1] (by decide) (fun _ => 0)
  have : loadAsConcatenated swapSpecs (some [1, 2]) [0, 1] (fun _ => 0) = .ok ([1, 2], [1, 4, 0]) := by decide
  rw [this] at he
  cases he

/-- under a wrong (total-preserving) hint the result even depends on the schedule -/
theorem wrong_hint_schedule_dependent_counterexample :
    loadAsConcatenated swapSpecs (some [1, 2]) [0, 1] (fun _ => 0)
      ≠ loadAsConcatenated swapSpecs (some [1, 2]) [1, 0] (fun _ => 0) := by decide

end C15
