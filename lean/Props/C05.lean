import Proofs.C05Fixed
/-!
C05 — reading a ragged array equals reading the list of its rows.

`Ens.Ragged` (Model/Ragged.lean) mirrors `enspara/ra/ra.py`.  `rows ra` is the list of rows a ragged
array stands for; `specGet (rows ra) idx` is the same read on that plain list (numpy semantics on
every row, `Model.PySlice` for slices).  `absE` turns a returned value into what it stands for (a new
RaggedArray into its list of rows).  Every refinement theorem has the shape
`absE (getItemF ra fast idx) = specGet (rows ra) idx` — equality of `Except` values, so the error
branch is covered too.

**Current code** (`getItemF` = `getItemV true`: `_slice_to_list` / `_get_iis_from_slices` use
`slice.indices(len)`, empty selections are built with integer dtype, `__init__` keeps an empty `_data`
and reshapes to `(n, L) + cell shape`).  All property theorems of the first part are about this
variant and are proved in full: no excluded region; the only hypotheses are
* `WF ra` — `sum lengths = len data` (what `__init__` enforces via `partition_list` / `reshape`);
* `FastOKF ra fast` — when the row view was built by `reshape` the lengths are all equal (the guard
  `np.all(lengths == lengths[0])` of `__init__`);
* the property's own grammar: column-slice step ≠ 0, paired index lists of equal length, a mask with
  the row lengths of the array.
The correspondence check holds the staged code to this variant on every case; a probe read that no
longer behaves like the list of rows is reported as a violation (regression), never excused.

Outside the model (checked by the Python list-of-rows oracle only): the `dtype` attribute; the cell
dimension that `shape` appends for multi-dimensional cells and `flatten()` of such cells (cells are
atomic here: the model's `flatten`/`shape`/`size` count cells); the integer dtype of index arrays
(indices are unbounded integers here; `_convert_from_2d` casts integer index arrays to `int` before
any arithmetic, and the harness drives int8/int16/int32/uint8/intp arrays and scalars, also with
negative entries on dimensions larger than the dtype's range); the array shape of a paired result (a
flat list here; the harness compares nested lists, so a k×k block instead of k cells is a violation).
Both were defects until commit 82d78c9 and are ordinary, unexcused cases now.
Outside the property's quantifier (positive row lengths): on an array without any cell `shape`
raises `IndexError` (`lengths[0]`; `shape`/`specShape` model exactly that).

**Pre-fix variant** (`getItem` = `getItemV false`, the tree before the `fix:` commit that applied
`C05-ra-reads.diff`), `namespace C05.PreFix`: kept as the record of why the repair was needed — the
full statements `C05_…_full` are refuted on concrete witnesses (`…_counterexample`, by `decide`) and
proved under hypotheses that exclude exactly the failing input classes (`…_partial`):
`RowSliceOK` (positive step, bounds within `[-n, n]`), `ColSliceOK` (positive step, non-negative
start), non-empty row selection, every selected row keeps a column, non-empty index lists, a mask
with a `True`.  These theorems say nothing about the current code.
-/

deriving instance DecidableEq for Except

namespace C05
open Ens Ens.Ragged

/-! ### representation -/

/-- a ragged array built from nested rows stands for exactly those rows -/
theorem rows_ofRows {α : Type} (rs : List (List α)) : rows (ofRows rs) = rs := rows_ofRows' rs

/-- a well-formed ragged array is the one built from its own rows (flat data and lengths are determined by the rows) -/
theorem ofRows_rows {α : Type} (ra : RA α) (h : WF ra) : ofRows (rows ra) = ra := ofRows_rows' ra h

/-- both constructors agree (current code: `ofFlatF`, an array without any cell included): flat data + lengths gives the same array as the nested rows -/
theorem constructors_agree {α : Type} (rs : List (List α)) :
    ofFlatF rs.flatten (rs.map List.length) = .ok (ofRows rs) := by
  simp only [ofFlatF, List.length_flatten, ne_eq, not_true_eq_false, if_false, ofRows]

example : ofFlatF [1, 2, 3, 4, 5] [3, 2] = .ok (ofRows [[1, 2, 3], [4, 5]]) := by decide

/-- `starts[i]` is the sum of the lengths of the rows before `i` -/
theorem starts_eq_prefix_sums (lens : List Nat) (i : Nat) (h : i < lens.length) :
    (starts lens)[i]? = some (lens.take i).sum := starts_getElem? lens i h

example : starts [3, 2, 4] = [0, 3, 5] := by decide

/-- `_convert_from_2d` and `_convert_from_1d` are inverse to each other on valid cells -/
theorem convert2d_1d_inverse (lens : List Nat) (i j len : Nat) (hi : lens[i]? = some len) (hj : j < len) :
    convertOne lens ((i : Int), (j : Int)) = .ok ((lens.take i).sum + j) ∧
    convertFrom1d (starts lens) ((lens.take i).sum + j) = .ok (i, j) :=
  ⟨convertOne_nat lens i j len hi hj, convertFrom1d_flat lens i j len hi hj⟩

example : convertOne [3, 2, 4] (2, 1) = .ok 6 ∧ convertFrom1d (starts [3, 2, 4]) 6 = .ok (2, 1) := by decide

/-- `ra.where(mask)` lists the (row, column) of every `True` cell in row-major order, as `np.where` does row by row -/
theorem where_spec (m : RA Bool) (h : WF m) : whereIdx m = .ok (specWhere (rows m)) := where_spec' m h

example : whereIdx ⟨[true, false, true, false, true], [3, 2]⟩ = .ok [(0, 0), (0, 2), (1, 1)] := by decide


/-- `flatten()` is the concatenation of the rows -/
theorem flatten_spec {α : Type} (ra : RA α) (h : WF ra) : flatten ra = (rows ra).flatten := flatten_eq ra h


/-- `slice.indices` never produces a position outside the sequence (so the specification's slice reads cannot fail for a spurious reason) -/
theorem slice_indices_in_range (len : Nat) (s : PySlice) (ix : List Nat) (h : s.indices len = some ix) :
    ∀ k ∈ ix, k < len := indices_lt h

/-! ### the current code: every index form in full -/

/-- the variant switch of the driver is nothing but a choice between the two models; the harness always asks for `true` -/
theorem variant_dispatch {α : Type} (ra : RA α) (fast : Bool) (idx : Index) :
    getItemV true ra fast idx = getItemF ra fast idx ∧ getItemV false ra fast idx = getItem ra fast idx :=
  ⟨rfl, rfl⟩

/-- the row view after the repair (`reshape((n, L) + cell shape)`), zero-length rows included -/
theorem array_view_eq_rows {α : Type} (ra : RA α) (h : WF ra) (fast : Bool) (hf : FastOKF ra fast) :
    arrayViewF ra fast = .ok (rows ra) := arrayViewF_eq_rows ra h fast hf

theorem get_row {α : Type} (ra : RA α) (h : WF ra) (fast : Bool) (hf : FastOKF ra fast) (i : Int) :
    absE (getItemF ra fast (.one (.int i))) = specGet (rows ra) (.one (.int i)) := get_row_F ra h fast hf i

theorem get_row_slice {α : Type} (ra : RA α) (h : WF ra) (fast : Bool) (hf : FastOKF ra fast) (s : PySlice) :
    absE (getItemF ra fast (.one (.slice s))) = specGet (rows ra) (.one (.slice s)) :=
  get_row_slice_F ra h fast hf s

theorem get_row_list {α : Type} (ra : RA α) (h : WF ra) (fast : Bool) (hf : FastOKF ra fast) (l : List Int) (b : Bool) :
    absE (getItemF ra fast (.one (.list l b))) = specGet (rows ra) (.one (.list l b)) :=
  get_row_list_F ra h fast hf l b

theorem get_int_slice {α : Type} (ra : RA α) (h : WF ra) (fast : Bool) (hf : FastOKF ra fast) (i : Int) (cs : PySlice) :
    absE (getItemF ra fast (.two (.int i) (.slice cs))) = specGet (rows ra) (.two (.int i) (.slice cs)) :=
  get_int_slice_F ra h fast hf i cs

theorem get_elem {α : Type} (ra : RA α) (h : WF ra) (fast : Bool) (i j : Int) :
    absE (getItemF ra fast (.two (.int i) (.int j))) = specGet (rows ra) (.two (.int i) (.int j)) :=
  get_elem_F ra h fast i j

/-- `a[rs, j]` for every row slice: negative steps, bounds beyond the row count, empty selections -/
theorem get_slice_int {α : Type} (ra : RA α) (h : WF ra) (fast : Bool) (rs : PySlice) (j : Int) :
    absE (getItemF ra fast (.two (.slice rs) (.int j))) = specGet (rows ra) (.two (.slice rs) (.int j)) :=
  get_slice_int_F ra h fast rs j

/-- `a[rs, [j…]]` for every row slice and every column list (also empty) -/
theorem get_slice_list {α : Type} (ra : RA α) (h : WF ra) (fast : Bool) (rs : PySlice) (l : List Int) (b : Bool) :
    absE (getItemF ra fast (.two (.slice rs) (.list l b))) = specGet (rows ra) (.two (.slice rs) (.list l b)) :=
  get_slice_list_F ra h fast rs l b

/-- `a[rs, cs]` for every row slice and every column slice of the grammar (step ≠ 0): negative starts and steps, rows that come up empty, no rows at all -/
theorem get_slice_slice {α : Type} (ra : RA α) (h : WF ra) (fast : Bool) (rs cs : PySlice)
    (hs : cs.step ≠ some 0) :
    absE (getItemF ra fast (.two (.slice rs) (.slice cs))) = specGet (rows ra) (.two (.slice rs) (.slice cs)) :=
  get_slice_slice_F ra h fast rs cs hs

/-- `a[[i…], cs]` for every row list (also empty, out-of-range rows give `IndexError` on both sides) -/
theorem get_list_slice {α : Type} (ra : RA α) (h : WF ra) (fast : Bool) (l : List Int) (b : Bool)
    (cs : PySlice) (hs : cs.step ≠ some 0) :
    absE (getItemF ra fast (.two (.list l b) (.slice cs))) = specGet (rows ra) (.two (.list l b) (.slice cs)) :=
  get_list_slice_F ra h fast l b cs hs

/-- `a[[i…], [j…]]` for lists of equal length, also empty -/
theorem get_paired {α : Type} (ra : RA α) (h : WF ra) (fast : Bool) (l l2 : List Int) (b b2 : Bool)
    (hlen : l.length = l2.length) :
    absE (getItemF ra fast (.two (.list l b) (.list l2 b2))) = specGet (rows ra) (.two (.list l b) (.list l2 b2)) :=
  get_paired_F ra h fast l l2 b b2 hlen

/-- `a[[i…], [j]]`: a one-element column list is broadcast over the row list, as numpy does (`np.repeat` in `_convert_from_2d`) -/
theorem get_paired_broadcast_col {α : Type} (ra : RA α) (h : WF ra) (fast : Bool) (l : List Int) (b b2 : Bool) (j : Int)
    (hl : l.length ≠ 1) :
    absE (getItemF ra fast (.two (.list l b) (.list [j] b2))) = specGet (rows ra) (.two (.list l b) (.list [j] b2)) :=
  get_paired_bcast_col_F ra h fast l b b2 j hl

/-- `a[[i], [j…]]`: a one-element row list is broadcast over a non-empty column list -/
theorem get_paired_broadcast_row {α : Type} (ra : RA α) (h : WF ra) (fast : Bool) (i : Int) (l2 : List Int) (b b2 : Bool)
    (hl : l2.length ≠ 1) (hne : l2 ≠ []) :
    absE (getItemF ra fast (.two (.list [i] b) (.list l2 b2))) = specGet (rows ra) (.two (.list [i] b) (.list l2 b2)) :=
  get_paired_bcast_row_F ra h fast i l2 b b2 hl hne

example : absE (getItemF (⟨[1, 2, 3, 4, 5], [3, 2]⟩ : RA Nat) false (.two (.list [0, 1] false) (.list [-1] false))) =
    .ok (.arr [3, 5]) := by decide
example : absE (getItemF (⟨[1, 2, 3, 4, 5], [3, 2]⟩ : RA Nat) false (.two (.list [0] false) (.list [2, 0] true))) =
    .ok (.arr [3, 1]) := by decide

theorem get_int_list {α : Type} (ra : RA α) (h : WF ra) (fast : Bool) (i : Int) (l : List Int) (b : Bool) :
    absE (getItemF ra fast (.two (.int i) (.list l b))) = specGet (rows ra) (.two (.int i) (.list l b)) :=
  get_int_list_F ra h fast i l b

theorem get_list_int {α : Type} (ra : RA α) (h : WF ra) (fast : Bool) (l : List Int) (b : Bool) (j : Int) :
    absE (getItemF ra fast (.two (.list l b) (.int j))) = specGet (rows ra) (.two (.list l b) (.int j)) :=
  get_list_int_F ra h fast l b j

/-- `a[mask]` for every ragged boolean mask of the same row lengths, all-false included -/
theorem get_mask {α : Type} (ra : RA α) (h : WF ra) (fast : Bool) (m : RA Bool) (hm : WF m)
    (hl : m.lengths = ra.lengths) :
    absE (getItemF ra fast (.mask m)) = specGet (rows ra) (.mask m) :=
  get_mask_F ra h fast m hm hl

/-- iterating (Python's `__getitem__(0), (1), …` protocol until `IndexError`) yields the rows in order; `len` is their number -/
theorem iter_spec {α : Type} (ra : RA α) (h : WF ra) (fast : Bool) (hf : FastOKF ra fast) :
    iterF ra fast = .ok (rows ra) ∧ lenF ra fast = .ok (rows ra).length :=
  ⟨iterF_eq_rows ra h fast hf, lenF_eq ra h fast hf⟩

-- the witnesses that refute the pre-fix variant (namespace PreFix below), on the current code
example : absE (getItemF (⟨[1, 2, 3, 4, 5], [3, 2]⟩ : RA Nat) false (.two (.slice ⟨none, none, none⟩) (.slice ⟨some (-1), none, none⟩))) =
    .ok (.rows [[3], [5]]) := by decide
example : absE (getItemF (⟨[1, 2, 3, 4, 5], [3, 2]⟩ : RA Nat) false (.two (.slice ⟨none, none, some (-1)⟩) (.slice ⟨none, none, some (-2)⟩))) =
    .ok (.rows [[5], [3, 1]]) := by decide
example : absE (getItemF (⟨[1, 2, 3, 4, 5], [3, 2]⟩ : RA Nat) false (.two (.slice ⟨some 0, some 5, none⟩) (.slice ⟨some 2, none, none⟩))) =
    .ok (.rows [[3], []]) := by decide
example : absE (getItemF (⟨[1, 2, 3, 4, 5], [3, 2]⟩ : RA Nat) false (.two (.slice ⟨some 0, some 0, none⟩) (.int 0))) =
    .ok (.rows []) := by decide
example : absE (getItemF (⟨[1, 2, 3, 4, 5], [3, 2]⟩ : RA Nat) false (.two (.int 0) (.list [] false))) = .ok (.arr []) ∧
    absE (getItemF (⟨[1, 2, 3, 4, 5], [3, 2]⟩ : RA Nat) false (.two (.int 2) (.list [] false))) = .error .indexError := by decide
example : absE (getItemF (⟨[1, 2, 3, 4, 5], [3, 2]⟩ : RA Nat) false (.mask ⟨[false, false, false, false, false], [3, 2]⟩)) =
    .ok (.arr []) := by decide

/-- a column outside the row (after the single negative wrap) or a row outside the array is an `IndexError`, never a neighbouring row's datum; needs no well-formedness -/
theorem get_elem_oob_errors {α : Type} (ra : RA α) (fast : Bool) (i j : Int) :
    (∀ len, npIndex ra.lengths i = .ok len → (j < -(len : Int) ∨ (len : Int) ≤ j) →
      getItemF ra fast (.two (.int i) (.int j)) = .error .indexError) ∧
    ((i < -(ra.lengths.length : Int) ∨ (ra.lengths.length : Int) ≤ i) →
      getItemF ra fast (.two (.int i) (.int j)) = .error .indexError) :=
  ⟨fun len hrow hj => get_elem_F_of_convert_error ra fast i j _ (convertOne_col_oob ra.lengths i j len hrow hj),
   fun hi => get_elem_F_of_convert_error ra fast i j _ (convertOne_row_oob ra.lengths i j hi)⟩

-- row 0 has 3 cells: column 3 would be the first cell of row 1 in the flat data
example : getItemF (⟨[1, 2, 3, 4, 5], [3, 2]⟩ : RA Nat) false (.two (.int 0) (.int 3)) = .error .indexError := by decide
example : absE (getItemF (⟨[1, 2, 3, 4, 5], [3, 2]⟩ : RA Nat) false (.two (.int (-1)) (.int (-2)))) = .ok (.arr [4]) := by decide

/-- `lengths`, `starts`, `size`, `len`, `shape` are those of the list of rows -/
theorem attrs_spec {α : Type} (ra : RA α) (h : WF ra) (fast : Bool) (hf : FastOKF ra fast) :
    ra.lengths = (rows ra).map List.length ∧
    (∀ i, i < (rows ra).length → (starts ra.lengths)[i]? = some (((rows ra).map List.length).take i).sum) ∧
    size ra = ((rows ra).map List.length).sum ∧
    lenF ra fast = .ok (rows ra).length ∧
    shape ra = specShape (rows ra) := by
  refine ⟨lengths_eq ra h, ?_, size_eq ra h, lenF_eq ra h fast hf, shape_eq ra h⟩
  intro i hi
  rw [rows_length] at hi
  rw [← lengths_eq ra h]
  exact starts_getElem? ra.lengths i hi

example : shape (⟨[1, 2, 3, 4, 5], [3, 2]⟩ : RA Nat) = .ok (2, none) ∧
    shape (⟨[1, 2, 3, 4], [2, 2]⟩ : RA Nat) = .ok (2, some 2) := by decide
example : iterF (⟨[1, 2, 3, 4, 5, 6], [3, 3]⟩ : RA Nat) true = .ok [[1, 2, 3], [4, 5, 6]] ∧
    WF (⟨[1, 2, 3, 4, 5, 6], [3, 3]⟩ : RA Nat) ∧ FastOKF (⟨[1, 2, 3, 4, 5, 6], [3, 3]⟩ : RA Nat) true :=
  ⟨by decide, by decide, fun _ => ⟨3, by decide⟩⟩

/-! ## Pre-fix variant `getItemV false` (the tree before the repair) — historical record only

Nothing below is about the current code. -/
namespace PreFix

/-- pre-fix `ofFlat` refused an empty flat array -/
theorem constructors_agree {α : Type} (rs : List (List α)) (hne : rs.flatten ≠ []) :
    ofFlat rs.flatten (rs.map List.length) = .ok (ofRows rs) := by
  simp only [ofFlat, if_neg hne, List.length_flatten, ne_eq, not_true_eq_false, if_false, ofRows]

/-- the row view `_array` is the list of rows, on the rectangular fast path (`reshape`) as well as via `partition_list` -/
theorem array_view_eq_rows {α : Type} (ra : RA α) (h : WF ra) (fast : Bool) (hf : FastOK ra fast) :
    arrayView ra fast = .ok (rows ra) := arrayView_eq_rows ra h fast hf

example : arrayView (⟨[1, 2, 3, 4, 5, 6], [2, 2, 2]⟩ : RA Nat) true = .ok [[1, 2], [3, 4], [5, 6]] := by decide

/-! ### one-dimensional index forms (numpy on the row view) -/

/-- `a[i]` -/
theorem get_row {α : Type} (ra : RA α) (h : WF ra) (fast : Bool) (hf : FastOK ra fast) (i : Int) :
    absE (getItem ra fast (.one (.int i))) = specGet (rows ra) (.one (.int i)) := get_row' ra h fast hf i

/-- `a[s]` for any slice (any bounds, any non-zero or zero step) -/
theorem get_row_slice {α : Type} (ra : RA α) (h : WF ra) (fast : Bool) (hf : FastOK ra fast) (s : PySlice) :
    absE (getItem ra fast (.one (.slice s))) = specGet (rows ra) (.one (.slice s)) :=
  get_row_slice' ra h fast hf s

/-- `a[[i0, i1, …]]` (list or ndarray, also empty) -/
theorem get_row_list {α : Type} (ra : RA α) (h : WF ra) (fast : Bool) (hf : FastOK ra fast) (l : List Int) (b : Bool) :
    absE (getItem ra fast (.one (.list l b))) = specGet (rows ra) (.one (.list l b)) :=
  get_row_list' ra h fast hf l b

example : absE (getItem (⟨[1, 2, 3, 4, 5], [3, 2]⟩ : RA Nat) false (.one (.slice ⟨none, none, some (-1)⟩))) =
    .ok (.rows [[4, 5], [1, 2, 3]]) := by decide

/-- `a[i, s]` for any slice -/
theorem get_int_slice {α : Type} (ra : RA α) (h : WF ra) (fast : Bool) (hf : FastOK ra fast) (i : Int) (cs : PySlice) :
    absE (getItem ra fast (.two (.int i) (.slice cs))) = specGet (rows ra) (.two (.int i) (.slice cs)) :=
  get_int_slice' ra h fast hf i cs

example : absE (getItem (⟨[1, 2, 3, 4, 5], [3, 2]⟩ : RA Nat) false (.two (.int 0) (.slice ⟨some (-1), none, some (-2)⟩))) =
    .ok (.arr [3, 1]) := by decide

/-! ### element access -/

/-- `a[i, j]` for all integers `i`, `j` (negative ones included): the flat offset `starts[i] + j` reads `rows[i][j]` and fails exactly when that read fails -/
theorem get_elem {α : Type} (ra : RA α) (h : WF ra) (fast : Bool) (i j : Int) :
    absE (getItem ra fast (.two (.int i) (.int j))) = specGet (rows ra) (.two (.int i) (.int j)) :=
  get_elem' ra h fast i j

example : absE (getItem (⟨[1, 2, 3, 4, 5], [3, 2]⟩ : RA Nat) false (.two (.int (-1)) (.int (-2)))) =
    .ok (.arr [4]) := by decide

/-- a column outside the row (after the single negative wrap) or a row outside the array is an `IndexError`, never a neighbouring row's datum; needs no well-formedness -/
theorem get_elem_oob_errors {α : Type} (ra : RA α) (fast : Bool) (i j : Int) :
    (∀ len, npIndex ra.lengths i = .ok len → (j < -(len : Int) ∨ (len : Int) ≤ j) →
      getItem ra fast (.two (.int i) (.int j)) = .error .indexError) ∧
    ((i < -(ra.lengths.length : Int) ∨ (ra.lengths.length : Int) ≤ i) →
      getItem ra fast (.two (.int i) (.int j)) = .error .indexError) :=
  ⟨fun len hrow hj => get_elem_of_convert_error ra fast i j _ (convertOne_col_oob ra.lengths i j len hrow hj),
   fun hi => get_elem_of_convert_error ra fast i j _ (convertOne_row_oob ra.lengths i j hi)⟩

-- row 0 has 3 cells: column 3 would be the first cell of row 1 in the flat data
example : getItem (⟨[1, 2, 3, 4, 5], [3, 2]⟩ : RA Nat) false (.two (.int 0) (.int 3)) = .error .indexError := by decide

/-! ### paired fancy indices -/

def C05_get_paired_full : Prop :=
  ∀ (ra : RA Nat) (fast : Bool) (r c : Part), WF ra →
    (∀ s, r ≠ .slice s) → (∀ s, c ≠ .slice s) → (idxArr r).1.length = (idxArr c).1.length ∨
      (idxArr r).1.length = 1 ∨ (idxArr c).1.length = 1 →
    absE (getItem ra fast (.two r c)) = specGet (rows ra) (.two r c)

/-- `a[0, []]` raises `IndexError` instead of returning an empty array (finding `getitem-2d-empty-index-list-or-all-false-mask`) -/
theorem get_paired_counterexample : ¬ C05_get_paired_full := by
  intro h
  have := h ⟨[1, 2, 3, 4, 5], [3, 2]⟩ false (.int 0) (.list [] false) (by decide)
    (by intro s hs; cases hs) (by intro s hs; cases hs) (by decide)
  revert this; decide

/-- `a[[i…], [j…]]` with index lists of equal non-zero length.  Missing w.r.t. the full statement: empty index lists. -/
theorem get_paired_partial {α : Type} (ra : RA α) (h : WF ra) (fast : Bool) (l l2 : List Int) (b b2 : Bool)
    (hl : l ≠ []) (hlen : l.length = l2.length) :
    absE (getItem ra fast (.two (.list l b) (.list l2 b2))) = specGet (rows ra) (.two (.list l b) (.list l2 b2)) :=
  get_paired' ra h fast l l2 b b2 hl hlen

example : absE (getItem (⟨[1, 2, 3, 4, 5], [3, 2]⟩ : RA Nat) false (.two (.list [1, -2, 0] false) (.list [-1, 1, 5] true))) =
    .error .indexError := by decide
example : absE (getItem (⟨[1, 2, 3, 4, 5], [3, 2]⟩ : RA Nat) false (.two (.list [1, -2, 0] false) (.list [-1, 1, 2] true))) =
    .ok (.arr [5, 2, 3]) := by decide

/-- `a[i, [j…]]` with a non-empty column list.  Missing: the empty list. -/
theorem get_int_list_partial {α : Type} (ra : RA α) (h : WF ra) (fast : Bool) (i : Int) (l : List Int) (b : Bool)
    (hl : l ≠ []) :
    absE (getItem ra fast (.two (.int i) (.list l b))) = specGet (rows ra) (.two (.int i) (.list l b)) :=
  get_int_list' ra h fast i l b hl

/-- `a[[i…], j]` with a non-empty row list.  Missing: the empty list. -/
theorem get_list_int_partial {α : Type} (ra : RA α) (h : WF ra) (fast : Bool) (l : List Int) (b : Bool) (j : Int)
    (hl : l ≠ []) :
    absE (getItem ra fast (.two (.list l b) (.int j))) = specGet (rows ra) (.two (.list l b) (.int j)) :=
  get_list_int' ra h fast l b j hl

example : absE (getItem (⟨[1, 2, 3, 4, 5], [3, 2]⟩ : RA Nat) false (.two (.int (-2)) (.list [2, -3] true))) =
    .ok (.arr [3, 1]) := by decide
example : absE (getItem (⟨[1, 2, 3, 4, 5], [3, 2]⟩ : RA Nat) false (.two (.list [0, 1] false) (.int 2))) =
    .error .indexError := by decide
example : absE (getItem (⟨[1, 2, 3, 4, 5], [3, 2]⟩ : RA Nat) false (.two (.list [0, 1] false) (.int (-2)))) =
    .ok (.arr [2, 4]) := by decide

/-! ### two-dimensional reads with a row slice -/

def C05_get_slice_int_full : Prop :=
  ∀ (ra : RA Nat) (fast : Bool) (rs : PySlice) (j : Int), WF ra →
    absE (getItem ra fast (.two (.slice rs) (.int j))) = specGet (rows ra) (.two (.slice rs) (.int j))

/-- `a[::-1, 0]` raises `ValueError` (finding `getitem-2d-row-slice-negative-step`) -/
theorem get_slice_int_counterexample : ¬ C05_get_slice_int_full := by
  intro h
  have := h ⟨[1, 2, 3, 4, 5], [3, 2]⟩ false ⟨none, none, some (-1)⟩ 0 (by decide)
  revert this; decide

/-- `a[rs, j]` for a row slice with positive step, bounds within `[-n, n]` and a non-empty selection.  Missing: negative steps, bounds beyond the row count, empty selections. -/
theorem get_slice_int_partial {α : Type} (ra : RA α) (h : WF ra) (fast : Bool) (rs : PySlice) (j : Int)
    (hrs : RowSliceOK ra.lengths.length rs) (hsel : rs.indices ra.lengths.length ≠ some []) :
    absE (getItem ra fast (.two (.slice rs) (.int j))) = specGet (rows ra) (.two (.slice rs) (.int j)) :=
  get_slice_int_partial' ra h fast rs j hrs hsel

example : RowSliceOK 2 ⟨none, some (-1), some 1⟩ ∧ (⟨none, some (-1), some 1⟩ : PySlice).indices 2 ≠ some [] :=
  ⟨⟨by simp, by simp, by intro v hv; cases hv; omega⟩, by decide⟩
example : absE (getItem (⟨[1, 2, 3, 4, 5], [3, 2]⟩ : RA Nat) false (.two (.slice ⟨none, none, none⟩) (.int (-1)))) =
    .ok (.rows [[3], [5]]) := by decide

def C05_get_slice_list_full : Prop :=
  ∀ (ra : RA Nat) (fast : Bool) (rs : PySlice) (l : List Int) (b : Bool), WF ra →
    absE (getItem ra fast (.two (.slice rs) (.list l b))) = specGet (rows ra) (.two (.slice rs) (.list l b))

/-- `a[0:3, [0]]` on two rows raises `IndexError` instead of clipping the slice (finding `getitem-2d-row-slice-bound-out-of-range`) -/
theorem get_slice_list_counterexample : ¬ C05_get_slice_list_full := by
  intro h
  have := h ⟨[1, 2, 3, 4, 5], [3, 2]⟩ false ⟨some 0, some 3, none⟩ [0] false (by decide)
  revert this; decide

/-- `a[rs, [j…]]` under the same conditions on the row slice and a non-empty column list. -/
theorem get_slice_list_partial {α : Type} (ra : RA α) (h : WF ra) (fast : Bool) (rs : PySlice) (l : List Int) (b : Bool)
    (hrs : RowSliceOK ra.lengths.length rs) (hsel : rs.indices ra.lengths.length ≠ some []) (hl : l ≠ []) :
    absE (getItem ra fast (.two (.slice rs) (.list l b))) = specGet (rows ra) (.two (.slice rs) (.list l b)) :=
  get_slice_list_partial' ra h fast rs l b hrs hsel hl

example : absE (getItem (⟨[1, 2, 3, 4, 5], [3, 2]⟩ : RA Nat) false (.two (.slice ⟨some (-2), none, none⟩) (.list [1, 0] false))) =
    .ok (.rows [[2, 1], [5, 4]]) := by decide

def C05_get_slice_slice_full : Prop :=
  ∀ (ra : RA Nat) (fast : Bool) (rs cs : PySlice), WF ra →
    absE (getItem ra fast (.two (.slice rs) (.slice cs))) = specGet (rows ra) (.two (.slice rs) (.slice cs))

/-- `a[:, -1:]` returns every row rotated (`[3,1,2,3]`, `[5,4,5]`) instead of its last cell (finding `getitem-2d-col-slice-negative-start`) -/
theorem get_slice_slice_counterexample : ¬ C05_get_slice_slice_full := by
  intro h
  have := h ⟨[1, 2, 3, 4, 5], [3, 2]⟩ false ⟨none, none, none⟩ ⟨some (-1), none, none⟩ (by decide)
  revert this; decide

/-- `a[:, ::-1]` raises `TypeError` (finding `getitem-2d-col-slice-negative-step`) -/
theorem get_slice_slice_negstep_counterexample :
    absE (getItem (⟨[1, 2, 3, 4, 5], [3, 2]⟩ : RA Nat) false (.two (.slice ⟨none, none, none⟩) (.slice ⟨none, none, some (-1)⟩))) ≠
      specGet (rows ⟨[1, 2, 3, 4, 5], [3, 2]⟩) (.two (.slice ⟨none, none, none⟩) (.slice ⟨none, none, some (-1)⟩)) := by
  decide

/-- `a[0:0, :]` raises `ValueError` instead of returning an empty array (finding `getitem-2d-no-rows-selected`) -/
theorem get_slice_slice_norows_counterexample :
    absE (getItem (⟨[1, 2, 3, 4, 5], [3, 2]⟩ : RA Nat) false (.two (.slice ⟨some 0, some 0, none⟩) (.slice ⟨none, none, none⟩))) ≠
      specGet (rows ⟨[1, 2, 3, 4, 5], [3, 2]⟩) (.two (.slice ⟨some 0, some 0, none⟩) (.slice ⟨none, none, none⟩)) := by
  decide

/-- `a[:, 2:]` with a row of length 2 raises `TypeError` instead of returning `[[3], []]` (finding `getitem-2d-col-slice-empties-a-row`) -/
theorem get_slice_slice_emptyrow_counterexample :
    absE (getItem (⟨[1, 2, 3, 4, 5], [3, 2]⟩ : RA Nat) false (.two (.slice ⟨none, none, none⟩) (.slice ⟨some 2, none, none⟩))) ≠
      specGet (rows ⟨[1, 2, 3, 4, 5], [3, 2]⟩) (.two (.slice ⟨none, none, none⟩) (.slice ⟨some 2, none, none⟩)) := by
  decide

/-- `a[rs, cs]`: row slice as above; column slice with positive step and non-negative start; every selected row keeps at least one column.  Missing: the six finding classes listed in the header. -/
theorem get_slice_slice_partial {α : Type} (ra : RA α) (h : WF ra) (fast : Bool) (rs cs : PySlice)
    (hrs : RowSliceOK ra.lengths.length rs) (hsel : rs.indices ra.lengths.length ≠ some [])
    (hcs : ColSliceOK cs)
    (hrow : ∀ ix, rs.indices ra.lengths.length = some ix → ∀ k ∈ ix, ∀ len,
      ra.lengths[k]? = some len → cs.indices len ≠ some []) :
    absE (getItem ra fast (.two (.slice rs) (.slice cs))) = specGet (rows ra) (.two (.slice rs) (.slice cs)) :=
  get_slice_slice_partial' ra h fast rs cs hrs hsel hcs hrow

example : ColSliceOK ⟨some 1, some (-1), some 2⟩ :=
  ⟨by intro v hv; cases hv; omega, by intro v hv; cases hv; omega⟩
example : absE (getItem (⟨[1, 2, 3, 4, 5, 6, 7], [4, 3]⟩ : RA Nat) false
    (.two (.slice ⟨none, none, none⟩) (.slice ⟨some 1, some (-1), some 2⟩))) = .ok (.rows [[2], [6]]) := by decide
example : absE (getItem (⟨[1, 2, 3, 4, 5, 6, 7], [4, 3]⟩ : RA Nat) false
    (.two (.slice ⟨some (-1), none, none⟩) (.slice ⟨none, some 9, none⟩))) = .ok (.rows [[5, 6, 7]]) := by decide

def C05_get_list_slice_full : Prop :=
  ∀ (ra : RA Nat) (fast : Bool) (l : List Int) (b : Bool) (cs : PySlice), WF ra →
    absE (getItem ra fast (.two (.list l b) (.slice cs))) = specGet (rows ra) (.two (.list l b) (.slice cs))

/-- `a[[1, 0], -2:]` returns rotated rows (finding `getitem-2d-col-slice-negative-start`) -/
theorem get_list_slice_counterexample : ¬ C05_get_list_slice_full := by
  intro h
  have := h ⟨[1, 2, 3, 4, 5], [3, 2]⟩ false [1, 0] false ⟨some (-2), none, none⟩ (by decide)
  revert this; decide

/-- `a[[i…], cs]`: non-empty row list (any integers: out-of-range ones give `IndexError` on both sides), column slice as above, every selected row keeps at least one column. -/
theorem get_list_slice_partial {α : Type} (ra : RA α) (h : WF ra) (fast : Bool) (l : List Int) (b : Bool) (cs : PySlice)
    (hl : l ≠ []) (hcs : ColSliceOK cs)
    (hrow : ∀ i ∈ l, ∀ len, npIndex ra.lengths i = .ok len → cs.indices len ≠ some []) :
    absE (getItem ra fast (.two (.list l b) (.slice cs))) = specGet (rows ra) (.two (.list l b) (.slice cs)) :=
  get_list_slice_partial' ra h fast l b cs hl hcs hrow

example : absE (getItem (⟨[1, 2, 3, 4, 5, 6, 7], [4, 3]⟩ : RA Nat) false
    (.two (.list [-1, 0, -1] true) (.slice ⟨some 1, none, none⟩))) = .ok (.rows [[6, 7], [2, 3, 4], [6, 7]]) := by decide
example : absE (getItem (⟨[1, 2, 3, 4, 5, 6, 7], [4, 3]⟩ : RA Nat) false
    (.two (.list [0, 2] true) (.slice ⟨some 1, none, none⟩))) = .error .indexError := by decide

/-! ### boolean ragged mask, where -/

def C05_get_mask_full : Prop :=
  ∀ (ra : RA Nat) (fast : Bool) (m : RA Bool), WF ra → WF m → m.lengths = ra.lengths →
    absE (getItem ra fast (.mask m)) = specGet (rows ra) (.mask m)

/-- an all-false mask raises `IndexError` instead of selecting nothing (finding `getitem-2d-empty-index-list-or-all-false-mask`) -/
theorem get_mask_counterexample : ¬ C05_get_mask_full := by
  intro h
  have := h ⟨[1, 2, 3, 4, 5], [3, 2]⟩ false ⟨[false, false, false, false, false], [3, 2]⟩
    (by decide) (by decide) (by decide)
  revert this; decide

/-- `a[mask]` for a ragged boolean mask of the same row lengths with at least one `True`. -/
theorem get_mask_partial {α : Type} (ra : RA α) (h : WF ra) (fast : Bool) (m : RA Bool) (hm : WF m)
    (hl : m.lengths = ra.lengths) (hany : specWhere (rows m) ≠ []) :
    absE (getItem ra fast (.mask m)) = specGet (rows ra) (.mask m) :=
  get_mask_partial' ra h fast m hm hl hany

example : absE (getItem (⟨[1, 2, 3, 4, 5], [3, 2]⟩ : RA Nat) false (.mask ⟨[true, false, true, false, true], [3, 2]⟩)) =
    .ok (.arr [1, 3, 5]) := by decide

/-! ### iteration, flatten, attributes -/

/-- iterating (Python's `__getitem__(0), (1), …` protocol until `IndexError`) yields the rows in order -/
theorem iter_spec {α : Type} (ra : RA α) (h : WF ra) (fast : Bool) (hf : FastOK ra fast) :
    iter ra fast = .ok (rows ra) := iter_eq_rows ra h fast hf

example : iter (⟨[1, 2, 3, 4, 5, 6], [3, 3]⟩ : RA Nat) true = .ok [[1, 2, 3], [4, 5, 6]] ∧
    WF (⟨[1, 2, 3, 4, 5, 6], [3, 3]⟩ : RA Nat) ∧ FastOK (⟨[1, 2, 3, 4, 5, 6], [3, 3]⟩ : RA Nat) true :=
  ⟨by decide, by decide, fun _ => ⟨3, by decide, by decide, by decide⟩⟩

/-- `lengths`, `starts`, `size`, `len`, `shape` are those of the list of rows -/
theorem attrs_spec {α : Type} (ra : RA α) (h : WF ra) (fast : Bool) (hf : FastOK ra fast) :
    ra.lengths = (rows ra).map List.length ∧
    (∀ i, i < (rows ra).length → (starts ra.lengths)[i]? = some (((rows ra).map List.length).take i).sum) ∧
    size ra = ((rows ra).map List.length).sum ∧
    len ra fast = .ok (rows ra).length ∧
    shape ra = specShape (rows ra) := by
  refine ⟨lengths_eq ra h, ?_, size_eq ra h, len_eq ra h fast hf, shape_eq ra h⟩
  intro i hi
  rw [rows_length] at hi
  rw [← lengths_eq ra h]
  exact starts_getElem? ra.lengths i hi

example : shape (⟨[1, 2, 3, 4, 5], [3, 2]⟩ : RA Nat) = .ok (2, none) ∧
    shape (⟨[1, 2, 3, 4], [2, 2]⟩ : RA Nat) = .ok (2, some 2) := by decide

end PreFix

end C05
