import Proofs.C13Spec
import Proofs.C13Real
import Proofs.C13Compose
/-!
C13 — distance kernels are exact for every dtype, memory layout and thread count.

Model: `Model/Dist.lean` (mirror of `enspara/geometry/libdist.pyx`), `Model/Sched.lean`
(interleavings), `Model/Generated/FusedTypes.lean` (written by the translator from the source).
`Cell.sqrt q` denotes the (correctly rounded) square root of the exact rational `q`: the
Euclidean theorems say *which* number is under the root.  Float rounding is not modelled
(floats are exact rationals), C integer overflow is (two's-complement wrap-around).

What the model does NOT cover (also listed in harness/props/c13.py ASSUMPTIONS):
* `out` aliasing `X` or `y` is excluded STRUCTURALLY: in the model `X`, `y` and `out` are separate
  buffers, so the theorems say nothing about overlapping arguments.  The real code accepts such
  calls and returns non-norms (`out[i] = 0` destroys the input it is about to read); the harness
  checks only shape, no crash and no write outside `out` there.
* a writable `out` whose rows share a cell (stride 0 with more than one row, `as_strided`) is
  `.badRequest` in the model (`kernelRun`), and every memory-level theorem carries
  `stride ≠ 0 ∨ n ≤ 1`; the real code accepts it and the rows race on the single cell.
* float32 AND float64 arithmetic is treated as exact rational arithmetic: the float32 kernels
  really round the difference and the square to single precision (`powf`), float64 ones to double;
  sums are rounded too; squares that under/overflow are not modelled.  The harness compares
  bit-for-bit only where the exact evaluation involves no rounding, else within a relative tolerance.
* signed C overflow is undefined behaviour; the model fixes two's-complement wrap-around.
-/
namespace C13
open Ens Ens.Dist Ens.Sched

/-! ## the generated lists (re-checked on every run: the translator rewrites the file) -/

/-- every member of the `ctypedef fused` blocks is an element type the model knows, and the
kernels are compiled for exactly the types the model dispatches on -/
theorem generated_types_modelled :
    (∀ f ∈ Gen.fused, ∀ t ∈ f.2, (DType.ofName t).isSome = true) ∧
    Kernel.dtypes .euclidean = [.i8, .i16, .i32, .i64, .f32, .f64] ∧
    Kernel.dtypes .manhattan = [.i8, .i16, .i32, .i64, .f32, .f64] ∧
    Kernel.dtypes .hamming = [.u8, .u16, .u32, .u64, .i8, .i16, .i32, .i64] := by
  decide

/-- the NORMALISED structure of the source is the one the model mirrors: typed-buffer signatures by
position, the three kernels (native form, or the repaired subtraction), the C functions used, what
each public wrapper does (exactly the modelled validation predicates in the modelled order, through
any chain of helpers; no further predicate, no effect statement; then the kernel call and the
returned expression) and the metric-name map.  Renames, comments, docstrings, message texts,
declaration order, `while` counting loops, `with nogil:` grouping and helper names do not enter;
a change of the loop structure, of an index expression, of the arithmetic type of a temporary, of a
buffer option or of the validation does, and makes this fail (flagging the model). -/
theorem generated_kernels_as_modelled :
    Gen.notes = [] ∧
    Gen.kernelSigs =
      [("_euclidean", [("X", "FLOAT_TYPE_T", 2), ("y", "FLOAT_TYPE_T", 1), ("out", "float64", 1)]),
       ("_hamming", [("X", "INTEGRAL_TYPE_T", 2), ("y", "INTEGRAL_TYPE_T", 1), ("out", "float64", 1)]),
       ("_manhattan", [("X", "FLOAT_TYPE_T", 2), ("y", "FLOAT_TYPE_T", 1), ("out", "float64", 1)])] ∧
    (Gen.kernels = nativeKernels ∨ Gen.kernels = repairedKernels) ∧
    Gen.externs = ["\"math.h\": double fabs(double)", "\"math.h\": double sqrt(double)",
                   "\"math.h\": float fabs(float)"] ∧
    traceOk "euclidean" "_euclidean" = true ∧ traceOk "hamming" "_hamming" = true ∧
    traceOk "manhattan" "_manhattan" = true ∧
    Gen.metricMap = [("cityblock", "manhattan"), ("euclidean", "euclidean"), ("manhattan", "manhattan")] := by
  decide

/-! ## what one row computes -/

/-- float32 / float64 rows (exact rationals): Euclidean = √Σ(x_j−y_j)², Manhattan = Σ|x_j−y_j|,
whatever the cell held before.  FULL. -/
theorem kernel_row_spec_float (xs ys : List Rat) (w : Nat) (init : Cell) :
    rowResult .euclidean w (rowTerms (termRat .euclidean) xs ys) init = .sqrt (sqDist xs ys) ∧
    rowResult .manhattan w (rowTerms (termRat .manhattan) xs ys) init = .val (l1Dist xs ys) := by
  constructor
  · rw [rowResult_euclidean _ _ _ (by rw [sum_euclid_rat]; exact sqDist_nonneg xs ys), sum_euclid_rat]
  · rw [rowResult_manhattan, sum_manhattan_rat]

example : rowResult .euclidean 2 (rowTerms (termRat .euclidean) [3, 1/2] [0, 9/2]) .nan = .sqrt 25 := by
  decide +kernel

/-- what the symbols mean: the rational under `Cell.sqrt` in the row theorems is the squared
Euclidean distance, so the cell denotes `dist x y = ‖x − y‖₂` in `EuclideanSpace ℝ (Fin w)`;
`Cell.val (l1Dist …)` denotes `Σ |x_i − y_i| = ‖x − y‖₁`.  FULL. -/
theorem norms_denoted {w : Nat} (x y : Fin w → ℚ) :
    Cell.toReal (.sqrt (sqDist (List.ofFn x) (List.ofFn y)))
      = some (dist ((WithLp.toLp 2 (fun i => (x i : ℝ))) : EuclideanSpace ℝ (Fin w))
                   (WithLp.toLp 2 (fun i => (y i : ℝ)))) ∧
    Cell.toReal (.val (l1Dist (List.ofFn x) (List.ofFn y)))
      = some (∑ i : Fin w, |(x i : ℝ) - (y i : ℝ)|) :=
  ⟨sqrt_sqDist_eq_dist x y, val_l1Dist_eq x y⟩

/-- int8 / int16 (and uint8 / uint16) rows, UNCONDITIONALLY: differences and squares of
8/16-bit values fit the promoted `int` / `long`, so the kernels are exact on every input.  FULL. -/
theorem kernel_row_spec_int8_int16 (t : DType) (ht : t.isSmallInt = true) (xs ys : List Int)
    (hx : ∀ x ∈ xs, t.inRange x) (hy : ∀ y ∈ ys, t.inRange y) (w : Nat) (init : Cell) :
    t.promote = some .s32 ∧
    rowResult .euclidean w (rowTerms (termInt .native .euclidean .s32) xs ys) init
      = .sqrt (sqDist (toRat xs) (toRat ys)) ∧
    rowResult .manhattan w (rowTerms (termInt .native .manhattan .s32) xs ys) init
      = .val (l1Dist (toRat xs) (toRat ys)) := by
  have hno : ∀ p ∈ xs.zip ys, NoOverflowSq .s32 p.1 p.2 := fun p hp =>
    let ⟨h1, h2⟩ := mem_zip_inRange t xs ys hx hy p hp
    smallInt_noOverflow t ht p.1 p.2 h1 h2
  refine ⟨smallInt_promote t ht, ?_, ?_⟩
  · rw [rowResult_euclidean _ _ _ (by rw [sum_euclid_int _ _ _ hno]; exact sqDist_nonneg _ _),
      sum_euclid_int _ _ _ hno]
  · rw [rowResult_manhattan, sum_manhattan_int _ _ _ (fun p hp => (hno p hp).1)]

example : DType.isSmallInt .i16 = true ∧ (∀ x ∈ [32767, -32768], DType.inRange .i16 x) := by decide
example : rowResult .euclidean 2 (rowTerms (termInt .native .euclidean .s32) [32767, -32768] [-32768, 32767]) .nan
    = .sqrt 8589672450 := by decide +kernel

/-- every integer element type, under the hypothesis that no difference (Manhattan) and no
difference or square (Euclidean) leaves the promoted C type.  PARTIAL: the hypothesis
`NoOverflow…` is not a guard of the code — for int32 / int64 data it can fail
(`overflow_counterexample`); for int32 only the difference matters (`s32_noOverflowSq_of_diff`). -/
theorem kernel_row_spec_partial (c : CArith) (xs ys : List Int) (w : Nat) (init : Cell) :
    ((∀ p ∈ xs.zip ys, NoOverflowSq c p.1 p.2) →
      rowResult .euclidean w (rowTerms (termInt .native .euclidean c) xs ys) init
        = .sqrt (sqDist (toRat xs) (toRat ys))) ∧
    ((∀ p ∈ xs.zip ys, NoOverflowDiff c p.1 p.2) →
      rowResult .manhattan w (rowTerms (termInt .native .manhattan c) xs ys) init
        = .val (l1Dist (toRat xs) (toRat ys))) := by
  constructor
  · intro hno
    rw [rowResult_euclidean _ _ _ (by rw [sum_euclid_int _ _ _ hno]; exact sqDist_nonneg _ _),
      sum_euclid_int _ _ _ hno]
  · intro hno
    rw [rowResult_manhattan, sum_manhattan_int _ _ _ hno]

example : ∀ p ∈ [(2147483647 : Int)].zip [(1 : Int)], NoOverflowSq .s32 p.1 p.2 := by decide
example : ∀ p ∈ [(4611686018427387907 : Int)].zip [(4611686018427387904 : Int)], NoOverflowSq .s64 p.1 p.2 := by
  decide

/-- the full-strength statement for the integer types of the Euclidean / Manhattan kernels
(no overflow hypothesis).  NOT asserted: false, see `overflow_counterexample`. -/
def kernel_row_spec_full : Prop :=
  ∀ (t : DType) (c : CArith), t ∈ Kernel.dtypes .euclidean → t.promote = some c →
    ∀ (xs ys : List Int), (∀ x ∈ xs, t.inRange x) → (∀ y ∈ ys, t.inRange y) →
      ∀ (w : Nat) (init : Cell),
        rowResult .euclidean w (rowTerms (termInt .native .euclidean c) xs ys) init
          = .sqrt (sqDist (toRat xs) (toRat ys)) ∧
        rowResult .manhattan w (rowTerms (termInt .native .manhattan c) xs ys) init
          = .val (l1Dist (toRat xs) (toRat ys))

/-- `euclidean(int64 [[4·10⁹]], [0])`: the square 1.6·10¹⁹ wraps to a negative `long`, the
result is NaN instead of 4·10⁹ (reproduced on the real code: known finding) -/
theorem overflow_counterexample : ¬ kernel_row_spec_full := by
  intro h
  have := (h .i64 .s64 (by decide) rfl [4000000000] [0] (by decide) (by decide) 1 (.val 0)).1
  revert this
  decide +kernel

/-- The repaired kernels (`IntArith.viaDouble`: the subtraction is done in double, or in `long`
for int64 operands of equal sign — the form `intArith` selects when the generated kernel bodies
are the repaired ones): exact for EVERY integer element type and every input, no overflow
hypothesis.  FULL (for that source form; float rounding of |values| > 2⁵³ is not modelled). -/
theorem kernel_row_spec_repaired (c : CArith) (xs ys : List Int) (w : Nat) (init : Cell) :
    rowResult .euclidean w (rowTerms (termInt .viaDouble .euclidean c) xs ys) init
      = .sqrt (sqDist (toRat xs) (toRat ys)) ∧
    rowResult .manhattan w (rowTerms (termInt .viaDouble .manhattan c) xs ys) init
      = .val (l1Dist (toRat xs) (toRat ys)) := by
  constructor
  · rw [rowResult_euclidean _ _ _ (by rw [sum_euclid_int_viaDouble]; exact sqDist_nonneg _ _),
      sum_euclid_int_viaDouble]
  · rw [rowResult_manhattan, sum_manhattan_int_viaDouble]

/-- the int32 instance: `2·10⁹ − (−2·10⁹)` wraps to −294967296 in C `int` -/
example : rowResult .manhattan 1 (rowTerms (termInt .native .manhattan .s32) [2000000000] [-2000000000]) (.val 0)
    = .val 294967296 := by decide +kernel

/-- Hamming, every integral element type, UNCONDITIONALLY (only `!=` on the elements):
the fraction of differing coordinates.  FULL for `n_features > 0`; for `n_features = 0` the
code computes `0.0/0 = NaN` (`hamming_zero_width`), the property's "fraction" is undefined there. -/
theorem hamming_row_spec (a : IntArith) (c : CArith) (xs ys : List Int) (w : Nat) (hw : 0 < w) (init : Cell) :
    rowResult .hamming w (rowTerms (termInt a .hamming c) xs ys) init
      = .val ((hammingCount xs ys : Rat) / (w : Rat)) := by
  rw [rowResult_hamming _ _ _ hw, sum_hamming_int]

theorem hamming_zero_width (a : IntArith) (c : CArith) (xs : List Int) (init : Cell) :
    rowResult .hamming 0 (rowTerms (termInt a .hamming c) xs []) init = .nan := by
  have : rowTerms (termInt a .hamming c) xs [] = [] := by simp [rowTerms]
  rw [this, rowResult_hamming_zero]

example : rowResult .hamming 3 (rowTerms (termInt .native .hamming .u64) [1, 3, 8] [1, 2, 3]) .untracked = .val (2/3) := by
  decide +kernel

/-! ## strided memory -/

/-- Reading a basic-slicing view (any start, any positive or negative step — every-other
row/column, reversed, …) of a C- or Fortran-ordered array through (offset, strides) returns the
logical element.  FULL. -/
theorem strided_read_eq_logical {ε} (N W : Nat) (f : Nat → Nat → ε) (fortran : Bool)
    (r0 : Nat) (rs : Int) (nr : Nat) (c0 : Nat) (cs : Int) (nc : Nat) (i j i' j' : Nat)
    (hi : (r0 : Int) + (i : Int) * rs = (i' : Int)) (hj : (c0 : Int) + (j : Int) * cs = (j' : Int))
    (hi' : i' < N) (hj' : j' < W) :
    ((if fortran then Arr.ofFnF N W f else Arr.ofFnC N W f).sub2 r0 rs nr c0 cs nc).read2? i j
      = some (f i' j') := by
  cases fortran
  · simp only [Bool.false_eq_true, if_false]
    rw [read2?_sub2 _ (W : Int) 1 rfl r0 rs nr c0 cs nc i j i' j' hi hj, read2?_ofFnC N W f i' j' hi' hj']
  · simp only [if_true]
    rw [read2?_sub2 _ 1 (N : Int) rfl r0 rs nr c0 cs nc i j i' j' hi hj, read2?_ofFnF N W f i' j' hi' hj']

/-- the same for the 1-D target `y[c0::cs]` -/
theorem strided_read1_eq_logical {ε} (W : Nat) (g : Nat → ε) (c0 : Nat) (cs : Int) (nc : Nat)
    (j j' : Nat) (hj : (c0 : Int) + (j : Int) * cs = (j' : Int)) (hj' : j' < W) :
    ((Arr.ofFn1 W g).sub1 c0 cs nc).read1? j = some (g j') := by
  rw [read1?_sub1 _ 1 rfl c0 cs nc j j' hj, read1?_ofFn1 W g j' hj']

/-- reversed rows, every other column of a Fortran-ordered 4×5 table -/
example : ((Arr.ofFnF 4 5 (fun i j => 10 * i + j)).sub2 3 (-1) 4 0 2 3).rows? 4 3
    = some [[30, 32, 34], [20, 22, 24], [10, 12, 14], [0, 2, 4]] := by decide

/-! ## all schedules -/

/-- For EVERY interleaving of the rows' step sequences (any thread count, any assignment of
iterations to threads, any preemption) the final `out` buffer equals the one the
sequential loop produces: row `i` only ever touches the flat position of `out[i]`, and
distinct rows own distinct positions (`stride ≠ 0`; all numpy-made views).  FULL. -/
theorem interleaving_independent {ε} (k : Kernel) (term : ε → ε → Rat) (rows : List (List ε)) (ys : List ε)
    (offset stride : Int) (buf : Nat → Cell)
    (hpos : ∀ i, i < rows.length → 0 ≤ idx1 offset stride i) (hs : stride ≠ 0 ∨ rows.length ≤ 1)
    (e : Exec Cell) (he : IsInterleaving (progsOf k term rows ys) e) :
    runMem offset stride e buf = runMem offset stride (seqExec (progsOf k term rows ys)) buf := by
  apply runMem_interleaving_independent (progsOf k term rows ys) e _ he (seqExec_isInterleaving _)
  · intro i hi; exact hpos i (by rw [progsOf_length] at hi; exact hi)
  · rw [progsOf_length]; exact hs

/-- … and that buffer holds, at the position of `out[i]`, the sequential result of row `i`;
every other position is untouched (no write outside the view). -/
theorem interleaving_result {ε} (k : Kernel) (term : ε → ε → Rat) (rows : List (List ε)) (ys : List ε)
    (offset stride : Int) (buf : Nat → Cell)
    (hpos : ∀ i, i < rows.length → 0 ≤ idx1 offset stride i) (hs : stride ≠ 0 ∨ rows.length ≤ 1)
    (e : Exec Cell) (he : IsInterleaving (progsOf k term rows ys) e) :
    (∀ i xs, rows[i]? = some xs → runMem offset stride e buf (outPos offset stride i)
        = rowResult k ys.length (rowTerms term xs ys) (buf (outPos offset stride i))) ∧
    (∀ c, (∀ i, i < rows.length → outPos offset stride i ≠ c) → runMem offset stride e buf c = buf c) := by
  have spec := runMem_spec (progsOf k term rows ys) e he offset stride buf
    (fun i hi => hpos i (by rw [progsOf_length] at hi; exact hi)) (by rw [progsOf_length]; exact hs)
  constructor
  · intro i xs hxs
    have hi : i < rows.length := (List.getElem?_eq_some_iff.mp hxs).1
    rw [spec.1 i (by rw [progsOf_length]; exact hi), progOf_progsOf k term rows ys i xs hxs]
    rfl
  · intro c hc
    exact spec.2 c (fun i hi => hc i (by rw [progsOf_length] at hi; exact hi))

/-- the executable scheduler used by the driver produces interleavings (non-vacuity of
`IsInterleaving`; the choice list is arbitrary) -/
theorem schedule_is_interleaving {ε} (k : Kernel) (term : ε → ε → Rat) (rows : List (List ε)) (ys : List ε)
    (choices : List Nat) :
    IsInterleaving (progsOf k term rows ys) (schedule (progsOf k term rows ys) choices) :=
  schedule_isInterleaving _ _

/-- a genuinely interleaved execution (rows alternate) next to the sequential one -/
example :
    (schedule (progsOf .manhattan (termRat .manhattan) [[1, 2], [3, 4]] [0, 0]) [1, 0, 1]).map (·.1)
      = [1, 0, 1, 0, 0, 1] ∧
    (seqExec (progsOf .manhattan (termRat .manhattan) [[1, 2], [3, 4]] [0, 0])).map (·.1)
      = [0, 0, 0, 1, 1, 1] := by decide

/-- the position hypotheses hold for a reversed `out` view `buf[2::-2]` of two rows -/
example : (∀ i, i < 2 → 0 ≤ idx1 2 (-2) i) ∧ ((-2 : Int) ≠ 0 ∨ 2 ≤ 1) := by decide

/-! ## validation -/

/-- `_prepare_for_2d_to_1d_distance` accepts exactly: X of rank 2, y of rank 1, equal width,
and `out` absent or a float64 vector of length `X.shape[0]`.  Everything else raises. -/
theorem prepare_accepts_iff (Xm ym : Meta) (om : Option Meta) (sh : List Nat) :
    prepare Xm ym om = .ok sh ↔
      ∃ n w, Xm.shape = [n, w] ∧ ym.shape = [w] ∧ sh = [n] ∧
        (om = none ∨ ∃ o, om = some o ∧ o.dtype = "float64" ∧ o.shape = [n]) :=
  prepare_ok_iff Xm ym om sh

/-- A call that does not raise had well-formed arguments: rank 2 / rank 1 / equal width /
suitable `out`, an element type the kernel is compiled for, the same for `y`, writable `out`.
(Contrapositive: wrong rank, width mismatch, unsupported or mixed buffer types raise.) -/
theorem malformed_raises (k : Kernel) (Xm ym : Meta) (data : Data) (out : Option (Meta × Arr Cell))
    (choices : List Nat) (r : Result) (h : call k Xm ym data out choices = .ok r) :
    (∃ n w, Xm.shape = [n, w] ∧ ym.shape = [w] ∧
        (out = none ∨ ∃ o, out.map (·.1) = some o ∧ o.dtype = "float64" ∧ o.shape = [n])) ∧
    (∃ t, DType.ofName Xm.dtype = some t ∧ t ∈ k.dtypes) ∧ ym.dtype = Xm.dtype ∧
    (out.map (·.1.writable)).getD true = true := by
  unfold call at h
  split at h
  · cases h
  rename_i sh hprep
  split at h
  · cases h
  rename_i t hdisp
  obtain ⟨n, w, hX, hy, -, ho⟩ := (prepare_ok_iff _ _ _ _).mp hprep
  obtain ⟨h1, h2, h3, h4⟩ := dispatch_ok _ _ _ _ _ hdisp
  refine ⟨⟨n, w, hX, hy, ?_⟩, ⟨t, h1, h2⟩, h3, h4⟩
  rcases ho with ho | ho
  · left; cases out <;> simp_all
  · right; exact ho

/-- Validation ok ⇒ every index the kernel forms (`i < n_samples = len(out)`,
`j < n_features = len(y)`; `X[i,j]`, `y[j]`, `out[i]`) lies inside the respective buffer,
for arrays satisfying numpy's extent invariant.  FULL. -/
theorem validated_in_bounds {ε} (Xm ym : Meta) (om : Option Meta) (sh : List Nat)
    (X y : Arr ε) (out : Arr Cell)
    (hprep : prepare Xm ym om = .ok sh)
    (hX : X.shape = Xm.shape) (hy : y.shape = ym.shape) (ho : out.shape = sh)
    (hXe : X.extentOk = true) (hye : y.extentOk = true) (hoe : out.extentOk = true) :
    ∃ n w, out.shape = [n] ∧ y.shape = [w] ∧
      ∀ i j, i < n → j < w →
        (X.read2? i j).isSome ∧ (y.read1? j).isSome ∧ (out.read1? i).isSome := by
  obtain ⟨n, w, hXs, hys, rfl, -⟩ := (prepare_ok_iff _ _ _ _).mp hprep
  refine ⟨n, w, ho, by rw [hy, hys], fun i j hi hj => ⟨?_, ?_, ?_⟩⟩
  · exact read2?_isSome X n w (by rw [hX, hXs]) hXe i j hi hj
  · exact read1?_isSome y w (by rw [hy, hys]) hye j hj
  · exact read1?_isSome out n ho hoe i hi

/-- the hypotheses are satisfiable: a reversed / every-other-column int16 view, a strided `out` -/
example :
    prepare ⟨"int16", [2, 2], true⟩ ⟨"int16", [2], true⟩ (some ⟨"float64", [2], true⟩) = .ok [2] ∧
    (⟨#[1, 0, 4, 0, 7, 0, 5, 0], 4, [2, 2], [-4, 2]⟩ : Arr Int).extentOk = true ∧
    (⟨#[4, 1], 0, [2], [1]⟩ : Arr Int).extentOk = true ∧
    (⟨#[.nan, .untracked, .val 7], 2, [2], [-2]⟩ : Arr Cell).extentOk = true := by decide

/-- … and then the kernel runs to completion in the model (never `bad-request`) -/
theorem validated_runs {ε} (k : Kernel) (term : ε → ε → Rat) (Xm ym : Meta) (om : Option Meta)
    (sh : List Nat) (X y : Arr ε) (out : Arr Cell) (so : Int) (choices : List Nat)
    (hprep : prepare Xm ym om = .ok sh)
    (hX : X.shape = Xm.shape) (hy : y.shape = ym.shape) (ho : out.shape = sh)
    (hst : out.strides = [so]) (halias : so ≠ 0 ∨ sh.sum ≤ 1)
    (hXe : X.extentOk = true) (hye : y.extentOk = true) (hoe : out.extentOk = true) :
    ∃ r, kernelRun k term X y out choices = .ok r := by
  obtain ⟨n, w, hXs, hys, rfl, -⟩ := (prepare_ok_iff _ _ _ _).mp hprep
  exact kernelRun_ok_of_valid k term X y out choices n w so (by rw [hX, hXs]) (by rw [hy, hys]) ho hst
    hXe hye hoe (by simpa using halias)

/-! ## the output buffer -/

/-- A kernel run that succeeds (under whatever schedule) leaves in the caller's buffer, at the
position of `out[i]`, the result of row `i` of the logical data read through the strides; all
other positions of the base buffer keep their content; the returned view is the caller's.  FULL. -/
theorem out_is_result {ε} (k : Kernel) (term : ε → ε → Rat) (X y : Arr ε) (out : Arr Cell)
    (choices : List Nat) (r : Result) (h : kernelRun k term X y out choices = .ok r) :
    ∃ n w so rows ys, out.shape = [n] ∧ y.shape = [w] ∧ out.strides = [so] ∧
      X.rows? n w = some rows ∧ y.elems? w = some ys ∧ rows.length = n ∧ ys.length = w ∧
      r.n = n ∧ r.offset = out.offset ∧ r.stride = so ∧ r.buf.length = out.buf.size ∧
      (∀ i xs, rows[i]? = some xs → ∃ init, out.buf[outPos out.offset so i]? = some init ∧
          r.buf[outPos out.offset so i]? = some (rowResult k w (rowTerms term xs ys) init)) ∧
      (∀ c, (∀ i, i < n → outPos out.offset so i ≠ c) → r.buf[c]? = out.buf[c]?) := by
  obtain ⟨n, w, so, rows, ys, s⟩ := kernelRun_spec k term X y out choices r h
  exact ⟨n, w, so, rows, ys, s.hshape, s.hy, s.hstr, s.hrows, s.hys, s.hrowsLen, s.hysLen, s.hn,
    s.hoff, s.hstride, s.hlen, s.hrow, s.hother⟩

/-- Whatever the buffer held before (garbage, NaN, a previous result) and whatever the two
schedules, the results are the same: every row zeroes its cell before accumulating.  FULL. -/
theorem out_independent_of_initial {ε} (k : Kernel) (term : ε → ε → Rat) (X y : Arr ε)
    (out1 out2 : Arr Cell) (choices1 choices2 : List Nat) (r1 r2 : Result)
    (hoff : out1.offset = out2.offset) (hsh : out1.shape = out2.shape) (hst : out1.strides = out2.strides)
    (h1 : kernelRun k term X y out1 choices1 = .ok r1)
    (h2 : kernelRun k term X y out2 choices2 = .ok r2) :
    ∃ n so, out1.shape = [n] ∧ out1.strides = [so] ∧
      ∀ i, i < n → r1.buf[outPos out1.offset so i]? = r2.buf[outPos out1.offset so i]?
                   ∧ (r1.buf[outPos out1.offset so i]?).isSome :=
  kernelRun_init_independent k term X y out1 out2 choices1 choices2 r1 r2 hoff hsh hst h1 h2

/-! ## the property sentence as one statement: a call that returns, returns the norms -/

/-- float32 / float64 data: `euclidean` / `manhattan` return, per logical row read through the
strides, `√Σ(x_j−y_j)²` resp. `Σ|x_j−y_j|`; `hamming` never accepts float data.  Composition of
validation (`prepare`), dispatch, strided reads, ANY schedule the choice list encodes, and the row
programs.  FULL (exact-rational arithmetic). -/
theorem call_returns_norms_float (k : Kernel) (Xm ym : Meta) (X y : Arr Rat)
    (out : Option (Meta × Arr Cell)) (choices : List Nat) (r : Result)
    (h : call k Xm ym (.rats X y) out choices = .ok r) :
    ∃ w rows ys, X.rows? r.n w = some rows ∧ y.elems? w = some ys ∧ rows.length = r.n ∧ ys.length = w ∧
      k ≠ .hamming ∧
      (k = .euclidean → r.values = rows.map (fun xs => Cell.sqrt (sqDist xs ys))) ∧
      (k = .manhattan → r.values = rows.map (fun xs => Cell.val (l1Dist xs ys))) := by
  obtain ⟨sh, t, -, hdisp, hk⟩ := call_ok_kernelRun k Xm ym _ out choices r h
  rcases hk with ⟨c, X', y', -, hd, -⟩ | ⟨X', y', hprom, hd, hrun⟩
  · cases hd
  cases hd
  obtain ⟨n, w, so, rows, ys, s⟩ := kernelRun_spec k (termRat k) X y _ choices r hrun
  have hv := values_of_spec k (termRat k) X y _ r n w so rows ys s
  have hn := s.hn
  refine ⟨w, rows, ys, by rw [hn]; exact s.hrows, s.hys, by rw [hn]; exact s.hrowsLen, s.hysLen, ?_, ?_, ?_⟩
  · rintro rfl
    exact hamming_dtype_is_int t (dispatch_ok _ _ _ _ _ hdisp).2.1 hprom
  · rintro rfl
    rw [hv]; apply List.map_congr_left; intro xs _
    exact (kernel_row_spec_float xs ys w .nan).1
  · rintro rfl
    rw [hv]; apply List.map_congr_left; intro xs _
    exact (kernel_row_spec_float xs ys w .nan).2

/-- integer data: `hamming` returns the fraction of differing coordinates (for `n_features > 0`),
unconditionally; `euclidean` / `manhattan` return the norms when the source uses the repaired
arithmetic (`intArith = .viaDouble`) or when no coordinate of the logical data overflows the
promoted C type (`NoOverflowSq` / `NoOverflowDiff`; automatic for 8/16-bit types:
`smallInt_noOverflow`).  PARTIAL exactly as `kernel_row_spec_partial`: without that hypothesis the
statement is false for int32 / int64 (`overflow_counterexample`). -/
theorem call_returns_norms_int (k : Kernel) (Xm ym : Meta) (X y : Arr Int)
    (out : Option (Meta × Arr Cell)) (choices : List Nat) (r : Result)
    (h : call k Xm ym (.ints X y) out choices = .ok r) :
    ∃ t c w rows ys, DType.ofName Xm.dtype = some t ∧ t ∈ k.dtypes ∧ t.promote = some c ∧
      X.rows? r.n w = some rows ∧ y.elems? w = some ys ∧ rows.length = r.n ∧ ys.length = w ∧
      (k = .hamming → 0 < w →
        r.values = rows.map (fun xs => Cell.val ((hammingCount xs ys : Rat) / (w : Rat)))) ∧
      (k = .euclidean →
        (intArith = .viaDouble ∨ ∀ xs ∈ rows, ∀ p ∈ xs.zip ys, NoOverflowSq c p.1 p.2) →
        r.values = rows.map (fun xs => Cell.sqrt (sqDist (toRat xs) (toRat ys)))) ∧
      (k = .manhattan →
        (intArith = .viaDouble ∨ ∀ xs ∈ rows, ∀ p ∈ xs.zip ys, NoOverflowDiff c p.1 p.2) →
        r.values = rows.map (fun xs => Cell.val (l1Dist (toRat xs) (toRat ys)))) := by
  obtain ⟨sh, t, -, hdisp, hk⟩ := call_ok_kernelRun k Xm ym _ out choices r h
  rcases hk with ⟨c, X', y', hprom, hd, hrun⟩ | ⟨X', y', -, hd, -⟩
  swap
  · cases hd
  cases hd
  obtain ⟨hname, hmem, -, -⟩ := dispatch_ok _ _ _ _ _ hdisp
  obtain ⟨n, w, so, rows, ys, s⟩ := kernelRun_spec k (termInt intArith k c) X y _ choices r hrun
  have hv := values_of_spec k (termInt intArith k c) X y _ r n w so rows ys s
  have hn := s.hn
  refine ⟨t, c, w, rows, ys, hname, hmem, hprom, by rw [hn]; exact s.hrows, s.hys,
    by rw [hn]; exact s.hrowsLen, s.hysLen, ?_, ?_, ?_⟩
  · rintro rfl hw
    rw [hv]; apply List.map_congr_left; intro xs _
    exact hamming_row_spec intArith c xs ys w hw .nan
  · rintro rfl hyp
    rw [hv]; apply List.map_congr_left; intro xs hxs
    generalize intArith = a at hyp ⊢
    cases a
    · rcases hyp with hyp | hyp
      · cases hyp
      · exact (kernel_row_spec_partial c xs ys w .nan).1 (hyp xs hxs)
    · exact (kernel_row_spec_repaired c xs ys w .nan).1
  · rintro rfl hyp
    rw [hv]; apply List.map_congr_left; intro xs hxs
    generalize intArith = a at hyp ⊢
    cases a
    · rcases hyp with hyp | hyp
      · cases hyp
      · exact (kernel_row_spec_partial c xs ys w .nan).2 (hyp xs hxs)
    · exact (kernel_row_spec_repaired c xs ys w .nan).2

/-- the hypotheses are met by a concrete successful call (int16 view, strided garbage `out`), whose
returned view is `[√25, √18]` -/
example :
    (call .euclidean ⟨"int16", [2, 2], true⟩ ⟨"int16", [2], true⟩
      (.ints ⟨#[1, 0, 4, 0, 7, 0, 5, 0], 4, [2, 2], [-4, 2]⟩ ⟨#[4, 1], 0, [2], [1]⟩)
      (some (⟨"float64", [2], true⟩, ⟨#[.nan, .untracked, .val 7], 2, [2], [-2]⟩))
      [1, 0, 0, 1, 1, 0]).map (·.values) = .ok [.sqrt 25, .sqrt 18] ∧
    (∀ xs ∈ [[(7 : Int), 5], [1, 4]], ∀ p ∈ xs.zip [(4 : Int), 1], NoOverflowSq .s32 p.1 p.2) := by
  decide +kernel

/-- a complete call on a reversed, every-other-column int16 view with a strided garbage `out`,
under a non-trivial schedule -/
example :
    (call .euclidean ⟨"int16", [2, 2], true⟩ ⟨"int16", [2], true⟩
      (.ints ⟨#[1, 0, 4, 0, 7, 0, 5, 0], 4, [2, 2], [-4, 2]⟩ ⟨#[4, 1], 0, [2], [1]⟩)
      (some (⟨"float64", [2], true⟩, ⟨#[.nan, .untracked, .val 7], 2, [2], [-2]⟩))
      [1, 0, 0, 1, 1, 0]).map (·.buf) = .ok [.sqrt 18, .untracked, .sqrt 25] := by
  decide +kernel

end C13
