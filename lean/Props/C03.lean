import Model.Counts
namespace C03
theorem placeholder : True := trivial
end C03
