import Proofs.C03b
/-!
# C03 — transition counts equal the exact number of lagged state pairs

Model: `Model/Counts.lean` (`transitionsHelper`, `assignsToCounts`, mirroring
`enspara/msm/transition_matrices.py`), slices via `Model/PySlice.lean`.
Every theorem is for all row sets, all lengths (including shorter than the lag), all lags ≥ 1,
both window modes.
-/
namespace C03
open Ens Ens.Counts

/-- `_transitions_helper` never fails (its two views always have equal length) and returns exactly
the pairs `(a[t], a[t+lag])` for `t = 0, s, 2s, …` with `t + lag < |a|` (s = 1 sliding, s = lag not). -/
theorem helper_eq_spec (a : List Int) (lag : Nat) (sliding : Bool) (hlag : 1 ≤ lag) :
    transitionsHelper a lag sliding = .ok (lagPairs a lag (stepOf lag sliding)) :=
  transitionsHelper_eq a lag sliding hlag

/-- every reported pair consists of two frames of the SAME row, `lag` apart (no pair spans rows) -/
theorem pairs_inside_row (a : List Int) (lag : Nat) (sliding : Bool) (hlag : 1 ≤ lag) (k : Nat)
    (hk : k < (lagPairs a lag (stepOf lag sliding)).length) :
    k * stepOf lag sliding + lag < a.length ∧
    (lagPairs a lag (stepOf lag sliding))[k]? =
      some (a.getD (k * stepOf lag sliding) default, a.getD (k * stepOf lag sliding + lag) default) := by
  have hs : 1 ≤ stepOf lag sliding := by unfold stepOf; cases sliding <;> simp [hlag]
  rw [lagPairs_length] at hk
  refine ⟨nPairs_pos_lt _ _ _ _ hs hk, ?_⟩
  simp [lagPairs, hk]

/-- the guard on the lag time -/
theorem lag_guard (rows : List (List Int)) (lag : Int) (maxN : Option Nat) (sliding : Bool) (h : lag < 1) :
    (assignsToCounts rows lag maxN sliding).toOption.isNone := by
  simp [assignsToCounts, h, bind, Except.bind, throw, throwThe, MonadExceptOf.throw, Except.toOption]

/-- no trajectory at all is rejected (`np.hstack([])` raises), as the code does -/
theorem no_rows_rejected (lag : Int) (maxN : Option Nat) (sliding : Bool) :
    (assignsToCounts [] lag maxN sliding).toOption.isNone := by
  unfold assignsToCounts
  by_cases h : lag < 1 <;> simp [h, bind, Except.bind, throw, throwThe, MonadExceptOf.throw, Except.toOption]

/-- Entry (i, j) of the count matrix is the number of lagged pairs, over all rows with `-1` dropped,
whose states are i and j; the matrix has the requested size. -/
theorem counts_entry (rows : List (List Int)) (lag : Nat) (n : Nat) (sliding : Bool) (hlag : 1 ≤ lag)
    (c : CountMat) (h : assignsToCounts rows (lag : Int) (some n) sliding = .ok c) :
    c.n = n ∧ ∀ i j : Nat, c.entry i j = countPair (specPairs rows lag sliding) i j := by
  have hl : ¬ ((lag : Int) < 1) := by omega
  simp only [assignsToCounts, hl, if_false, Int.toNat_natCast, allPairs_eq rows lag sliding hlag,
    bind, Except.bind, pure, Except.pure] at h
  split at h
  · simp [throw, throwThe, MonadExceptOf.throw] at h
  · split at h
    · simp [throw, throwThe, MonadExceptOf.throw] at h
    · cases h
      exact ⟨rfl, fun _ _ => rfl⟩

/-- with the state count inferred: the size is (largest observed state) + 1 and the entries are the same
pair counts; an input with no assigned frame at all is rejected -/
theorem counts_entry_inferred (rows : List (List Int)) (lag : Nat) (sliding : Bool) (hlag : 1 ≤ lag)
    (c : CountMat) (h : assignsToCounts rows (lag : Int) none sliding = .ok c) :
    ∃ m, maxState rows = some m ∧ c.n = (m + 1).toNat ∧
      ∀ i j : Nat, c.entry i j = countPair (specPairs rows lag sliding) i j := by
  have hl : ¬ ((lag : Int) < 1) := by omega
  simp only [assignsToCounts, hl, if_false, Int.toNat_natCast, allPairs_eq rows lag sliding hlag,
    bind, Except.bind, pure, Except.pure] at h
  split at h
  · simp [throw, throwThe, MonadExceptOf.throw] at h
  · cases hm : maxState rows with
    | none => simp [hm, throw, throwThe, MonadExceptOf.throw] at h
    | some m =>
      simp only [hm] at h
      split at h
      · simp [throw, throwThe, MonadExceptOf.throw] at h
      · split at h
        · simp [throw, throwThe, MonadExceptOf.throw] at h
        · cases h
          exact ⟨m, rfl, rfl, fun _ _ => rfl⟩

/-- the returned table is square: n rows of n entries -/
theorem counts_square (c : CountMat) :
    c.toLists.length = c.n ∧ ∀ r ∈ c.toLists, r.length = c.n := by
  constructor
  · simp [CountMat.toLists, tabulate]
  · intro r hr
    simp only [CountMat.toLists, tabulate, List.mem_map, List.mem_range] at hr
    obtain ⟨i, _, rfl⟩ := hr
    simp

/-- additivity over sets of trajectories -/
theorem counts_additive (A B : List (List Int)) (lag : Nat) (sliding : Bool) (i j : Int) :
    countPair (specPairs (A ++ B) lag sliding) i j
      = countPair (specPairs A lag sliding) i j + countPair (specPairs B lag sliding) i j := by
  rw [specPairs_append, countPair_append]

/-- any reordering of the trajectories gives the same counts -/
theorem counts_perm (A B : List (List Int)) (h : A.Perm B) (lag : Nat) (sliding : Bool) (i j : Int) :
    countPair (specPairs A lag sliding) i j = countPair (specPairs B lag sliding) i j :=
  countPair_perm (specPairs_perm h lag sliding) i j

/-- trailing `-1` padding of any row is ignored: padded rectangular = ragged -/
theorem counts_padding (rows : List (List Int)) (pad : List Nat) (lag : Nat) (sliding : Bool)
    (hp : pad.length = rows.length) :
    specPairs (List.zipWith (fun r k => r ++ List.replicate k (-1)) rows pad) lag sliding
      = specPairs rows lag sliding := by
  unfold specPairs
  congr 1
  induction rows generalizing pad with
  | nil => simp
  | cons r rs ih =>
    cases pad with
    | nil => simp at hp
    | cons k ks =>
      simp only [List.zipWith_cons_cons, List.map_cons, dropPad_append_pad]
      rw [ih ks (by simpa using hp)]

/-- total under the sliding window: Σ over trajectories of max(0, length − lag) -/
theorem counts_total_sliding (rows : List (List Int)) (lag : Nat) :
    (specPairs rows lag true).length = (rows.map fun r => (dropPad r).length - lag).sum := by
  rw [specPairs_length]
  simp [stepOf, nPairs_one]

/-- total without the sliding window: Σ ⌈max(0, length − lag) / lag⌉ -/
theorem counts_total_strided (rows : List (List Int)) (lag : Nat) :
    (specPairs rows lag false).length
      = (rows.map fun r => ((dropPad r).length - lag + lag - 1) / lag).sum := by
  rw [specPairs_length]
  simp [stepOf, nPairs]

/-- the matrix total equals the number of pairs (so the totals above are totals of the matrix) -/
theorem counts_matrix_total (rows : List (List Int)) (lag : Nat) (n : Nat) (sliding : Bool) (hlag : 1 ≤ lag)
    (c : CountMat) (h : assignsToCounts rows (lag : Int) (some n) sliding = .ok c) :
    (∑ i ∈ Finset.range n, ∑ j ∈ Finset.range n, c.entry i j) = (specPairs rows lag sliding).length := by
  have hl : ¬ ((lag : Int) < 1) := by omega
  have he := (counts_entry rows lag n sliding hlag c h).2
  simp only [assignsToCounts, hl, if_false, Int.toNat_natCast, allPairs_eq rows lag sliding hlag,
    bind, Except.bind, pure, Except.pure] at h
  split at h
  · simp [throw, throwThe, MonadExceptOf.throw] at h
  split at h
  · simp [throw, throwThe, MonadExceptOf.throw] at h
  · rename_i hany
    simp only [he]
    apply sum_countPair
    intro p hp
    have : ¬ (p.1 < 0 ∨ p.2 < 0 ∨ p.1 ≥ (n:Int) ∨ p.2 ≥ (n:Int)) := by
      intro hc
      apply hany
      rw [List.any_eq_true]
      exact ⟨p, hp, by simpa using hc⟩
    omega

/-! Non-vacuity: a concrete run through the model (two rows, one padded, lag 2). -/
example : (assignsToCounts [[0, 1, 0, 1, 1, -1], [2, 2, 0]] 2 (some 3) true).toOption.map CountMat.toLists
    = some [[1, 1, 0], [0, 1, 0], [1, 0, 0]] := by decide
example : (assignsToCounts [[0, 1, 0, 1, 1, -1], [2, 2, 0]] 2 (some 3) false).toOption.map CountMat.toLists
    = some [[1, 1, 0], [0, 0, 0], [1, 0, 0]] := by decide

end C03
