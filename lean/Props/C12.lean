import Model.Mle
import Model.Generated.MleSite
import Proofs.C12Final
import Proofs.C12OptEx
import Proofs.C12Sym
import Mathlib.Analysis.Real.Sqrt
import Mathlib.Analysis.SpecialFunctions.Log.Basic
import Mathlib.Tactic.FinCases
import Mathlib.Tactic.NormNum
import Mathlib.Logic.Relation

/-!
# C12 — the reversible estimator is a true maximum-likelihood fixed point

Theorems about `Model.Mle` (the model of `_prinz_mle_py` / `_mle_prinz_dense`) instantiated
with an arbitrary linear ordered field `K` and a function `sqrt` with
`sqrt x * sqrt x = x`, `0 ≤ sqrt x` for `x ≥ 0` (`SqrtSpec`; `Real.sqrt` satisfies it, see
`real_sqrt_spec`).  `log` is arbitrary: it only enters the convergence test.

Proved: the loop invariants, that `assert c <= 0` cannot fire, that each pair update is the
non-negative root of its quadratic, that a sweep which changes nothing yields the Prinz
self-consistency equations, that (for count matrices in which every state has an outgoing and
an incoming off-diagonal count — implied by strong connectivity with ≥ 2 states) the running
row sums stay positive, so the final assertions hold exactly and the output is a valid
reversible model.

Also proved (`optimal`, the statement is `def C12_optimal`): at a state where one more sweep
changes nothing, on a strongly connected count matrix, `X / rowsum` maximises the
log-likelihood over **all** reversible row-stochastic matrices of finite likelihood (positive
wherever `C` is) — in particular those with the same support (`optimal_same_support`) and the
transpose-symmetrised estimate (`optimal_vs_transpose`); `optimal_output` is the same for the
`r.T` returned by `run`.  The proof (`Proofs/C12Opt.lean`) is Jensen's inequality for `log`
plus the Prinz equations; no uniqueness or convergence argument is needed.

**Exact fixed point vs. "up to the convergence tolerance".**  `fixed_point_prinz`, `optimal`,
`optimal_same_support`, `optimal_vs_transpose`, `optimal_output` are the `_partial` forms of
the property's clauses: they speak about a state at which one more sweep changes *nothing*
(aliases `fixed_point_prinz_partial`, `optimal_partial`, `optimal_output_partial`).  The full
clause — every model returned by `run` with tolerance `tol` is within `f(tol)` of every
competitor — is `def C12_optimal_returned_full`, **not asserted**.

NOT proved: that the loop *reaches* a fixed point (convergence of the block coordinate ascent,
hence `C12_optimal_returned_full`) — examined numerically by the correspondence check;
termination of the loop before `max_iter` (the property allows a warning); anything about
floating-point rounding.

Correspondence-only clauses (no theorem; established by the differential run in
`harness/props/c12.py` on every case): "the compiled and the pure-Python implementations
agree" (there is one model, parametrised by the logarithm and the final assertions; each
implementation is compared with its flavour and with the other), and the densify / estimate /
re-wrap of sparse input in `builders.mle` (incl. inputs with un-summed repeated entries).

Scope of the returns / validity theorems: `Conn` (every state has an outgoing and an incoming
off-diagonal count) is implied by strong connectivity with ≥ 2 states
(`conn_of_strongly_connected`) and is unsatisfiable for one state; the one-state chain
`C = [[c]]` is covered separately by `one_state`.
-/

set_option linter.unusedSectionVars false

namespace C12
open Ens Ens.Mle Ens.C12P

section field
variable {K : Type} [Field K] [LinearOrder K] [IsStrictOrderedRing K] {n : Nat}

/-- After `init` and any number of sweeps: no assertion has fired, `X` is symmetric and
non-negative and the running row sums are the row sums of `X`. -/
theorem sweep_invariants {sqrt log : K → K} (hs : SqrtSpec sqrt) {C : Mat K n}
    (hC : ∀ i j, 0 ≤ mget C i j) {Crs : Vec K n} {st0 : St K n}
    (hinit : init C = .ok (Crs, st0)) (k : Nat) :
    ∃ st, sweepsN sqrt log C Crs k st0 = .ok st ∧
      (∀ i j, mget st.X i j = mget st.X j i) ∧ (∀ i j, 0 ≤ mget st.X i j) ∧
      (∀ i, vget st.rs i = ∑ j, mget st.X i j) := by
  obtain ⟨hD, hinv, _, _⟩ := init_inv hC hinit
  obtain ⟨st, h1, h2⟩ := sweepsN_inv (log := log) hs hD k hinv
  exact ⟨st, h1, h2.symm, h2.nonneg, h2.rs⟩

/-- the same through the real loop with its convergence test and iteration cap -/
theorem loop_invariants {sqrt log : K → K} (hs : SqrtSpec sqrt) (tol : K) {C : Mat K n}
    (hC : ∀ i j, 0 ≤ mget C i j) {Crs : Vec K n} {st0 : St K n}
    (hinit : init C = .ok (Crs, st0)) (maxIter : Nat) :
    ∃ st k, loop sqrt log tol C Crs maxIter 0 st0 0 = .ok (st, k) ∧ k + 1 ≤ max maxIter 1 ∧
      (∀ i j, mget st.X i j = mget st.X j i) ∧ (∀ i j, 0 ≤ mget st.X i j) ∧
      (∀ i, vget st.rs i = ∑ j, mget st.X i j) := by
  obtain ⟨hD, hinv, _, _⟩ := init_inv hC hinit
  obtain ⟨st, k, h1, h2, _, h4⟩ := loop_inv (log := log) hs tol hD maxIter 0 st0 0 hinv
  exact ⟨st, k, h1, by omega, h2.symm, h2.nonneg, h2.rs⟩

/-- `assert c <= 0` cannot fire in exact arithmetic: on every state satisfying the invariant
the coefficient is non-positive and the pair step returns. -/
theorem c_nonpos {sqrt : K → K} {C : Mat K n} {Crs : Vec K n} (hD : Data C Crs)
    {st : St K n} (h : Inv st) (i j : Fin n) :
    coefC C st i j ≤ 0 ∧ ∃ st', pairStep sqrt C Crs st i j = .ok st' :=
  ⟨coefC_nonpos hD h i j, _, pairStep_ok hD h i j⟩

/-- the rounding guard in front of that assertion
(`if 0 < c <= 1e-9 * (C_ij + C_ji) * X_rs[i] * X_rs[j]: c = 0`) never fires in exact arithmetic:
it leaves `c` unchanged on every state satisfying the invariant, so the pair step is the
unguarded Prinz update there (`pairStep_ok`); it only matters for floating-point rounding. -/
theorem guard_never_fires {C : Mat K n} {Crs : Vec K n} (hD : Data C Crs)
    {st : St K n} (h : Inv st) (i j : Fin n) :
    guardC C st i j (coefC C st i j) = coefC C st i j :=
  guardC_of_nonpos i j (coefC_nonpos hD h i j)

/-- the value written by a pair update: for `a ≠ 0` it solves `a v² + b v + c = 0`, the
discriminant is non-negative and `v ≥ 0`; for `a = 0` it is the old value. -/
theorem update_is_root {sqrt : K → K} (hs : SqrtSpec sqrt) {C : Mat K n} {Crs : Vec K n}
    (hD : Data C Crs) {st : St K n} (h : Inv st) (i j : Fin n) :
    0 ≤ newV sqrt C Crs st i j ∧
    0 ≤ coefB C Crs st i j * coefB C Crs st i j - 4 * coefA C Crs i j * coefC C st i j ∧
    (coefA C Crs i j ≠ 0 →
      coefA C Crs i j * newV sqrt C Crs st i j * newV sqrt C Crs st i j
        + coefB C Crs st i j * newV sqrt C Crs st i j + coefC C st i j = 0) ∧
    (coefA C Crs i j = 0 → newV sqrt C Crs st i j = mget st.X j i) := by
  refine ⟨newV_nonneg hs hD h i j, disc_nonneg (coefA_nonneg hD i j) (coefC_nonpos hD h i j),
    newV_root hs hD h i j, ?_⟩
  intro ha
  simp [newV, ha]

/-- A sweep that returns the same `X` ⇒ the Prinz self-consistency equations: for every
state with off-diagonal counts `x_ii · c_i = c_ii · x_i`, and for every pair `i ≠ j` with
`a_ij ≠ 0`: `(c_ij + c_ji) · x_i · x_j = x_ij · (c_i · x_j + c_j · x_i)`. -/
theorem fixed_point_prinz {sqrt log : K → K} (hs : SqrtSpec sqrt) {C : Mat K n} {Crs : Vec K n}
    (hD : Data C Crs) {st : St K n} (h : Inv st) {q : St K n × K}
    (hsw : sweep sqrt log C Crs st = .ok q) (hX : q.1.X = st.X) :
    (∀ i, 0 < vget Crs i - mget C i i →
      mget st.X i i * vget Crs i = mget C i i * vget st.rs i) ∧
    (∀ i j, i ≠ j → coefA C Crs i j ≠ 0 →
      (mget C i j + mget C j i) * vget st.rs i * vget st.rs j
        = mget st.X i j * (vget Crs i * vget st.rs j + vget Crs j * vget st.rs i)) := by
  obtain ⟨hd, hp⟩ := sweep_fixed hD h hsw hX
  refine ⟨?_, ?_⟩
  · intro i hden
    apply diag_fixed_eq i hden
    rw [hd i]
  · intro i j hij ha
    rcases lt_or_gt_of_ne hij with hlt | hgt
    · exact pair_fixed_eq hs hD h i j ha (hp i j hlt)
    · have ha' : coefA C Crs j i ≠ 0 := by
        unfold coefA at ha ⊢; rw [add_comm]; exact ha
      have := pair_fixed_eq hs hD h j i ha' (hp j i hgt)
      rw [h.symm i j]
      linear_combination this

/-- `_partial` alias: the self-consistency clause at an *exact* fixed point of the sweep -/
theorem fixed_point_prinz_partial {sqrt log : K → K} (hs : SqrtSpec sqrt) {C : Mat K n}
    {Crs : Vec K n} (hD : Data C Crs) {st : St K n} (h : Inv st) {q : St K n × K}
    (hsw : sweep sqrt log C Crs st = .ok q) (hX : q.1.X = st.X) :
    (∀ i, 0 < vget Crs i - mget C i i →
      mget st.X i i * vget Crs i = mget C i i * vget st.rs i) ∧
    (∀ i j, i ≠ j → coefA C Crs i j ≠ 0 →
      (mget C i j + mget C j i) * vget st.rs i * vget st.rs j
        = mget st.X i j * (vget Crs i * vget st.rs j + vget Crs j * vget st.rs i)) :=
  fixed_point_prinz hs hD h hsw hX

/-- In exact arithmetic the two final assertions are theorems: on a state satisfying the
invariant with positive running row sums, `finish` returns the model or (cap reached and the
`warnings.warn` arguments swapped) the `TypeError` — never an `AssertionError`.  So a failure
of these assertions on the real code is purely a rounding effect. -/
theorem final_asserts_exact {P : Params K} (hP : ParamsOK P) (hn : 0 < n) {st : St K n}
    (h : Inv st) (hpos : ∀ i, 0 < vget st.rs i) (k : Nat) :
    finish P st k ≠ .error .assertion ∧
    (¬ (k + 1 = P.maxIter ∧ P.warnSwapped = true) → ∃ r, finish P st k = .ok r) := by
  rcases finish_spec hP hn h hpos k with ⟨_, _, h3⟩ | ⟨h1, r, h2, _⟩
  · exact ⟨by rw [h3]; simp, fun hne => absurd ⟨‹_›, ‹_›⟩ hne⟩
  · exact ⟨by rw [h2]; simp, fun _ => ⟨r, h2⟩⟩

/-- The positivity that `final_asserts_exact` needs is itself an invariant when every state
has an outgoing and an incoming off-diagonal count: wherever `C + Cᵀ` (resp. the diagonal of
`C`) is positive, `X` stays positive, hence every running row sum stays positive. -/
theorem rowsums_stay_positive {sqrt log : K → K} (hs : SqrtSpec sqrt) {C : Mat K n}
    (hC : ∀ i j, 0 ≤ mget C i j) (hc : Conn C) {Crs : Vec K n} {st0 : St K n}
    (hinit : init C = .ok (Crs, st0)) (k : Nat) :
    ∃ st, sweepsN sqrt log C Crs k st0 = .ok st ∧ (∀ i, 0 < vget st.rs i) ∧
      (∀ i j, i ≠ j → 0 < mget C i j + mget C j i → 0 < mget st.X i j) ∧
      (∀ i, 0 < mget C i i → 0 < mget st.X i i) := by
  obtain ⟨hD, hinv, _, _⟩ := init_inv hC hinit
  obtain ⟨st, h1, h2⟩ := sweepsN_good (log := log) hs hD hc k ⟨hinv, init_pos hinit⟩
  exact ⟨st, h1, fun i => h2.2.rs_pos hD hc h2.1 i, h2.2.off, h2.2.diag⟩

/-- Every model the estimator returns is valid: rows of `T` are probability distributions,
`π` is a positive probability vector, detailed balance `π_i T_ij = π_j T_ji` and stationarity
hold, `T = X / rowsum`, with `X` symmetric. (This feeds C04's `mle_output_*`.) -/
theorem output_valid {P : Params K} (hs : SqrtSpec P.sqrt) (hP : ParamsOK P) (hn : 0 < n)
    (hmax : 0 < P.maxIter) {C : Mat K n} (hC : ∀ i j, 0 ≤ mget C i j) (hc : Conn C)
    {r : Result K n} (hr : run P C = .ok r) :
    (∀ i, ∑ j, mget r.T i j = 1) ∧ (∀ i j, 0 ≤ mget r.T i j) ∧
    (∑ i, vget r.pi i = 1) ∧ (∀ i, 0 < vget r.pi i) ∧
    (∀ i j, vget r.pi i * mget r.T i j = vget r.pi j * mget r.T j i) ∧
    (∀ j, ∑ i, vget r.pi i * mget r.T i j = vget r.pi j) ∧
    (∀ i j, mget r.X i j = mget r.X j i) ∧
    (∀ i j, mget r.T i j = mget r.X i j / vget r.rs i) := by
  obtain ⟨Crs, st, k, hD, hinv, hpos, _, hcase⟩ := run_spec hs hP hn hmax hC hc
  rcases hcase with ⟨_, _, herr⟩ | ⟨_, r', hr', hv⟩
  · rw [herr] at hr; cases hr
  · rw [hr'] at hr
    injection hr with hr
    subst hr
    have hrs := fun i => hpos.rs_pos hD hc hinv i
    obtain ⟨a, b, c, d, e, f⟩ := valid_props hn hinv hrs hv
    refine ⟨a, b, c, d, e, f, ?_, ?_⟩
    · intro i j; rw [hv.X]; exact hinv.symm i j
    · intro i j; rw [hv.X, hv.rs]; exact hv.T i j

/-- **Termination with a model or a warning (full statement, over ℝ)**, for the
`warnings.warn` call site as the translator read it from the source.  Proved below as
`returns` (the call site is in its repaired form). -/
def C12_returns_full : Prop :=
  ∀ (n : Nat) (P : Params ℝ) (C : Mat ℝ n), P.sqrt = Real.sqrt → ParamsOK P → 0 < n →
    0 < P.maxIter → P.warnSwapped = Ens.Generated.MleSite.warnSwappedPy →
    (∀ i j, 0 ≤ mget C i j) → Conn C → ∃ r, run P C = .ok r

/-- For an arbitrary state of the call site (any field): the estimator never ends in an
assertion failure; it returns a model, except that when the last permitted sweep was used and
the `warnings.warn` call has its arguments swapped it ends in `TypeError`.  With the call site
in its repaired form (`warnSwapped = false`) it always returns a model, flagged `warned` when
the cap was reached. -/
theorem returns_partial {P : Params K} (hs : SqrtSpec P.sqrt) (hP : ParamsOK P) (hn : 0 < n)
    (hmax : 0 < P.maxIter) {C : Mat K n} (hC : ∀ i j, 0 ≤ mget C i j) (hc : Conn C) :
    run P C ≠ .error .assertion ∧ run P C ≠ .error .unbound ∧
    (P.warnSwapped = false → ∃ r, run P C = .ok r) ∧
    (run P C = .error .typeError → P.warnSwapped = true) := by
  obtain ⟨Crs, st, k, _, _, _, _, hcase⟩ := run_spec hs hP hn hmax hC hc
  rcases hcase with ⟨_, hw, herr⟩ | ⟨hne, r, hr, _⟩
  · refine ⟨by rw [herr]; simp, by rw [herr]; simp, fun hf => ?_, fun _ => hw⟩
    rw [hw] at hf; cases hf
  · refine ⟨by rw [hr]; simp, by rw [hr]; simp, fun _ => ⟨r, hr⟩, fun he => ?_⟩
    rw [hr] at he; cases he

end field

/-! ### the hypothesis `Conn` follows from the property's quantifier -/

/-- the transition graph of a count matrix -/
def edge {K : Type} [Zero K] [LT K] {n : Nat} (C : Mat K n) (i j : Fin n) : Prop := 0 < mget C i j

/-- strongly connected: every state reaches every state along positive counts -/
def StronglyConnected {K : Type} [Zero K] [LT K] {n : Nat} (C : Mat K n) : Prop :=
  ∀ i j, Relation.TransGen (edge C) i j

/-- A strongly connected count matrix with at least two states satisfies `Conn`: every state
has an outgoing and an incoming off-diagonal count. -/
theorem conn_of_strongly_connected {K : Type} [Field K] [LinearOrder K] [IsStrictOrderedRing K]
    {n : Nat} (C : Mat K n) (hsc : StronglyConnected C) (h2 : ∀ i : Fin n, ∃ j, j ≠ i) :
    Conn C := by
  constructor
  · intro i
    obtain ⟨j, hj⟩ := h2 i
    have key : ∀ a, Relation.TransGen (edge C) a j → j ≠ a → ∃ k, k ≠ a ∧ 0 < mget C a k := by
      intro a h
      induction h using Relation.TransGen.head_induction_on with
      | single hab => intro hne; exact ⟨j, hne, hab⟩
      | @head a c hac _ ih =>
        intro hne
        by_cases hca : c = a
        · subst hca; exact ih hne
        · exact ⟨c, hca, hac⟩
    exact key i (hsc i j) hj
  · intro i
    obtain ⟨j, hj⟩ := h2 i
    have key : ∀ b, Relation.TransGen (edge C) j b → j ≠ b → ∃ k, k ≠ b ∧ 0 < mget C k b := by
      intro b h
      induction h with
      | single hjb => intro hne; exact ⟨j, hne, hjb⟩
      | @tail b c _ hbc ih =>
        intro hne
        by_cases hbc' : b = c
        · subst hbc'; exact ih hne
        · exact ⟨b, hbc', hbc⟩
    exact key i (hsc j i) hj

/-- `Real.sqrt` satisfies the specification the theorems assume (non-vacuity) -/
theorem real_sqrt_spec : SqrtSpec Real.sqrt :=
  ⟨fun _ hx => Real.mul_self_sqrt hx, fun x _ => Real.sqrt_nonneg x⟩

/-- the all-ones 2×2 count matrix -/
def ones2 : Mat ℝ 2 := Vector.ofFn fun _ => Vector.ofFn fun _ => 1

-- non-vacuity of the hypotheses `∀ i j, 0 ≤ C i j` and `Conn C`
theorem ones2_nonneg : ∀ i j, 0 ≤ mget ones2 i j := by
  intro i j; simp [ones2, mget_ofFn]

theorem ones2_conn : Conn ones2 := by
  constructor
  · intro i
    fin_cases i
    · exact ⟨1, by decide, by simp [ones2, mget_ofFn]⟩
    · exact ⟨0, by decide, by simp [ones2, mget_ofFn]⟩
  · intro i
    fin_cases i
    · exact ⟨1, by decide, by simp [ones2, mget_ofFn]⟩
    · exact ⟨0, by decide, by simp [ones2, mget_ofFn]⟩

-- the hypotheses of the theorems above are satisfiable: `init` succeeds on `ones2` over ℝ with
-- `Real.sqrt`, and its state satisfies the invariant
example : ∃ Crs st0, init ones2 = .ok (Crs, st0) ∧ Data ones2 Crs ∧ Inv st0 ∧ Pos ones2 st0 := by
  obtain ⟨Crs, st0, h⟩ := conn_init ones2_nonneg ones2_conn
  obtain ⟨hD, hI, _, _⟩ := init_inv ones2_nonneg h
  exact ⟨Crs, st0, h, hD, hI, init_pos h⟩

example (k : Nat) : ∃ Crs st0 st, init ones2 = .ok (Crs, st0) ∧
    sweepsN Real.sqrt Real.log ones2 Crs k st0 = .ok st ∧ ∀ i, 0 < vget st.rs i := by
  obtain ⟨Crs, st0, h⟩ := conn_init ones2_nonneg ones2_conn
  obtain ⟨st, h1, h2, _⟩ := rowsums_stay_positive (log := Real.log) real_sqrt_spec ones2_nonneg
    ones2_conn h k
  exact ⟨Crs, st0, st, h, h1, h2⟩

/-- the two `warnings.warn` call sites the translator read are in their repaired form
(message first, category second).  If the source regresses, the regenerated
`Model.Generated.MleSite` makes this fail. -/
theorem site_is_fixed :
    Ens.Generated.MleSite.warnSwappedPy = false ∧ Ens.Generated.MleSite.warnSwappedPyx = false := by
  decide

/-- **Full statement, for the code as it is**: on every non-negative count matrix in which each
state has outgoing and incoming off-diagonal counts (implied by strong connectivity with ≥ 2
states, `conn_of_strongly_connected`) the estimator returns a model — valid by `output_valid`,
and flagged `warned` when the iteration cap was reached. -/
theorem returns : C12_returns_full := by
  intro n P C hsqrt hP hn hmax hsite hC hc
  have hs : SqrtSpec P.sqrt := by rw [hsqrt]; exact real_sqrt_spec
  exact (returns_partial hs hP hn hmax hC hc).2.2.1 (by rw [hsite]; exact site_is_fixed.1)

/-- the same for both implementations' call sites and any linear ordered field with a square
root: with `warnSwapped` equal to either generated flag, `run` returns a model -/
theorem returns_any_field {K : Type} [Field K] [LinearOrder K] [IsStrictOrderedRing K] {n : Nat}
    {P : Params K} (hs : SqrtSpec P.sqrt) (hP : ParamsOK P) (hn : 0 < n) (hmax : 0 < P.maxIter)
    (hsite : P.warnSwapped = Ens.Generated.MleSite.warnSwappedPy ∨
             P.warnSwapped = Ens.Generated.MleSite.warnSwappedPyx)
    {C : Mat K n} (hC : ∀ i j, 0 ≤ mget C i j) (hc : Conn C) : ∃ r, run P C = .ok r := by
  apply (returns_partial hs hP hn hmax hC hc).2.2.1
  rcases hsite with h | h
  · rw [h]; exact site_is_fixed.1
  · rw [h]; exact site_is_fixed.2

/-- **One state** (`C = [[c]]`, `c > 0`), which `Conn` excludes: every sweep is the identity and
the estimator returns `T = [[1]]`, `π = [1]` (any field, either implementation's call site). -/
theorem one_state {K : Type} [Field K] [LinearOrder K] [IsStrictOrderedRing K]
    {P : Params K} (hP : ParamsOK P) (hmax : 0 < P.maxIter)
    (hsite : P.warnSwapped = Ens.Generated.MleSite.warnSwappedPy ∨
             P.warnSwapped = Ens.Generated.MleSite.warnSwappedPyx)
    {C : Mat K 1} (hc : 0 < mget C 0 0) :
    ∃ r, run P C = .ok r ∧ mget r.T 0 0 = 1 ∧ vget r.pi 0 = 1 := by
  apply run_one_state hP hmax _ hc
  rcases hsite with h | h
  · rw [h]; exact site_is_fixed.1
  · rw [h]; exact site_is_fixed.2

/-- about the *old* call site (`warnSwapped = true`, before the `fix:` commit) only: there
`max_iter = 1` on the all-ones 2×2 matrix used the last permitted sweep and ended in
`TypeError` instead of a model plus warning -/
theorem returns_old_source_counterexample :
    ¬ ∀ (n : Nat) (P : Params ℝ) (C : Mat ℝ n), P.sqrt = Real.sqrt → ParamsOK P → 0 < n →
        0 < P.maxIter → P.warnSwapped = true →
        (∀ i j, 0 ≤ mget C i j) → Conn C → ∃ r, run P C = .ok r := by
  intro hfull
  let P : Params ℝ :=
    { sqrt := Real.sqrt
      log := fun x => x
      tol := 0
      maxIter := 1
      impl := Impl.py
      warnSwapped := true
      rowAtol := 0
      rowRtol := 0
      piCheck := PiCheck.isclose 0 0 }
  have hP : ParamsOK P := ⟨le_refl _, le_refl _, le_refl _, le_refl _⟩
  obtain ⟨r, hr⟩ := hfull 2 P ones2 rfl hP (by decide) (by decide) rfl ones2_nonneg ones2_conn
  obtain ⟨Crs, st, k, _, _, _, hk, hcase⟩ :=
    run_spec (P := P) real_sqrt_spec hP (by decide) (by decide) ones2_nonneg ones2_conn
  rcases hcase with ⟨_, _, herr⟩ | ⟨hne, _⟩
  · rw [herr] at hr; cases hr
  · apply hne
    have hk1 : k + 1 ≤ 1 := hk
    exact ⟨by show k + 1 = 1; omega, rfl⟩

/-! ### optimality -/

/-- log-likelihood of a transition matrix on the counts (`0 · log 0 = 0` as `Real.log 0 = 0`) -/
noncomputable def logLik {n : Nat} (C T : Mat ℝ n) : ℝ :=
  ∑ i, ∑ j, mget C i j * Real.log (mget T i j)

/-- In a strongly connected graph two states whose only counts go to each other are the whole
state space.  (Such a pair is exactly a pair with `a = 0`, which the code skips; this lemma is
what makes the Prinz equations hold for *every* pair at a fixed point.) -/
theorem closed_pair_is_all {K : Type} [Field K] [LinearOrder K] [IsStrictOrderedRing K]
    {n : Nat} (C : Mat K n) (hsc : StronglyConnected C) {i j : Fin n}
    (hi : ∀ k, k ≠ j → mget C i k = 0) (hj : ∀ k, k ≠ i → mget C j k = 0) :
    ∀ k, k = i ∨ k = j := by
  have step : ∀ b c, (b = i ∨ b = j) → edge C b c → (c = i ∨ c = j) := by
    intro b c hb hbc
    unfold edge at hbc
    rcases hb with rfl | rfl
    · right; by_contra hne; rw [hi c hne] at hbc; exact lt_irrefl _ hbc
    · left; by_contra hne; rw [hj c hne] at hbc; exact lt_irrefl _ hbc
  intro k
  have key : ∀ b, Relation.TransGen (edge C) i b → (b = i ∨ b = j) := by
    intro b h
    induction h with
    | single h1 => exact step _ _ (Or.inl rfl) h1
    | tail _ h2 ih => exact step _ _ ih h2
  exact key k (hsc i k)

/-- **Optimality (full statement).**  On a strongly connected non-negative count matrix with at
least two states, at a state of the loop (invariant `Inv`, support invariant `Pos` — both
hold along the iteration by `sweep_invariants` / `rowsums_stay_positive`) where one more sweep
of the model over ℝ with `Real.sqrt` changes nothing, the matrix `X / rowsum` that `finish`
returns has log-likelihood at least that of **every** reversible row-stochastic matrix `T'`
(detailed balance with some positive `π'`) that is positive wherever `C` is — i.e. every
reversible matrix of finite likelihood; in particular those with the same support as `X`
(`optimal_same_support`) and the transpose-symmetrised estimate (`optimal_vs_transpose`).

Compared with the earlier unproved draft: `Conn C` was replaced by the property's own
quantifier `StronglyConnected C` (with `Conn` alone a closed pair `i ⇄ j` inside a larger
matrix has `a = 0`, the code never updates `X[i,j]`, and the Prinz equation for that pair is
not forced), and the competitor's support hypothesis was weakened from "same zero pattern as
`X`" to "positive where `C` is" (more competitors, stronger theorem). -/
def C12_optimal : Prop :=
  ∀ (n : Nat) (C : Mat ℝ n) (Crs : Vec ℝ n) (st : St ℝ n) (log : ℝ → ℝ) (q : St ℝ n × ℝ),
    Data C Crs → StronglyConnected C → (∀ i : Fin n, ∃ j, j ≠ i) → Inv st → Pos C st →
    sweep Real.sqrt log C Crs st = .ok q → q.1.X = st.X →
    ∀ (T' : Mat ℝ n) (π' : Vec ℝ n),
      (∀ i j, 0 ≤ mget T' i j) → (∀ i, ∑ j, mget T' i j = 1) →
      (∀ i, 0 < vget π' i) → (∀ i j, vget π' i * mget T' i j = vget π' j * mget T' j i) →
      (∀ i j, 0 < mget C i j → 0 < mget T' i j) →
      logLik C T' ≤ logLik C (Vector.ofFn fun i => Vector.ofFn fun j =>
        mget st.X i j / vget st.rs i)

/-- a pair skipped by the `a == 0` guard is the whole state space (strong connectivity) -/
theorem a_zero_pair_is_all {n : Nat} {C : Mat ℝ n} {Crs : Vec ℝ n} (hD : Data C Crs)
    (hsc : StronglyConnected C) :
    ∀ i j : Fin n, i ≠ j → coefA C Crs i j = 0 → ∀ k, k = i ∨ k = j := by
  intro i j _ ha
  obtain ⟨_, _, z1, z2⟩ := coefA_zero hD ha
  exact closed_pair_is_all C hsc z1 z2

/-- **The fixed point of the Prinz iteration maximises the reversible likelihood.** -/
theorem optimal : C12_optimal := by
  intro n C Crs st log q hD hsc h2 hinv hpos hsw hX T' π' hT0 hT1 hπ hdb hsupp
  have hc : Conn C := conn_of_strongly_connected C hsc h2
  have key := optimal_of_fixed hD hc hinv (fun i => hpos.rs_pos hD hc hinv i)
    (a_zero_pair_is_all hD hsc) hsw hX T' π' hT0 hT1 hπ hdb hsupp
  unfold logLik
  simpa only [mget_ofFn] using key

/-- the literal "same support" form: competitors with exactly the zero pattern of `X` -/
theorem optimal_same_support {n : Nat} {C : Mat ℝ n} {Crs : Vec ℝ n} {st : St ℝ n}
    {log : ℝ → ℝ} {q : St ℝ n × ℝ} (hD : Data C Crs) (hsc : StronglyConnected C)
    (h2 : ∀ i : Fin n, ∃ j, j ≠ i) (hinv : Inv st) (hpos : Pos C st)
    (hsw : sweep Real.sqrt log C Crs st = .ok q) (hX : q.1.X = st.X)
    (T' : Mat ℝ n) (π' : Vec ℝ n)
    (hT0 : ∀ i j, 0 ≤ mget T' i j) (hT1 : ∀ i, ∑ j, mget T' i j = 1)
    (hπ : ∀ i, 0 < vget π' i)
    (hdb : ∀ i j, vget π' i * mget T' i j = vget π' j * mget T' j i)
    (hsame : ∀ i j, mget T' i j = 0 ↔ mget st.X i j = 0) :
    logLik C T' ≤ logLik C (Vector.ofFn fun i => Vector.ofFn fun j =>
      mget st.X i j / vget st.rs i) := by
  apply optimal n C Crs st log q hD hsc h2 hinv hpos hsw hX T' π' hT0 hT1 hπ hdb
  intro i j hcij
  have hXpos : 0 < mget st.X i j := by
    by_cases hij : i = j
    · subst hij; exact hpos.diag i hcij
    · exact hpos.off i j hij (add_pos_of_pos_of_nonneg hcij (hD.nonneg j i))
  rcases eq_or_lt_of_le (hT0 i j) with h0 | h
  · exact absurd ((hsame i j).1 h0.symm) (ne_of_gt hXpos)
  · exact h

/-- the transpose-symmetrised estimate `(C + Cᵀ) / rowsum (C + Cᵀ)` -/
noncomputable def symEstimate {n : Nat} (C : Mat ℝ n) : Mat ℝ n :=
  Vector.ofFn fun i => Vector.ofFn fun j =>
    (mget C i j + mget C j i) / ∑ k, (mget C i k + mget C k i)

/-- **"In particular the transpose-symmetrised estimate"**: at a fixed point the returned
matrix is at least as likely as `(C + Cᵀ) / rowsum`. -/
theorem optimal_vs_transpose {n : Nat} {C : Mat ℝ n} {Crs : Vec ℝ n} {st : St ℝ n}
    {log : ℝ → ℝ} {q : St ℝ n × ℝ} (hD : Data C Crs) (hsc : StronglyConnected C)
    (h2 : ∀ i : Fin n, ∃ j, j ≠ i) (hinv : Inv st) (hpos : Pos C st)
    (hsw : sweep Real.sqrt log C Crs st = .ok q) (hX : q.1.X = st.X) :
    logLik C (symEstimate C) ≤ logLik C (Vector.ofFn fun i => Vector.ofFn fun j =>
      mget st.X i j / vget st.rs i) := by
  have hc : Conn C := conn_of_strongly_connected C hsc h2
  have hs : ∀ i, 0 < ∑ k, (mget C i k + mget C k i) := by
    intro i
    obtain ⟨k, _, hk⟩ := hc.out i
    exact Finset.sum_pos' (fun j _ => add_nonneg (hD.nonneg i j) (hD.nonneg j i))
      ⟨k, Finset.mem_univ _, add_pos_of_pos_of_nonneg hk (hD.nonneg k i)⟩
  apply optimal n C Crs st log q hD hsc h2 hinv hpos hsw hX (symEstimate C)
    (Vector.ofFn fun i => ∑ k, (mget C i k + mget C k i))
  · intro i j
    simp only [symEstimate, mget_ofFn]
    exact div_nonneg (add_nonneg (hD.nonneg i j) (hD.nonneg j i)) (hs i).le
  · intro i
    simp only [symEstimate, mget_ofFn]
    rw [← Finset.sum_div]
    exact div_self (hs i).ne'
  · intro i; rw [vget_ofFn]; exact hs i
  · intro i j
    simp only [symEstimate, mget_ofFn, vget_ofFn]
    rw [mul_div_cancel₀ _ (hs i).ne', mul_div_cancel₀ _ (hs j).ne', add_comm]
  · intro i j hcij
    simp only [symEstimate, mget_ofFn]
    exact div_pos (add_pos_of_pos_of_nonneg hcij (hD.nonneg j i)) (hs i)

/-- **End to end**: if the estimator returns a model `r` and one more sweep from the returned
`(X, X_rs)` changes nothing (the loop stopped at an exact fixed point), then the returned
transition matrix `r.T` maximises the likelihood over all reversible row-stochastic matrices
of finite likelihood. -/
theorem optimal_output {n : Nat} {P : Params ℝ} (hsq : P.sqrt = Real.sqrt) (hP : ParamsOK P)
    (hn : 0 < n) (hmax : 0 < P.maxIter) {C : Mat ℝ n} (hC : ∀ i j, 0 ≤ mget C i j)
    (hsc : StronglyConnected C) (h2 : ∀ i : Fin n, ∃ j, j ≠ i)
    {r : Result ℝ n} (hr : run P C = .ok r)
    {Crs : Vec ℝ n} {st0 : St ℝ n} (hinit : init C = .ok (Crs, st0)) {q : St ℝ n × ℝ}
    (hsw : sweep Real.sqrt P.log C Crs { X := r.X, rs := r.rs } = .ok q) (hX : q.1.X = r.X)
    (T' : Mat ℝ n) (π' : Vec ℝ n)
    (hT0 : ∀ i j, 0 ≤ mget T' i j) (hT1 : ∀ i, ∑ j, mget T' i j = 1)
    (hπ : ∀ i, 0 < vget π' i)
    (hdb : ∀ i j, vget π' i * mget T' i j = vget π' j * mget T' j i)
    (hsupp : ∀ i j, 0 < mget C i j → 0 < mget T' i j) :
    logLik C T' ≤ logLik C r.T := by
  have hc : Conn C := conn_of_strongly_connected C hsc h2
  have hs : SqrtSpec P.sqrt := by rw [hsq]; exact real_sqrt_spec
  obtain ⟨hD, _, _, _⟩ := init_inv hC hinit
  obtain ⟨Crs', st, k, hD', hinv, hpos, _, hcase⟩ := run_spec hs hP hn hmax hC hc
  rcases hcase with ⟨_, _, herr⟩ | ⟨_, r', hr', hv⟩
  · rw [herr] at hr; cases hr
  · rw [hr'] at hr
    injection hr with hr
    subst hr
    rw [hv.X, hv.rs] at hsw
    rw [hv.X] at hX
    have key := optimal_of_fixed hD hc hinv (fun i => hpos.rs_pos hD hc hinv i)
      (a_zero_pair_is_all hD hsc) hsw hX T' π' hT0 hT1 hπ hdb hsupp
    unfold logLik
    simpa only [hv.T] using key

/-! #### non-vacuity: a concrete fixed point with a non-symmetric count matrix

`C = [[1,1],[2,4]]`, `X = [[1,1],[1,2]]`, `X_rs = (2,3)` (`Proofs/C12OptEx.lean`): every
hypothesis of `optimal` / `optimal_vs_transpose` holds, and the competitor is a different
matrix (`2/5 ≠ 1/2`). -/

theorem exC_strongly_connected : StronglyConnected exC := by
  intro i j
  apply Relation.TransGen.single
  unfold edge
  rw [exC_get]; unfold exCf; split_ifs <;> norm_num

example (log : ℝ → ℝ) : Data exC exCrs ∧ StronglyConnected exC ∧ (∀ i : Fin 2, ∃ j, j ≠ i) ∧
    Inv exSt ∧ Pos exC exSt ∧
    ∃ q, sweep Real.sqrt log exC exCrs exSt = .ok q ∧ q.1.X = exSt.X :=
  ⟨exData, exC_strongly_connected,
    fun i => by fin_cases i <;> [exact ⟨1, by decide⟩; exact ⟨0, by decide⟩],
    exInv, exPos, fixed_example log⟩

example : logLik exC (symEstimate exC)
    ≤ logLik exC (Vector.ofFn fun i => Vector.ofFn fun j => mget exSt.X i j / vget exSt.rs i) := by
  obtain ⟨q, hsw, hX⟩ := fixed_example Real.log
  exact optimal_vs_transpose exData exC_strongly_connected
    (fun i => by fin_cases i <;> [exact ⟨1, by decide⟩; exact ⟨0, by decide⟩]) exInv exPos hsw hX

example : mget (symEstimate exC) 0 0 = 2 / 5 ∧ mget exSt.X 0 0 / vget exSt.rs 0 = 1 / 2 := by
  refine ⟨?_, ?_⟩
  · simp only [symEstimate, mget_ofFn, Fin.sum_univ_two, exC_get]
    simp [exCf]; norm_num
  · rw [exX_get, exrs_get]; simp [exXf]

/-! #### exact fixed point (`_partial`) vs. every returned model (full, not asserted) -/

/-- `_partial` alias of `optimal`: optimality at an exact fixed point of the sweep -/
theorem optimal_partial : C12_optimal := optimal

/-- `_partial` alias of `optimal_output`: the returned `r.T` is optimal *if* one more sweep from
the returned state changes nothing -/
theorem optimal_output_partial {n : Nat} {P : Params ℝ} (hsq : P.sqrt = Real.sqrt)
    (hP : ParamsOK P) (hn : 0 < n) (hmax : 0 < P.maxIter) {C : Mat ℝ n}
    (hC : ∀ i j, 0 ≤ mget C i j) (hsc : StronglyConnected C) (h2 : ∀ i : Fin n, ∃ j, j ≠ i)
    {r : Result ℝ n} (hr : run P C = .ok r)
    {Crs : Vec ℝ n} {st0 : St ℝ n} (hinit : init C = .ok (Crs, st0)) {q : St ℝ n × ℝ}
    (hsw : sweep Real.sqrt P.log C Crs { X := r.X, rs := r.rs } = .ok q) (hX : q.1.X = r.X)
    (T' : Mat ℝ n) (π' : Vec ℝ n)
    (hT0 : ∀ i j, 0 ≤ mget T' i j) (hT1 : ∀ i, ∑ j, mget T' i j = 1)
    (hπ : ∀ i, 0 < vget π' i)
    (hdb : ∀ i j, vget π' i * mget T' i j = vget π' j * mget T' j i)
    (hsupp : ∀ i j, 0 < mget C i j → 0 < mget T' i j) :
    logLik C T' ≤ logLik C r.T :=
  optimal_output hsq hP hn hmax hC hsc h2 hr hinit hsw hX T' π' hT0 hT1 hπ hdb hsupp

/-- **Full clause of the property — NOT proved, never asserted.**  For *every* model `r` that
`run` returns without the convergence warning (the loop stopped because the change of its
pseudo log-likelihood fell below `P.tol`, not at an exact fixed point), the log-likelihood of
`r.T` is within `f P.tol` of that of every reversible row-stochastic competitor of finite
likelihood, for a modulus `f` with `f t → 0` as `t → 0` that may depend on the counts.
Missing: a quantitative convergence statement for the block coordinate ascent (how far a state
whose sweep changes the pseudo log-likelihood by ≤ tol is from the fixed point), and the
relation between the code's pseudo log-likelihood and the true one.  Examined numerically by
the correspondence check (likelihood dominance with tolerance `1e-7·(1+|L|)`). -/
def C12_optimal_returned_full (f : ∀ {n : Nat}, Mat ℝ n → ℝ → ℝ) : Prop :=
  (∀ (n : Nat) (C : Mat ℝ n) (ε : ℝ), 0 < ε → ∃ δ, 0 < δ ∧ ∀ t, 0 ≤ t → t < δ → f C t < ε) ∧
  ∀ (n : Nat) (P : Params ℝ) (C : Mat ℝ n) (r : Result ℝ n),
    P.sqrt = Real.sqrt → P.log = Real.log → ParamsOK P → 0 < n → 0 < P.maxIter → 0 ≤ P.tol →
    (∀ i j, 0 ≤ mget C i j) → StronglyConnected C → (∀ i : Fin n, ∃ j, j ≠ i) →
    run P C = .ok r → r.warned = false →
    ∀ (T' : Mat ℝ n) (π' : Vec ℝ n),
      (∀ i j, 0 ≤ mget T' i j) → (∀ i, ∑ j, mget T' i j = 1) →
      (∀ i, 0 < vget π' i) → (∀ i j, vget π' i * mget T' i j = vget π' j * mget T' j i) →
      (∀ i j, 0 < mget C i j → 0 < mget T' i j) →
      logLik C T' ≤ logLik C r.T + f C P.tol

/-! #### non-vacuity of `optimal_output`: a symmetric count matrix

For the symmetric `sym2 = [[1,1],[1,1]]` the initial state `X = C + Cᵀ` is already a fixed point
of the sweep (`sym2_fixed`), so `run` returns it (`run_of_fixed_init`), whatever the tolerance;
every hypothesis of `optimal_output` holds for the model that `run` returns. -/

theorem sym2_strongly_connected : StronglyConnected sym2 := by
  intro i j
  apply Relation.TransGen.single
  unfold edge
  rw [sym2_get]; norm_num

example (P : Params ℝ) (hsq : P.sqrt = Real.sqrt) (hP : ParamsOK P) (hmax : 0 < P.maxIter)
    (hw : P.warnSwapped = false) :
    ∃ (r : Result ℝ 2) (Crs : Vec ℝ 2) (st0 : St ℝ 2) (q : St ℝ 2 × ℝ),
      run P sym2 = .ok r ∧ init sym2 = .ok (Crs, st0) ∧
      sweep Real.sqrt P.log sym2 Crs { X := r.X, rs := r.rs } = .ok q ∧ q.1.X = r.X ∧
      (∀ i j, 0 ≤ mget sym2 i j) ∧ StronglyConnected sym2 ∧ (∀ i : Fin 2, ∃ j, j ≠ i) := by
  have hC : ∀ i j, 0 ≤ mget sym2 i j := fun i j => by rw [sym2_get]; norm_num
  have h2 : ∀ i : Fin 2, ∃ j, j ≠ i := fun i => by
    fin_cases i <;> [exact ⟨1, by decide⟩; exact ⟨0, by decide⟩]
  have hc : Conn sym2 := conn_of_strongly_connected sym2 sym2_strongly_connected h2
  obtain ⟨Crs, st0, hinit⟩ := conn_init hC hc
  obtain ⟨_, hinv, hrs, _⟩ := init_inv hC hinit
  obtain ⟨l, hl⟩ := sym2_fixed P.log hinit
  obtain ⟨k, _, hrun⟩ := run_of_fixed_init (P := P) hmax hinit (by rw [hsq]; exact ⟨l, hl⟩)
  rcases finish_spec hP (by decide : 0 < 2) hinv hrs k with ⟨_, hw', _⟩ | ⟨_, r, hr, hv⟩
  · rw [hw] at hw'; cases hw'
  · refine ⟨r, Crs, st0, (st0, l), by rw [hrun]; exact hr, hinit, ?_, ?_, hC,
      sym2_strongly_connected, h2⟩
    · have : ({ X := r.X, rs := r.rs } : St ℝ 2) = st0 := by rw [hv.X, hv.rs]
      rw [this]; exact hl
    · exact hv.X.symm

end C12
