import Proofs.C20Extra
import Proofs.C20Trans
import Proofs.C20Sharp
import Proofs.C20Shift
/-!
# C20 — rotamer assignment is a correct hysteresis state machine

Model: `Model/Rotamer.lean` (`rotamers` = `_rotamers`, `transitions1d/2d` = `disorder.transitions`).
Boundary lists: `Model/Generated/RotamerConsts.lean`, regenerated from the source on every run.

Vocabulary (all in `Model/Rotamer.lean`): `IsBasin hb i a` (`hb[i] ≤ a < hb[i+1]`), `InWidened hb b i a`
(some representative `a + 360k` lies in `[hb[i] − b, hb[i+1] + b]`), `SpecRun` (first state = basin of the
first angle; afterwards keep the state while `InWidened`, else move to the basin of the angle),
`AvoidsGates` (angle ≠ `v ± b (mod 360)` for every boundary `v`; at exactly these values the code's two
comparison branches disagree about open/closed ends — e.g. zero buffer, angle exactly 240 keeps state 1 of
`[0,120,240,360]` — they are outside the property's quantifier and are only checked for model = code), `Accepted` (the code's own guard
`0 ≤ b < 360 / n_basins`), `NoSelfWrap` (basin width + 2b ≤ 360 for every basin).

Open findings (see `known_findings.d/C20.json`):
* F13: for a two-basin set and a buffer with basin width + 2b > 360 the code's exit test is wrong
  (`rotamers_refines_hysteresis_counterexample`); the refinement is proved for the complementary range.
Fixed in /repo: RaggedArray input with a 0- or 1-frame trajectory used to fail inside RaggedArray slicing;
`disorder.transitions` used to raise when no trajectory had a transition; the source now
guards that case (generated flag `transitionsAllQuietGuard`), and `transitions2d_spec` holds at full strength.
-/
namespace C20
open Ens.Rotamer

deriving instance DecidableEq for Except

/-- every boundary list the library uses satisfies the structural conditions the proofs need
(strictly increasing 0 … 360, at least two basins, basins touching neither end stay inside [0,360] when
widened by any accepted buffer) — checked by evaluation on the generated constants -/
theorem generated_sets_good : ∀ hb ∈ Generated.boundarySets, GoodSet hb = true := by decide +kernel

/-- FULL STATEMENT (false today, F13): on every boundary set of the library, for every accepted
buffer and every admissible angle sequence the implementation model is a run of the hysteresis automaton. -/
def C20_rotamers_refines_hysteresis_full : Prop :=
  ∀ hb ∈ Generated.boundarySets, ∀ b : Rat, Accepted hb b →
  ∀ angles : List Rat, angles ≠ [] → AnglesOK hb b angles →
    ∃ states : List Nat, rotamers angles hb b = .ok (states.map Int.ofNat) ∧ SpecRun hb b angles states

/-- PARTIAL: the same with the extra hypothesis `NoSelfWrap hb b` (no widened basin covers the whole
circle).  What is missing for the full statement is exactly the region `¬ NoSelfWrap`, where the
statement is false (`rotamers_refines_hysteresis_counterexample`); `noSelfWrap_of_three_basins` shows the
hypothesis is automatic for the three-basin set, `noSelfWrap_iff_le_threshold` gives the exact range. -/
theorem rotamers_refines_hysteresis_partial : ∀ hb ∈ Generated.boundarySets, ∀ b : Rat, Accepted hb b → NoSelfWrap hb b → ∀ angles : List Rat, angles ≠ [] → AnglesOK hb b angles → ∃ states : List Nat, rotamers angles hb b = .ok (states.map Int.ofNat) ∧ SpecRun hb b angles states := by
  intro hb hmem b hacc hns angles hne hok
  obtain ⟨st, e, sp, _⟩ := rotamers_spec (generated_sets_good hb hmem) hacc hns hne hok
  exact ⟨st, e, sp⟩

/-- the automaton has exactly one run per angle sequence, so "is a run of" means "equals the run of" -/
theorem spec_run_unique : ∀ hb ∈ Generated.boundarySets, ∀ (b : Rat) (angles : List Rat) (s1 s2 : List Nat), SpecRun hb b angles s1 → SpecRun hb b angles s2 → s1 = s2 := by
  intro hb hmem b angles s1 s2 h1 h2
  exact specRun_det (goodSet_iff.1 (generated_sets_good hb hmem)).1 h1 h2

/-- witness: `[0,180,360]`, buffer 100 (accepted: < 180), angles 10, 200, 10.  The model returns
`[0, 1, 0]`, but 200 lies inside basin 0 widened by 100 (`[-100, 280]`), so the automaton stays in 0. -/
theorem rotamers_refines_hysteresis_counterexample : ([0, 180, 360] : List Rat) ∈ Generated.boundarySets → ¬ C20_rotamers_refines_hysteresis_full := by
  intro hmem hfull
  have hacc : Accepted [0, 180, 360] 100 := by
    constructor <;> norm_num
  have hok : AnglesOK [0, 180, 360] 100 [10, 200, 10] := by
    intro a ha
    simp only [List.mem_cons, List.not_mem_nil, or_false] at ha
    have hv : ∀ (n : Int), (n = 10 ∨ n = 200) → ∀ v ∈ ([0, 180, 360] : List Rat), ∃ mv : Int, v = (mv : Rat) ∧
        (n - mv + 100) % 360 ≠ 0 ∧ (n - mv - 100) % 360 ≠ 0 := by
      intro n hn v hv
      simp only [List.mem_cons, List.not_mem_nil, or_false] at hv
      rcases hv with rfl | rfl | rfl
      · exact ⟨0, by norm_num, by omega, by omega⟩
      · exact ⟨180, by norm_num, by omega, by omega⟩
      · exact ⟨360, by norm_num, by omega, by omega⟩
    rcases ha with rfl | rfl | rfl
    · exact ⟨by norm_num, by norm_num, avoidsGates_int 10 100 (by norm_num) (by norm_num) (hv 10 (Or.inl rfl))⟩
    · exact ⟨by norm_num, by norm_num, avoidsGates_int 200 100 (by norm_num) (by norm_num) (hv 200 (Or.inr rfl))⟩
    · exact ⟨by norm_num, by norm_num, avoidsGates_int 10 100 (by norm_num) (by norm_num) (hv 10 (Or.inl rfl))⟩
  obtain ⟨st, e, sp⟩ := hfull _ hmem 100 hacc [10, 200, 10] (by simp) hok
  have hr : rotamers [10, 200, 10] [0, 180, 360] 100 = .ok [0, 1, 0] := by decide +kernel
  rw [hr] at e
  have hst : st = [0, 1, 0] := by
    have : List.map Int.ofNat st = [0, 1, 0] := (Except.ok.inj e).symm
    match st, this with
    | [a, b, c], h =>
      simp at h
      obtain ⟨h1, h2, h3⟩ := h
      have : a = 0 := by exact_mod_cast h1
      have : b = 1 := by exact_mod_cast h2
      have : c = 0 := by exact_mod_cast h3
      subst_vars; rfl
  subst hst
  simp only [SpecRun, SpecFrom] at sp
  have hin : InWidened [0, 180, 360] 100 0 200 :=
    ⟨0, 180, by simp, by simp, 0, by norm_num, by norm_num⟩
  have := sp.2.1.1 hin
  omega

/-- with three (or more) equally treated basins of the generated kind the guard of the code already
implies `NoSelfWrap`: e.g. for `[0,120,240,360]` every accepted buffer is covered by the partial theorem -/
theorem noSelfWrap_of_three_basins : ∀ b : Rat, Accepted [0, 120, 240, 360] b → NoSelfWrap [0, 120, 240, 360] b := by
  intro b ⟨_, h⟩ i lo hi h1 h2
  have h' : b < 120 := by
    have e : (360 : Rat) / ((((([0, 120, 240, 360] : List Rat).length : Int) - 1 : Int)) : Rat) = 120 := by
      norm_num
    rw [e] at h; exact h
  match i, h1, h2 with
  | 0, h1, h2 => simp at h1 h2; subst h1; subst h2; linarith
  | 1, h1, h2 => simp at h1 h2; subst h1; subst h2; linarith
  | 2, h1, h2 => simp at h1 h2; subst h1; subst h2; linarith
  | (n + 3), h1, h2 => simp at h2

/-- the exact unaffected range for a two-basin set `[0, m, 360]`: `2b ≤ min m (360 − m)`
(`b ≤ 90` for phi's `[0,180,360]`, `b ≤ 80` for psi's `[0,160,360]`) -/
theorem noSelfWrap_iff_le_threshold : ∀ m b : Rat, NoSelfWrap [0, m, 360] b ↔ (2 * b ≤ 360 - m ∧ 2 * b ≤ m) := by
  intro m b
  constructor
  · intro h
    have h0 := h 0 0 m (by simp) (by simp)
    have h1 := h 1 m 360 (by simp) (by simp)
    constructor <;> linarith
  · rintro ⟨h0, h1⟩ i lo hi e1 e2
    match i, e1, e2 with
    | 0, e1, e2 => simp at e1 e2; subst e1; subst e2; linarith
    | 1, e1, e2 => simp at e1 e2; subst e1; subst e2; linarith
    | (n + 2), e1, e2 => simp at e2

/-- sharpness for `[0,180,360]`: for EVERY accepted buffer above the threshold (90 < b < 180) the admissible
two-frame sequence 0°, 180° makes the model (= the code) leave basin 0 although 180° lies inside the
widened basin — so the affected set for this list is exactly `¬ NoSelfWrap`, i.e. `b > 90` -/
theorem selfwrap_always_wrong_two_equal_basins : ∀ b : Rat, 90 < b → b < 180 → Accepted [0, 180, 360] b ∧ AnglesOK [0, 180, 360] b [0, 180] ∧ rotamers [0, 180] [0, 180, 360] b = .ok [0, 1] ∧ ¬ SpecRun [0, 180, 360] b [0, 180] [0, 1] := by
  intro b h0 h1
  exact ⟨phi_accepted (by linarith) h1, phi_anglesOK h0 h1, phi_output h0 h1, phi_not_specRun h0⟩

/-- zero buffer = plain binning: every frame's state is the basin containing that frame's angle -/
theorem zero_buffer_is_binning : ∀ hb ∈ Generated.boundarySets, ∀ angles : List Rat, angles ≠ [] → AnglesOK hb 0 angles → ∃ states : List Nat, rotamers angles hb 0 = .ok (states.map Int.ofNat) ∧ states.length = angles.length ∧ ∀ (n : Nat) (a : Rat) (s : Nat), angles[n]? = some a → states[n]? = some s → IsBasin hb s a := by
  intro hb hmem angles hne hok
  have hg := generated_sets_good hb hmem
  obtain ⟨st, e, sp, _⟩ := rotamers_spec hg (accepted_zero hg) (noSelfWrap_zero hg) hne hok
  exact ⟨st, e, specRun_length sp, specRun_zero_binning hg hok sp⟩

/-- every state is a basin index `0 ≤ s < n_basins` (never the `-1` fill value), for EVERY accepted
buffer (also in the F13 region) and without the gate hypothesis -/
theorem state_valid : ∀ hb ∈ Generated.boundarySets, ∀ b : Rat, Accepted hb b → ∀ angles : List Rat, angles ≠ [] → (∀ a ∈ angles, 0 ≤ a ∧ a < 360) → ∃ out : List Int, rotamers angles hb b = .ok out ∧ out.length = angles.length ∧ ∀ s ∈ out, 0 ≤ s ∧ s < (hb.length : Int) - 1 := by
  intro hb hmem b hacc angles hne hok
  obtain ⟨st, e, hlen, hv⟩ := rotamers_valid (generated_sets_good hb hmem) hacc hne hok
  refine ⟨st.map Int.ofNat, e, by simp [hlen], ?_⟩
  intro s hs
  obtain ⟨t, ht, rfl⟩ := List.mem_map.1 hs
  have := hv t ht
  constructor
  · exact Int.natCast_nonneg t
  · show (t : Int) < (hb.length : Int) - 1
    omega

/-- the first frame gets the basin containing its angle, whatever buffer and later angles -/
theorem first_frame_bin : ∀ hb ∈ Generated.boundarySets, ∀ (b a0 : Rat) (rest : List Rat) (s0 : Int) (tl : List Int), 0 ≤ a0 → a0 < 360 → rotamers (a0 :: rest) hb b = .ok (s0 :: tl) → ∃ i : Nat, s0 = (i : Int) ∧ IsBasin hb i a0 := by
  intro hb hmem b a0 rest s0 tl h0 h1 h
  exact rotamers_first (generated_sets_good hb hmem) h0 h1 h

/-- the accepted range used above is the code's: anything outside is rejected with `DataInvalid` -/
theorem buffer_out_of_range_rejected : ∀ hb ∈ Generated.boundarySets, ∀ (b : Rat) (angles : List Rat), ¬ Accepted hb b → rotamers angles hb b = .error .dataInvalid := by
  intro hb hmem b angles hna
  have h3 := (goodSet_iff.1 (generated_sets_good hb hmem)).2.2.2.1
  apply rotamers_rejects angles (by omega)
  unfold Accepted at hna
  by_cases h : b < 0
  · exact Or.inl h
  · right
    by_contra hc
    exact hna ⟨not_lt.1 h, not_le.1 hc⟩

/-- angle preparation of the wrappers (`dihedral_angles` L16-17, then the generated shift of each wrapper,
e.g. psi's −100): a dihedral in [−180°, 180°] ends up in [0, 360), i.e. inside the domain of the theorems above -/
theorem wrapper_angles_in_range : ∀ shift ∈ [Generated.phiShift, Generated.psiShift, Generated.chiShift], ∀ a : Rat, -180 ≤ a → a ≤ 180 → 0 ≤ shiftAngle shift (normalizeAngle a) ∧ shiftAngle shift (normalizeAngle a) < 360 := by
  intro shift hs a h0 h1
  have hr : 0 ≤ shift ∧ shift ≤ 360 := by
    have : ∀ t ∈ [Generated.phiShift, Generated.psiShift, Generated.chiShift], 0 ≤ t ∧ t ≤ 360 := by decide +kernel
    exact this shift hs
  obtain ⟨n0, n1⟩ := normalizeAngle_range h0 h1
  exact shiftAngle_range n0 n1 hr.1 hr.2

/-- the shift commutes with the basin test: the shifted angle lies in `[lo, hi)` iff the unshifted angle lies in
the basin moved back by the shift, `[lo + s, hi + s)` on the circle (psi: `[0,160)` ↔ `[100,260)`) -/
theorem shift_commutes_with_basin : ∀ (s a lo hi : Rat), 0 ≤ a → a < 360 → 0 ≤ s → s ≤ 360 → 0 ≤ lo → hi ≤ 360 → ((lo ≤ shiftAngle s a ∧ shiftAngle s a < hi) ↔ ∃ k : Int, lo + s ≤ a + 360 * (k : Rat) ∧ a + 360 * (k : Rat) < hi + s) := by
  intro s a lo hi ha0 ha hs0 hs hlo hhi
  exact shiftAngle_basin ha0 ha hs0 hs hlo hhi

/-- 1-D bookkeeping: frame `n` is reported iff frames `n` and `n+1` exist and differ (any integer dtype,
values in the dtype's range; the subtraction wraps) -/
theorem transitions1d_spec : ∀ (d : DType) (xs : List Int), (∀ x ∈ xs, d.InRange x) → ∀ n : Nat, n ∈ transitions1d d xs ↔ ∃ x y, xs[n]? = some x ∧ xs[n + 1]? = some y ∧ x ≠ y := by
  intro d xs hr n
  exact mem_transitions1d d xs hr n

/-- … in increasing order, each once -/
theorem transitions1d_increasing : ∀ (d : DType) (xs : List Int), (transitions1d d xs).Pairwise (· < ·) := by
  intro d xs
  exact nonzeroIdxFrom_sorted _ 0

/-- the generated flag: the 2-D branch of `disorder.transitions` in the current source guards the
construction of the ragged array for input without any transition (if the guard disappears from the
source this stops checking, and the all-quiet cases of the correspondence fail) -/
theorem transitions_source_guards_all_quiet : Generated.transitionsAllQuietGuard = true := by decide

/-- 2-D bookkeeping at full strength: for every integer dtype and every list of trajectories (any lengths,
any number, with or without transitions) the call succeeds, returns one row per trajectory, and row `i`
reports `n` iff frames `n`, `n+1` of trajectory `i` exist and differ -/
theorem transitions2d_spec : ∀ (d : DType) (rows : List (List Int)), (∀ row ∈ rows, ∀ x ∈ row, d.InRange x) → ∃ out : List (List Nat), transitions2d Generated.transitionsAllQuietGuard d rows = .ok out ∧ out.length = rows.length ∧ ∀ (i : Nat) (row : List Int), rows[i]? = some row → ∃ o, out[i]? = some o ∧ ∀ n : Nat, n ∈ o ↔ ∃ x y, row[n]? = some x ∧ row[n + 1]? = some y ∧ x ≠ y := by
  intro d rows hr
  refine ⟨perRow d rows, transitions2d_ok _ d rows (Or.inl transitions_source_guards_all_quiet), by simp [perRow], ?_⟩
  intro i row hi
  refine ⟨transitions1d d row, by simp [perRow, hi], fun n => ?_⟩
  exact mem_transitions1d d row (hr row (List.mem_of_getElem? hi)) n

/-- … and the result is exactly the list of the 1-D results of the rows -/
theorem transitions2d_rowwise : ∀ (d : DType) (rows : List (List Int)), transitions2d Generated.transitionsAllQuietGuard d rows = .ok (rows.map (transitions1d d)) := by
  intro d rows
  exact transitions2d_ok _ d rows (Or.inl transitions_source_guards_all_quiet)

/-! ## Non-vacuity: concrete instances of the hypotheses and of the conclusions -/

-- the partial refinement theorem has instances: psi's set, default buffer 15, a sequence that dwells in
-- the buffer (170.25, 174.75 stay in basin 0 = [0,160] widened to [-15,175]), crosses, and wraps the seam
example : AnglesOK [0, 160, 360] 15 [41/4, 681/4, 699/4, 801/4, 1401/4, 21/4] := by
  apply anglesOK_quarter ⟨15, by norm_num⟩
  · intro v hv
    simp only [List.mem_cons, List.not_mem_nil, or_false] at hv
    rcases hv with rfl | rfl | rfl
    · exact ⟨0, by norm_num⟩
    · exact ⟨160, by norm_num⟩
    · exact ⟨360, by norm_num⟩
  · intro a ha
    simp only [List.mem_cons, List.not_mem_nil, or_false] at ha
    rcases ha with rfl | rfl | rfl | rfl | rfl | rfl
    · exact ⟨41, by norm_num, by decide, by decide, by decide⟩
    · exact ⟨681, by norm_num, by decide, by decide, by decide⟩
    · exact ⟨699, by norm_num, by decide, by decide, by decide⟩
    · exact ⟨801, by norm_num, by decide, by decide, by decide⟩
    · exact ⟨1401, by norm_num, by decide, by decide, by decide⟩
    · exact ⟨21, by norm_num, by decide, by decide, by decide⟩
example : Accepted [0, 160, 360] 15 := by constructor <;> norm_num
example : NoSelfWrap [0, 160, 360] 15 := (noSelfWrap_iff_le_threshold 160 15).2 (by constructor <;> norm_num)
-- … and the model's output on it shows hysteresis (plain binning would give [0,1,1,1,1,0]):
example : rotamers [41/4, 681/4, 699/4, 801/4, 1401/4, 21/4] [0, 160, 360] 15 = .ok [0, 0, 0, 1, 1, 1] := by decide +kernel
example : rotamers [41/4, 681/4, 699/4, 801/4, 1401/4, 21/4] [0, 160, 360] 0 = .ok [0, 1, 1, 1, 1, 0] := by decide +kernel
-- three basins, middle basin, both comparison branches used
example : rotamers [481/4, 441/4, 401/4, 1401/4, 1041/4, 1001/4, 881/4, 41/4] [0, 120, 240, 360] 15 = .ok [1, 1, 0, 0, 2, 2, 1, 0] := by decide +kernel
-- the generated sets are the three the wrappers use
example : Generated.boundarySets.length = 3 := by decide
-- error branches of the model are reachable
example : rotamers [10] [0, 180, 360] 180 = .error .dataInvalid := by decide +kernel
example : rotamers [10] [0, 180, 360] (-1) = .error .dataInvalid := by decide +kernel
example : rotamers [] [0, 180, 360] 15 = .error .indexError := by decide +kernel
example : rotamers [10] [5, 180, 360] 15 = .error .dataInvalid := by decide +kernel
-- the wrappers' angle preparation on concrete values: -170° → 190° → (psi shift 100) 90°; 30° → 30° → 290°
example : shiftAngle 100 (normalizeAngle (-170)) = 90 := by decide +kernel
example : shiftAngle 100 (normalizeAngle 30) = 290 := by decide +kernel
example : normalizeAngle (-1/4) = 719/2 := by decide +kernel
-- transitions: concrete values, unsigned wrap-around, quiet rows at start / middle / end
example : transitions1d ⟨8, false⟩ [0, 1, 1, 0, 255, 255, 3] = [0, 2, 3, 5] := by decide
example : (⟨8, false⟩ : DType).wrap (0 - 1) = 255 := by decide
example : (⟨8, true⟩ : DType).wrap (127 - (-128)) = -1 := by decide
example : transitions2d false ⟨16, true⟩ [[0, 0, 0], [0, 1, 0], [2, 2, 2], [1, 1, 0], [0, 0, 0]] = .ok [[], [0, 1], [], [1], []] := by decide
-- the unguarded construction (what the code did before the fix) fails on all-quiet input, the guarded one does not
example : transitions2d false ⟨64, true⟩ [[0, 0, 0], [0, 0, 0]] = .error .attributeError := by decide
example : transitions2d Generated.transitionsAllQuietGuard ⟨64, true⟩ [] = .ok [] := by decide
example : transitions2d Generated.transitionsAllQuietGuard ⟨8, false⟩ [[3], [], [7, 7]] = .ok [[], [], []] := by decide
example : transitions2d true ⟨64, true⟩ [[0, 0, 0], [0, 0, 0]] = .ok [[], []] := by decide

end C20
