import Props.C01
/-!
C09 — k-medoids refinement never worsens the cost and keeps centers in the data.

`cost n dist` = mean squared frame-to-center distance (`_msq`).  `costsOf n tr` = the cost of the state after
every accept/reject decision of a trace, in order.  The first group of theorems needs no hypothesis at all on
the table or on the state the sweeps start from (monotone cost, k kept, centers are frames, rejected ⇒ nothing
kept); the last group adds what holds from a consistent start (C01's predicate).
Reproducibility ("with a fixed random seed, or with explicitly supplied proposals, the outcome is reproducible")
is CORRESPONDENCE-ONLY: the model is a function of (table, start state, proposals, oracle), so there is nothing
to prove about it; that the real code consumes its RNG reproducibly is checked in harness/props/c09.py (same
call twice, same objects reused, recorded random choices replayed through the oracle step by step).
-/
namespace C09
open Ens Ens.Cluster Ens.Cluster.Ex

/-! ### one step / one sweep, from any state -/

/-- accept iff the candidate's cost is strictly lower; the step then carries the whole candidate -/
theorem pamStep_accept_iff {D : Table} {n : Nat} {s : St} {cid p : Nat} {st : PamStep}
    (h : pamStep D n s cid p = .ok st) :
    (st.acc = true ↔ cost n (pamCandidate D n s cid p).arr.dist < cost n s.arr.dist) ∧
    (st.acc = true → st.after = pamCandidate D n s cid p) :=
  ⟨(pamStep_spec h).2.2.2.2.1, fun ha => by have := (pamStep_spec h).2.2.2.2.2; simpa [ha] using this⟩

/-- on rejection all four components (distances, labels, center coordinates, center indices) are exactly the
old ones: the candidate is discarded wholesale -/
theorem pam_reject_discards_all {D : Table} {n : Nat} {s : St} {cid p : Nat} {st : PamStep}
    (h : pamStep D n s cid p = .ok st) (hrej : st.acc = false) : st.after = s := by
  rcases pamStep_after_cases h with ⟨_, e⟩ | ⟨ha, _, _⟩
  · exact e
  · rw [ha] at hrej; cases hrej

example : (pamStep D6 6 s6 0 2).toOption.map (fun st => (st.acc, st.oldCost, st.newCost, st.after == s6)) =
    some (false, 22/3, 47/6, true) := by decide +kernel

/-- every consecutive pair of states in a sweep's history is either identical or strictly cheaper -/
theorem pam_history_steps {D : Table} {n : Nat} {s s' : St} {props : Option (List Nat)} {orc orc' : List Nat}
    {tr : List PamStep} (h : pamUpdate D n s props orc = .ok (s', orc', tr)) :
    (({ s with ctrFrames := s.ctrInds } : St) :: tr.map (·.after)).IsChain
      (fun a b => b = a ∨ cost n b.arr.dist < cost n a.arr.dist) :=
  pamLoop_trace_steps _ (pamUpdate_ok h).2.2.2.2.2

/-- one sweep never raises the cost -/
theorem pamUpdate_cost_le {D : Table} {n : Nat} {s s' : St} {props : Option (List Nat)} {orc orc' : List Nat}
    {tr : List PamStep} (h : pamUpdate D n s props orc = .ok (s', orc', tr)) :
    cost n s'.arr.dist ≤ cost n s.arr.dist :=
  (pamUpdate_costs h).2 _ List.mem_cons_self

/-- a sweep that leaves the cost unchanged leaves the whole state unchanged (centers re-read from the indices) -/
theorem pamUpdate_cost_eq_imp_same {D : Table} {n : Nat} {s s' : St} {props : Option (List Nat)}
    {orc orc' : List Nat} {tr : List PamStep} (h : pamUpdate D n s props orc = .ok (s', orc', tr))
    (he : cost n s'.arr.dist = cost n s.arr.dist) : s' = { s with ctrFrames := s.ctrInds } := by
  have hl := (pamUpdate_ok h).2.2.2.2.2
  have key : ∀ (cids : List Nat) {a a' : St} {o o' : List Nat} {t : List PamStep},
      pamLoop D n props cids a o = .ok (a', o', t) → cost n a'.arr.dist = cost n a.arr.dist → a' = a := by
    intro cids
    induction cids with
    | nil => intro a a' o o' t h _; simp [pamLoop] at h; exact h.1.symm
    | cons cid rest ih =>
      intro a a' o o' t h he
      obtain ⟨p, o1, st, t2, h1, h2, h3, _⟩ := pamLoop_cons_ok h
      have hfin := (pamLoop_costs rest h3).2 _ List.mem_cons_self
      rcases pamStep_after_cases h2 with ⟨_, e⟩ | ⟨_, e, hlt⟩
      · rw [e] at h3; exact ih h3 he
      · rw [e] at hfin; rw [he] at hfin; exact absurd hlt (not_lt.mpr hfin)
  exact key _ hl he

/-- the number of clusters is kept by a sweep -/
theorem pam_keeps_k {D : Table} {n : Nat} {s s' : St} {props : Option (List Nat)} {orc orc' : List Nat}
    {tr : List PamStep} (h : pamUpdate D n s props orc = .ok (s', orc', tr)) :
    s'.ctrInds.length = s.ctrInds.length ∧ s'.ctrFrames.length = s.ctrInds.length := by
  have := pamUpdate_shape h
  exact ⟨this.len, by rw [this.frames]; exact this.len⟩

/-- after a sweep every center is a frame of the input, and the coordinates are the frames at the indices -/
theorem pam_centers_are_frames {D : Table} {n : Nat} {s s' : St} {props : Option (List Nat)}
    {orc orc' : List Nat} {tr : List PamStep} (h : pamUpdate D n s props orc = .ok (s', orc', tr)) :
    s'.ctrFrames = s'.ctrInds ∧ ∀ c ∈ s'.ctrInds, c < n :=
  ⟨(pamUpdate_shape h).frames, (pamUpdate_shape h).inds_lt⟩

/-- a random proposal is drawn from the members of the cluster being updated -/
theorem random_proposal_is_member {n : Nat} {s : St} {cid : Nat} {orc orc' : List Nat} {p : Nat}
    (h : propose n s cid none orc = .ok (p, orc')) : p < n ∧ s.arr.assign p = (cid : Nat) :=
  ⟨propose_lt h, propose_random_member h⟩

/-! ### any number of sweeps, from any state -/

/-- along the whole accept/reject history of all sweeps (explicit proposals or any oracle) the cost never
increases, and the result's cost is the minimum of the history -/
theorem kmedoids_cost_antitone {D : Table} {n nIters : Nat} {s : St} {props : Option (List Nat)}
    {orc : List Nat} {r : Run} (h : kmedoidsIterations D n nIters s props orc = .ok r) :
    (cost n s.arr.dist :: costsOf n r.trace).Pairwise (fun x y => y ≤ x) ∧
    (∀ x ∈ cost n s.arr.dist :: costsOf n r.trace, cost n r.final.arr.dist ≤ x) := by
  obtain ⟨k, _, hsw⟩ := kmedoidsIterations_ok h
  exact sweepsFrom_costs (k+1) hsw

example : (kmedoidsIterations D6 6 2 s6 (some [1, 4]) []).toOption.map
    (fun r => (cost 6 s6.arr.dist :: costsOf 6 r.trace, cost 6 r.final.arr.dist)) =
    some ([22/3, 13/2, 3, 3, 3], 3) := by decide +kernel

/-- k and "centers are frames" after any positive number of sweeps, for the result and after every sweep -/
theorem kmedoids_keeps_k_and_frames {D : Table} {n nIters : Nat} {s : St} {props : Option (List Nat)}
    {orc : List Nat} {r : Run} (h : kmedoidsIterations D n nIters s props orc = .ok r) :
    ∀ x ∈ r.final :: r.sweeps, x.ctrInds.length = s.ctrInds.length ∧ x.ctrFrames = x.ctrInds ∧
      ∀ c ∈ x.ctrInds, c < n := by
  obtain ⟨k, _, hsw⟩ := kmedoidsIterations_ok h
  obtain ⟨s', orc', tr, r', h1, h2, e1, _, _, e4⟩ := sweepsFrom_succ_ok hsw
  have hs' := pamUpdate_shape h1
  obtain ⟨i1, i2⟩ := sweepsFrom_shape k hs' h2
  intro x hx
  have hx' : Shape n s.ctrInds.length x := by
    rcases List.mem_cons.mp hx with rfl | hx
    · rw [e1]; exact i1
    · rw [e4] at hx
      rcases List.mem_cons.mp hx with rfl | hx
      · exact hs'
      · exact i2 x hx
  exact ⟨hx'.len, hx'.frames, hx'.inds_lt⟩

/-! ### k-hybrid -/

/-- k-hybrid is never worse (in mean squared distance) than the k-centers solution it starts from, and has
the same number of clusters -/
theorem hybrid_cost_le_kcenters {D : Table} {n : Nat} {nClusters : Option Nat} {cutoff : Rat}
    {init : Option (List Nat)} {fuel nIters : Nat} {orc : List Nat} {r : Run}
    (h : hybrid D n nClusters cutoff init fuel nIters orc = .ok r) :
    ∃ s, kcenters D n nClusters cutoff init fuel = .ok s ∧
      cost n r.final.arr.dist ≤ cost n s.arr.dist ∧ r.final.ctrInds.length = s.ctrInds.length := by
  unfold hybrid at h
  simp only [bind, Except.bind] at h
  cases hkc : kcenters D n nClusters cutoff init fuel with
  | error e => simp [hkc] at h
  | ok s =>
    simp only [hkc] at h
    refine ⟨s, rfl, ?_⟩
    by_cases hpos : nIters > 0
    · simp only [hpos, if_true] at h
      exact ⟨(kmedoids_cost_antitone h).2 _ List.mem_cons_self,
        (kmedoids_keeps_k_and_frames h _ List.mem_cons_self).1⟩
    · simp only [hpos, if_false, pure, Except.pure] at h
      injection h with h; subst h
      exact ⟨le_refl _, rfl⟩

example : (hybrid D6 6 (some 2) 0 none 8 2 [1, 1, 0, 2]).toOption.map (fun r => cost 6 r.final.arr.dist) = some 3 ∧
    (kcenters D6 6 (some 2) 0 none 8).toOption.map (fun s => cost 6 s.arr.dist) = some (22/3) := by decide +kernel

/-! ### from a supplied consistent state -/

/-- starting the sweeps from any consistent state (centers, labels, distances) preserves all guarantees:
the result and every intermediate state are consistent (so centers are distinct frames carrying their own
label), k is kept and the cost does not rise -/
theorem warm_start_preserves {D : Table} {n nIters : Nat} (T : TableOK D n) {s : St} (hs : Consistent D n s)
    {props : Option (List Nat)} {orc : List Nat} {r : Run}
    (h : kmedoidsIterations D n nIters s props orc = .ok r) :
    (∀ x ∈ r.final :: r.sweeps, Consistent D n x ∧ x.ctrInds.length = s.ctrInds.length) ∧
    cost n r.final.arr.dist ≤ cost n s.arr.dist := by
  obtain ⟨k, _, hsw⟩ := kmedoidsIterations_ok h
  obtain ⟨c1, c2⟩ := sweepsFrom_consistent T (k+1) hs hsw
  refine ⟨?_, (kmedoids_cost_antitone h).2 _ List.mem_cons_self⟩
  intro x hx
  refine ⟨?_, (kmedoids_keeps_k_and_frames h x hx).1⟩
  rcases List.mem_cons.mp hx with rfl | hx
  · exact c1
  · exact c2 x hx

/-- …and from a consistent state the sweeps always run through (no assert trips, no empty cluster, no index
error) given `k` valid explicit proposals or `nIters·k` recorded random draws: the hypotheses `= .ok r`
of this file are never vacuous -/
theorem kmedoids_sweeps_total {D : Table} {n nIters : Nat} (T : TableOK D n) (hn : 0 < n) (hi : 0 < nIters)
    {s : St} (hs : Consistent D n s) {props : Option (List Nat)} {orc : List Nat}
    (hp : PropsOK n s.ctrInds.length props orc (nIters * s.ctrInds.length)) :
    ∃ r, kmedoidsIterations D n nIters s props orc = .ok r := by
  unfold kmedoidsIterations
  simp only [Nat.pos_iff_ne_zero.mp hi, if_false]
  exact sweepsFrom_total T hn nIters hs hp

example : PropsOK 6 s6.ctrInds.length (some [1, 4]) [] (2 * s6.ctrInds.length) := by
  refine ⟨by decide, by decide⟩

/-- the same through `kmedoids` itself, for each of its warm-start forms (indices only / all three /
labels+distances only) -/
theorem kmedoids_warm_start_preserves {D : Table} {n nIters : Nat} (T : TableOK D n) {inds : Option (List Nat)}
    {ad : Option Arr} {props : Option (List Nat)} {orc : List Nat} {r : Run}
    (hw : WarmOK D n inds ad) (h : kmedoids D n nIters inds ad props orc = .ok r) :
    ∃ s, Consistent D n s ∧ kmedoidsIterations D n nIters s props orc = .ok r ∧
      (∀ x ∈ r.final :: r.sweeps, Consistent D n x ∧ x.ctrInds.length = s.ctrInds.length) ∧
      cost n r.final.arr.dist ≤ cost n s.arr.dist := by
  obtain ⟨s, hs, hit⟩ := kmedoids_start T hw h
  obtain ⟨a, b⟩ := warm_start_preserves T hs hit
  exact ⟨s, hs, hit, a, b⟩

/-- k-hybrid always runs through on distinct points: `fuel ≥ n` for the k-centers loop and `nIters·n` recorded
random draws (at most `n` centers, one draw per center and sweep) suffice -/
theorem hybrid_total {D : Table} {n : Nat} (T : TableOK D n) (hn : 0 < n) {nClusters : Option Nat} {cutoff : Rat}
    {init : Option (List Nat)} {fuel nIters : Nat} {orc : List Nat}
    (hk : nClusters ≠ some 0) (hc : 0 ≤ cutoff) (hfuel : n ≤ fuel)
    (hinit : ∀ cs, init = some cs → cs ≠ [] ∧ cs.Nodup ∧ ∀ c ∈ cs, c < n)
    (horc : nIters * n ≤ orc.length) :
    ∃ r, hybrid D n nClusters cutoff init fuel nIters orc = .ok r := by
  obtain ⟨s, hs⟩ := C01.kcenters_total T hn (nClusters := nClusters) hc hfuel hinit
  have hcons := C01.kcenters_consistent T hk hc hinit hs
  unfold hybrid
  simp only [bind, Except.bind, hs]
  by_cases hpos : nIters > 0
  · simp only [hpos, if_true]
    have hle : s.ctrInds.length ≤ n := length_le_of_Inj hcons.inj hcons.inds_lt
    exact kmedoids_sweeps_total T hn hpos hcons
      (show PropsOK n s.ctrInds.length none orc (nIters * s.ctrInds.length) from
        le_trans (Nat.mul_le_mul_left nIters hle) horc)
  · simp only [hpos, if_false]
    exact ⟨_, rfl⟩

end C09
