namespace C09
theorem placeholder : True := trivial
end C09
