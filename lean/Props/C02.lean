import Proofs.C02Witness

/-!
# C02 — k-centers is farthest-first, never widens the radius, 2-approximate, stops on cue

All theorems are about `Ens.KC.kcenters` (`Model/KCenters.lean`), the executable model of
`enspara.cluster.kcenters.kcenters` that the correspondence run compares with the real function.
`D f c` is the metric table, `n` the number of frames, `cfg` the keyword arguments
(`n_clusters`, `dist_cutoff`, `init_centers`, `random_first_center`, `use_triangle_inequality`);
`res.trace` lists, per executed loop iteration, (chosen frame, covering radius before it);
`res.radius` is the final covering radius; `none : ERat` is `inf`.
-/
namespace C02
open Ens.KC

/-- frames appended by the loop, in order -/
def chosen (res : Result) : List Nat := res.trace.map Prod.fst

/-- covering radius before each iteration, then the final one -/
def radii (res : Result) : List ERat := res.trace.map Prod.snd ++ [res.radius]

/-! Non-vacuity witnesses use `line5` (`Proofs/C02Witness.lean`): five frames on a line at positions
0, 4, 1, 3, 2 with `D f c = |pos f - pos c|`; `view` is the observable part of a result. -/

/-! ## the None / inf / 0 normalisation of the stopping criteria (kcenters.py L177-189) -/

theorem criteria_normalisation :
    (∀ k q, normalise (.fin k) (.val q) = .ok (some k, some q)) ∧
    (∀ k, normalise (.fin k) .none = .ok (some k, some 0)) ∧
    (∀ k, normalise (.fin k) .inf = .ok (some k, none)) ∧
    (∀ q, normalise .none (.val q) = .ok (none, some q)) ∧
    (∀ q, q ≠ 0 → normalise .npInf (.val q) = .ok (none, some q)) ∧
    normalise .npInf .none = .ok (none, some 0) ∧
    (∀ q, normalise .floatInf (.val q) = .ok (none, some q)) ∧
    normalise .none .none = .error .improperlyConfigured ∧
    normalise .npInf (.val 0) = .error .improperlyConfigured := by
  refine ⟨?_, ?_, ?_, ?_, ?_, ?_, ?_, ?_, ?_⟩ <;> intros <;> simp_all [normalise, NCl.eff, Cut.eff]

/-! ## first center -/

/-- Cold start: the centers are exactly the frames chosen by the loop and the first one is frame 0.
Warm start: the supplied centers stay, in order, at the front of `centers`; `center_indices` starts
with what `find_cluster_centers` returned for them, which is the supplied frames themselves when
these are distinct frames of the data and distinct frames are at positive distance. -/
theorem kcenters_first_center (D : Table) (n : Nat) (cfg : Cfg) (res : Result)
    (h : kcenters D n cfg = .ok res) :
    (cfg.init = none →
      res.st.ctrInds = chosen res ∧ res.st.centers = chosen res ∧
      (∀ c, res.st.ctrInds.head? = some c → c = 0)) ∧
    (∀ cs, cfg.init = some cs →
      res.st.centers = cs ++ chosen res ∧
      res.st.ctrInds = (initState D n (some cs)).ctrInds ++ chosen res ∧
      (GoodInit D n cs → res.st.ctrInds = cs ++ chosen res)) := by
  obtain ⟨nc, cut, _, _, hn, hl, _⟩ := kcenters_ok h
  obtain ⟨l1, l2⟩ := loop_lists _ _ _ _ hl
  obtain ⟨_, _, lsp⟩ := loop_spec _ _ _ _ hl
  constructor
  · intro hcold
    rw [hcold] at l1 l2 lsp
    refine ⟨by simpa [chosen, initState, St.cold] using l1,
      by simpa [chosen, initState, St.cold] using l2, ?_⟩
    intro c hc
    have l1' : res.st.ctrInds = res.trace.map Prod.fst := by
      simpa [initState, St.cold] using l1
    rw [l1'] at hc
    cases htr : res.trace with
    | nil => rw [htr] at hc; simp at hc
    | cons e tr =>
      rw [htr] at hc
      simp only [List.map_cons, List.head?_cons, Option.some.injEq] at hc
      obtain ⟨sj, hs, _, he⟩ := lsp 0 (by rw [htr]; simp)
      simp only [iterN] at hs
      injection hs with hs
      subst hs
      simp only [htr, List.getElem_cons_zero] at he
      rw [← hc, he]
      exact argmaxE_none n
  · intro cs hwarm
    rw [hwarm] at l1 l2
    refine ⟨by simpa [chosen, initState] using l2, by simpa [chosen] using l1, ?_⟩
    intro g
    rw [l1, GoodInit_ctrInds g]; rfl

example : view 5 (kcenters line5 5 { nClusters := .fin 3 }) =
    some ⟨[0, 1, 4], [0, 1, 4], [0, 1, 0, 1, 2], [some 0, some 0, some 1, some 1, some 0],
      [(0, none), (1, some 4), (4, some 2)], some 1⟩ := by decide
example : GoodInit line5 5 [2, 1] :=
  ⟨by decide, by decide, by decide, by decide,
   fun i j hi hj => (by decide : ∀ i, i < 5 → ∀ j, j < 5 → i ≠ j → 0 < line5 i j) i hi j hj⟩
example : view 5 (kcenters line5 5 { nClusters := .fin 3, init := some [2, 1] }) =
    some ⟨[2, 1, 0], [2, 1, 0], [2, 1, 0, 1, 0], [some 0, some 0, some 0, some 1, some 1],
      [(0, some 1)], some 1⟩ := by decide

/-! ## greedy rule -/

/-- Before the `j`-th executed iteration the state is `sj` (reached by `j` unguarded iterations from
the initial state); the frame chosen then becomes center number `|initial centers| + j`, it is a
frame, the recorded radius is its distance, every frame's distance is `≤` it and every earlier
frame's distance is strictly smaller (first index attaining the maximum); without the shortcut
`sj.dist` is the running minimum of the distances to `sj.centers`. -/
theorem kcenters_greedy (D : Table) (n : Nat) (cfg : Cfg) (res : Result)
    (h : kcenters D n cfg = .ok res) (j : Nat) (hj : j < res.trace.length) :
    ∃ sj : St, iterN D n cfg.tri j (initState D n cfg.init) = .ok sj ∧
      sj.ctrInds.length = (initState D n cfg.init).ctrInds.length + j ∧
      res.st.ctrInds[sj.ctrInds.length]? = some (res.trace[j]).1 ∧
      (res.trace[j]).1 < n ∧
      (res.trace[j]).2 = sj.dist (res.trace[j]).1 ∧
      (∀ f, f < n → leE (sj.dist f) (sj.dist (res.trace[j]).1) = true) ∧
      (∀ f, f < (res.trace[j]).1 → ltE (sj.dist f) (sj.dist (res.trace[j]).1) = true) ∧
      (cfg.tri = false → RMin D sj.dist sj.centers) := by
  obtain ⟨nc, cut, _, _, hn, hl, _⟩ := kcenters_ok h
  obtain ⟨l1, _⟩ := loop_lists _ _ _ _ hl
  obtain ⟨_, _, lsp⟩ := loop_spec _ _ _ _ hl
  obtain ⟨sj, hs, _, he⟩ := lsp j hj
  obtain ⟨hlen, _, _, _⟩ := iterN_facts _ _ _ hs
  refine ⟨sj, hs, hlen, ?_, ?_, ?_, ?_, ?_, ?_⟩
  · rw [l1, hlen, List.getElem?_append_right (by omega)]
    simp [hj]
  · rw [he]; exact argmaxE_lt hn _
  · rw [he]; rfl
  · intro f hf; rw [he, leE_iff]; exact argmaxE_max n _ f hf
  · intro f hf; rw [he] at hf ⊢; rw [ltE_iff]; exact argmaxE_first n _ f hf
  · intro hp; rw [hp] at hs; exact RMin_iterN _ _ _ hs

/-- The greedy rule for `use_triangle_inequality=True`, stated against the **true** running minimum:
for a symmetric table with the triangle inequality on the frames and a cold start or `GoodInit`, the
`j`-th frame chosen by the shortcut run is the first index attaining the maximum of `pj.dist`, where
`pj` is the state of the *plain* algorithm after `j` iterations, whose `dist` is the running minimum
of the distances to the centers chosen so far (the same centers in both runs). -/
theorem kcenters_greedy_shortcut (D : Table) (n : Nat) (cfg : Cfg) (res : Result)
    (symm : ∀ x y, x < n → y < n → D x y = D y x)
    (tri : ∀ x y z, x < n → y < n → z < n → D x z ≤ D x y + D y z)
    (hinit : cfg.init = none ∨ ∃ cs, cfg.init = some cs ∧ GoodInit D n cs)
    (htri : cfg.tri = true) (h : kcenters D n cfg = .ok res) (j : Nat) (hj : j < res.trace.length) :
    ∃ pj : St, iterN D n false j (initState D n cfg.init) = .ok pj ∧
      RMin D pj.dist pj.centers ∧
      pj.centers = (initState D n cfg.init).centers ++ (chosen res).take j ∧
      (res.trace[j]).1 < n ∧
      (res.trace[j]).2 = pj.dist (res.trace[j]).1 ∧
      (∀ f, f < n → leE (pj.dist f) (pj.dist (res.trace[j]).1) = true) ∧
      (∀ f, f < (res.trace[j]).1 → ltE (pj.dist f) (pj.dist (res.trace[j]).1) = true) := by
  have hag := kcenters_tri_agree D n cfg symm tri hinit
  have e : ({ cfg with tri := true } : Cfg) = cfg := by cases cfg; simp_all
  rw [e, h] at hag
  cases hplain : kcenters D n { cfg with tri := false } with
  | error e' => rw [hplain] at hag; exact hag.elim
  | ok r1 =>
    rw [hplain] at hag
    obtain ⟨_, htr, _⟩ := hag
    have hj1 : j < r1.trace.length := by rw [htr]; exact hj
    obtain ⟨pj, hs, _, _, h4, h5, h6, h7, h8⟩ :=
      kcenters_greedy D n { cfg with tri := false } r1 hplain j hj1
    have hget : r1.trace[j] = res.trace[j] := by simp [htr]
    rw [hget] at h4 h5 h6 h7
    refine ⟨pj, hs, h8 rfl, ?_, h4, h5, h6, h7⟩
    -- the centers of pj: supplied ones, then the first j chosen frames
    obtain ⟨nc, cut, _, _, _, hl, _⟩ := kcenters_ok hplain
    obtain ⟨_, _, lsp⟩ := loop_spec _ _ _ _ hl
    have : ∀ (i : Nat) (hi : i ≤ r1.trace.length) (si : St),
        iterN D n false i (initState D n cfg.init) = .ok si →
        si.centers = (initState D n cfg.init).centers ++ (r1.trace.map Prod.fst).take i := by
      intro i
      induction i with
      | zero =>
        intro _ si hsi
        simp only [iterN] at hsi
        injection hsi with hsi
        subst hsi; simp
      | succ i ih =>
        intro hi si hsi
        obtain ⟨sj, hsj, _, he⟩ := lsp i (by omega)
        have hstep := iterN_succ_right i _ sj hsj
        rw [hsi] at hstep
        have hc := iter_centers hstep.symm
        rw [hc, ih (by omega) sj hsj]
        have : (r1.trace.map Prod.fst).take (i+1) =
            (r1.trace.map Prod.fst).take i ++ [argmaxE n sj.dist] := by
          rw [List.take_succ_eq_append_getElem (by simp; omega)]
          simp [he]
        rw [this, List.append_assoc]
    rw [this j (by omega) pj hs, htr]; rfl

/-! ## radius never grows -/

theorem radius_antitone (D : Table) (n : Nat) (cfg : Cfg) (res : Result)
    (h : kcenters D n cfg = .ok res) :
    (radii res).Pairwise (fun earlier later => leE later earlier = true) := by
  obtain ⟨nc, cut, _, _, hn, hl, hr⟩ := kcenters_ok h
  obtain ⟨_, _, hp⟩ := loop_radii hn _ _ _ _ hl
  unfold radii
  rw [hr]
  exact hp.imp (fun {a b} hab => (leE_iff b a).mpr hab)

example : radii { st := St.cold, trace := [(0, none), (1, some 4), (4, some 2)], radius := some 1 } =
    [none, some 4, some 2, some 1] := rfl

/-! ## Gonzalez' 2-approximation -/

/-- `S` covers all frames within `R` -/
def Covers (D : Table) (n : Nat) (S : List Nat) (R : Rat) : Prop :=
  ∀ f, f < n → ∃ x ∈ S, D f x ≤ R

/-- The true statement for every start: for a symmetric table with the triangle inequality on the
frames, any stopping criteria, cold or warm start (with the shortcut: cold start or `GoodInit`): if
the loop added `t ≥ 1` centers then the final covering radius is finite and at most twice the
covering radius of **every** set `S` of at most `t` frames (`R` ranges over all radii within which
`S` covers, so in particular the least one).  The `t` added centers and the farthest remaining
frame are `t+1` frames pairwise at least the final radius apart; two of them share a center of `S`. -/
theorem gonzalez_two_approx_added (D : Table) (n : Nat) (cfg : Cfg) (res : Result)
    (symm : ∀ x y, x < n → y < n → D x y = D y x)
    (tri : ∀ x y z, x < n → y < n → z < n → D x z ≤ D x y + D y z)
    (hmode : cfg.tri = false ∨ cfg.init = none ∨ ∃ cs, cfg.init = some cs ∧ GoodInit D n cs)
    (h : kcenters D n cfg = .ok res)
    (S : List Nat) (hSne : S ≠ []) (hS : ∀ x ∈ S, x < n) (hcard : S.length ≤ res.trace.length)
    (R : Rat) (hR : Covers D n S R) :
    ∃ r : Rat, res.radius = some r ∧ r ≤ 2 * R := by
  have hpos : 0 < S.length := List.length_pos_of_ne_nil hSne
  have key : ∀ (cfg' : Cfg) (res' : Result), cfg'.tri = false →
      kcenters D n cfg' = .ok res' → S.length ≤ res'.trace.length →
      ∃ r : Rat, res'.radius = some r ∧ r ≤ 2 * R := by
    intro cfg' res' hp hk hcard'
    obtain ⟨hn, fa, hr, hlen⟩ := plain_FarApart hp hk
    rw [hr]
    exact FarApart_two_approx hn fa symm tri S hS (by omega) R hR (by omega)
  cases htri : cfg.tri with
  | false => exact key cfg res htri h hcard
  | true =>
    have hinit : cfg.init = none ∨ ∃ cs, cfg.init = some cs ∧ GoodInit D n cs := by
      rcases hmode with hm | hm
      · rw [htri] at hm; cases hm
      · exact hm
    have hag := kcenters_tri_agree D n cfg symm tri hinit
    have e : ({ cfg with tri := true } : Cfg) = cfg := by cases cfg; simp_all
    rw [e, h] at hag
    cases hplain : kcenters D n { cfg with tri := false } with
    | error e' => rw [hplain] at hag; exact hag.elim
    | ok r1 =>
      rw [hplain] at hag
      obtain ⟨_, htr, hrad⟩ := hag
      rw [← hrad]
      exact key { cfg with tri := false } r1 rfl hplain (by rw [htr]; exact hcard)

/-- The property's sentence read for every start: "the final radius is at most twice the optimal
radius for that many centers" with `that many` = all returned centers, supplied ones included.
**False** for warm starts (`gonzalez_two_approx_counterexample`) — and false for every
farthest-first continuation, not a defect of this code: badly placed supplied centers are kept, so
with `n_clusters = |init_centers|` no center is added at all.  What does hold for warm starts is
`gonzalez_two_approx_added` (optimal radius for as many centers as were *added*). -/
def C02_gonzalez_two_approx_full : Prop :=
  ∀ (D : Table) (n : Nat) (cfg : Cfg) (res : Result),
    (∀ x y, x < n → y < n → D x y = D y x) →
    (∀ x y z, x < n → y < n → z < n → D x z ≤ D x y + D y z) →
    (∀ cs, cfg.init = some cs → GoodInit D n cs) →
    kcenters D n cfg = .ok res →
    ∀ (S : List Nat), S ≠ [] → (∀ x ∈ S, x < n) → S.length ≤ res.st.ctrInds.length →
    ∀ (R : Rat), Covers D n S R → ∃ r : Rat, res.radius = some r ∧ r ≤ 2 * R

/-- Cold start (the case Gonzalez' theorem is about): all `m ≥ 1` returned centers count.
Missing w.r.t. `C02_gonzalez_two_approx_full`: warm starts, where the statement is false. -/
theorem gonzalez_two_approx_partial (D : Table) (n : Nat) (cfg : Cfg) (res : Result)
    (symm : ∀ x y, x < n → y < n → D x y = D y x)
    (tri : ∀ x y z, x < n → y < n → z < n → D x z ≤ D x y + D y z)
    (hcold : cfg.init = none) (h : kcenters D n cfg = .ok res)
    (S : List Nat) (hSne : S ≠ []) (hS : ∀ x ∈ S, x < n) (hcard : S.length ≤ res.st.ctrInds.length)
    (R : Rat) (hR : Covers D n S R) :
    ∃ r : Rat, res.radius = some r ∧ r ≤ 2 * R := by
  have hlen : res.st.ctrInds.length = res.trace.length := by
    rw [((kcenters_first_center D n cfg res h).1 hcold).1]; simp [chosen]
  exact gonzalez_two_approx_added D n cfg res symm tri (Or.inr (Or.inl hcold)) h S hSne hS
    (by omega) R hR

/-- Witness: `line5`, supplied centers = frames 0 and 2 (positions 0 and 1), `n_clusters = 2`: no
center is added, the radius stays 3, but frames 2 and 3 (positions 1 and 3) cover within 1. -/
theorem gonzalez_two_approx_counterexample : ¬ C02_gonzalez_two_approx_full := by
  intro hfull
  have hv : view 5 (kcenters line5 5 { nClusters := .fin 2, init := some [0, 2] }) =
      some ⟨[0, 2], [0, 2], [0, 1, 1, 1, 1], [some 0, some 3, some 0, some 2, some 1], [],
        some 3⟩ := by decide
  cases hk : kcenters line5 5 { nClusters := .fin 2, init := some [0, 2] } with
  | error e => rw [hk] at hv; simp [view] at hv
  | ok res =>
    rw [hk] at hv
    simp only [view, Option.some.injEq, View.mk.injEq] at hv
    obtain ⟨hci, _, _, _, _, hrad⟩ := hv
    have hgood : GoodInit line5 5 [0, 2] :=
      ⟨by decide, by decide, by decide, by decide,
       fun i j hi hj => (by decide : ∀ i, i < 5 → ∀ j, j < 5 → i ≠ j → 0 < line5 i j) i hi j hj⟩
    obtain ⟨r, hr, hle⟩ := hfull line5 5 { nClusters := .fin 2, init := some [0, 2] } res
      (fun x y _ _ => lineTable_symm _ x y) (fun x y z _ _ _ => lineTable_tri _ x y z)
      (by intro cs hcs; injection hcs with hcs; subst hcs; exact hgood)
      hk [2, 3] (by decide) (by decide) (by rw [hci]; decide) 1 (by unfold Covers; decide)
    rw [hrad] at hr
    injection hr with hr
    rw [← hr] at hle
    exact absurd hle (by decide +kernel)

/-- warm start where `gonzalez_two_approx_added` applies: from frames 0 and 2 two centers are added -/
example : view 5 (kcenters line5 5 { nClusters := .fin 4, init := some [0, 2] }) =
    some ⟨[0, 2, 1, 3], [0, 2, 1, 3], [0, 2, 1, 3, 1], [some 0, some 0, some 0, some 0, some 1],
      [(1, some 3), (3, some 1)], some 1⟩ := by decide

example : (∀ x y, x < 5 → y < 5 → line5 x y = line5 y x) ∧
    (∀ x y z, x < 5 → y < 5 → z < 5 → line5 x z ≤ line5 x y + line5 y z) ∧
    Covers line5 5 [4, 0] 2 := by
  refine ⟨fun x y _ _ => lineTable_symm _ x y, fun x y z _ _ _ => lineTable_tri _ x y z, ?_⟩
  unfold Covers; decide

/-! ## stops exactly on cue -/

/-- With `(nc, cut)` the normalised criteria (`none` = no bound / `inf`): the number of centers is
the initial number plus the number of iterations; before every executed iteration the count was
still below `n_clusters` **and** the radius still above the cutoff (not late); at the end the count
has reached `n_clusters` or the radius is `≤` the cutoff (not early); the count is never overshot
once an iteration ran; and no iteration runs exactly when the guard already fails on the initial
state, in which case that state is returned unchanged (the zero-iteration case). -/
theorem kcenters_stops_exactly (D : Table) (n : Nat) (cfg : Cfg) (res : Result)
    (h : kcenters D n cfg = .ok res) :
    ∃ (nc : Option Int) (cut : ERat), normalise cfg.nClusters cfg.cutoff = .ok (nc, cut) ∧
      res.st.ctrInds.length = (initState D n cfg.init).ctrInds.length + res.trace.length ∧
      (∀ j (hj : j < res.trace.length),
        (∀ k, nc = some k → (((initState D n cfg.init).ctrInds.length + j : Nat) : Int) < k) ∧
        ltE cut (res.trace[j]).2 = true) ∧
      ((∃ k, nc = some k ∧ k ≤ (res.st.ctrInds.length : Int)) ∨ leE res.radius cut = true) ∧
      (∀ k, nc = some k → res.trace ≠ [] → (res.st.ctrInds.length : Int) ≤ k) ∧
      (res.trace = [] ↔ guard nc cut n (initState D n cfg.init) = false) ∧
      (res.trace = [] → res.st = initState D n cfg.init) := by
  obtain ⟨nc, cut, hnorm, _, hn, hl, hr⟩ := kcenters_ok h
  obtain ⟨hfin, hgf, lsp⟩ := loop_spec _ _ _ _ hl
  obtain ⟨hlen, _, _, _⟩ := iterN_facts _ _ _ hfin
  obtain ⟨hnil1, hnil2⟩ := loop_nil _ _ _ _ hl
  have hlate : ∀ j (hj : j < res.trace.length),
      (∀ k, nc = some k → (((initState D n cfg.init).ctrInds.length + j : Nat) : Int) < k) ∧
      ltE cut (res.trace[j]).2 = true := by
    intro j hj
    obtain ⟨sj, hs, hg, he⟩ := lsp j hj
    obtain ⟨hl', _, _, _⟩ := iterN_facts _ _ _ hs
    rw [guard_iff] at hg
    refine ⟨fun k hk => by rw [← hl']; exact hg.1 k hk, ?_⟩
    rw [he, ltE_iff]; exact hg.2
  refine ⟨nc, cut, hnorm, hlen, hlate, ?_, ?_, hnil1, hnil2⟩
  · rw [guard_false_iff] at hgf
    rcases hgf with hgf | hgf
    · exact Or.inl hgf
    · right; rw [hr, leE_iff]; exact hgf
  · intro k hk hne
    have hpos : 0 < res.trace.length := List.length_pos_of_ne_nil hne
    have := (hlate (res.trace.length - 1) (by omega)).1 k hk
    rw [hlen]
    push_cast at this ⊢
    omega

example : view 5 (kcenters line5 5 { nClusters := .fin 4, cutoff := .val 1 }) =
    some ⟨[0, 1, 4], [0, 1, 4], [0, 1, 0, 1, 2], [some 0, some 0, some 1, some 1, some 0],
      [(0, none), (1, some 4), (4, some 2)], some 1⟩ := by decide
/-- zero iterations: `n_clusters = 0` returns the untouched cold state -/
example : view 3 (kcenters line5 3 { nClusters := .fin 0 }) =
    some ⟨[], [], [-1, -1, -1], [none, none, none], [], none⟩ := by decide

/-- The usual reading "`kcenters` with `n_clusters = k` is within twice the best `k` centers": if the
normalised criteria are `(k, q)` then for every set `S` of at most `k` frames the final radius is
at most `max (2·R) q` (with `n_clusters` only, `q = 0`): the run either reached `k` centers or
stopped because the radius was already `≤ q`. -/
theorem gonzalez_two_approx_n_clusters_partial (D : Table) (n : Nat) (cfg : Cfg) (res : Result)
    (symm : ∀ x y, x < n → y < n → D x y = D y x)
    (tri : ∀ x y z, x < n → y < n → z < n → D x z ≤ D x y + D y z)
    (hcold : cfg.init = none) (h : kcenters D n cfg = .ok res)
    (k : Int) (q : Rat) (hnorm : normalise cfg.nClusters cfg.cutoff = .ok (some k, some q))
    (S : List Nat) (hSne : S ≠ []) (hS : ∀ x ∈ S, x < n) (hcard : (S.length : Int) ≤ k)
    (R : Rat) (hR : Covers D n S R) :
    ∃ r : Rat, res.radius = some r ∧ r ≤ max (2 * R) q := by
  obtain ⟨nc, cut, hnorm', _, _, hend, _, _, _⟩ := kcenters_stops_exactly D n cfg res h
  rw [hnorm] at hnorm'
  injection hnorm' with hnorm'
  injection hnorm' with e1 e2
  subst e1; subst e2
  rcases hend with ⟨k', hk', hle⟩ | hle
  · injection hk' with hk'
    subst hk'
    obtain ⟨r, hr, hle'⟩ := gonzalez_two_approx_partial D n cfg res symm tri hcold h S hSne hS
      (by exact_mod_cast le_trans hcard hle) R hR
    exact ⟨r, hr, le_trans hle' (le_max_left _ _)⟩
  · rw [leE_iff] at hle
    cases hrad : res.radius with
    | none => rw [hrad] at hle; simp at hle
    | some r =>
      rw [hrad] at hle
      simp only [toWT_some, WithTop.coe_le_coe] at hle
      exact ⟨r, rfl, le_trans hle (le_max_right _ _)⟩

/-! ## termination -/

/-- When `n_clusters` is finite, or (plain algorithm) the cutoff is finite and every frame is
within the cutoff of itself (`D c c ≤ cutoff`, e.g. `D c c = 0 ≤ cutoff`), the model's default fuel
is never exhausted and any larger fuel gives the same answer: the `while` loop terminates, after at
most `n_clusters - |initial centers|` resp. `n` iterations. -/
theorem kcenters_terminates (D : Table) (n : Nat) (cfg : Cfg) (nc : Option Int) (cut : ERat)
    (hnorm : normalise cfg.nClusters cfg.cutoff = .ok (nc, cut))
    (hyp : (∃ k, nc = some k) ∨
      ((cfg.tri = false ∨
          ((∀ x y, x < n → y < n → D x y = D y x) ∧
           (∀ x y z, x < n → y < n → z < n → D x z ≤ D x y + D y z) ∧
           (cfg.init = none ∨ ∃ cs, cfg.init = some cs ∧ GoodInit D n cs))) ∧
        ∃ q, cut = some q ∧ ∀ c, c < n → D c c ≤ q)) :
    kcenters D n cfg ≠ .error .outOfFuel ∧
    ∀ extra, kcentersFuel D n cfg (some (fuelFor n nc (initState D n cfg.init) + extra)) =
      kcenters D n cfg := by
  unfold kcenters kcentersFuel
  rw [hnorm]
  dsimp only
  by_cases hrf : cfg.randomFirst = true
  · simp [hrf]
  · simp only [hrf, Bool.false_eq_true, if_false]
    by_cases hn0 : n = 0
    · simp [hn0]
    · simp only [hn0, if_false, Option.getD_none, Option.getD_some]
      have hn : 0 < n := Nat.pos_of_ne_zero hn0
      have hno : loop D n cfg.tri nc cut (fuelFor n nc (initState D n cfg.init))
          (initState D n cfg.init) ≠ .error .outOfFuel := by
        cases nc with
        | some k => exact loop_no_oof_fin k _ _ (le_refl _)
        | none =>
          rcases hyp with ⟨k, hk⟩ | ⟨hp, q, hq, hdiag⟩
          · cases hk
          · subst hq
            have hplain := loop_no_oof_cut (nc := none) hn hdiag n (initState D n cfg.init)
              (farCount_le _ _ _)
            cases htri : cfg.tri with
            | false => exact hplain
            | true =>
              rcases hp with hp | ⟨symm, tri, hinit⟩
              · rw [htri] at hp; cases hp
              · have hinv : ColdLike n (initState D n cfg.init) ∨ Lab D n (initState D n cfg.init) := by
                  rcases hinit with h | ⟨cs, h, g⟩
                  · left; rw [h]; exact ColdLike_cold n
                  · right; rw [h]; exact GoodInit_Lab g
                have hag := loop_agree hn symm tri none (some q) n (initState D n cfg.init)
                  (initState D n cfg.init) (StAgree.refl _ _) hinv
                intro hc
                rw [show fuelFor n none (initState D n cfg.init) = n from rfl] at hc
                rw [hc] at hag
                revert hag
                cases hl : loop D n false none (some q) n (initState D n cfg.init) with
                | error e =>
                  intro hag
                  have : e = Err.outOfFuel := hag
                  subst this
                  exact hplain hl
                | ok r => obtain ⟨a, b⟩ := r; exact id
      constructor
      · intro hc
        revert hc
        cases hl : loop D n cfg.tri nc cut (fuelFor n nc (initState D n cfg.init))
            (initState D n cfg.init) with
        | error e =>
          dsimp only
          intro hc; injection hc with hc; subst hc; exact hno hl
        | ok r => obtain ⟨a, b⟩ := r; simp
      · intro extra
        rw [loop_fuel_add _ _ hno extra]

example : normalise .npInf (.val 1) = .ok (none, some 1) ∧ (∀ c, c < 5 → line5 c c ≤ 1) :=
  ⟨by decide, by decide⟩
example : view 5 (kcenters line5 5 { cutoff := .val 1 }) =
    some ⟨[0, 1, 4], [0, 1, 4], [0, 1, 0, 1, 2], [some 0, some 0, some 1, some 1, some 0],
      [(0, none), (1, some 4), (4, some 2)], some 1⟩ := by decide

/-! ## the triangle-inequality shortcut changes nothing -/

/-- The property as stated: for every table that is symmetric with the triangle inequality on all
ids `< m` in play (the `n ≤ m` frames and the supplied initial centers), whatever the initial
centers, both settings of `use_triangle_inequality` give the same result.  **False** for the code
as it is (`triangle_shortcut_same_counterexample`): `kcenters.py` L288 measures the new center
against `traj[center_inds]`, the frames *nearest to* the supplied centers, not against the supplied
centers themselves, so a supplied center that is not a frame of the data breaks the pruning. -/
def C02_triangle_shortcut_same_full : Prop :=
  ∀ (D : Table) (n m : Nat) (cfg : Cfg), n ≤ m →
    (∀ x y, x < m → y < m → D x y = D y x) →
    (∀ x y z, x < m → y < m → z < m → D x z ≤ D x y + D y z) →
    (∀ cs, cfg.init = some cs → ∀ c ∈ cs, c < m) →
    ResAgree n (kcenters D n { cfg with tri := false }) (kcenters D n { cfg with tri := true })

/-- What holds: for a symmetric table with the triangle inequality on the frames, a cold start or a
warm start from distinct data frames at positive mutual distance (`GoodInit`):
`use_triangle_inequality=True` and `False` return the same center indices, centers, trace and
radius, and the same label and distance for every frame (or raise the same error).
Missing w.r.t. the full statement: initial centers that are not frames of the data (false, see the
counterexample) and initial centers that coincide (`D = 0`) or repeat. -/
theorem triangle_shortcut_same_partial (D : Table) (n : Nat) (cfg : Cfg)
    (symm : ∀ x y, x < n → y < n → D x y = D y x)
    (tri : ∀ x y z, x < n → y < n → z < n → D x z ≤ D x y + D y z)
    (hinit : cfg.init = none ∨ ∃ cs, cfg.init = some cs ∧ GoodInit D n cs) :
    ResAgree n (kcenters D n { cfg with tri := false }) (kcenters D n { cfg with tri := true }) :=
  kcenters_tri_agree D n cfg symm tri hinit

example : view 5 (kcenters line5 5 { nClusters := .fin 4, tri := true }) =
    view 5 (kcenters line5 5 { nClusters := .fin 4, tri := false }) := by decide +kernel
example : ResAgree 5 (kcenters line5 5 { nClusters := .fin 4, tri := false })
    (kcenters line5 5 { nClusters := .fin 4, tri := true }) :=
  triangle_shortcut_same_partial line5 5 { nClusters := .fin 4 }
    (fun x y _ _ => lineTable_symm _ x y) (fun x y z _ _ _ => lineTable_tri _ x y z) (Or.inl rfl)

/-- Witness: points on a line at 0, 1, 3, 2; the data are frames 0, 1, 2 and the supplied initial
center is point 3 (at 2, not in the data); `n_clusters = 4`.  Plain: every frame ends at distance 0.
Shortcut: frame 2 becomes a center but keeps distance 1 to the supplied center. -/
theorem triangle_shortcut_same_counterexample : ¬ C02_triangle_shortcut_same_full := by
  intro h
  have h1 := h lineOff 3 4 { nClusters := .fin 4, init := some [3] } (by decide)
    (fun x y _ _ => lineTable_symm _ x y) (fun x y z _ _ _ => lineTable_tri _ x y z)
    (by intro cs hcs c hc; injection hcs with hcs; subst hcs; simp at hc; omega)
  have h2 := ResAgree_view h1
  revert h2
  decide +kernel

example : view 3 (kcenters lineOff 3 { nClusters := .fin 4, init := some [3], tri := true }) =
    some ⟨[1, 0, 1, 2], [3, 0, 1, 2], [1, 2, 0], [some 0, some 0, some 1],
      [(0, some 2), (1, some 1), (2, some 1)], some 1⟩ := by decide +kernel

end C02
