import Model.KCenters
namespace C02
theorem placeholder : True := trivial
end C02
