/-
C17 — pathways are real, bottleneck-optimal and never over-explain the flux.

Model: `Model/Paths.lean` (`topPath`, `removeBottleneck`, `subtractPath`, `paths`).
Proof files: `Proofs/C17Ext` (order on −∞/finite/+∞), `C17Sum`, `C17Top` (search-loop invariants and
the Dijkstra argument), `C17TopPath`, `C17Paths`, `C17Loop`, `C17Flow` (acyclic conserved flows).

Not a theorem here: "the caller's flux matrix is left unchanged".  The model is purely functional
(`paths n F …` cannot modify `F`), so that clause has no Lean content; it is established by the
correspondence run only (byte snapshots of the matrix and of both index containers around every real
call, including in-place `remove_path` callables and repeated calls on the same objects).

Vocabulary (from the proof files):
* `edges p`      consecutive pairs of `p`;
* `bneck F q`    minimum of `F` over the edges of the walk `q` (`+inf` for a single state);
* `outflow n F S` total flux leaving the source set `S` (each source once);
* `fluxSum r`    sum of the returned pathway fluxes.
-/
import Proofs.C17Flow

namespace C17
open Ens Ens.Paths

variable {n : Nat} {F : Nat → Nat → Nat} {S T : List Nat}

/-- walk from a source to a sink along positive entries of `F`, inside `[0,n)` -/
def IsWalk (n : Nat) (F : Nat → Nat → Nat) (S T : List Nat) (q : List Nat) : Prop :=
  (∃ s, q.head? = some s ∧ s ∈ S) ∧ (∃ t, q.getLast? = some t ∧ t ∈ T) ∧
  (∀ e ∈ edges q, 0 < F e.1 e.2) ∧ ∀ x ∈ q, x < n

/-! ## `top_path` -/

/-- which of the three outcomes `top_path` has: IndexError (an index ≥ n), ValueError (empty sink
list) or a result; the model's fuel never runs out. -/
theorem top_path_total (n : Nat) (F : Nat → Nat → Nat) (S T : List Nat) :
    (topPath n F S T = .error .indexError ∧ ¬ ((∀ s ∈ S, s < n) ∧ (∀ t ∈ T, t < n))) ∨
    (topPath n F S T = .error .valueError ∧ (∀ s ∈ S, s < n) ∧ T = []) ∨
    (∃ p fl, topPath n F S T = .ok (p, fl) ∧ (∀ s ∈ S, s < n) ∧ (∀ t ∈ T, t < n) ∧ T ≠ []) :=
  topPath_cases n F S T

example : topPath 3 (fun i j => if i + 1 = j then 10 else 0) [0] [2] = .ok ([0, 1, 2], .fin 10) := by
  decide
example : topPath 3 (fun _ _ => 0) [0] [] = .error .valueError := by decide
example : topPath 3 (fun _ _ => 0) [3] [1] = .error .indexError := by decide

/-- a finite reported flux comes with a simple path from a source to a sink along positive edges -/
theorem top_path_valid {p : List Nat} {f : Nat} (h : topPath n F S T = .ok (p, .fin f)) :
    p.Nodup ∧ 2 ≤ p.length ∧ IsWalk n F S T p := by
  have hs := topPath_spec n F S T p (.fin f) h
  obtain ⟨s, y, rest, hq, hsS, -⟩ := hs.fin_head
  refine ⟨hs.nodup, by rw [hq]; simp, ⟨s, by rw [hq]; rfl, hsS⟩, hs.last_mem,
    adj_edges F p hs.adj, hs.all_lt⟩

/-- the reported flux is the smallest flux on the edges of the returned path -/
theorem top_path_flux_is_bottleneck {p : List Nat} {f : Nat}
    (h : topPath n F S T = .ok (p, .fin f)) :
    (∀ e ∈ edges p, f ≤ F e.1 e.2) ∧ ∃ e ∈ edges p, F e.1 e.2 = f := by
  have hs := topPath_spec n F S T p (.fin f) h
  obtain ⟨-, -, -, -, -, hb⟩ := hs.fin_head
  exact bneck_fin_iff F p f hb

/-- Dijkstra optimality: no walk from a source to a sink has a larger bottleneck than the reported
flux (whatever it is: finite, `+inf` when a source is a sink, `-inf` when nothing is reachable) -/
theorem top_path_widest {p : List Nat} {fl : Ext} (h : topPath n F S T = .ok (p, fl))
    (q : List Nat) (hq : IsWalk n F S T q) : bneck F q ≤ fl := by
  have hs := topPath_spec n F S T p fl h
  obtain ⟨⟨s, h1, h2⟩, ⟨t, h3, h4⟩, h5, h6⟩ := hq
  exact hs.widest q s t h1 h2 h3 h4 (adj_of_edges F q h5) h6

/-- the same in elementary terms: every source-to-sink walk has an edge with flux ≤ the reported one -/
theorem top_path_widest_edges {p : List Nat} {f : Nat} (h : topPath n F S T = .ok (p, .fin f))
    (q : List Nat) (hq : IsWalk n F S T q) : ∃ e ∈ edges q, F e.1 e.2 ≤ f := by
  have hw := top_path_widest h q hq
  cases hb : bneck F q with
  | ninf => exact absurd hb (bneck_ne_ninf F q)
  | pinf => rw [hb, Ext.pinf_le_iff] at hw; cases hw
  | fin g =>
    rw [hb, Ext.fin_le_fin] at hw
    obtain ⟨-, e, he, hv⟩ := bneck_fin_iff F q g hb
    exact ⟨e, he, by omega⟩

example : IsWalk 3 (fun i j => if i + 1 = j then 10 else 0) [0] [2] [0, 1, 2] := by
  refine ⟨⟨0, rfl, by simp⟩, ⟨2, rfl, by simp⟩, ?_, ?_⟩ <;> decide

example : topPath 3 (fun _ _ => 0) [0] [2] = .ok ([2], .ninf) := by decide
example : topPath 3 (fun _ _ => 0) [0] [2, 0] = .ok ([0], .pinf) := by decide

/-- `-inf` (what `paths` reads as "no more paths") is reported only when no walk exists -/
theorem top_path_no_path {p : List Nat} (h : topPath n F S T = .ok (p, .ninf))
    (q : List Nat) : ¬ IsWalk n F S T q := by
  intro hq
  have hw := top_path_widest h q hq
  rw [Ext.le_ninf_iff] at hw
  exact bneck_ne_ninf F q hw

/-! ## `paths` -/

variable {sch : Scheme} {np : Option Nat} {cn : Int} {cd : Nat} {r : List (List Nat × Nat)}

/-- the first pathway is the top path of the caller's matrix -/
theorem paths_head_is_top_path {pf : List Nat × Nat} {rest : List (List Nat × Nat)}
    (h : paths n F S T sch np cn cd = .ok (pf :: rest)) :
    topPath n F S T = .ok (pf.1, .fin pf.2) := by
  obtain ⟨-, h⟩ := paths_ok_loop h
  rcases pathsLoop_succ_ok n S T sch np cn cd _ _ F 0 0 _ h with
    ⟨-, hr⟩ | ⟨-, _, _, -, -, hr⟩ | ⟨-, p, f, htp, ⟨-, hr⟩ | ⟨-, _, _, -, -, hr⟩⟩
  · cases hr
  · cases hr
  · cases hr; exact htp
  · cases hr; exact htp

/-- every pathway is the top path of a residual matrix `G ≤ F`: simple, source→sink, along positive
residual edges, its flux is the smallest residual flux on its edges, and no source→sink walk of the
residual matrix has a larger bottleneck -/
theorem paths_each_valid_bottleneck_widest (h : paths n F S T sch np cn cd = .ok r)
    (pf : List Nat × Nat) (hpf : pf ∈ r) :
    ∃ G : Nat → Nat → Nat, (∀ i j, G i j ≤ F i j) ∧
      pf.1.Nodup ∧ 2 ≤ pf.1.length ∧ IsWalk n G S T pf.1 ∧
      (∀ e ∈ edges pf.1, pf.2 ≤ G e.1 e.2) ∧ (∃ e ∈ edges pf.1, G e.1 e.2 = pf.2) ∧
      ∀ q, IsWalk n G S T q → ∃ e ∈ edges q, G e.1 e.2 ≤ pf.2 := by
  obtain ⟨G, hle, htp⟩ := pathsLoop_each n S T sch np cn cd _ _ F 0 0 r (paths_ok_loop h).2 pf hpf
  obtain ⟨v1, v2, v3⟩ := top_path_valid htp
  obtain ⟨b1, b2⟩ := top_path_flux_is_bottleneck htp
  exact ⟨G, hle, v1, v2, v3, b1, b2, fun q hq => top_path_widest_edges htp q hq⟩

/-- successive pathway fluxes never increase (both schemes) -/
theorem paths_fluxes_antitone (h : paths n F S T sch np cn cd = .ok r) :
    r.Pairwise (fun a b => b.2 ≤ a.2) :=
  pathsLoop_antitone n S T sch np cn cd _ _ F 0 0 r (paths_ok_loop h).2

/-- FULL statement of "the sum never exceeds the total outflow of the sources" (both schemes).
It is FALSE for the `bottleneck` scheme (`paths_sum_bottleneck_counterexample`, finding F16). -/
def C17_paths_sum_le_outflow_full : Prop :=
  ∀ (n : Nat) (F : Nat → Nat → Nat) (S T : List Nat) (sch : Scheme) (np : Option Nat) (cn : Int)
    (cd : Nat) (r : List (List Nat × Nat)),
    paths n F S T sch np cn cd = .ok r → fluxSum r ≤ outflow n F S

/-- proved part: the `subtract` scheme (every path lowers the outflow of the sources by at least its
flux, and the outflow stays ≥ 0).  Missing with respect to the full statement: the `bottleneck`
scheme, for which the statement is false. -/
theorem paths_sum_le_outflow_partial (h : paths n F S T .subtract np cn cd = .ok r) :
    fluxSum r ≤ outflow n F S :=
  pathsLoop_sum_le n S T np cn cd _ _ F 0 0 r (paths_ok_loop h).2

/-- the F16 witness: `s→a 10, a→b1→t 6, a→b2→t 6` -/
def witnessF : Nat → Nat → Nat := fun i j =>
  if i = 0 ∧ j = 1 then 10 else if i = 1 ∧ (j = 2 ∨ j = 3) then 6
  else if (i = 2 ∨ i = 3) ∧ j = 4 then 6 else 0

theorem paths_sum_bottleneck_counterexample : ¬ C17_paths_sum_le_outflow_full := by
  intro h
  have hr : paths 5 witnessF [0] [4] .bottleneck none 1 1 =
      .ok [([0, 1, 2, 4], 6), ([0, 1, 3, 4], 6)] := by decide
  have := h 5 witnessF [0] [4] .bottleneck none 1 1 _ hr
  revert this
  decide

example : paths 5 witnessF [0] [4] .subtract none 1 1 =
    .ok [([0, 1, 2, 4], 6), ([0, 1, 3, 4], 4)] := by decide

/-- `num_paths` is respected, for every requested count (`num_paths = 0` returns no path: the loop
is `while counter < num_paths`) -/
theorem paths_count_le {N : Nat} (h : paths n F S T sch (some N) cn cd = .ok r) :
    r.length ≤ N := by
  have := pathsLoop_count n S T sch cn cd _ N _ F 0 0 r (paths_ok_loop h).2
  omega

example : paths 5 witnessF [0] [4] .subtract (some 0) 1 1 = .ok [] := by decide
example : paths 5 witnessF [0] [4] .subtract (some 1) 1 1 = .ok [([0, 1, 2, 4], 6)] := by decide
example : paths 5 witnessF [0] [4] .bottleneck (some 2) 2 1 =
    .ok [([0, 1, 2, 4], 6), ([0, 1, 3, 4], 6)] := by decide

/-- the graph of the upstream `test_paths` (fluxes × 10), default cut-off `1 - 1e-10` -/
def upstreamF : Nat → Nat → Nat := fun i j =>
  if i = 0 ∧ (j = 1 ∨ j = 2) then 5 else if i = 1 ∧ j = 3 then 3 else if i = 1 ∧ j = 5 then 2
  else if i = 2 ∧ j = 4 then 5 else if i = 3 ∧ j = 5 then 3 else 0

example : paths 6 upstreamF [0] [4, 5] .subtract none 9999999999 10000000000 =
    .ok [([0, 2, 4], 5), ([0, 1, 3, 5], 3), ([0, 1, 5], 2)] := by decide
example : paths 6 upstreamF [0] [4, 5] .bottleneck none 9999999999 10000000000 =
    .ok [([0, 2, 4], 5), ([0, 1, 3, 5], 3), ([0, 1, 5], 2)] := by decide
/-- the flux cut-off stops the loop early -/
example : paths 6 upstreamF [0] [4, 5] .subtract none 1 2 = .ok [([0, 2, 4], 5)] := by decide

/-- the loop of `paths` terminates: at most (number of positive entries + 1) iterations, because every
removal zeroes a positive entry and raises none.  Outcomes: IndexError when a source index is ≥ n
(`net_flux[sources, :]`); with `num_paths = 0` the empty result without looking at the sinks;
otherwise what the first `top_path` call does (IndexError for a sink ≥ n, ValueError for an empty
sink list, else a result). -/
theorem paths_terminates (n : Nat) (F : Nat → Nat → Nat) (S T : List Nat) (sch : Scheme)
    (np : Option Nat) (cn : Int) (cd : Nat) :
    (∃ r, paths n F S T sch np cn cd = .ok r ∧ (∀ s ∈ S, s < n) ∧
        ((np = some 0 ∧ r = []) ∨ ((∀ t ∈ T, t < n) ∧ T ≠ []))) ∨
    (paths n F S T sch np cn cd = .error .indexError ∧
        ¬ ((∀ s ∈ S, s < n) ∧ ((∀ t ∈ T, t < n) ∨ np = some 0))) ∨
    (paths n F S T sch np cn cd = .error .valueError ∧ (∀ s ∈ S, s < n) ∧ T = [] ∧ np ≠ some 0) := by
  unfold paths
  split
  · next hg =>
    refine Or.inr (Or.inl ⟨rfl, ?_⟩)
    rintro ⟨hS, -⟩
    simp only [List.any_eq_true, decide_eq_true_eq] at hg
    obtain ⟨s, hs, hns⟩ := hg
    have := hS s hs
    omega
  · next hg =>
    have hS : ∀ s ∈ S, s < n := by simpa using hg
    cases hc : countReached np 0 with
    | true =>
      have hnp := (countReached_zero np).1 hc
      exact Or.inl ⟨[], pathsLoop_reached n S T sch np cn cd _ _ F 0 0 hc, hS, Or.inl ⟨hnp, rfl⟩⟩
    | false =>
      have hnp : np ≠ some 0 := fun e => by
        rw [(countReached_zero np).2 e] at hc; cases hc
      rcases topPath_cases n F S T with ⟨he, hbad⟩ | ⟨he, h1, h2⟩ | ⟨p, fl, -, -, hT, hne⟩
      · refine Or.inr (Or.inl ⟨pathsLoop_err n S T sch np cn cd _ _ F 0 0 _ hc he, ?_⟩)
        rintro ⟨h1, h2 | h2⟩
        · exact hbad ⟨h1, h2⟩
        · exact hnp h2
      · exact Or.inr (Or.inr ⟨pathsLoop_err n S T sch np cn cd _ _ F 0 0 _ hc he, h1, h2, hnp⟩)
      · obtain ⟨r, hr⟩ := pathsLoop_ok n S T sch np cn cd (totalFlux n F S) hS hT hne
          (posEdges n F + 1) F 0 0 (by omega)
        exact Or.inl ⟨r, hr, hS, Or.inr ⟨hT, hne⟩⟩

example : paths 3 (fun _ _ => 0) [0] [] .subtract (some 0) 1 1 = .ok [] := by decide
example : paths 3 (fun _ _ => 0) [0] [] .subtract none 1 1 = .error .valueError := by decide
example : paths 3 (fun _ _ => 0) [3] [] .subtract (some 0) 1 1 = .error .indexError := by decide

theorem paths_never_out_of_fuel (n : Nat) (F : Nat → Nat → Nat) (S T : List Nat) (sch : Scheme)
    (np : Option Nat) (cn : Int) (cd : Nat) : paths n F S T sch np cn cd ≠ .error .outOfFuel := by
  rcases paths_terminates n F S T sch np cn cd with ⟨r, h, -⟩ | ⟨h, -⟩ | ⟨h, -⟩ <;> rw [h] <;> simp

/-- FULL statement of "reaches the requested fraction when the flux is conserved" (both schemes, no
path-count limit, requested fraction `cn / cd ≤ 1`): `Flow n F S T rank` says that `F` is an acyclic
flow (positive entries go up in `rank`, none enters a source or leaves a sink) that is balanced at
every state outside `S ∪ T`. -/
def C17_paths_reaches_fraction_conserved_full : Prop :=
  ∀ (n : Nat) (F : Nat → Nat → Nat) (S T : List Nat) (sch : Scheme) (cn : Int) (cd : Nat)
    (r : List (List Nat × Nat)) (rank : Nat → Nat),
    Flow n F S T rank → (∀ s ∈ S, s < n) → (∀ s ∈ S, s ∉ T) → S.Nodup → cn ≤ (cd : Int) →
    paths n F S T sch none cn cd = .ok r →
    cn * (outflow n F S : Int) ≤ (fluxSum r : Int) * (cd : Int)

/-- proved part: the `subtract` scheme (each step keeps the flow balanced and lowers the outflow of
the sources by exactly the path flux; while outflow remains a source-to-sink walk exists, so the
loop can only stop on the cut-off).  Missing with respect to the full statement: the `bottleneck`
scheme (examined by the correspondence run only). -/
theorem paths_reaches_fraction_conserved_partial (rank : Nat → Nat) (hflow : Flow n F S T rank)
    (hS : ∀ s ∈ S, s < n) (hdisj : ∀ s ∈ S, s ∉ T) (hnd : S.Nodup) (hc : cn ≤ (cd : Int))
    (h : paths n F S T .subtract none cn cd = .ok r) :
    cn * (outflow n F S : Int) ≤ (fluxSum r : Int) * (cd : Int) := by
  have h := (paths_ok_loop h).2
  rw [totalFlux_eq_outflow n F S hnd hS] at h
  have := pathsLoop_fraction n S T cn cd (outflow n F S) rank hdisj hc _ F 0 0 r hflow
    (Nat.zero_add _) h
  simpa using this

example : Flow 6 upstreamF [0] [4, 5] id := by
  refine ⟨?_, ?_⟩
  · intro i j h
    unfold upstreamF at h
    simp only [List.mem_cons, List.not_mem_nil, or_false, id]
    repeat' split at h
    all_goals omega
  · intro v hv hS hT
    simp only [List.mem_cons, List.not_mem_nil, or_false] at hS hT
    have : v = 1 ∨ v = 2 ∨ v = 3 := by omega
    rcases this with rfl | rfl | rfl <;> decide

end C17
