import Driver.Json
import Model.Dist
open Lean Drv Ens Ens.Dist

namespace Drv.C13

def errStr : Err → String
  | .dataInvalid => "data-invalid"
  | .indexError => "index-error"
  | .typeError => "type-error"
  | .valueError => "value-error"
  | .badRequest => "bad-request"

def cellJson : Cell → Json
  | .val q => Json.mkObj [("v", ratJson q)]
  | .sqrt q => Json.mkObj [("sqrt", ratJson q)]
  | .nan => Json.str "nan"
  | .untracked => Json.str "untracked"

def getCell (j : Json) : Except String Cell :=
  match j with
  | .str "nan" => pure .nan
  | .str "untracked" => pure .untracked
  | .str s => throw s!"bad cell {s}"
  | v => do let q ← getRat v; pure (.val q)

def getMeta (j : Json) : Except String Meta := do
  let dtype ← getStr (← field j "dtype")
  let shape ← getList getNat (← field j "shape")
  let writable ← match fieldOpt j "writable" with
    | none => pure true
    | some b => getBool b
  pure { dtype := dtype, shape := shape, writable := writable }

def getArrOf {ε} (f : Json → Except String ε) (j : Json) : Except String (Arr ε) := do
  let buf ← match fieldOpt j "buf" with
    | none => pure []
    | some b => getList f b
  let offset ← match fieldOpt j "offset" with
    | none => pure 0
    | some o => getInt o
  let shape ← getList getNat (← field j "shape")
  let strides ← getList getInt (← field j "strides")
  pure { buf := buf.toArray, offset := offset, shape := shape, strides := strides }

def resultJson (r : Result) : Json :=
  Json.mkObj [("buf", listJson cellJson r.buf), ("offset", intJson r.offset),
              ("stride", intJson r.stride), ("n", natJson r.n),
              ("values", listJson cellJson r.values)]

def handle (op : String) (req : Json) : Except String Json := do
  match op with
  | "call" =>
    let kname ← getStr (← field req "kernel")
    let k ← match Kernel.ofName kname with
      | some k => pure k
      | none => throw s!"unknown kernel {kname}"
    let xj ← field req "X"
    let yj ← field req "y"
    let Xm ← getMeta xj
    let ym ← getMeta yj
    let elem ← match fieldOpt req "elem" with
      | none => pure "int"
      | some e => getStr e
    let data ← match elem with
      | "int" => do pure (Data.ints (← getArrOf getInt xj) (← getArrOf getInt yj))
      | "rat" => do pure (Data.rats (← getArrOf getRat xj) (← getArrOf getRat yj))
      | e => throw s!"unknown elem {e}"
    let out ← match fieldOpt req "out" with
      | none => pure none
      | some oj => do pure (some (← getMeta oj, ← getArrOf getCell oj))
    let sched ← match fieldOpt req "sched" with
      | none => pure []
      | some s => getList getNat s
    match call k Xm ym data out sched with
    | .error e => pure (errJson (errStr e))
    | .ok r => pure (okJson (resultJson r))
  | "rows" =>
    -- strided read of a 2-D int view: logical rows (memory model alone)
    let a ← getArrOf getInt req
    match a.shape with
    | [n, w] =>
      if !a.extentOk then pure (errJson "bad-request") else
      match a.rows? n w with
      | some rows => pure (okJson (listJson (listJson intJson) rows))
      | none => pure (errJson "bad-request")
    | _ => pure (errJson "bad-request")
  | "term" =>
    -- C arithmetic of one coordinate for an integer element type
    let kname ← getStr (← field req "kernel")
    let k ← match Kernel.ofName kname with
      | some k => pure k
      | none => throw s!"unknown kernel {kname}"
    let tname ← getStr (← field req "dtype")
    let x ← getInt (← field req "x")
    let y ← getInt (← field req "y")
    match DType.ofName tname with
    | none => pure (errJson "type-error")
    | some t =>
      match t.promote with
      | none => pure (errJson "type-error")
      | some c =>
        let ok : Bool := match k with
          | .euclidean => decide (NoOverflowSq c x y)
          | .manhattan => decide (NoOverflowDiff c x y)
          | .hamming => true
        pure (okJson (Json.mkObj [("term", ratJson (termInt intArith k c x y)), ("no_overflow", Json.bool ok)]))
  | "metric" =>
    let m ← getStr (← field req "metric")
    match Gen.metricMap.lookup m with
    | some f => pure (okJson (Json.str f))
    | none => pure (errJson "not-a-libdist-metric")
  | "arith" => pure (okJson (Json.str (reprStr intArith)))
  | "dtypes" =>
    let kname ← getStr (← field req "kernel")
    match Kernel.ofName kname with
    | some k => pure (okJson (listJson (fun t => Json.str (reprStr t)) k.dtypes))
    | none => throw s!"unknown kernel {kname}"
  | _ => throw s!"bad-op C13.{op}"

end Drv.C13
