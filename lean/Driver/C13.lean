import Driver.Json
open Lean Drv

namespace Drv.C13

def handle (op : String) (_req : Json) : Except String Json :=
  throw s!"bad-op C13.{op}"

end Drv.C13
