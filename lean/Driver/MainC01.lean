import Driver.Loop
import Driver.C01
/-! per-property driver executable: a broken handler of another property cannot affect this one -/
def main : IO Unit := Drv.mainLoop "C01" Drv.C01.handle
