import Driver.Json
import Model.Tpt
open Lean Drv Ens Ens.Tpt

namespace Drv.C07

def errStr : Err → String
  | .indexError => "index-error"
  | .singular => "singular"
  | .zeroDivision => "zero-division"

/-- JSON list of rows of `[num, den]` → index function (entries outside the sent block are 0
and are never read by the model: every function takes the size `n`). -/
def getMat (j : Json) : Except String (Nat × Mat) := do
  let rows ← getList (getList getRat) j
  let a : Array (Array Rat) := (rows.map List.toArray).toArray
  if rows.any (fun r => r.length ≠ rows.length) then throw "matrix not square"
  pure (rows.length, fun i k => (a.getD i #[]).getD k 0)

def getVec (n : Nat) (j : Json) : Except String Vec := do
  let xs ← getList getRat j
  if xs.length ≠ n then throw "vector length"
  let a := xs.toArray
  pure fun i => a.getD i 0

def vecJson (n : Nat) (v : Vec) : Json := listJson ratJson (tabulate n v)
def matJson (n m : Nat) (M : Mat) : Json :=
  listJson (fun i => listJson ratJson (tabulate m (M i))) (List.range n)

def handle (op : String) (req : Json) : Except String Json := do
  match op with
  | "imq" =>
    let (n, T) ← getMat (← field req "T")
    let ab ← getList getNat (← field req "absorbing")
    if idxOk n ab then pure (okJson (matJson n n (ImQ T ab))) else pure (errJson "index-error")
  | "rmat" =>
    let (n, T) ← getMat (← field req "T")
    let so ← getList getNat (← field req "sources")
    let si ← getList getNat (← field req "sinks")
    if idxOk n so && idxOk n si then pure (okJson (matJson n si.length (Rmat T so si)))
    else pure (errJson "index-error")
  | "committors" =>
    let (n, T) ← getMat (← field req "T")
    let so ← getList getNat (← field req "sources")
    let si ← getList getNat (← field req "sinks")
    match committors n T so si with
    | .error e => pure (errJson (errStr e))
    | .ok q => pure (okJson (vecJson n q))
  | "mfpts_sinks" =>
    let (n, T) ← getMat (← field req "T")
    let si ← getList getNat (← field req "sinks")
    let lag ← getRat (← field req "lag")
    match mfptsSinks n T si lag with
    | .error e => pure (errJson (errStr e))
    | .ok t => pure (okJson (vecJson n t))
  | "eq_probs" =>
    let (n, T) ← getMat (← field req "T")
    match eqProbs n T with
    | .error e => pure (errJson (errStr e))
    | .ok p => pure (okJson (vecJson n p))
  | "mfpts_all" =>
    let (n, T) ← getMat (← field req "T")
    let lag ← getRat (← field req "lag")
    let pi ← match fieldOpt req "pi" with
      | some j => do let v ← getVec n j; pure (Except.ok v)
      | none => pure (eqProbs n T)
    match pi with
    | .error e => pure (errJson (errStr e))
    | .ok p =>
      match mfptsAll n T p lag with
      | .error e => pure (errJson (errStr e))
      | .ok m => pure (okJson (matJson n n m))
  | _ => throw s!"bad-op C07.{op}"

end Drv.C07
