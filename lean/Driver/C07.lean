import Driver.Json
open Lean Drv

namespace Drv.C07

def handle (op : String) (_req : Json) : Except String Json :=
  throw s!"bad-op C07.{op}"

end Drv.C07
