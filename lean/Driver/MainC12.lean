import Driver.Loop
import Driver.C12
/-! per-property driver executable: a broken handler of another property cannot affect this one -/
def main : IO Unit := Drv.mainLoop "C12" Drv.C12.handle
