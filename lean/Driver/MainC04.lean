import Driver.Loop
import Driver.C04
/-! per-property driver executable: a broken handler of another property cannot affect this one -/
def main : IO Unit := Drv.mainLoop "C04" Drv.C04.handle
