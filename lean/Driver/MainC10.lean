import Driver.Loop
import Driver.C10
/-! per-property driver executable: a broken handler of another property cannot affect this one -/
def main : IO Unit := Drv.mainLoop "C10" Drv.C10.handle
