import Driver.Loop
import Driver.C03
/-! per-property driver executable: a broken handler of another property cannot affect this one -/
def main : IO Unit := Drv.mainLoop "C03" Drv.C03.handle
