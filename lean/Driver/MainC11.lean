import Driver.Loop
import Driver.C11
/-! per-property driver executable: a broken handler of another property cannot affect this one -/
def main : IO Unit := Drv.mainLoop "C11" Drv.C11.handle
