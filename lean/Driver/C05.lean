import Driver.Json
import Model.Ragged
open Lean Drv Ens Ens.Ragged

namespace Drv.C05

def errStr : Err → String
  | .indexError => "index-error"
  | .valueError => "value-error"
  | .typeError => "type-error"
  | .other => "other"

def getSlice (j : Json) : Except String PySlice := do
  match ← getArr j with
  | [a, b, c] => pure { start := ← getOptInt a, stop := ← getOptInt b, step := ← getOptInt c }
  | _ => throw "slice needs [start, stop, step]"

def getPart (j : Json) : Except String Part := do
  let t ← getStr (← field j "t")
  match t with
  | "int" => pure (.int (← getInt (← field j "v")))
  | "slice" => pure (.slice (← getSlice (← field j "v")))
  | "list" => pure (.list (← getList getInt (← field j "v")) false)
  | "arr" => pure (.list (← getList getInt (← field j "v")) true)
  | _ => throw s!"bad index part {t}"

def getMask (j : Json) : Except String (RA Bool) := do
  let m ← getList (getList getBool) (← field j "v")
  pure ⟨m.flatten, m.map List.length⟩

def getIndex (j : Json) : Except String Index := do
  let t ← getStr (← field j "t")
  match t with
  | "tuple" => pure (.two (← getPart (← field j "r")) (← getPart (← field j "c")))
  | "mask" => pure (.mask (← getMask j))
  | _ => pure (.one (← getPart j))

/-- the array under test: cells are their own flat position -/
def mkRA (req : Json) : Except String (Except Err (RA Nat) × Bool × Bool) := do
  let lengths ← getList getNat (← field req "lengths")
  let ctor ← getStr (← field req "ctor")
  let fast ← getBool (← field req "fast")
  let fixed ← getBool (← field req "fixed")
  let ids := List.range lengths.sum
  match ctor with
  | "rows" => pure (.ok (ofRows (partitionAux ids 0 lengths)), fast, fixed)
  | "flat" => pure (if fixed then ofFlatF ids lengths else ofFlat ids lengths, fast, fixed)
  | _ => throw s!"bad ctor {ctor}"

def rowsJson (r : List (List Nat)) : Json := listJson (listJson natJson) r

def resJson : Res Nat → Json
  | .arr l => Json.mkObj [("k", Json.str "arr"), ("v", listJson natJson l)]
  | .ra r => Json.mkObj [("k", Json.str "rows"), ("v", rowsJson (rows r)),
                         ("lengths", listJson natJson r.lengths), ("data", listJson natJson r.data)]

def wrap {β} (f : β → Json) : Except Err β → Json
  | .error e => errJson (errStr e)
  | .ok v => okJson (f v)

def handle (op : String) (req : Json) : Except String Json := do
  match op with
  | "slice" =>
    let len ← getNat (← field req "len")
    let s ← getSlice (← field req "v")
    match s.indices len with
    | none => pure (errJson "value-error")
    | some ix => pure (okJson (listJson natJson ix))
  | "get" =>
    let (ra?, fast, fixed) ← mkRA req
    let idx ← getIndex (← field req "idx")
    pure (wrap resJson (ra? >>= fun ra => getItemV fixed ra fast idx))
  | "where" =>
    let m ← getMask (← field req "idx")
    pure (wrap (fun ps => Json.arr #[listJson natJson (ps.map (·.1)), listJson natJson (ps.map (·.2))]) (whereIdx m))
  | "iter" =>
    let (ra?, fast, fixed) ← mkRA req
    pure (wrap rowsJson (ra? >>= fun ra => if fixed then iterF ra fast else iter ra fast))
  | "flatten" =>
    let (ra?, _, _) ← mkRA req
    pure (wrap (listJson natJson) (ra?.map flatten))
  | "attrs" =>
    let (ra?, fast, fixed) ← mkRA req
    pure (wrap id (ra? >>= fun ra => do
      let sh ← shape ra
      let n ← if fixed then lenF ra fast else len ra fast
      pure (Json.mkObj [("lengths", listJson natJson ra.lengths),
                        ("starts", listJson natJson (starts ra.lengths)),
                        ("shape", Json.arr #[natJson sh.1, optJson natJson sh.2]),
                        ("size", natJson (size ra)), ("len", natJson n)])))
  | _ => throw s!"bad-op C05.{op}"

end Drv.C05
