import Driver.Json
open Lean Drv

namespace Drv.C05

def handle (op : String) (_req : Json) : Except String Json :=
  throw s!"bad-op C05.{op}"

end Drv.C05
