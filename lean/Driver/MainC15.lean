import Driver.Loop
import Driver.C15
/-! per-property driver executable: a broken handler of another property cannot affect this one -/
def main : IO Unit := Drv.mainLoop "C15" Drv.C15.handle
