import Driver.Loop
import Driver.C18
/-! per-property driver executable: a broken handler of another property cannot affect this one -/
def main : IO Unit := Drv.mainLoop "C18" Drv.C18.handle
