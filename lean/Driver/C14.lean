import Driver.Json
open Lean Drv

namespace Drv.C14

def handle (op : String) (_req : Json) : Except String Json :=
  throw s!"bad-op C14.{op}"

end Drv.C14
