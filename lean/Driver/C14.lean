import Driver.Json
import Model.Mpi
import Model.MpiPam
open Lean Drv Ens Ens.Mpi

namespace Drv.C14

def errStr : Err → String
  | .indexError => "index-error"
  | .valueError => "value-error"
  | .improperlyConfigured => "improperly-configured"
  | .assertion => "assertion"
  | .dataInvalid => "data-invalid"
  | .attributeError => "attribute-error"
  | .notImplemented => "not-implemented"
  | .nan => "nan"
  | .fuel => "fuel"

def outE {α} (f : α → Json) : Except Err α → Json
  | .ok a => okJson (f a)
  | .error e => errJson (errStr e)

def getPair (j : Json) : Except String (Nat × Nat) := do
  match ← getArr j with
  | [a, b] => pure (← getNat a, ← getNat b)
  | _ => throw "pair expected"

def pairJson (p : Nat × Nat) : Json := Json.arr #[natJson p.1, natJson p.2]

def getDist (j : Json) : Except String Dist :=
  match j with
  | .null => pure .inf
  | v => do pure (.fin (← getRat v))

def distJson : Dist → Json
  | .inf => Json.null
  | .fin q => ratJson q

/-- per-rank lists as a function of the rank (ranks `≥ w` are never consulted) -/
def perRank {α} (l : List (List α)) : Nat → List α := fun r => l.getD r []

/-- a validated square table as a function -/
def tableFn (n : Nat) (t : List (List Dist)) : Except String (Nat → Nat → Dist) := do
  if t.length ≠ n ∨ t.any (fun row => row.length ≠ n) then throw "table is not n x n"
  let a := (t.map List.toArray).toArray
  pure fun f c => (a.getD f #[]).getD c .inf

def getK (req : Json) : Except String (Option Nat) :=
  match fieldOpt req "k" with
  | none => pure none
  | some j => do pure (some (← getNat j))


/-! ### distributed PAM (`Model/MpiPam.lean`) -/

def pamErrStr : MpiPam.Err → String
  | .mpi e => errStr e
  | .oracleExhausted => "oracle-exhausted"
  | .infState => "inf-state"
  | .unboundLocal => "unbound-local"

/-- a validated square rational table as a function -/
def ratTableFn (n : Nat) (t : List (List Rat)) : Except String Cluster.Table := do
  if t.length ≠ n ∨ t.any (fun row => row.length ≠ n) then throw "table is not n x n"
  let a := (t.map List.toArray).toArray
  pure fun f c => (a.getD f #[]).getD c 0

/-- rank-local arrays `{"dist": [[num,den]…], "assign": [int…]}` (`"fresh": true` = all `inf`) -/
def getArr1 (j : Json) : Except String Cluster.Arr := do
  let d ← getList getRat (← field j "dist")
  let a ← getList getInt (← field j "assign")
  let fr ← match fieldOpt j "fresh" with
    | some b => getBool b
    | none => pure false
  pure { fresh := fr, distA := d.toArray, assignA := a.toArray }

def pstateJson (s : MpiPam.PState) : Json := Json.mkObj [
  ("ctrs", listJson pairJson s.ctrs),
  ("coords", listJson natJson s.coords),
  ("dist", listJson (fun (a : Cluster.Arr) => listJson ratJson a.distA.toList) s.arrs),
  ("assign", listJson (fun (a : Cluster.Arr) => listJson intJson a.assignA.toList) s.arrs)]

def mstepJson (st : MpiPam.MStep) : Json := Json.mkObj [
  ("cid", natJson st.cid), ("p", pairJson st.p), ("y", natJson st.y),
  ("old", ratJson st.oldCost), ("new", ratJson st.newCost), ("acc", Json.bool st.acc)]

def mrunJson (w : Nat) (L : List Nat) (r : MpiPam.MRun) : Json := Json.mkObj [
  ("final", pstateJson r.final),
  ("sweeps", listJson pstateJson r.sweeps),
  ("trace", listJson mstepJson r.trace),
  ("oracle", listJson natJson r.oracle),
  ("reassembled", match MpiPam.reassemble w L r.final with
    | .ok s => okJson (Json.mkObj [("ctrs", listJson natJson s.ctrInds),
        ("dist", listJson ratJson s.arr.distA.toList), ("assign", listJson intJson s.arr.assignA.toList)])
    | .error e => errJson (pamErrStr e))]

def handle (op : String) (req : Json) : Except String Json := do
  match op with
  | "stripe" =>
    let w ← getNat (← field req "w")
    let n ← getNat (← field req "n")
    let r ← getNat (← field req "r")
    if w = 0 then throw "w = 0"
    pure (okJson (listJson natJson (stripeIdx w n r)))
  | "assemble_array" =>
    let parts ← getList (getList getInt) (← field req "parts")
    if parts.length = 0 then throw "w = 0"
    pure (outE (listJson intJson) (assembleStripedArray parts.length (perRank parts)))
  | "assemble_ragged" =>
    let w ← getNat (← field req "w")
    let L ← getList getNat (← field req "L")
    let locals ← getList getArr (← field req "locals")
    if w = 0 ∨ locals.length ≠ w then throw "bad w"
    pure (outE (listJson id) (assembleStripedRagged w L (perRank locals)))
  | "local_frames" =>
    let w ← getNat (← field req "w")
    let L ← getList getNat (← field req "L")
    if w = 0 then throw "w = 0"
    pure (okJson (listJson (listJson natJson) ((List.range w).map (localFrames w L))))
  | "convert_local" =>
    let w ← getNat (← field req "w")
    let L ← getList getNat (← field req "L")
    let ps ← getList getPair (← field req "pairs")
    if w = 0 then throw "w = 0"
    pure (outE (listJson natJson) (convertLocalIndices w L ps))
  | "ctr_ids" =>
    let w ← getNat (← field req "w")
    let L ← getList getNat (← field req "L")
    let ps ← getList getPair (← field req "pairs")
    if w = 0 then throw "w = 0"
    pure (outE (listJson pairJson) (ctrIdsMpi w L ps))
  | "ctr_ids_flat" =>
    let w ← getNat (← field req "w")
    let L ← getList getNat (← field req "L")
    let cs ← getList getNat (← field req "cs")
    if w = 0 then throw "w = 0"
    pure (outE (listJson pairJson) (ctrIdsMpiFlat w L cs))
  | "max" =>
    let locals ← getList (getList getDist) (← field req "locals")
    if locals.length = 0 then throw "w = 0"
    pure (outE distJson (stripedMax locals.length (perRank locals)))
  | "mean" =>
    let locals ← getList (getList getRat) (← field req "locals")
    if locals.length = 0 then throw "w = 0"
    pure (outE ratJson (stripedMean locals.length (perRank locals)))
  | "randind" =>
    let lens ← getList getNat (← field req "lens")
    let g ← getNat (← field req "g")
    if lens.length = 0 then throw "w = 0"
    pure (outE pairJson (randind lens g))
  | "randind_all" =>
    -- the whole enumeration of the draw: g = 0 … sum lens - 1
    let lens ← getList getNat (← field req "lens")
    if lens.length = 0 then throw "w = 0"
    pure (listJson (fun g => outE pairJson (randind lens g)) (List.range (max lens.sum 1)))
  | "distribute" =>
    let data ← getList getArr (← field req "data")
    let idx ← getNat (← field req "idx")
    let owner ← getNat (← field req "owner")
    if data.length = 0 then throw "w = 0"
    pure (outE id (distributeFrame data.length (perRank data) idx owner))
  | "load" =>
    let w ← getNat (← field req "w")
    let rows ← getList getArr (← field req "rows")
    let stride ← getNat (← field req "stride")
    let kind ← getStr (← field req "kind")
    if w = 0 ∨ stride = 0 then throw "bad w/stride"
    let f ← match kind with
      | "h5" => pure (loadStriped (β := Json) w rows stride)
      | "npy" => pure (loadNpyStriped (β := Json) w rows stride)
      | _ => throw "bad kind"
    let strided := rows.map fun row => (everyNth stride row).length
    pure (Json.mkObj [
      ("ranks", listJson (fun r => outE (fun p => Json.mkObj [("lengths", listJson natJson p.1),
                                                               ("data", listJson id p.2)]) (f r)) (List.range w)),
      ("strided_lengths", listJson natJson strided)])
  | "kcenters_serial" =>
    let n ← getNat (← field req "n")
    let D ← tableFn n (← getList (getList getDist) (← field req "D"))
    let k ← getK req
    let cutoff ← getDist (← field req "cutoff")
    let fuel := match k with | some k => k + 1 | none => n + 2
    pure (outE (fun s => Json.mkObj [
        ("ctrs", listJson natJson s.ctrs),
        ("dist", listJson distJson (tabulate n s.dist)),
        ("assign", listJson intJson (tabulate n s.assign))])
      (serialKcenters n D .inf k cutoff fuel))
  | "kcenters_mpi" =>
    let X ← getList (getList getNat) (← field req "X")
    let n ← getNat (← field req "n")
    let D ← tableFn n (← getList (getList getDist) (← field req "D"))
    let k ← getK req
    let cutoff ← getDist (← field req "cutoff")
    if X.length = 0 then throw "w = 0"
    if X.any (fun row => row.any (fun f => f ≥ n)) then throw "frame id out of range"
    let a := (X.map List.toArray).toArray
    let lay : Layout := { w := X.length, m := fun r => (a.getD r #[]).size,
                          X := fun r i => (a.getD r #[]).getD i 0 }
    let fuel := match k with | some k => k + 1 | none => n + 2
    pure (outE (fun s => Json.mkObj [
        ("ctrs", listJson pairJson s.ctrs),
        ("dist", listJson (fun r => listJson distJson (tabulate (lay.m r) (s.dist r))) (List.range lay.w)),
        ("assign", listJson (fun r => listJson intJson (tabulate (lay.m r) (s.assign r))) (List.range lay.w))])
      (mpiKcenters lay D .inf k cutoff fuel))
  | "mpi_pam" =>
    -- distributed k-medoids on the round-robin layout of `L` over `w` ranks.
    -- entry "kmedoids": `kmedoids(...)` warm start, centers as (traj, frame) pairs ("centers") or flat
    -- global ids ("centers_flat"); entry "iterations": `_kmedoids_iterations` from (rank, index) "ctrs"
    let w ← getNat (← field req "w")
    let L ← getList getNat (← field req "L")
    if w = 0 then throw "w = 0"
    let n := L.sum
    let D ← ratTableFn n (← getList (getList getRat) (← field req "D"))
    let arrs ← getList getArr1 (← field req "arrs")
    if arrs.length ≠ w then throw "arrs: one entry per rank expected"
    let iters ← getNat (← field req "iters")
    let props ← match fieldOpt req "props" with
      | none => pure none
      | some j => do pure (some (← getList getPair j))
    let orc ← match fieldOpt req "orc" with
      | none => pure []
      | some j => getList getNat j
    let entry ← getStr (← field req "entry")
    let res ← match entry with
      | "kmedoids" =>
        let centers ← match fieldOpt req "centers", fieldOpt req "centers_flat" with
          | some j, _ => do pure (Sum.inl (← getList getPair j))
          | none, some j => do pure (Sum.inr (← getList getNat j))
          | none, none => throw "centers or centers_flat expected"
        pure (MpiPam.mpiKmedoids w L D iters arrs centers props orc)
      | "iterations" =>
        let ctrs ← getList getPair (← field req "ctrs")
        pure (MpiPam.mpiKmedoidsIterations (stripeLayout w L) D iters
          { arrs := arrs, ctrs := ctrs, coords := [] } props orc)
      | _ => throw "bad entry"
    pure (match res with
      | .ok r => okJson (mrunJson w L r)
      | .error e => errJson (pamErrStr e))
  | _ => throw s!"bad-op C14.{op}"

end Drv.C14
