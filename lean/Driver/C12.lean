import Driver.Json
import Model.Mle
import Model.Generated.MleSite
open Lean Drv Ens Ens.Mle

/-! Driver for C12: the Prinz estimator model instantiated with `Float` (IEEE double).
Doubles travel as their 64-bit patterns (JSON integers), so both sides see the same numbers. -/
namespace Drv.C12

def getF (j : Json) : Except String Float := do
  let b ← getNat j
  if b ≥ 2^64 then throw "bit pattern out of range" else pure (Float.ofBits (UInt64.ofNat b))

def fJson (x : Float) : Json := natJson x.toBits.toNat

def toMat (n : Nat) (rows : List (List Float)) : Except String (Mat Float n) := do
  if rows.length ≠ n then throw "shape" else
  if rows.any (fun r => r.length ≠ n) then throw "shape" else
  pure (Vector.ofFn fun i => Vector.ofFn fun j => (rows.getD i.val []).getD j.val 0)

def matJson {n} (X : Mat Float n) : Json :=
  listJson (fun (r : Vector Float n) => listJson fJson r.toList) X.toList

def vecJson {n} (x : Vec Float n) : Json := listJson fJson x.toList

def errStr : Err → String
  | .assertion => "assertion"
  | .typeError => "type-error"
  | .unbound => "unbound"

def getImpl (j : Json) : Except String Impl := do
  match ← getStr j with
  | "py" => pure .py
  | "compiled" => pure .compiled
  | s => throw s!"bad impl {s}"

/-- the constants of the two implementations (builders.py L315-316; libmsm.pyx L95-96) -/
def params (impl : Impl) (tol : Float) (maxIter : Nat) : Params Float :=
  match impl with
  | .py =>
    { sqrt := Float.sqrt
      log := Float.log
      tol := tol
      maxIter := maxIter
      impl := Impl.py
      warnSwapped := Ens.Generated.MleSite.warnSwappedPy
      rowAtol := 1e-8
      rowRtol := 1e-5
      piCheck := PiCheck.isclose 1e-8 1e-5 }
  | .compiled =>
    { sqrt := Float.sqrt
      log := Float.log10
      tol := tol
      maxIter := maxIter
      impl := Impl.compiled
      warnSwapped := Ens.Generated.MleSite.warnSwappedPyx
      rowAtol := 1e-16
      rowRtol := 1e-5
      piCheck := PiCheck.upper 1e-14 }

def resultJson {n} (r : Result Float n) : Json :=
  okJson (Json.mkObj [("T", matJson r.T), ("pi", vecJson r.pi), ("X", matJson r.X),
    ("rs", vecJson r.rs), ("n_iter", natJson r.nIter), ("warned", Json.bool r.warned)])

/-- output stage without the cap branch and without assertions (neighbouring iterates) -/
def iterate {n} (P : Params Float) (C : Mat Float n) (k : Nat) : Json :=
  match init C with
  | .error e => errJson (errStr e)
  | .ok (Crs, st0) =>
    match sweepsN P.sqrt P.log C Crs k st0 with
    | .error e => errJson (errStr e)
    | .ok st =>
      let T : Mat Float n := Vector.ofFn fun i => Vector.ofFn fun j => mget st.X i j / rowSumF st.X i
      let tot := sumFin n (fun i => vget st.rs i)
      let pi : Vec Float n := Vector.ofFn fun i => vget st.rs i / tot
      okJson (Json.mkObj [("T", matJson T), ("pi", vecJson pi)])

def handle (op : String) (req : Json) : Except String Json := do
  match op with
  | "run" =>
    let n ← getNat (← field req "n")
    let rows ← getList (getList getF) (← field req "C")
    let C ← toMat n rows
    let impl ← getImpl (← field req "impl")
    let tol ← getF (← field req "tol")
    let maxIter ← getNat (← field req "max_iter")
    match run (params impl tol maxIter) C with
    | .error e => pure (errJson (errStr e))
    | .ok r => pure (resultJson r)
  | "iterates" =>
    let n ← getNat (← field req "n")
    let rows ← getList (getList getF) (← field req "C")
    let C ← toMat n rows
    let impl ← getImpl (← field req "impl")
    let ks ← getList getNat (← field req "ks")
    let P := params impl 0 1
    pure (okJson (listJson (fun k => iterate P C k) ks))
  | "site" =>
    pure (okJson (Json.mkObj [("py", Json.bool Ens.Generated.MleSite.warnSwappedPy),
                              ("pyx", Json.bool Ens.Generated.MleSite.warnSwappedPyx),
                              ("guard", Json.bool Ens.Generated.MleSite.cRoundingGuard)]))
  | _ => throw s!"bad-op C12.{op}"

end Drv.C12
