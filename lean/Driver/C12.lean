import Driver.Json
open Lean Drv

namespace Drv.C12

def handle (op : String) (_req : Json) : Except String Json :=
  throw s!"bad-op C12.{op}"

end Drv.C12
