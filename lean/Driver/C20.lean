import Driver.Json
import Model.Rotamer
open Lean Drv Ens Ens.Rotamer

namespace Drv.C20

def errStr : Err → String
  | .dataInvalid => "data-invalid"
  | .indexError => "index-error"
  | .zeroDivision => "zero-division"
  | .valueError => "value-error"
  | .attributeError => "attribute-error"

def getDType (req : Json) : Except String DType := do
  let bits ← getNat (← field req "bits")
  let signed ← getBool (← field req "signed")
  pure { bits := bits, signed := signed }

def handle (op : String) (req : Json) : Except String Json := do
  match op with
  | "rotamers" =>
    let angles ← getList getRat (← field req "angles")
    let hb ← getList getRat (← field req "hb")
    let b ← getRat (← field req "b")
    match rotamers angles hb b with
    | .error e => pure (errJson (errStr e))
    | .ok st => pure (okJson (listJson intJson st))
  | "gates" =>
    let s ← getInt (← field req "s")
    let hb ← getList getRat (← field req "hb")
    let b ← getRat (← field req "b")
    match getGates s hb b with
    | .error e => pure (errJson (errStr e))
    | .ok g => pure (okJson (Json.arr #[ratJson g.1, ratJson g.2]))
  | "exit" =>
    let s ← getInt (← field req "s")
    let a ← getRat (← field req "a")
    let hb ← getList getRat (← field req "hb")
    let b ← getRat (← field req "b")
    match isBufferedTransition s a hb b with
    | .error e => pure (errJson (errStr e))
    | .ok r => pure (okJson (Json.bool r))
  | "shift" =>
    let shift ← getRat (← field req "shift")
    let angles ← getList getRat (← field req "angles")
    pure (okJson (listJson ratJson (angles.map (shiftAngle shift))))
  | "transitions1d" =>
    let d ← getDType req
    let xs ← getList getInt (← field req "xs")
    pure (okJson (listJson natJson (transitions1d d xs)))
  | "transitions2d" =>
    let d ← getDType req
    let rows ← getList (getList getInt) (← field req "rows")
    match transitions2d Generated.transitionsAllQuietGuard d rows with
    | .error e => pure (errJson (errStr e))
    | .ok out => pure (okJson (listJson (listJson natJson) out))
  | "consts" =>
    pure (okJson (Json.mkObj [
      ("sets", listJson (listJson ratJson) Generated.boundarySets),
      ("buffers", listJson ratJson Generated.defaultBuffers),
      ("shifts", listJson ratJson [Generated.phiShift, Generated.psiShift, Generated.chiShift]),
      ("all_quiet_guard", Json.bool Generated.transitionsAllQuietGuard)]))
  | _ => throw s!"bad-op C20.{op}"

end Drv.C20
