import Driver.Json
open Lean Drv

namespace Drv.C20

def handle (op : String) (_req : Json) : Except String Json :=
  throw s!"bad-op C20.{op}"

end Drv.C20
