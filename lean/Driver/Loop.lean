import Driver.Json
/-! Line protocol: one JSON request `{"op": "<Cxx>.<name>", ...}` per line, one JSON
response per line. Unknown ops are rejected (`fatal`), never defaulted. -/
open Lean

namespace Drv

def answerWith (dispatch : String → Json → Except String Json) (line : String) : String :=
  match Json.parse line with
  | .error e => (Json.mkObj [("fatal", Json.str s!"parse: {e}")]).compress
  | .ok req =>
    match (do let op ← (← field req "op").getStr?; dispatch op req) with
    | .ok j => j.compress
    | .error e => (Json.mkObj [("fatal", Json.str e)]).compress

partial def loopWith (dispatch : String → Json → Except String Json)
    (h : IO.FS.Stream) (out : IO.FS.Stream) : IO Unit := do
  let line ← h.getLine
  if line.isEmpty then return ()
  let t := line.trimAscii.toString
  if t.isEmpty then loopWith dispatch h out else
  out.putStrLn (answerWith dispatch t)
  loopWith dispatch h out

/-- main loop of a per-property driver: accepts only ops `"<prop>.<name>"` -/
def mainLoop (prop : String) (handle : String → Json → Except String Json) : IO Unit := do
  let out ← IO.getStdout
  let dispatch := fun (op : String) (req : Json) =>
    match op.splitOn "." with
    | p :: rest => if p == prop then handle (".".intercalate rest) req else throw s!"bad-op {op}"
    | _ => throw s!"bad-op {op}"
  loopWith dispatch (← IO.getStdin) out
  out.flush

end Drv
