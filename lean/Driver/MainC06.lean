import Driver.Loop
import Driver.C06
/-! per-property driver executable: a broken handler of another property cannot affect this one -/
def main : IO Unit := Drv.mainLoop "C06" Drv.C06.handle
