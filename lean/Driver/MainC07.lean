import Driver.Loop
import Driver.C07
/-! per-property driver executable: a broken handler of another property cannot affect this one -/
def main : IO Unit := Drv.mainLoop "C07" Drv.C07.handle
