import Driver.Loop
import Driver.C08
/-! per-property driver executable: a broken handler of another property cannot affect this one -/
def main : IO Unit := Drv.mainLoop "C08" Drv.C08.handle
