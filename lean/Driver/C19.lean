import Driver.Json
open Lean Drv

namespace Drv.C19

def handle (op : String) (_req : Json) : Except String Json :=
  throw s!"bad-op C19.{op}"

end Drv.C19
