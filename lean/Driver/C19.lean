import Driver.Json
import Model.Masked
open Lean Drv Ens Ens.Masked

namespace Drv.C19

def errStr : Err → String
  | .shapeMismatch => "shape-mismatch"
  | .dataInvalid => "data-invalid"
  | .assertion => "assertion"
  | .valueError => "value-error"

def getOptRat (j : Json) : Except String (Option Rat) :=
  match j with
  | .null => pure none
  | v => do let q ← getRat v; pure (some q)

def getOptList {α} (f : Json → Except String α) (req : Json) (k : String) :
    Except String (Option (List α)) :=
  match fieldOpt req k with
  | none => pure none
  | some j => do let l ← getList f j; pure (some l)

def fvJson : FV → Json := optJson ratJson

def reply {α} (f : α → Json) : Except Err α → Json
  | .ok a => okJson (f a)
  | .error e => errJson (errStr e)

def unary : String → Except String (Rat → Rat)
  | "negative" => pure (fun x => -x)
  | "square" => pure (fun x => x * x)
  | "absolute" => pure absR
  | s => throw s!"bad-ufunc {s}"

def binary : String → Except String (Rat × Rat → Rat)
  | "add" => pure (fun p => p.1 + p.2)
  | "subtract" => pure (fun p => p.1 - p.2)
  | "multiply" => pure (fun p => p.1 * p.2)
  | s => throw s!"bad-ufunc {s}"

def getPair (j : Json) : Except String (Rat × Rat) := do
  match ← getArr j with
  | [a, b] => do pure (← getRat a, ← getRat b)
  | _ => throw "pair expected"

def handle (op : String) (req : Json) : Except String Json := do
  match op with
  | "masked1" =>
    let f ← unary (← getStr (← field req "ufunc"))
    let mask ← getList getBool (← field req "mask")
    let args ← getList getRat (← field req "args")
    let out ← getOptList getRat req "out"
    let g ← getList getRat (← field req "g")
    pure (reply (listJson ratJson) (maskedApply f mask args out g))
  | "masked2" =>
    let f ← binary (← getStr (← field req "ufunc"))
    let mask ← getList getBool (← field req "mask")
    let args ← getList getPair (← field req "args")
    let out ← getOptList getRat req "out"
    let g ← getList getRat (← field req "g")
    pure (reply (listJson ratJson) (maskedApply f mask args out g))
  | "entropy" =>
    -- `lgv[i]` is the value of the logarithm at `p[i]` (consulted only where `p[i] > 0`)
    let p ← getList getRat (← field req "p")
    let lgv ← getList getOptRat (← field req "lgv")
    let table := p.zip lgv
    let lg : Rat → FV := fun x => match table.find? (fun e => e.1 == x) with
      | some e => e.2
      | none => none
    let gl ← getList getOptRat (← field req "g")
    -- heap content of the allocated blocks: cell k holds gl[k] (NaN beyond the list)
    let g : Nat → FV := fun k => match gl[k]? with
      | some v => v
      | none => none
    let withOut ← getBool (← field req "with_out")
    pure (reply fvJson (if withOut then shannonEntropy lg p g else shannonEntropyNoOut lg p g))
  | "manhattan" =>
    let X ← getList (getList getRat) (← field req "X")
    let ncols ← getNat (← field req "ncols")
    let y ← getList getRat (← field req "y")
    let out ← getOptList getRat req "out"
    pure (reply (listJson ratJson) (manhattan X ncols y out (fun k => (k : Rat) + 17)))
  | "euclidean2" =>
    -- `sqrtF := id`: the squared distances (the caller applies the correctly rounded sqrt)
    let X ← getList (getList getRat) (← field req "X")
    let ncols ← getNat (← field req "ncols")
    let y ← getList getRat (← field req "y")
    let out ← getOptList getRat req "out"
    pure (reply (listJson ratJson) (euclidean id X ncols y out (fun k => (k : Rat) + 17)))
  | "hamming" =>
    let X ← getList (getList getRat) (← field req "X")
    let ncols ← getNat (← field req "ncols")
    let y ← getList getRat (← field req "y")
    let out ← getOptList getRat req "out"
    pure (reply (listJson fvJson) (hamming X ncols y out (fun k => (k : Rat) + 17)))
  | "bincount" =>
    let a ← getList (getList getInt) (← field req "a")
    let fa ← getNat (← field req "fa")
    let b ← getList (getList getInt) (← field req "b")
    let fb ← getNat (← field req "fb")
    let na ← getNat (← field req "na")
    let nb ← getNat (← field req "nb")
    pure (reply (listJson (listJson (listJson (listJson natJson))))
      (matrixBincount2d a fa b fb na nb (fun k => 1000 + k)))
  | _ => throw s!"bad-op C19.{op}"

end Drv.C19
