import Driver.Json
open Lean Drv

namespace Drv.C08

def handle (op : String) (_req : Json) : Except String Json :=
  throw s!"bad-op C08.{op}"

end Drv.C08
