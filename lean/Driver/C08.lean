import Driver.Json
import Driver.C07
import Model.Tpt
open Lean Drv Ens Ens.Tpt

namespace Drv.C08
open Drv.C07 (getMat getVec vecJson matJson errStr)

/-- `tpt`: everything `tpt.py` computes for one `(T, sources, sinks, populations)`:
forward committors, reactive fluxes, net fluxes, reactive populations.  `pi` absent means
`populations=None` (the exact stand-in for `eq_probs` is used). -/
def handle (op : String) (req : Json) : Except String Json := do
  match op with
  | "tpt" =>
    let (n, T) ← getMat (← field req "T")
    let so ← getList getNat (← field req "sources")
    let si ← getList getNat (← field req "sinks")
    let pi ← match fieldOpt req "pi" with
      | some j => do let v ← getVec n j; pure (Except.ok v)
      | none => pure (eqProbs n T)
    match pi with
    | .error e => pure (errJson (errStr e))
    | .ok p =>
      match reactiveFluxes n T so si p, netFluxes n T so si p with
      | .ok f, .ok g =>
        let pop := match reactivePopulations n T so si p with
          | .ok r => vecJson n r
          | .error e => errJson (errStr e)
        pure (okJson (Json.mkObj [("pi", vecJson n p), ("flux", matJson n n f),
                                  ("net", matJson n n g), ("pop", pop)]))
      | .error e, _ => pure (errJson (errStr e))
      | _, .error e => pure (errJson (errStr e))
  | "eq_probs" => Drv.C07.handle "eq_probs" req      -- exact stationary vector (same code as C07.eq_probs)
  | _ => throw s!"bad-op C08.{op}"

end Drv.C08
