import Driver.Json
import Model.Paths
open Lean Drv Ens Ens.Paths

namespace Drv.C17

def errStr : Err → String
  | .indexError => "index-error"
  | .valueError => "value-error"
  | .outOfFuel => "out-of-fuel"

def extJson : Ext → Json
  | .ninf => Json.str "-inf"
  | .pinf => Json.str "inf"
  | .fin v => natJson v

/-- flux matrix from its rows; entries outside the given rows read as 0 (never read by the model
for indices `< n`) -/
def matFn (rows : List (List Nat)) : Nat → Nat → Nat :=
  let a : Array (Array Nat) := (rows.map List.toArray).toArray
  fun i j => match a[i]? with
    | none => 0
    | some r => match r[j]? with
      | none => 0
      | some x => x

def getScheme (j : Json) : Except String Scheme := do
  match ← getStr j with
  | "subtract" => pure .subtract
  | "bottleneck" => pure .bottleneck
  | s => throw s!"bad scheme {s}"

def handle (op : String) (req : Json) : Except String Json := do
  match op with
  | "top_path" =>
    let rows ← getList (getList getNat) (← field req "flux")
    let sources ← getList getNat (← field req "sources")
    let sinks ← getList getNat (← field req "sinks")
    match topPath rows.length (matFn rows) sources sinks with
    | .error e => pure (errJson (errStr e))
    | .ok (p, fl) => pure (okJson (Json.mkObj [("path", listJson natJson p), ("flux", extJson fl)]))
  | "paths" =>
    let rows ← getList (getList getNat) (← field req "flux")
    let sources ← getList getNat (← field req "sources")
    let sinks ← getList getNat (← field req "sinks")
    let scheme ← getScheme (← field req "scheme")
    let numPaths ← match fieldOpt req "num_paths" with
      | none => pure none
      | some j => do let k ← getNat j; pure (some k)
    let (cn, cd) ← match (← field req "cutoff") with
      | .arr #[a, b] => do
          let a ← a.getInt?
          let b ← b.getNat?
          if b = 0 then throw "zero denominator" else pure (a, b)
      | _ => throw "cutoff must be [num, den]"
    match paths rows.length (matFn rows) sources sinks scheme numPaths cn cd with
    | .error e => pure (errJson (errStr e))
    | .ok r => pure (okJson (listJson
        (fun pf => Json.mkObj [("path", listJson natJson pf.1), ("flux", natJson pf.2)]) r))
  | _ => throw s!"bad-op C17.{op}"

end Drv.C17
