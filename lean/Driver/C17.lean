import Driver.Json
open Lean Drv

namespace Drv.C17

def handle (op : String) (_req : Json) : Except String Json :=
  throw s!"bad-op C17.{op}"

end Drv.C17
