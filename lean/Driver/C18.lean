import Driver.Json
import Model.Info
open Lean Drv Ens Ens.Info

namespace Drv.C18

def errStr : Err → String
  | .assertion => "assertion"
  | .valueError => "value-error"
  | .dataInvalid => "data-invalid"
  | .overflowError => "overflow-error"
  | .runtimeError => "runtime-error"

/-- `{"rows": [[..],..], "T": n, "F": n, "dt": [bits, signed]}` -/
def getArr2 (j : Json) : Except String Arr := do
  let rows ← getList (getList getInt) (← field j "rows")
  let T ← getNat (← field j "T")
  let F ← getNat (← field j "F")
  if rows.length ≠ T ∨ rows.any (·.length ≠ F) then throw "bad array shape"
  let arr := (rows.map List.toArray).toArray
  pure { T := T, F := F, get := fun t f => (arr.getD t #[]).getD f 0 }

def getTArr (j : Json) : Except String TArr := do
  let a ← getArr2 j
  match ← getArr (← field j "dt") with
  | [b, s] => pure { dt := { bits := ← getNat b, signed := ← getBool s }, arr := a }
  | _ => throw "bad dtype"

def getOptIntField (req : Json) (k : String) : Except String (Option Int) :=
  match fieldOpt req k with
  | none => pure none
  | some v => do let i ← getInt v; pure (some i)

def termJson (t : Info.Term) : Json := Json.arr #[ratJson t.1, ratJson t.2]

def getStates (j : Json) : Except String (Int ⊕ List Int) :=
  match j with
  | .arr _ => do let l ← getList getInt j; pure (.inr l)
  | v => do let i ← getInt v; pure (.inl i)

/-- a 4-D nested list of naturals as a `JC` (array-backed: O(1) cell lookups) -/
def jcOfLists (l : List (List (List (List Nat)))) (nA nB : Int) : JC :=
  let arr := (l.map fun r => (r.map fun t => (t.map List.toArray).toArray).toArray).toArray
  let Fb := match l with
    | [] => 0
    | r :: _ => r.length
  { Fa := l.length, Fb := Fb, nA := nA, nB := nB,
    cnt := fun x y i j => if i < 0 ∨ j < 0 then 0 else
      ((((arr.getD x #[]).getD y #[]).getD i.toNat #[]).getD j.toNat 0) }

def getJC (j : Json) (nA nB : Nat) : Except String JC := do
  let l ← getList (getList (getList (getList getNat))) j
  pure (jcOfLists l nA nB)

def jcResp (r : Except Err JC) : Json :=
  match r with
  | .error e => errJson (errStr e)
  | .ok j => okJson (listJson (listJson (listJson (listJson natJson))) j.toLists)

def handle (op : String) (req : Json) : Except String Json := do
  match op with
  | "jc" =>
    -- joint_counts(X, Y, n_x, n_y)
    let X ← getTArr (← field req "X")
    let Y ← match fieldOpt req "Y" with
      | none => pure none
      | some y => do let y ← getTArr y; pure (some y)
    let nx ← getOptIntField req "n_x"
    let ny ← getOptIntField req "n_y"
    pure (jcResp (jointCounts X Y nx ny))
  | "bincount" =>
    -- libinfo.matrix_bincount2d(a, b, n_a, n_b), optionally under a schedule of the prange
    let a ← getTArr (← field req "a")
    let b ← getTArr (← field req "b")
    let na ← getInt (← field req "n_a")
    let nb ← getInt (← field req "n_b")
    match fieldOpt req "choices" with
    | none => pure (jcResp (matrixBincount2dTyped a b na nb))
    | some c =>
      let choices ← getList getNat c
      pure (jcResp (matrixBincount2dSched choices a.arr b.arr na nb))
  | "bincount1" =>
    -- libinfo.bincount2d(a, b, n_a, n_b): 1-D arrays travel as (T, 1) columns
    let a ← getTArr (← field req "a")
    let b ← getTArr (← field req "b")
    let na ← getInt (← field req "n_a")
    let nb ← getInt (← field req "n_b")
    if a.arr.F ≠ 1 ∨ b.arr.F ≠ 1 then throw "bincount1 expects columns"
    match (do let na ← toCInt na; let nb ← toCInt nb; bincount2d a.arr b.arr na nb) with
    | .error e => pure (errJson (errStr e))
    | .ok h => pure (okJson (listJson (listJson natJson) h.toLists))
  | "mi" =>
    let na ← getNat (← field req "n_a")
    let nb ← getNat (← field req "n_b")
    let jc ← getJC (← field req "jc") na nb
    pure (okJson (listJson (listJson (listJson termJson)) (mutualInformationTerms jc)))
  | "mi_matrix" =>
    let trajs ← getList (fun j => do
      let x ← getTArr (← field j "X")
      let y ← getTArr (← field j "Y")
      pure (x, y)) (← field req "trajs")
    let nx ← getInt (← field req "n_x")
    let ny ← getInt (← field req "n_y")
    match miMatrixCounts trajs nx ny with
    | .error e => pure (errJson (errStr e))
    | .ok jc =>
      -- materialise the accumulated table once (the model's table is a closure over the schedule;
      -- `miCell` re-reads the whole table for every cell)
      let lists := jc.toLists
      let jc' := jcOfLists lists jc.nA jc.nB
      pure (okJson (Json.mkObj [
        ("jc", listJson (listJson (listJson (listJson natJson))) lists),
        ("terms", listJson (listJson (listJson termJson)) (mutualInformationTerms jc'))]))
  | "entropy" =>
    let p ← getList getRat (← field req "p")
    let nz ← getBool (← field req "normalize")
    match entropyTerms p nz with
    | .error e => pure (errJson (errStr e))
    | .ok ts => pure (okJson (listJson termJson ts))
  | "kl" =>
    let P ← getList getRat (← field req "P")
    let Q ← getList getRat (← field req "Q")
    match klTerms P Q with
    | .error e => pure (errJson (errStr e))
    | .ok .inf => pure (okJson (Json.str "inf"))
    | .ok (.terms ts) => pure (okJson (listJson termJson ts))
  | "ccn" =>
    let rows ← getNat (← field req "rows")
    let cols ← getNat (← field req "cols")
    let nx ← getStates (← field req "n_x")
    let ny ← getStates (← field req "n_y")
    match channelCapacityArgs rows cols nx ny with
    | .error e => pure (errJson (errStr e))
    | .ok g => pure (okJson (listJson (listJson intJson) g))
  | "wmi" =>
    let X ← getArr2 (← field req "X")
    let w ← getList getRat (← field req "w")
    let nfs ← match fieldOpt req "nfs" with
      | none => pure none
      | some j => do let l ← getList getInt j; pure (some l)
    match weightedMi X w nfs with
    | .error e => pure (errJson (errStr e))
    | .ok r => pure (okJson (Json.mkObj [
        ("terms", listJson (listJson (listJson termJson)) r.terms),
        ("states", listJson intJson r.states)]))
  | _ => throw s!"bad-op C18.{op}"

end Drv.C18
