import Driver.Json
open Lean Drv

namespace Drv.C18

def handle (op : String) (_req : Json) : Except String Json :=
  throw s!"bad-op C18.{op}"

end Drv.C18
