import Driver.Json
import Model.Msm
open Lean Drv Ens Ens.Counts Ens.Msm

namespace Drv.C16

def errStr : Msm.Err → String
  | .dataInvalid => "data-invalid"
  | .valueError => "value-error"
  | .indexError => "index-error"
  | .attributeError => "attribute-error"
  | .assertion => "assertion"
  | .stage => "stage"
  | .codec => "codec"
  | .nan => "nan"

def dictJson (d : Dict) : Json := listJson (fun p => Json.arr #[intJson p.1, intJson p.2]) d
def matJson (m : List (List Rat)) : Json := listJson (listJson ratJson) m

def getCx (j : Json) : Except String Cx := do
  match j with
  | .arr #[a, b] => pure ⟨← getRat a, ← getRat b⟩
  | _ => throw "complex = [re, im]"

def fnOfList (l : List Rat) : Nat → Rat := fun i => l.getD i 0
def fnOfMat (m : List (List Rat)) : Nat → Nat → Rat := fun i j => (m.getD i []).getD j 0

/-- run `mkMSM … >>= fit` for one builder instance and render the result -/
def runFit {C T P : Type} (builder : Builder C T P) (nm : String) (byName : Bool)
    (lag : Int) (trim sliding : Bool) (maxN : Option Nat) (trimF : Trimmer) (rows : List (List Int))
    (render : Fit C T P → Json) : Json :=
  let table : String → Option (Builder C T P) := fun s => if s = nm then some builder else none
  let arg : MethodArg (Builder C T P) := if byName then .name nm else .callable builder
  match (do let m ← mkMSM table lag arg trim sliding maxN
            let f ← m.fit trimF rows
            pure (m, f)) with
  | .error e => errJson (errStr e)
  | .ok (m, f) => okJson (Json.mkObj [
      ("mapping", dictJson f.mapping.toOriginal),
      ("stored", Json.mkObj [("lag_time", intJson m.lagTime), ("trim", Json.bool m.trim),
                             ("sliding_window", Json.bool m.slidingWindow),
                             ("max_n_states", optJson natJson m.maxNStates)]),
      ("fit", render f)])

def idCodec (α : Type) : Codec α α := { enc := fun a => pure a, dec := fun a => pure a }

def handle (op : String) (req : Json) : Except String Json := do
  match op with
  | "fit" =>
    let rows ← getList (getList getInt) (← field req "rows")
    let lag ← getInt (← field req "lag")
    let sl ← getBool (← field req "sliding")
    let trim ← getBool (← field req "trim")
    let byName ← getBool (← field req "by_name")
    let meth ← getStr (← field req "method")
    let maxN ← match fieldOpt req "max_n" with
      | none => pure none
      | some j => do let n ← getNat j; pure (some n)
    let keep ← match fieldOpt req "keep" with
      | none => pure []
      | some j => getList getNat j
    let trimF : Trimmer := trimTo keep
    match meth with
    | "normalize" =>
      pure (runFit normalizeQ meth byName lag trim sl maxN trimF rows fun f =>
        Json.mkObj [("tcounts", matJson f.tcounts), ("tprobs", matJson f.tprobs)])
    | "transpose" =>
      pure (runFit transposeQ meth byName lag trim sl maxN trimF rows fun f =>
        Json.mkObj [("tcounts", matJson f.tcounts), ("tprobs", matJson f.tprobs),
                    ("eq", listJson (optJson ratJson) f.eqProbs)])
    | "counts" =>
      pure (runFit countsOnly meth byName lag trim sl maxN trimF rows fun f =>
        Json.mkObj [("tcounts", matJson f.tcounts)])
    | "missing" =>
      -- a name that is not in the builders table
      match mkMSM (F := Builder Unit Unit Unit) (fun _ => none) lag (.name meth) trim sl maxN with
      | .error e => pure (errJson (errStr e))
      | .ok _ => pure (okJson Json.null)
    | _ => throw s!"bad-method {meth}"
  | "mapping" =>
    -- pairs = (original, trimmed) as given to the constructor
    let ps ← getList (fun j => do
      match j with
      | .arr #[a, b] => pure ((← getInt a), (← getInt b))
      | _ => throw "pair") (← field req "pairs")
    let m := TrimMapping.ofTransformations ps
    let csv := m.write toString
    match TrimMapping.read String.toInt? csv with
    | .error e => pure (errJson (errStr e))
    | .ok m' => pure (okJson (Json.mkObj [
        ("to_original", dictJson m.toOriginal),
        ("to_mapped", dictJson m.toMapped),
        ("csv", listJson (listJson Json.str) csv),
        ("read", dictJson m'.toOriginal),
        ("eq", Json.bool (m'.beq m))]))
  | "readcsv" =>
    let csv ← getList (getList getStr) (← field req "csv")
    match TrimMapping.read String.toInt? csv with
    | .error e => pure (errJson (errStr e))
    | .ok m' => pure (okJson (dictJson m'.toOriginal))
  | "saveload" =>
    let lag ← getInt (← field req "lag")
    let sl ← getBool (← field req "sliding")
    let trim ← getBool (← field req "trim")
    let meth ← getStr (← field req "method")
    let maxN ← match fieldOpt req "max_n" with
      | none => pure none
      | some j => do let n ← getNat j; pure (some n)
    let ps ← getList (fun j => do
      match j with
      | .arr #[a, b] => pure ((← getInt a), (← getInt b))
      | _ => throw "pair") (← field req "pairs")
    let cd : Codecs String Unit Unit Unit (Config String) Unit Unit Unit :=
      { config := idCodec _, tcounts := idCodec _, tprobs := idCodec _, eqProbs := idCodec _,
        print := toString, parse := String.toInt? }
    match (do let m ← mkMSM (fun _ => none) lag (.callable meth) trim sl maxN
              let fitted : Fitted String Unit Unit Unit :=
                { msm := m, fit := { mapping := TrimMapping.ofTransformations ps,
                                     tcounts := (), tprobs := (), eqProbs := () } }
              let s ← save cd fitted
              let l ← load cd s
              pure (fitted, l)) with
    | .error e => pure (errJson (errStr e))
    | .ok (a, b) => pure (okJson (Json.mkObj [
        ("lag_time", intJson b.msm.lagTime), ("trim", Json.bool b.msm.trim),
        ("sliding_window", Json.bool b.msm.slidingWindow), ("method", Json.str b.msm.method),
        ("max_n_states", optJson natJson b.msm.maxNStates),
        ("mapping", dictJson b.fit.mapping.toOriginal),
        ("mapping_eq", Json.bool (b.fit.mapping.beq a.fit.mapping))]))
  | "eigpost" =>
    let n ← getNat (← field req "n")
    let nEigs ← match fieldOpt req "n_eigs" with
      | none => pure none
      | some j => do let k ← getInt j; pure (some k)
    let vals ← getList getCx (← field req "vals")
    let cols ← getList (getList getCx) (← field req "cols")
    match (do let k ← resolveNEigs n nEigs
              eigPost k vals cols) with
    | .error e => pure (errJson (errStr e))
    | .ok (v, c) => pure (okJson (Json.mkObj [
        ("vals", listJson ratJson v), ("cols", matJson c),
        ("order", listJson natJson (argsortDesc vals))]))
  | "ntimes" =>
    let ns ← getNat (← field req "n_states")
    let nt ← match fieldOpt req "n_times" with
      | none => pure none
      | some j => do let k ← getNat j; pure (some k)
    pure (okJson (natJson (impNTimes ns nt)))
  | "ensemble" =>
    let T ← getList (getList getRat) (← field req "T")
    let p ← getList getRat (← field req "p")
    let steps ← getInt (← field req "n_steps")
    let n := p.length
    let (last, obs) := syntheticEnsemble n (fnOfMat T) (fnOfList p) steps
    pure (okJson (Json.mkObj [
      ("p", listJson ratJson (tabulate n last)),
      ("obs", listJson (fun o => listJson ratJson (tabulate n o)) obs)]))
  | _ => throw s!"bad-op C16.{op}"

end Drv.C16
