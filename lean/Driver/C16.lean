import Driver.Json
open Lean Drv

namespace Drv.C16

def handle (op : String) (_req : Json) : Except String Json :=
  throw s!"bad-op C16.{op}"

end Drv.C16
