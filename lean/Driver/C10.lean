import Driver.Json
import Model.Assign
open Lean Drv Ens Ens.Assign

namespace Drv.C10

def errStr : Err → String
  | .dataInvalid => "data-invalid"
  | .indexError => "index-error"
  | .valueError => "value-error"
  | .improperlyConfigured => "improperly-configured"

def getERat (j : Json) : Except String ERat :=
  match j with
  | .null => pure none
  | v => do let q ← getRat v; pure (some q)

def eratJson : ERat → Json
  | none => Json.null
  | some q => ratJson q

/-- a rectangular table `n × k` of rationals as an index function; shape is validated here so
the out-of-range default is never read by the model inside `n × k`. -/
def getTable (req : Json) (n k : Nat) : Except String (Nat → Nat → Rat) := do
  let rows ← getList (getList getRat) (← field req "table")
  if rows.length ≠ n then throw "bad table: number of rows"
  if rows.any (fun r => r.length ≠ k) then throw "bad table: row length"
  let arr := rows.toArray.map (·.toArray)
  pure fun f c => (arr.getD f #[]).getD c 0

def partsJson {α} (f : α → Json) : Parts α → Json
  | .square rows => Json.mkObj [("type", Json.str "ndarray"), ("rows", listJson (listJson f) rows)]
  | .ragged data lens rows =>
    Json.mkObj [("type", Json.str "RaggedArray"), ("data", listJson f data),
                ("lengths", listJson natJson lens), ("rows", listJson (listJson f) rows)]

def pairJson (p : Nat × Int) : Json := Json.arr #[natJson p.1, intJson p.2]

def labDistJson (p : Nat × ERat) : Json := Json.arr #[natJson p.1, eratJson p.2]

def handle (op : String) (req : Json) : Except String Json := do
  match op with
  | "assign" =>
    let n ← getNat (← field req "n")
    let k ← getNat (← field req "k")
    let x ← getBool (← field req "has_xyz")
    let D ← getTable req n k
    let s := assignNearest D n k x
    pure (okJson (Json.mkObj [("labels", listJson natJson (tabulate n s.lab)),
                              ("dists", listJson eratJson (tabulate n s.dist))]))
  | "predict" =>
    let n ← getNat (← field req "n")
    let k ← getNat (← field req "k")
    let x ← getBool (← field req "has_xyz")
    let D ← getTable req n k
    match predict D n k x with
    | .error e => pure (errJson (errStr e))
    | .ok (labs, ds, cs) =>
      pure (okJson (Json.mkObj [("labels", listJson natJson labs), ("dists", listJson eratJson ds),
                                ("centers", listJson natJson cs)]))
  | "find_centers" =>
    let a ← getList getInt (← field req "assignments")
    let d ← getList getERat (← field req "distances")
    let aa := a.toArray
    let da := d.toArray
    match findClusterCenters a.length (fun f => aa.getD f 0) d.length (fun f => da.getD f none) with
    | .error e => pure (errJson (errStr e))
    | .ok cs => pure (okJson (listJson natJson cs))
  | "partition_list" =>
    let l ← getList getInt (← field req "l")
    let lens ← getList getNat (← field req "lens")
    match partitionList l lens with
    | .error e => pure (errJson (errStr e))
    | .ok ps => pure (okJson (listJson (listJson intJson) ps))
  | "partition_indices" =>
    let inds ← getList getInt (← field req "inds")
    let lens ← getList getNat (← field req "lens")
    pure (okJson (listJson pairJson (partitionIndices inds lens)))
  | "partition" =>
    let a ← getList getInt (← field req "assignments")
    let d ← getList getERat (← field req "distances")
    let ci ← getList getInt (← field req "center_indices")
    let lens ← getList getNat (← field req "lens")
    match partition a d ci lens with
    | .error e => pure (errJson (errStr e))
    | .ok r =>
      pure (okJson (Json.mkObj [("assignments", partsJson intJson r.assignments),
                                ("distances", partsJson eratJson r.distances),
                                ("center_indices", listJson pairJson r.centerIndices)]))
  | "compute_batches" =>
    let lens ← getList getNat (← field req "lens")
    let b ← getNat (← field req "batch_size")
    pure (okJson (listJson (listJson natJson) (computeBatches lens b)))
  | "batch_reassign" =>
    let lens ← getList getNat (← field req "lens")
    let k ← getNat (← field req "k")
    let x ← getBool (← field req "has_xyz")
    let b ← getNat (← field req "batch_size")
    let D ← getTable req lens.sum k
    match batchReassign D lens k x b with
    | .error e => pure (errJson (errStr e))
    | .ok ps => pure (okJson (listJson (listJson labDistJson) ps))
  | _ => throw s!"bad-op C10.{op}"

end Drv.C10
