import Driver.Json
open Lean Drv

namespace Drv.C10

def handle (op : String) (_req : Json) : Except String Json :=
  throw s!"bad-op C10.{op}"

end Drv.C10
