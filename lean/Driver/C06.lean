import Driver.Json
open Lean Drv

namespace Drv.C06

def handle (op : String) (_req : Json) : Except String Json :=
  throw s!"bad-op C06.{op}"

end Drv.C06
