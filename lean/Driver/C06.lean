import Driver.Json
import Model.RaggedW
open Lean Drv Ens Ens.RaggedW

/-! Driver for C06: runs a whole history through `Ens.RaggedW.step` (model of the code) and
through `Ens.RaggedW.specStep` (list-of-rows specification) and reports every observer after
every step.  Elements are `Rat` (ints, dyadic floats, booleans as 0/1). -/
namespace Drv.C06

def errStr : Err → String
  | .indexError => "index-error"
  | .valueError => "value-error"
  | .dataInvalid => "data-invalid"
  | .garbled => "garbled"
  | .emptyArray => "empty-array"
  | .notRagged => "not-ragged"

def getSlice (j : Json) : Except String PySlice := do
  match ← getArr j with
  | [a, b, c] => pure { start := ← getOptInt a, stop := ← getOptInt b, step := ← getOptInt c }
  | _ => throw "slice needs [start, stop, step]"

def getSel (j : Json) : Except String Sel :=
  match fieldOpt j "slice" with
  | some s => do pure (.slice (← getSlice s))
  | none => do pure (.list (← getList getInt (← field j "list")))

def getCSel (j : Json) : Except String CSel :=
  match fieldOpt j "slice", fieldOpt j "int" with
  | some s, _ => do pure (.slice (← getSlice s))
  | none, some i => do pure (.int (← getInt i))
  | none, none => do pure (.list (← getList getInt (← field j "list")))

def getVal (j : Json) : Except String (Val Rat) := do
  let vt ← getStr (← field j "vt")
  let v ← field j "v"
  match vt with
  | "scalar" => pure (.scalar (← getRat v))
  | "flat" => pure (.flat (← getList getRat v))
  | "nested" => pure (.nested (← getList (getList getRat) v))
  | _ => throw s!"bad value type {vt}"

def getForm (j : Json) : Except String Form := do
  match ← getStr j with
  | "ra" => pure .ra
  | "listarr" => pure .listarr
  | "listlist" => pure .listlist
  | "arr2d" => pure .arr2d
  | f => throw s!"bad form {f}"

def b2r (b : Bool) : Rat := if b then 1 else 0
def fdiv (x y : Rat) : Rat := ((x / y).floor : Int)
def fmod (x y : Rat) : Rat := x - y * fdiv x y

/-- binary element functions by name (`self ⊕ other`) -/
def binFn (name : String) : Except String (Rat → Rat → Rat) :=
  match name with
  | "add" => pure (· + ·)
  | "sub" => pure (· - ·)
  | "mul" => pure (· * ·)
  | "truediv" => pure (· / ·)
  | "floordiv" => pure fdiv
  | "mod" => pure fmod
  | "eq" => pure fun x y => b2r (x == y)
  | "ne" => pure fun x y => b2r (x != y)
  | "lt" => pure fun x y => b2r (x < y)
  | "le" => pure fun x y => b2r (x ≤ y)
  | "gt" => pure fun x y => b2r (x > y)
  | "ge" => pure fun x y => b2r (x ≥ y)
  | "or" => pure fun x y => b2r (x != 0 || y != 0)       -- boolean operands only
  | "and" => pure fun x y => b2r (x != 0 && y != 0)
  | "xor" => pure fun x y => b2r ((x != 0) != (y != 0))
  | n => throw s!"bad element function {n}"

/-- unary element function of an op: `f` with scalar `c` (possibly reflected), or invert -/
def unFn (j : Json) : Except String (Rat → Rat) := do
  let name ← getStr (← field j "f")
  match name with
  | "invert-bool" => pure fun x => 1 - x
  | "invert-int" => pure fun x => -x - 1
  | _ =>
    let g ← binFn name
    let c ← getRat (← field j "s")
    let refl := match fieldOpt j "refl" with
      | some (.bool true) => true
      | _ => false
    pure (if refl then fun x => g c x else fun x => g x c)

def getOp (j : Json) : Except String (Op Rat) := do
  let k ← getStr (← field j "k")
  match k with
  | "setElem" => pure (.setElem (← getInt (← field j "i")) (← getInt (← field j "j")) (← getRat (← field j "v")))
  | "viewWrite" => pure (.viewWrite (← getInt (← field j "i")) (← getInt (← field j "j")) (← getRat (← field j "v")))
  | "setRow" => pure (.setRow (← getInt (← field j "i")) (← getList getRat (← field j "v")))
  | "setRows" => pure (.setRows (← getSel (← field j "sel")) (← getList (getList getRat) (← field j "v"))
                        (← getForm (← field j "form")))
  | "setIntSlice" => pure (.setIntSlice (← getInt (← field j "i")) (← getSlice (← field j "sl")) (← getVal j))
  | "set2d" => pure (.set2d (← getSel (← field j "r")) (← getCSel (← field j "c")) (← getVal j))
  | "setPaired" => pure (.setPaired (← getList getInt (← field j "r")) (← getList getInt (← field j "c")) (← getVal j))
  | "setMask" => pure (.setMask (← getList (getList getBool) (← field j "mask")) (← getVal j))
  | "append" => pure (.append (← getList (getList getRat) (← field j "v")) (← getForm (← field j "form")))
  | "appendFlat" => pure (.appendFlat (← getList getRat (← field j "v")))
  | "iop" => pure (.iop (← unFn j))
  | "iop2" => pure (.iop2 (← binFn (← getStr (← field j "f"))) (← getList (getList getRat) (← field j "o")))
  | "iopAt" => pure (.iopAt (← getSel (← field j "r")) (← getCSel (← field j "c")) (← unFn j))
  | "binop" => pure (.binop (← unFn j))
  | "binop2" => pure (.binop2 (← binFn (← getStr (← field j "f"))) (← getList (getList getRat) (← field j "o")))
  | "npLeft" => pure (.npLeft (← unFn j) (← getBool (← field j "rebind")))
  | "copyCtor" => pure (.copyCtor (← getBool (← field j "viaFlat")) (← getBool (← field j "np")))
  | _ => throw s!"bad C06 op kind {k}"

def rowsJson (rows : List (List Rat)) : Json := listJson (listJson ratJson) rows

def maxOf : List Rat → Option Rat
  | [] => none
  | x :: xs => some (xs.foldl (fun m y => if m < y then y else m) x)

def minOf : List Rat → Option Rat
  | [] => none
  | x :: xs => some (xs.foldl (fun m y => if y < m then y else m) x)

def obsJson (cfg : Cfg) (s : State Rat) : Json :=
  let elems : Json := Json.arr ((List.range s.lengths.length).map fun (i : Nat) =>
    Json.arr ((List.range (s.lengths.getD i 0)).map fun (j : Nat) =>
      match obsElem s (Int.ofNat i) (Int.ofNat j) with
      | .ok x => ratJson x
      | .error e => Json.str (errStr e)).toArray).toArray
  Json.mkObj [
    ("_data", listJson ratJson (obsFlat s)),
    ("lengths", listJson natJson (obsLengths s)),
    ("_array", rowsJson s.array),
    ("starts", listJson natJson (obsStarts s)),
    ("len", natJson (obsLen s)),
    ("size", natJson (obsSize s)),
    ("iter", rowsJson (obsIter s)),
    ("elems", elems),
    ("max", optJson ratJson (maxOf s.data)),
    ("min", optJson ratJson (minOf s.data)),
    ("all", Json.bool (obsReduce s (fun b x => b && x != 0) true)),
    ("any", Json.bool (obsReduce s (fun b x => b || x != 0) false)),
    ("objdtype", Json.bool s.objDtype),
    ("kind", Json.str (match s.kind cfg with | .ragged => "ragged" | .objBlock => "objBlock" | .typedBlock => "typedBlock"))]

def getCfg (j : Json) : Except String Cfg := do
  pure { readsFix := ← getBool (← field j "reads"),
         rowViewsFix := ← getBool (← field j "rowviews"),
         arrayViewsFix := ← getBool (← field j "arrayviews"),
         appendFix := ← getBool (← field j "append"),
         priorityFix := ← getBool (← field j "priority"),
         appendEmptyFix := ← getBool (← field j "appendempty") }

def initState (cfg : Cfg) (rows : List (List Rat)) (ctor : String) : Except String (Except Err (State Rat)) :=
  match ctor with
  | "nested" | "lists" => pure (initRows rows)
  | "flat" => pure (initFlat cfg rows.flatten (rows.map List.length) false)
  | "flat-np" => pure (initFlat cfg rows.flatten (rows.map List.length) true)
  | c => throw s!"bad ctor {c}"

/-- run the history; a pseudo-op `{"k":"resync","rows":…}` restarts model and spec from the
given rows (the harness does the same with the real object after a known deviation). -/
def runHistory (cfg : Cfg) (s0 : State Rat) (ops : List Json) : Except String (List Json) := do
  let mut s := s0
  let mut rows := s0.array
  let mut out : List Json := []
  for j in ops do
    let k ← getStr (← field j "k")
    if k == "resync" then
      let r ← getList (getList getRat) (← field j "rows")
      match initRows r with
      | .ok s' =>
        s := s'
        rows := r
      | .error e => throw s!"resync failed: {errStr e}"
      out := out ++ [Json.mkObj [("resync", Json.bool true)]]
    else
      let op ← getOp j
      let m : Json := match step cfg s op with
        | .error e => Json.mkObj [("err", Json.str (errStr e))]
        | .ok (s', o) => Json.mkObj [("state", obsJson cfg s'), ("out", optJson (obsJson cfg) o)]
      let sp : Json := match specStep rows op with
        | .error e => Json.mkObj [("err", Json.str (errStr e))]
        | .ok (r', o) => Json.mkObj [("rows", rowsJson r'), ("out", optJson rowsJson o)]
      match step cfg s op with
      | .ok (s', _) => s := s'
      | .error _ => pure ()
      match specStep rows op with
      | .ok (r', _) => rows := r'
      | .error _ => pure ()
      out := out ++ [Json.mkObj [("model", m), ("spec", sp)]]
  pure out

def handle (op : String) (req : Json) : Except String Json := do
  match op with
  | "run" =>
    let cfg ← getCfg (← field req "cfg")
    let init ← field req "init"
    let rows ← getList (getList getRat) (← field init "rows")
    let ctor ← getStr (← field init "ctor")
    match ← initState cfg rows ctor with
    | .error e => pure (errJson (errStr e))
    | .ok s0 =>
      let steps ← runHistory cfg s0 (← getArr (← field req "ops"))
      pure (okJson (Json.mkObj [("init", obsJson cfg s0), ("steps", Json.arr steps.toArray)]))
  | _ => throw s!"bad-op C06.{op}"

end Drv.C06
