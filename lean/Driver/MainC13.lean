import Driver.Loop
import Driver.C13
/-! per-property driver executable: a broken handler of another property cannot affect this one -/
def main : IO Unit := Drv.mainLoop "C13" Drv.C13.handle
