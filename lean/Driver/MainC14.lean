import Driver.Loop
import Driver.C14
/-! per-property driver executable: a broken handler of another property cannot affect this one -/
def main : IO Unit := Drv.mainLoop "C14" Drv.C14.handle
