import Driver.Json
import Model.Store
open Lean Drv Ens Ens.Store

namespace Drv.C15

def errStr : Err → String
  | .valueError => "value-error"
  | .noSuchNode => "no-such-node"
  | .dataInvalid => "data-invalid"
  | .indexError => "index-error"
  | .improperlyConfigured => "improperly-configured"
  | .badSchedule => "bad-schedule"

def getName (j : Json) : Except String Store.Name := do
  let s ← getStr j
  pure s.toList

def nameJson (n : Store.Name) : Json := Json.str (String.ofList n)

/-- entries travel as non-negative integers (the bytes of one entry along the first axis) -/
def getNode' (j : Json) : Except String (Store.Name × Node Nat) := do
  let nm ← getName (← field j "name")
  let dt ← getStr (← field j "dtype")
  let inner ← getList getNat (← field j "inner")
  let data ← getList getNat (← field j "data")
  pure (nm, { dtype := dt, inner := inner, data := data })

def getKeys (req : Json) : Except String Keys :=
  match fieldOpt req "keys" with
  | none => pure .all
  | some j => do
    let ks ← getList getName j
    pure (.list ks)

def loadedJson (r : Loaded Nat) : Json :=
  Json.mkObj [
    ("plain", Json.bool r.isPlain),
    ("dtype", Json.str r.dtype),
    ("inner", listJson natJson r.inner),
    ("rows", listJson (listJson natJson) r.rows),
    ("lengths", listJson natJson r.lengths)]

def getSpec (j : Json) : Except String (FileSpec Nat) := do
  let n ← getNat (← field j "n_frames")
  let s ← getNat (← field j "stride")
  let hf ← getBool (← field j "has_frame")
  let ld ← getList getNat (← field j "loaded")
  pure { nFrames := n, stride := s, hasFrame := hf, loaded := ld }

def handle (op : String) (req : Json) : Except String Json := do
  match op with
  | "keyname" =>
    let tag ← getName (← field req "tag")
    let i ← getNat (← field req "i")
    let n ← getNat (← field req "nrows")
    pure (okJson (nameJson (keyName tag i n)))
  | "listing" =>
    let ns ← getList getName (← field req "names")
    pure (okJson (listJson nameJson (listNodes ns)))
  | "stride" =>
    let n ← getNat (← field req "n")
    let s ← getNat (← field req "s")
    if s = 0 then pure (errJson "value-error") else
    pure (okJson (Json.mkObj [("sel", listJson natJson (strideSel s (List.range n))),
                              ("len", natJson (ceilDiv n s))]))
  | "sound" =>
    let n ← getNat (← field req "n")
    let s ← getNat (← field req "s")
    match soundTrajectory n s with
    | .error e => pure (errJson (errStr e))
    | .ok v => pure (okJson (natJson v))
  | "saveload" =>
    -- save an input, then load it back with the given keys / stride
    let tag ← getName (← field req "tag")
    let kind ← getStr (← field req "kind")
    let dt ← getStr (← field req "dtype")
    let inner ← getList getNat (← field req "inner")
    let inp : Input Nat ← match kind with
      | "ragged" => do
          let rows ← getList (getList getNat) (← field req "rows")
          pure (Input.ragged dt inner rows)
      | "ndarray" => do
          let data ← getList getNat (← field req "data")
          pure (Input.ndarray dt inner data)
      | _ => throw s!"bad kind {kind}"
    let keys ← getKeys req
    let stride ← getNat (← field req "stride")
    match save tag inp with
    | .error e => pure (Json.mkObj [("error", Json.str (errStr e)), ("stage", Json.str "save")])
    | .ok f =>
      let created := listJson nameJson (names f)
      let listed := listJson nameJson (listNodes (names f))
      match load f keys stride with
      | .error e => pure (Json.mkObj [("error", Json.str (errStr e)), ("stage", Json.str "load"),
                                      ("created", created), ("listed", listed)])
      | .ok r => pure (okJson (Json.mkObj [("created", created), ("listed", listed), ("result", loadedJson r)]))
  | "loadfile" =>
    -- load from an arbitrary file (nodes in creation order)
    let nodes ← getList getNode' (← field req "nodes")
    let keys ← getKeys req
    let stride ← getNat (← field req "stride")
    match load nodes keys stride with
    | .error e => pure (errJson (errStr e))
    | .ok r => pure (okJson (loadedJson r))
  | "concat" =>
    let specs ← getList getSpec (← field req "specs")
    let hint ← match fieldOpt req "hint" with
      | none => pure none
      | some j => do let l ← getList getNat j; pure (some l)
    let order ← getList getNat (← field req "order")
    if !(order.isPerm (List.range specs.length)) then throw "order is not a permutation of the tasks"
    match loadAsConcatenated specs hint order (fun _ => 0) with
    | .error e => pure (errJson (errStr e))
    | .ok (ls, xyz) => pure (okJson (Json.mkObj [("lengths", listJson natJson ls), ("xyz", listJson natJson xyz)]))
  | _ => throw s!"bad-op C15.{op}"

end Drv.C15
