import Driver.Json
open Lean Drv

namespace Drv.C15

def handle (op : String) (_req : Json) : Except String Json :=
  throw s!"bad-op C15.{op}"

end Drv.C15
