import Driver.Loop
import Driver.C16
/-! per-property driver executable: a broken handler of another property cannot affect this one -/
def main : IO Unit := Drv.mainLoop "C16" Drv.C16.handle
