import Driver.Loop
import Driver.C17
/-! per-property driver executable: a broken handler of another property cannot affect this one -/
def main : IO Unit := Drv.mainLoop "C17" Drv.C17.handle
