import Driver.Loop
import Driver.C05
/-! per-property driver executable: a broken handler of another property cannot affect this one -/
def main : IO Unit := Drv.mainLoop "C05" Drv.C05.handle
