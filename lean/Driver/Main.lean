import Driver.Json
import Driver.C01
import Driver.C02
import Driver.C03
import Driver.C04
import Driver.C05
import Driver.C06
import Driver.C07
import Driver.C08
import Driver.C09
import Driver.C10
import Driver.C11
import Driver.C12
import Driver.C13
import Driver.C14
import Driver.C15
import Driver.C16
import Driver.C17
import Driver.C18
import Driver.C19
import Driver.C20
/-! Line protocol: one JSON request `{"op": "<area>.<name>", ...}` per line, one JSON
response per line. Unknown ops are rejected with `bad-op`, never defaulted. -/
open Lean Drv

def dispatch (op : String) (req : Json) : Except String Json :=
  match op.splitOn "." with
  | "C01" :: rest => Drv.C01.handle (".".intercalate rest) req
  | "C02" :: rest => Drv.C02.handle (".".intercalate rest) req
  | "C03" :: rest => Drv.C03.handle (".".intercalate rest) req
  | "C04" :: rest => Drv.C04.handle (".".intercalate rest) req
  | "C05" :: rest => Drv.C05.handle (".".intercalate rest) req
  | "C06" :: rest => Drv.C06.handle (".".intercalate rest) req
  | "C07" :: rest => Drv.C07.handle (".".intercalate rest) req
  | "C08" :: rest => Drv.C08.handle (".".intercalate rest) req
  | "C09" :: rest => Drv.C09.handle (".".intercalate rest) req
  | "C10" :: rest => Drv.C10.handle (".".intercalate rest) req
  | "C11" :: rest => Drv.C11.handle (".".intercalate rest) req
  | "C12" :: rest => Drv.C12.handle (".".intercalate rest) req
  | "C13" :: rest => Drv.C13.handle (".".intercalate rest) req
  | "C14" :: rest => Drv.C14.handle (".".intercalate rest) req
  | "C15" :: rest => Drv.C15.handle (".".intercalate rest) req
  | "C16" :: rest => Drv.C16.handle (".".intercalate rest) req
  | "C17" :: rest => Drv.C17.handle (".".intercalate rest) req
  | "C18" :: rest => Drv.C18.handle (".".intercalate rest) req
  | "C19" :: rest => Drv.C19.handle (".".intercalate rest) req
  | "C20" :: rest => Drv.C20.handle (".".intercalate rest) req
  | _ => throw s!"bad-op {op}"

def answer (line : String) : String :=
  match Json.parse line with
  | .error e => (Json.mkObj [("fatal", Json.str s!"parse: {e}")]).compress
  | .ok req =>
    match (do let op ← (← field req "op").getStr?; dispatch op req) with
    | .ok j => j.compress
    | .error e => (Json.mkObj [("fatal", Json.str e)]).compress

partial def loop (h : IO.FS.Stream) (out : IO.FS.Stream) : IO Unit := do
  let line ← h.getLine
  if line.isEmpty then return ()
  let t := line.trimAscii.toString
  if t.isEmpty then loop h out else
  out.putStrLn (answer t)
  loop h out

def main : IO Unit := do
  let out ← IO.getStdout
  loop (← IO.getStdin) out
  out.flush
