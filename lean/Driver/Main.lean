import Driver.Json
import Driver.C03
/-! Line protocol: one JSON request `{"op": "<area>.<name>", ...}` per line, one JSON
response per line. Unknown ops are rejected with `bad-op`, never defaulted. -/
open Lean Drv

def dispatch (op : String) (req : Json) : Except String Json :=
  match op.splitOn "." with
  | "C03" :: rest => Drv.C03.handle (".".intercalate rest) req
  | _ => throw s!"bad-op {op}"

def answer (line : String) : String :=
  match Json.parse line with
  | .error e => (Json.mkObj [("fatal", Json.str s!"parse: {e}")]).compress
  | .ok req =>
    match (do let op ← (← field req "op").getStr?; dispatch op req) with
    | .ok j => j.compress
    | .error e => (Json.mkObj [("fatal", Json.str e)]).compress

partial def loop (h : IO.FS.Stream) (out : IO.FS.Stream) : IO Unit := do
  let line ← h.getLine
  if line.isEmpty then return ()
  let t := line.trimAscii.toString
  if t.isEmpty then loop h out else
  out.putStrLn (answer t)
  loop h out

def main : IO Unit := do
  let out ← IO.getStdout
  loop (← IO.getStdin) out
  out.flush
