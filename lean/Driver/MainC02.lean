import Driver.Loop
import Driver.C02
/-! per-property driver executable: a broken handler of another property cannot affect this one -/
def main : IO Unit := Drv.mainLoop "C02" Drv.C02.handle
