import Driver.Json
open Lean Drv

namespace Drv.C01

def handle (op : String) (_req : Json) : Except String Json :=
  throw s!"bad-op C01.{op}"

end Drv.C01
