import Driver.Json
import Model.Cluster
open Lean Drv Ens Ens.Cluster

namespace Drv.C01

def errStr : Err → String
  | .indexError => "index-error"
  | .valueError => "value-error"
  | .dataInvalid => "data-invalid"
  | .assertion => "assertion"
  | .unboundLocal => "unbound-local"
  | .fuel => "fuel"
  | .oracleExhausted => "oracle-exhausted"
  | .infState => "inf-state"
  | .notModelled => "not-modelled"

/-- the distance table of the request: `"D"` is an `n × n` array of rationals, row = frame, column = center -/
def getTable (req : Json) : Except String (Nat × Table) := do
  let n ← getNat (← field req "n")
  let rows ← getList (getList getRat) (← field req "D")
  if rows.length ≠ n ∨ rows.any (fun r => r.length ≠ n) then throw "table is not n x n"
  let arr : Array (Array Rat) := (rows.map List.toArray).toArray
  pure (n, fun f c => (arr.getD f #[]).getD c 0)

def getOptNat (req : Json) (k : String) : Except String (Option Nat) :=
  match fieldOpt req k with
  | none => pure none
  | some j => do let v ← getNat j; pure (some v)

def getOptNatList (req : Json) (k : String) : Except String (Option (List Nat)) :=
  match fieldOpt req k with
  | none => pure none
  | some j => do let v ← getList getNat j; pure (some v)

def getNatListD (req : Json) (k : String) : Except String (List Nat) :=
  match fieldOpt req k with
  | none => pure []
  | some j => getList getNat j

def arrJson (n : Nat) (a : Arr) : List (String × Json) :=
  [("assign", listJson intJson (tabulate n a.assign)),
   ("dist", listJson (fun q => if a.fresh then Json.null else ratJson q) (tabulate n a.dist))]

def stJson (n : Nat) (s : St) : Json :=
  Json.mkObj ([("inds", listJson natJson s.ctrInds), ("frames", listJson natJson s.ctrFrames)] ++ arrJson n s.arr)

def stepJson (t : PamStep) : Json :=
  Json.mkObj [("cid", natJson t.cid), ("p", natJson t.p), ("dn", natJson t.dn), ("other", natJson t.other),
              ("this", natJson t.this), ("old", ratJson t.oldCost), ("new", ratJson t.newCost),
              ("same", Json.bool t.same), ("acc", Json.bool t.acc)]

def runJson (n : Nat) (r : Run) (given : Nat) : Json :=
  Json.mkObj [("final", stJson n r.final), ("trace", listJson stepJson r.trace),
              ("sweeps", listJson (stJson n) r.sweeps), ("used", natJson (given - r.oracle.length))]

/-- user supplied `(assignments, distances)` -/
def getArr? (req : Json) (n : Nat) : Except String (Option Arr) := do
  match fieldOpt req "assign", fieldOpt req "dist" with
  | some ja, some jd =>
    let a ← getList getInt ja
    let d ← getList getRat jd
    if a.length ≠ n ∨ d.length ≠ n then throw "assign/dist length"
    pure (some { fresh := false, distA := d.toArray, assignA := a.toArray })
  | none, none => pure none
  | _, _ => throw "assign and dist must come together"

def handle (op : String) (req : Json) : Except String Json := do
  let (n, D) ← getTable req
  match op with
  | "assign" =>
    let cs ← getList getNat (← field req "centers")
    if cs.any (fun c => decide (n ≤ c)) then return errJson "index-error"
    let br ← getStr (← field req "branch")
    let r ← match br with
      | "loop" => pure (Except.ok (assignNearest D n cs))
      | "argmin" => pure (assignArgmin D n cs)
      | "auto-xyz" => pure (assignToNearestCenter D n cs true)
      | _ => throw s!"bad branch {br}"
    match r with
    | .error e => pure (errJson (errStr e))
    | .ok a => pure (okJson (Json.mkObj [("final", Json.mkObj ([("inds", listJson natJson cs),
                        ("frames", listJson natJson cs)] ++ arrJson n a))]))
  | "kcenters" =>
    let ncl ← getOptNat req "n_clusters"
    let cutoff ← getRat (← field req "cutoff")
    let init ← getOptNatList req "init"
    match kcenters D n ncl cutoff init (n + 2) with
    | .error e => pure (errJson (errStr e))
    | .ok s => pure (okJson (Json.mkObj [("final", stJson n s)]))
  | "pam" =>
    let inds ← getList getNat (← field req "inds")
    let arr ← getArr? req n
    let props ← getOptNatList req "proposals"
    let orc ← getNatListD req "oracle"
    match arr with
    | none => throw "pam needs assign and dist"
    | some a =>
      match pamUpdate D n { arr := a, ctrInds := inds, ctrFrames := inds } props orc with
      | .error e => pure (errJson (errStr e))
      | .ok (s, rest, tr) =>
        pure (okJson (runJson n { final := s, oracle := rest, trace := tr, sweeps := [s] } orc.length))
  | "kmedoids" =>
    let nIters ← getNat (← field req "n_iters")
    let inds ← getOptNatList req "inds"
    let arr ← getArr? req n
    let props ← getOptNatList req "proposals"
    let orc ← getNatListD req "oracle"
    match kmedoids D n nIters inds arr props orc with
    | .error e => pure (errJson (errStr e))
    | .ok r => pure (okJson (runJson n r orc.length))
  | "hybrid" =>
    let ncl ← getOptNat req "n_clusters"
    let cutoff ← getRat (← field req "cutoff")
    let init ← getOptNatList req "init"
    let nIters ← getNat (← field req "n_iters")
    let orc ← getNatListD req "oracle"
    match hybrid D n ncl cutoff init (n + 2) nIters orc with
    | .error e => pure (errJson (errStr e))
    | .ok r => pure (okJson (runJson n r orc.length))
  | _ => throw s!"bad-op C01.{op}"

end Drv.C01
