import Driver.Json
import Driver.C01
open Lean Drv

namespace Drv.C09

/-- C09 is about the same entry points as C01 (k-medoids sweeps, k-hybrid): same model, same ops -/
def handle (op : String) (req : Json) : Except String Json :=
  match op with
  | "pam" | "kmedoids" | "hybrid" | "kcenters" => Drv.C01.handle op req
  | _ => throw s!"bad-op C09.{op}"

end Drv.C09
