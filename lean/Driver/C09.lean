import Driver.Json
open Lean Drv

namespace Drv.C09

def handle (op : String) (_req : Json) : Except String Json :=
  throw s!"bad-op C09.{op}"

end Drv.C09
