import Driver.Loop
import Driver.C09
/-! per-property driver executable: a broken handler of another property cannot affect this one -/
def main : IO Unit := Drv.mainLoop "C09" Drv.C09.handle
