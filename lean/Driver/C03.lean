import Driver.Json
import Model.Counts
open Lean Drv Ens Ens.Counts

namespace Drv.C03

def errStr : Err → String
  | .dataInvalid => "data-invalid"
  | .valueError => "value-error"
  | .indexError => "index-error"

def handle (op : String) (req : Json) : Except String Json := do
  match op with
  | "slice" =>
    let len ← getNat (← field req "len")
    let s : PySlice := { start := ← getOptInt (← field req "start"),
                         stop := ← getOptInt (← field req "stop"),
                         step := ← getOptInt (← field req "step") }
    match s.indices len with
    | none => pure (errJson "value-error")
    | some ix => pure (okJson (listJson natJson ix))
  | "helper" =>
    let a ← getList getInt (← field req "a")
    let lag ← getNat (← field req "lag")
    let sl ← getBool (← field req "sliding")
    match transitionsHelper a lag sl with
    | .error e => pure (errJson (errStr e))
    | .ok ps => pure (okJson (listJson (fun p => Json.arr #[intJson p.1, intJson p.2]) ps))
  | "counts" =>
    let rows ← getList (getList getInt) (← field req "rows")
    let lag ← getInt (← field req "lag")
    let sl ← getBool (← field req "sliding")
    let maxN ← match fieldOpt req "max_n" with
      | none => pure none
      | some j => do let n ← getNat j; pure (some n)
    match assignsToCounts rows lag maxN sl with
    | .error e => pure (errJson (errStr e))
    | .ok c => pure (okJson (listJson (listJson natJson) c.toLists))
  | _ => throw s!"bad-op C03.{op}"

end Drv.C03
