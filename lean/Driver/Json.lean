import Lean.Data.Json
/-! JSON helpers for the driver line protocol. Rationals travel as `[num, den]`. -/
open Lean

namespace Drv

def getInt (j : Json) : Except String Int := j.getInt?
def getNat (j : Json) : Except String Nat := j.getNat?
def getBool (j : Json) : Except String Bool := j.getBool?
def getStr (j : Json) : Except String String := j.getStr?

def getArr (j : Json) : Except String (List Json) := do
  let a ← j.getArr?
  pure a.toList

def getList {α} (f : Json → Except String α) (j : Json) : Except String (List α) := do
  let a ← getArr j
  a.mapM f

def field (j : Json) (k : String) : Except String Json := j.getObjVal? k

def fieldOpt (j : Json) (k : String) : Option Json :=
  match j.getObjVal? k with
  | .ok .null => none
  | .ok v => some v
  | .error _ => none

def getOptInt (j : Json) : Except String (Option Int) :=
  match j with
  | .null => pure none
  | v => do let i ← v.getInt?; pure (some i)

def getRat (j : Json) : Except String Rat := do
  match j with
  | .arr #[n, d] => do
      let n ← n.getInt?
      let d ← d.getNat?
      if d = 0 then throw "zero denominator" else pure (mkRat n d)
  | v => do let i ← v.getInt?; pure (i : Rat)

def ratJson (q : Rat) : Json := Json.arr #[Json.num (JsonNumber.fromInt q.num), Json.num (JsonNumber.fromNat q.den)]
def intJson (i : Int) : Json := Json.num (JsonNumber.fromInt i)
def natJson (n : Nat) : Json := Json.num (JsonNumber.fromNat n)
def listJson {α} (f : α → Json) (l : List α) : Json := Json.arr (l.map f).toArray
def optJson {α} (f : α → Json) : Option α → Json
  | none => Json.null
  | some a => f a
def errJson (kind : String) : Json := Json.mkObj [("error", Json.str kind)]
def okJson (v : Json) : Json := Json.mkObj [("ok", v)]

end Drv
