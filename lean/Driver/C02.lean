import Driver.Json
import Model.KCenters
open Lean Drv Ens.KC

namespace Drv.C02

def errStr : Err → String
  | .improperlyConfigured => "improperly-configured"
  | .notImplemented => "not-implemented"
  | .valueError => "value-error"
  | .indexError => "index-error"
  | .outOfFuel => "out-of-fuel"

def eratJson : ERat → Json
  | none => Json.null
  | some q => ratJson q

def getNCl (j : Option Json) : Except String NCl :=
  match j with
  | none => pure .none
  | some (.str "npinf") => pure .npInf
  | some (.str "inf") => pure .floatInf
  | some v => do let k ← getInt v; pure (.fin k)

def getCut (j : Option Json) : Except String Cut :=
  match j with
  | none => pure .none
  | some (.str "inf") => pure .inf
  | some v => do let q ← getRat v; pure (.val q)

/-- table lookup; the handler validates the shape and all ids first, so the fallback is never read -/
def tableOf (rows : Array (Array Rat)) : Table := fun f c =>
  match rows[f]? with
  | some r => match r[c]? with
    | some q => q
    | none => 0
  | none => 0

def handle (op : String) (req : Json) : Except String Json := do
  match op with
  | "kcenters" =>
    let n ← getNat (← field req "n")
    let rowsL ← getList (getList getRat) (← field req "table")
    let rows := (rowsL.map List.toArray).toArray
    if rows.size != n then throw "table must have n rows"
    let m := match rows[0]? with | some r => r.size | none => 0
    if rows.any (fun r => r.size != m) then throw "ragged table"
    if m < n then throw "table must have at least n columns"
    let nc ← getNCl (fieldOpt req "n_clusters")
    let cut ← getCut (fieldOpt req "cutoff")
    let init ← match fieldOpt req "init" with
      | none => pure none
      | some j => do let l ← getList getNat j; pure (some l)
    match init with
    | some l => if l.any (fun c => c ≥ m) then throw "init id outside the table"
    | none => pure ()
    let tri ← getBool (← field req "tri")
    let rf ← match fieldOpt req "random_first" with
      | none => pure false
      | some j => getBool j
    let fuel ← match fieldOpt req "fuel" with
      | none => pure none
      | some j => do let k ← getNat j; pure (some k)
    let cfg : Cfg := { nClusters := nc, cutoff := cut, init := init, randomFirst := rf, tri := tri }
    match kcentersFuel (tableOf rows) n cfg fuel with
    | .error e => pure (errJson (errStr e))
    | .ok r =>
      pure (okJson (Json.mkObj [
        ("center_indices", listJson natJson r.st.ctrInds),
        ("centers", listJson natJson r.st.centers),
        ("assignments", listJson intJson ((List.range n).map r.st.assign)),
        ("distances", listJson eratJson ((List.range n).map r.st.dist)),
        ("trace", listJson (fun p => Json.arr #[natJson p.1, eratJson p.2]) r.trace),
        ("radius", eratJson r.radius)]))
  | "normalise" =>
    let nc ← getNCl (fieldOpt req "n_clusters")
    let cut ← getCut (fieldOpt req "cutoff")
    match normalise nc cut with
    | .error e => pure (errJson (errStr e))
    | .ok (k, c) => pure (okJson (Json.arr #[optJson intJson k, eratJson c]))
  | _ => throw s!"bad-op C02.{op}"

end Drv.C02
