import Driver.Json
open Lean Drv

namespace Drv.C02

def handle (op : String) (_req : Json) : Except String Json :=
  throw s!"bad-op C02.{op}"

end Drv.C02
