import Driver.Loop
import Driver.C19
/-! per-property driver executable: a broken handler of another property cannot affect this one -/
def main : IO Unit := Drv.mainLoop "C19" Drv.C19.handle
