import Driver.Json
open Lean Drv

namespace Drv.C04

def handle (op : String) (_req : Json) : Except String Json :=
  throw s!"bad-op C04.{op}"

end Drv.C04
