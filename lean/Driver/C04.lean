import Driver.Json
import Driver.C12
import Model.Builders
import Model.Generated.BuildersSite
import Model.LinSolve
import Model.Mle
open Lean Drv Ens Ens.Builders

/-! Driver for C04.  `normalize`/`transpose` run over `Rat` (exact); the stationary vector of
the row-normalised matrix comes from `LinSolve.stationary`, which returns a vector only with
an exact residual certificate.  `mle` runs the `Float` instance of `Model.Mle` (Python
flavour, as `builders.mle` calls `_prinz_mle_py`). -/
namespace Drv.C04

def toMatFn {α} [OfNat α 0] (rows : List (List α)) : Mat α :=
  fun i j => (rows.getD i []).getD j 0

def checkShape {α} (n : Nat) (rows : List (List α)) : Except String Unit :=
  if rows.length ≠ n ∨ rows.any (fun r => r.length ≠ n) then throw "shape" else pure ()

def getPrior {α} [OfNat α 0] (get : Json → Except String α) (n : Nat) (req : Json) :
    Except String (Prior α) := do
  match ← getStr (← field req "prior_kind") with
  | "none" => pure .none
  | "scalar" => do let a ← get (← field req "prior"); pure (.scalar a)
  | "dense" => do
      let rs ← getList (getList get) (← field req "prior")
      checkShape n rs
      pure (.matrix (toMatFn rs))
  | s => throw s!"bad prior kind {s}"

def ratMatJson (n : Nat) (M : Mat Rat) : Json :=
  listJson (listJson ratJson) (Mat.toLists n M)

def outJson (n : Nat) (o : Out Rat) : Json :=
  okJson (Json.mkObj [("C", ratMatJson n o.counts), ("T", ratMatJson n o.probs),
    ("pi", optJson (fun p => listJson ratJson (tabulate n p)) o.eq)])

def fmtStr : Fmt → String
  | .csr => "csr" | .csc => "csc" | .coo => "coo" | .lil => "lil"
  | .dok => "dok" | .dia => "dia" | .bsr => "bsr"

def getFmt (s : String) : Except String Fmt :=
  match s with
  | "csr" => pure .csr | "csc" => pure .csc | "coo" => pure .coo | "lil" => pure .lil
  | "dok" => pure .dok | "dia" => pure .dia | "bsr" => pure .bsr
  | _ => throw s!"bad format {s}"

def containerStr : Container → String
  | .ndarray => "ndarray"
  | .npmatrix => "matrix"
  | .spmatrix f => fmtStr f ++ "_matrix"

def getContainer (s : String) : Except String Container :=
  match s with
  | "ndarray" => pure .ndarray
  | "matrix" => pure .npmatrix
  | _ => if s.endsWith "_matrix" then do
           let f ← getFmt ((s.dropEnd 7).toString); pure (.spmatrix f)
         else throw s!"bad container {s}"

def site : Site :=
  { priorMatrixToArray := Ens.Generated.BuildersSite.priorMatrixToArray
    transposeHalfIntLiteral := Ens.Generated.BuildersSite.transposeHalfIntLiteral
    transposeTotalSum := Ens.Generated.BuildersSite.transposeTotalSum }

def getCallInfo (n : Nat) (req : Json) : Except String CallInfo := do
  let calcEq ← getBool (← field req "calc")
  let blocky ← getBool (← field req "bsr_blocky")
  pure { multi := decide (2 ≤ n), calcEq := calcEq, bsrBlocky := blocky }

def handle (op : String) (req : Json) : Except String Json := do
  match op with
  | "normalize" =>
    let n ← getNat (← field req "n")
    let rows ← getList (getList getRat) (← field req "C")
    checkShape n rows
    let prior ← getPrior getRat n req
    let calcEq ← getBool (← field req "calc")
    let C : Mat Rat := toMatFn rows
    let T := rowNormalize n (applyPrior C prior)
    if calcEq then
      -- the exact stationary vector plays the role of the eigen-solver's output;
      -- `normalizeEig` then applies the code's own normalisation
      match LinSolve.stationary n T with
      | none => pure (errJson "no-stationary")
      | some x => pure (outJson n (normalizeBuilder n C prior (some fun i => x.getD i 0)))
    else pure (outJson n (normalizeBuilder n C prior none))
  | "transpose" =>
    let n ← getNat (← field req "n")
    let rows ← getList (getList getRat) (← field req "C")
    checkShape n rows
    let prior ← getPrior getRat n req
    let calcEq ← getBool (← field req "calc")
    let c ← getContainer (← getStr (← field req "container"))
    let intDtype ← getBool (← field req "int_dtype")
    let pk := match prior with
      | .none => PriorKind.none
      | .scalar _ => PriorKind.scalar
      | .matrix _ => PriorKind.dense
    let o := transposeBuilder n (toMatFn rows) prior calcEq
    -- the container in which `C_sym / 2` is evaluated
    match builderContainers site (← getCallInfo n req) .transpose c pk with
    | .error .valueError => pure (errJson "value-error")
    | .ok (cS, _) =>
      let trunc := halfTruncates site.transposeHalfIntLiteral cS intDtype
      let S := symmetrize (applyPrior (toMatFn rows) prior)
      pure (outJson n { o with counts := fun i j => halfEntry trunc (S i j) })
  | "mle" =>
    let n ← getNat (← field req "n")
    let rows ← getList (getList C12.getF) (← field req "C")
    checkShape n rows
    let prior ← getPrior C12.getF n req
    let calcEq ← getBool (← field req "calc")
    let tol ← C12.getF (← field req "tol")
    let maxIter ← getNat (← field req "max_iter")
    let est : Mat Float → Except Mle.Err (Mat Float × (Nat → Float)) := fun C' =>
      let Cv : Mle.Mat Float n := Vector.ofFn fun i => Vector.ofFn fun j => C' i.val j.val
      match Mle.run (C12.params .py tol maxIter) Cv with
      | .error e => .error e
      | .ok r =>
        let Tl := r.T.toList.map Vector.toList
        let pl := r.pi.toList
        .ok (fun i j => (Tl.getD i []).getD j 0, fun i => pl.getD i 0)
    match mleBuilder est (toMatFn rows) prior calcEq with
    | .error e => pure (errJson (C12.errStr e))
    | .ok o =>
      let m (M : Mat Float) := listJson (listJson C12.fJson) (Mat.toLists n M)
      pure (okJson (Json.mkObj [("C", m o.counts), ("T", m o.probs),
        ("pi", optJson (fun p => listJson C12.fJson (tabulate n p)) o.eq)]))
  | "containers" =>
    let n ← getNat (← field req "n")
    let b ← match ← getStr (← field req "builder") with
      | "normalize" => pure BuilderId.normalize
      | "transpose" => pure BuilderId.transpose
      | "mle" => pure BuilderId.mle
      | s => throw s!"bad builder {s}"
    let c ← getContainer (← getStr (← field req "container"))
    let p ← match ← getStr (← field req "prior") with
      | "none" => pure PriorKind.none
      | "scalar" => pure PriorKind.scalar
      | "dense" => pure PriorKind.dense
      | s => throw s!"bad prior kind {s}"
    match builderContainers site (← getCallInfo n req) b c p with
    | .error .valueError => pure (errJson "value-error")
    | .ok (cC, cT) => pure (okJson (Json.arr #[Json.str (containerStr cC), Json.str (containerStr cT)]))
  | "site" =>
    pure (okJson (Json.mkObj [
      ("priorMatrixToArray", Json.bool site.priorMatrixToArray),
      ("transposeHalfIntLiteral", Json.bool site.transposeHalfIntLiteral),
      ("transposeTotalSum", Json.bool site.transposeTotalSum)]))
  | "scipy_table" =>
    -- the scipy result types the table assumes, for re-measurement by the harness
    let c ← getContainer (← getStr (← field req "container"))
    pure (okJson (Json.mkObj [
      ("sym", Json.str (containerStr (symContainer c))),
      ("plus_scalar", Json.str (containerStr (priorContainer false c .scalar))),
      ("plus_dense", Json.str (containerStr (priorContainer false c .dense)))]))
  | _ => throw s!"bad-op C04.{op}"

end Drv.C04
