import Driver.Loop
import Driver.C20
/-! per-property driver executable: a broken handler of another property cannot affect this one -/
def main : IO Unit := Drv.mainLoop "C20" Drv.C20.handle
