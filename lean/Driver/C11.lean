import Driver.Json
open Lean Drv

namespace Drv.C11

def handle (op : String) (_req : Json) : Except String Json :=
  throw s!"bad-op C11.{op}"

end Drv.C11
