import Driver.Json
import Model.Trim
open Lean Drv Ens Ens.Trim

namespace Drv.C11

def errStr : Err → String
  | .valueError => "value-error"
  | .assertion => "assertion"
  | .stopIteration => "stop-iteration"

def pairsJson (l : List (Nat × Nat)) : Json := listJson (fun p => Json.arr #[natJson p.1, natJson p.2]) l

def boolMatJson (n : Nat) (m : BMat) : Json :=
  listJson (listJson fun b => Json.bool b) (tabulate n fun i => tabulate n fun j => bget m i j)

/-- square matrix of naturals as an index function (outside the shape 0; never read by the model) -/
def getCounts (req : Json) : Except String (Nat × (Nat → Nat → Nat)) := do
  let rows ← getList (getList getNat) (← field req "counts")
  let n := rows.length
  if rows.any (fun r => r.length != n) then throw "counts not square"
  let a : Array (Array Nat) := (rows.map List.toArray).toArray
  pure (n, fun i j => (a.getD i #[]).getD j 0)

def mappingJson (m : TrimMapping) : List (String × Json) :=
  [("to_original", pairsJson m.toOriginal), ("to_mapped", pairsJson m.toMapped),
   ("csv", listJson (listJson Json.str) m.write),
   ("reread_equal", Json.bool (match TrimMapping.read m.write with
      | .ok m' => decide (m' = m)
      | .error _ => false))]

def handle (op : String) (req : Json) : Except String Json := do
  match op with
  | "scc" =>
    -- closure table, SCC of every state, the heaviest SCCs (label free part of the model)
    let (n, C) ← getCounts req
    let thr ← getInt (← field req "thr")
    let m := closure n (edge C thr)
    pure (okJson (Json.mkObj [
      ("reach", boolMatJson n m),
      ("scc", listJson (listJson natJson) ((List.range n).map (sccOfM m n))),
      ("rowsum", listJson natJson ((List.range n).map (rowSum C n))),
      ("heaviest", listJson (listJson natJson) (heaviestM C n m).eraseDups)]))
  | "trim" =>
    let (n, C) ← getCounts req
    let thr ← getInt (← field req "thr")
    let labs ← getList getNat (← field req "labels")
    let nsub ← getNat (← field req "nsub")
    let renumber ← getBool (← field req "renumber")
    if labs.length != n then throw "labels length"
    let la := labs.toArray
    let labels : Nat → Nat := fun i => la.getD i 0
    let m := closure n (edge C thr)
    let valid := validLabeling m n labels nsub
    match trimDisconnected C n labels nsub renumber with
    | .error e => pure (Json.mkObj [("error", Json.str (errStr e)), ("valid", Json.bool valid)])
    | .ok r =>
      pure (okJson (Json.mkObj ([
        ("valid", Json.bool valid),
        ("keep", listJson natJson r.keep),
        ("shape", natJson r.shape),
        ("matrix", listJson (listJson natJson) r.toLists),
        ("in_heaviest", Json.bool ((heaviestM C n m).contains r.keep)),
        ("heaviest", listJson (listJson natJson) (heaviestM C n m).eraseDups)]
        ++ mappingJson r.mapping)))
  | "mapping" =>
    -- TrimMapping(transformations) for arbitrary (original, mapped) pairs
    let ts ← getList (fun j => do
      let l ← getList getNat j
      match l with
      | [a, b] => pure (a, b)
      | _ => throw "pair") (← field req "pairs")
    pure (okJson (Json.mkObj (mappingJson (TrimMapping.ofTransformations ts))))
  | "csv_read" =>
    let rows ← getList (getList getStr) (← field req "rows")
    match TrimMapping.read rows with
    | .error e => pure (errJson (errStr e))
    | .ok m => pure (okJson (Json.mkObj [("to_original", pairsJson m.toOriginal),
                                         ("to_mapped", pairsJson m.toMapped)]))
  | _ => throw s!"bad-op C11.{op}"

end Drv.C11
