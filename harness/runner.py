"""Check runner: ./check Cxx [--tier quick|thorough] [--replay file]

Order of a run (DESIGN.md section 4):
  translator -> lake build (driver + Props.Cxx) -> axiom audit + forbidden-token grep
  -> stage /repo and build its extensions -> corpus -> seeded correspondence run with the
  property predicate evaluated on every implementation output -> classification
  -> evidence -> exit code.

Exit codes: 0 held; 1 violation (a VIOLATION line was printed); 2 harness trouble.
"""
import argparse
import hashlib
import importlib
import json
import os
import re
import signal
import subprocess
import sys
import time
import traceback

HERE = os.path.dirname(os.path.abspath(__file__))
VERIF = os.path.dirname(HERE)
LEAN = os.path.join(VERIF, 'lean')
CACHE = os.path.join(VERIF, '.cache')
sys.path.insert(0, HERE)

import stage  # noqa: E402

ALLOWED_AXIOMS = {'propext', 'Classical.choice', 'Quot.sound'}
FORBIDDEN = re.compile(
    r'\b(sorry|admit|native_decide|bv_decide|implemented_by|unsafe)\b|^\s*axiom\s|maxHeartbeats\s+0\b')
TRUSTED_BASE = [
    'Lean 4.33.0 kernel (thorough tier: re-checked with leanchecker)',
    'axioms propext, Classical.choice, Quot.sound only (audited with #print axioms on every property theorem in this run)',
    'Mathlib v4.33.0 as compiled under /opt/veriftools/mathlib4 (proof files only)',
    'Lean compiler/runtime for the Mathlib-free driver executable',
    'hand-written model tied to the code only as far as this run\'s correspondence cases compare them',
    'harness: staging of /repo working tree, generators, canonicalisation, Python oracles',
]


class HarnessError(Exception):
    pass


def _strip_comments(src):
    # remove block comments (nested-safe enough for our files) and line comments
    out = []
    i, depth, n = 0, 0, len(src)
    while i < n:
        if src.startswith('/-', i):
            depth += 1
            i += 2
        elif depth and src.startswith('-/', i):
            depth -= 1
            i += 2
        elif depth:
            if src[i] == '\n':
                out.append('\n')
            i += 1
        elif src.startswith('--', i):
            while i < n and src[i] != '\n':
                i += 1
        else:
            out.append(src[i])
            i += 1
    return ''.join(out)


def lean_sources():
    for root, dirs, files in os.walk(LEAN):
        dirs[:] = [d for d in dirs if d != '.lake']
        for f in files:
            if f.endswith('.lean'):
                yield os.path.join(root, f)


def import_closure(modules):
    """Local .lean files (under lean/) transitively imported by the given modules."""
    seen, todo = {}, list(modules)
    while todo:
        m = todo.pop()
        if m in seen:
            continue
        path = os.path.join(LEAN, m.replace('.', '/') + '.lean')
        if not os.path.exists(path):
            continue
        seen[m] = path
        with open(path) as f:
            for line in f:
                mm = re.match(r'^\s*(?:public\s+)?import\s+(\S+)', line)
                if mm:
                    todo.append(mm.group(1))
    return sorted(seen.values())


def forbidden_tokens(modules=None):
    hits = []
    for p in (import_closure(modules) if modules else lean_sources()):
        with open(p) as f:
            src = _strip_comments(f.read())
        for ln, line in enumerate(src.split('\n'), 1):
            if FORBIDDEN.search(line):
                hits.append('%s:%d: %s' % (os.path.relpath(p, VERIF), ln, line.strip()[:120]))
    return hits


def theorems_in(path):
    """Fully qualified names of the theorems declared in a Props file."""
    with open(path) as f:
        src = _strip_comments(f.read())
    ns, names = [], []
    for line in src.split('\n'):
        m = re.match(r'^\s*namespace\s+(\S+)', line)
        if m:
            ns.append(m.group(1))
            continue
        m = re.match(r'^\s*end\s+(\S+)\s*$', line)
        if m and ns and ns[-1] == m.group(1):
            ns.pop()
            continue
        m = re.match(r'^\s*(?:@\[[^\]]*\]\s*)?(?:private\s+|protected\s+)?theorem\s+([^\s:({\[]+)', line)
        if m:
            names.append('.'.join(ns + [m.group(1)]))
    return names


LEAN_PHASE_LOCK = [None]


def _release_lean_phase():
    if LEAN_PHASE_LOCK[0] is not None:
        try:
            LEAN_PHASE_LOCK[0].close()
        finally:
            LEAN_PHASE_LOCK[0] = None


class Lean:
    """lake build, axiom audit, driver I/O."""

    def __init__(self, log, prop_id='C03'):
        self.log = log
        self.exe = 'driver_' + prop_id.lower()
        self.driver_path = os.path.join(LEAN, '.lake', 'build', 'bin', self.exe)

    def _lake(self, args, timeout=3000):
        # the whole Lean phase (translate -> build -> audit -> leanchecker) runs under one lock held by main():
        # Model/Generated is shared, and concurrent checks (possibly against different trees via VERIF_REPO)
        # must not see each other's generated files half-way through a build
        lock = None if LEAN_PHASE_LOCK[0] is not None else stage._lock()
        try:
            r = subprocess.run(['lake'] + args, cwd=LEAN, capture_output=True, text=True,
                               timeout=timeout)
        finally:
            if lock is not None:
                lock.close()
        return r

    def build_driver(self):
        r = self._lake(['build', self.exe])
        if r.returncode != 0:
            raise HarnessError('driver build failed:\n' + (r.stdout + r.stderr)[-4000:])

    def build_props(self, modules):
        """Returns (ok, output)."""
        r = self._lake(['build'] + modules)
        return r.returncode == 0, (r.stdout + r.stderr)[-6000:]

    def audit(self, prop_id, modules):
        """#print axioms for every theorem of the property's Props modules.
        Returns dict name -> list of axioms (or None when the name did not elaborate)."""
        names = []
        for m in modules:
            names += theorems_in(os.path.join(LEAN, m.replace('.', '/') + '.lean'))
        os.makedirs(os.path.join(CACHE, 'audit'), exist_ok=True)
        path = os.path.join(CACHE, 'audit', '%s_%d.lean' % (prop_id, os.getpid()))
        with open(path, 'w') as f:
            for m in modules:
                f.write('import %s\n' % m)
            for nme in names:
                f.write('#print axioms %s\n' % nme)
        r = subprocess.run(['lake', 'env', 'lean', path], cwd=LEAN, capture_output=True,
                           text=True, timeout=1200)
        os.unlink(path)
        out = r.stdout + r.stderr
        res = {nme: None for nme in names}
        # "'X' depends on axioms: [a, b]" possibly wrapped over lines; "'X' does not depend on any axioms"
        flat = re.sub(r'\s+', ' ', out)
        for m in re.finditer(r"'([^']+)' depends on axioms: \[([^\]]*)\]", flat):
            res[m.group(1)] = [a.strip() for a in m.group(2).split(',') if a.strip()]
        for m in re.finditer(r"'([^']+)' does not depend on any axioms", flat):
            res[m.group(1)] = []
        return res, out

    def leanchecker(self, modules):
        r = subprocess.run(['lake', 'env', 'leanchecker'] + modules, cwd=LEAN,
                           capture_output=True, text=True, timeout=3000)
        return r.returncode == 0, (r.stdout + r.stderr)[-3000:]

    def driver(self, requests):
        """Send a list of request dicts, get the list of response dicts."""
        if not requests:
            return []
        data = '\n'.join(json.dumps(r, separators=(',', ':')) for r in requests) + '\n'
        r = subprocess.run([self.driver_path], input=data, capture_output=True, text=True,
                           timeout=1800)
        if r.returncode != 0:
            raise HarnessError('driver exited %d: %s' % (r.returncode, r.stderr[-2000:]))
        lines = [l for l in r.stdout.split('\n') if l.strip()]
        if len(lines) != len(requests):
            raise HarnessError('driver answered %d lines for %d requests' % (len(lines), len(requests)))
        out = []
        for req, l in zip(requests, lines):
            j = json.loads(l)
            if 'fatal' in j:
                raise HarnessError('driver rejected %s: %s' % (json.dumps(req)[:300], j['fatal']))
            out.append(j)
        return out


def canon(obj):
    return json.dumps(obj, sort_keys=True, separators=(',', ':'), default=_jsonable)


def _jsonable(o):
    import numpy as np
    if isinstance(o, np.ndarray):
        return o.tolist()
    if isinstance(o, (np.integer,)):
        return int(o)
    if isinstance(o, (np.floating,)):
        return float(o)
    if isinstance(o, (np.bool_,)):
        return bool(o)
    if isinstance(o, (set, frozenset)):
        return sorted(o)
    if isinstance(o, bytes):
        return o.hex()
    return repr(o)


class Ctx:
    def __init__(self, prop_id, tier, seed, lean, escalated=False):
        import numpy as np
        self.prop_id = prop_id
        self.tier = tier
        self.seed = seed
        self.lean = lean
        self.escalated = escalated
        h = int(hashlib.sha256(('%s:%d' % (prop_id, seed)).encode()).hexdigest()[:12], 16)
        self.rng = np.random.default_rng(h)
        self.evaluations = 0
        self.distinct = set()
        self.samples = []
        self.tags = {}
        self.violations = []      # dicts {what, key, replay}
        self.disagreements = []   # dicts {what, replay}
        self.notes = {}
        self.skipped = {}

    # budget helper
    def n(self, quick, thorough):
        return thorough if self.tier == 'thorough' else quick

    @property
    def thorough(self):
        return self.tier == 'thorough'

    def driver(self, requests):
        return self.lean.driver(requests)

    def case(self, inp, nontrivial=True, tags=()):
        """Record one explored case (for the evidence counts)."""
        self.evaluations += 1
        if nontrivial:
            self.distinct.add(hashlib.sha1(canon(inp).encode()).hexdigest())
        for t in tags:
            self.tags[t] = self.tags.get(t, 0) + 1
        if len(self.samples) < 3 or (len(self.samples) < 6 and self.evaluations % 97 == 0):
            s = canon(inp)
            if len(s) < 1500:
                self.samples.append(json.loads(s))

    def tag(self, t, k=1):
        self.tags[t] = self.tags.get(t, 0) + k

    def skip(self, why):
        self.skipped[why] = self.skipped.get(why, 0) + 1

    def note(self, k, v):
        self.notes[k] = v

    def violation(self, what, replay, key=None):
        """The property's predicate is false on an implementation output."""
        self.violations.append({'what': what, 'key': key, 'replay': replay})

    def disagreement(self, what, replay):
        """Model and implementation differ (predicate not (yet) shown false)."""
        self.disagreements.append({'what': what, 'replay': replay})


def load_findings():
    out = []
    p = os.path.join(VERIF, 'known_findings.json')
    if os.path.exists(p):
        with open(p) as f:
            out += json.load(f).get('findings', [])
    d = os.path.join(VERIF, 'known_findings.d')
    if os.path.isdir(d):
        for fn in sorted(os.listdir(d)):
            if fn.endswith('.json'):
                with open(os.path.join(d, fn)) as f:
                    out += json.load(f).get('findings', [])
    return out


def write_replay(prop_id, payload):
    os.makedirs(os.path.join(VERIF, 'replays'), exist_ok=True)
    s = canon(payload)
    h = hashlib.sha1(s.encode()).hexdigest()[:10]
    path = os.path.join(VERIF, 'replays', '%s-%s.json' % (prop_id, h))
    with open(path, 'w') as f:
        f.write(json.dumps(json.loads(s), indent=1))
    return os.path.relpath(path, VERIF)


def run_property(mod, ctx, log):
    # corpus first
    cdir = os.path.join(VERIF, 'corpus', ctx.prop_id)
    if os.path.isdir(cdir) and hasattr(mod, 'replay'):
        for fn in sorted(os.listdir(cdir)):
            if fn.endswith('.json'):
                with open(os.path.join(cdir, fn)) as f:
                    data = json.load(f)
                ctx.tag('corpus')
                mod.replay(ctx, data)
    mod.run(ctx)


def main(argv=None):
    ap = argparse.ArgumentParser()
    ap.add_argument('prop')
    ap.add_argument('--tier', default=os.environ.get('VERIF_TIER', 'quick'))
    ap.add_argument('--replay')
    args = ap.parse_args(argv)
    prop_id = args.prop.upper()
    tier = args.tier if args.tier in ('quick', 'thorough') else 'quick'
    seed = int(os.environ.get('VERIF_SEED', '0') or 0)
    t0 = time.time()
    cap = int(os.environ.get('VERIF_TIMEOUT', '0') or 0) or (900 if tier == 'quick' else 5400)

    def on_alarm(signum, frame):
        print('HARNESS-ERROR: %s timed out after %d s' % (prop_id, cap), flush=True)
        try:
            for d in list(stage.LIVE):
                stage.unstage(d)
        except Exception:  # noqa
            pass
        os._exit(2)
    signal.signal(signal.SIGALRM, on_alarm)
    signal.alarm(cap)

    logs = []

    def log(msg):
        logs.append(msg)
        print('[%s %6.1fs] %s' % (prop_id, time.time() - t0, msg), flush=True)

    stage_dir = None
    try:
        mod = importlib.import_module('props.' + prop_id.lower())
        lean = Lean(log, prop_id)
        # 1. translator (from here to the end of step 3 under the Lean-phase lock)
        LEAN_PHASE_LOCK[0] = stage._lock()
        gen_info = None
        translator_broken = None
        # source -> lean/Model/Generated/*.lean, regenerated on every run.  Props files import each other (Props.C19
        # imports Props.C13 and Props.C18), so the translators of every property whose Props module is in this
        # property's import closure run too: a generated file left by an earlier run against another tree must not
        # be what this run's obligations are decided on.
        modules_pre = getattr(mod, 'LEAN_MODULES', ['Props.' + prop_id])
        closure_pre = ' '.join(import_closure(modules_pre + ['Driver.Main' + prop_id]))
        gen_dir = os.path.join(LEAN, 'Model', 'Generated')
        for other in sorted(os.listdir(os.path.join(HERE, "props"))):
            mm = re.match(r'^(c\d\d)\.py$', other)
            if not mm:
                continue
            oid = mm.group(1).upper()
            # every translator runs (about a second in total: Model files shared between properties import generated
            # files too, e.g. Model.Mle <- Generated.MleSite); only a failure of this property's own translator, or of
            # one whose Props module is imported here, counts as this run's broken obligation
            relevant = oid == prop_id or ('Props/%s.lean' % oid) in closure_pre
            try:
                omod = mod if oid == prop_id else importlib.import_module('props.' + oid.lower())
                if not hasattr(omod, 'translate'):
                    continue
                info = omod.translate(stage.REPO, gen_dir)
                if oid == prop_id:
                    gen_info = info
                log('translator%s: %s' % ('' if oid == prop_id else ' (' + oid + ')', info.get('summary', 'ok')))
            except Exception as e:  # noqa
                if not relevant:
                    log('translator of %s failed (not imported by %s): %s' % (oid, prop_id, e))
                    continue
                # the source no longer has the shape the translator reads: the tie between model and source is
                # broken (not a violation by itself).  The previously generated files stay in place, the
                # correspondence run searches for a failing input, and the verdict is at best no-failing-input-found.
                translator_broken = 'translator (%s) could not read the current source: %s: %s' % (oid, type(e).__name__, e)
                if oid == prop_id:
                    gen_info = {'summary': 'FAILED', 'error': translator_broken}
                log(translator_broken)
        # 2. lean build
        lean.build_driver()
        modules = getattr(mod, 'LEAN_MODULES', ['Props.' + prop_id])
        ok, out = lean.build_props(modules)
        proof_broken = None
        if not ok:
            proof_broken = out
            log('lake build of %s FAILED' % modules)
        elif translator_broken:
            proof_broken = translator_broken
        # 3. audit
        hits = forbidden_tokens(modules + ['Driver.Main' + prop_id])
        if hits:
            raise HarnessError('forbidden tokens in lean sources:\n' + '\n'.join(hits))
        obligations, discharged, bad_axioms, audit_names = 0, 0, [], []
        if ok:
            res, aout = lean.audit(prop_id, modules)
            obligations = len(res)
            for nme, ax in res.items():
                audit_names.append(nme)
                if ax is None:
                    bad_axioms.append('%s: not elaborated' % nme)
                elif set(ax) - ALLOWED_AXIOMS:
                    bad_axioms.append('%s: %s' % (nme, ax))
                else:
                    discharged += 1
            if bad_axioms:
                raise HarnessError('axiom audit failed: %s\n%s' % (bad_axioms, aout[-2000:]))
            log('lean: %d theorems built and audited (axioms within %s)' % (discharged, sorted(ALLOWED_AXIOMS)))
        else:
            for m in modules:
                obligations += len(theorems_in(os.path.join(LEAN, m.replace('.', '/') + '.lean')))
        checker_cmd = 'cd lean && lake build ' + ' '.join(modules) + ' && lake env lean <#print axioms of each theorem>'
        if ok and tier == 'thorough' and not args.replay:
            lc_ok, lc_out = lean.leanchecker(modules)
            if not lc_ok:
                raise HarnessError('leanchecker rejected %s: %s' % (modules, lc_out))
            checker_cmd += ' && lake env leanchecker ' + ' '.join(modules)
            log('leanchecker accepted %s' % modules)
        # 4. stage
        _release_lean_phase()
        stage_dir, sinfo = stage.stage()
        stage.activate(stage_dir)
        log('staged /repo working tree -> %s (ext cache: %s)' % (stage_dir, sinfo))

        # replay mode
        if args.replay:
            with open(args.replay) as f:
                data = json.load(f)
            ctx = Ctx(prop_id, tier, seed, lean)
            mod.replay(ctx, data.get('case', data))
            if ctx.violations:
                print('REPLAY: still fails: %s' % ctx.violations[0]['what'])
                return 1
            if ctx.disagreements:
                print('REPLAY: model/implementation still disagree: %s' % ctx.disagreements[0]['what'])
                return 1
            print('REPLAY: passes')
            return 0

        # 5. run (a changed fingerprint of a mirrored function = model possibly stale:
        #    not a violation, but the search runs with the thorough budget)
        stale_keys = []
        import fingerprint
        mirrors = fingerprint.mirrors_of(mod, prop_id)
        if mirrors:
            stale_keys, _cur = fingerprint.stale(prop_id, stage.REPO, mirrors)
            if stale_keys:
                log('mirrored source changed since the model was written (%s): using the thorough budget'
                    % ', '.join(stale_keys[:6]))
        run_tier = 'thorough' if (stale_keys and tier == 'quick') else tier
        if run_tier != tier:
            signal.alarm(max(cap, 5400))   # the deeper search gets the thorough time cap
        ctx = Ctx(prop_id, run_tier, seed, lean)
        run_property(mod, ctx, log)
        escalated = False
        _open = {f['key'] for f in load_findings()
                 if f.get('property') == prop_id and f.get('status') == 'open'}
        _unknown_now = [v for v in ctx.violations if v['key'] is None or v['key'] not in _open]
        if (ctx.disagreements or proof_broken) and not _unknown_now and run_tier == 'quick':
            log('proof obligation or correspondence broken; escalating the search to the thorough budget')
            signal.alarm(max(cap, 5400))
            ctx2 = Ctx(prop_id, 'thorough', seed + 1, lean, escalated=True)
            ctx2.disagreements = list(ctx.disagreements)
            ctx2.violations = list(ctx.violations)
            run_property(mod, ctx2, log)
            ctx2.evaluations += ctx.evaluations
            ctx2.distinct |= ctx.distinct
            ctx2.samples = ctx.samples or ctx2.samples
            for k, v in ctx.tags.items():
                ctx2.tags[k] = ctx2.tags.get(k, 0) + v
            ctx = ctx2
            escalated = True

        # 6. classification
        findings = [f for f in load_findings() if f.get('property') == prop_id]
        open_keys = {f['key']: f for f in findings if f.get('status') == 'open'}
        known_hit, unknown = {}, []
        for v in ctx.violations:
            if v['key'] is not None and v['key'] in open_keys:
                known_hit.setdefault(v['key'], v)
            else:
                unknown.append(v)
        rc = 0
        for k, v in sorted(known_hit.items()):
            print('KNOWN-FINDING: property=%s %s [%s]' % (prop_id, open_keys[k]['what'], k), flush=True)
        if unknown:
            # smallest replay first
            unknown.sort(key=lambda v: len(canon(v['replay'])))
            v = unknown[0]
            path = write_replay(prop_id, {'property': prop_id, 'kind': 'violation', 'what': v['what'],
                                          'seed': seed, 'tier': ctx.tier, 'case': v['replay'],
                                          'rerun': './check %s --replay <this file>' % prop_id})
            print('VIOLATION property=%s replay=%s' % (prop_id, path), flush=True)
            log('violation: %s (%d failing cases in total)' % (v['what'], len(unknown)))
            rc = 1
        elif ctx.disagreements or proof_broken:
            what = []
            payload = {'property': prop_id, 'kind': 'no-failing-input-found', 'seed': seed}
            if proof_broken:
                what.append(proof_broken[:300] if translator_broken and proof_broken == translator_broken
                            else 'proof obligation no longer checks: lake build %s' % ' '.join(modules))
                payload['broken_obligation'] = {'modules': modules, 'lake_output_tail': proof_broken[-3000:]}
            if ctx.disagreements:
                d = sorted(ctx.disagreements, key=lambda d: len(canon(d['replay'])))[0]
                what.append('correspondence no longer checks: %s' % d['what'])
                payload['broken_correspondence'] = d['what']
                payload['case'] = d['replay']
                payload['n_disagreements'] = len(ctx.disagreements)
            payload['what'] = '; '.join(what)
            payload['searched'] = {'evaluations': ctx.evaluations, 'escalated': escalated}
            path = write_replay(prop_id, payload)
            print('VIOLATION property=%s replay=%s no-failing-input-found' % (prop_id, path), flush=True)
            log('; '.join(what))
            rc = 1

        # 7. evidence
        cov = {
            'obligations': obligations,
            'discharged': discharged,
            'checker_cmd': checker_cmd,
            'trusted_base': TRUSTED_BASE + list(getattr(mod, 'TRUSTED_EXTRA', [])),
            'theorems': audit_names,
            'evaluations': ctx.evaluations,
            'distinct_nontrivial': len(ctx.distinct),
            'rule': getattr(mod, 'RULE', ''),
            'samples': ctx.samples[:6],
            'input_distribution': dict(sorted(ctx.tags.items())),
            'skipped': ctx.skipped,
            'known_findings_hit': sorted(known_hit),
            'disagreements': len(ctx.disagreements),
            'escalated': escalated,
            'model_stale': stale_keys,
            'ext_cache': sinfo,
        }
        if gen_info:
            cov['generated'] = gen_info
        cov.update(ctx.notes)
        ev = {
            'property_id': prop_id, 'tier': tier, 'seed': seed, 'level': 'proof',
            'coverage': cov,
            'assumptions': list(getattr(mod, 'ASSUMPTIONS', [])),
            'wall_s': round(time.time() - t0, 2),
            'violations': len(unknown) + (1 if (rc == 1 and not unknown) else 0),
        }
        # evidence of runs against a scratch copy (VERIF_REPO) never overwrites the evidence for /repo
        evdir = os.path.join(VERIF, 'evidence') if os.path.realpath(stage.REPO) == '/repo' \
            else os.path.join(CACHE, 'evidence_scratch')
        os.makedirs(evdir, exist_ok=True)
        with open(os.path.join(evdir, prop_id + '.json'), 'w') as f:
            json.dump(json.loads(canon(ev)), f, indent=1)
        log('evidence written; %d evaluations, %d distinct non-trivial, rc=%d' %
            (ctx.evaluations, len(ctx.distinct), rc))
        return rc
    except HarnessError as e:
        print('HARNESS-ERROR: %s' % e, flush=True)
        return 2
    except Exception:
        traceback.print_exc()
        print('HARNESS-ERROR: unexpected exception', flush=True)
        return 2
    finally:
        signal.alarm(0)
        _release_lean_phase()
        if stage_dir:
            stage.unstage(stage_dir)


if __name__ == '__main__':
    rc = main()
    sys.stdout.flush()
    sys.stderr.flush()
    os._exit(rc)
