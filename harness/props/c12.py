"""C12 - the reversible estimator is a true maximum-likelihood fixed point.

Correspondence: `_prinz_mle_py`, `_prinz_mle` (compiled) and `builders.mle` against the Float
instance of `Model.Mle` (doubles travel as bit patterns); the two implementations against each
other.  Predicate search on the real outputs: returns at all (no AssertionError), validity,
Prinz self-consistency residuals, log-likelihood dominance over the transpose estimate, random
reversible competitors and small reversible perturbations of the result.
"""
import ast
import os
import re
import struct
import warnings

import numpy as np

RULE = ('(a) random strongly connected non-negative count matrices with 2..8 states of 8 kinds '
        '(dense integers; integers with zeros; reals; wide-range reals; symmetric; strongly '
        'asymmetric; zero diagonal; metastable = heavy diagonal) each with a random Hamiltonian '
        'cycle for connectivity; (b) a structured family, 3..8 states, integer and real counts, randomly '
        'relabelled: >= 2 pendant states (zero diagonal, one partner, both directions) on a hub / on a chain / '
        'as rare states around a heavy core / mixed with self-counting leaves, states with only self counts '
        'plus one partner, nearly closed pairs (tiny a), plus hand-written minimal instances; (c) closed pairs '
        '(a == 0, outside the quantifier, correspondence only); all run through _prinz_mle_py, _prinz_mle (compiled), builders.mle '
        '(ndarray int/float and the 7 scipy sparse-matrix formats); every case is non-trivial '
        '(at least one sweep changes X unless C is symmetric); distinct by the matrix itself')
ASSUMPTIONS = [
    'Lean `Float` +,-,*,/,sqrt are IEEE-754 binary64 operations as in numpy/C (no FMA contraction); '
    'log/log10 only enter the convergence test, so model and code may stop one sweep apart: '
    'T and pi are compared within 1e-8 and neighbouring iterates are accepted and counted',
    'numpy sums of fewer than 8 doubles are left-to-right; for 8 states numpy adds pairwise '
    '(difference is rounding only, covered by the 1e-8 tolerance)',
    'the proofs are about exact arithmetic over a linear ordered field with sqrt; rounding is '
    'covered only by the differential run',
    'global optimality of an exact fixed point over reversible matrices with the same support is proved (Props.C12.optimal, optimal_vs_transpose, optimal_output); that the loop reaches a fixed point within the tolerance is not proved and is examined numerically',
    'estimate, random reversible competitors and perturbations with tolerance 1e-7*(1+|L|)',
]
TRUSTED_EXTRA = ['translator harness/props/c12.py:translate (AST of the two warnings.warn call sites)']
LEAN_MODULES = ['Props.C12']

KINDS = ['int-dense', 'int-sparse', 'real', 'real-wide', 'symmetric', 'asym', 'zero-diag',
         'metastable']
SPARSE_FORMATS = ['csr', 'csc', 'coo', 'lil', 'dok', 'dia', 'bsr']
TOL_MODEL = 1e-8          # model (Float) vs implementation, on T and pi
TOL_CROSS = {'metastable': 1e-4, 'real-wide': 1e-4}   # py vs compiled (stop at different sweeps)
TOL_CROSS_DEFAULT = 1e-5
TOL_RESID = {'metastable': 1e-3, 'real-wide': 1e-3}
TOL_RESID_DEFAULT = 1e-5
TOL_LOGL = 1e-7           # relative to 1 + |L|
PY_SWEEP_BUDGET = 4000    # do not run the pure-Python estimator when the model needs more sweeps


# ----------------------------------------------------------------------------- translator

def _warn_swapped(func_src):
    """True when a `warnings.warn(...)` call in the source passes an attribute/name ending in
    'Warning' as first positional argument and a string expression as second one."""
    found = None
    for node in ast.walk(ast.parse(func_src)):
        if isinstance(node, ast.Call) and isinstance(node.func, ast.Attribute) \
                and node.func.attr == 'warn' and isinstance(node.func.value, ast.Name) \
                and node.func.value.id == 'warnings' and node.args:
            a0 = node.args[0]
            name = a0.attr if isinstance(a0, ast.Attribute) else (a0.id if isinstance(a0, ast.Name) else '')
            if 'Convergence' in ast.unparse(node):
                found = name.endswith('Warning') and len(node.args) >= 2
    return found


def _extract_function(src, name, pyx=False):
    lines = src.split('\n')
    start = None
    for i, l in enumerate(lines):
        if l.startswith('def ' + name + '('):
            start = i
            break
    if start is None:
        raise RuntimeError('function %s not found' % name)
    end = len(lines)
    for j in range(start + 1, len(lines)):
        if lines[j] and not lines[j][0].isspace() and not lines[j].startswith('#') and not lines[j].startswith(')'):
            # a new top-level statement (decorator/def/class)
            if lines[j].startswith(('def ', '@', 'class ', 'cdef ', 'cpdef ')):
                end = j
                break
    return '\n'.join(lines[start:end])


def _warn_call_text(src):
    """the text of the ConvergenceWarning `warnings.warn(...)` call (works for .pyx too)"""
    k = src.find('exception.ConvergenceWarning')
    if k < 0:
        return None
    a = src.rfind('warnings.warn(', 0, k)
    if a < 0:
        return None
    depth, i = 0, a + len('warnings.warn')
    while i < len(src):
        if src[i] == '(':
            depth += 1
        elif src[i] == ')':
            depth -= 1
            if depth == 0:
                return src[a:i + 1]
        i += 1
    return None


def site_facts(repo_dir):
    out = {}
    with open(os.path.join(repo_dir, 'enspara', 'msm', 'builders.py')) as f:
        py = _extract_function(f.read(), '_prinz_mle_py')
    with open(os.path.join(repo_dir, 'enspara', 'msm', 'libmsm.pyx')) as f:
        pyx = f.read()
    for key, src in (('py', py), ('pyx', pyx)):
        call = _warn_call_text(src)
        if call is None:
            raise RuntimeError('ConvergenceWarning call site not found (%s)' % key)
        sw = _warn_swapped(call)
        if sw is None:
            raise RuntimeError('cannot classify warnings.warn call (%s): %s' % (key, call))
        out[key] = bool(sw)
    # the rounding guard in front of `assert c <= 0`, in exactly the form the model mirrors
    guard = re.compile(r'if0<c<=1e-9\*\(C\[i,j\]\+C\[j,i\]\)\*X_rs\[i\]\*X_rs\[j\]:c=0(\.0)?(#[^\n]*)?assertc<=0')

    def has_guard(src):
        lines = [l.split('#')[0] for l in src.split('\n')]
        flat = ''.join(''.join(lines).split())
        return bool(guard.search(flat))
    out['guard'] = has_guard(py) and has_guard(pyx)
    return out


# ----------------------------------------------------------------------------- site facts
# The Lean model has a handful of Boolean "site facts" about the source (is the warnings.warn call
# swapped, is there a rounding guard in front of `assert c <= 0`, ...).  They are read BEHAVIOURALLY:
# the functions are called on small probe inputs (in a child process on a private copy of the tree when
# the translator runs, in-process on the staged tree when the check runs).  The static AST/regex read is
# only a cross-check (`static_agrees`); a refactoring that keeps the behaviour keeps the facts.

GUARD_WITNESSES = [
    [[0, 1, 6], [4, 0, 0], [2, 0, 0]],
    [[0, 6, 0, 0, 0], [7, 5, 2, 9, 6], [0, 6, 0, 0, 0], [0, 4, 0, 0, 0], [0, 1, 0, 0, 0]],
    [[0, 0, 0, 0, 0, 0, 8], [0, 0, 0, 0, 0, 0, 2], [0, 0, 0, 0, 0, 4, 2], [0, 0, 0, 0, 0, 2, 0],
     [0, 0, 0, 0, 0, 0, 9], [0, 0, 2, 4, 0, 5, 2], [4, 1, 1, 0, 1, 7, 2]],
]
SITE_DEFAULTS = {'py': False, 'pyx': False, 'guard': True, 'priorMatrixToArray': True,
                 'transposeHalfIntLiteral': False, 'transposeTotalSum': False}


def _ref_unguarded_c_positive(C, sweeps=400):
    """plain-float port of the UNGUARDED Prinz sweep: does `c` come out positive somewhere?
    (tells whether a witness really exercises the rounding guard in this environment)"""
    import math
    n = len(C)
    C = [[float(x) for x in r] for r in C]
    X = [[C[i][j] + C[j][i] for j in range(n)] for i in range(n)]
    Xrs = [sum(r) for r in X]
    Crs = [sum(r) for r in C]
    for _ in range(sweeps):
        for i in range(n):
            tmp = X[i][i]
            den = Crs[i] - C[i][i]
            if den > 0:
                X[i][i] = C[i][i] * (Xrs[i] - X[i][i]) / den
            Xrs[i] = Xrs[i] + (X[i][i] - tmp)
        for i in range(n - 1):
            for j in range(i + 1, n):
                a = (Crs[i] - C[i][j]) + (Crs[j] - C[j][i])
                b = Crs[i] * (Xrs[j] - X[i][j]) + Crs[j] * (Xrs[i] - X[i][j]) \
                    - (C[i][j] + C[j][i]) * (Xrs[i] + Xrs[j] - 2 * X[i][j])
                c = -(C[i][j] + C[j][i]) * (Xrs[i] - X[i][j]) * (Xrs[j] - X[i][j])
                if c > 0:
                    return True
                v = X[j][i] if a == 0 else (-b + math.sqrt(b * b - 4 * a * c)) / (2 * a)
                Xrs[i] = Xrs[i] + (v - X[i][j])
                Xrs[j] = Xrs[j] + (v - X[j][i])
                X[i][j] = v
                X[j][i] = v
    return False


def site_probe(builders):
    """Behavioural read of the site facts on an importable `enspara.msm.builders`.
    Every entry is True/False, or None when the probe was inconclusive."""
    import scipy.sparse as sp
    out = {}
    C3 = np.array([[3., 1., 0.], [2., 0., 4.], [1., 2., 5.]])
    # warnings.warn(<category>, <message>) swapped?  -> TypeError at the iteration cap
    for key, f in (('py', getattr(builders, '_prinz_mle_py', None)), ('pyx', getattr(builders, '_prinz_mle', None))):
        val = None
        try:
            with warnings.catch_warnings(record=True) as w:
                warnings.simplefilter('always')
                f(C3.copy(), max_iter=1)
            if any('Convergence' in x.category.__name__ for x in w):
                val = False
        except TypeError as e:
            if 'category must be a Warning subclass' in str(e):
                val = True
        except Exception:  # noqa
            val = None
        out[key] = val
    # rounding guard in front of `assert c <= 0`: witnesses on which the unguarded sweep gets c > 0
    wit = [np.array(W, dtype=float) for W in GUARD_WITNESSES if _ref_unguarded_c_positive(W)]
    out['guard_witnesses'] = len(wit)
    for key, f in (('guard_py', getattr(builders, '_prinz_mle_py', None)),
                   ('guard_pyx', getattr(builders, '_prinz_mle', None))):
        val = None
        if wit:
            try:
                with warnings.catch_warnings():
                    warnings.simplefilter('ignore')
                    for W in wit:
                        f(W.copy())
                val = True
            except AssertionError:
                val = False
            except Exception:  # noqa
                val = None
        out[key] = val
    out['guard'] = None if (out['guard_py'] is None or out['guard_pyx'] is None) else \
        bool(out['guard_py'] and out['guard_pyx'])
    # _apply_prior_counts: sparse matrix + ndarray prior -> numpy.matrix left as is?
    Ci = np.array([[2, 1, 0], [1, 0, 3], [2, 1, 1]])
    try:
        with warnings.catch_warnings():
            warnings.simplefilter('ignore')
            Co = builders.normalize(sp.csr_matrix(Ci), prior_counts=np.ones((3, 3)), calculate_eq_probs=False)[0]
        out['priorMatrixToArray'] = not isinstance(Co, np.matrix)
    except Exception:  # noqa
        out['priorMatrixToArray'] = None
    # transpose: C_sym / 2 with an integer divisor truncates integer lil matrices
    try:
        Codd = np.array([[0, 19, 19], [17, 0, 5], [4, 0, 0]])
        with warnings.catch_warnings():
            warnings.simplefilter('ignore')
            Co = builders.transpose(sp.lil_matrix(Codd), calculate_eq_probs=False)[0]
        got = np.asarray(Co.toarray(), dtype=float)
        half = (Codd + Codd.T) / 2.0
        out['transposeHalfIntLiteral'] = True if np.array_equal(got, np.floor(half)) and not np.array_equal(got, half) \
            else (False if np.array_equal(got, half) else None)
    except Exception:  # noqa
        out['transposeHalfIntLiteral'] = None
    # transpose: `C_sym.sum()` without axis fails on a bsr matrix with several blocks larger than 1xk
    try:
        Cb = np.array([[5, 1, 0, 2], [3, 2, 1, 0], [0, 4, 1, 1], [1, 0, 2, 6]])
        A = sp.bsr_matrix(Cb, blocksize=(2, 2))
        S = A + A.T
        blocky = sum(1 for d in np.shape(S.data) if d > 1) > 2
        try:
            S.sum()
            scipy_fails = False
        except ValueError:
            scipy_fails = True
        if blocky and scipy_fails:
            try:
                with warnings.catch_warnings():
                    warnings.simplefilter('ignore')
                    builders.transpose(A, calculate_eq_probs=True)
                out['transposeTotalSum'] = False
            except ValueError as e:
                out['transposeTotalSum'] = True if 'shape too large' in str(e) else None
        else:
            # this scipy does not fail on bsr.sum(): the flag has no observable effect here.  Explicit
            # 'not applicable in this environment' state: the static read is REQUIRED instead.
            out['transposeTotalSum'] = None
            out['transposeTotalSum_not_applicable'] = True
    except Exception:  # noqa
        out['transposeTotalSum'] = None
    return out


_SITE_CHILD = r'''
import sys, os, json, tempfile, shutil, subprocess
repo, here = sys.argv[1], sys.argv[2]
os.environ['VERIF_REPO'] = repo
sys.path.insert(0, here)
import logging
logging.disable(logging.CRITICAL)
import stage
d = tempfile.mkdtemp(prefix='enspara_site_')
try:
    subprocess.run(['rsync', '-a', '--exclude', '*.so', '--exclude', '__pycache__', '--exclude', '*.c',
                    os.path.join(repo, 'enspara'), d], check=True)
    for rel in stage.PYX:                      # extension cache: no lock needed (atomic replace)
        stage._build_ext(d, rel)
    sys.path[:0] = [os.path.join(here, 'mpi_stub'), d]
    from enspara.msm import builders
    import props.c12 as me
    print('SITEJSON:' + json.dumps(me.site_probe(builders)))
finally:
    shutil.rmtree(d, ignore_errors=True)
'''


def _static_site_facts(repo_dir):
    """the earlier AST/regex read; best effort, used as a cross-check only"""
    out = {}
    try:
        st = site_facts(repo_dir)
        out.update({'py': st['py'], 'pyx': st['pyx'], 'guard': st['guard']})
    except Exception as e:  # noqa
        out['static_mle_error'] = str(e)[:200]
    try:
        from . import c04 as _c04
        sb = _c04.builders_site_facts(repo_dir)
        out.update({k: sb[k] for k in ('priorMatrixToArray', 'transposeHalfIntLiteral', 'transposeTotalSum')})
    except Exception as e:  # noqa
        out['static_builders_error'] = str(e)[:200]
    return out


def site_info(repo_dir):
    """All site facts of the tree at `repo_dir`: dynamic probe in a child process on a private copy
    (cached by the hashes of the files involved), static read as cross-check, defaults = the facts of the
    repaired code.  Never raises."""
    import hashlib
    import json
    import subprocess
    import sys
    notes = []
    dyn = None
    try:
        h = hashlib.sha256()
        import glob
        rels = sorted(os.path.relpath(f_, repo_dir) for pat in ('*.py', '*.pyx', '*.pxd')
                      for f_ in glob.glob(os.path.join(repo_dir, 'enspara', 'msm', pat)))
        h.update(('|'.join(rels)).encode())
        for rel in rels + ['enspara/exception.py', 'enspara/__init__.py']:
            try:
                with open(os.path.join(repo_dir, rel), 'rb') as f:
                    h.update(f.read())
            except OSError:
                h.update(b'missing:' + rel.encode())
        import scipy
        h.update(('%s|%s|%s|probe-v3' % (np.__version__, scipy.__version__, sys.version)).encode())
        here = os.path.dirname(os.path.dirname(os.path.abspath(__file__)))
        cdir = os.path.join(os.path.dirname(here), '.cache', 'msm_site')
        cpath = os.path.join(cdir, h.hexdigest()[:24] + '.json')
        if os.path.exists(cpath):
            try:
                with open(cpath) as f:
                    dyn = json.load(f)
            except Exception:  # noqa
                dyn = None
        if dyn is None:
            r = subprocess.run([sys.executable, '-c', _SITE_CHILD, repo_dir, here], capture_output=True, text=True,
                               timeout=600, env={k: v for k, v in os.environ.items() if k != 'PYTHONPATH'})
            lines = [l for l in r.stdout.split('\n') if l.startswith('SITEJSON:')]
            if r.returncode != 0 or not lines:
                raise RuntimeError((r.stderr or r.stdout)[-500:])
            dyn = json.loads(lines[-1][9:])
            os.makedirs(cdir, exist_ok=True)
            tmp = cpath + '.tmp%d' % os.getpid()
            with open(tmp, 'w') as f:
                json.dump(dyn, f)
            os.replace(tmp, cpath)
    except Exception as e:  # noqa
        notes.append('dynamic probe failed: %s' % str(e)[-300:])
        dyn = None
    try:
        static = _static_site_facts(repo_dir)
    except Exception as e:  # noqa
        static = {}
        notes.append('static read failed: %s' % str(e)[:200])
    facts, source, agrees = {}, {}, True
    for k, default in SITE_DEFAULTS.items():
        d = None if dyn is None else dyn.get(k)
        s = static.get(k)
        if d is not None:
            facts[k], source[k] = bool(d), 'dynamic'
            if s is not None and bool(s) != bool(d):
                agrees = False
        elif s is not None:
            facts[k], source[k] = bool(s), 'static'
        else:
            facts[k], source[k] = default, 'default'
    vacuous = sorted(k for k, v in source.items() if v == 'default')
    static_only = sorted(k for k, v in source.items() if v == 'static')
    if vacuous:
        notes.append('NOT ESTABLISHED (neither probe nor static read; repaired-code default written): %s'
                     % ', '.join(vacuous))
    if dyn is not None and dyn.get('guard_witnesses') == 0:
        notes.append('guard probe vacuous: no witness makes c > 0 in this environment')
    return {'facts': facts, 'source': source, 'static_agrees': agrees, 'static': static, 'dynamic': dyn,
            'notes': notes, 'vacuous': vacuous, 'static_only': static_only}


def check_site_facts(ctx, builders, generated, names, strict=False):
    """run-time tie between the generated site facts (what the Lean model was built with) and the STAGED
    code: in-process behavioural probe; a vacuous probe is never silent.  Returns the probe values."""
    import stage
    pr = site_probe(builders)
    static = None
    out = {}
    if any(k in names for k in ('guard',)) and pr.get('guard_witnesses') == 0:
        ctx.disagreement('site fact guard could not be established (probe vacuous: no witness matrix makes '
                         'c > 0 in this environment)', {'probe': pr})
    for k in names:
        v = pr.get(k)
        out[k] = v
        if v is not None:
            if bool(generated.get(k)) != bool(v):
                ctx.disagreement('generated site fact %s=%s differs from the behaviour of the staged code (%s)'
                                 % (k, generated.get(k), v), {'generated': generated, 'probe': pr})
            continue
        # probe inconclusive: the static read is required
        if static is None:
            try:
                static = _static_site_facts(stage.REPO)
            except Exception as e:  # noqa
                static = {'error': str(e)[:200]}
        na = bool(pr.get(k + '_not_applicable'))
        if static.get(k) is None:
            ctx.disagreement('site fact %s could not be established (probe vacuous%s, static read unavailable)'
                             % (k, ': not applicable in this environment' if na else ''),
                             {'probe': pr, 'static': static})
        else:
            ctx.tag('site-fact-static-only:' + k)
            ctx.note('site_fact_static_only_' + k,
                     'not applicable in this environment (static read used)' if na else 'probe inconclusive')
            if strict and not na:
                ctx.disagreement('site fact %s: behavioural probe inconclusive on the staged code' % k,
                                 {'probe': pr, 'static': static})
            elif bool(static[k]) != bool(generated.get(k)):
                ctx.disagreement('generated site fact %s=%s differs from the static read (%s)'
                                 % (k, generated.get(k), static[k]), {'generated': generated, 'static': static})
    return out


def _write_if_changed(path, text):
    old = None
    if os.path.exists(path):
        with open(path) as f:
            old = f.read()
    if old != text:
        os.makedirs(os.path.dirname(path), exist_ok=True)
        with open(path, 'w') as f:
            f.write(text)
        return True
    return False


def translate(repo_dir, gen_dir):
    """never raises: on any trouble the facts of the repaired code are written and the trouble is reported"""
    try:
        info = site_info(repo_dir)
    except Exception as e:  # noqa
        info = {'facts': dict(SITE_DEFAULTS), 'source': {}, 'static_agrees': None, 'notes': ['site_info: %s' % e]}
    facts = info['facts']
    text = '''/-! GENERATED by harness/props/c12.py:translate from enspara/msm/builders.py and
enspara/msm/libmsm.pyx (behavioural probe of the two estimators, static read as cross-check) — do
not edit.  Facts about the two Prinz estimators:
`warnSwapped*`: `true` when the `warnings.warn` call passes the warning *class* as the message and
the text as the category (`warnings.warn(exception.ConvergenceWarning, "...")`), which makes
CPython raise `TypeError` instead of warning.
`cRoundingGuard`: both estimators reset a tiny positive `c` to zero in front of `assert c <= 0`
(`if 0 < c <= 1e-9 * (C[i, j] + C[j, i]) * X_rs[i] * X_rs[j]: c = 0.0`). -/
namespace Ens.Generated.MleSite
def warnSwappedPy : Bool := %s
def warnSwappedPyx : Bool := %s
def cRoundingGuard : Bool := %s
end Ens.Generated.MleSite
''' % ('true' if facts['py'] else 'false', 'true' if facts['pyx'] else 'false',
       'true' if facts['guard'] else 'false')
    try:
        changed = _write_if_changed(os.path.join(gen_dir, 'MleSite.lean'), text)
    except Exception as e:  # noqa
        changed = False
        info.setdefault('notes', []).append('write failed: %s' % e)
    return {'summary': 'MleSite: warnSwappedPy=%s warnSwappedPyx=%s cRoundingGuard=%s%s [%s; static_agrees=%s]%s' %
            (facts['py'], facts['pyx'], facts['guard'], ' (rewritten)' if changed else '',
             '/'.join(sorted(set(info.get('source', {}).values()))) or 'default', info.get('static_agrees'),
             (' notes: ' + '; '.join(info['notes'])) if info.get('notes') else ''),
            'facts': {'py': facts['py'], 'pyx': facts['pyx'], 'guard': facts['guard']},
            'static_agrees': info.get('static_agrees'), 'source': info.get('source'), 'all_facts': facts,
            'notes': info.get('notes', []), 'vacuous_facts': info.get('vacuous', []),
            'static_only_facts': info.get('static_only', [])}


# ----------------------------------------------------------------------------- helpers

def bits(x):
    return struct.unpack('<Q', struct.pack('<d', float(x)))[0]


def unbits(b):
    return struct.unpack('<d', struct.pack('<Q', int(b)))[0]


def mat_bits(C):
    return [[bits(x) for x in row] for row in np.asarray(C, dtype=float)]


def mat_unbits(rows):
    return np.array([[unbits(b) for b in row] for row in rows], dtype=float).reshape(len(rows), -1)


def strongly_connected(C):
    from scipy.sparse.csgraph import connected_components
    k, _ = connected_components(np.asarray(C) > 0, directed=True, connection='strong')
    return k == 1


def gen_matrix(rng, n, kind):
    """non-negative, strongly connected (a random Hamiltonian cycle is laid over the draw)"""
    while True:
        if kind == 'int-dense':
            C = rng.integers(1, 31, size=(n, n)).astype(float)
        elif kind == 'int-sparse':
            C = (rng.integers(1, 21, size=(n, n)) * (rng.random((n, n)) < 0.5)).astype(float)
        elif kind == 'real':
            C = rng.uniform(0.05, 40, size=(n, n)) * (rng.random((n, n)) < 0.7)
        elif kind == 'real-wide':
            C = np.exp(rng.uniform(np.log(1e-2), np.log(1e3), size=(n, n))) * (rng.random((n, n)) < 0.7)
        elif kind == 'symmetric':
            A = rng.integers(0, 15, size=(n, n))
            C = (A + A.T).astype(float)
        elif kind == 'asym':
            C = rng.integers(0, 3, size=(n, n)).astype(float)
            for i in range(n):
                C[i, i] = rng.integers(0, 50)
                for j in range(n):
                    if i != j and 0 < (j - i) % n <= max(1, (n - 1) // 2):
                        C[i, j] = rng.integers(50, 500)
        elif kind == 'zero-diag':
            C = rng.integers(0, 20, size=(n, n)).astype(float)
            C[np.diag_indices(n)] = 0
        elif kind == 'metastable':
            C = rng.integers(0, 4, size=(n, n)).astype(float)
            C[np.diag_indices(n)] = rng.integers(100, 2000, size=n)
        else:
            raise ValueError(kind)
        perm = rng.permutation(n)
        for a in range(n):
            i, j = int(perm[a]), int(perm[(a + 1) % n])
            if i != j and C[i, j] == 0:
                C[i, j] = float(rng.integers(1, 4))
        if strongly_connected(C) and np.all(C.sum(axis=1) > 0):
            return C


STRUCT_SHAPES = ['pendant-hub', 'pendant-chain', 'pendant-core-rare', 'pendant-mixed',
                 'self-plus-one', 'near-closed-pair']


def gen_structured(rng, n, shape, real=False):
    """Strongly connected count matrices with the local structures on which the pair / diagonal
    updates degenerate (c == 0, X_rs[i] == X[i,j], tiny a):
      pendant state      zero diagonal, exactly one partner, counts in both directions
      self-plus-one      only self counts plus one partner (both directions)
      near-closed pair   two states exchanging counts almost only with each other (a small, not 0)
    k >= 2 such states per matrix (as many as fit), 3 <= n <= 8."""
    def cnt(lo, hi):
        return float(rng.uniform(lo, hi)) if real else float(rng.integers(int(lo), int(hi) + 1))

    assert n >= 3
    C = np.zeros((n, n))
    if shape in ('pendant-hub', 'pendant-chain', 'pendant-core-rare', 'pendant-mixed', 'self-plus-one'):
        kmax = n - 1 if shape == 'pendant-hub' else max(2, n - 2)
        k = int(rng.integers(2, kmax + 1)) if kmax >= 2 else 2
        k = min(k, n - 1)
        m = n - k                      # core states 0..m-1, special states m..n-1
        big = shape == 'pendant-core-rare'
        # core
        if shape == 'pendant-hub':
            m, k = 1, n - 1 if rng.random() < 0.5 else k
            m = n - k
        for i in range(m):
            C[i, i] = cnt(50, 400) if big else cnt(0, 9)
        if shape == 'pendant-chain':
            for i in range(m - 1):
                C[i, i + 1] = cnt(1, 9)
                C[i + 1, i] = cnt(1, 9)
        else:
            for i in range(m):
                for j in range(m):
                    if i != j and (big or rng.random() < 0.8):
                        C[i, j] = cnt(20, 200) if big else cnt(1, 12)
            for i in range(m - 1):      # keep the core connected
                if C[i, i + 1] == 0:
                    C[i, i + 1] = cnt(1, 5)
                if C[i + 1, i] == 0:
                    C[i + 1, i] = cnt(1, 5)
        if m == 1 and C[0, 0] == 0 and rng.random() < 0.5:
            C[0, 0] = cnt(1, 9)
        # special states, each attached to one core state (several may share a partner)
        for s_ in range(m, n):
            p = int(rng.integers(0, m)) if shape != 'pendant-chain' else int(rng.choice([0, m - 1, int(rng.integers(0, m))]))
            lo, hi = (1, 3) if big else (1, 9)
            C[s_, p] = cnt(lo, hi)
            C[p, s_] = cnt(lo, hi)
            if shape == 'self-plus-one' or (shape == 'pendant-mixed' and (s_ - m) % 2 == 1):
                C[s_, s_] = cnt(1, 30)
    elif shape == 'near-closed-pair':
        # states 0,1 exchange counts with each other, a single rare exit/entry links them to the rest
        C[0, 1], C[1, 0] = cnt(20, 300), cnt(20, 300)
        if rng.random() < 0.5:
            C[0, 0] = cnt(0, 50)
        if rng.random() < 0.5:
            C[1, 1] = cnt(0, 50)
        for i in range(2, n):
            C[i, i] = cnt(0, 9)
            for j in range(2, n):
                if i != j and rng.random() < 0.8:
                    C[i, j] = cnt(1, 12)
        for i in range(2, n - 1):
            if C[i, i + 1] == 0:
                C[i, i + 1] = cnt(1, 5)
            if C[i + 1, i] == 0:
                C[i + 1, i] = cnt(1, 5)
        C[int(rng.integers(0, 2)), 2] = cnt(1, 2)          # the rare exit
        C[int(rng.integers(2, n)), int(rng.integers(0, 2))] = cnt(1, 2)   # the rare entry
    else:
        raise ValueError(shape)
    # random relabelling: the update order (i < j) must not matter for the checks
    perm = rng.permutation(n)
    C = C[np.ix_(perm, perm)]
    if not (strongly_connected(C) and np.all(C.sum(axis=1) > 0)):
        return gen_structured(rng, n, shape, real)
    return C


def closed_pair_matrix(rng, n):
    """OUTSIDE the property's quantifier (not strongly connected): states 0,1 send counts only to
    each other (a == 0 for that pair) while the rest of the chain feeds into them.  Used only for
    the model/implementation correspondence of the `a == 0` branch."""
    C = np.zeros((n, n))
    C[0, 1], C[1, 0] = float(rng.integers(1, 20)), float(rng.integers(1, 20))
    for i in range(2, n):
        for j in range(n):
            if rng.random() < 0.7:
                C[i, j] = float(rng.integers(1, 12))
        if C[i].sum() - C[i, i] == 0:
            C[i, 0] = 1.0
    return C


def sparse_with_duplicates(C, fmt):
    """scipy sparse *matrix* holding C with UN-SUMMED repeated (row, col) entries:
    coo built from a transition list (one unit entry per count, the way assigns_to_counts builds it),
    csr/csc assembled directly from (data, indices, indptr) with repeated, unsorted indices
    (has_canonical_format False).  Non-integer or large entries are split in two halves."""
    import scipy.sparse as sp
    C = np.asarray(C)
    n = len(C)
    rows, cols, data = [], [], []
    for i in range(n):
        for j in range(n):
            x = C[i, j]
            if x == 0:
                continue
            if x == np.round(x) and 0 < x <= 60:
                parts = [C.dtype.type(1)] * int(x)
            else:
                parts = [x / 2, x - x / 2]
            rows += [i] * len(parts)
            cols += [j] * len(parts)
            data += parts
    m = len(rows)
    order = sorted(range(m), key=lambda k: (k * 7919 + 13) % max(m, 1))     # fixed scrambling
    rows = np.array(rows, dtype=np.int32)[order]
    cols = np.array(cols, dtype=np.int32)[order]
    data = np.array(data, dtype=C.dtype)[order]
    if fmt == 'coo':
        A = sp.coo_matrix((data, (rows, cols)), shape=(n, n))
    elif fmt in ('csr', 'csc'):
        major, minor = (rows, cols) if fmt == 'csr' else (cols, rows)
        o = np.argsort(major, kind='stable')
        indptr = np.concatenate([[0], np.cumsum(np.bincount(major, minlength=n))]).astype(np.int32)
        cls = sp.csr_matrix if fmt == 'csr' else sp.csc_matrix
        A = cls((data[o], minor[o], indptr), shape=(n, n))
    else:
        raise ValueError(fmt)
    assert np.array_equal(A.copy().toarray(), C) or np.allclose(A.copy().toarray(), C, rtol=1e-15, atol=0)
    return A


def walk_assignments(rng, n, length, ntraj=2):
    """random state trajectories (a lazy random walk over a random strongly connected graph)"""
    G = gen_matrix(rng, n, 'int-sparse') if n >= 2 else np.ones((1, 1))
    P = G / G.sum(axis=1, keepdims=True)
    out = []
    for _ in range(ntraj):
        s_ = int(rng.integers(0, n))
        t = [s_]
        for _ in range(length - 1):
            s_ = int(rng.choice(n, p=P[s_]))
            t.append(s_)
        out.append(t)
    return np.array(out, dtype=int)


def counts_from_assignments(rng, n):
    """(A, C): the coo_matrix that the real assigns_to_counts returns (repeated coordinates, not summed)
    for random trajectories, and its dense value; retried until strongly connected"""
    from enspara.msm.transition_matrices import assigns_to_counts
    for _ in range(200):
        a = walk_assignments(rng, n, int(rng.integers(12 * n, 40 * n)))
        A = assigns_to_counts(a, lag_time=1, max_n_states=n)
        C = np.asarray(A.copy().toarray())
        if np.all(C.sum(axis=1) > 0) and strongly_connected(C):
            return A, C
    raise RuntimeError('no strongly connected count matrix from random walks')


def count_pendants(C):
    """states with zero self count and exactly one partner (counts in either direction)"""
    n = len(C)
    S = (C + C.T) > 0
    return int(sum(1 for i in range(n) if C[i, i] == 0 and S[i].sum() - S[i, i] == 1))


def loglik(C, T):
    """sum_ij C_ij log T_ij over the observed transitions (the property's likelihood)"""
    m = C > 0
    with np.errstate(divide='ignore', invalid='ignore'):
        return float(np.sum(C[m] * np.log(T[m])))


def prinz_residual(C, T, pi):
    """largest relative residual of the Prinz self-consistency equations, evaluated on
    x_ij = pi_i T_ij (the equations are homogeneous in x)"""
    n = len(C)
    x = pi[:, None] * T
    xr = x.sum(axis=1)
    cr = C.sum(axis=1)
    worst = 0.0
    for i in range(n):
        if cr[i] - C[i, i] > 0:
            l, r = x[i, i] * cr[i], C[i, i] * xr[i]
            if abs(l) + abs(r) > 0:
                worst = max(worst, abs(l - r) / (abs(l) + abs(r)))
        for j in range(i + 1, n):
            if (cr[i] - C[i, j]) + (cr[j] - C[j, i]) != 0:
                l = (C[i, j] + C[j, i]) * xr[i] * xr[j]
                r = x[i, j] * (cr[i] * xr[j] + cr[j] * xr[i])
                if abs(l) + abs(r) > 0:
                    worst = max(worst, abs(l - r) / (abs(l) + abs(r)))
    return worst


def validity_problem(T, pi, tol=1e-9):
    """None or a description: row-stochastic, pi probability vector, detailed balance"""
    T = np.asarray(T, dtype=float)
    pi = np.asarray(pi, dtype=float)
    if not np.all(np.isfinite(T)) or not np.all(np.isfinite(pi)):
        return 'non-finite entries'
    if np.any(T < 0) or np.any(pi < 0):
        return 'negative entries'
    if np.max(np.abs(T.sum(axis=1) - 1)) > tol:
        return 'rows do not sum to 1'
    if abs(pi.sum() - 1) > tol:
        return 'pi does not sum to 1'
    F = pi[:, None] * T
    if np.max(np.abs(F - F.T)) > tol:
        return 'detailed balance violated'
    if np.max(np.abs(pi @ T - pi)) > tol:
        return 'pi not stationary'
    return None


def _assert_site(e):
    """source text of the `assert` that failed (works for the compiled module through the staged .pyx)"""
    import traceback
    try:
        tb = traceback.extract_tb(e.__traceback__)[-1]
        line = (tb.line or '').strip()
        if not line and str(tb.filename).endswith('.pyx'):
            from enspara.msm import builders
            path = os.path.join(os.path.dirname(builders.__file__), os.path.basename(tb.filename))
            with open(path) as f:
                line = f.read().split('\n')[tb.lineno - 1].strip()
        return line
    except Exception:  # noqa
        return ''


class _CpuTimeout(Exception):
    pass


class cpu_limit:
    """interrupt a pure-Python computation after `seconds` of CPU time (SIGVTALRM; the runner's
    own wall-clock guard uses SIGALRM)"""

    def __init__(self, seconds):
        self.seconds = seconds

    def __enter__(self):
        import signal

        def handler(signum, frame):
            raise _CpuTimeout()
        self.old = signal.signal(signal.SIGVTALRM, handler)
        signal.setitimer(signal.ITIMER_VIRTUAL, self.seconds)

    def __exit__(self, *exc):
        import signal
        signal.setitimer(signal.ITIMER_VIRTUAL, 0)
        signal.signal(signal.SIGVTALRM, self.old)
        return False


def call_impl(f, C, cpu_seconds=None, **kw):
    """run an estimator; returns dict(ok=(T,pi), warned=[...]) or dict(error=kind, msg=...)"""
    try:
        with warnings.catch_warnings(record=True) as w:
            warnings.simplefilter('always')
            if cpu_seconds:
                with cpu_limit(cpu_seconds):
                    T, pi = f(C, **kw)
            else:
                T, pi = f(C, **kw)
        cats = [x.category.__name__ for x in w]
        return {'ok': (np.asarray(T, dtype=float), np.asarray(pi, dtype=float)), 'warned': cats}
    except _CpuTimeout:
        return {'error': 'cpu-timeout', 'msg': 'exceeded %s s of CPU time' % cpu_seconds}
    except AssertionError as e:
        return {'error': 'assertion', 'msg': str(e)[:200], 'site': _assert_site(e)}
    except TypeError as e:
        if 'category must be a Warning subclass' in str(e):
            return {'error': 'type-error', 'msg': str(e)[:200]}
        return {'error': 'TypeError', 'msg': str(e)[:200]}
    except UnboundLocalError as e:
        return {'error': 'unbound', 'msg': str(e)[:200]}
    except Exception as e:  # noqa
        return {'error': type(e).__name__, 'msg': str(e)[:200]}


def model_req(C, impl, tol=1e-10, max_iter=10 ** 5):
    return {'op': 'C12.run', 'n': len(C), 'C': mat_bits(C), 'impl': impl, 'tol': bits(tol),
            'max_iter': int(max_iter)}


def model_result(resp):
    if 'error' in resp:
        return {'error': resp['error']}
    o = resp['ok']
    return {'ok': (mat_unbits(o['T']), np.array([unbits(b) for b in o['pi']])),
            'n_iter': o['n_iter'], 'warned': o['warned']}


def maxdiff(a, b):
    return max(float(np.max(np.abs(a[0] - b[0]))), float(np.max(np.abs(a[1] - b[1]))))


def _decide_with_doubled_tol(ctx, C, impl, ref, rerun):
    """both sides with tol=2e-10: they must stop before the cap, agree with each other and with
    the side that had stopped at tol=1e-10 (`ref`)"""
    g2 = rerun(2e-10)
    m2 = model_result(ctx.driver([model_req(C, impl, tol=2e-10)])[0])
    if 'ok' in g2 and 'ok' in m2 and 'ConvergenceWarning' not in g2.get('warned', []) \
            and not m2.get('warned') and maxdiff(g2['ok'], m2['ok']) <= 1e-6 \
            and maxdiff(g2['ok'], ref['ok']) <= 1e-6:
        ctx.skip('stopping test at rounding-noise level: model and implementation stop many sweeps apart (or one runs to the '
                 'iteration cap); both stop and agree within 1e-6 with tol=2e-10')
        return True
    return False


def compare_with_model(ctx, C, impl, got, mres, what, replay, rerun=None, tol=TOL_MODEL):
    """got: call_impl result of the real code, mres: model_result.  Returns True when they agree.
    rerun(tol) re-runs the implementation with another tolerance (used when one side ran into the
    iteration cap because its pseudo log-likelihood keeps changing at rounding-noise level)."""
    if 'error' in got or 'error' in mres:
        if got.get('error') == mres.get('error'):
            return True
        if {got.get('error'), mres.get('error')} == {'type-error', None} and rerun is not None:
            # (regressed call site) one side stopped, the other ran to the cap
            if _decide_with_doubled_tol(ctx, C, impl, got if 'ok' in got else mres, rerun):
                return True
        ctx.disagreement('%s: implementation %s vs model %s' % (
            what, got.get('error', 'returned'), mres.get('error', 'returned')), replay)
        return False
    d = maxdiff(got['ok'], mres['ok'])
    if d <= tol:
        return True
    cap_real = 'ConvergenceWarning' in got.get('warned', [])
    cap_model = bool(mres.get('warned'))
    if cap_real != cap_model and rerun is not None:
        # one side stopped while the other's pseudo log-likelihood kept changing at rounding-noise
        # level until the iteration cap
        if _decide_with_doubled_tol(ctx, C, impl, mres if cap_real else got, rerun):
            return True
    # the convergence test compares libm/numpy logarithms: look at neighbouring iterates
    k = mres['n_iter'] + 1
    # slowly converging inputs: |dlogl| hovers around tol for many sweeps, so the stopping sweep of
    # model and implementation (different log implementations, 8-term sums) may be several sweeps apart
    ks = [k + o for o in (-1, 1, -2, 2, -3, 3, -4, 4, -5, 5, -6, 6, -8, 8, -10, 10, -12, 12) if k + o >= 1]
    r = ctx.driver([{'op': 'C12.iterates', 'n': len(C), 'C': mat_bits(C), 'impl': impl, 'ks': ks}])[0]
    for kk, it in zip(ks, r.get('ok', [])):
        if 'ok' in it:
            cand = (mat_unbits(it['ok']['T']), np.array([unbits(b) for b in it['ok']['pi']]))
            if maxdiff(got['ok'], cand) <= tol:
                ctx.skip('stopping test rounding-sensitive: implementation matches the model iterate %+d sweeps away' % (kk - k))
                return True
    if rerun is not None and d <= 1e-6:
        # |dlogl| hovers at the tolerance for thousands of sweeps on slowly converging inputs, so model
        # and implementation may stop far apart although both are within 1e-6 of each other
        if _decide_with_doubled_tol(ctx, C, impl, mres, rerun):
            return True
    ctx.disagreement('%s: T/pi differ from the Float model by %.3g' % (what, d), replay)
    return False


# ----------------------------------------------------------------------------- the check

def confirm_budget(ctx):
    """the expensive "is it only the stopping sweep?" re-runs protect against false alarms; once
    several unexplained violations are on record they are pointless and only cost time"""
    return sum(1 for v in ctx.violations if v.get('key') is None) < 8


def case_dict(C, kind):
    return {'kind': kind, 'n': len(C), 'C': mat_bits(C)}


def check_matrix(ctx, C, kind, m_py, m_c, sparse_fmt=None, int_dtype=False, prebuilt=None):
    """all checks for one matrix; m_py/m_c are the model results for both flavours"""
    from enspara.msm import builders
    import scipy.sparse as sp
    rep = case_dict(C, kind)
    n = len(C)
    tags = ['kind=' + kind, 'n=%d' % n]
    if kind.startswith('struct:'):
        tags.append('pendants=%d' % min(count_pendants(C), 4))
        tags.append('real-counts' if np.any(C != np.round(C)) else 'int-counts')
    ctx.case(rep, nontrivial=True, tags=tags)

    results = {}
    # compiled first (cheap), then the pure-Python one unless hopeless for the time budget
    got_c = call_impl(builders._prinz_mle, np.array(C, dtype=float))
    results['compiled'] = got_c
    run_py = not ('ok' in m_py and m_py['n_iter'] > PY_SWEEP_BUDGET) and m_py.get('error') != 'type-error'
    if run_py:
        snap = C.tobytes()
        got_p = call_impl(builders._prinz_mle_py, C, cpu_seconds=ctx.n(20, 90))
        if C.tobytes() != snap:
            ctx.violation('_prinz_mle_py modified its argument', dict(rep, via='py'))
        results['py'] = got_p
    else:
        ctx.skip('pure-Python estimator not run: model needs more than %d sweeps' % PY_SWEEP_BUDGET)

    fimpl = {'py': builders._prinz_mle_py, 'compiled': builders._prinz_mle}
    for impl, got in results.items():
        mres = m_py if impl == 'py' else m_c
        r = dict(rep, via=impl)
        if got.get('error') == 'cpu-timeout':
            ctx.skip('pure-Python estimator stopped by the CPU-time guard (slow convergence)')
            continue

        def rerun(tol, _f=fimpl[impl]):
            return call_impl(_f, np.array(C, dtype=float), cpu_seconds=ctx.n(20, 90), tol=tol)
        # "terminates with a model (or a convergence warning) rather than an internal failure"
        if 'error' in got:
            if got['error'] == 'type-error':
                ctx.tag('default-cap-reached')
                ctx.violation('%s estimator: iteration cap reached and warnings.warn raised TypeError '
                              'instead of a ConvergenceWarning' % impl, r)
            elif got['error'] == 'assertion':
                # `assert c <= 0` is a theorem in exact arithmetic (C12.c_nonpos): when it fires and the
                # Float model fires too, it is the rounding of the running row sums
                ctx.tag('assertion-fired')
                ctx.violation('%s estimator ended in an AssertionError at `%s` %s' % (
                    impl, got.get('site', '?'), got['msg']), r)
            else:
                ctx.violation('%s estimator raised %s: %s' % (impl, got['error'], got['msg']), r)
            compare_with_model(ctx, C, impl, got, mres, '%s estimator' % impl, r, rerun=rerun)
            continue
        T, pi = got['ok']
        prob = validity_problem(T, pi)
        if prob:
            ctx.violation('%s estimator: %s' % (impl, prob), r)
            continue
        compare_with_model(ctx, C, impl, got, mres, '%s estimator' % impl, r, rerun=rerun)
        if 'ConvergenceWarning' in got.get('warned', []):
            # the property allows "a model or a convergence warning": an unconverged iterate is
            # valid (checked above) but need not satisfy the fixed-point equations yet
            ctx.tag('default-cap-reached-with-warning')
            continue
        # Prinz self-consistency
        res = prinz_residual(C, T, pi)
        if res > TOL_RESID.get(kind, TOL_RESID_DEFAULT) and not confirm_budget(ctx):
            ctx.violation('%s estimator: Prinz self-consistency residual %.3g' % (impl, res), r)
        elif res > TOL_RESID.get(kind, TOL_RESID_DEFAULT):
            tight = call_impl(builders._prinz_mle, np.array(C, dtype=float), tol=1e-13, max_iter=10 ** 6)
            if 'ok' in tight and 'ConvergenceWarning' not in tight['warned'] and \
                    prinz_residual(C, *tight['ok']) <= TOL_RESID_DEFAULT and \
                    maxdiff(tight['ok'], got['ok']) <= 1e-3:
                ctx.skip('Prinz residual above tolerance at tol=1e-10 but the iteration is still converging (stop-sensitive)')
            else:
                ctx.violation('%s estimator: Prinz self-consistency residual %.3g' % (impl, res), r)
        # likelihood dominance
        L = loglik(C, T)
        tolL = TOL_LOGL * (1 + abs(L))
        S = C + C.T
        Tt = S / S.sum(axis=1, keepdims=True)
        if loglik(C, Tt) > L + tolL:
            ctx.violation('%s estimator: log-likelihood %.12g below the transpose estimate %.12g'
                          % (impl, L, loglik(C, Tt)), r)
        X = pi[:, None] * T
        X = (X + X.T) / 2
        supp = X > 0
        for trial in range(4):
            if trial < 2:       # random reversible matrix on the same support
                Y = ctx.rng.uniform(0.05, 1.0, size=(n, n))
                Y = (Y + Y.T) * supp
            else:               # small symmetric perturbation of the result (local optimality)
                E = ctx.rng.normal(size=(n, n))
                Y = X * np.exp((1e-2 if trial == 2 else 1e-4) * (E + E.T))
            if np.any(Y.sum(axis=1) <= 0):
                continue
            Ty = Y / Y.sum(axis=1, keepdims=True)
            Ly = loglik(C, Ty)
            ctx.tag('competitor')
            if Ly > L + tolL:
                ctx.violation('%s estimator: a reversible competitor has higher log-likelihood '
                              '(%.12g > %.12g)' % (impl, Ly, L), dict(r, competitor=mat_bits(Ty)))
                break

    # the two implementations against each other
    capped = any('ConvergenceWarning' in r_.get('warned', []) for r_ in results.values())
    if 'py' in results and 'ok' in results['py'] and 'ok' in got_c and not capped:
        d = maxdiff(results['py']['ok'], got_c['ok'])
        ctx.tag('cross-impl')
        if d > TOL_CROSS.get(kind, TOL_CROSS_DEFAULT) and not confirm_budget(ctx):
            ctx.violation('compiled and pure-Python estimators disagree by %.3g' % d, dict(rep, via='cross'))
        elif d > TOL_CROSS.get(kind, TOL_CROSS_DEFAULT):
            # they stop at different sweeps (log vs log10 in the convergence test): tighten both
            tp = call_impl(builders._prinz_mle_py, C, tol=1e-12, max_iter=3000)
            tc = call_impl(builders._prinz_mle, np.array(C, dtype=float), tol=1e-12 / np.log(10), max_iter=3000)
            if 'ok' in tp and 'ok' in tc and 'ConvergenceWarning' in tp['warned'] + tc['warned']:
                ctx.skip('py/compiled cross check undecided (slow convergence)')
            elif 'ok' in tp and 'ok' in tc and maxdiff(tp['ok'], tc['ok']) <= 1e-7:
                ctx.skip('py/compiled differ at tol=1e-10 only through their stopping sweep')
            elif 'ok' in tp and 'ok' in tc:
                ctx.violation('compiled and pure-Python estimators disagree by %.3g' % d, dict(rep, via='cross'))
            else:
                ctx.skip('py/compiled cross check undecided (slow convergence)')

    def fimpl_rerun_py(tol):
        return call_impl(builders._prinz_mle_py, C, cpu_seconds=ctx.n(20, 90), tol=tol)

    # builders.mle: dense int / dense float / sparse (not repeated for runs that went to the cap)
    if 'py' in results and 'ok' in results['py'] and not capped:
        arg = C
        if int_dtype and np.all(C == np.round(C)):
            arg = C.astype(np.int64)
            ctx.tag('mle-int-dtype')
        if sparse_fmt == 'coo+assigns' and prebuilt is not None:
            arg = prebuilt.copy()
            ctx.tag('mle-coo+assigns')
        elif sparse_fmt and '+' in sparse_fmt:
            arg = sparse_with_duplicates(arg, sparse_fmt.split('+')[0])
            ctx.tag('mle-' + sparse_fmt)
        elif sparse_fmt:
            arg = getattr(sp, sparse_fmt.split('+')[0] + '_matrix')(arg)
            ctx.tag('mle-' + sparse_fmt)
        else:
            ctx.tag('mle-ndarray')
        snap_arg = (type(arg).__name__, str(arg.dtype), np.asarray(arg.copy().toarray() if sp.issparse(arg) else arg).tobytes())
        try:
            with warnings.catch_warnings():
                warnings.simplefilter('ignore')
                Co, To, pio = builders.mle(arg)
            if snap_arg != (type(arg).__name__, str(arg.dtype),
                            np.asarray(arg.copy().toarray() if sp.issparse(arg) else arg).tobytes()):
                ctx.violation('builders.mle modified the caller\'s matrix', dict(rep, via='builders.mle', fmt=sparse_fmt))
            To = np.asarray(To.toarray() if sp.issparse(To) else To, dtype=float)
            got = {'ok': (To, np.asarray(pio, dtype=float))}
        except AssertionError as e:
            got = {'error': 'assertion', 'msg': str(e)[:100], 'site': _assert_site(e)}
        except Exception as e:  # noqa
            got = {'error': type(e).__name__, 'msg': str(e)[:100]}
        r = dict(rep, via='builders.mle', fmt=sparse_fmt, int_dtype=bool(int_dtype))
        if 'error' in got:
            ctx.violation('builders.mle raised %s (%s)' % (got['error'], got.get('site') or got['msg']), r)
            compare_with_model(ctx, C, 'py', got, m_py, 'builders.mle', r)
        else:
            prob = validity_problem(*got['ok'])
            if prob:
                ctx.violation('builders.mle: %s' % prob, r)
            else:
                # the quantifier says "dense or sparse": the sparse input is densified, estimated and
                # re-wrapped, so the result must be the estimator's result on the dense counts and
                # satisfy the same fixed-point / likelihood clauses for the counts that were passed in
                dd = maxdiff(got['ok'], results['py']['ok'])
                res = prinz_residual(C, *got['ok'])
                L = loglik(C, got['ok'][0])
                S = C + C.T
                Lt = loglik(C, S / S.sum(axis=1, keepdims=True))
                if dd > 1e-9:
                    ctx.violation('builders.mle(%s input) differs from the estimator on the same counts by %.3g'
                                  % (sparse_fmt or 'ndarray', dd), r)
                elif res > TOL_RESID.get(kind, TOL_RESID_DEFAULT) and \
                        prinz_residual(C, *results['py']['ok']) <= TOL_RESID.get(kind, TOL_RESID_DEFAULT):
                    ctx.violation('builders.mle: Prinz self-consistency residual %.3g for the counts passed in' % res, r)
                elif Lt > L + TOL_LOGL * (1 + abs(L)):
                    ctx.violation('builders.mle: log-likelihood %.12g below the transpose estimate %.12g' % (L, Lt), r)
            compare_with_model(ctx, C, 'py', got, m_py, 'builders.mle', r, rerun=fimpl_rerun_py)


def warn_site_check(ctx):
    """the iteration cap: a model plus a ConvergenceWarning is what the property allows"""
    from enspara.msm import builders
    from enspara import exception
    C = np.array([[3., 1., 0.], [2., 0., 4.], [1., 2., 5.]])
    for impl, f in (('py', builders._prinz_mle_py), ('compiled', builders._prinz_mle)):
        for max_iter in (1, 2):
            m = model_result(ctx.driver([model_req(C, impl, max_iter=max_iter)])[0])
            got = call_impl(f, C, max_iter=max_iter)
            rep = dict(case_dict(C, 'cap'), via=impl, max_iter=max_iter)
            ctx.case(rep, nontrivial=True, tags=['cap-%s' % impl])
            if got.get('error') == 'type-error':
                ctx.violation('%s estimator with max_iter=%d: warnings.warn(exception.ConvergenceWarning, "...") '
                              'raises TypeError instead of emitting the convergence warning'
                              % (impl, max_iter), rep)
            elif 'error' in got:
                ctx.violation('%s estimator with max_iter=%d raised %s' % (impl, max_iter, got['error']), rep)
            else:
                if exception.ConvergenceWarning.__name__ not in got['warned']:
                    ctx.violation('%s estimator reached max_iter=%d without a ConvergenceWarning'
                                  % (impl, max_iter), rep)
                if 'ok' in m and not m['warned']:
                    ctx.disagreement('model did not flag the cap', rep)
            compare_with_model(ctx, C, impl, got, m, '%s estimator at the cap' % impl, rep)
        # max_iter = 0 (outside the property; model/implementation correspondence only)
        m = model_result(ctx.driver([model_req(C, impl, max_iter=0)])[0])
        got = call_impl(f, C, max_iter=0)
        ctx.tag('max_iter=0')
        compare_with_model(ctx, C, impl, got, m, '%s estimator with max_iter=0' % impl,
                           dict(case_dict(C, 'cap'), via=impl, max_iter=0))
    # the generated site facts the Lean model was built with must be the behaviour of the staged code
    site = ctx.driver([{'op': 'C12.site'}])[0]['ok']
    facts = check_site_facts(ctx, builders, site, ('py', 'pyx', 'guard'), strict=True)
    ctx.note('warn_call_sites', facts)


def closed_pair_correspondence(ctx):
    """`a == 0` branch inside a larger matrix.  Such matrices are NOT strongly connected (outside the
    property's quantifier), so only model/implementation and py/compiled correspondence is checked
    and every mismatch is reported as a disagreement."""
    from enspara.msm import builders
    mats = [closed_pair_matrix(ctx.rng, int(ctx.rng.integers(3, 7))) for _ in range(ctx.n(6, 60))]
    reqs = []
    for C in mats:
        reqs += [model_req(C, 'py'), model_req(C, 'compiled')]
    resp = ctx.driver(reqs)
    for k, C in enumerate(mats):
        res = {}
        for impl, f, m in (('py', builders._prinz_mle_py, resp[2 * k]),
                           ('compiled', builders._prinz_mle, resp[2 * k + 1])):
            got = call_impl(f, C, cpu_seconds=ctx.n(20, 90))
            res[impl] = got
            ctx.tag('closed-pair(a==0)-correspondence')
            if got.get('error') == 'cpu-timeout':
                continue
            # not strongly connected: the mass of the transient states drains slowly, so the stopping
            # sweep matters more than on in-scope inputs; a wrong `a == 0` branch changes T by >> 1e-6
            compare_with_model(ctx, C, impl, got, model_result(m), '%s estimator, closed pair' % impl,
                               dict(case_dict(C, 'closed-pair'), via=impl), tol=1e-6)
        if 'ok' in res['py'] and 'ok' in res['compiled'] and \
                not (res['py']['warned'] or res['compiled']['warned']) and \
                maxdiff(res['py']['ok'], res['compiled']['ok']) > 1e-4:
            ctx.disagreement('py and compiled estimators differ on a closed-pair matrix',
                             dict(case_dict(C, 'closed-pair'), via='cross'))


def plan(ctx):
    """list of (C, kind, sparse_fmt, int_dtype)"""
    out = []
    # structured family: >= 2 pendant states (c == 0 exactly for their pair), states with only self
    # counts plus one partner, nearly closed pairs (tiny a); hub / chain / core-plus-rare shapes
    sreps = ctx.n(8, 120)
    for si, shape in enumerate(STRUCT_SHAPES):
        for r in range(sreps):
            n = 3 + ((r + si) % 6)
            C = gen_structured(ctx.rng, n, shape, real=(r % 2 == 1))
            fmt = None if r % 2 == 0 else SPARSE_FORMATS[(r // 2 + si) % 7]
            out.append((C, 'struct:' + shape, fmt, True))
    for Cs in ([[0, 2, 0], [1, 3, 4], [0, 1, 0]],                 # two pendants on one hub
               [[0, 1, 6], [4, 0, 0], [2, 0, 0]],                 # hub without self counts
               [[0, 3, 0, 0], [2, 0, 5, 0], [0, 1, 4, 2], [0, 0, 6, 0]],          # chain, pendant ends
               [[0, 2, 0, 0, 0], [1, 7, 3, 0, 0], [0, 2, 9, 1, 0], [0, 0, 4, 5, 2], [0, 0, 0, 3, 0]],
               [[4, 2, 0], [1, 3, 4], [0, 1, 6]],                 # self-plus-one ends
               [[0, 90, 1, 0], [80, 5, 0, 0], [0, 1, 3, 4], [1, 0, 2, 6]]):       # nearly closed pair
        out.append((np.array(Cs, dtype=float), 'struct:hand', 'csr', True))
    # sparse inputs with UN-SUMMED repeated (row, col) entries: coo from a transition list, csr/csc with
    # has_canonical_format False (the dense oracle is .toarray() of a copy)
    for r in range(ctx.n(9, 90)):
        n = 2 + (r % 6)
        kind = ['int-sparse', 'int-dense', 'zero-diag', 'real'][r % 4]
        out.append((gen_matrix(ctx.rng, n, kind), kind, ['coo+dups', 'csr+dups', 'csc+dups'][r % 3], True))
    for r in range(ctx.n(3, 30)):
        A, C = counts_from_assignments(ctx.rng, 2 + (r % 5))
        out.append((C.astype(float), 'assigns_to_counts', 'coo+assigns', True, A))
    # one state (outside `Conn`; Props.C12.one_state): T = [[1]], pi = [1]
    out.append((np.array([[3.]]), 'one-state', None, True))
    out.append((np.array([[0.7]]), 'one-state', 'csr', False))
    out.append((np.array([[5.]]), 'one-state', 'coo+dups', True))
    # hand-picked edges
    out.append((np.array([[0., 1.], [1., 0.]]), 'zero-diag', 'csr', True))
    out.append((np.array([[0., 2.], [1., 0.]]), 'zero-diag', None, True))
    out.append((np.array([[1., 1.], [1., 0.]]), 'int-sparse', 'coo', True))
    out.append((np.array([[5., 1., 0.], [0., 5., 1.], [1., 0., 5.]]), 'asym', 'dia', True))
    out.append((np.array([[0., 7., 0.], [0., 0., 3.], [2., 0., 0.]]), 'asym', 'lil', True))
    reps = ctx.n(30, 600)
    k = 0
    for kind in KINDS:
        for r in range(reps):
            n = 2 + (k % 7)
            k += 1
            if r == 0:
                n = 2
            C = gen_matrix(ctx.rng, n, kind)
            fmt = None if r % 3 == 0 else SPARSE_FORMATS[(k // 3) % 7]
            out.append((C, kind, fmt, r % 2 == 0))
    return out


def run(ctx):
    warn_site_check(ctx)
    cases = plan(ctx)
    reqs = []
    for case in cases:
        reqs.append(model_req(case[0], 'py'))
        reqs.append(model_req(case[0], 'compiled'))
    resp = ctx.driver(reqs)
    sweeps = []
    for idx, case in enumerate(cases):
        C, kind, fmt, intd = case[:4]
        prebuilt = case[4] if len(case) > 4 else None
        m_py = model_result(resp[2 * idx])
        m_c = model_result(resp[2 * idx + 1])
        if 'ok' in m_py:
            sweeps.append(m_py['n_iter'] + 1)
        check_matrix(ctx, C, kind, m_py, m_c, sparse_fmt=fmt, int_dtype=intd, prebuilt=prebuilt)
        if sum(1 for v in ctx.violations if v.get('key') is None) >= 25:
            # failing inputs are on record (the runner reports the smallest): no need to finish the sweep
            ctx.note('stopped_early_after_cases', idx + 1)
            break
    closed_pair_correspondence(ctx)
    if sweeps:
        ctx.note('model_sweeps', {'min': int(min(sweeps)), 'median': int(np.median(sweeps)),
                                  'max': int(max(sweeps))})


def replay(ctx, data):
    if 'max_iter' in data and data.get('kind') == 'cap':
        warn_site_check(ctx)
        return
    C = mat_unbits(data['C'])
    kind = data.get('kind', 'int-dense')
    if kind == 'closed-pair':
        from enspara.msm import builders
        for impl, f in (('py', builders._prinz_mle_py), ('compiled', builders._prinz_mle)):
            m = model_result(ctx.driver([model_req(C, impl)])[0])
            compare_with_model(ctx, C, impl, call_impl(f, C, cpu_seconds=60), m,
                               '%s estimator, closed pair' % impl, dict(data, via=impl), tol=1e-6)
        return
    r = ctx.driver([model_req(C, 'py'), model_req(C, 'compiled')])
    check_matrix(ctx, C, kind, model_result(r[0]), model_result(r[1]),
                 sparse_fmt=data.get('fmt'), int_dtype=data.get('int_dtype', False))
